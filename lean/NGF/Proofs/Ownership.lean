import NGF.Model.Ownership
/-
Helper lemmas for Props/C17 (core Lean only).
-/
set_option linter.unusedSimpArgs false
set_option linter.unusedVariables false

namespace NGF.Ownership

/-! ### generic list lemmas -/

theorem foldl_filter_noop {α β : Type} (f : β → α → β) (p : α → Bool) :
    ∀ (l : List α) (a : β), (∀ x ∈ l, p x = false → ∀ b, f b x = b) →
      (l.filter p).foldl f a = l.foldl f a := by
  intro l
  induction l with
  | nil => intro a _; rfl
  | cons x xs ih =>
    intro a h
    have hxs : ∀ y ∈ xs, p y = false → ∀ b, f b y = b := fun y hy => h y (List.mem_cons_of_mem _ hy)
    cases hp : p x with
    | true => simp [List.filter_cons, hp, ih _ hxs]
    | false =>
      have := h x (List.mem_cons_self) hp a
      simp [List.filter_cons, hp, this, ih _ hxs]

theorem filter_filter_of_imp {α : Type} (p q : α → Bool) (l : List α)
    (h : ∀ x ∈ l, q x = true → p x = true) : (l.filter p).filter q = l.filter q := by
  induction l with
  | nil => rfl
  | cons x xs ih =>
    have hxs : ∀ y ∈ xs, q y = true → p y = true := fun y hy => h y (List.mem_cons_of_mem _ hy)
    cases hp : p x with
    | true => simp [List.filter_cons, hp, ih hxs]
    | false =>
      have hq : q x = false := by
        cases hq : q x with
        | false => rfl
        | true => have := h x (List.mem_cons_self) hq; simp [hp] at this
      simp [List.filter_cons, hp, hq, ih hxs]

theorem filterMap_filter_noop {α β : Type} (f : α → Option β) (p : α → Bool) (l : List α)
    (h : ∀ x ∈ l, p x = false → f x = none) : (l.filter p).filterMap f = l.filterMap f := by
  induction l with
  | nil => rfl
  | cons x xs ih =>
    have hxs : ∀ y ∈ xs, p y = false → f y = none := fun y hy => h y (List.mem_cons_of_mem _ hy)
    cases hp : p x with
    | true => simp [List.filter_cons, hp, List.filterMap_cons, ih hxs]
    | false =>
      have := h x (List.mem_cons_self) hp
      simp [List.filter_cons, hp, List.filterMap_cons, this, ih hxs]

/-! ### processGatewayClasses -/

def isNamed (cfg : Cfg) (c : GwClass) : Bool := decide (c.name = cfg.gcName)
def isWin (cfg : Cfg) (c : GwClass) : Bool := decide (c.name = cfg.gcName) && decide (c.ctlr = cfg.ctlr)
def isIgn (cfg : Cfg) (c : GwClass) : Bool := decide (c.name ≠ cfg.gcName) && decide (c.ctlr = cfg.ctlr)

theorem pgcStep_noop (cfg : Cfg) (acc : PGC) (c : GwClass) (h1 : c.name ≠ cfg.gcName) (h2 : c.ctlr ≠ cfg.ctlr) :
    pgcStep cfg acc c = acc := by
  simp [pgcStep, h1, h2]

theorem pgc_fold_ignored (cfg : Cfg) : ∀ (l : List GwClass) (acc : PGC),
    (l.foldl (pgcStep cfg) acc).ignored = acc.ignored ++ l.filter (isIgn cfg) := by
  intro l
  induction l with
  | nil => intro acc; simp
  | cons x xs ih =>
    intro acc
    simp only [List.foldl_cons, ih]
    by_cases h1 : x.name = cfg.gcName
    · simp [pgcStep, h1, isIgn, List.filter_cons]
    · by_cases h2 : x.ctlr = cfg.ctlr
      · simp [pgcStep, h1, h2, isIgn, List.filter_cons]
      · simp [pgcStep, h1, h2, isIgn, List.filter_cons]

theorem pgc_fold_exists (cfg : Cfg) : ∀ (l : List GwClass) (acc : PGC),
    (l.foldl (pgcStep cfg) acc).gcExists = (acc.gcExists || l.any (isNamed cfg)) := by
  intro l
  induction l with
  | nil => intro acc; simp
  | cons x xs ih =>
    intro acc
    simp only [List.foldl_cons, ih]
    by_cases h1 : x.name = cfg.gcName
    · simp [pgcStep, h1, isNamed]
    · by_cases h2 : x.ctlr = cfg.ctlr
      · simp [pgcStep, h1, h2, isNamed]
      · simp [pgcStep, h1, h2, isNamed]

theorem pgc_fold_winner_some (cfg : Cfg) : ∀ (l : List GwClass) (acc : PGC) (w : GwClass),
    (l.foldl (pgcStep cfg) acc).winner = some w → acc.winner = some w ∨ (w ∈ l ∧ isWin cfg w = true) := by
  intro l
  induction l with
  | nil => intro acc w h; exact Or.inl h
  | cons x xs ih =>
    intro acc w h
    simp only [List.foldl_cons] at h
    rcases ih _ w h with h' | ⟨hm, hw⟩
    · by_cases h1 : x.name = cfg.gcName
      · by_cases h2 : x.ctlr = cfg.ctlr
        · simp [pgcStep, h1, h2] at h'
          subst h'
          exact Or.inr ⟨List.mem_cons_self, by simp [isWin, h1, h2]⟩
        · simp [pgcStep, h1, h2] at h'
          exact Or.inl h'
      · by_cases h2 : x.ctlr = cfg.ctlr
        · simp [pgcStep, h1, h2] at h'; exact Or.inl h'
        · simp [pgcStep, h1, h2] at h'; exact Or.inl h'
    · exact Or.inr ⟨List.mem_cons_of_mem _ hm, hw⟩

theorem pgc_fold_winner_isSome (cfg : Cfg) : ∀ (l : List GwClass) (acc : PGC),
    (acc.winner.isSome = true ∨ ∃ c ∈ l, isWin cfg c = true) → (l.foldl (pgcStep cfg) acc).winner.isSome = true := by
  intro l
  induction l with
  | nil => intro acc h; rcases h with h | ⟨c, hc, _⟩; exact h; cases hc
  | cons x xs ih =>
    intro acc h
    simp only [List.foldl_cons]
    apply ih
    rcases h with h | ⟨c, hc, hw⟩
    · left
      by_cases h1 : x.name = cfg.gcName
      · by_cases h2 : x.ctlr = cfg.ctlr <;> simp [pgcStep, h1, h2, h]
      · by_cases h2 : x.ctlr = cfg.ctlr <;> simp [pgcStep, h1, h2, h]
    · rcases List.mem_cons.mp hc with rfl | hc'
      · left
        simp [isWin] at hw
        simp [pgcStep, hw.1, hw.2]
      · right; exact ⟨c, hc', hw⟩

/-- closed form of the three results of `processGatewayClasses` -/
theorem pgc_ignored (cfg : Cfg) (l : List GwClass) :
    (processGatewayClasses cfg l).ignored = l.filter (isIgn cfg) := by
  simp [processGatewayClasses, pgc_fold_ignored]

theorem pgc_exists (cfg : Cfg) (l : List GwClass) :
    (processGatewayClasses cfg l).gcExists = l.any (isNamed cfg) := by
  simp [processGatewayClasses, pgc_fold_exists]

theorem pgc_winner_some (cfg : Cfg) (l : List GwClass) (w : GwClass)
    (h : (processGatewayClasses cfg l).winner = some w) : w ∈ l ∧ w.name = cfg.gcName ∧ w.ctlr = cfg.ctlr := by
  rcases pgc_fold_winner_some cfg l _ w h with h' | ⟨hm, hw⟩
  · cases h'
  · simp [isWin] at hw; exact ⟨hm, hw.1, hw.2⟩

theorem pgc_winner_isSome_iff (cfg : Cfg) (l : List GwClass) :
    (processGatewayClasses cfg l).winner.isSome = true ↔ ∃ c ∈ l, c.name = cfg.gcName ∧ c.ctlr = cfg.ctlr := by
  constructor
  · intro h
    cases hw : (processGatewayClasses cfg l).winner with
    | none => simp [hw] at h
    | some w => exact ⟨w, pgc_winner_some cfg l w hw⟩
  · rintro ⟨c, hc, h1, h2⟩
    exact pgc_fold_winner_isSome cfg l _ (Or.inr ⟨c, hc, by simp [isWin, h1, h2]⟩)

theorem pgc_restrict (cfg : Cfg) (l : List GwClass) (k : GwClass → Bool)
    (h : ∀ c ∈ l, k c = false → c.name ≠ cfg.gcName ∧ c.ctlr ≠ cfg.ctlr) :
    processGatewayClasses cfg (l.filter k) = processGatewayClasses cfg l := by
  unfold processGatewayClasses
  apply foldl_filter_noop
  intro x hx hk b
  exact pgcStep_noop cfg b x (h x hx hk).1 (h x hx hk).2

/-! ### processGateways -/

theorem minGw_mem : ∀ (gs : List Gw) (m : Gw), minGw m gs ∈ m :: gs := by
  intro gs
  induction gs with
  | nil => intro m; simp [minGw]
  | cons g gs ih =>
    intro m
    simp only [minGw]
    have := ih (if gwLess g m then g else m)
    rcases List.mem_cons.mp this with h | h
    · rw [h]; split <;> simp
    · exact List.mem_cons_of_mem _ (List.mem_cons_of_mem _ h)

theorem pickGateways_winner_mem (l : List Gw) (w : Gw) (h : (pickGateways l).winner = some w) : w ∈ l := by
  cases l with
  | nil => simp [pickGateways] at h
  | cons g gs =>
    simp [pickGateways] at h
    rw [← h]; exact minGw_mem gs g

theorem pickGateways_ignored_sub (l : List Gw) : ∀ g ∈ (pickGateways l).ignored, g ∈ l := by
  cases l with
  | nil => simp [pickGateways]
  | cons g gs =>
    intro x hx
    simp only [pickGateways] at hx
    exact (List.mem_filter.mp hx).1

theorem pickGateways_cover (l : List Gw) (g : Gw) (hg : g ∈ l) : g.nn ∈ allNsNames (pickGateways l) := by
  cases l with
  | nil => cases hg
  | cons g0 gs =>
    simp only [pickGateways, allNsNames]
    by_cases h : g.nn = (minGw g0 gs).nn
    · simp [h]
    · apply List.mem_append_right
      apply List.mem_map.mpr
      exact ⟨g, List.mem_filter.mpr ⟨hg, by simp [h]⟩, rfl⟩

theorem allNsNames_sub (gws : List Gw) (gc : String) :
    ∀ nn ∈ allNsNames (processGateways gws gc), ∃ g ∈ gws, g.cls = gc ∧ g.nn = nn := by
  intro nn h
  unfold processGateways at h
  have hsub : ∀ g ∈ gws.filter (fun g => decide (g.cls = gc)), g ∈ gws ∧ g.cls = gc := by
    intro g hg; have := List.mem_filter.mp hg; exact ⟨this.1, by simpa using this.2⟩
  simp only [allNsNames] at h
  rcases List.mem_append.mp h with h | h
  · cases hw : (pickGateways (gws.filter (fun g => decide (g.cls = gc)))).winner with
    | none => simp [hw] at h
    | some w =>
      simp [hw] at h
      have := hsub w (pickGateways_winner_mem _ w hw)
      exact ⟨w, this.1, this.2, h.symm⟩
  · rcases List.mem_map.mp h with ⟨g, hg, rfl⟩
    have := hsub g (pickGateways_ignored_sub _ g hg)
    exact ⟨g, this.1, this.2, rfl⟩

theorem own_gw_in_names (gws : List Gw) (gc : String) (g : Gw) (hg : g ∈ gws) (hc : g.cls = gc) :
    g.nn ∈ allNsNames (processGateways gws gc) := by
  unfold processGateways
  exact pickGateways_cover _ g (List.mem_filter.mpr ⟨hg, by simp [hc]⟩)

theorem processGateways_restrict (gws : List Gw) (gc : String) (k : Gw → Bool)
    (h : ∀ g ∈ gws, k g = false → g.cls ≠ gc) : processGateways (gws.filter k) gc = processGateways gws gc := by
  unfold processGateways
  rw [filter_filter_of_imp]
  intro g hg hq
  cases hk : k g with
  | true => rfl
  | false => exact absurd (by simpa using hq) (h g hg hk)

theorem winner_some_of_gw (gws : List Gw) (gc : String) (g : Gw) (hg : g ∈ gws) (hc : g.cls = gc) :
    (processGateways gws gc).winner.isSome = true := by
  unfold processGateways
  have : g ∈ gws.filter (fun g => decide (g.cls = gc)) := List.mem_filter.mpr ⟨hg, by simp [hc]⟩
  cases hl : gws.filter (fun g => decide (g.cls = gc)) with
  | nil => rw [hl] at this; cases this
  | cons a b => simp [pickGateways]

/-! ### routes -/

theorem findGw_some (p : PRef) (rns : String) (gws : List NN) (nn : NN) (h : findGw p rns gws = some nn) :
    prefKindOk p = true ∧ nn ∈ gws ∧ nn.ns = p.ns.getD rns ∧ nn.name = p.name := by
  unfold findGw at h
  split at h
  · rename_i hk
    have hm := List.mem_of_find?_eq_some h
    have hp := List.find?_some h
    simp at hp
    exact ⟨hk, hm, hp.1, hp.2⟩
  · cases h

theorem findGw_of_mem (p : PRef) (rns : String) (gws : List NN) (nn : NN) (hk : prefKindOk p = true)
    (hm : nn ∈ gws) (h1 : nn.ns = p.ns.getD rns) (h2 : nn.name = p.name) : (findGw p rns gws).isSome = true := by
  unfold findGw
  simp only [hk, if_true]
  rw [List.find?_isSome]
  exact ⟨nn, hm, by simp [h1, h2]⟩

theorem buildRoute_some (gws : List NN) (r : Route) (rg : RouteG) (h : buildRoute gws r = some rg) :
    resolvesSome gws r = true ∧ rg.kind = r.kind ∧ rg.nn = r.nn ∧ (∀ x ∈ rg.svcs, x ∈ r.svcs) := by
  unfold buildRoute at h
  split at h
  · rename_i hr
    split at h
    · cases h; exact ⟨hr, rfl, rfl, fun x hx => hx⟩
    · cases h; exact ⟨hr, rfl, rfl, fun x hx => by cases hx⟩
  · cases h

theorem buildRoute_isSome (gws : List NN) (r : Route) (h : resolvesSome gws r = true) :
    ∃ rg, buildRoute gws r = some rg ∧ rg.kind = r.kind ∧ rg.nn = r.nn := by
  unfold buildRoute
  simp only [h, if_true]
  split
  · exact ⟨_, rfl, rfl, rfl⟩
  · exact ⟨_, rfl, rfl, rfl⟩

theorem resolvesSome_refsOwn (cfg : Cfg) (s : State) (r : Route)
    (h : resolvesSome (allNsNames (processGateways s.gws cfg.gcName)) r = true) : refsOwnGw cfg s r = true := by
  unfold resolvesSome at h
  rcases List.any_eq_true.mp h with ⟨p, hp, hs⟩
  cases hf : findGw p r.nn.ns (allNsNames (processGateways s.gws cfg.gcName)) with
  | none => simp [hf] at hs
  | some nn =>
    obtain ⟨hk, hm, h1, h2⟩ := findGw_some _ _ _ _ hf
    obtain ⟨g, hg, hc, hn⟩ := allNsNames_sub _ _ nn hm
    unfold refsOwnGw
    apply List.any_eq_true.mpr
    refine ⟨p, hp, ?_⟩
    simp only [hk, Bool.true_and]
    apply List.any_eq_true.mpr
    refine ⟨g, hg, ?_⟩
    subst hn
    simp [hc, h1, h2]

theorem refsOwn_resolvesSome (cfg : Cfg) (s : State) (r : Route) (h : refsOwnGw cfg s r = true) :
    resolvesSome (allNsNames (processGateways s.gws cfg.gcName)) r = true := by
  unfold refsOwnGw at h
  rcases List.any_eq_true.mp h with ⟨p, hp, hs⟩
  simp only [Bool.and_eq_true] at hs
  rcases List.any_eq_true.mp hs.2 with ⟨g, hg, hgs⟩
  simp at hgs
  unfold resolvesSome
  apply List.any_eq_true.mpr
  exact ⟨p, hp, findGw_of_mem p _ _ g.nn hs.1 (own_gw_in_names _ _ g hg hgs.1.1) hgs.1.2 hgs.2⟩

/-! ### SnippetsFilters -/

theorem marksSnippet_resolves (gws : List NN) (r : Route) (sf : NN) (h : marksSnippet gws r sf = true) :
    resolvesSome gws r = true ∧ r.kind ≠ .tls ∧ r.nn.ns = sf.ns ∧ sf.name ∈ r.sfRefs := by
  simp only [marksSnippet, rulesProcessed, Bool.and_eq_true, decide_eq_true_eq, List.contains_iff_mem] at h
  exact ⟨h.1.1.1.1.2, h.1.1.1.1.1, h.1.2, h.2⟩

theorem any_filter_noop {α : Type} (p q : α → Bool) (l : List α) (h : ∀ x ∈ l, p x = false → q x = false) :
    (l.filter p).any q = l.any q := by
  induction l with
  | nil => rfl
  | cons x xs ih =>
    have hxs : ∀ y ∈ xs, p y = false → q y = false := fun y hy => h y (List.mem_cons_of_mem _ hy)
    cases hp : p x with
    | true => simp [List.filter_cons, hp, ih hxs]
    | false => simp [List.filter_cons, hp, h x List.mem_cons_self hp, ih hxs]

/-- dropping routes none of whose parentRefs resolves leaves every `Referenced` flag as it is -/
theorem referencedSnippets_restrict (gws : List NN) (routes : List Route) (sfs : List NN) (k : Route → Bool)
    (h : ∀ r ∈ routes, k r = false → resolvesSome gws r = true → False) :
    referencedSnippets gws (routes.filter k) sfs = referencedSnippets gws routes sfs := by
  unfold referencedSnippets
  congr 1
  funext sf
  apply any_filter_noop
  intro r hr hk
  cases hm : marksSnippet gws r sf with
  | false => rfl
  | true => exact absurd (marksSnippet_resolves gws r sf hm).1 (fun hres => h r hr hk hres)

/-! ### policies -/

theorem gatewayExists_names (nn : NN) (pg : PGws) (h : gatewayExists nn pg = true) : nn ∈ allNsNames pg := by
  unfold gatewayExists at h
  unfold allNsNames
  cases hw : pg.winner with
  | none => simp [hw] at h
  | some w =>
    simp only [hw, Bool.or_eq_true, decide_eq_true_eq] at h
    rcases h with h | h
    · simp [h]
    · apply List.mem_append_right
      rcases List.any_eq_true.mp h with ⟨g, hg, he⟩
      exact List.mem_map.mpr ⟨g, hg, by simpa using he⟩

/-- the graph of `s` as `buildGraph` computes its parts -/
abbrev gPg (cfg : Cfg) (s : State) : PGws := processGateways s.gws cfg.gcName
abbrev gRoutes (cfg : Cfg) (s : State) : List RouteG := s.routes.filterMap (buildRoute (allNsNames (gPg cfg s)))
abbrev gSvcs (cfg : Cfg) (s : State) : List NN := referencedServices (gPg cfg s).winner (gRoutes cfg s)

theorem gRoutes_mem (cfg : Cfg) (s : State) (rg : RouteG) (h : rg ∈ gRoutes cfg s) :
    ∃ r ∈ s.routes, refsOwnGw cfg s r = true ∧ rg.kind = r.kind ∧ rg.nn = r.nn ∧ (∀ x ∈ rg.svcs, x ∈ r.svcs) := by
  rcases List.mem_filterMap.mp h with ⟨r, hr, hb⟩
  obtain ⟨h1, h2, h3, h4⟩ := buildRoute_some _ r rg hb
  exact ⟨r, hr, resolvesSome_refsOwn cfg s r h1, h2, h3, h4⟩

theorem gSvcs_mem (cfg : Cfg) (s : State) (nn : NN) (h : nn ∈ gSvcs cfg s) :
    ∃ r ∈ s.routes, refsOwnGw cfg s r = true ∧ nn ∈ r.svcs := by
  unfold gSvcs referencedServices at h
  cases hw : (gPg cfg s).winner with
  | none => simp [hw] at h
  | some w =>
    simp only [hw] at h
    rcases List.mem_flatMap.mp h with ⟨rg, hrg, hnn⟩
    obtain ⟨r, hr, ho, _, _, hs⟩ := gRoutes_mem cfg s rg (List.mem_filter.mp hrg).1
    exact ⟨r, hr, ho, hs nn hnn⟩

theorem targetOk_own (cfg : Cfg) (s : State) (ns : String) (t : TRef)
    (h : targetOk (gPg cfg s) (gRoutes cfg s) (gSvcs cfg s) ns t = true) : ownTarget cfg s ns t = true := by
  unfold targetOk at h
  unfold ownTarget
  simp only at h ⊢
  split
  · rename_i hk
    simp only [hk, if_true] at h
    obtain ⟨g, hg, hc, hn⟩ := allNsNames_sub _ _ _ (gatewayExists_names _ _ h)
    exact List.any_eq_true.mpr ⟨g, hg, by simp [hc, hn]⟩
  · rename_i hk
    simp only [hk, if_false] at h
    split
    · rename_i hk2
      simp only [hk2, if_true] at h
      rcases List.any_eq_true.mp h with ⟨rg, hrg, he⟩
      obtain ⟨r, hr, ho, h1, h2, _⟩ := gRoutes_mem cfg s rg hrg
      simp at he
      exact List.any_eq_true.mpr ⟨r, hr, by simp [← h1, ← h2, he.1, he.2, ho]⟩
    · rename_i hk2
      simp only [hk2, if_false] at h
      split
      · rename_i hk3
        simp only [hk3, if_true] at h
        rcases List.any_eq_true.mp h with ⟨rg, hrg, he⟩
        obtain ⟨r, hr, ho, h1, h2, _⟩ := gRoutes_mem cfg s rg hrg
        simp at he
        exact List.any_eq_true.mpr ⟨r, hr, by simp [← h1, ← h2, he.1, he.2, ho]⟩
      · rename_i hk3
        simp only [hk3, if_false] at h
        split
        · rename_i hk4
          simp only [hk4, if_true] at h
          rcases List.any_eq_true.mp h with ⟨x, hx, he⟩
          have : x = ⟨ns, t.name⟩ := by simpa using he
          subst this
          obtain ⟨r, hr, ho, hs⟩ := gSvcs_mem cfg s _ hx
          exact List.any_eq_true.mpr ⟨r, hr, by
            simp only [ho, Bool.true_and]
            exact List.any_eq_true.mpr ⟨_, hs, by simp⟩⟩
        · rename_i hk4
          simp [hk4] at h

theorem processPolicy_some (cfg : Cfg) (s : State) (p : Policy) (pg : PolicyG)
    (h : processPolicy (gPg cfg s) (gRoutes cfg s) (gSvcs cfg s) p = some pg) :
    foreignPolicy cfg s p = false ∧ pg.gvk = p.gvk ∧ pg.nn = p.nn := by
  unfold processPolicy at h
  simp only at h
  split at h
  · cases h
  · rename_i hne
    cases h
    refine ⟨?_, rfl, rfl⟩
    cases hl : p.targets.filter (targetOk (gPg cfg s) (gRoutes cfg s) (gSvcs cfg s) p.nn.ns) with
    | nil => simp [hl] at hne
    | cons t ts =>
      have ht : t ∈ p.targets.filter (targetOk (gPg cfg s) (gRoutes cfg s) (gSvcs cfg s) p.nn.ns) := by
        rw [hl]; exact List.mem_cons_self
      have := List.mem_filter.mp ht
      unfold foreignPolicy
      simp only [Bool.not_eq_false']
      exact List.any_eq_true.mpr ⟨t, this.1, targetOk_own cfg s _ t this.2⟩

theorem btpCandidates_own (cfg : Cfg) (s : State) (b : Btp)
    (h : b ∈ btpCandidates (gPg cfg s).winner (gRoutes cfg s) s.btps) : b ∈ s.btps ∧ foreignBtp cfg s b = false := by
  unfold btpCandidates at h
  cases hw : (gPg cfg s).winner with
  | none => simp [hw] at h
  | some w =>
    simp only [hw] at h
    have hm := List.mem_filter.mp h
    refine ⟨hm.1, ?_⟩
    have h2 := hm.2
    simp only [Bool.and_eq_true] at h2
    rcases List.any_eq_true.mp h2.2 with ⟨rg, hrg, he⟩
    simp only [Bool.and_eq_true] at he
    rcases List.any_eq_true.mp he.2 with ⟨t, ht, hs⟩
    rcases List.any_eq_true.mp hs with ⟨x, hx, hxe⟩
    have : x = ⟨b.nn.ns, t⟩ := by simpa using hxe
    subst this
    obtain ⟨r, hr, ho, _, _, hsv⟩ := gRoutes_mem cfg s rg hrg
    unfold foreignBtp
    simp only [Bool.not_eq_false']
    exact List.any_eq_true.mpr ⟨t, ht, List.any_eq_true.mpr ⟨r, hr, by
      simp only [ho, Bool.true_and]
      exact List.any_eq_true.mpr ⟨_, hsv _ hx, by simp⟩⟩⟩

/-! ### BuildGraph -/

theorem processPolicies_eq (pols : List Policy) (pg : PGws) (routes : List RouteG) (svcs : List NN) :
    processPolicies pols pg routes svcs =
      if pg.winner.isNone then [] else pols.filterMap (processPolicy pg routes svcs) := by
  unfold processPolicies
  cases pols with
  | nil => simp
  | cons p ps => simp

theorem buildGraph_unfold (cfg : Cfg) (s : State) :
    buildGraph cfg s =
      if disabled cfg s then Core.empty else
      { winnerClass := (processGatewayClasses cfg s.classes).winner.map (·.name)
        ignoredClasses := (processGatewayClasses cfg s.classes).ignored.map (·.name)
        winnerGw := (gPg cfg s).winner.map (·.nn)
        ignoredGws := (gPg cfg s).ignored.map (·.nn)
        routes := gRoutes cfg s
        policies := processPolicies s.policies (gPg cfg s) (gRoutes cfg s) (gSvcs cfg s)
        refSvcs := gSvcs cfg s
        btps := (btpCandidates (gPg cfg s).winner (gRoutes cfg s) s.btps).map (·.nn)
        snippets := s.snippets
        refSnippets := referencedSnippets (allNsNames (gPg cfg s)) s.routes s.snippets } := by
  simp only [buildGraph, disabled]
  rfl

theorem buildGraph_restrict (cfg : Cfg) (t : State) (k : Keep) (h : Droppable cfg t k) :
    buildGraph cfg (t.restrict k) = buildGraph cfg t := by
  obtain ⟨hc, hg, hr, hp, hb⟩ := h
  have e1 : processGatewayClasses cfg (t.restrict k).classes = processGatewayClasses cfg t.classes :=
    pgc_restrict cfg t.classes k.cls hc
  have e2 : gPg cfg (t.restrict k) = gPg cfg t :=
    processGateways_restrict t.gws cfg.gcName k.gw (fun g hg' hk => by simpa [foreignGw] using hg g hg' hk)
  have e3 : gRoutes cfg (t.restrict k) = gRoutes cfg t := by
    show (t.routes.filter k.rt).filterMap (buildRoute (allNsNames (gPg cfg (t.restrict k)))) = _
    rw [e2]
    apply filterMap_filter_noop
    intro r hr' hk
    have hf := hr r hr' hk
    cases hb' : buildRoute (allNsNames (gPg cfg t)) r with
    | none => rfl
    | some rg =>
      have := resolvesSome_refsOwn cfg t r (buildRoute_some _ r rg hb').1
      simp [foreignRoute, this] at hf
  have e4 : gSvcs cfg (t.restrict k) = gSvcs cfg t := by
    show referencedServices (gPg cfg (t.restrict k)).winner (gRoutes cfg (t.restrict k)) = _
    rw [e2, e3]
  have e5 : processPolicies (t.restrict k).policies (gPg cfg (t.restrict k)) (gRoutes cfg (t.restrict k))
      (gSvcs cfg (t.restrict k)) = processPolicies t.policies (gPg cfg t) (gRoutes cfg t) (gSvcs cfg t) := by
    rw [e2, e3, e4, processPolicies_eq, processPolicies_eq]
    split
    · rfl
    · show (t.policies.filter k.pol).filterMap _ = _
      apply filterMap_filter_noop
      intro p hp' hk
      have hf := hp p hp' hk
      cases hpp : processPolicy (gPg cfg t) (gRoutes cfg t) (gSvcs cfg t) p with
      | none => rfl
      | some pg =>
        have := (processPolicy_some cfg t p pg hpp).1
        simp [this] at hf
  have e6 : btpCandidates (gPg cfg (t.restrict k)).winner (gRoutes cfg (t.restrict k)) (t.restrict k).btps =
      btpCandidates (gPg cfg t).winner (gRoutes cfg t) t.btps := by
    rw [e2, e3]
    cases hw : (gPg cfg t).winner with
    | none => simp [btpCandidates]
    | some w =>
      simp only [btpCandidates]
      show (t.btps.filter k.btp).filter _ = _
      apply filter_filter_of_imp
      intro b hb' hq
      cases hk : k.btp b with
      | true => rfl
      | false =>
        have hf := hb b hb' hk
        have hm : b ∈ btpCandidates (gPg cfg t).winner (gRoutes cfg t) t.btps := by
          simp only [hw, btpCandidates]
          exact List.mem_filter.mpr ⟨hb', hq⟩
        have := (btpCandidates_own cfg t b hm).2
        simp [this] at hf
  have e0 : disabled cfg (t.restrict k) = disabled cfg t := by
    simp only [disabled, e1]
  have e7 : referencedSnippets (allNsNames (gPg cfg (t.restrict k))) (t.restrict k).routes (t.restrict k).snippets =
      referencedSnippets (allNsNames (gPg cfg t)) t.routes t.snippets := by
    rw [e2]
    exact referencedSnippets_restrict _ t.routes t.snippets k.rt (fun r hr' hk hres => by
      have hf := hr r hr' hk
      have := resolvesSome_refsOwn cfg t r hres
      simp [foreignRoute, this] at hf)
  rw [buildGraph_unfold, buildGraph_unfold, e0, e1, e5, e6, e7, e4, e3, e2]
  rfl

/-! ### targets -/

theorem mem_targets (c : Core) (tg : Target) : tg ∈ targets c ↔
    (∃ n, tg = .cls n ∧ (c.winnerClass = some n ∨ n ∈ c.ignoredClasses)) ∨
    (∃ nn, tg = .gw nn ∧ (c.winnerGw = some nn ∨ nn ∈ c.ignoredGws)) ∨
    (∃ r ∈ c.routes, tg = .route r.kind r.nn) ∨
    (∃ p ∈ c.policies, p.hasAncestor = true ∧ tg = .policy p.gvk p.nn) ∨
    (∃ nn ∈ c.btps, tg = .btp nn) ∨ (∃ nn ∈ c.snippets, tg = .snippet nn) := by
  unfold targets
  cases hwc : c.winnerClass <;> cases hwg : c.winnerGw <;>
    simp only [List.mem_append, List.mem_map, List.mem_filter, List.mem_cons, List.not_mem_nil] <;>
    grind

theorem unique_of_pairwise {α κ : Type} (key : α → κ) :
    ∀ (l : List α), l.Pairwise (fun a b => key a ≠ key b) → ∀ a ∈ l, ∀ b ∈ l, key a = key b → a = b := by
  intro l
  induction l with
  | nil => intro _ a ha; cases ha
  | cons x xs ih =>
    intro h a ha b hb hk
    rw [List.pairwise_cons] at h
    rcases List.mem_cons.mp ha with rfl | ha' <;> rcases List.mem_cons.mp hb with rfl | hb'
    · rfl
    · exact absurd hk (h.1 b hb')
    · exact absurd hk.symm (h.1 a ha')
    · exact ih h.2 a ha' b hb' hk

theorem names_of_core (cfg : Cfg) (s : State) (nn : NN)
    (h : (gPg cfg s).winner.map (·.nn) = some nn ∨ nn ∈ (gPg cfg s).ignored.map (·.nn)) :
    nn ∈ allNsNames (gPg cfg s) := by
  unfold allNsNames
  rcases h with h | h
  · cases hw : (gPg cfg s).winner with
    | none => simp [hw] at h
    | some w => simp [hw] at h; simp [h]
  · exact List.mem_append_right _ h

theorem core_of_names (cfg : Cfg) (s : State) (nn : NN) (h : nn ∈ allNsNames (gPg cfg s)) :
    (gPg cfg s).winner.map (·.nn) = some nn ∨ nn ∈ (gPg cfg s).ignored.map (·.nn) := by
  unfold allNsNames at h
  rcases List.mem_append.mp h with h | h
  · cases hw : (gPg cfg s).winner with
    | none => simp [hw] at h
    | some w => simp [hw] at h; left; simp [h]
  · exact Or.inr h

/-- every UpdateRequest of the model is addressed to an object of the state that is not foreign -/
theorem targets_own (cfg : Cfg) (s : State) : ∀ tg ∈ targets (buildGraph cfg s), tg.OwnIn cfg s := by
  intro tg h
  rw [buildGraph_unfold] at h
  split at h
  · simp [targets, Core.empty] at h
  · rw [mem_targets] at h
    simp only at h
    rcases h with ⟨n, rfl, h⟩ | ⟨nn, rfl, h⟩ | ⟨rg, hrg, rfl⟩ | ⟨pg, hpg, _, rfl⟩ | ⟨nn, hnn, rfl⟩ | ⟨nn, hnn, rfl⟩
    · rcases h with h | h
      · cases hw : (processGatewayClasses cfg s.classes).winner with
        | none => simp [hw] at h
        | some w =>
          simp [hw] at h
          obtain ⟨hm, _, hc⟩ := pgc_winner_some cfg _ w hw
          exact ⟨w, hm, h, by simp [foreignClass, hc]⟩
      · rw [pgc_ignored] at h
        rcases List.mem_map.mp h with ⟨c, hc, rfl⟩
        have := List.mem_filter.mp hc
        have h2 := this.2
        simp [isIgn] at h2
        exact ⟨c, this.1, rfl, by simp [foreignClass, h2.2]⟩
    · obtain ⟨g, hg, hc, hn⟩ := allNsNames_sub _ _ nn (names_of_core cfg s nn h)
      exact ⟨g, hg, hn, by simp [foreignGw, hc]⟩
    · obtain ⟨r, hr, ho, h1, h2, _⟩ := gRoutes_mem cfg s rg hrg
      exact ⟨r, hr, h1.symm, h2.symm, by simp [foreignRoute, ho]⟩
    · rw [processPolicies_eq] at hpg
      split at hpg
      · cases hpg
      · rcases List.mem_filterMap.mp hpg with ⟨p, hp, hpp⟩
        obtain ⟨hf, h1, h2⟩ := processPolicy_some cfg s p pg hpp
        exact ⟨p, hp, h1.symm, h2.symm, hf⟩
    · rcases List.mem_map.mp hnn with ⟨b, hb, rfl⟩
      obtain ⟨hm, hf⟩ := btpCandidates_own cfg s b hb
      exact ⟨b, hm, rfl, hf⟩
    · exact hnn

theorem disabled_iff (cfg : Cfg) (s : State) : disabled cfg s = true ↔
    (∃ c ∈ s.classes, c.name = cfg.gcName) ∧ ¬ ∃ c ∈ s.classes, c.name = cfg.gcName ∧ c.ctlr = cfg.ctlr := by
  unfold disabled
  simp only [Bool.and_eq_true]
  rw [pgc_exists, ← pgc_winner_isSome_iff]
  constructor
  · rintro ⟨h1, h2⟩
    refine ⟨?_, ?_⟩
    · rcases List.any_eq_true.mp h1 with ⟨c, hc, hn⟩
      exact ⟨c, hc, by simpa [isNamed] using hn⟩
    · cases hw : (processGatewayClasses cfg s.classes).winner <;> simp [hw] at h2 ⊢
  · rintro ⟨⟨c, hc, hn⟩, h2⟩
    refine ⟨List.any_eq_true.mpr ⟨c, hc, by simp [isNamed, hn]⟩, ?_⟩
    cases hw : (processGatewayClasses cfg s.classes).winner <;> simp [hw] at h2 ⊢

theorem buildGraph_disabled (cfg : Cfg) (s : State) (h : disabled cfg s = true) :
    buildGraph cfg s = Core.empty := by
  rw [buildGraph_unfold]; simp [h]

/-- what is ours gets a status although it loses: classes of our controller, Gateways of the configured
class, Routes referencing one of them -/
theorem own_class_target (cfg : Cfg) (s : State) (hd : disabled cfg s = false) (c : GwClass) (hc : c ∈ s.classes)
    (ho : c.ctlr = cfg.ctlr) : Target.cls c.name ∈ targets (buildGraph cfg s) := by
  rw [buildGraph_unfold]; simp only [hd]
  rw [mem_targets]
  left
  refine ⟨c.name, rfl, ?_⟩
  by_cases hn : c.name = cfg.gcName
  · left
    have := (pgc_winner_isSome_iff cfg s.classes).mpr ⟨c, hc, hn, ho⟩
    cases hw : (processGatewayClasses cfg s.classes).winner with
    | none => simp [hw] at this
    | some w =>
      have hw' := (pgc_winner_some cfg _ w hw).2.1
      simp [hw'.trans hn.symm]
  · right
    show c.name ∈ (processGatewayClasses cfg s.classes).ignored.map (·.name)
    rw [pgc_ignored]
    exact List.mem_map.mpr ⟨c, List.mem_filter.mpr ⟨hc, by simp [isIgn, hn, ho]⟩, rfl⟩

theorem own_gw_target (cfg : Cfg) (s : State) (hd : disabled cfg s = false) (g : Gw) (hg : g ∈ s.gws)
    (ho : g.cls = cfg.gcName) : Target.gw g.nn ∈ targets (buildGraph cfg s) := by
  rw [buildGraph_unfold]; simp only [hd]
  rw [mem_targets]
  right; left
  exact ⟨g.nn, rfl, core_of_names cfg s g.nn (own_gw_in_names _ _ g hg ho)⟩

theorem own_route_target (cfg : Cfg) (s : State) (hd : disabled cfg s = false) (r : Route) (hr : r ∈ s.routes)
    (ho : refsOwnGw cfg s r = true) : Target.route r.kind r.nn ∈ targets (buildGraph cfg s) := by
  rw [buildGraph_unfold]; simp only [hd]
  rw [mem_targets]
  right; right; left
  obtain ⟨rg, hb, h1, h2⟩ := buildRoute_isSome _ r (refsOwn_resolvesSome cfg s r ho)
  exact ⟨rg, List.mem_filterMap.mpr ⟨r, hr, hb⟩, by simp [h1, h2]⟩

/-! ### the class store of a long-lived controller -/

def NamesUnique (l : List GwClass) : Prop := l.Pairwise (fun a b => a.name ≠ b.name)

/-- store and cluster hold the same classes of OUR controller -/
def AgreeOurs (ctlr : String) (cluster store : List GwClass) : Prop :=
  ∀ x : GwClass, x.ctlr = ctlr → (x ∈ store ↔ x ∈ cluster)

theorem upsert_unique (l : List GwClass) (c : GwClass) (h : NamesUnique l) : NamesUnique (upsertCls l c) := by
  unfold NamesUnique upsertCls
  rw [List.pairwise_cons]
  refine ⟨?_, List.Pairwise.filter _ h⟩
  intro x hx
  have := (List.mem_filter.mp hx).2
  intro he; simp [he] at this

theorem remove_unique (l : List GwClass) (n : String) (h : NamesUnique l) : NamesUnique (removeCls l n) :=
  List.Pairwise.filter _ h

theorem clusterStep_unique (l : List GwClass) (e : ClsEv) (h : NamesUnique l) : NamesUnique (clusterStep l e) := by
  cases e with
  | put c => exact upsert_unique l c h
  | del n => exact remove_unique l n h

theorem find_name_none (l : List GwClass) (n : String) (h : l.find? (fun x => decide (x.name = n)) = none) :
    ∀ x ∈ l, x.name ≠ n := by
  intro x hx
  have := List.find?_eq_none.mp h x hx
  simpa using this

theorem find_name_some (l : List GwClass) (n : String) (old : GwClass) (hu : NamesUnique l)
    (h : l.find? (fun x => decide (x.name = n)) = some old) : old ∈ l ∧ old.name = n ∧ ∀ x ∈ l, x.name = n → x = old := by
  have hm := List.mem_of_find?_eq_some h
  have hn : old.name = n := by simpa using List.find?_some h
  exact ⟨hm, hn, fun x hx hxn => unique_of_pairwise (fun c : GwClass => c.name) l hu x hx old hm (hxn.trans hn.symm)⟩

theorem mem_upsert (l : List GwClass) (c x : GwClass) : x ∈ upsertCls l c ↔ x = c ∨ (x ∈ l ∧ x.name ≠ c.name) := by
  simp [upsertCls, List.mem_filter]

theorem mem_remove (l : List GwClass) (n : String) (x : GwClass) : x ∈ removeCls l n ↔ x ∈ l ∧ x.name ≠ n := by
  simp [removeCls, List.mem_filter]

theorem step_agree (ctlr : String) (cluster store : List GwClass) (e : ClsEv) (hu : NamesUnique cluster)
    (h : AgreeOurs ctlr cluster store) : AgreeOurs ctlr (clusterStep cluster e) (storeStep ctlr cluster store e) := by
  intro x hx
  cases e with
  | put c =>
    cases hf : cluster.find? (fun y => decide (y.name = c.name)) with
    | none =>
      have hnone := find_name_none cluster c.name hf
      have hd : delivered ctlr cluster (.put c) = decide (c.ctlr = ctlr) := by simp [delivered, hf]
      by_cases hc : c.ctlr = ctlr
      · simp only [clusterStep, storeStep, hd, hc, decide_true, if_true, mem_upsert, h x hx]
      · simp only [clusterStep, storeStep, hd, hc, decide_false, Bool.false_eq_true, if_false, mem_upsert, h x hx]
        constructor
        · intro hm; exact Or.inr ⟨hm, hnone x hm⟩
        · rintro (rfl | ⟨hm, _⟩)
          · exact absurd hx hc
          · exact hm
    | some old =>
      obtain ⟨hom, hon, huniq⟩ := find_name_some cluster c.name old hu hf
      have hd : delivered ctlr cluster (.put c) = (decide (old.ctlr = ctlr) || decide (c.ctlr = ctlr)) := by
        simp [delivered, hf]
      by_cases hp : (decide (old.ctlr = ctlr) || decide (c.ctlr = ctlr)) = true
      · simp only [clusterStep, storeStep, hd, hp, if_true, mem_upsert, h x hx]
      · simp only [clusterStep, storeStep, hd, hp, Bool.false_eq_true, if_false, mem_upsert, h x hx]
        simp only [Bool.or_eq_true, decide_eq_true_eq, not_or] at hp
        constructor
        · intro hm
          refine Or.inr ⟨hm, fun hn => ?_⟩
          have := huniq x hm hn
          subst this; exact hp.1 hx
        · rintro (rfl | ⟨hm, _⟩)
          · exact absurd hx hp.2
          · exact hm
  | del n =>
    cases hf : cluster.find? (fun y => decide (y.name = n)) with
    | none =>
      have hnone := find_name_none cluster n hf
      have hd : delivered ctlr cluster (.del n) = false := by simp [delivered, hf]
      simp only [clusterStep, storeStep, hd, Bool.false_eq_true, if_false, mem_remove, h x hx]
      exact ⟨fun hm => ⟨hm, hnone x hm⟩, fun hm => hm.1⟩
    | some old =>
      obtain ⟨hom, hon, huniq⟩ := find_name_some cluster n old hu hf
      have hd : delivered ctlr cluster (.del n) = decide (old.ctlr = ctlr) := by simp [delivered, hf]
      by_cases hp : old.ctlr = ctlr
      · simp only [clusterStep, storeStep, hd, hp, decide_true, if_true, mem_remove, h x hx]
      · simp only [clusterStep, storeStep, hd, hp, decide_false, Bool.false_eq_true, if_false, mem_remove, h x hx]
        constructor
        · intro hm
          refine ⟨hm, fun hn => ?_⟩
          have := huniq x hm hn
          subst this; exact hp hx
        · exact fun hm => hm.1

theorem run_agree (ctlr : String) : ∀ (es : List ClsEv) (cluster store : List GwClass),
    NamesUnique cluster → AgreeOurs ctlr cluster store →
      NamesUnique (runClasses ctlr (cluster, store) es).1 ∧
      AgreeOurs ctlr (runClasses ctlr (cluster, store) es).1 (runClasses ctlr (cluster, store) es).2 := by
  intro es
  induction es with
  | nil => intro cluster store hu h; exact ⟨hu, h⟩
  | cons e es ih =>
    intro cluster store hu h
    simp only [runClasses]
    exact ih _ _ (clusterStep_unique cluster e hu) (step_agree ctlr cluster store e hu h)

/-- the early return depends on the classes of our controller and on whether the configured name is taken -/
theorem disabled_congr (cfg : Cfg) (s : State) (a b : List GwClass) (h : AgreeOurs cfg.ctlr a b)
    (hn : (∃ c ∈ a, c.name = cfg.gcName) ↔ (∃ c ∈ b, c.name = cfg.gcName)) :
    disabled cfg { s with classes := a } = disabled cfg { s with classes := b } := by
  have key : ∀ l : List GwClass, (disabled cfg { s with classes := l } = true ↔
      (∃ c ∈ l, c.name = cfg.gcName) ∧ ¬ ∃ c ∈ l, c.name = cfg.gcName ∧ c.ctlr = cfg.ctlr) :=
    fun l => disabled_iff cfg { s with classes := l }
  have hw : (∃ c ∈ a, c.name = cfg.gcName ∧ c.ctlr = cfg.ctlr) ↔ (∃ c ∈ b, c.name = cfg.gcName ∧ c.ctlr = cfg.ctlr) := by
    constructor
    · rintro ⟨c, hc, h1, h2⟩; exact ⟨c, (h c h2).mpr hc, h1, h2⟩
    · rintro ⟨c, hc, h1, h2⟩; exact ⟨c, (h c h2).mp hc, h1, h2⟩
  have : disabled cfg { s with classes := a } = true ↔ disabled cfg { s with classes := b } = true := by
    rw [key, key, hn, hw]
  cases ha : disabled cfg { s with classes := a } <;> cases hb : disabled cfg { s with classes := b } <;> simp_all

/-! ### a concrete cluster used by the non-vacuity examples of Props/C17 -/

def exCfg : Cfg := ⟨"nginx", "gateway.nginx.org/nginx-gateway-controller"⟩

/-- our class, a second class of ours, a class of another controller; two Gateways of ours (gw0 older),
one of the other class (oldest of all); routes to the winner, to the ignored one, to the foreign one and a
shared one; policies and BackendTLSPolicies targeting ours and theirs; SnippetsFilter `sf` referenced by our hr0 (and
by the foreign xr), `xsf` referenced by the foreign xr only, `team-a/sf` by nobody (same name, other namespace). -/
def exState : State :=
  { classes := [⟨"nginx", exCfg.ctlr⟩, ⟨"nginx-2", exCfg.ctlr⟩, ⟨"other", "example.com/other"⟩]
    gws := [⟨⟨"default", "gw0"⟩, "nginx", 5⟩, ⟨⟨"default", "gw1"⟩, "nginx", 7⟩, ⟨⟨"default", "fgw"⟩, "other", 1⟩]
    routes := [
      ⟨.http, ⟨"default", "hr0"⟩, [⟨none, none, none, "gw0", none⟩], true, [⟨"default", "svc0"⟩], true, ["sf"]⟩,
      ⟨.http, ⟨"default", "hr1"⟩, [⟨none, none, some "default", "gw1", some "l0"⟩], true, [⟨"default", "svc1"⟩], true, []⟩,
      ⟨.http, ⟨"default", "xr"⟩, [⟨none, none, none, "fgw", none⟩], true, [⟨"default", "xsvc"⟩], true, ["xsf", "sf"]⟩,
      ⟨.grpc, ⟨"default", "shared"⟩, [⟨none, none, none, "fgw", none⟩, ⟨none, some "Gateway", none, "gw0", none⟩], true, [], true, []⟩,
      ⟨.tls, ⟨"team-a", "tr"⟩, [⟨none, none, none, "gw0", none⟩, ⟨none, some "Service", some "default", "gw0", none⟩], true, [], true, []⟩]
    policies := [
      ⟨"ClientSettingsPolicy", ⟨"default", "csp"⟩, [⟨gatewayGroup, "Gateway", "gw0"⟩], 0⟩,
      ⟨"ClientSettingsPolicy", ⟨"default", "xcsp"⟩, [⟨gatewayGroup, "Gateway", "fgw"⟩], 0⟩,
      ⟨"ObservabilityPolicy", ⟨"default", "obs"⟩, [⟨gatewayGroup, "HTTPRoute", "xr"⟩, ⟨gatewayGroup, "GRPCRoute", "shared"⟩], 1⟩,
      ⟨"UpstreamSettingsPolicy", ⟨"default", "usp"⟩, [⟨"core", "Service", "svc0"⟩], 16⟩,
      ⟨"UpstreamSettingsPolicy", ⟨"default", "xusp"⟩, [⟨"", "Service", "xsvc"⟩], 0⟩]
    btps := [⟨⟨"default", "btp"⟩, ["svc0"], false⟩, ⟨⟨"default", "xbtp"⟩, ["xsvc"], false⟩]
    snippets := [⟨"default", "sf"⟩, ⟨"default", "xsf"⟩, ⟨"team-a", "sf"⟩] }

/-- drops exactly the foreign objects of `exState` -/
def exKeep : Keep :=
  { cls := fun c => c.name != "other"
    gw := fun g => g.nn.name != "fgw"
    rt := fun r => r.nn.name != "xr" && r.nn.name != "tr"
    pol := fun p => p.nn.name != "xcsp" && p.nn.name != "xusp"
    btp := fun b => b.nn.name != "xbtp" }

/-- `exState` with the configured-name class handed to another controller -/
def exDisabled : State :=
  { exState with classes := [⟨"nginx", "example.com/other"⟩, ⟨"nginx-2", exCfg.ctlr⟩] }

end NGF.Ownership
