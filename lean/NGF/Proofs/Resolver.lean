/-
Helper lemmas for C13 (`NGF.Props.C13`): duplicate-free lists, `findPort`, association tables.
Core Lean only.
-/
import NGF.Model.Resolver
import NGF.Model.ResolverSpec

namespace NGF.Resolver

/-! ### dedup -/

theorem mem_dedup {α} [DecidableEq α] {a : α} : ∀ {l : List α}, a ∈ dedup l ↔ a ∈ l
  | [] => by simp [dedup]
  | b :: l => by
    have ih := @mem_dedup α _ a l
    by_cases h : b ∈ dedup l
    · simp only [dedup, h, if_true, List.mem_cons]
      constructor
      · intro h'; exact Or.inr (ih.mp h')
      · rintro (rfl | h')
        · exact h
        · exact ih.mpr h'
    · simp only [dedup, h, if_false, List.mem_cons, ih]

theorem nodup_dedup {α} [DecidableEq α] : ∀ (l : List α), (dedup l).Nodup
  | [] => by simp [dedup]
  | b :: l => by
    by_cases h : b ∈ dedup l
    · simp only [dedup, h, if_true]; exact nodup_dedup l
    · simp only [dedup, h, if_false]; exact List.nodup_cons.mpr ⟨h, nodup_dedup l⟩

theorem nodupB_iff {α} [DecidableEq α] : ∀ {l : List α}, nodupB l = true ↔ l.Nodup
  | [] => by simp [nodupB]
  | a :: l => by simp [nodupB, List.nodup_cons, @nodupB_iff α _ l]

/-! ### findPort -/

theorem findPort_eq (ports : List EndpointPort) (sp : SvcPort) :
    findPort ports sp = match ports.find? (hitsB sp) with
      | some p => hitValue sp p
      | none => 0 := by
  induction ports with
  | nil => simp [findPort]
  | cons p ps ih =>
    cases hp : p.port with
    | none => simp [findPort, hp, hitsB, hitValue]
    | some n =>
      by_cases hn : p.name = some sp.name
      · simp [findPort, hp, hn, hitsB, hitValue]
      · simp [findPort, hp, hn, hitsB, ih]

theorem publishedPort_eq (ports : List EndpointPort) (sp : SvcPort) :
    publishedPort ports sp = if findPort ports sp = 0 then none else some (findPort ports sp) := by
  rw [findPort_eq]
  unfold publishedPort
  cases ports.find? (hitsB sp) <;> simp

theorem publishedPort_some {ports : List EndpointPort} {sp : SvcPort} {q : Nat} :
    publishedPort ports sp = some q ↔ findPort ports sp = q ∧ q ≠ 0 := by
  rw [publishedPort_eq]
  by_cases h : findPort ports sp = 0
  · simp [h]; intro h'; exact h'.symm
  · simp [h]; intro h'; subst h'; exact h

theorem getDefaultPort_ne_zero {sp : SvcPort} (h : sp.port ≠ 0) : getDefaultPort sp ≠ 0 := by
  unfold getDefaultPort
  cases sp.targetPort with
  | int n => by_cases hn : n = 0 <;> simp [hn, h]
  | str _ => simpa using h

theorem mem_candidatePorts {ports : List EndpointPort} {sp : SvcPort} {q : Nat} :
    q ∈ candidatePorts ports sp ↔ ∃ p ∈ ports, hitsB sp p = true ∧ hitValue sp p = q := by
  simp only [candidatePorts, List.mem_filterMap]
  constructor
  · rintro ⟨p, hp, h⟩
    refine ⟨p, hp, ?_⟩
    cases hpp : p.port with
    | none => simp [hpp] at h; simp [hitsB, hitValue, hpp, h]
    | some n =>
      simp only [hpp] at h
      by_cases hn : p.name = some sp.name
      · simp [hn] at h; simp [hitsB, hitValue, hpp, hn, h]
      · simp [hn] at h
  · rintro ⟨p, hp, hh, hv⟩
    refine ⟨p, hp, ?_⟩
    cases hpp : p.port with
    | none => simp [hitValue, hpp] at hv; simp [hv]
    | some n =>
      simp [hitValue, hpp] at hv
      simp [hitsB, hpp] at hh
      simp [hh, hv]

theorem findPort_mem_candidates {ports : List EndpointPort} {sp : SvcPort} (h : findPort ports sp ≠ 0) :
    findPort ports sp ∈ candidatePorts ports sp := by
  rw [findPort_eq] at h ⊢
  cases hf : ports.find? (hitsB sp) with
  | none => simp [hf] at h
  | some p =>
    simp only []
    exact mem_candidatePorts.mpr ⟨p, List.mem_of_find?_eq_some hf, List.find?_some hf, rfl⟩

theorem findPort_ne_zero_of_candidates {ports : List EndpointPort} {sp : SvcPort} (hsp : sp.port ≠ 0)
    (hz : ∀ p ∈ ports, p.port ≠ some 0) (hc : candidatePorts ports sp ≠ []) : findPort ports sp ≠ 0 := by
  obtain ⟨q, hq⟩ := List.exists_mem_of_ne_nil _ hc
  obtain ⟨p, hp, hh, _⟩ := mem_candidatePorts.mp hq
  rw [findPort_eq]
  cases hf : ports.find? (hitsB sp) with
  | none =>
    have := List.find?_eq_none.mp hf p hp
    simp [hh] at this
  | some p' =>
    simp only []
    have hp' := List.mem_of_find?_eq_some hf
    unfold hitValue
    cases hpp : p'.port with
    | none => exact getDefaultPort_ne_zero hsp
    | some n =>
      simp only []
      intro hn; subst hn
      exact hz p' hp' hpp

/-! ### resolve -/

theorem mem_sliceEndpoints {s : Slice} {sp : SvcPort} {e : Ep} :
    e ∈ sliceEndpoints s sp ↔
      e.port = findPort s.ports sp ∧ e.ipv6 = decide (s.addrType = .ipv6) ∧
      ∃ ep ∈ s.endpoints, ep.ready = some true ∧ e.address ∈ ep.addresses := by
  simp only [sliceEndpoints, List.mem_flatMap, List.mem_filter, List.mem_map, endpointReady, beq_iff_eq]
  constructor
  · rintro ⟨ep, ⟨hep, hr⟩, a, ha, rfl⟩
    exact ⟨rfl, rfl, ep, hep, hr, ha⟩
  · rintro ⟨hp, hv, ep, hep, hr, ha⟩
    refine ⟨ep, ⟨hep, hr⟩, e.address, ha, ?_⟩
    cases e; simp_all

theorem mem_listSlices {all : List Slice} {ns name : String} {s : Slice} (hname : name ≠ "") :
    s ∈ listSlices all ns name ↔ s ∈ all ∧ s.ns = ns ∧ s.svcLabel = some name := by
  have key : indexKey s = some name ↔ s.svcLabel = some name := by
    unfold indexKey
    cases hl : s.svcLabel with
    | none => simp
    | some v =>
      by_cases hv : v = ""
      · subst hv; simp; intro h; exact hname h
      · simp [hv]
  simp only [listSlices, List.mem_filter, Bool.and_eq_true, decide_eq_true_eq, key]

theorem mem_filterEndpointSliceList {l : List Slice} {sp : SvcPort} {allowed : List AddrType} {s : Slice} :
    s ∈ filterEndpointSliceList l sp allowed ↔
      s ∈ l ∧ s.addrType ≠ .fqdn ∧ s.addrType ∈ allowed ∧ findPort s.ports sp ≠ 0 := by
  simp only [filterEndpointSliceList, List.mem_filter, ignoreEndpointSlice]
  by_cases h1 : s.addrType = .fqdn
  · simp [h1]
  · by_cases h2 : s.addrType ∈ allowed
    · simp [h1, h2]
    · simp [h1, h2]

theorem mem_collect {f : List Slice} {sp : SvcPort} {e : Ep} :
    e ∈ collect f sp ↔ ∃ s ∈ f, e ∈ sliceEndpoints s sp := by
  simp [collect, mem_dedup, List.mem_flatMap]

theorem resolve_eps_eq {all : List Slice} {ns name : String} {sp : SvcPort} {allowed : List AddrType}
    (hp : sp.port ≠ 0) (hname : name ≠ "") (hns : ns ≠ "") :
    (resolve all ns name sp allowed).eps =
      collect (filterEndpointSliceList (listSlices all ns name) sp allowed) sp := by
  simp only [resolve, hp, hname, hns, or_self, if_false, resolveEndpoints]
  by_cases h1 : (listSlices all ns name).isEmpty
  · have : listSlices all ns name = [] := by simpa using h1
    simp [this, Res.eps, filterEndpointSliceList, collect, dedup]
  · simp only [h1]
    by_cases h2 : (filterEndpointSliceList (listSlices all ns name) sp allowed).isEmpty
    · have : filterEndpointSliceList (listSlices all ns name) sp allowed = [] := by simpa using h2
      simp [this, Res.eps, collect, dedup]
    · simp [h2, Res.eps]

theorem mem_resolve_eps {all : List Slice} {ns name : String} {sp : SvcPort} {allowed : List AddrType}
    (hp : sp.port ≠ 0) (hname : name ≠ "") (hns : ns ≠ "") (e : Ep) :
    e ∈ (resolve all ns name sp allowed).eps ↔ InSpec all ns name sp allowed e := by
  rw [resolve_eps_eq hp hname hns, mem_collect]
  constructor
  · rintro ⟨s, hs, he⟩
    obtain ⟨hl, hf, ha, hq⟩ := mem_filterEndpointSliceList.mp hs
    obtain ⟨hall, hns', hlab⟩ := (mem_listSlices hname).mp hl
    obtain ⟨hport, hv6, hep⟩ := mem_sliceEndpoints.mp he
    exact ⟨s, hall, hns', hlab, hf, ha, publishedPort_some.mpr ⟨hport.symm, hport ▸ hq⟩, hv6, hep⟩
  · rintro ⟨s, hall, hns', hlab, hf, ha, hpub, hv6, hep⟩
    obtain ⟨hport, hq⟩ := publishedPort_some.mp hpub
    refine ⟨s, mem_filterEndpointSliceList.mpr ⟨(mem_listSlices hname).mpr ⟨hall, hns', hlab⟩, hf, ha, ?_⟩,
      mem_sliceEndpoints.mpr ⟨hport.symm, hv6, hep⟩⟩
    rw [hport]; exact hq

theorem nodup_resolve_eps (all : List Slice) (ns name : String) (sp : SvcPort) (allowed : List AddrType) :
    (resolve all ns name sp allowed).eps.Nodup := by
  unfold resolve resolveEndpoints
  split
  · simp [Res.eps]
  · simp only []
    split
    · simp [Res.eps]
    · split
      · simp [Res.eps]
      · simp only [Res.eps, collect]; exact nodup_dedup _

/-! ### the judge accepts what the model computes -/

theorem mem_relevant {all : List Slice} {ns name : String} {allowed : List AddrType} {s : Slice} :
    s ∈ relevant all ns name allowed ↔
      s ∈ all ∧ s.ns = ns ∧ s.svcLabel = some name ∧ s.addrType ≠ .fqdn ∧ s.addrType ∈ allowed := by
  simp [relevant, belongs, eligible, and_assoc]

theorem mem_readyAddrs {s : Slice} {a : String} :
    a ∈ readyAddrs s ↔ ∃ ep ∈ s.endpoints, ep.ready = some true ∧ a ∈ ep.addresses := by
  simp [readyAddrs, List.mem_flatMap, and_assoc]

theorem judgeResolve_model {all : List Slice} {ns name : String} {sp : SvcPort} {allowed : List AddrType}
    (hadm : admissible all ns name sp allowed = true) :
    judgeResolve all ns name sp allowed (resolve all ns name sp allowed).eps = [] := by
  simp only [admissible, Bool.and_eq_true, decide_eq_true_eq, Bool.not_eq_true', List.any_eq_false] at hadm
  obtain ⟨⟨⟨hp, hname⟩, hns⟩, hz⟩ := hadm
  have hmem := @mem_resolve_eps all ns name sp allowed hp hname hns
  have h1 : nodupB (resolve all ns name sp allowed).eps = true :=
    nodupB_iff.mpr (nodup_resolve_eps all ns name sp allowed)
  have h2 : judgeSound (relevant all ns name allowed) sp (resolve all ns name sp allowed).eps = true := by
    simp only [judgeSound, List.all_eq_true, List.any_eq_true]
    intro e he
    obtain ⟨s, hall, hns', hlab, hf, ha, hpub, hv6, hep⟩ := (hmem e).mp he
    obtain ⟨hport, hq⟩ := publishedPort_some.mp hpub
    refine ⟨s, mem_relevant.mpr ⟨hall, hns', hlab, hf, ha⟩, ?_⟩
    simp only [epOfSlice, Bool.and_eq_true, decide_eq_true_eq]
    refine ⟨⟨hv6, mem_readyAddrs.mpr hep⟩, ?_⟩
    rw [← hport]; exact findPort_mem_candidates (by rw [hport]; exact hq)
  have h3 : judgeComplete (relevant all ns name allowed) sp (resolve all ns name sp allowed).eps = true := by
    simp only [judgeComplete, List.all_eq_true, Bool.or_eq_true, List.any_eq_true, Bool.and_eq_true,
      decide_eq_true_eq]
    intro s hs
    by_cases hc : candidatePorts s.ports sp = []
    · left; simp [hc]
    · right
      intro a ha
      obtain ⟨hall, hns', hlab, hf, hal⟩ := mem_relevant.mp hs
      have hzs : ∀ p ∈ s.ports, p.port ≠ some 0 := by
        have := hz s hs
        intro p hpm hp0
        apply this
        simp only [zeroPort, List.any_eq_true, decide_eq_true_eq]
        exact ⟨p, hpm, hp0⟩
      have hq := findPort_ne_zero_of_candidates hp hzs hc
      refine ⟨⟨a, findPort s.ports sp, decide (s.addrType = .ipv6)⟩, ?_, ⟨rfl, rfl⟩, findPort_mem_candidates hq⟩
      exact (hmem _).mpr ⟨s, hall, hns', hlab, hf, hal, publishedPort_some.mpr ⟨rfl, hq⟩, rfl,
        mem_readyAddrs.mp ha⟩
  simp [judgeResolve, h1, h2, h3]

end NGF.Resolver
