/-
Lexical lemmas about the arguments NGF composes in Go (Model/InjCompose): concatenation of inert
pieces, literals, decimal numbers. Core Lean only.
-/
import NGF.Model.InjCompose
import NGF.Proofs.NginxLexHoles
import NGF.Proofs.InjBridge

namespace NGF.Inj
open NGF.Nginx

theorem inert_append {m : Mode} {a b : List Char} (ha : Inert m a) (hb : Inert m b) : Inert m (a ++ b) := by
  induction ha with
  | nil => simpa using hb
  | plain h1 h2 _ ih => exact .plain h1 h2 ih
  | esc _ ih => exact .esc ih

/-- executable check: every character is non-terminating and not a backslash -/
def allPlainFor (m : Mode) (v : List Char) : Bool := v.all (fun c => !isTerm m c && c != '\\')

theorem inert_of_allPlainFor {m : Mode} {v : List Char} (h : allPlainFor m v = true) : Inert m v := by
  apply inert_of_all_plain
  intro c hc
  have := List.all_eq_true.mp h c hc
  simp only [Bool.and_eq_true, Bool.not_eq_true', bne_iff_ne, ne_eq] at this
  exact this

theorem no_backslash_of_allPlainFor {m : Mode} {v : List Char} (h : allPlainFor m v = true) : '\\' ∉ v := by
  intro hc
  have := List.all_eq_true.mp h _ hc
  simp at this

theorem digits_plain (n : Nat) : ∀ c ∈ natDigits n, Plain c := by
  intro c hc
  have hd : c.isDigit = true := by
    apply Nat.isDigit_of_mem_toDigits (b := 10) (n := n) (by decide) (by decide)
    simpa [natDigits, toString, Nat.repr] using hc
  simp only [Char.isDigit, Bool.and_eq_true, decide_eq_true_eq] at hd
  intro hs
  have h1 : 48 ≤ c.toNat := by
    have := hd.1; exact this
  have h2 : c.toNat ≤ 57 := by
    have := hd.2; exact this
  simp only [specials, List.mem_cons, List.not_mem_nil, or_false] at hs
  omega

theorem not_mem_append {c : Char} {a b : List Char} (ha : c ∉ a) (hb : c ∉ b) : c ∉ a ++ b := by
  intro h
  rcases List.mem_append.mp h with h | h
  · exact ha h
  · exact hb h

end NGF.Inj
