/-
The dataflow and the walk over the templates for the WEAK word predicates of Model/PrintEsc (match paths with backslashes,
redirect hostnames with `\x` pairs): `ConfP wP (genR s order)` from the validators alone (generic Proofs/PrintFlow), and
`dirsOKw (render c)`. Everything that does not involve a match path or a redirect part is taken from the strict walk
(Proofs/PrintFields) through `dirOKw_of_dirOK`. Core Lean only.
-/
import NGF.Proofs.PrintFields
import NGF.Proofs.PrintLexEsc

namespace NGF.Print
open NGF.Nginx NGF.Pipeline NGF.Render NGF.Mangle NGF.PrintGuards

/-- the weak instance: paths may contain backslashes, quoted parts are in escaped-string shape; the rest as `lexP` -/
def wP : Preds :=
  { host := fun h => bareOK h = true, path := fun p => looseOK p = true, name := fun n => n.all tailChar = true,
    target := fun t => bareOK t = true, dq := fun x => escOK x = true }

theorem looseOK_slash {p : List Char} (h : looseOK p = true) : looseOK (p ++ ['/']) = true := by
  cases p with
  | nil => simp [looseOK] at h
  | cons c t =>
    simp only [looseOK, Bool.and_eq_true] at h
    simp only [List.cons_append, looseOK, Bool.and_eq_true, List.all_append]
    exact ⟨h.1, h.2, by decide⟩

theorem confW_genR {s : Scenario} (hs : FieldsP wP s) (order : List Nat) : ConfP wP (genR s order) :=
  confP_genR (P := wP) (by show bareOK Hostname.wildcardHostname = true; decide) (fun _ hp => looseOK_slash hp) hs order

theorem dirOKw_dir {n : String} {args : List Render.Arg} (hn : bareOK n.toList = true) (ha : ∀ a ∈ args, argOKw a = true) :
    dirOKw (dir n args) = true := by
  simp only [dir, dirOKw, Bool.and_eq_true, List.all_eq_true]
  exact ⟨hn, ha⟩

theorem dirOKw_blk {n : String} {args : List Render.Arg} {ch : List Dir} (hn : bareOK n.toList = true)
    (ha : headOKw args = true) (hc : ∀ d ∈ ch, dirOKw d = true) : dirOKw (blk n args ch) = true := by
  simp only [blk, dirOKw, Bool.and_eq_true]
  exact ⟨⟨hn, ha⟩, (dirsOKw_iff ch).mpr hc⟩

theorem redirectBody_esc {sch host : Option Str} {port : Option Nat} (h1 : ∀ x, sch = some x → escOK x = true)
    (h2 : ∀ x, host = some x → escOK x = true) : escOK (redirectBody sch host port) = true := by
  unfold redirectBody
  refine escOK_append (escOK_append (escOK_append (escOK_append ?_ (by decide)) ?_) ?_) (by decide)
  · cases sch with
    | none => decide
    | some x => exact h1 x rfl
  · cases host with
    | none => decide
    | some x => exact h2 x rfl
  · cases port with
    | none => decide
    | some p =>
      show escOK (':' :: digits p) = true
      exact escOK_append (a := [':']) (by decide) (escOK_of_dqOK (dqOK_digits p))

theorem actDirs_w {a : RAct} (h : ActP wP a) : ∀ d ∈ actDirs a, dirOKw d = true := by
  intro d hd
  cases a with
  | proxy src bs =>
    have h' : ActOK (.proxy src bs) := h
    exact dirOKw_of_dirOK d (actDirs_ok h' d hd)
  | status code =>
    exact dirOKw_of_dirOK d (actDirs_ok (a := .status code) trivial d hd)
  | redirect code sch host port =>
    simp only [actDirs, List.mem_cons, List.not_mem_nil, or_false] at hd
    rcases hd with rfl | rfl
    · refine dirOKw_dir (by decide) ?_
      intro x hx
      simp only [List.mem_cons, List.not_mem_nil, or_false] at hx
      rcases hx with rfl | rfl
      · exact argOKw_of_argOK (argOK_wl (bareOK_digits code))
      · show escOK (redirectBody sch host port) = true
        exact redirectBody_esc h.1 h.2
    · exact dirOKw_of_dirOK _ httpVersion_ok

theorem locArgs_w {k : Bool × Str} (h : looseOK k.2 = true) : headOKw (locArgs k) = true := by
  unfold locArgs
  split
  · simp only [headOKw, Bool.and_eq_true]
    exact ⟨by decide, by simpa [lastOKw, wl] using h⟩
  · simpa [headOKw, lastOKw, wl] using h

theorem renderRule_w (sid : Nat) {r : RRule} (h : RuleP wP r) : ∀ d ∈ renderRule sid r, dirOKw d = true := by
  intro d hd
  unfold renderRule at hd
  obtain ⟨hext, hact⟩ := h
  split at hd
  · rename_i a ha
    rw [ha] at hact
    obtain ⟨k, hk, rfl⟩ := List.mem_map.mp hd
    exact dirOKw_blk (by decide) (locArgs_w (hext k hk)) (actDirs_w hact)
  · rename_i ms hms
    rw [hms] at hact
    rcases List.mem_append.mp hd with hd | hd
    · obtain ⟨k, hk, rfl⟩ := List.mem_map.mp hd
      exact dirOKw_blk (by decide) (locArgs_w (hext k hk)) fun x hx => dirOKw_of_dirOK x (njsDirs_ok sid r.idx x hx)
    · obtain ⟨jm, hjm, rfl⟩ := List.mem_map.mp hd
      refine dirOKw_blk (by decide) ?_ ?_
      · simpa [headOKw, lastOKw, wl] using looseOK_of_bareOK (internalLocPath_ok r.idx jm.1)
      · intro x hx
        rcases List.mem_cons.mp hx with rfl | hx
        · decide
        · exact actDirs_w (hact jm.2 (enumFrom_mem_snd hjm)) x hx

theorem renderServer_w {sv : RServer} (h : ServerP wP sv) : dirOKw (renderServer sv) = true := by
  refine dirOKw_blk (by decide) rfl ?_
  intro d hd
  simp only [List.mem_append, List.mem_flatMap] at hd
  rcases hd with ((hd | hd) | ⟨r, hr, hd⟩) | hd
  · exact dirOKw_of_dirOK d (listenDirs_ok sv.port [] (by simp) d hd)
  · simp only [List.mem_cons, List.not_mem_nil, or_false] at hd
    subst hd
    refine dirOKw_of_dirOK _ (dirOK_dir (by decide) ?_)
    intro a ha
    simp only [List.mem_cons, List.not_mem_nil, or_false] at ha
    subst ha
    exact argOK_wl h.1
  · have : r ∈ sv.rules := by
      unfold sortRules at hr
      exact List.mem_mergeSort.mp hr
    exact renderRule_w sv.sid (h.2 r this) d hd
  · split at hd
    · simp only [List.mem_cons, List.not_mem_nil, or_false] at hd
      subst hd; exact dirOKw_of_dirOK _ rootLoc_ok
    · simp at hd

/-- the walk for the weak predicates -/
theorem dirsOKw_render {c : ConfR} (h : ConfP wP c) : dirsOKw (render c) = true := by
  rw [dirsOKw_iff]
  intro d hd
  simp only [render, List.mem_cons, List.mem_append] at hd
  rcases hd with ((rfl | hd) | hd) | hd
  · decide
  · unfold serverDirs at hd
    obtain ⟨p, hp, rfl⟩ := List.mem_map.mp hd
    have hp := List.mem_mergeSort.mp hp
    rcases List.mem_append.mp hp with hp | hp
    · obtain ⟨x, _, rfl⟩ := List.mem_map.mp hp
      exact dirOKw_of_dirOK _ (renderDefault_ok _)
    · obtain ⟨sv, hsv, rfl⟩ := List.mem_map.mp hp
      exact renderServer_w (h.1 sv hsv)
  · exact dirOKw_of_dirOK d (tailServers_ok d hd)
  · unfold splitDirs at hd
    obtain ⟨g, hg, rfl⟩ := List.mem_map.mp hd
    have := h.2 g (List.mem_filter.mp hg).1
    have h1 : SrcOK g.1 := this.1
    have h2 : BsOK g.2 := this.2
    exact dirOKw_of_dirOK _ (splitBlock_ok h1 h2)

end NGF.Print
