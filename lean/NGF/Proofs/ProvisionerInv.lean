/-
C18: the structural invariant `WF` of the provisioner model and the effect of one
`ensureDeploymentsMatchGateways` on the provisions map.
-/
import NGF.Proofs.Provisioner
import NGF.Proofs.ProvisionerNames

namespace NGF.Prov

theorem eq_of_nodup_map {α γ : Type} {f : α → γ} {l : List α} (h : (l.map f).Nodup) {x y : α}
    (hx : x ∈ l) (hy : y ∈ l) (e : f x = f y) : x = y := by
  induction l with
  | nil => simp at hx
  | cons a t ih =>
    simp only [List.map_cons, List.nodup_cons, List.mem_map, not_exists, not_and] at h
    rcases List.mem_cons.mp hx with rfl | hx' <;> rcases List.mem_cons.mp hy with rfl | hy'
    · rfl
    · exact absurd e.symm (h.1 y hy')
    · exact absurd e (h.1 x hx')
    · exact ih h.2 hx' hy'

/-- what holds in every reachable state, crashed or not -/
structure WF (cfg : Cfg) (s : State) : Prop where
  cluster_eq : s.cluster = s.prov.map (·.2)
  prepared   : ∀ p ∈ s.prov, ∃ i, i < s.nextID ∧ p.2 = prepare cfg.tmpl i p.1
  provKeys   : (s.prov.map (·.1)).Nodup
  gwKeys     : (s.gws.map (·.1)).Nodup
  names      : (s.prov.map (·.2.name)).Nodup
  crash      : s.crashed = none ∨ s.crashed = some .gcAbsent

theorem wf_init (cfg : Cfg) : WF cfg init := by
  constructor <;> simp [init]

/-! ### store.update and setGatewayClassStatuses touch only their own fields -/

@[simp] theorem storeUpdate1_prov (s : State) (e : Ev) : (storeUpdate1 s e).prov = s.prov := by cases e <;> rfl
@[simp] theorem storeUpdate1_cluster (s : State) (e : Ev) : (storeUpdate1 s e).cluster = s.cluster := by cases e <;> rfl
@[simp] theorem storeUpdate1_nextID (s : State) (e : Ev) : (storeUpdate1 s e).nextID = s.nextID := by cases e <;> rfl
@[simp] theorem storeUpdate1_crashed (s : State) (e : Ev) : (storeUpdate1 s e).crashed = s.crashed := by cases e <;> rfl

theorem storeUpdate1_wf {cfg : Cfg} {s : State} (h : WF cfg s) (e : Ev) : WF cfg (storeUpdate1 s e) := by
  obtain ⟨a, b, c, d, n, f⟩ := h
  constructor
  · simpa using a
  · simpa using b
  · simpa using c
  · cases e <;> simp only [storeUpdate1] <;>
      first | exact d | exact nodup_keys_upsert d _ _ | exact nodup_keys_erase d _
  · simpa using n
  · simpa using f

theorem storeUpdate_frame (s : State) (b : List Ev) :
    (storeUpdate s b).prov = s.prov ∧ (storeUpdate s b).cluster = s.cluster ∧
    (storeUpdate s b).nextID = s.nextID ∧ (storeUpdate s b).crashed = s.crashed := by
  unfold storeUpdate
  induction b generalizing s with
  | nil => simp
  | cons e t ih => simp only [List.foldl_cons]; have := ih (storeUpdate1 s e); simpa using this

theorem storeUpdate_wf {cfg : Cfg} {s : State} (h : WF cfg s) (b : List Ev) : WF cfg (storeUpdate s b) := by
  unfold storeUpdate
  induction b generalizing s with
  | nil => exact h
  | cons e t ih => exact ih (storeUpdate1_wf h e)

theorem setStatuses_wf {cfg : Cfg} {s : State} (h : WF cfg s) (hc : s.crashed = none) : WF cfg (setStatuses cfg s) := by
  obtain ⟨a, b, c, d, n, f⟩ := h
  unfold setStatuses
  split <;> constructor <;> simp_all

/-! ### the create loop -/

theorem createOne_eq {cfg : Cfg} {s : State} (h : WF cfg s) (hc : s.crashed = none) {k : Key}
    (hk : hasKey s.prov k = false) :
    createOne cfg s k =
      { s with nextID := s.nextID + 1, cluster := s.cluster ++ [prepare cfg.tmpl s.nextID k],
               prov := s.prov ++ [(k, prepare cfg.tmpl s.nextID k)] } := by
  have hany : s.cluster.any (fun e => e.name == (prepare cfg.tmpl s.nextID k).name) = false := by
    rw [h.cluster_eq]
    simp only [List.any_map, List.any_eq_false, Function.comp_apply, beq_iff_eq]
    intro p hp e
    obtain ⟨i, hi, hpi⟩ := h.prepared p hp
    rw [hpi] at e
    have := idName_inj (show idName i = idName s.nextID from e)
    omega
  simp only [createOne, hc, Option.isSome_none, Bool.false_eq_true, if_false, hany, upsert, erase_eq_self hk]

theorem createOne_wf {cfg : Cfg} {s : State} (h : WF cfg s) (hc : s.crashed = none) {k : Key}
    (hk : hasKey s.prov k = false) : WF cfg (createOne cfg s k) := by
  rw [createOne_eq h hc hk]
  obtain ⟨a, b, c, d, n, f⟩ := h
  constructor
  · simp [a]
  · intro p hp
    simp only [List.mem_append, List.mem_singleton] at hp
    rcases hp with hp | rfl
    · obtain ⟨i, hi, e⟩ := b p hp
      exact ⟨i, by simp only; omega, e⟩
    · exact ⟨s.nextID, by simp only; omega, rfl⟩
  · simp only [List.map_append, List.map_cons, List.map_nil]
    refine List.nodup_append.mpr ⟨c, by simp, ?_⟩
    intro x hx y hy
    simp only [List.mem_singleton] at hy
    subst hy
    intro e; subst e
    have := hasKey_iff_mem_keys.mpr hx
    rw [hk] at this; cases this
  · exact d
  · simp only [List.map_append, List.map_cons, List.map_nil]
    refine List.nodup_append.mpr ⟨n, by simp, ?_⟩
    intro x hx y hy
    simp only [List.mem_singleton] at hy
    subst hy
    simp only [List.mem_map] at hx
    obtain ⟨p, hp, rfl⟩ := hx
    obtain ⟨i, hi, e⟩ := b p hp
    rw [e]
    intro e'
    have := idName_inj (show idName i = idName s.nextID from e')
    omega
  · exact Or.inl hc

theorem createFold_spec (cfg : Cfg) (ks : List Key) (s : State) (h : WF cfg s) (hc : s.crashed = none)
    (hn : ks.Nodup) (hk : ∀ k ∈ ks, hasKey s.prov k = false) :
    WF cfg (ks.foldl (createOne cfg) s) ∧ (ks.foldl (createOne cfg) s).crashed = none ∧
    (ks.foldl (createOne cfg) s).gws = s.gws ∧ (ks.foldl (createOne cfg) s).gcs = s.gcs ∧
    (ks.foldl (createOne cfg) s).statuses = s.statuses ∧
    (∀ k', hasKey (ks.foldl (createOne cfg) s).prov k' = (hasKey s.prov k' || decide (k' ∈ ks))) ∧
    (∀ k', hasKey s.prov k' = true → get? (ks.foldl (createOne cfg) s).prov k' = get? s.prov k') ∧
    (ks.foldl (createOne cfg) s).nextID = s.nextID + ks.length := by
  induction ks generalizing s with
  | nil => simp [h, hc]
  | cons k t ih =>
    have hk0 := hk k (by simp)
    have hnt := List.nodup_cons.mp hn
    have e := createOne_eq h hc hk0
    have hw := createOne_wf h hc hk0
    have hc' : (createOne cfg s k).crashed = none := by rw [e]; exact hc
    have hk' : ∀ k' ∈ t, hasKey (createOne cfg s k).prov k' = false := by
      intro k' hk'
      rw [e]
      simp only [hasKey_append, hasKey_cons, hasKey_nil, Bool.or_false, hk k' (List.mem_cons_of_mem _ hk'), Bool.false_or,
        decide_eq_false_iff_not]
      intro e'; subst e'; exact hnt.1 hk'
    obtain ⟨r1, r2, r3, r4, r5, r6, r7, r8⟩ := ih (createOne cfg s k) hw hc' hnt.2 hk'
    simp only [List.foldl_cons]
    refine ⟨r1, r2, ?_, ?_, ?_, ?_, ?_, ?_⟩
    · rw [r3, e]
    · rw [r4, e]
    · rw [r5, e]
    · intro k'
      rw [r6, e]
      simp only [hasKey_append, hasKey_cons, hasKey_nil, Bool.or_false, List.mem_cons, Bool.decide_or, Bool.or_assoc]
      by_cases e' : k = k'
      · subst e'; simp
      · have : ¬ k' = k := fun x => e' x.symm
        simp [e', this]
    · intro k' hk''
      have : hasKey (createOne cfg s k).prov k' = true := by
        rw [e]; simp [hasKey_append, hk'']
      rw [r7 k' this, e]
      simp only [get?_append]
      obtain ⟨v, hv⟩ := get?_some_of_hasKey hk''
      rw [hv]; rfl
    · rw [r8, e]; simp only [List.length_cons]; omega

/-! ### the remove loop -/

theorem deleteOne_absent {s : State} {k : Key} (hk : hasKey s.prov k = false) : deleteOne s k = s := by
  have : get? s.prov k = none := by
    rw [hasKey_iff_get?_isSome] at hk
    cases h : get? s.prov k <;> simp_all
  unfold deleteOne
  split
  · rfl
  · simp [this]

theorem deleteOne_eq {cfg : Cfg} {s : State} (h : WF cfg s) (hc : s.crashed = none) {k : Key} {d : Dep}
    (hk : get? s.prov k = some d) :
    deleteOne s k = { s with cluster := (erase s.prov k).map (·.2), prov := erase s.prov k } := by
  have hmem := mem_of_get?_some hk
  have hany : s.cluster.any (fun e => e.name == d.name) = true := by
    rw [h.cluster_eq]
    simp only [List.any_map, List.any_eq_true, Function.comp_apply, beq_iff_eq]
    exact ⟨(k, d), hmem, rfl⟩
  have hfilter : s.cluster.filter (fun e => e.name != d.name) = (erase s.prov k).map (·.2) := by
    rw [h.cluster_eq, List.filter_map, erase]
    congr 1
    apply List.filter_congr
    intro p hp
    simp only [Function.comp_apply]
    by_cases e : p.1 = k
    · have : p = (k, d) := eq_of_nodup_map h.provKeys hp hmem e
      simp [this]
    · have : p.2.name ≠ d.name := by
        intro e'
        have : p = (k, d) := eq_of_nodup_map h.names hp hmem e'
        exact e (by rw [this])
      have h1 : (p.2.name != d.name) = true := bne_iff_ne.mpr this
      have h2 : (p.1 != k) = true := bne_iff_ne.mpr e
      rw [h1, h2]
  simp only [deleteOne, hc, Option.isSome_none, Bool.false_eq_true, if_false, hk, hany, if_true, hfilter]

theorem deleteOne_wf {cfg : Cfg} {s : State} (h : WF cfg s) (hc : s.crashed = none) (k : Key) :
    WF cfg (deleteOne s k) ∧ (deleteOne s k).crashed = none ∧
    (deleteOne s k).prov = erase s.prov k ∧ (deleteOne s k).gws = s.gws ∧ (deleteOne s k).gcs = s.gcs ∧
    (deleteOne s k).statuses = s.statuses ∧ (deleteOne s k).nextID = s.nextID := by
  cases hg : get? s.prov k with
  | none =>
    have hk : hasKey s.prov k = false := by rw [hasKey_iff_get?_isSome, hg]; rfl
    rw [deleteOne_absent hk, erase_eq_self hk]
    exact ⟨h, hc, rfl, rfl, rfl, rfl, rfl⟩
  | some d =>
    rw [deleteOne_eq h hc hg]
    refine ⟨?_, hc, rfl, rfl, rfl, rfl, rfl⟩
    obtain ⟨a, b, c, d', n, f⟩ := h
    constructor
    · rfl
    · intro p hp
      exact b p (List.mem_filter.mp hp).1
    · exact nodup_keys_erase c k
    · exact d'
    · exact n.sublist ((List.filter_sublist (l := s.prov)).map _)
    · exact Or.inl hc

theorem deleteFold_spec (cfg : Cfg) (ks : List Key) (s : State) (h : WF cfg s) (hc : s.crashed = none) :
    WF cfg (ks.foldl deleteOne s) ∧ (ks.foldl deleteOne s).crashed = none ∧
    (ks.foldl deleteOne s).gws = s.gws ∧ (ks.foldl deleteOne s).gcs = s.gcs ∧
    (ks.foldl deleteOne s).statuses = s.statuses ∧
    (∀ k', hasKey (ks.foldl deleteOne s).prov k' = (hasKey s.prov k' && !decide (k' ∈ ks))) ∧
    (∀ k', k' ∉ ks → get? (ks.foldl deleteOne s).prov k' = get? s.prov k') ∧
    (ks.foldl deleteOne s).nextID = s.nextID := by
  induction ks generalizing s with
  | nil => simp [h, hc]
  | cons k t ih =>
    obtain ⟨w, c, p, g1, g2, g3, g4⟩ := deleteOne_wf h hc k
    obtain ⟨r1, r2, r3, r4, r5, r6, r7, r8⟩ := ih (deleteOne s k) w c
    simp only [List.foldl_cons]
    refine ⟨r1, r2, r3.trans g1, r4.trans g2, r5.trans g3, ?_, ?_, r8.trans g4⟩
    · intro k'
      rw [r6, p, hasKey_erase]
      by_cases e : k' = k <;> simp [e]
    · intro k' hk'
      simp only [List.mem_cons, not_or] at hk'
      rw [r7 k' hk'.2, p, get?_erase]
      simp [hk'.1]

/-! ### membership in the two lists computed by the first two loops -/

theorem mem_gwsWithoutDeps {cfg : Cfg} {s : State} (hg : (s.gws.map (·.1)).Nodup) (k : Key) :
    k ∈ gwsWithoutDeps cfg s ↔ get? s.gws k = some cfg.gcName ∧ hasKey s.prov k = false := by
  simp only [gwsWithoutDeps, List.mem_map, List.mem_filter, Bool.and_eq_true, beq_iff_eq, Bool.not_eq_true']
  constructor
  · rintro ⟨⟨a, c⟩, ⟨hm, hc, hp⟩, rfl⟩
    simp only at hc hp ⊢
    exact ⟨hc ▸ get?_of_mem hg hm, hp⟩
  · rintro ⟨h1, h2⟩
    exact ⟨(k, cfg.gcName), ⟨mem_of_get?_some h1, rfl, h2⟩, rfl⟩

theorem nodup_gwsWithoutDeps {cfg : Cfg} {s : State} (hg : (s.gws.map (·.1)).Nodup) :
    (gwsWithoutDeps cfg s).Nodup :=
  hg.sublist ((List.filter_sublist (l := s.gws)).map _)

theorem mem_removedPreFix (cfg : Cfg) (s : State) (k : Key) :
    k ∈ removedPreFix cfg s ↔ hasKey s.prov k = true ∧ hasKey s.gws k = false := by
  simp only [removedPreFix, List.mem_map, List.mem_filter, Bool.not_eq_true']
  constructor
  · rintro ⟨⟨a, d⟩, ⟨hm, hc⟩, rfl⟩
    exact ⟨hasKey_iff_mem.mpr ⟨d, hm⟩, hc⟩
  · rintro ⟨h1, h2⟩
    obtain ⟨d, hd⟩ := hasKey_iff_mem.mp h1
    exact ⟨(k, d), ⟨hd, h2⟩, rfl⟩

theorem mem_removedGwsWithDeps (cfg : Cfg) (s : State) (k : Key) :
    k ∈ removedGwsWithDeps cfg s ↔ hasKey s.prov k = true ∧ get? s.gws k ≠ some cfg.gcName := by
  simp only [removedGwsWithDeps, List.mem_map, List.mem_filter, bne_iff_ne, ne_eq]
  constructor
  · rintro ⟨⟨a, d⟩, ⟨hm, hc⟩, rfl⟩
    exact ⟨hasKey_iff_mem.mpr ⟨d, hm⟩, hc⟩
  · rintro ⟨h1, h2⟩
    obtain ⟨d, hd⟩ := hasKey_iff_mem.mp h1
    exact ⟨(k, d), ⟨hd, h2⟩, rfl⟩

/-! ### one ensureDeploymentsMatchGateways, for an arbitrary removal scan -/

theorem ensureWith_spec (rem : Removal) (cfg : Cfg) (s : State) (order : List Key) (h : WF cfg s)
    (hc : s.crashed = none) :
    let s' := ensureWith rem cfg s order
    WF cfg s' ∧ s'.crashed = none ∧ s'.gws = s.gws ∧ s'.gcs = s.gcs ∧ s'.statuses = s.statuses ∧
    (∀ k, hasKey s'.prov k =
      ((hasKey s.prov k || decide (get? s.gws k = some cfg.gcName)) && !decide (k ∈ rem cfg s))) ∧
    (∀ k, hasKey s.prov k = true → k ∉ rem cfg s → get? s'.prov k = get? s.prov k) ∧
    s.nextID ≤ s'.nextID := by
  intro s'
  have hn := nodup_arrange order _ (nodup_gwsWithoutDeps (cfg := cfg) h.gwKeys)
  have hk : ∀ k ∈ arrange order (gwsWithoutDeps cfg s), hasKey s.prov k = false := by
    intro k hk
    exact ((mem_gwsWithoutDeps h.gwKeys k).mp ((mem_arrange _ _ k).mp hk)).2
  obtain ⟨c1, c2, c3, c4, c5, c6, c7, c8⟩ := createFold_spec cfg _ s h hc hn hk
  obtain ⟨d1, d2, d3, d4, d5, d6, d7, d8⟩ := deleteFold_spec cfg (rem cfg s) _ c1 c2
  refine ⟨d1, d2, d3.trans c3, d4.trans c4, d5.trans c5, ?_, ?_, ?_⟩
  · intro k
    show hasKey (ensureWith rem cfg s order).prov k = _
    unfold ensureWith
    rw [d6, c6]
    congr 1
    by_cases hp : hasKey s.prov k = true
    · simp [hp]
    · have hp' : hasKey s.prov k = false := by simpa using hp
      simp only [hp', Bool.false_or, mem_arrange, mem_gwsWithoutDeps h.gwKeys, and_true]
  · intro k hp hr
    show get? (ensureWith rem cfg s order).prov k = _
    unfold ensureWith
    rw [d7 k hr, c7 k hp]
  · show s.nextID ≤ (ensureWith rem cfg s order).nextID
    unfold ensureWith
    rw [d8, c8]; omega

end NGF.Prov
