/-
Helper lemmas for the fragment stage of C07 (`NGF.Model.PipelineStatus`): how the per-parentRef binding of the Go code
(`attachable`, `bindOne`, `tryAttach`, `attachment`, `boundListeners`) relates to `Pipeline.acceptedAt`, which Gateway the
graph is built for (`graphGateway` against `Pipeline.winner`), and what `routeConds` contains. Core Lean only.
-/
import NGF.Model.PipelineStatus
import NGF.Proofs.StatusPrep

namespace NGF.PipelineStatus
open NGF.Pipeline
open NGF.StatusPrep (Cond condsFalse)

/-! ### generic list facts -/

theorem eraseDups_length_le {α} [BEq α] : ∀ (n : Nat) (l : List α), l.length ≤ n → l.eraseDups.length ≤ l.length
  | 0, l, h => by
    have : l = [] := List.eq_nil_of_length_eq_zero (by omega)
    subst this; simp
  | n + 1, [], _ => by simp
  | n + 1, a :: as, h => by
    rw [List.eraseDups_cons]
    have h1 : (as.filter fun b => !b == a).length ≤ as.length := List.length_filter_le _ _
    have := eraseDups_length_le n (as.filter fun b => !b == a) (by simp at h; omega)
    simp; omega

/-- `Pipeline.nodup` is duplicate-freeness -/
theorem pairwise_of_nodup {α} [BEq α] [LawfulBEq α] : ∀ (n : Nat) (l : List α), l.length ≤ n → nodup l = true →
    l.Pairwise (· ≠ ·)
  | 0, l, h, _ => by
    have : l = [] := List.eq_nil_of_length_eq_zero (by omega)
    subst this; simp
  | n + 1, [], _, _ => by simp
  | n + 1, a :: as, h, hn => by
    simp only [nodup, List.eraseDups_cons, List.length_cons, beq_iff_eq, Nat.add_right_cancel_iff] at hn
    have h1 : (as.filter fun b => !b == a).length ≤ as.length := List.length_filter_le _ _
    have h2 := eraseDups_length_le _ (as.filter fun b => !b == a) (Nat.le_refl _)
    have hlen : (as.filter fun b => !b == a).length = as.length := by omega
    have hfil : as.filter (fun b => !b == a) = as := List.filter_eq_self.mpr (by
      have := List.length_filter_eq_length_iff.mp hlen
      exact this)
    rw [hfil] at hn
    refine List.pairwise_cons.mpr ⟨?_, pairwise_of_nodup n as (by simp at h; omega) (by simp [nodup, hn])⟩
    intro b hb e
    have := (List.filter_eq_self.mp hfil) b hb
    simp [e] at this

/-- members of a list whose images under `f` are pairwise different are determined by their image -/
theorem eq_of_pairwise_map {α β} (f : α → β) : ∀ {l : List α}, (l.map f).Pairwise (· ≠ ·) →
    ∀ {a b : α}, a ∈ l → b ∈ l → f a = f b → a = b
  | [], _, a, _, ha, _, _ => by cases ha
  | x :: xs, hp, a, b, ha, hb, e => by
    simp only [List.map_cons, List.pairwise_cons, List.mem_map, ne_eq, forall_exists_index, and_imp,
      forall_apply_eq_imp_iff₂] at hp
    rcases List.mem_cons.mp ha with rfl | ha' <;> rcases List.mem_cons.mp hb with rfl | hb'
    · rfl
    · exact absurd e (hp.1 b hb')
    · exact absurd e.symm (hp.1 a ha')
    · exact eq_of_pairwise_map f hp.2 ha' hb' e

/-! ### which Gateway the graph is built for -/

theorem oldest_mem : ∀ {l : List Gateway} {g : Gateway}, oldest l = some g → g ∈ l
  | [], g, h => by simp [oldest] at h
  | x :: xs, g, h => by
    simp only [oldest] at h
    cases ho : oldest xs with
    | none =>
      rw [ho] at h
      simp only [Option.some.injEq] at h
      subst h; exact List.mem_cons_self
    | some b =>
      rw [ho] at h
      simp only at h
      split at h
      · simp only [Option.some.injEq] at h
        subst h; exact List.mem_cons_of_mem _ (oldest_mem ho)
      · simp only [Option.some.injEq] at h
        subst h; exact List.mem_cons_self

theorem oldest_none {l : List Gateway} (h : oldest l = none) : l = [] := by
  cases l with
  | nil => rfl
  | cons x xs =>
    simp only [oldest] at h
    cases ho : oldest xs with
    | none => rw [ho] at h; simp at h
    | some b => rw [ho] at h; simp only at h; split at h <;> simp at h

theorem winner_eq (s : Scenario) : winner s = if classOurs s then oldest (ours s) else none := rfl

theorem classState_ours {s : Scenario} : classState s = .ours ↔ classOurs s = true := by
  unfold classState
  by_cases h : classOurs s = true
  · simp [h]
  · simp only [h, Bool.false_eq_true, if_false, iff_false]
    split <;> simp

/-- the served Gateway of `Pipeline.gen` is the (valid) Gateway of the graph -/
theorem graphGateway_of_winner {s : Scenario} {g : Gateway} (h : winner s = some g) : graphGateway s = some (g, true) := by
  rw [winner_eq] at h
  by_cases hc : classOurs s = true
  · simp only [hc, if_true] at h
    simp [graphGateway, classState, hc, h]
  · simp [hc] at h

theorem winner_of_graphGateway {s : Scenario} {g : Gateway} (h : graphGateway s = some (g, true)) : winner s = some g := by
  unfold graphGateway at h
  cases hc : classState s with
  | ours =>
    rw [hc] at h
    simp only [Option.map_eq_some_iff, Prod.mk.injEq, and_true] at h
    obtain ⟨a, ha, rfl⟩ := h
    rw [winner_eq, classState_ours.mp hc]; simpa using ha
  | foreign => rw [hc] at h; simp at h
  | missing => rw [hc] at h; simp at h

theorem winner_mem_ours {s : Scenario} {g : Gateway} (h : winner s = some g) : g ∈ ours s := by
  rw [winner_eq] at h
  by_cases hc : classOurs s = true
  · simp only [hc, if_true] at h; exact oldest_mem h
  · simp [hc] at h

/-- no served Gateway: either the graph has no Gateway at all, or the class object is missing and the graph holds an
INVALID Gateway -/
theorem graphGateway_of_winner_none {s : Scenario} (h : winner s = none) :
    graphGateway s = none ∨ (classState s = .missing ∧ ∃ g, graphGateway s = some (g, false)) := by
  rw [winner_eq] at h
  unfold graphGateway
  cases hc : classState s with
  | ours =>
    have := classState_ours.mp hc
    simp only [this, if_true] at h
    left; simp [h]
  | foreign => left; rfl
  | missing =>
    cases ho : oldest (ours s) with
    | none => left; simp
    | some g => right; exact ⟨rfl, g, by simp⟩

/-! ### selecting listeners -/

/-- the parentRef's section name selects listener `l` (the test inside `Pipeline.refersTo`) -/
def selects (p : Parent) (l : Listener) : Bool :=
  match p.sectionName with
  | none => true
  | some sn => sn == l.name

theorem refersTo_eq (g : Gateway) (l : Listener) (r : Route) :
    refersTo g l r = r.parents.any fun p => names g p && selects p l := rfl

theorem mem_attachable {ls : List Listener} {p : Parent} {l : Listener} (hp : p.sectionName ≠ some [])
    (h : l ∈ (attachable ls p).1) : l ∈ ls ∧ selects p l = true ∧ (attachable ls p).2 = true := by
  unfold attachable at h ⊢
  unfold selects
  cases hs : p.sectionName with
  | none => simp [secKey, hs] at h ⊢; exact h
  | some sn =>
    have hne : sn ≠ [] := fun e => hp (by rw [hs, e])
    have hemp : (secKey p).isEmpty = false := by
      simp only [secKey, hs, Option.getD_some]
      cases sn with
      | nil => exact absurd rfl hne
      | cons _ _ => rfl
    simp only [hemp, Bool.false_eq_true, if_false] at h ⊢
    have hk : secKey p = sn := by simp [secKey, hs]
    rw [hk] at h ⊢
    cases hf : ls.find? (fun x => x.name == sn) with
    | none => rw [hf] at h; simp at h
    | some l' =>
      rw [hf] at h
      simp only [List.mem_singleton] at h
      subst h
      have h1 := List.find?_some hf
      have h2 := List.mem_of_find?_eq_some hf
      simp only [beq_iff_eq] at h1
      exact ⟨h2, by simp [h1], rfl⟩

theorem attachable_of_selects {ls : List Listener} {p : Parent} {l : Listener} (hp : p.sectionName ≠ some [])
    (hu : (ls.map (·.name)).Pairwise (· ≠ ·)) (hl : l ∈ ls) (hs : selects p l = true) :
    l ∈ (attachable ls p).1 ∧ (attachable ls p).2 = true := by
  unfold attachable
  unfold selects at hs
  cases hsn : p.sectionName with
  | none => simp [secKey, hsn, hl]
  | some sn =>
    rw [hsn] at hs
    simp only [beq_iff_eq] at hs
    have hne : sn ≠ [] := fun e => hp (by rw [hsn, e])
    have hemp : sn.isEmpty = false := by
      cases sn with
      | nil => exact absurd rfl hne
      | cons _ _ => rfl
    have hk : secKey p = sn := by simp [secKey, hsn]
    simp only [hk, hemp, Bool.false_eq_true, if_false]
    cases hf : ls.find? (fun x => x.name == sn) with
    | none =>
      have := List.find?_eq_none.mp hf l hl
      simp [hs] at this
    | some l' =>
      have h1 := List.find?_some hf
      have h2 := List.mem_of_find?_eq_some hf
      simp only [beq_iff_eq] at h1
      have : l' = l := eq_of_pairwise_map (·.name) hu h2 hl (by rw [h1, hs])
      subst this
      simp

/-! ### binding -/

theorem bindOne_attached {g : Gateway} {r : Route} {l : Listener} :
    (bindOne g r l).2 = true ↔ nsAllowed g l r = true ∧ Hostname.accepted l.host r.hostnames ≠ [] := by
  unfold bindOne
  cases hn : nsAllowed g l r with
  | false => simp
  | true =>
    cases ha : Hostname.accepted l.host r.hostnames with
    | nil => simp
    | cons x xs => simp

theorem tryAttach_attached {g : Gateway} {r : Route} {ls : List Listener} :
    (tryAttach g r ls).2 = true ↔ ∃ l ∈ ls, (bindOne g r l).2 = true := by
  unfold tryAttach
  cases ls with
  | nil => simp
  | cons x xs =>
    simp only [List.isEmpty_cons, Bool.false_eq_true, if_false]
    cases hatt : (x :: xs).any (fun l => (bindOne g r l).2) with
    | true =>
      simp only [Bool.not_true, Bool.false_eq_true, if_false, true_iff]
      simpa using hatt
    | false =>
      simp only [Bool.not_false, if_true]
      have hno : ¬ ∃ l ∈ x :: xs, (bindOne g r l).2 = true := by
        intro ⟨l, hl, hb⟩
        have := List.any_eq_false.mp hatt l hl
        exact this hb
      constructor
      · intro h; split at h <;> simp at h
      · intro h; exact absurd h hno

theorem tryAttach_failed {g : Gateway} {r : Route} {ls : List Listener} (h : (tryAttach g r ls).2 = false) :
    (tryAttach g r ls).1.type = "Accepted" ∧ (tryAttach g r ls).1.status = "False" := by
  unfold tryAttach at h ⊢
  cases ls with
  | nil => simp [invalidListener]
  | cons x xs =>
    simp only [List.isEmpty_cons, Bool.false_eq_true, if_false] at h ⊢
    cases hatt : (x :: xs).any (fun l => (bindOne g r l).2) with
    | true => rw [hatt] at h; simp at h
    | false =>
      simp only [Bool.not_false, if_true]
      split <;> simp [notAllowedByListeners, noMatchingListenerHostname]

theorem attachment_attached_iff {gw : Gateway} {v : Bool} {r : Route} {p : Parent} :
    (attachment gw v r p).attached = true ↔
      v = true ∧ names gw p = true ∧ (attachable gw.listeners p).2 = true ∧
        ∃ l ∈ (attachable gw.listeners p).1, (bindOne gw r l).2 = true := by
  unfold attachment
  cases v with
  | false =>
    simp only [graphListeners, Bool.false_eq_true, if_false, false_and, iff_false]
    split
    · simp
    · split <;> simp
  | true =>
    simp only [graphListeners, if_true, true_and]
    cases ha : (attachable gw.listeners p).2 with
    | false => simp
    | true =>
      cases hn : names gw p with
      | false => simp
      | true => simp [tryAttach_attached]

theorem attachment_failed {gw : Gateway} {v : Bool} {r : Route} {p : Parent} (h : (attachment gw v r p).attached = false) :
    (attachment gw v r p).failed.type = "Accepted" ∧ (attachment gw v r p).failed.status = "False" := by
  unfold attachment at h ⊢
  dsimp only at h ⊢
  cases ha : (attachable (graphListeners gw v) p).2 with
  | false => simp [noMatchingParent]
  | true =>
    cases hn : names gw p with
    | false => simp [gatewayIgnored]
    | true =>
      cases v with
      | false => simp [invalidGateway]
      | true =>
        simp only [ha, hn, Bool.not_true, Bool.false_eq_true, if_false] at h ⊢
        exact tryAttach_failed h

/-- a failed attachment carries an Accepted=False condition (`StatusPrep.ParentRef.wf`) -/
theorem toPrepRef_wf (gw : Gateway) (v : Bool) (r : Route) (p : Parent) : (toPrepRef gw v r p).wf = true := by
  simp only [NGF.StatusPrep.ParentRef.wf, toPrepRef]
  cases hatt : (attachment gw v r p).attached with
  | true => simp
  | false =>
    simp only [Bool.false_or, Bool.and_eq_true, decide_eq_true_eq]
    exact attachment_failed hatt

theorem boundListeners_ne_nil {gw : Gateway} {r : Route} {p : Parent} :
    boundListeners gw true r p ≠ [] ↔ (attachment gw true r p).attached = true := by
  rw [attachment_attached_iff]
  unfold boundListeners
  simp only [graphListeners, if_true, Bool.and_true, true_and]
  cases ha : (attachable gw.listeners p).2 with
  | false => simp
  | true =>
    cases hn : names gw p with
    | false => simp
    | true =>
      simp only [Bool.and_self, if_true, ne_eq, true_and]
      rw [← List.isEmpty_iff, Bool.not_eq_true, ← Bool.not_eq_true, List.isEmpty_iff]
      constructor
      · intro h
        cases hf : (attachable gw.listeners p).1.filter (fun l => (bindOne gw r l).2) with
        | nil => exact absurd hf h
        | cons x xs =>
          have : x ∈ (attachable gw.listeners p).1.filter (fun l => (bindOne gw r l).2) := by rw [hf]; exact List.mem_cons_self
          rw [List.mem_filter] at this
          exact ⟨x, this.1, this.2⟩
      · rintro ⟨l, hl, hb⟩ hnil
        have : l ∈ (attachable gw.listeners p).1.filter (fun l => (bindOne gw r l).2) := List.mem_filter.mpr ⟨hl, hb⟩
        rw [hnil] at this
        cases this

theorem mem_boundListeners {gw : Gateway} {r : Route} {p : Parent} {l : Listener} :
    l ∈ boundListeners gw true r p ↔
      names gw p = true ∧ (attachable gw.listeners p).2 = true ∧ l ∈ (attachable gw.listeners p).1 ∧ (bindOne gw r l).2 = true := by
  unfold boundListeners
  simp only [graphListeners, if_true, Bool.and_true]
  cases ha : (attachable gw.listeners p).2 with
  | false => simp
  | true =>
    cases hn : names gw p with
    | false => simp
    | true => simp [List.mem_filter]

/-! ### the link to `Pipeline.acceptedAt` -/

theorem acceptedAt_ne_nil {g : Gateway} {l : Listener} {r : Route} :
    acceptedAt g l r ≠ [] ↔
      (∃ p ∈ r.parents, names g p = true ∧ selects p l = true) ∧ nsAllowed g l r = true ∧
        Hostname.accepted l.host r.hostnames ≠ [] := by
  unfold acceptedAt
  rw [refersTo_eq]
  cases hr : (r.parents.any fun p => names g p && selects p l) with
  | false =>
    simp only [Bool.false_and, Bool.false_eq_true, if_false, ne_eq, not_true_eq_false, false_iff, not_and]
    intro ⟨p, hp, h1, h2⟩
    have := List.any_eq_false.mp hr p hp
    simp [h1, h2] at this
  | true =>
    obtain ⟨p, hp, hh⟩ := List.any_eq_true.mp hr
    simp only [Bool.and_eq_true] at hh
    cases hn : nsAllowed g l r with
    | false => simp
    | true =>
      simp only [Bool.and_self, if_true, ne_eq, true_and, iff_and_self]
      intro _
      exact ⟨p, hp, hh.1, hh.2⟩

/-- what a parentRef that names the served Gateway binds, in terms of `Pipeline.acceptedAt` -/
theorem bound_iff_acceptedAt {g : Gateway} {r : Route} {p : Parent} {l : Listener}
    (hp : p.sectionName ≠ some []) (hu : (g.listeners.map (·.name)).Pairwise (· ≠ ·)) (hpr : p ∈ r.parents) :
    l ∈ boundListeners g true r p ↔ l ∈ g.listeners ∧ names g p = true ∧ selects p l = true ∧ acceptedAt g l r ≠ [] := by
  rw [mem_boundListeners, acceptedAt_ne_nil, bindOne_attached]
  constructor
  · rintro ⟨hn, _, hl, hns, hacc⟩
    obtain ⟨hl1, hl2, _⟩ := mem_attachable hp hl
    exact ⟨hl1, hn, hl2, ⟨p, hpr, hn, hl2⟩, hns, hacc⟩
  · rintro ⟨hl, hn, hs, _, hns, hacc⟩
    obtain ⟨h1, h2⟩ := attachable_of_selects hp hu hl hs
    exact ⟨hn, h2, h1, hns, hacc⟩

/-! ### route conditions -/

theorem mem_routeConds_valid {r : Route} (hv : r.valid = true) {c : Cond} (h : c ∈ routeConds r) : c = refsUnresolved := by
  simp only [routeConds, hv, Bool.not_true, Bool.false_eq_true, if_false, List.mem_flatMap] at h
  obtain ⟨rule, _, hc⟩ := h
  cases ha : rule.action with
  | forward bs => rw [ha] at hc; simp at hc; exact hc.2.symm
  | redirect a b c d => rw [ha] at hc; simp at hc

theorem routeConds_invalid {r : Route} (hv : r.valid = false) : routeConds r = [routeUnsupportedValue] := by
  simp [routeConds, hv]

theorem routeConds_condsFalse (t : String) (r : Route) : condsFalse t (routeConds r) = true := by
  unfold condsFalse
  rw [List.all_eq_true]
  intro c hc
  cases hv : r.valid with
  | true => rw [mem_routeConds_valid hv hc]; simp [refsUnresolved]
  | false =>
    rw [routeConds_invalid hv] at hc
    simp only [List.mem_singleton] at hc
    subst hc; simp [routeUnsupportedValue]

/-- the route carries a route-wide Accepted condition exactly when it is invalid -/
theorem routeConds_no_accepted {r : Route} : (∀ c ∈ routeConds r, c.type ≠ "Accepted") ↔ r.valid = true := by
  cases hv : r.valid with
  | true =>
    simp only [iff_true]
    intro c hc
    rw [mem_routeConds_valid hv hc]; decide
  | false =>
    rw [routeConds_invalid hv]
    simp [routeUnsupportedValue]

/-- a ResolvedRefs condition ⇔ the route is valid and some forwarding rule has an invalid backendRef -/
theorem routeConds_resolved {r : Route} :
    (∃ c ∈ routeConds r, c.type = "ResolvedRefs") ↔
      r.valid = true ∧ ∃ rule ∈ r.rules, ∃ bs, rule.action = .forward bs ∧ ∃ b ∈ bs, b.valid = false := by
  cases hv : r.valid with
  | false =>
    rw [routeConds_invalid hv]
    simp [routeUnsupportedValue]
  | true =>
    simp only [true_and]
    constructor
    · rintro ⟨c, hc, _⟩
      simp only [routeConds, hv, Bool.not_true, Bool.false_eq_true, if_false, List.mem_flatMap] at hc
      obtain ⟨rule, hr, hc⟩ := hc
      cases ha : rule.action with
      | forward bs =>
        rw [ha] at hc
        obtain ⟨b, hb, _⟩ := List.mem_map.mp hc
        have hb' := List.mem_filter.mp hb
        exact ⟨rule, hr, bs, ha, b, hb'.1, by simpa using hb'.2⟩
      | redirect a b c d => rw [ha] at hc; simp at hc
    · rintro ⟨rule, hr, bs, ha, b, hb, hbv⟩
      refine ⟨refsUnresolved, ?_, rfl⟩
      simp only [routeConds, hv, Bool.not_true, Bool.false_eq_true, if_false, List.mem_flatMap]
      refine ⟨rule, hr, ?_⟩
      rw [ha]
      exact List.mem_map.mpr ⟨b, List.mem_filter.mpr ⟨hb, by simp [hbv]⟩, rfl⟩

/-! ### hypotheses unpacked; membership in `hostsOf` / `entries` / `gen`; `matchOK` -/

theorem listener_names_unique {g : Gateway} (hg : gatewayOK g = true) : (g.listeners.map (·.name)).Pairwise (· ≠ ·) := by
  simp only [gatewayOK, Bool.and_eq_true] at hg
  exact pairwise_of_nodup _ _ (Nat.le_refl _) hg.1.1

theorem parentsOK_spec {r : Route} (h : parentsOK r = true) {p : Parent} (hp : p ∈ r.parents) : p.sectionName ≠ some [] := by
  have := List.all_eq_true.mp h p hp
  simpa using this

theorem sectionNameRefs_of_noDup {s : Scenario} {r : Route} (h : noDupRefs s r = true) :
    sectionNameRefs s r = some (r.parents.filter (namesOurs s)) := by
  unfold noDupRefs at h
  unfold sectionNameRefs at h ⊢
  dsimp only at h ⊢
  by_cases hd : dupFree ((r.parents.filter (namesOurs s)).map fun p => (p.ns, p.name, secKey p)) = true
  · simp [hd]
  · simp [hd] at h

theorem statusOK_spec {s : Scenario} (h : statusOK s = true) {r : Route} (hr : r ∈ s.routes) :
    parentsOK r = true ∧ noDupRefs s r = true := by
  have := List.all_eq_true.mp h r hr
  simpa using this

theorem mem_hostsOf_of {g : Gateway} {routes : List Route} {l : Listener} {r : Route} {h : Str}
    (hl : l ∈ g.listeners) (hr : r ∈ routes) (hv : r.valid = true) (hh : h ∈ acceptedAt g l r) :
    (l.port, h) ∈ hostsOf g routes := by
  unfold hostsOf
  rw [List.mem_eraseDups]
  refine List.mem_flatMap.mpr ⟨l, hl, List.mem_flatMap.mpr ⟨r, hr, ?_⟩⟩
  simp only [hv, if_true]
  exact List.mem_map.mpr ⟨h, hh, rfl⟩

theorem mem_entries_of {g : Gateway} {routes : List Route} {l : Listener} {r : Route} {h : Str} {rule : Rule} {m : Match}
    (hl : l ∈ g.listeners) (hr : r ∈ routes) (hv : r.valid = true) (hh : h ∈ acceptedAt g l r)
    (hrule : rule ∈ r.rules) (hm : m ∈ rule.ms) :
    ({ port := l.port, host := h, m := m, key := keyOf r m, action := rule.action } : Entry) ∈ entries g routes := by
  unfold entries
  refine List.mem_flatMap.mpr ⟨l, hl, List.mem_flatMap.mpr ⟨r, hr, ?_⟩⟩
  simp only [hv, if_true]
  unfold routeEntries
  refine List.mem_flatMap.mpr ⟨rule, hrule, List.mem_flatMap.mpr ⟨h, hh, List.mem_map.mpr ⟨m, hm, rfl⟩⟩⟩

theorem servers_of_winner {s : Scenario} {g : Gateway} (hw : winner s = some g) :
    (Pipeline.gen s).servers = (hostsOf g s.routes).map fun ph => serverOf (entries g s.routes) ph.1 ph.2 := by
  simp [Pipeline.gen, hw]

theorem inFragment_spec {s : Scenario} {g : Gateway} (hf : inFragment s = true) (hw : winner s = some g) :
    gatewayOK g = true ∧ ∀ r ∈ s.routes, routeOK r = true := by
  simp only [inFragment, hw, Bool.and_eq_true] at hf
  exact ⟨hf.2, fun r hr => List.all_eq_true.mp hf.1.2 r hr⟩

theorem entry_matchOK {g : Gateway} {routes : List Route} (hro : ∀ r ∈ routes, routeOK r = true) {e : Entry}
    (he : e ∈ entries g routes) : matchOK e.m = true := by
  unfold entries at he
  obtain ⟨l, _, he⟩ := List.mem_flatMap.mp he
  obtain ⟨r, hr, he⟩ := List.mem_flatMap.mp he
  cases hv : r.valid with
  | false => simp [hv] at he
  | true =>
    simp only [hv, if_true, routeEntries] at he
    obtain ⟨rule, hrule, he⟩ := List.mem_flatMap.mp he
    obtain ⟨h, _, he⟩ := List.mem_flatMap.mp he
    obtain ⟨m, hm, rfl⟩ := List.mem_map.mp he
    have h1 := hro r hr
    simp only [routeOK, Bool.and_eq_true] at h1
    exact List.all_eq_true.mp (List.all_eq_true.mp h1.2 rule hrule) m hm

/-- inside the fragment no prefix value is another match's path followed by `/` -/
theorem no_slash_sibling {x m : Match} (hx : matchOK x = true) (hm : matchOK m = true) (hpre : x.exact = false) :
    x.path ≠ m.path ++ ['/'] := by
  intro heq
  simp only [matchOK, Bool.and_eq_true, Bool.or_eq_true, beq_iff_eq, bne_iff_ne, ne_eq] at hx hm
  have hlast : x.path.getLast? = some '/' := by rw [heq]; simp
  have hne : m.path ≠ [] := by
    intro hnil
    have := hm.1.1.1
    rw [hnil] at this; simp at this
  rcases hx.1.1.2 with (he | hroot) | hl
  · rw [hpre] at he; cases he
  · rw [heq] at hroot
    cases hmp : m.path with
    | nil => exact hne hmp
    | cons c cs => rw [hmp] at hroot; simp at hroot
  · exact hl hlast

end NGF.PipelineStatus
