/-
Helper lemmas for C11 (`NGF.Props.C11`): the abstract file system, `WriteFile`, the two loops of
`ReplaceFiles`, `ClearFolders`.  Core Lean only.
-/
import NGF.Model.FileMgr

set_option linter.unusedSimpArgs false

namespace NGF.FileMgr

/-! ### get / erase / put -/

theorem erase_cons (x : String) (o : FileObj) (r : FS) (p : String) :
    erase ((x, o) :: r) p = if x = p then erase r p else (x, o) :: erase r p := by
  by_cases h : x = p <;> simp [erase, List.filter_cons, h]

theorem get_cons (x : String) (o : FileObj) (r : FS) (p : String) :
    get ((x, o) :: r) p = if x = p then some o else get r p := rfl

theorem get_erase_self (fs : FS) (p : String) : get (erase fs p) p = none := by
  induction fs with
  | nil => rfl
  | cons e r ih =>
    obtain ⟨q, o⟩ := e
    rw [erase_cons]
    by_cases h : q = p
    · simp [h, ih]
    · simp [h, get_cons, ih]

theorem get_erase_ne (fs : FS) {p q : String} (h : p ≠ q) : get (erase fs p) q = get fs q := by
  induction fs with
  | nil => rfl
  | cons e r ih =>
    obtain ⟨x, o⟩ := e
    rw [erase_cons]
    by_cases hx : x = p
    · have : x ≠ q := by rw [hx]; exact h
      simp [hx, get_cons, h, ih]
    · simp [hx, get_cons, ih]

theorem get_erase (fs : FS) (p q : String) :
    get (erase fs p) q = if p = q then none else get fs q := by
  by_cases h : p = q
  · subst h; simp [get_erase_self]
  · simp [h, get_erase_ne fs h]

theorem get_put (fs : FS) (p q : String) (o : FileObj) :
    get (put fs p o) q = if p = q then some o else get fs q := by
  by_cases h : p = q
  · simp [put, get, h]
  · simp [put, get, h, get_erase_ne fs h]

theorem get_create (fs : FS) (p q : String) :
    get (create fs p) q =
      if p = q then some ⟨[], match get fs p with | some o => o.mode | none => createMode⟩
      else get fs q := by
  unfold create
  cases hg : get fs p <;> simp [get_put]

theorem get_chmod (fs : FS) (p q : String) (m : Nat) :
    get (chmod fs p m) q =
      if p = q then (get fs p).map (fun o => { o with mode := m }) else get fs q := by
  unfold chmod
  cases hg : get fs p with
  | none => by_cases h : p = q <;> simp [h, hg] ; subst h; exact hg
  | some o => simp [get_put]

theorem get_write (fs : FS) (p q : String) (b : List Nat) :
    get (write fs p b) q =
      if p = q then (get fs p).map (fun o => { o with content := o.content ++ b }) else get fs q := by
  unfold write
  cases hg : get fs p with
  | none => by_cases h : p = q <;> simp [h, hg] ; subst h; exact hg
  | some o => simp [get_put]

theorem mem_keys_iff (fs : FS) (p : String) : p ∈ keys fs ↔ get fs p ≠ none := by
  induction fs with
  | nil => simp [keys, get]
  | cons e r ih =>
    obtain ⟨q, o⟩ := e
    by_cases h : q = p
    · simp [keys, get, h]
    · have h' : p ≠ q := fun e => h e.symm
      simp [keys, get, h, h'] ; simpa [keys] using ih

/-! ### WriteFile -/

/-- the file object `WriteFile f` leaves on success -/
def objOf (f : File) : FileObj := ⟨f.content, modeOf f.typ⟩

/-- `WriteFile` touches no other path, under every fault schedule. -/
theorem writeFile_ne (sch : Sched) (k : Nat) (fs : FS) (f : File) {q : String} (h : f.path ≠ q) :
    get (writeFile sch k fs f).fs q = get fs q := by
  unfold writeFile
  split <;> try rfl
  split <;> try (simp [get_create, h])
  split <;> simp [get_write, get_chmod, get_create, h]

/-- a successful `WriteFile` leaves exactly content and mode of the file -/
theorem writeFile_ok (sch : Sched) (k : Nat) (fs : FS) (f : File)
    (h : (writeFile sch k fs f).out = .ok) :
    get (writeFile sch k fs f).fs f.path = some (objOf f) := by
  unfold writeFile at h ⊢
  split at h <;> try (simp at h)
  split at h <;> try (simp at h)
  split at h <;> try (simp at h)
  rename_i h0 h1 h2
  simp [h0, h1, h2, get_write, get_chmod, get_create, objOf]

/-- Under every fault schedule (errors, partial writes, a crash at any operation) the file that
`WriteFile f` works on is afterwards untouched, or empty, or carries the requested mode and a prefix of
the requested content: content never sits in the file under another mode than the one asked for. -/
theorem writeFile_safe (sch : Sched) (k : Nat) (fs : FS) (f : File) :
    get (writeFile sch k fs f).fs f.path = get fs f.path ∨
    ∃ o, get (writeFile sch k fs f).fs f.path = some o ∧
      (o.content = [] ∨ (o.mode = modeOf f.typ ∧ o.content <+: f.content)) := by
  unfold writeFile
  split
  · exact .inl rfl
  · exact .inl rfl
  · split
    · exact .inr ⟨_, by simp [get_create]; rfl, .inl rfl⟩
    · exact .inr ⟨_, by simp [get_create]; rfl, .inl rfl⟩
    · split
      · exact .inr ⟨_, by simp [get_write, get_chmod, get_create]; rfl,
          .inr ⟨rfl, by simpa using List.take_prefix _ _⟩⟩
      · exact .inr ⟨_, by simp [get_write, get_chmod, get_create]; rfl,
          .inr ⟨rfl, by simpa using List.take_prefix _ _⟩⟩
      · exact .inr ⟨_, by simp [get_chmod, get_create]; rfl, .inl rfl⟩
      · exact .inr ⟨_, by simp [get_write, get_chmod, get_create]; rfl,
          .inr ⟨rfl, by simp⟩⟩

/-- operation counter only grows -/
theorem writeFile_present (sch : Sched) (k : Nat) (fs : FS) (f : File) (q : String)
    (h : get (writeFile sch k fs f).fs q ≠ none) : get fs q ≠ none ∨ q = f.path := by
  by_cases hq : f.path = q
  · exact .inr hq.symm
  · rw [writeFile_ne sch k fs f hq] at h; exact .inl h

end NGF.FileMgr
