/-
Helper lemmas for C11 (`NGF.Props.C11`): the abstract file system, `WriteFile`, the two loops of
`ReplaceFiles`, `ClearFolders`.  Core Lean only.
-/
import NGF.Model.FileMgr

set_option linter.unusedSimpArgs false

namespace NGF.FileMgr

/-! ### get / erase / put -/

theorem erase_cons (x : String) (o : FileObj) (r : FS) (p : String) :
    erase ((x, o) :: r) p = if x = p then erase r p else (x, o) :: erase r p := by
  by_cases h : x = p <;> simp [erase, List.filter_cons, h]

theorem get_cons (x : String) (o : FileObj) (r : FS) (p : String) :
    get ((x, o) :: r) p = if x = p then some o else get r p := rfl

theorem get_erase_self (fs : FS) (p : String) : get (erase fs p) p = none := by
  induction fs with
  | nil => rfl
  | cons e r ih =>
    obtain ⟨q, o⟩ := e
    rw [erase_cons]
    by_cases h : q = p
    · simp [h, ih]
    · simp [h, get_cons, ih]

theorem get_erase_ne (fs : FS) {p q : String} (h : p ≠ q) : get (erase fs p) q = get fs q := by
  induction fs with
  | nil => rfl
  | cons e r ih =>
    obtain ⟨x, o⟩ := e
    rw [erase_cons]
    by_cases hx : x = p
    · have : x ≠ q := by rw [hx]; exact h
      simp [hx, get_cons, h, ih]
    · simp [hx, get_cons, ih]

theorem get_erase (fs : FS) (p q : String) :
    get (erase fs p) q = if p = q then none else get fs q := by
  by_cases h : p = q
  · subst h; simp [get_erase_self]
  · simp [h, get_erase_ne fs h]

theorem get_put (fs : FS) (p q : String) (o : FileObj) :
    get (put fs p o) q = if p = q then some o else get fs q := by
  by_cases h : p = q
  · simp [put, get, h]
  · simp [put, get, h, get_erase_ne fs h]

theorem get_create (fs : FS) (p q : String) :
    get (create fs p) q =
      if p = q then some ⟨[], match get fs p with | some o => o.mode | none => createMode⟩
      else get fs q := by
  unfold create
  cases hg : get fs p <;> simp [get_put]

theorem get_chmod (fs : FS) (p q : String) (m : Nat) :
    get (chmod fs p m) q =
      if p = q then (get fs p).map (fun o => { o with mode := m }) else get fs q := by
  unfold chmod
  cases hg : get fs p with
  | none => by_cases h : p = q <;> simp [h, hg] ; subst h; exact hg
  | some o => simp [get_put]

theorem get_write (fs : FS) (p q : String) (b : List Nat) :
    get (write fs p b) q =
      if p = q then (get fs p).map (fun o => { o with content := o.content ++ b }) else get fs q := by
  unfold write
  cases hg : get fs p with
  | none => by_cases h : p = q <;> simp [h, hg] ; subst h; exact hg
  | some o => simp [get_put]

theorem mem_keys_iff (fs : FS) (p : String) : p ∈ keys fs ↔ get fs p ≠ none := by
  induction fs with
  | nil => simp [keys, get]
  | cons e r ih =>
    obtain ⟨q, o⟩ := e
    by_cases h : q = p
    · simp [keys, get, h]
    · have h' : p ≠ q := fun e => h e.symm
      simp [keys, get, h, h'] ; simpa [keys] using ih

/-! ### WriteFile -/

/-- the file object `WriteFile f` leaves on success -/
def objOf (f : File) : FileObj := ⟨f.content, modeOf f.typ⟩

/-- `WriteFile` touches no other path, under every fault schedule. -/
theorem writeFile_ne (sch : Sched) (k : Nat) (fs : FS) (f : File) {q : String} (h : f.path ≠ q) :
    get (writeFile sch k fs f).fs q = get fs q := by
  unfold writeFile
  split <;> try rfl
  split <;> try (simp [get_create, h])
  split <;> simp [get_write, get_chmod, get_create, h]

/-- a successful `WriteFile` leaves exactly content and mode of the file -/
theorem writeFile_ok (sch : Sched) (k : Nat) (fs : FS) (f : File)
    (h : (writeFile sch k fs f).out = .ok) :
    get (writeFile sch k fs f).fs f.path = some (objOf f) := by
  unfold writeFile at h ⊢
  split at h <;> try (simp at h)
  split at h <;> try (simp at h)
  split at h <;> try (simp at h)
  simp [get_write, get_chmod, get_create, objOf]

/-- Under every fault schedule (errors, partial writes, a crash at any operation) the file that
`WriteFile f` works on is afterwards untouched, or empty, or carries the requested mode and a prefix of
the requested content: content never sits in the file under another mode than the one asked for. -/
theorem writeFile_safe (sch : Sched) (k : Nat) (fs : FS) (f : File) :
    get (writeFile sch k fs f).fs f.path = get fs f.path ∨
    ∃ o, get (writeFile sch k fs f).fs f.path = some o ∧
      (o.content = [] ∨ (o.mode = modeOf f.typ ∧ o.content <+: f.content)) := by
  unfold writeFile
  split
  · exact .inl rfl
  · exact .inl rfl
  · split
    · exact .inr ⟨_, by simp [get_create]; rfl, .inl rfl⟩
    · exact .inr ⟨_, by simp [get_create]; rfl, .inl rfl⟩
    · split
      · exact .inr ⟨_, by simp [get_write, get_chmod, get_create]; rfl,
          .inr ⟨rfl, by simpa using List.take_prefix _ _⟩⟩
      · exact .inr ⟨_, by simp [get_write, get_chmod, get_create]; rfl,
          .inr ⟨rfl, by simpa using List.take_prefix _ _⟩⟩
      · exact .inr ⟨_, by simp [get_chmod, get_create]; rfl, .inl rfl⟩
      · exact .inr ⟨_, by simp [get_write, get_chmod, get_create]; rfl,
          .inr ⟨rfl, by simp⟩⟩

/-- operation counter only grows -/
theorem writeFile_present (sch : Sched) (k : Nat) (fs : FS) (f : File) (q : String)
    (h : get (writeFile sch k fs f).fs q ≠ none) : get fs q ≠ none ∨ q = f.path := by
  by_cases hq : f.path = q
  · exact .inr hq.symm
  · rw [writeFile_ne sch k fs f hq] at h; exact .inl h

/-! ### first loop of ReplaceFiles -/

/-- the removal loop only removes, and only paths of the list, under every schedule -/
theorem removeLoop_get (sch : Sched) (ps : List String) :
    ∀ (k : Nat) (fs : FS) (q : String),
      get (removeLoop sch k fs ps).fs q = get fs q ∨
      (get (removeLoop sch k fs ps).fs q = none ∧ q ∈ ps) := by
  induction ps with
  | nil => intro k fs q; exact .inl rfl
  | cons p ps ih =>
    intro k fs q
    have step : get (removeLoop sch (k + 1) (erase fs p) ps).fs q = get fs q ∨
        (get (removeLoop sch (k + 1) (erase fs p) ps).fs q = none ∧ q ∈ p :: ps) := by
      rcases ih (k + 1) (erase fs p) q with h | ⟨h, hm⟩
      · rw [h, get_erase]
        by_cases hp : p = q
        · right; simp [hp]
        · left; simp [hp]
      · exact .inr ⟨h, List.mem_cons_of_mem _ hm⟩
    unfold removeLoop
    split
    · exact .inl rfl
    · exact step
    · exact .inl rfl
    · exact step

/-- when the removal loop completes, every listed path is gone and nothing else changed -/
theorem removeLoop_ok (sch : Sched) (ps : List String) :
    ∀ (k : Nat) (fs : FS), (removeLoop sch k fs ps).out = .ok →
      ∀ q, get (removeLoop sch k fs ps).fs q = if q ∈ ps then none else get fs q := by
  induction ps with
  | nil => intro k fs _ q; simp [removeLoop]
  | cons p ps ih =>
    intro k fs h q
    have step : (removeLoop sch (k + 1) (erase fs p) ps).out = .ok →
        get (removeLoop sch (k + 1) (erase fs p) ps).fs q = if q ∈ p :: ps then none else get fs q := by
      intro h'
      rw [ih (k + 1) (erase fs p) h' q, get_erase]
      by_cases hq : q ∈ ps
      · simp [hq]
      · by_cases hp : p = q
        · simp [hp]
        · have : ¬ q = p := fun e => hp e.symm
          simp [hq, hp, this]
    unfold removeLoop at h ⊢
    split at h
    · simp at h
    · exact step h
    · simp at h
    · exact step h

/-! ### second loop of ReplaceFiles -/

/-- what a path holds after the files were written one after the other (later entries win) -/
def expectAfter : List File → String → Option FileObj → Option FileObj
  | [], _, b => b
  | f :: r, q, b => expectAfter r q (if f.path = q then some (objOf f) else b)

theorem expectAfter_not_mem (F : List File) (q : String) (b : Option FileObj)
    (h : q ∉ F.map (·.path)) : expectAfter F q b = b := by
  induction F generalizing b with
  | nil => rfl
  | cons f r ih =>
    simp only [List.map_cons, List.mem_cons, not_or] at h
    have : ¬ f.path = q := fun e => h.1 e.symm
    simp [expectAfter, this, ih _ h.2]

/-- the value is that of some entry with this path, or the base value if there is none -/
theorem expectAfter_cases (F : List File) (q : String) (b : Option FileObj) :
    (q ∉ F.map (·.path) ∧ expectAfter F q b = b) ∨
    ∃ f ∈ F, f.path = q ∧ expectAfter F q b = some (objOf f) := by
  induction F generalizing b with
  | nil => exact .inl ⟨by simp, rfl⟩
  | cons f r ih =>
    simp only [expectAfter]
    rcases ih (if f.path = q then some (objOf f) else b) with ⟨hn, he⟩ | ⟨g, hg, hp, he⟩
    · by_cases hf : f.path = q
      · exact .inr ⟨f, by simp, hf, by simp [hf, expectAfter_not_mem r q _ hn]⟩
      · refine .inl ⟨?_, by simp [hf, expectAfter_not_mem r q _ hn]⟩
        simp only [List.map_cons, List.mem_cons, not_or]
        exact ⟨fun e => hf e.symm, hn⟩
    · exact .inr ⟨g, List.mem_cons_of_mem _ hg, hp, he⟩

/-- with pairwise distinct paths every file of the set is there with its own content and mode -/
theorem expectAfter_nodup (F : List File) (hnd : (F.map (·.path)).Nodup) (b : Option FileObj)
    (f : File) (hf : f ∈ F) : expectAfter F f.path b = some (objOf f) := by
  induction F generalizing b with
  | nil => simp at hf
  | cons g r ih =>
    simp only [List.map_cons, List.nodup_cons] at hnd
    simp only [expectAfter]
    rcases List.mem_cons.mp hf with rfl | hr
    · simp [expectAfter_not_mem r _ _ hnd.1]
    · exact ih hnd.2 _ hr

theorem writeLoop_ok (b : Bool) (sch : Sched) (F : List File) :
    ∀ (k : Nat) (fs : FS) (last : List String), (writeLoop b sch k fs last F).out = .ok →
      (writeLoop b sch k fs last F).last = last ++ F.map (·.path) ∧
      ∀ q, get (writeLoop b sch k fs last F).fs q = expectAfter F q (get fs q) := by
  induction F with
  | nil => intro k fs last _; simp [writeLoop, expectAfter]
  | cons f r ih =>
    intro k fs last h
    unfold writeLoop at h ⊢
    simp only at h ⊢
    split at h
    · next hok =>
      obtain ⟨hl, hg⟩ := ih _ _ _ h
      refine ⟨by simp [hl], fun q => ?_⟩
      rw [hg q, expectAfter]
      by_cases hq : f.path = q
      · subst hq; simp [writeFile_ok sch k fs f hok]
      · simp [hq, writeFile_ne sch k fs f hq]
    · next hne => simp at h; exact absurd h (by simpa using hne)

/-- (current code, `before = true`) under every schedule: whatever is on disk after the second loop
was there before or is tracked; tracked paths are never forgotten. -/
theorem writeLoop_tracked (sch : Sched) (F : List File) :
    ∀ (k : Nat) (fs : FS) (last : List String),
      (∀ p ∈ last, p ∈ (writeLoop true sch k fs last F).last) ∧
      ∀ q, get (writeLoop true sch k fs last F).fs q ≠ none →
        get fs q ≠ none ∨ q ∈ (writeLoop true sch k fs last F).last := by
  induction F with
  | nil => intro k fs last; exact ⟨fun p h => by simpa [writeLoop] using h, fun q h => .inl (by simpa [writeLoop] using h)⟩
  | cons f r ih =>
    intro k fs last
    unfold writeLoop
    simp only
    split
    · obtain ⟨hm, hp⟩ := ih (writeFile sch k fs f).k (writeFile sch k fs f).fs (last ++ [f.path])
      refine ⟨fun p hpl => hm p (by simp [hpl]), fun q hq => ?_⟩
      rcases hp q hq with h | h
      · rcases writeFile_present sch k fs f q h with h' | h'
        · exact .inl h'
        · exact .inr (hm q (by simp [h']))
      · exact .inr h
    · refine ⟨fun p hpl => by simp [hpl], fun q hq => ?_⟩
      rcases writeFile_present sch k fs f q hq with h' | h'
      · exact .inl h'
      · exact .inr (by simp [h'])

/-- under every schedule (either variant): a file present afterwards was present before or belongs to the set -/
theorem writeLoop_present (b : Bool) (sch : Sched) (F : List File) :
    ∀ (k : Nat) (fs : FS) (last : List String) (q : String),
      get (writeLoop b sch k fs last F).fs q ≠ none → get fs q ≠ none ∨ q ∈ F.map (·.path) := by
  induction F with
  | nil => intro k fs last q h; exact .inl (by simpa [writeLoop] using h)
  | cons f r ih =>
    intro k fs last q
    unfold writeLoop
    simp only
    split
    · intro hq
      rcases ih _ _ _ q hq with h | h
      · rcases writeFile_present sch k fs f q h with h' | h'
        · exact .inl h'
        · exact .inr (by simp [h'])
      · exact .inr (by simp [h])
    · intro hq
      rcases writeFile_present sch k fs f q hq with h' | h'
      · exact .inl h'
      · exact .inr (by simp [h'])

/-! ### ReplaceFiles -/

/-- every file present in the managed folders is tracked by the manager or is one of `B` (bootstrap) -/
def Tracked (B : List String) (s : St) : Prop := ∀ q, get s.fs q ≠ none → q ∈ s.last ∨ q ∈ B

/-- every file of the abstract disk lies directly in one of the managed folders -/
def InFolders (fs : FS) : Prop := ∀ q, get fs q ≠ none → dirOf q ∈ managedFolders

/-- all paths of a file set lie directly in the managed folders -/
def PathsManaged (F : List File) : Prop := ∀ f ∈ F, dirOf f.path ∈ managedFolders

theorem replaceFiles_tracked (B : List String) (sch : Sched) (s : St) (F : List File)
    (h : Tracked B s) : Tracked B (replaceFiles sch s F).st := by
  intro q hq
  unfold replaceFiles replaceFilesV at hq ⊢
  simp only at hq ⊢
  split at hq
  · next hok =>
    simp only [hok]
    rcases (writeLoop_tracked sch F _ _ []).2 q hq with h1 | h1
    · rw [removeLoop_ok sch s.last 0 s.fs hok q] at h1
      by_cases hl : q ∈ s.last
      · simp [hl] at h1
      · simp only [hl, if_false] at h1
        rcases h q h1 with h2 | h2
        · exact absurd h2 hl
        · exact .inr h2
    · exact .inl h1
  · next o hne =>
    have hq' : get (removeLoop sch 0 s.fs s.last).fs q ≠ none := hq
    have : get s.fs q ≠ none := by
      rcases removeLoop_get sch s.last 0 s.fs q with h1 | ⟨h1, _⟩
      · rw [h1] at hq'; exact hq'
      · exact absurd h1 hq'
    exact h q this

theorem replaceFiles_ok_get (b : Bool) (sch : Sched) (s : St) (F : List File)
    (h : (replaceFilesV b sch s F).out = .ok) :
    (replaceFilesV b sch s F).st.last = F.map (·.path) ∧
    ∀ q, get (replaceFilesV b sch s F).st.fs q =
      expectAfter F q (if q ∈ s.last then none else get s.fs q) := by
  unfold replaceFilesV at h ⊢
  simp only at h ⊢
  split at h
  · next hok =>
    simp only [hok]
    obtain ⟨hl, hg⟩ := writeLoop_ok b sch F _ _ [] h
    refine ⟨by simpa using hl, fun q => ?_⟩
    rw [hg q, removeLoop_ok sch s.last 0 s.fs hok q]
  · next o hne => exact absurd h (by simpa using hne)

theorem replaceFiles_ok (sch : Sched) (s : St) (F : List File)
    (h : (replaceFiles sch s F).out = .ok) :
    (replaceFiles sch s F).st.last = F.map (·.path) ∧
    ∀ q, get (replaceFiles sch s F).st.fs q =
      expectAfter F q (if q ∈ s.last then none else get s.fs q) :=
  replaceFiles_ok_get true sch s F h

theorem replaceFiles_present (b : Bool) (sch : Sched) (s : St) (F : List File) (q : String)
    (h : get (replaceFilesV b sch s F).st.fs q ≠ none) :
    get s.fs q ≠ none ∨ q ∈ F.map (·.path) := by
  have rem : ∀ {x}, get (removeLoop sch 0 s.fs s.last).fs q = x → x ≠ none → get s.fs q ≠ none := by
    intro x hx hn
    rcases removeLoop_get sch s.last 0 s.fs q with h1 | ⟨h1, _⟩
    · rw [← h1, hx]; exact hn
    · rw [h1] at hx; exact absurd hx.symm hn
  unfold replaceFilesV at h
  simp only at h
  split at h
  · rcases writeLoop_present b sch F _ _ [] q h with h1 | h1
    · exact .inl (rem rfl h1)
    · exact .inr h1
  · exact .inl (rem rfl h)

theorem replaceFiles_inFolders (sch : Sched) (s : St) (F : List File)
    (hs : InFolders s.fs) (hF : PathsManaged F) : InFolders (replaceFiles sch s F).st.fs := by
  intro q hq
  rcases replaceFiles_present true sch s F q hq with h | h
  · exact hs q h
  · obtain ⟨f, hf, rfl⟩ := List.mem_map.mp h
    exact hF f hf

/-! ### ClearFolders -/

theorem mem_insertSorted (p q : String) (l : List String) :
    q ∈ insertSorted p l ↔ q = p ∨ q ∈ l := by
  induction l with
  | nil => simp [insertSorted]
  | cons a r ih =>
    unfold insertSorted
    split
    · simp
    · simp [ih]; constructor <;> (intro h; rcases h with h | h | h <;> simp [h])

theorem mem_sortPaths (q : String) (l : List String) : q ∈ sortPaths l ↔ q ∈ l := by
  induction l with
  | nil => simp [sortPaths]
  | cons a r ih => simp [sortPaths, mem_insertSorted, ih]

theorem mem_entries (fs : FS) (d q : String) :
    q ∈ entries fs d ↔ get fs q ≠ none ∧ dirOf q = d := by
  simp [entries, mem_sortPaths, mem_keys_iff]

theorem clearEntries_get (sch : Sched) (ps : List String) :
    ∀ (k : Nat) (fs : FS) (q : String),
      get (clearEntries sch k fs ps).fs q = get fs q ∨
      (get (clearEntries sch k fs ps).fs q = none ∧ q ∈ ps ∧ q ∉ ignorePaths) := by
  induction ps with
  | nil => intro k fs q; exact .inl rfl
  | cons p ps ih =>
    intro k fs q
    unfold clearEntries
    split
    · rcases ih k fs q with h | ⟨h, hm, hi⟩
      · exact .inl h
      · exact .inr ⟨h, List.mem_cons_of_mem _ hm, hi⟩
    · next hign =>
      have hp : p ∉ ignorePaths := by simpa using hign
      have one : get (erase fs p) q = get fs q ∨ (get (erase fs p) q = none ∧ q ∈ p :: ps ∧ q ∉ ignorePaths) := by
        rw [get_erase]
        by_cases hpq : p = q
        · right; subst hpq; simp [hp]
        · left; simp [hpq]
      split
      · exact .inl rfl
      · exact one
      · exact .inl rfl
      · rcases ih (k + 1) (erase fs p) q with h | ⟨h, hm, hi⟩
        · rw [h]; exact one
        · exact .inr ⟨h, List.mem_cons_of_mem _ hm, hi⟩

theorem clearEntries_ok (sch : Sched) (ps : List String) :
    ∀ (k : Nat) (fs : FS), (clearEntries sch k fs ps).out = .ok →
      ∀ q, get (clearEntries sch k fs ps).fs q =
        if q ∈ ps ∧ q ∉ ignorePaths then none else get fs q := by
  induction ps with
  | nil => intro k fs _ q; simp [clearEntries]
  | cons p ps ih =>
    intro k fs h q
    unfold clearEntries at h ⊢
    by_cases hign : ignorePaths.contains p = true
    · rw [if_pos hign] at h ⊢
      have hp : p ∈ ignorePaths := by simpa using hign
      rw [ih k fs h q]
      by_cases hq : q = p
      · subst hq; simp [hp]
      · simp [hq]
    · rw [if_neg hign] at h ⊢
      have hp : p ∉ ignorePaths := by simpa using hign
      cases hs : sch k with
      | some f => cases f <;> simp [hs] at h
      | none =>
        simp only [hs] at h ⊢
        rw [ih (k + 1) (erase fs p) h q, get_erase]
        by_cases hq : q = p
        · subst hq; simp [hp]
        · have : ¬ p = q := fun e => hq e.symm
          simp [hq, this]

theorem clearEntries_noFaults (ps : List String) :
    ∀ (k : Nat) (fs : FS), (clearEntries noFaults k fs ps).out = .ok := by
  induction ps with
  | nil => intro k fs; rfl
  | cons p ps ih =>
    intro k fs
    unfold clearEntries
    split
    · exact ih k fs
    · simp only [noFaults]; exact ih (k + 1) _

/-- `ClearFolders` only removes, and never a bootstrap file — under every fault schedule -/
theorem clearLoop_get (sch : Sched) (ds : List String) :
    ∀ (k : Nat) (fs : FS) (q : String),
      get (clearLoop sch k fs ds).fs q = get fs q ∨
      (get (clearLoop sch k fs ds).fs q = none ∧ q ∉ ignorePaths) := by
  induction ds with
  | nil => intro k fs q; exact .inl rfl
  | cons d ds ih =>
    intro k fs q
    unfold clearLoop
    split
    · exact .inl rfl
    · exact .inl rfl
    · have one := clearEntries_get sch (entries fs d) (k + 1) fs q
      simp only
      split
      · rcases ih (clearEntries sch (k + 1) fs (entries fs d)).k
            (clearEntries sch (k + 1) fs (entries fs d)).fs q with h | h
        · rw [h]
          rcases one with h1 | ⟨h1, _, hi⟩
          · exact .inl h1
          · exact .inr ⟨h1, hi⟩
        · exact .inr h
      · rcases one with h1 | ⟨h1, _, hi⟩
        · exact .inl h1
        · exact .inr ⟨h1, hi⟩

/-- when `ClearFolders` completes, exactly the non-bootstrap files of the listed folders are gone -/
theorem clearLoop_ok (sch : Sched) (ds : List String) :
    ∀ (k : Nat) (fs : FS), (clearLoop sch k fs ds).out = .ok →
      ∀ q, get (clearLoop sch k fs ds).fs q =
        if dirOf q ∈ ds ∧ q ∉ ignorePaths then none else get fs q := by
  induction ds with
  | nil => intro k fs _ q; simp [clearLoop]
  | cons d ds ih =>
    intro k fs h q
    unfold clearLoop at h ⊢
    cases hs : sch k with
    | some f => cases f <;> simp [hs] at h
    | none =>
      simp only [hs] at h ⊢
      cases hok : (clearEntries sch (k + 1) fs (entries fs d)).out with
      | failed => simp [hok] at h
      | crashed => simp [hok] at h
      | ok =>
        simp only [hok] at h ⊢
        rw [ih _ _ h q, clearEntries_ok sch _ _ _ hok q]
        by_cases hi : q ∈ ignorePaths
        · simp [hi]
        · by_cases hds : dirOf q ∈ ds
          · simp [hi, hds]
          · by_cases hd : dirOf q = d
            · by_cases hg : get fs q = none
              · simp [hi, hds, hd, hg]
              · have : q ∈ entries fs d := (mem_entries fs d q).2 ⟨hg, hd⟩
                simp [hi, hds, hd, this]
            · have : q ∉ entries fs d := fun hm => hd ((mem_entries fs d q).1 hm).2
              simp [hi, hds, hd, this]

theorem clearLoop_noFaults (ds : List String) :
    ∀ (k : Nat) (fs : FS), (clearLoop noFaults k fs ds).out = .ok := by
  induction ds with
  | nil => intro k fs; rfl
  | cons d ds ih =>
    intro k fs
    unfold clearLoop
    simp only [noFaults, clearEntries_noFaults]
    exact ih _ _

/-! ### liveness: a call during which nothing is injected succeeds -/

theorem removeLoopE_true (sch : Sched) (ps : List String) :
    ∀ (k : Nat) (fs : FS), removeLoopE true sch k fs ps = removeLoop sch k fs ps := by
  induction ps with
  | nil => intro k fs; rfl
  | cons p ps ih =>
    intro k fs
    unfold removeLoopE removeLoop
    split <;> simp [ih]

theorem replaceFilesE_true (sch : Sched) (s : St) (F : List File) :
    replaceFilesE true sch s F = replaceFiles sch s F := by
  unfold replaceFilesE replaceFiles replaceFilesV
  simp only [removeLoopE_true]

theorem removeLoop_noFaults (ps : List String) :
    ∀ (k : Nat) (fs : FS), (removeLoop noFaults k fs ps).out = .ok := by
  induction ps with
  | nil => intro k fs; rfl
  | cons p ps ih =>
    intro k fs
    unfold removeLoop
    simp only [noFaults]
    exact ih _ _

theorem writeFile_noFaults (k : Nat) (fs : FS) (f : File) : (writeFile noFaults k fs f).out = .ok := by
  simp [writeFile, noFaults]

theorem writeLoop_noFaults (b : Bool) (F : List File) :
    ∀ (k : Nat) (fs : FS) (last : List String), (writeLoop b noFaults k fs last F).out = .ok := by
  induction F with
  | nil => intro k fs last; rfl
  | cons f r ih =>
    intro k fs last
    unfold writeLoop
    simp only [writeFile_noFaults]
    exact ih _ _ _

theorem replaceFiles_noFaults (s : St) (F : List File) : (replaceFiles noFaults s F).out = .ok := by
  unfold replaceFiles replaceFilesV
  simp only [removeLoop_noFaults]
  exact writeLoop_noFaults true F _ _ _

/-- the variant that does not recognise ENOENT: a tracked path that is not on disk stops the removal loop at
once, without any injected fault, and leaves the state as it was -/
theorem replaceFilesE_false_stuck (s : St) (p : String) (ps : List String) (F : List File)
    (hl : s.last = p :: ps) (hp : get s.fs p = none) :
    (replaceFilesE false noFaults s F).out = .failed ∧ (replaceFilesE false noFaults s F).st = s := by
  unfold replaceFilesE
  rw [hl]
  simp only [removeLoopE, noFaults, hp, and_self, if_true]
  cases s; simp_all

/-! ### a `WriteFile` error of any class aborts the call -/

/-- `WriteFile` succeeds iff NONE of its three operations is hit by a fault of any kind (whatever error value
the operation would return); and then it used exactly three operations -/
theorem writeFile_ok_iff (sch : Sched) (k : Nat) (fs : FS) (f : File) :
    (writeFile sch k fs f).out = .ok ↔ sch k = none ∧ sch (k + 1) = none ∧ sch (k + 2) = none := by
  unfold writeFile
  constructor
  · intro h
    split at h <;> try (simp at h)
    split at h <;> try (simp at h)
    split at h <;> try (simp at h)
    simp_all
  · rintro ⟨h0, h1, h2⟩
    simp [h0, h1, h2]

theorem writeFile_ok_k (sch : Sched) (k : Nat) (fs : FS) (f : File) (h : (writeFile sch k fs f).out = .ok) :
    (writeFile sch k fs f).k = k + 3 := by
  obtain ⟨h0, h1, h2⟩ := (writeFile_ok_iff sch k fs f).1 h
  simp [writeFile, h0, h1, h2]

theorem writeLoop_ok_noFault (b : Bool) (sch : Sched) (F : List File) :
    ∀ (k : Nat) (fs : FS) (last : List String), (writeLoop b sch k fs last F).out = .ok →
      ∀ j, j < 3 * F.length → sch (k + j) = none := by
  induction F with
  | nil => intro k fs last _ j hj; simp at hj
  | cons f r ih =>
    intro k fs last h j hj
    unfold writeLoop at h
    simp only at h
    split at h
    · next hok =>
      obtain ⟨h0, h1, h2⟩ := (writeFile_ok_iff sch k fs f).1 hok
      rw [writeFile_ok_k sch k fs f hok] at h
      by_cases hj3 : j < 3
      · have : j = 0 ∨ j = 1 ∨ j = 2 := by omega
        rcases this with rfl | rfl | rfl <;> simp_all
      · have := ih _ _ _ h (j - 3) (by simp only [List.length_cons] at hj; omega)
        have e : k + 3 + (j - 3) = k + j := by omega
        rw [e] at this; exact this
    · next hne => simp at h; exact absurd h (by simpa using hne)

theorem removeLoop_ok_k (sch : Sched) (ps : List String) :
    ∀ (k : Nat) (fs : FS), (removeLoop sch k fs ps).out = .ok → (removeLoop sch k fs ps).k = k + ps.length := by
  induction ps with
  | nil => intro k fs _; rfl
  | cons p ps ih =>
    intro k fs h
    unfold removeLoop at h ⊢
    split at h
    · simp at h
    · rw [ih _ _ h]; simp only [List.length_cons]; omega
    · simp at h
    · rw [ih _ _ h]; simp only [List.length_cons]; omega

end NGF.FileMgr
