/-
Correctness of the derivative matcher of `NGF.Model.Regex` and the generic lemmas used to bridge
generated regexes to lexical safety predicates (alphabet, first character, shape of `(A|BC)*`).
Core Lean only.
-/
import NGF.Model.Regex

namespace NGF.Rx
namespace Re

open Matches

theorem not_matches_empty {s : List Char} : ¬ Matches .empty s := by
  intro h; cases h

theorem matches_eps_iff {s : List Char} : Matches .eps s ↔ s = [] := by
  constructor
  · intro h; cases h; rfl
  · intro h; subst h; exact .eps

theorem matches_cls_iff {rs : Ranges} {s : List Char} :
    Matches (.cls rs) s ↔ ∃ c, s = [c] ∧ inRanges rs c.toNat = true := by
  constructor
  · intro h; cases h with | cls hc => exact ⟨_, rfl, hc⟩
  · rintro ⟨c, rfl, hc⟩; exact .cls hc

theorem seq_inv {a b : Re} {u : List Char} (h : Matches (.seq a b) u) :
    ∃ s t, u = s ++ t ∧ Matches a s ∧ Matches b t := by
  cases h with | seq ha hb => exact ⟨_, _, rfl, ha, hb⟩

theorem alt_inv {a b : Re} {u : List Char} (h : Matches (.alt a b) u) :
    Matches a u ∨ Matches b u := by
  cases h with
  | altL h => exact .inl h
  | altR h => exact .inr h

theorem nullable_of_matches_nil {r : Re} {s : List Char} (h : Matches r s) (hs : s = []) :
    nullable r = true := by
  induction h with
  | eps => rfl
  | cls _ => cases hs
  | seq _ _ iha ihb =>
    have h1 := List.append_eq_nil_iff.mp hs
    simp [nullable, iha h1.1, ihb h1.2]
  | altL _ ih => simp [nullable, ih hs]
  | altR _ ih => simp [nullable, ih hs]
  | starNil => rfl
  | starCons _ _ _ _ => rfl

theorem matches_nil_of_nullable {r : Re} (h : nullable r = true) : Matches r [] := by
  induction r with
  | empty => cases h
  | eps => exact .eps
  | cls _ => cases h
  | seq a b iha ihb =>
    simp [nullable] at h
    have := Matches.seq (iha h.1) (ihb h.2)
    simpa using this
  | alt a b iha ihb =>
    simp [nullable] at h
    cases h with
    | inl h => exact .altL (iha h)
    | inr h => exact .altR (ihb h)
  | star a _ => exact .starNil

theorem nullable_iff {r : Re} : nullable r = true ↔ Matches r [] :=
  ⟨matches_nil_of_nullable, fun h => nullable_of_matches_nil h rfl⟩

theorem matches_mkSeq {a b : Re} {s : List Char} : Matches (mkSeq a b) s ↔ Matches (.seq a b) s := by
  have hE1 : ∀ (x : Re), (Matches .empty s ↔ Matches (.seq .empty x) s) := by
    intro x; constructor
    · intro h; cases h
    · intro h; obtain ⟨_, _, _, h1, _⟩ := seq_inv h; cases h1
  have hE2 : ∀ (x : Re), (Matches .empty s ↔ Matches (.seq x .empty) s) := by
    intro x; constructor
    · intro h; cases h
    · intro h; obtain ⟨_, _, _, _, h2⟩ := seq_inv h; cases h2
  have hL : ∀ (x : Re), (Matches x s ↔ Matches (.seq .eps x) s) := by
    intro x; constructor
    · intro h; have := Matches.seq Matches.eps h; simpa using this
    · intro h; obtain ⟨s1, s2, rfl, h1, h2⟩ := seq_inv h; cases h1; simpa using h2
  have hR : ∀ (x : Re), (Matches x s ↔ Matches (.seq x .eps) s) := by
    intro x; constructor
    · intro h; have := Matches.seq h Matches.eps; simpa using this
    · intro h; obtain ⟨s1, s2, rfl, h1, h2⟩ := seq_inv h; cases h2; simpa using h1
  cases a <;> cases b <;> simp only [mkSeq] <;>
    first | exact hE1 _ | exact hE2 _ | exact hL _ | exact hR _ | exact Iff.rfl

theorem matches_mkAlt {a b : Re} {s : List Char} : Matches (mkAlt a b) s ↔ Matches (.alt a b) s := by
  have hL : ∀ (x : Re), (Matches x s ↔ Matches (.alt .empty x) s) := by
    intro x; constructor
    · intro h; exact .altR h
    · intro h; cases alt_inv h with
      | inl h => cases h
      | inr h => exact h
  have hR : ∀ (x : Re), (Matches x s ↔ Matches (.alt x .empty) s) := by
    intro x; constructor
    · intro h; exact .altL h
    · intro h; cases alt_inv h with
      | inl h => exact h
      | inr h => cases h
  have hG : ∀ (x y : Re), (Matches (if x = y then x else .alt x y) s ↔ Matches (.alt x y) s) := by
    intro x y
    by_cases hxy : x = y
    · subst hxy; simp only [if_pos]
      constructor
      · intro h; exact .altL h
      · intro h; cases alt_inv h with
        | inl h => exact h
        | inr h => exact h
    · simp only [if_neg hxy]
  unfold mkAlt
  split
  · exact hL _
  · exact hR _
  · exact hG _ _

theorem star_cons_inv {a : Re} {c : Char} {u : List Char} (h : Matches (.star a) (c :: u)) :
    ∃ s t, u = s ++ t ∧ Matches a (c :: s) ∧ Matches (.star a) t := by
  generalize hr : Re.star a = r at h
  generalize hw : c :: u = w at h
  induction h generalizing u with
  | eps => cases hr
  | cls _ => cases hr
  | seq _ _ _ _ => cases hr
  | altL _ _ => cases hr
  | altR _ _ => cases hr
  | starNil => cases hw
  | @starCons a' s t hs ht _ iht =>
    cases hr
    cases s with
    | nil =>
      simp only [List.nil_append] at hw
      exact iht rfl hw
    | cons c' s' =>
      simp only [List.cons_append, List.cons.injEq] at hw
      obtain ⟨rfl, rfl⟩ := hw
      exact ⟨s', t, rfl, hs, ht⟩

theorem deriv_iff {r : Re} {c : Char} {s : List Char} : Matches (deriv c r) s ↔ Matches r (c :: s) := by
  induction r generalizing s with
  | empty => simp only [deriv]; constructor <;> (intro h; cases h)
  | eps => simp only [deriv]; constructor <;> (intro h; cases h)
  | cls rs =>
    simp only [deriv]
    by_cases hc : inRanges rs c.toNat = true
    · simp only [hc, if_true]
      constructor
      · intro h; cases h; exact .cls hc
      · intro h; cases h; exact .eps
    · simp only [hc]
      constructor
      · intro h; cases h
      · intro h; cases h with | cls h' => exact absurd h' hc
  | seq a b iha ihb =>
    simp only [deriv]
    have key : Matches (.seq a b) (c :: s) ↔
        (Matches (.seq (deriv c a) b) s ∨ (nullable a = true ∧ Matches (deriv c b) s)) := by
      constructor
      · intro h
        obtain ⟨s1, s2, h12, h1, h2⟩ := seq_inv h
        cases s1 with
        | nil =>
          simp only [List.nil_append] at h12
          subst h12
          exact .inr ⟨nullable_iff.mpr h1, ihb.mpr h2⟩
        | cons c' s1' =>
          simp only [List.cons_append, List.cons.injEq] at h12
          obtain ⟨rfl, rfl⟩ := h12
          exact .inl (.seq (iha.mpr h1) h2)
      · intro h
        cases h with
        | inl h =>
          obtain ⟨s1, s2, rfl, h1, h2⟩ := seq_inv h
          have := Matches.seq (iha.mp h1) h2
          simpa using this
        | inr h =>
          have := Matches.seq (nullable_iff.mp h.1) (ihb.mp h.2)
          simpa using this
    by_cases hn : nullable a = true
    · rw [if_pos hn, matches_mkAlt, key]
      constructor
      · intro h
        cases alt_inv h with
        | inl h => exact .inl (matches_mkSeq.mp h)
        | inr h => exact .inr ⟨hn, h⟩
      · intro h
        cases h with
        | inl h => exact .altL (matches_mkSeq.mpr h)
        | inr h => exact .altR h.2
    · rw [if_neg hn, matches_mkSeq, key]
      constructor
      · intro h; exact .inl h
      · intro h
        cases h with
        | inl h => exact h
        | inr h => exact absurd h.1 hn
  | alt a b iha ihb =>
    simp only [deriv]
    rw [matches_mkAlt]
    constructor
    · intro h
      cases alt_inv h with
      | inl h => exact .altL (iha.mp h)
      | inr h => exact .altR (ihb.mp h)
    · intro h
      cases alt_inv h with
      | inl h => exact .altL (iha.mpr h)
      | inr h => exact .altR (ihb.mpr h)
  | star a iha =>
    simp only [deriv]
    rw [matches_mkSeq]
    constructor
    · intro h
      obtain ⟨s1, s2, rfl, h1, h2⟩ := seq_inv h
      have := Matches.starCons (iha.mp h1) h2
      simpa using this
    · intro h
      obtain ⟨s1, s2, rfl, h1, h2⟩ := star_cons_inv h
      exact .seq (iha.mpr h1) h2

/-- The executable matcher decides the denotational semantics. -/
theorem dmatch_iff {r : Re} {s : List Char} : dmatch r s = true ↔ Matches r s := by
  induction s generalizing r with
  | nil => simp only [dmatch]; exact nullable_iff
  | cons c cs ih => simp only [dmatch]; rw [ih]; exact deriv_iff

/-! ### alphabet and first characters -/

theorem inRanges_append {a b : Ranges} {n : Nat} :
    inRanges (a ++ b) n = (inRanges a n || inRanges b n) := by
  simp [inRanges, List.any_append]

theorem alphabet_of_matches {r : Re} {s : List Char} (h : Matches r s) :
    ∀ c ∈ s, inRanges (alphabet r) c.toNat = true := by
  induction h with
  | eps => intro c hc; cases hc
  | cls hc =>
    intro c' hc'
    simp only [List.mem_singleton] at hc'
    subst hc'; simpa [alphabet] using hc
  | seq _ _ iha ihb =>
    intro c hc
    simp only [alphabet, inRanges_append, Bool.or_eq_true]
    cases List.mem_append.mp hc with
    | inl h => exact .inl (iha c h)
    | inr h => exact .inr (ihb c h)
  | altL _ ih => intro c hc; simp only [alphabet, inRanges_append, Bool.or_eq_true]; exact .inl (ih c hc)
  | altR _ ih => intro c hc; simp only [alphabet, inRanges_append, Bool.or_eq_true]; exact .inr (ih c hc)
  | starNil => intro c hc; cases hc
  | starCons _ _ iha ihb =>
    intro c hc
    cases List.mem_append.mp hc with
    | inl h => simpa [alphabet] using iha c h
    | inr h => simpa [alphabet] using ihb c h

theorem first_of_matches {r : Re} {s : List Char} (h : Matches r s) :
    ∀ c t, s = c :: t → inRanges (firstRanges r) c.toNat = true := by
  induction h with
  | eps => intro c t h; cases h
  | cls hc => intro c t h; cases h; simpa [firstRanges] using hc
  | @seq a b s1 s2 ha hb iha ihb =>
    intro c t h
    cases s1 with
    | nil =>
      simp only [List.nil_append] at h
      have hn : nullable a = true := nullable_iff.mpr ha
      simp only [firstRanges, hn, if_true, inRanges_append, Bool.or_eq_true]
      exact .inr (ihb c t h)
    | cons c' s1' =>
      simp only [List.cons_append, List.cons.injEq] at h
      obtain ⟨rfl, _⟩ := h
      have := iha c' s1' rfl
      by_cases hn : nullable a = true
      · simp only [firstRanges, hn, if_true, inRanges_append, Bool.or_eq_true]; exact .inl this
      · simp only [firstRanges, hn]; exact this
  | altL _ ih => intro c t h; simp only [firstRanges, inRanges_append, Bool.or_eq_true]; exact .inl (ih c t h)
  | altR _ ih => intro c t h; simp only [firstRanges, inRanges_append, Bool.or_eq_true]; exact .inr (ih c t h)
  | starNil => intro c t h; cases h
  | @starCons a s1 s2 ha hb iha ihb =>
    intro c t h
    cases s1 with
    | nil => simp only [List.nil_append] at h; exact ihb c t h
    | cons c' s1' =>
      simp only [List.cons_append, List.cons.injEq] at h
      obtain ⟨rfl, _⟩ := h
      simpa [firstRanges] using iha c' s1' rfl

/-! ### shape of `(A | B C)*` (escaped strings) -/

/-- strings made of single characters from `A` and two-character groups `b c` with `b ∈ B`, `c ∈ C` -/
inductive Shape (A B C : Ranges) : List Char → Prop
  | nil : Shape A B C []
  | one {c : Char} {t : List Char} : inRanges A c.toNat = true → Shape A B C t → Shape A B C (c :: t)
  | two {b c : Char} {t : List Char} : inRanges B b.toNat = true → inRanges C c.toNat = true →
      Shape A B C t → Shape A B C (b :: c :: t)

theorem shape_of_star_alt {A B C : Ranges} {s : List Char}
    (h : Matches (.star (.alt (.cls A) (.seq (.cls B) (.cls C)))) s) : Shape A B C s := by
  generalize hr : Re.star (.alt (.cls A) (.seq (.cls B) (.cls C))) = r at h
  induction h with
  | eps => cases hr
  | cls _ => cases hr
  | seq _ _ _ _ => cases hr
  | altL _ _ => cases hr
  | altR _ _ => cases hr
  | starNil => exact .nil
  | @starCons a' s t hs ht _ iht =>
    cases hr
    have ih := iht rfl
    cases alt_inv hs with
    | inl h1 =>
      obtain ⟨c, rfl, hc⟩ := matches_cls_iff.mp h1
      exact .one hc ih
    | inr h2 =>
      obtain ⟨s1, s2, rfl, h1, h2'⟩ := seq_inv h2
      obtain ⟨b, rfl, hb⟩ := matches_cls_iff.mp h1
      obtain ⟨c, rfl, hc⟩ := matches_cls_iff.mp h2'
      exact .two hb hc ih

theorem matches_star_alt_of_shape {A B C : Ranges} {s : List Char} (h : Shape A B C s) :
    Matches (.star (.alt (.cls A) (.seq (.cls B) (.cls C)))) s := by
  induction h with
  | nil => exact .starNil
  | @one c t hc _ ih =>
    have := Matches.starCons (Matches.altL (b := .seq (.cls B) (.cls C)) (Matches.cls hc)) ih
    simpa using this
  | @two b c t hb hc _ ih =>
    have h2 : Matches (.seq (.cls B) (.cls C)) ([b] ++ [c]) := .seq (.cls hb) (.cls hc)
    have := Matches.starCons (Matches.altR (a := .cls A) h2) ih
    simpa using this

end Re

/-! ### surface regexes -/

namespace Regex

theorem test_iff {r : Regex} {s : List Char} : r.test s = true ↔ r.Matches s := Re.dmatch_iff

theorem alphabet_pow {a : Re} {n k : Nat} (h : inRanges (Re.alphabet (Re.pow a k)) n = true) :
    inRanges (Re.alphabet a) n = true := by
  induction k with
  | zero => simp [Re.pow, Re.alphabet, inRanges] at h
  | succ k ih =>
    simp only [Re.pow, Re.alphabet, Re.inRanges_append, Bool.or_eq_true] at h
    cases h with
    | inl h => exact h
    | inr h => exact ih h

theorem alphabet_optChain {a : Re} {n k : Nat} (h : inRanges (Re.alphabet (Re.optChain a k)) n = true) :
    inRanges (Re.alphabet a) n = true := by
  induction k with
  | zero => simp [Re.optChain, Re.alphabet, inRanges] at h
  | succ k ih =>
    simp only [Re.optChain, Re.alphabet, Re.inRanges_append, Bool.or_eq_true] at h
    rcases h with h | h | h
    · simp [inRanges] at h
    · exact h
    · exact ih h

theorem alphabet_toRe {r : Regex} {n : Nat} (h : inRanges (Re.alphabet r.toRe) n = true) :
    inRanges (alphabet r) n = true := by
  induction r with
  | empty => simpa [toRe, Re.alphabet, alphabet] using h
  | eps => simpa [toRe, Re.alphabet, alphabet] using h
  | cls rs => simpa [toRe, Re.alphabet, alphabet] using h
  | seq a b iha ihb =>
    simp only [toRe, Re.alphabet, alphabet, Re.inRanges_append, Bool.or_eq_true] at h ⊢
    exact h.imp iha ihb
  | alt a b iha ihb =>
    simp only [toRe, Re.alphabet, alphabet, Re.inRanges_append, Bool.or_eq_true] at h ⊢
    exact h.imp iha ihb
  | star a ih => exact ih (by simpa [toRe, Re.alphabet] using h)
  | plus a ih =>
    simp only [toRe, Re.alphabet, Re.inRanges_append, Bool.or_eq_true] at h
    cases h with
    | inl h => exact ih h
    | inr h => exact ih h
  | opt a ih =>
    simp only [toRe, Re.alphabet, Re.inRanges_append, Bool.or_eq_true] at h
    cases h with
    | inl h => simp [inRanges] at h
    | inr h => exact ih h
  | rep a lo hi ih =>
    simp only [toRe, Re.alphabet, Re.inRanges_append, Bool.or_eq_true] at h
    cases h with
    | inl h => exact ih (alphabet_pow h)
    | inr h => exact ih (alphabet_optChain h)

/-- Every character of a matched string lies in the (unexpanded) alphabet of the regex. -/
theorem alphabet_of_matches {r : Regex} {s : List Char} (h : r.Matches s) :
    ∀ c ∈ s, inRanges (alphabet r) c.toNat = true :=
  fun c hc => alphabet_toRe (Re.alphabet_of_matches h c hc)

end Regex

/-- `avoids rs bad`: none of the listed code points is in the ranges (decidable by evaluation). -/
def avoids (rs : Ranges) (bad : List Nat) : Bool := bad.all (fun b => !inRanges rs b)

theorem not_bad_of_avoids {rs : Ranges} {bad : List Nat} (h : avoids rs bad = true) {n : Nat}
    (hn : inRanges rs n = true) : n ∉ bad := by
  intro hb
  have := List.all_eq_true.mp h n hb
  simp [hn] at this

end NGF.Rx
