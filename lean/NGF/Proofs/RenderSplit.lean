/-
The `split_clients` blocks that Model/Render emits: percentages (on top of C15's `intCents_main` and
`atofp2_chars`), and the variables they define (on top of `Mangle.groupVar_inj`). Core Lean only.
-/
import NGF.Proofs.RenderStruct
import NGF.Proofs.SplitClientsInt
import NGF.Proofs.SplitClientsPrint
import NGF.Proofs.Mangle

namespace NGF.Render
open NGF.Pipeline NGF.Nginx NGF.Mangle

/-! ### percentages -/

theorem pctOf_pctName {c : Nat} (hc : 0 < c) : pctOf (pctName c) = some c := by
  unfold pctOf pctName
  have h1 : ((NGF.SplitClients.centsDec c).chars ++ ['%']).getLast? = some '%' := by simp
  have h2 : ((NGF.SplitClients.centsDec c).chars ++ ['%']).dropLast = (NGF.SplitClients.centsDec c).chars :=
    List.dropLast_concat
  rw [h1, h2, NGF.SplitClientsJudge.atofp2_chars (NGF.SplitClients.centsDec c) rfl]
  cases c with
  | zero => omega
  | succ n => simp [NGF.SplitClients.centsDec]

theorem pctOf_hundred : pctOf "100%".toList = some 10000 := by decide

@[simp] theorem name_mk (n : List Char) (a : List (List Char × Bool)) (b : Option (List Dir)) : (Dir.mk n a b).name = n := rfl
@[simp] theorem args_mk (n : List Char) (a : List (List Char × Bool)) (b : Option (List Dir)) : (Dir.mk n a b).args = a := rfl
@[simp] theorem block_mk (n : List Char) (a : List (List Char × Bool)) (b : Option (List Dir)) : (Dir.mk n a b).block = b := rfl

theorem zipDist_map_snd : ∀ (bs : List Backend) (cs : List Nat), bs.length = cs.length → (zipDist bs cs).map (·.2) = cs
  | [], [], _ => rfl
  | [], _ :: _, h => by simp at h
  | _ :: _, [], h => by simp at h
  | b :: bs, c :: cs, h => by
    simp only [zipDist, List.map_cons, List.cons.injEq, true_and]
    exact zipDist_map_snd bs cs (by simpa using h)

def entryOf (vc : Str × Nat) : Option Dir := if vc.2 == 0 then none else some (.mk (pctName vc.2) [wl vc.1] none)

theorem entries_sum : ∀ (vcs : List (Str × Nat)),
    ((vcs.filterMap entryOf).map fun e => (pctOf e.name).getD 0).sum = (vcs.map (·.2)).sum
  | [] => rfl
  | vc :: vcs => by
    have ih := entries_sum vcs
    by_cases h0 : vc.2 = 0
    · have e : entryOf vc = none := by simp [entryOf, h0]
      rw [List.filterMap_cons, e]
      simp [ih, h0]
    · have hp : pctOf (pctName vc.2) = some vc.2 := pctOf_pctName (Nat.pos_of_ne_zero h0)
      have e : entryOf vc = some (.mk (pctName vc.2) [wl vc.1] none) := by simp [entryOf, h0]
      rw [List.filterMap_cons, e]
      simp only [List.map_cons, List.sum_cons, name_mk, hp, Option.getD_some, ih]

/-- what NGINX requires of a `split_clients` entry: a percentage it can read, positive; one value; no block -/
def EntryOK (e : Dir) : Prop := (∃ c, pctOf e.name = some c ∧ 0 < c) ∧ e.args.length = 1 ∧ e.block = none

theorem splitEntries_valid (bs : List Backend) :
    (∀ e ∈ splitEntries bs, EntryOK e) ∧ ((splitEntries bs).map fun e => (pctOf e.name).getD 0).sum = 10000 := by
  unfold splitEntries
  by_cases h0 : (bs.map (·.weight)).sum = 0
  · simp only [h0, beq_self_eq_true, ↓reduceIte, List.mem_singleton, forall_eq, List.map_cons, List.map_nil]
    refine ⟨⟨⟨10000, pctOf_hundred, by omega⟩, rfl, rfl⟩, ?_⟩
    simp only [name_mk, pctOf_hundred, Option.getD_some, List.sum_cons, List.sum_nil, Nat.add_zero]
  · have hpos : 0 < (bs.map (·.weight)).sum := Nat.pos_of_ne_zero h0
    obtain ⟨hlen, hsum, _⟩ := NGF.SplitClients.intCents_main (bs.map (·.weight)) hpos
    have hb : ((bs.map (·.weight)).sum == 0) = false := by simpa using h0
    simp only [hb, Bool.false_eq_true, ↓reduceIte]
    refine ⟨?_, ?_⟩
    · intro e he
      rw [List.mem_filterMap] at he
      obtain ⟨vc, _, hvc⟩ := he
      by_cases hz : vc.2 = 0
      · simp [hz] at hvc
      · simp only [beq_iff_eq, hz, ↓reduceIte, Option.some.injEq] at hvc
        subst hvc
        exact ⟨⟨vc.2, pctOf_pctName (Nat.pos_of_ne_zero hz), Nat.pos_of_ne_zero hz⟩, rfl, rfl⟩
    · have := entries_sum (zipDist bs (NGF.SplitClients.intCents (bs.map (·.weight))))
      unfold entryOf at this
      rw [this, zipDist_map_snd _ _ (by rw [hlen]; simp), hsum]

/-- the printed form of a percentage: `100%` (all weights zero) or `<hundredths as d+.dd>%` with a positive share -/
theorem splitEntries_shape (bs : List Backend) :
    ∀ e ∈ splitEntries bs, e.name = "100%".toList ∨ ∃ c, 0 < c ∧ e.name = pctName c := by
  intro e he
  unfold splitEntries at he
  by_cases h0 : (bs.map (·.weight)).sum = 0
  · simp only [h0, beq_self_eq_true, ↓reduceIte, List.mem_singleton] at he
    subst he; exact Or.inl rfl
  · have hb : ((bs.map (·.weight)).sum == 0) = false := by simpa using h0
    simp only [hb, Bool.false_eq_true, ↓reduceIte] at he
    rw [List.mem_filterMap] at he
    obtain ⟨vc, _, hvc⟩ := he
    by_cases hz : vc.2 = 0
    · simp [hz] at hvc
    · simp only [beq_iff_eq, hz, ↓reduceIte, Option.some.injEq] at hvc
      subst hvc
      exact Or.inr ⟨vc.2, Nat.pos_of_ne_zero hz, rfl⟩

/-! ### variables -/

theorem nameChar_eq : nameChar = isNameChar := rfl

theorem noDoubleHyphen_eq : ∀ (l : List Char), noDoubleHyphen l = GoodFor '-' l
  | [] => rfl
  | [_] => rfl
  | c :: d :: r => by simp only [noDoubleHyphen, GoodFor, noDoubleHyphen_eq (d :: r)]

theorem not_underscore_of_nameChar {l : List Char} (h : l.all nameChar = true) : '_' ∉ l := by
  intro hm
  have := List.all_eq_true.mp h '_' hm
  simp [nameChar] at this

/-- the hypotheses of `namesSafe` on a BackendGroup source -/
structure SafeSrc (a : Src) : Prop where
  ns : a.ns.all nameChar = true
  name : a.name.all nameChar = true
  nsHyphen : noDoubleHyphen a.ns = true

def srcVar (a : Src) : List Char := groupVar a.ns a.name a.rule

theorem srcVar_inj {a b : Src} (ha : SafeSrc a) (hb : SafeSrc b) (e : srcVar a = srcVar b) : a = b := by
  have hua := not_underscore_of_nameChar ha.ns
  have hub := not_underscore_of_nameChar hb.ns
  have hga := goodFor_safeVar hua (by rw [← noDoubleHyphen_eq]; exact ha.nsHyphen)
  have hgb := goodFor_safeVar hub (by rw [← noDoubleHyphen_eq]; exact hb.nsHyphen)
  obtain ⟨h1, h2, h3⟩ := groupVar_inj hua hub (not_underscore_of_nameChar ha.name) (not_underscore_of_nameChar hb.name) hga hgb e
  cases a; cases b; simp_all

theorem srcVar_lexable {a : Src} (ha : SafeSrc a) : (srcVar a).all NGF.WF.isVarChar = true :=
  groupVar_all_isVarChar a.rule ha.ns ha.name

theorem srcVar_ne_nil (a : Src) : srcVar a ≠ [] := by
  simp [srcVar, groupVar, groupName, safeVar, lit]

end NGF.Render
