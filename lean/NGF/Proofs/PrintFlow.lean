/-
Dataflow of the strings of a `Pipeline.Scenario` through `Render.genR`, GENERIC in the predicates on the fields (C04, text
step): whatever holds of the listener/route hostnames, match paths, route namespaces/names, valid backend targets and redirect
scheme/hostname of the scenario holds of the server names, location paths, BackendGroup sources, upstream names and redirect
parts of the enriched configuration `genR s order` — provided the hostname predicate holds of the fixed `~^` and the path
predicate is kept by appending `/` (the only two places where `genR` adds a character to a field).
Instances: lexical safety (Proofs/PrintFields), `$`-freeness (Proofs/PrintDollar). Core Lean only.
-/
import NGF.Model.Render
import NGF.Proofs.RenderStruct

namespace NGF.Print
open NGF.Pipeline NGF.Render

/-- one predicate per kind of guarded field -/
structure Preds where
  host : Str → Prop
  path : Str → Prop
  name : Str → Prop
  target : Str → Prop
  dq : Str → Prop

section
variable (P : Preds)

def SrcP (x : Src) : Prop := P.name x.ns ∧ P.name x.name

/-- the upstream names of the backends that are rendered (an invalid backend is rendered as `invalid-backend-ref`) -/
def BsP (bs : List Backend) : Prop := ∀ b ∈ bs, b.valid = true → P.target b.target

def ActP : RAct → Prop
  | .proxy src bs => SrcP P src ∧ BsP P bs
  | .redirect _ sch host _ => (∀ x, sch = some x → P.dq x) ∧ (∀ x, host = some x → P.dq x)
  | .status _ => True

def LocActP : RLocAct → Prop
  | .direct a => ActP P a
  | .njs ms => ∀ m ∈ ms, ActP P m.act

def RuleP (r : RRule) : Prop := (∀ k ∈ r.ext, P.path k.2) ∧ LocActP P r.act

def ServerP (sv : RServer) : Prop := P.host sv.name ∧ ∀ r ∈ sv.rules, RuleP P r

def ConfP (c : ConfR) : Prop := (∀ sv ∈ c.servers, ServerP P sv) ∧ ∀ g ∈ c.groups, SrcP P g.1 ∧ BsP P g.2

def ActionP : Action → Prop
  | .redirect _ sch host _ => (∀ x, sch = some x → P.dq x) ∧ (∀ x, host = some x → P.dq x)
  | .forward bs => BsP P bs

/-- the predicates hold of every guarded field of the scenario (of the routes that configure anything) -/
def FieldsP (s : Scenario) : Prop :=
  (∀ g ∈ s.gateways, ∀ l ∈ g.listeners, l.host = [] ∨ P.host l.host) ∧
  ∀ r ∈ s.routes, r.valid = true →
    P.name r.ns ∧ P.name r.name ∧ (∀ h ∈ r.hostnames, P.host h) ∧
      ∀ rule ∈ r.rules, (∀ m ∈ rule.ms, P.path m.path) ∧ ActionP P rule.action

end

/-! ### `genR`: every string of the configuration comes from a field -/

theorem oldest_mem : ∀ {l : List Gateway} {g : Gateway}, oldest l = some g → g ∈ l
  | [], _, h => by simp [oldest] at h
  | x :: xs, g, h => by
    simp only [oldest] at h
    cases ho : oldest xs with
    | none => rw [ho] at h; simp only [Option.some.injEq] at h; subst h; simp
    | some b =>
      rw [ho] at h
      simp only at h
      split at h
      · simp only [Option.some.injEq] at h; subst h
        exact List.mem_cons_of_mem _ (oldest_mem ho)
      · simp only [Option.some.injEq] at h; subst h; simp

theorem winner_mem {s : Scenario} {g : Gateway} (h : winner s = some g) : g ∈ s.gateways := by
  unfold winner at h
  split at h
  · exact (List.mem_filter.mp (oldest_mem h)).1
  · cases h

section
variable {P : Preds}

/-- `findAcceptedHostnames` returns the listener's hostname, a route hostname, or the fixed `~^` -/
theorem accepted_P (hw : P.host Hostname.wildcardHostname) {lh : Str} {rhs : List Str} (hl : lh = [] ∨ P.host lh)
    (hr : ∀ r ∈ rhs, P.host r) : ∀ h ∈ Hostname.accepted lh rhs, P.host h := by
  intro h hh
  unfold Hostname.accepted at hh
  split at hh
  · split at hh
    · simp only [List.mem_cons, List.not_mem_nil, or_false] at hh
      subst hh; exact hw
    · rename_i hne
      simp only [List.mem_cons, List.not_mem_nil, or_false] at hh
      subst hh
      rcases hl with e | e
      · simp [e] at hne
      · exact e
  · obtain ⟨r, hrm, hsome⟩ := List.mem_filterMap.mp hh
    split at hsome
    · rename_i hm
      simp only [Option.some.injEq] at hsome
      subst hsome
      have hrb := hr r hrm
      unfold Hostname.moreSpecific
      split
      · rename_i e
        have : lh = r := by simpa using e
        rw [this]; exact hrb
      · rename_i hne
        split
        · exact hrb
        · rename_i hlne
          have hlb : P.host lh := by
            rcases hl with e | e
            · simp [e] at hlne
            · exact e
          split
          · exact hlb
          · split
            · split
              · split <;> assumption
              · exact hrb
            · rename_i hw1
              split
              · exact hlb
              · rename_i hw2
                -- neither is a wildcard and they differ: `match` is false
                exfalso
                have hw1' : Hostname.isWild lh = false := by simpa using hw1
                have hw2' : Hostname.isWild r = false := by simpa using hw2
                have hne' : (r == lh) = false := by
                  simp only [beq_eq_false_iff_ne, ne_eq]
                  intro e; subst e; simp at hne
                have hle : lh.isEmpty = false := by simpa using hlne
                simp [Hostname.hmatch, Hostname.wildcardMatch, hle, hne', hw1', hw2'] at hm
    · cases hsome

theorem acceptedAt_P (hw : P.host Hostname.wildcardHostname) {s : Scenario} {g : Gateway} (hs : FieldsP P s)
    (hg : g ∈ s.gateways) {l : Listener} (hl : l ∈ g.listeners) {r : Route} (hr : r ∈ s.routes) (hv : r.valid = true) :
    ∀ h ∈ acceptedAt g l r, P.host h := by
  intro h hh
  unfold acceptedAt at hh
  split at hh
  · exact accepted_P hw (hs.1 g hg l hl) (hs.2 r hr hv).2.2.1 h hh
  · simp at hh

theorem hostsOf_P (hw : P.host Hostname.wildcardHostname) {s : Scenario} {g : Gateway} (hs : FieldsP P s)
    (hg : g ∈ s.gateways) : ∀ ph ∈ hostsOf g s.routes, P.host ph.2 := by
  intro ph hph
  unfold hostsOf at hph
  rw [List.mem_eraseDups] at hph
  simp only [List.mem_flatMap] at hph
  obtain ⟨l, hl, r, hr, hx⟩ := hph
  split at hx
  · rename_i hv
    obtain ⟨h, hh, rfl⟩ := List.mem_map.mp hx
    exact acceptedAt_P hw hs hg hl hr hv h hh
  · simp at hx

/-- what an enriched match rule carries -/
def EntryP (P : Preds) (x : REntry) : Prop := P.path x.e.m.path ∧ SrcP P x.src ∧ ActionP P x.e.action

theorem entries_P {s : Scenario} {g : Gateway} (hs : FieldsP P s) {x : REntry} (hx : x ∈ entriesR g s.routes) :
    EntryP P x := by
  obtain ⟨_, _, r, hr, hv, ⟨⟨i, rule, hi, hsx, hax, hm⟩, _, _⟩⟩ := mem_entriesR hx
  obtain ⟨h1, h2, _, h4⟩ := hs.2 r hr hv
  have hrule := h4 rule (List.mem_of_getElem? hi)
  exact ⟨hrule.1 _ hm, by rw [hsx]; exact ⟨h1, h2⟩, by rw [hax]; exact hrule.2⟩

theorem actOfR_P {port : Nat} {src : Src} {a : Action} (hs : SrcP P src) (ha : ActionP P a) :
    ActP P (actOfR port src a) := by
  cases a with
  | redirect code sch host p => exact ha
  | forward bs => exact ⟨hs, ha⟩

theorem ruleActR_P {port : Nat} {mrs : List REntry} (h : ∀ x ∈ mrs, EntryP P x) : LocActP P (ruleActR port mrs) := by
  have hm : ∀ x ∈ mrs, ActP P (rmatchOf port x).act := fun x hx => actOfR_P (h x hx).2.1 (h x hx).2.2
  unfold ruleActR
  split
  · rename_i x
    split
    · exact actOfR_P (h x (by simp)).2.1 (h x (by simp)).2.2
    · intro m hmm
      simp only [List.mem_cons, List.not_mem_nil, or_false] at hmm
      subst hmm
      exact hm x (by simp)
  · intro m hmm
    obtain ⟨x, hx, rfl⟩ := List.mem_map.mp hmm
    exact hm x hx

theorem extLocs_path {rules : List Precedence.PathRule} {i : Nat} {r : Precedence.PathRule} {gl : Precedence.GenLoc}
    (h : gl ∈ Precedence.extLocs rules i r) : gl.path = r.path ∨ gl.path = r.path ++ ['/'] := by
  unfold Precedence.extLocs at h
  split at h
  · simp only at h
    split at h
    · simp at h
    · rcases List.mem_append.mp h with h | h
      · split at h
        · simp only [List.mem_cons, List.not_mem_nil, or_false] at h; subst h; exact .inr rfl
        · simp at h
      · split at h
        · simp only [List.mem_cons, List.not_mem_nil, or_false] at h; subst h; exact .inl rfl
        · simp at h
  · simp only [List.mem_cons, List.not_mem_nil, or_false] at h; subst h; exact .inl rfl

theorem serverOfR_P (hsl : ∀ p, P.path p → P.path (p ++ ['/'])) {es : List REntry} (hes : ∀ x ∈ es, EntryP P x)
    (sid port : Nat) {h : Str} (hh : P.host h) : ServerP P (serverOfR es sid port h) := by
  refine ⟨hh, ?_⟩
  intro r hr
  simp only [serverOfR, List.mem_map] at hr
  obtain ⟨ik, hik, rfl⟩ := hr
  have hk : ik.2 ∈ ((es.filter fun x => x.e.port == port && x.e.host == h).map pathKeyR).eraseDups := enumFrom_mem_snd hik
  rw [List.mem_eraseDups] at hk
  obtain ⟨x, hx, hxk⟩ := List.mem_map.mp hk
  have hxe : x ∈ es := (List.mem_filter.mp hx).1
  have hp : P.path ik.2.2 := by
    rw [← hxk]; exact (hes x hxe).1
  refine ⟨?_, ?_⟩
  · intro k hkm
    simp only [List.mem_map] at hkm
    obtain ⟨gl, hgl, rfl⟩ := hkm
    rcases extLocs_path hgl with e | e
    · simp only; rw [e]; exact hp
    · simp only; rw [e]; exact hsl _ hp
  · apply ruleActR_P
    intro y hy
    unfold sortR at hy
    have := List.mem_mergeSort.mp hy
    exact hes y (List.mem_filter.mp (List.mem_filter.mp this).1).1

theorem backendsOf_P {a : Action} (h : ActionP P a) : BsP P (backendsOf a) := by
  cases a with
  | redirect => intro b hb; simp [backendsOf] at hb
  | forward bs => exact h

/-- **Dataflow through `genR`**: every string of the enriched configuration is a field of the scenario, a match path
with `/` appended, or the fixed `~^` — so whatever holds of the fields holds of the configuration. -/
theorem confP_genR (hw : P.host Hostname.wildcardHostname) (hsl : ∀ p, P.path p → P.path (p ++ ['/'])) {s : Scenario}
    (hs : FieldsP P s) (order : List Nat) : ConfP P (genR s order) := by
  unfold genR
  split
  · exact ⟨by simp, by simp⟩
  · rename_i g hwin
    have hg := winner_mem hwin
    have hes : ∀ x ∈ entriesR g s.routes, EntryP P x := fun x hx => entries_P hs hx
    refine ⟨?_, ?_⟩
    · intro sv hsv
      simp only [List.mem_map] at hsv
      obtain ⟨ph, hph, rfl⟩ := hsv
      exact serverOfR_P hsl hes _ _ (hostsOf_P hw hs hg ph hph)
    · intro gr hgr
      simp only [groupsOf] at hgr
      have := (dedupKey_sub hgr).1
      obtain ⟨x, hx, rfl⟩ := List.mem_map.mp this
      exact ⟨(hes x hx).2.1, backendsOf_P (hes x hx).2.2⟩

end

end NGF.Print
