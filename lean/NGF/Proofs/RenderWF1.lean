/-
`wfDirs (render c)` for a `GoodConf c`, part 1: the clauses about the http level — (listen, server_name) pairs,
default_server per address, split_clients variables and percentages. Core Lean only.
-/
import NGF.Proofs.RenderInv
import NGF.Proofs.RenderScript

namespace NGF.Render
open NGF.Pipeline NGF.Nginx NGF.Mangle

/-! ### listen addresses -/

/-- the two addresses a server listens on (IPv4 / IPv6 form of the port) -/
def lk (v6 : Bool) (p : Nat) : List Char := if v6 then "[::]:".toList ++ digits p else digits p

theorem lk_head (u : Bool) (p : Nat) : ∃ c t, lk u p = c :: t ∧ (c.isDigit = true ∨ c = '[') := by
  cases u with
  | true => exact ⟨'[', ":::]:".toList.drop 1 ++ digits p, by simp [lk], Or.inr rfl⟩
  | false =>
    cases h : digits p with
    | nil => exact absurd h (digits_ne_nil p)
    | cons c t => exact ⟨c, t, by simp [lk, h], Or.inl (digits_isDigit (h ▸ List.mem_cons_self))⟩

theorem lk_inj {a b : Bool} {p q : Nat} (e : lk a p = lk b q) : a = b ∧ p = q := by
  have e5 : "[::]:".toList = ['[', ':', ':', ']', ':'] := by decide
  cases a <;> cases b
  · exact ⟨rfl, digits_injective (by simpa [lk] using e)⟩
  · obtain ⟨c, t, hc, hd⟩ := lk_head false p
    rw [hc] at e
    simp only [lk, ↓reduceIte, e5, List.cons_append, List.cons.injEq] at e
    rcases hd with hd | hd
    · rw [e.1] at hd; exact absurd hd (by decide)
    · simp only [lk, Bool.false_eq_true, ↓reduceIte] at hc
      have := digits_isDigit (n := p) (c := c) (hc ▸ List.mem_cons_self)
      rw [hd] at this; exact absurd this (by decide)
  · obtain ⟨c, t, hc, hd⟩ := lk_head false q
    rw [hc] at e
    simp only [lk, ↓reduceIte, e5, List.cons_append, List.cons.injEq] at e
    rcases hd with hd | hd
    · rw [← e.1] at hd; exact absurd hd (by decide)
    · simp only [lk, Bool.false_eq_true, ↓reduceIte] at hc
      have := digits_isDigit (n := q) (c := c) (hc ▸ List.mem_cons_self)
      rw [hd] at this; exact absurd this (by decide)
  · simp only [lk, ↓reduceIte] at e
    exact ⟨rfl, digits_injective (List.append_cancel_left e)⟩

theorem lk_ne_of_head {u : Bool} {p : Nat} {c : Char} {t : List Char} (hc : c.isDigit = false) (hb : c ≠ '[') :
    lk u p ≠ c :: t := by
  intro e
  obtain ⟨c', t', h1, h2⟩ := lk_head u p
  rw [h1] at e
  simp only [List.cons.injEq] at e
  rcases h2 with h2 | h2
  · rw [e.1, hc] at h2; exact absurd h2 (by simp)
  · exact hb (e.1 ▸ h2)

def sock503 : List Char := "unix:/var/run/nginx/nginx-503-server.sock".toList
def sock500 : List Char := "unix:/var/run/nginx/nginx-500-server.sock".toList

theorem lk_ne_sock503 (u : Bool) (p : Nat) : lk u p ≠ sock503 := by
  have : sock503 = 'u' :: (sock503.drop 1) := by decide
  rw [this]; exact lk_ne_of_head (by decide) (by decide)

theorem lk_ne_sock500 (u : Bool) (p : Nat) : lk u p ≠ sock500 := by
  have : sock500 = 'u' :: (sock500.drop 1) := by decide
  rw [this]; exact lk_ne_of_head (by decide) (by decide)

theorem lk_ne_default (u : Bool) (p : Nat) : lk u p ≠ "default_server".toList := by
  have : "default_server".toList = 'd' :: "efault_server".toList := by decide
  rw [this]; exact lk_ne_of_head (by decide) (by decide)

/-! ### (listen, server_name) pairs -/

def pairsOf (pn : Nat × Str) : List (List Char × List Char) := [(lk false pn.1, pn.2), (lk true pn.1, pn.2)]

theorem srvPairs_default (p : Nat) : srvPairs (renderDefault p) = pairsOf (p, []) := rfl

theorem srvPairs_server (sv : RServer) : srvPairs (renderServer sv) = pairsOf (sv.port, sv.name) := by
  unfold srvPairs
  rw [listens_of_renderServer, names_of_renderServer]
  simp [listenDirs, arg0, wl, pairsOf, lk]

theorem srvPairs_tail : tailServers.flatMap srvPairs = [(sock503, []), (sock500, [])] := rfl

def items (c : ConfR) : List (Nat × Str) :=
  c.dports.map (fun d => (d.1, ([] : Str))) ++ c.servers.map fun sv => (sv.port, sv.name)

theorem items_nodup {c : ConfR} (h : GoodConf c) : (items c).Nodup := by
  unfold items
  rw [List.nodup_append]
  refine ⟨?_, h.hosts_nodup, ?_⟩
  · have : c.dports.map (fun d => (d.1, ([] : Str))) = (c.dports.map (·.1)).map fun p => (p, ([] : Str)) := by
      simp [List.map_map, Function.comp_def]
    rw [this]
    exact nodup_map_of_inj (fun a _ b _ e => by simpa using e) h.dports_nodup
  · intro a ha b hb e
    obtain ⟨d, _, rfl⟩ := List.mem_map.mp ha
    obtain ⟨sv, hsv, rfl⟩ := List.mem_map.mp hb
    simp only [Prod.mk.injEq] at e
    exact (h.servers sv hsv).name_ne e.2.symm

theorem pairs_perm (c : ConfR) :
    ((serverDirs c ++ tailServers).flatMap srvPairs).Perm ((items c).flatMap pairsOf ++ [(sock503, []), (sock500, [])]) := by
  rw [List.flatMap_append, srvPairs_tail]
  refine List.Perm.append_right _ ?_
  refine ((serverDirs_perm c).flatMap_right srvPairs).trans ?_
  have e : ((serverItems c).map (·.2)).flatMap srvPairs = (items c).flatMap pairsOf := by
    simp only [serverItems, items, List.map_append, List.map_map, Function.comp_def, List.flatMap_append, List.flatMap_map,
      srvPairs_default, srvPairs_server]
  rw [e]

theorem pairs_nodup {c : ConfR} (h : GoodConf c) : ((serverDirs c ++ tailServers).flatMap srvPairs).Nodup := by
  rw [(pairs_perm c).nodup_iff, List.nodup_append]
  refine ⟨?_, ?_, ?_⟩
  · apply nodup_flatMap
    · intro a _
      simp only [pairsOf, List.nodup_cons, List.mem_singleton, Prod.mk.injEq, List.not_mem_nil, not_false_eq_true,
        List.nodup_nil, and_true]
      intro e
      have := (lk_inj e).1
      simp at this
    · refine pairwise_of_nodup_inj (items_nodup h) ?_
      intro a _ b _ hne x hx y hy e
      simp only [pairsOf, List.mem_cons, List.mem_nil_iff, or_false] at hx hy
      apply hne
      rcases hx with rfl | rfl <;> rcases hy with rfl | rfl <;>
        (simp only [Prod.mk.injEq] at e; exact Prod.ext (lk_inj e.1).2 e.2)
  · simp only [List.nodup_cons, List.mem_singleton, Prod.mk.injEq, and_true, List.not_mem_nil, not_false_eq_true,
      List.nodup_nil]
    decide
  · intro x hx y hy e
    obtain ⟨pn, _, hx⟩ := List.mem_flatMap.mp hx
    simp only [pairsOf, List.mem_cons, List.mem_nil_iff, or_false] at hx hy
    subst e
    rcases hx with rfl | rfl <;> rcases hy with hy | hy <;> simp only [Prod.mk.injEq] at hy
    · exact lk_ne_sock503 _ _ hy.1
    · exact lk_ne_sock500 _ _ hy.1
    · exact lk_ne_sock503 _ _ hy.1
    · exact lk_ne_sock500 _ _ hy.1

/-! ### default_server -/

theorem defaultListens_default (p : Nat) : defaultListens (renderDefault p) = [lk false p, lk true p] := by
  simp [defaultListens, renderDefault, listenDirs, named, arg0, wl, w, lk]

theorem defaultListens_server (sv : RServer) : defaultListens (renderServer sv) = [] := by
  unfold defaultListens
  rw [listens_of_renderServer, List.map_eq_nil_iff, List.filter_eq_nil_iff]
  intro d hd
  simp only [listenDirs, List.map_nil, List.mem_cons, List.mem_nil_iff, or_false] at hd
  have h1 := lk_ne_default false sv.port
  have h2 := lk_ne_default true sv.port
  simp only [lk, Bool.false_eq_true, ↓reduceIte] at h1 h2
  rcases hd with rfl | rfl
  · simp only [dir_args, wl, List.map_cons, List.map_nil, List.contains_cons, List.contains_nil, Bool.or_false,
      beq_iff_eq]
    exact fun e => h1 e.symm
  · simp only [dir_args, wl, List.map_cons, List.map_nil, List.contains_cons, List.contains_nil, Bool.or_false,
      beq_iff_eq]
    exact fun e => h2 e.symm

theorem defaultListens_tail : tailServers.flatMap defaultListens = [] := by decide

theorem defaults_nodup {c : ConfR} (h : GoodConf c) : ((serverDirs c ++ tailServers).flatMap defaultListens).Nodup := by
  rw [List.flatMap_append, defaultListens_tail, List.append_nil,
    ((serverDirs_perm c).flatMap_right defaultListens).nodup_iff]
  have e : ((serverItems c).map (·.2)).flatMap defaultListens = (c.dports.map (·.1)).flatMap fun p => [lk false p, lk true p] := by
    simp only [serverItems, List.map_append, List.map_map, Function.comp_def, List.flatMap_append, List.flatMap_map,
      defaultListens_default, defaultListens_server]
    simp
  rw [e]
  apply nodup_flatMap
  · intro p _
    simp only [List.nodup_cons, List.mem_singleton, List.not_mem_nil, not_false_eq_true, List.nodup_nil, and_true]
    intro e
    have := (lk_inj e).1
    simp at this
  · refine pairwise_of_nodup_inj h.dports_nodup ?_
    intro a _ b _ hne x hx y hy e
    simp only [List.mem_cons, List.mem_nil_iff, or_false] at hx hy
    apply hne
    rcases hx with rfl | rfl <;> rcases hy with rfl | rfl <;> exact (lk_inj e).2

/-! ### split_clients -/

theorem splitVar_splitBlock (g : Src × List Backend) : splitVar (splitBlock g) = srcVar g.1 := by
  simp [splitVar, splitBlock, argLast, wl, w, srcVar]

theorem splitVars_eq (c : ConfR) : (splitDirs c).map splitVar = (c.groups.filter needsSplit).map fun g => srcVar g.1 := by
  simp [splitDirs, List.map_map, Function.comp_def, splitVar_splitBlock]

theorem splitVars_nodup {c : ConfR} (h : GoodConf c) : ((splitDirs c).map splitVar).Nodup := by
  rw [splitVars_eq]
  have hsub : ((c.groups.filter needsSplit).map (·.1)).Nodup :=
    (List.filter_sublist.map _).nodup h.groups_keys
  have : (c.groups.filter needsSplit).map (fun g => srcVar g.1) = ((c.groups.filter needsSplit).map (·.1)).map srcVar := by
    simp [List.map_map, Function.comp_def]
  rw [this]
  refine nodup_map_of_inj ?_ hsub
  intro a ha b hb e
  obtain ⟨ga, hga, rfl⟩ := List.mem_map.mp ha
  obtain ⟨gb, hgb, rfl⟩ := List.mem_map.mp hb
  exact srcVar_inj (h.groups_safe ga (List.mem_filter.mp hga).1) (h.groups_safe gb (List.mem_filter.mp hgb).1) e

theorem pctOf_star : pctOf ['*'] = none := by decide

theorem pctEntry_of_pctOf {n : List Char} {v : Nat} (h : pctOf n = some v) : pctEntry n = some v := by
  unfold pctEntry
  by_cases e : n = ['*']
  · rw [e, pctOf_star] at h; cases h
  · simp [e, h]

theorem splitIssues_splitBlock (g : Src × List Backend) : splitIssues (splitBlock g) = [] := by
  obtain ⟨hok, hsum⟩ := splitEntries_valid g.2
  have hentry : ∀ e ∈ splitEntries g.2, pctEntry e.name = pctOf e.name := by
    intro e he
    obtain ⟨⟨v, hv, _⟩, _, _⟩ := hok e he
    rw [pctEntry_of_pctOf hv, hv]
  unfold splitIssues
  simp only [splitBlock, body_blk]
  rw [List.append_eq_nil_iff, List.append_eq_nil_iff]
  refine ⟨⟨?_, ?_⟩, ?_⟩
  · rw [List.flatMap_eq_nil_iff]
    intro e he
    obtain ⟨_, h1, h2⟩ := hok e he
    simp [h1, h2]
  · rw [List.flatMap_eq_nil_iff]
    intro e he
    obtain ⟨⟨v, hv, _⟩, _, _⟩ := hok e he
    simp [pctEntry_of_pctOf hv]
  · have : ((splitEntries g.2).map fun e => (pctEntry e.name).getD 0) = (splitEntries g.2).map fun e => (pctOf e.name).getD 0 := by
      apply List.map_congr_left
      intro e he
      rw [hentry e he]
    simp only [this, hsum]
    simp

theorem lexIssue_splitBlock {c : ConfR} (h : GoodConf c) {sc : Dir} (hsc : sc ∈ splitDirs c) :
    ((splitVar sc).all NGF.WF.isVarChar && !(splitVar sc).isEmpty) = true := by
  obtain ⟨g, hg, rfl⟩ := List.mem_map.mp hsc
  rw [splitVar_splitBlock]
  have hs := h.groups_safe g (List.mem_filter.mp hg).1
  have hne := srcVar_ne_nil g.1
  rw [srcVar_lexable hs]
  cases hv : srcVar g.1 with
  | nil => exact absurd hv hne
  | cons _ _ => rfl


/-! ### arguments of `listen` -/

theorem allDigits_digits (p : Nat) : NGF.WF.allDigits (digits p) = true := by
  unfold NGF.WF.allDigits
  have hne : (digits p).isEmpty = false := by
    cases h : digits p with
    | nil => exact absurd h (digits_ne_nil p)
    | cons _ _ => rfl
  rw [hne]
  simp only [Bool.not_false, Bool.true_and, List.all_eq_true]
  intro c hc
  exact digits_isDigit hc

theorem portOK_digits {p : Nat} (h1 : 1 ≤ p) (h2 : p ≤ 65535) : NGF.WF.portOK (digits p) = true := by
  unfold NGF.WF.portOK
  have e : Nat.ofDigitChars 10 (digits p) 0 = p := by simp [digits, Nat.ofDigitChars_ten_toDigits]
  rw [allDigits_digits, e]
  simp [h1, h2]

theorem startsWithL_cons_ne {a b : Char} {as bs : List Char} (h : a ≠ b) : NGF.WF.startsWithL (a :: as) (b :: bs) = false := by
  simp [NGF.WF.startsWithL, h]

theorem listenAddrOK_lk (u : Bool) {p : Nat} (h1 : 1 ≤ p) (h2 : p ≤ 65535) : NGF.WF.listenAddrOK (lk u p) = true := by
  cases u with
  | false =>
    obtain ⟨c, t, hc⟩ : ∃ c t, digits p = c :: t := by
      cases h : digits p with
      | nil => exact absurd h (digits_ne_nil p)
      | cons c t => exact ⟨c, t, rfl⟩
    have hd : c.isDigit = true := digits_isDigit (hc ▸ List.mem_cons_self)
    have hcu : c ≠ 'u' := by intro e; rw [e] at hd; exact absurd hd (by decide)
    have hcb : c ≠ '[' := by intro e; rw [e] at hd; exact absurd hd (by decide)
    have hcolon : (digits p).contains ':' = false := by
      rw [Bool.eq_false_iff]
      intro hm
      exact not_mem_digits_of_not_isDigit (c := ':') (by decide) (List.contains_iff_mem.mp hm)
    have hunix : NGF.WF.startsWithL (digits p) "unix:".toList = false := by
      rw [hc, show "unix:".toList = 'u' :: "nix:".toList from by decide]
      exact startsWithL_cons_ne hcu
    have hhead : ((digits p).head? == some '[') = false := by
      rw [hc]; simpa using hcb
    simp only [lk, Bool.false_eq_true, ↓reduceIte]
    unfold NGF.WF.listenAddrOK
    simp only [hunix, hhead, hcolon, Bool.false_eq_true, ↓reduceIte, allDigits_digits]
    exact portOK_digits h1 h2
  | true =>
    have e5 : "[::]:".toList = ['[', ':', ':', ']', ':'] := by decide
    have hu : "unix:".toList = ['u', 'n', 'i', 'x', ':'] := by decide
    simp only [lk, ↓reduceIte, e5, List.cons_append, List.nil_append]
    unfold NGF.WF.listenAddrOK
    simp only [hu, NGF.WF.startsWithL]
    simp [List.takeWhile, List.dropWhile, portOK_digits h1 h2]
    decide

theorem listenIssue_plain (u : Bool) {p : Nat} (h1 : 1 ≤ p) (h2 : p ≤ 65535) :
    listenIssue (dir "listen" [wl (lk u p)]) = [] := by
  simp [listenIssue, NGF.WF.listenWhy, wl, listenAddrOK_lk u h1 h2]

theorem listenFlag_default :
    NGF.WF.listenFlagOK ['d', 'e', 'f', 'a', 'u', 'l', 't', '_', 's', 'e', 'r', 'v', 'e', 'r'] = true := by decide

theorem listenIssue_default (u : Bool) {p : Nat} (h1 : 1 ≤ p) (h2 : p ≤ 65535) :
    listenIssue (dir "listen" [wl (lk u p), w "default_server"]) = [] := by
  simp [listenIssue, NGF.WF.listenWhy, wl, w, listenAddrOK_lk u h1 h2, listenFlag_default]

theorem listenDirs_eq (p : Nat) (extra : List String) :
    listenDirs p extra = [dir "listen" (wl (lk false p) :: extra.map w), dir "listen" (wl (lk true p) :: extra.map w)] := by
  simp [listenDirs, lk]

theorem listens_of_default (p : Nat) : named "listen" (body (renderDefault p)) = listenDirs p ["default_server"] := rfl

theorem listenIssues_tail : tailServers.flatMap (fun s => (named "listen" (body s)).flatMap listenIssue) = [] := by decide

theorem listenIssues_servers {c : ConfR} (h : GoodConf c) :
    (serverDirs c ++ tailServers).flatMap (fun s => (named "listen" (body s)).flatMap listenIssue) = [] := by
  rw [List.flatMap_append, listenIssues_tail, List.append_nil, List.flatMap_eq_nil_iff]
  intro d hd
  rcases mem_serverDirs.mp hd with ⟨dp, hdp, rfl⟩ | ⟨sv, hsv, rfl⟩
  · obtain ⟨h1, h2⟩ := h.ports_ok.1 dp hdp
    rw [listens_of_default, listenDirs_eq]
    simp [listenIssue_default _ h1 h2]
  · obtain ⟨h1, h2⟩ := h.ports_ok.2 sv hsv
    rw [listens_of_renderServer, listenDirs_eq]
    simp [listenIssue_plain _ h1 h2]

end NGF.Render
