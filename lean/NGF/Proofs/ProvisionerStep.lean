/-
C18: what one `HandleEventBatch` does to a well-formed state, for an arbitrary removal scan
(`stepWith rem`), then specialised to the code in the tree (`step`) and to the pre-fix code
(`stepPreFix`).
-/
import NGF.Proofs.ProvisionerInv

namespace NGF.Prov

abbrev Hist := List (List Ev × List Key)

/-- the state `ensureDeploymentsMatchGateways` starts from when the configured class is stored -/
def pre (cfg : Cfg) (s : State) (b : List Ev) : State :=
  { storeUpdate s b with statuses := (storeUpdate s b).gcs.map (fun n => (n, gcConds cfg n)) }

theorem setStatuses_ok {cfg : Cfg} {s : State} (h : cfg.gcName ∈ s.gcs) :
    setStatuses cfg s = { s with statuses := s.gcs.map (fun n => (n, gcConds cfg n)) } := by
  simp [setStatuses, h]

theorem setStatuses_crash {cfg : Cfg} {s : State} (h : cfg.gcName ∉ s.gcs) :
    setStatuses cfg s = { s with crashed := some .gcAbsent } := by
  simp [setStatuses, h]

section Generic
variable (rem : Removal)

theorem stepWith_ok {cfg : Cfg} {s : State} {b : List Ev} {o : List Key} (hc : s.crashed = none)
    (hg : cfg.gcName ∈ (storeUpdate s b).gcs) : stepWith rem cfg s b o = ensureWith rem cfg (pre cfg s b) o := by
  have hcs : (storeUpdate s b).crashed = none := by rw [(storeUpdate_frame s b).2.2.2]; exact hc
  simp [stepWith, hc, setStatuses_ok hg, hcs, pre]

theorem stepWith_crash {cfg : Cfg} {s : State} {b : List Ev} {o : List Key} (hc : s.crashed = none)
    (hg : cfg.gcName ∉ (storeUpdate s b).gcs) :
    stepWith rem cfg s b o = { storeUpdate s b with crashed := some .gcAbsent } := by
  simp [stepWith, hc, setStatuses_crash hg]

theorem stepWith_crashed {cfg : Cfg} {s : State} {b : List Ev} {o : List Key} (hc : s.crashed ≠ none) :
    stepWith rem cfg s b o = s := by
  cases h : s.crashed with
  | none => exact absurd h hc
  | some c => simp [stepWith, h]

theorem pre_wf {cfg : Cfg} {s : State} (h : WF cfg s) (hc : s.crashed = none) (b : List Ev) :
    WF cfg (pre cfg s b) ∧ (pre cfg s b).crashed = none ∧ (pre cfg s b).prov = s.prov ∧
    (pre cfg s b).gws = (storeUpdate s b).gws ∧ (pre cfg s b).gcs = (storeUpdate s b).gcs ∧
    (pre cfg s b).nextID = s.nextID := by
  obtain ⟨f1, f2, f3, f4⟩ := storeUpdate_frame s b
  obtain ⟨a, b', c, d, n, f⟩ := storeUpdate_wf h b
  refine ⟨⟨a, b', c, d, n, ?_⟩, ?_, f1, rfl, rfl, f3⟩
  · exact Or.inl (f4.trans hc)
  · exact f4.trans hc

/-- One non-panicking `HandleEventBatch`, whatever the removal scan. -/
theorem stepWith_spec (cfg : Cfg) (s : State) (b : List Ev) (o : List Key) (h : WF cfg s) (hc : s.crashed = none)
    (hg : cfg.gcName ∈ (storeUpdate s b).gcs) :
    WF cfg (stepWith rem cfg s b o) ∧ (stepWith rem cfg s b o).crashed = none ∧
    (stepWith rem cfg s b o).gws = (storeUpdate s b).gws ∧ (stepWith rem cfg s b o).gcs = (storeUpdate s b).gcs ∧
    (stepWith rem cfg s b o).statuses = (storeUpdate s b).gcs.map (fun n => (n, gcConds cfg n)) ∧
    (∀ k, hasKey (stepWith rem cfg s b o).prov k =
      ((hasKey s.prov k || decide (get? (storeUpdate s b).gws k = some cfg.gcName)) &&
        !decide (k ∈ rem cfg (pre cfg s b)))) ∧
    (∀ k, hasKey s.prov k = true → k ∉ rem cfg (pre cfg s b) →
      get? (stepWith rem cfg s b o).prov k = get? s.prov k) ∧
    s.nextID ≤ (stepWith rem cfg s b o).nextID := by
  obtain ⟨pw, pc, pp, pg, pgc, pn⟩ := pre_wf h hc b
  obtain ⟨e1, e2, e3, e4, e5, e6, e7, e8⟩ := ensureWith_spec rem cfg (pre cfg s b) o pw pc
  rw [stepWith_ok rem hc hg]
  refine ⟨e1, e2, e3.trans pg, e4.trans pgc, e5, ?_, ?_, pn ▸ e8⟩
  · intro k; rw [e6 k, pp, pg]
  · intro k hp hr
    rw [← pp] at hp
    rw [e7 k hp hr, pp]

theorem stepWith_wf {cfg : Cfg} {s : State} (h : WF cfg s) (b : List Ev) (o : List Key) :
    WF cfg (stepWith rem cfg s b o) := by
  by_cases hc : s.crashed = none
  · by_cases hg : cfg.gcName ∈ (storeUpdate s b).gcs
    · exact (stepWith_spec rem cfg s b o h hc hg).1
    · rw [stepWith_crash rem hc hg]
      obtain ⟨a, b', c, d, n, f⟩ := storeUpdate_wf h b
      exact ⟨a, b', c, d, n, Or.inr rfl⟩
  · rw [stepWith_crashed rem hc]; exact h

theorem runWith_wf {cfg : Cfg} (hist : Hist) {s : State} (h : WF cfg s) : WF cfg (runWith rem cfg s hist) := by
  induction hist generalizing s with
  | nil => exact h
  | cons x t ih => exact ih (stepWith_wf rem h x.1 x.2)

/-- the handler panics exactly when the configured class is absent from the store after the update -/
theorem stepWith_crashed_iff {cfg : Cfg} {s : State} (h : WF cfg s) (hc : s.crashed = none) (b : List Ev)
    (o : List Key) : (stepWith rem cfg s b o).crashed = none ↔ cfg.gcName ∈ (storeUpdate s b).gcs := by
  by_cases hg : cfg.gcName ∈ (storeUpdate s b).gcs
  · simp [hg, (stepWith_spec rem cfg s b o h hc hg).2.1]
  · simp [hg, stepWith_crash rem hc hg]

theorem stepWith_gws (cfg : Cfg) (s : State) (b : List Ev) (o : List Key) (h : WF cfg s) (hc : s.crashed = none) :
    (stepWith rem cfg s b o).gws = (storeUpdate s b).gws := by
  by_cases hg : cfg.gcName ∈ (storeUpdate s b).gcs
  · exact (stepWith_spec rem cfg s b o h hc hg).2.2.1
  · rw [stepWith_crash rem hc hg]

theorem runWith_crashed_stays {cfg : Cfg} (hist : Hist) {s : State} (hc : s.crashed ≠ none) :
    runWith rem cfg s hist = s := by
  induction hist with
  | nil => rfl
  | cons x t ih => simp only [runWith]; rw [stepWith_crashed rem hc]; exact ih

theorem runWith_append (cfg : Cfg) (s : State) (h₁ h₂ : Hist) :
    runWith rem cfg s (h₁ ++ h₂) = runWith rem cfg (runWith rem cfg s h₁) h₂ := by
  induction h₁ generalizing s with
  | nil => rfl
  | cons x t ih => simp only [List.cons_append, runWith]; exact ih _

/-- the state before the last batch of a non-panicked run had not panicked either -/
theorem runWith_snoc_ok {cfg : Cfg} {hist : Hist} {b : List Ev} {o : List Key}
    (hc : (runWith rem cfg init (hist ++ [(b, o)])).crashed = none) :
    (runWith rem cfg init hist).crashed = none ∧
    runWith rem cfg init (hist ++ [(b, o)]) = stepWith rem cfg (runWith rem cfg init hist) b o ∧
    cfg.gcName ∈ (storeUpdate (runWith rem cfg init hist) b).gcs := by
  have e : runWith rem cfg init (hist ++ [(b, o)]) = stepWith rem cfg (runWith rem cfg init hist) b o := by
    simp only [runWith_append, runWith]
  rw [e] at hc
  have hc0 : (runWith rem cfg init hist).crashed = none := by
    cases h : (runWith rem cfg init hist).crashed with
    | none => rfl
    | some c => rw [stepWith_crashed rem (by simp [h])] at hc; rw [h] at hc; cases hc
  exact ⟨hc0, e, (stepWith_crashed_iff rem (runWith_wf rem hist (wf_init cfg)) hc0 b o).mp hc⟩

/-- generic induction over batches for a property established by every non-panicking step -/
theorem runWith_induct {cfg : Cfg} (P : State → Prop)
    (hstep : ∀ s b o, WF cfg s → s.crashed = none → (stepWith rem cfg s b o).crashed = none →
      P (stepWith rem cfg s b o))
    (hist : Hist) (s : State) (h : WF cfg s) (h0 : P s) (hc' : (runWith rem cfg s hist).crashed = none) :
    P (runWith rem cfg s hist) := by
  induction hist generalizing s with
  | nil => exact h0
  | cons x t ih =>
    simp only [runWith] at hc' ⊢
    by_cases hc : s.crashed = none
    · by_cases hs : (stepWith rem cfg s x.1 x.2).crashed = none
      · exact ih _ (stepWith_wf rem h _ _) (hstep s x.1 x.2 h hc hs) hc'
      · rw [runWith_crashed_stays rem t hs] at hc'; exact absurd hc' hs
    · exfalso
      rw [stepWith_crashed rem hc, runWith_crashed_stays rem t hc] at hc'; exact hc hc'

end Generic

/-! ### the two removal scans -/

/-- the code in the tree: after a non-panicking batch the provisioned keys are exactly the stored
Gateways of the configured class -/
theorem step_prov (cfg : Cfg) (s : State) (b : List Ev) (o : List Key) (h : WF cfg s) (hc : s.crashed = none)
    (hg : cfg.gcName ∈ (storeUpdate s b).gcs) (k : Key) :
    hasKey (step cfg s b o).prov k = decide (get? (step cfg s b o).gws k = some cfg.gcName) := by
  obtain ⟨_, _, g, _, _, p, _, _⟩ := stepWith_spec removedGwsWithDeps cfg s b o h hc hg
  obtain ⟨_, _, pp, pg, _, _⟩ := pre_wf h hc b
  show hasKey (stepWith removedGwsWithDeps cfg s b o).prov k = decide (get? (stepWith removedGwsWithDeps cfg s b o).gws k = _)
  rw [p k, g, Bool.eq_iff_iff]
  simp only [Bool.and_eq_true, Bool.or_eq_true, decide_eq_true_eq, Bool.not_eq_true', decide_eq_false_iff_not,
    mem_removedGwsWithDeps, pp, pg]
  constructor
  · rintro ⟨h1 | h1, h2⟩
    · exact Classical.byContradiction fun hne => h2 ⟨h1, hne⟩
    · exact h1
  · intro h1
    exact ⟨Or.inr h1, fun hx => hx.2 h1⟩

/-- the pre-fix code: only entries whose Gateway left the store are dropped -/
theorem stepPreFix_prov (cfg : Cfg) (s : State) (b : List Ev) (o : List Key) (h : WF cfg s) (hc : s.crashed = none)
    (hg : cfg.gcName ∈ (storeUpdate s b).gcs) (k : Key) :
    hasKey (stepPreFix cfg s b o).prov k =
      ((hasKey s.prov k || decide (get? (storeUpdate s b).gws k = some cfg.gcName)) &&
        !(hasKey s.prov k && !hasKey (storeUpdate s b).gws k)) := by
  obtain ⟨_, _, g, _, _, p, _, _⟩ := stepWith_spec removedPreFix cfg s b o h hc hg
  obtain ⟨_, _, pp, pg, _, _⟩ := pre_wf h hc b
  show hasKey (stepWith removedPreFix cfg s b o).prov k = _
  rw [p k]
  congr 2
  rw [Bool.eq_iff_iff]
  simp only [decide_eq_true_eq, mem_removedPreFix, pp, pg, Bool.and_eq_true, Bool.not_eq_true']

theorem gcConds_eq (cfg : Cfg) (n : Str) :
    gcConds cfg n = if n = cfg.gcName then defaultConds else [⟨tSupportedVersion, true, tSupportedVersion⟩, conflictCond] := by
  unfold gcConds
  split <;> decide

end NGF.Prov
