/-
Helper lemmas for the C16 theorems (`NGF.Props.C16`) about `NGF.Model.TlsBind`. Core Lean only.
-/
import NGF.Model.TlsBind

namespace NGF.Tls

/-! ### ids -/

/-- splitting at the first underscore is unambiguous when the left parts contain none -/
theorem append_sep_inj {a b c d : List Char} (ha : '_' ∉ a) (hc : '_' ∉ c)
    (h : a ++ '_' :: b = c ++ '_' :: d) : a = c ∧ b = d := by
  induction a generalizing c with
  | nil =>
    cases c with
    | nil => simp at h; exact ⟨rfl, h⟩
    | cons x xs =>
      simp at h
      have : x = '_' := h.1.symm
      simp [this] at hc
  | cons x xs ih =>
    cases c with
    | nil =>
      simp at h
      have : x = '_' := h.1
      simp [this] at ha
    | cons y ys =>
      simp at h
      have hx : '_' ∉ xs := fun hm => ha (List.mem_cons_of_mem _ hm)
      have hy : '_' ∉ ys := fun hm => hc (List.mem_cons_of_mem _ hm)
      obtain ⟨h1, h2⟩ := ih hx hy h.2
      exact ⟨by rw [h.1, h1], h2⟩

theorem keyPairId_inj {a b : Name × Name} (ha : '_' ∉ a.1) (hb : '_' ∉ b.1)
    (h : keyPairId a = keyPairId b) : a = b := by
  unfold keyPairId at h
  rw [List.append_assoc, List.append_assoc] at h
  have h' := List.append_cancel_left h
  obtain ⟨h1, h2⟩ := append_sep_inj ha hb h'
  exact Prod.ext h1 h2

theorem certBundleId_inj {a b : Name × Name} (ha : '_' ∉ a.1) (hb : '_' ∉ b.1)
    (h : certBundleId a = certBundleId b) : a = b := by
  unfold certBundleId at h
  rw [List.append_assoc, List.append_assoc] at h
  have h' := List.append_cancel_left h
  obtain ⟨h1, h2⟩ := append_sep_inj ha hb h'
  exact Prod.ext h1 h2

theorem pemFileName_inj {a b : List Char} (h : pemFileName a = pemFileName b) : a = b := by
  unfold pemFileName at h
  have h' := List.append_cancel_left (List.append_cancel_right h)
  simpa using h'

/-! ### key pairs: only valid listeners contribute -/

theorem buildSSLKeyPairs_filter (secrets : List SecretObj) (ls : List Listener) :
    buildSSLKeyPairs secrets ls = buildSSLKeyPairs secrets (ls.filter Listener.valid) := by
  induction ls with
  | nil => rfl
  | cons l ls ih =>
    by_cases hv : l.valid
    · simp [List.filter, hv, buildSSLKeyPairs, ih]
    · simp [List.filter, hv, buildSSLKeyPairs, ih]

theorem mem_insertKP {m : List KeyPair} {k x : KeyPair} (h : x ∈ insertKP m k) : x = k ∨ x ∈ m := by
  unfold insertKP at h
  simp at h
  rcases h with h | h
  · exact Or.inl h
  · exact Or.inr h.1

/-- every key pair comes from a valid listener and carries the bytes of the Secret it references -/
theorem buildSSLKeyPairs_sound (secrets : List SecretObj) (ls : List Listener) (k : KeyPair)
    (h : k ∈ buildSSLKeyPairs secrets ls) :
    ∃ l ∈ ls, l.valid = true ∧ k.id = keyPairId l.secret ∧
      ∃ s, findSecret secrets l.secret.1 l.secret.2 = some s ∧ k.cert = s.cert ∧ k.key = s.key := by
  induction ls with
  | nil => simp [buildSSLKeyPairs] at h
  | cons l ls ih =>
    unfold buildSSLKeyPairs at h
    by_cases hv : l.valid
    · simp only [hv, if_true] at h
      cases hs : findSecret secrets l.secret.1 l.secret.2 with
      | none =>
        simp only [hs] at h
        obtain ⟨l', hl', rest⟩ := ih h
        exact ⟨l', List.mem_cons_of_mem _ hl', rest⟩
      | some s =>
        simp only [hs] at h
        rcases mem_insertKP h with h | h
        · exact ⟨l, List.mem_cons_self, hv, by rw [h], s, hs, by rw [h], by rw [h]⟩
        · obtain ⟨l', hl', rest⟩ := ih h
          exact ⟨l', List.mem_cons_of_mem _ hl', rest⟩
    · simp only [hv] at h
      obtain ⟨l', hl', rest⟩ := ih (by simpa using h)
      exact ⟨l', List.mem_cons_of_mem _ hl', rest⟩

/-! ### the mismatch loop -/

/-- `policiesDiffer` is symmetric in "one has a policy, the other has none" and irreflexive -/
theorem policiesDiffer_self (p : Option BTP) : policiesDiffer p p = false := by
  cases p <;> simp [policiesDiffer, configDiffer]

end NGF.Tls
