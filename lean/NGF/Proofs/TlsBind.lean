/-
Helper lemmas for the C16 theorems (`NGF.Props.C16`) about `NGF.Model.TlsBind`. Core Lean only.
-/
import NGF.Model.TlsBind

namespace NGF.Tls

/-! ### ids -/

/-- splitting at the first underscore is unambiguous when the left parts contain none -/
theorem append_sep_inj {a b c d : List Char} (ha : '_' ∉ a) (hc : '_' ∉ c)
    (h : a ++ '_' :: b = c ++ '_' :: d) : a = c ∧ b = d := by
  induction a generalizing c with
  | nil =>
    cases c with
    | nil => simp at h; exact ⟨rfl, h⟩
    | cons x xs =>
      simp at h
      have : x = '_' := h.1.symm
      simp [this] at hc
  | cons x xs ih =>
    cases c with
    | nil =>
      simp at h
      have : x = '_' := h.1
      simp [this] at ha
    | cons y ys =>
      simp at h
      have hx : '_' ∉ xs := fun hm => ha (List.mem_cons_of_mem _ hm)
      have hy : '_' ∉ ys := fun hm => hc (List.mem_cons_of_mem _ hm)
      obtain ⟨h1, h2⟩ := ih hx hy h.2
      exact ⟨by rw [h.1, h1], h2⟩

theorem keyPairId_inj {a b : Name × Name} (ha : '_' ∉ a.1) (hb : '_' ∉ b.1)
    (h : keyPairId a = keyPairId b) : a = b := by
  unfold keyPairId at h
  rw [List.append_assoc, List.append_assoc] at h
  have h' := List.append_cancel_left h
  obtain ⟨h1, h2⟩ := append_sep_inj ha hb h'
  exact Prod.ext h1 h2

theorem certBundleId_inj {a b : Name × Name} (ha : '_' ∉ a.1) (hb : '_' ∉ b.1)
    (h : certBundleId a = certBundleId b) : a = b := by
  unfold certBundleId at h
  rw [List.append_assoc, List.append_assoc] at h
  have h' := List.append_cancel_left h
  obtain ⟨h1, h2⟩ := append_sep_inj ha hb h'
  exact Prod.ext h1 h2

theorem pemFileName_inj {a b : List Char} (h : pemFileName a = pemFileName b) : a = b := by
  unfold pemFileName at h
  have h' := List.append_cancel_left (List.append_cancel_right h)
  simpa using h'

/-! ### key pairs: only valid listeners contribute -/

theorem buildSSLKeyPairs_filter (secrets : List SecretObj) (ls : List Listener) :
    buildSSLKeyPairs secrets ls = buildSSLKeyPairs secrets (ls.filter Listener.valid) := by
  induction ls with
  | nil => rfl
  | cons l ls ih =>
    by_cases hv : l.valid
    · simp [List.filter, hv, buildSSLKeyPairs, ih]
    · simp [List.filter, hv, buildSSLKeyPairs, ih]

theorem mem_insertKP {m : List KeyPair} {k x : KeyPair} (h : x ∈ insertKP m k) : x = k ∨ x ∈ m := by
  unfold insertKP at h
  simp at h
  rcases h with h | h
  · exact Or.inl h
  · exact Or.inr h.1

/-- every key pair comes from a valid listener and carries the bytes of the Secret it references -/
theorem buildSSLKeyPairs_sound (secrets : List SecretObj) (ls : List Listener) (k : KeyPair)
    (h : k ∈ buildSSLKeyPairs secrets ls) :
    ∃ l ∈ ls, l.valid = true ∧ k.id = keyPairId l.secret ∧
      ∃ s, findSecret secrets l.secret.1 l.secret.2 = some s ∧ k.cert = s.cert ∧ k.key = s.key := by
  induction ls with
  | nil => simp [buildSSLKeyPairs] at h
  | cons l ls ih =>
    unfold buildSSLKeyPairs at h
    by_cases hv : l.valid
    · simp only [hv, if_true] at h
      cases hs : findSecret secrets l.secret.1 l.secret.2 with
      | none =>
        simp only [hs] at h
        obtain ⟨l', hl', rest⟩ := ih h
        exact ⟨l', List.mem_cons_of_mem _ hl', rest⟩
      | some s =>
        simp only [hs] at h
        rcases mem_insertKP h with h | h
        · exact ⟨l, List.mem_cons_self, hv, by rw [h], s, hs, by rw [h], by rw [h]⟩
        · obtain ⟨l', hl', rest⟩ := ih h
          exact ⟨l', List.mem_cons_of_mem _ hl', rest⟩
    · simp only [hv] at h
      obtain ⟨l', hl', rest⟩ := ih (by simpa using h)
      exact ⟨l', List.mem_cons_of_mem _ hl', rest⟩

/-! ### the mismatch loop -/

/-- `policiesDiffer` is symmetric in "one has a policy, the other has none" and irreflexive -/
theorem policiesDiffer_self (p : Option BTP) : policiesDiffer p p = false := by
  cases p <;> simp [policiesDiffer, configDiffer]

/-! ### the resolver cache -/

/-- every cached verdict is the verdict of validating that Secret -/
def CacheOK (secrets : List SecretObj) (cache : ResCache) : Prop :=
  ∀ k v, cache.lookup k = some v → v = secretVerdict secrets k

theorem resolveCached_spec {secrets : List SecretObj} {cache : ResCache} (h : CacheOK secrets cache) (k : Name × Name) :
    (resolveCached secrets cache k).1 = secretVerdict secrets k ∧ CacheOK secrets (resolveCached secrets cache k).2 := by
  unfold resolveCached
  cases hl : cache.lookup k with
  | some v => exact ⟨h k v hl, h⟩
  | none =>
    refine ⟨rfl, ?_⟩
    intro k' v' hk'
    simp only [List.lookup_cons] at hk'
    by_cases e : (k' == k) = true
    · simp only [e] at hk'
      have : k' = k := by simpa using e
      subst this
      cases hk'; rfl
    · have e' : (k' == k) = false := by simpa using e
      simp only [e'] at hk'
      exact h k' v' hk'

theorem resolveSeq_spec (secrets : List SecretObj) : ∀ (ks : List (Name × Name)) (cache : ResCache),
    CacheOK secrets cache → resolveSeq secrets cache ks = ks.map (secretVerdict secrets) := by
  intro ks
  induction ks with
  | nil => intro _ _; rfl
  | cons k ks ih =>
    intro cache h
    obtain ⟨h1, h2⟩ := resolveCached_spec h k
    simp only [resolveSeq, List.map_cons, h1, ih _ h2]

/-! ### processed policies -/

theorem findProc_fold_isSome (refNs refName : Name) : ∀ (procs : List ProcBTP) (acc : Option ProcBTP),
    (acc.isSome = true ∨ ∃ p ∈ procs, targetsSvc p.pol refNs refName = true) →
    (procs.foldl (fun acc p =>
      if targetsSvc p.pol refNs refName then
        match acc with
        | some cur => if btpLess p.pol cur.pol then some p else some cur
        | none => some p
      else acc) acc).isSome = true := by
  intro procs
  induction procs with
  | nil =>
    intro acc h
    rcases h with h | ⟨p, hp, _⟩
    · simpa using h
    · simp at hp
  | cons q qs ih =>
    intro acc h
    simp only [List.foldl_cons]
    apply ih
    by_cases ht : targetsSvc q.pol refNs refName = true
    · left
      simp only [ht, if_true]
      cases acc with
      | none => rfl
      | some cur => simp only; split <;> rfl
    · rcases h with h | ⟨p, hp, hpt⟩
      · left; simpa [ht] using h
      · rcases List.mem_cons.mp hp with e | e
        · subst e; exact absurd hpt ht
        · right; exact ⟨p, e, hpt⟩

theorem findProc_fold_mem (refNs refName : Name) : ∀ (procs : List ProcBTP) (acc : Option ProcBTP) (w : ProcBTP),
    (procs.foldl (fun acc p =>
      if targetsSvc p.pol refNs refName then
        match acc with
        | some cur => if btpLess p.pol cur.pol then some p else some cur
        | none => some p
      else acc) acc) = some w →
    acc = some w ∨ (w ∈ procs ∧ targetsSvc w.pol refNs refName = true) := by
  intro procs
  induction procs with
  | nil => intro acc w h; exact Or.inl h
  | cons q qs ih =>
    intro acc w h
    simp only [List.foldl_cons] at h
    rcases ih _ w h with h1 | ⟨h1, h2⟩
    · by_cases ht : targetsSvc q.pol refNs refName = true
      · simp only [ht, if_true] at h1
        cases acc with
        | none => simp at h1; subst h1; exact Or.inr ⟨List.mem_cons_self, ht⟩
        | some cur =>
          simp only at h1
          split at h1
          · simp at h1; subst h1; exact Or.inr ⟨List.mem_cons_self, ht⟩
          · exact Or.inl h1
      · simp only [ht] at h1
        exact Or.inl (by simpa using h1)
    · exact Or.inr ⟨List.mem_cons_of_mem _ h1, h2⟩

theorem findProc_isSome {procs : List ProcBTP} {refNs refName : Name} {p : ProcBTP} (hp : p ∈ procs)
    (ht : targetsSvc p.pol refNs refName = true) : (findProc procs refNs refName).isSome = true :=
  findProc_fold_isSome refNs refName procs none (Or.inr ⟨p, hp, ht⟩)

theorem findProc_mem {procs : List ProcBTP} {refNs refName : Name} {w : ProcBTP}
    (h : findProc procs refNs refName = some w) : w ∈ procs ∧ targetsSvc w.pol refNs refName = true := by
  rcases findProc_fold_mem refNs refName procs none w h with h | h
  · cases h
  · exact h

theorem full_invalid (cms : List CMObj) (b : BTP) (h : b.full = true) : (validateBTP cms b).1 = false := by
  simp [validateBTP, h]

end NGF.Tls
