/-
NGINX's variable scan (`NGF.WF.scriptVars`, the model of `ngx_http_script_compile`) on the `proxy_pass` arguments that
Model/Render emits: `http://<upstream>$request_uri` and `http://$<group variable>$request_uri`. Core Lean only.
-/
import NGF.Proofs.RenderSplit

namespace NGF.Render
open NGF.WF

theorem scriptVarsF_nil (fuel : Nat) : scriptVarsF fuel [] = [] := by
  cases fuel <;> simp [scriptVarsF]

theorem scriptVarsF_skip {c : Char} (hc : c ≠ '$') (fuel : Nat) (rest : List Char) :
    scriptVarsF (fuel + 1) (c :: rest) = scriptVarsF fuel rest :=
  scriptVarsF.eq_6 fuel c rest (fun h => hc h)

/-- characters without `$` are skipped, one unit of fuel each -/
theorem scriptVarsF_prefix : ∀ (pre : List Char) (fuel : Nat) (rest : List Char), '$' ∉ pre →
    scriptVarsF (fuel + pre.length) (pre ++ rest) = scriptVarsF fuel rest
  | [], _, _, _ => rfl
  | c :: cs, fuel, rest, h => by
    have hc : c ≠ '$' := fun e => h (e ▸ List.mem_cons_self)
    have hcs : '$' ∉ cs := fun m => h (List.mem_cons_of_mem _ m)
    have : fuel + (c :: cs).length = (fuel + cs.length) + 1 := by simp only [List.length_cons]; omega
    rw [this, List.cons_append, scriptVarsF_skip hc, scriptVarsF_prefix cs fuel rest hcs]

theorem takeWhile_all {p : Char → Bool} : ∀ {l : List Char}, l.all p = true → l.takeWhile p = l ∧ l.dropWhile p = []
  | [], _ => ⟨rfl, rfl⟩
  | x :: xs, h => by
    simp only [List.all_cons, Bool.and_eq_true] at h
    obtain ⟨h1, h2⟩ := takeWhile_all h.2
    simp [List.takeWhile, List.dropWhile, h.1, h1, h2]

theorem takeWhile_stop {p : Char → Bool} : ∀ {l : List Char} {c : Char} {rest : List Char}, l.all p = true → p c = false →
    (l ++ c :: rest).takeWhile p = l ∧ (l ++ c :: rest).dropWhile p = c :: rest
  | [], c, rest, _, hc => by simp [List.takeWhile, List.dropWhile, hc]
  | x :: xs, c, rest, h, hc => by
    simp only [List.all_cons, Bool.and_eq_true] at h
    obtain ⟨h1, h2⟩ := takeWhile_stop (rest := rest) h.2 hc
    simp [List.takeWhile, List.dropWhile, h.1, h1, h2]

/-- `$name` followed by the end of the argument or by a character outside `[A-Za-z0-9_]` -/
theorem scriptVarsF_var {c : Char} {cs rest : List Char} (fuel : Nat) (hb : c ≠ '{') (hd : (c.isDigit && c != '0') = false)
    (hv : (c :: cs).all isVarChar = true) (hr : rest = [] ∨ ∃ d t, rest = d :: t ∧ isVarChar d = false) :
    scriptVarsF (fuel + 1) ('$' :: (c :: cs) ++ rest) = .name (str (c :: cs)) :: scriptVarsF fuel rest := by
  have htd : ((c :: cs) ++ rest).takeWhile isVarChar = c :: cs ∧ ((c :: cs) ++ rest).dropWhile isVarChar = rest := by
    rcases hr with rfl | ⟨d, t, rfl, hd'⟩
    · simpa using takeWhile_all hv
    · exact takeWhile_stop hv hd'
  rw [List.cons_append, List.cons_append, scriptVarsF.eq_5 fuel c (cs ++ rest) (fun h => hb h)]
  simp only [hd, Bool.false_eq_true, ↓reduceIte]
  have e1 := htd.1
  have e2 := htd.2
  simp only [List.cons_append] at e1 e2
  rw [e1, e2]
  simp

theorem requestURI_scan (n : Nat) : scriptVarsF (n + 13) requestURI = [.name "request_uri"] := by
  have h := scriptVarsF_var (c := 'r') (cs := "equest_uri".toList) (rest := []) (n + 12) (by decide) (by decide) (by decide) (Or.inl rfl)
  rw [scriptVarsF_nil] at h
  have e : requestURI = '$' :: ('r' :: "equest_uri".toList) ++ [] := by decide
  rw [e]
  exact h

theorem requestURI_head : ∃ t, requestURI = '$' :: t ∧ isVarChar '$' = false := ⟨"request_uri".toList, by decide, by decide⟩

/-- `proxy_pass http://<upstream>$request_uri` with an upstream name that contains no `$` -/
theorem scriptVars_upstream {host : List Char} (h : '$' ∉ host) :
    scriptVars ("http://".toList ++ host ++ requestURI) = [.name "request_uri"] := by
  unfold scriptVars
  have hpre : '$' ∉ "http://".toList ++ host := by
    intro hm
    rcases List.mem_append.mp hm with h1 | h1
    · revert h1; decide
    · exact h h1
  have hlen : ("http://".toList ++ host ++ requestURI).length + 1 = 13 + ("http://".toList ++ host).length := by
    have : requestURI.length = 12 := by decide
    simp only [List.length_append, this]; omega
  rw [hlen, scriptVarsF_prefix _ 13 _ hpre]
  exact requestURI_scan 0

/-- `proxy_pass http://$<var>$request_uri` with a variable name `g…` made of `[A-Za-z0-9_]` -/
theorem scriptVars_groupVar {t : List Char} (hv : ('g' :: t).all isVarChar = true) :
    scriptVars ("http://".toList ++ ('$' :: 'g' :: t) ++ requestURI) = [.name (str ('g' :: t)), .name "request_uri"] := by
  unfold scriptVars
  have hlen : ("http://".toList ++ ('$' :: 'g' :: t) ++ requestURI).length + 1 = (t.length + 15) + "http://".toList.length := by
    have : requestURI.length = 12 := by decide
    have : "http://".toList.length = 7 := by decide
    simp only [List.length_append, List.length_cons, *]; omega
  rw [hlen, List.append_assoc, scriptVarsF_prefix _ _ _ (by decide)]
  obtain ⟨u, hu, hnv⟩ := requestURI_head
  have := scriptVarsF_var (c := 'g') (cs := t) (rest := requestURI) (t.length + 14) (by decide) (by decide) hv
    (Or.inr ⟨'$', u, hu, hnv⟩)
  simp only [List.cons_append] at this ⊢
  rw [this]
  have e : t.length + 14 = (t.length + 1) + 13 := by omega
  rw [e, requestURI_scan]

end NGF.Render
