/-
C01 over the pipeline model — helper lemmas for `NGF.Model.StorePipeline`: keyed lists; what a Service / EndpointSlice
event at an unreferenced key leaves unchanged (configuration: `C01Refs.genR_services_congr`; upstreams; statuses); and
`Sound` for the instantiated store machine.
-/
import NGF.Model.StorePipeline
import NGF.Proofs.Store
import NGF.Proofs.StoreHandler
import NGF.Proofs.PipelineRefs
import NGF.Proofs.PipelineEndpoints
import NGF.Proofs.PipelineStatus
import NGF.Props.C01Refs

set_option linter.unusedSimpArgs false

namespace NGF.StorePipeline
open NGF.Store
open NGF.Pipeline (Str GwClass Gateway Conf winner)
open NGF.PipelineRefs
open NGF.PipelineEndpoints
open NGF.RefGrant (Grant BackendRef GBackendRef)
open NGF.Resolver (Slice SvcPort Up)

/-! ### keyed lists -/

variable {α β : Type}

theorem find?_eraseP_disjoint (p q : α → Bool) : ∀ (l : List α), (∀ a ∈ l, q a = true → p a = false) →
    (l.eraseP q).find? p = l.find? p
  | [], _ => rfl
  | a :: l, h => by
    by_cases hq : q a = true
    · have hp := h a List.mem_cons_self hq
      simp [List.eraseP_cons, hq, List.find?_cons, hp]
    · have ih := find?_eraseP_disjoint p q l (fun b hb => h b (List.mem_cons_of_mem _ hb))
      simp [List.eraseP_cons, hq, List.find?_cons, ih]

theorem find?_flatMap_eraseP (f : α → List β) (p : β → Bool) (q : α → Bool) : ∀ (l : List α),
    (∀ a ∈ l, q a = true → ∀ b ∈ f a, p b = false) →
    ((l.eraseP q).flatMap f).find? p = (l.flatMap f).find? p
  | [], _ => rfl
  | a :: l, h => by
    by_cases hq : q a = true
    · have hp : (f a).find? p = none := by
        rw [List.find?_eq_none]; intro b hb; simp [h a List.mem_cons_self hq b hb]
      simp [List.eraseP_cons, hq, List.flatMap_cons, List.find?_append, hp]
    · have ih := find?_flatMap_eraseP f p q l (fun b hb => h b (List.mem_cons_of_mem _ hb))
      simp [List.eraseP_cons, hq, List.flatMap_cons, List.find?_append, ih]

theorem kDel_of_kGet_none (key : α → Key) (k : Key) (l : List α) (h : kGet key k l = none) : kDel key k l = l := by
  unfold kGet at h; unfold kDel
  rw [List.find?_eq_none] at h
  exact List.eraseP_of_forall_not (fun a ha => by simpa using h a ha)

/-- deleting the entry of a key that is present takes out exactly the first entry of that key -/
theorem kDel_split (key : α → Key) (k : Key) (l : List α) (x : α) (h : kGet key k l = some x) :
    ∃ l1 l2, l = l1 ++ x :: l2 ∧ kDel key k l = l1 ++ l2 := by
  unfold kGet at h; unfold kDel
  induction l with
  | nil => simp at h
  | cons a l ih =>
    by_cases ha : (key a == k) = true
    · simp only [List.find?_cons, ha] at h
      cases h
      exact ⟨[], l, rfl, by simp [List.eraseP_cons, ha]⟩
    · simp only [List.find?_cons, ha] at h
      obtain ⟨l1, l2, e1, e2⟩ := ih h
      exact ⟨a :: l1, l2, by rw [e1]; rfl, by simp [List.eraseP_cons, ha, e2]⟩

/-! ### a Service store that differs from another one at ONE key only -/

/-- the `spec.ports` entry `servicePort` looks for -/
def portPred (ns name : String) (port : Nat) (i : PortInfo) : Bool := i.ns == ns && i.name == name && i.sp.port == port

/-- `l'` answers every lookup at keys other than `k` as `l` does: `services[svcNsName]` and the `spec.ports` entries -/
structure OffKey (k : Key) (l l' : List SvcObj) : Prop where
  svc : ∀ ns name, (ns, name) ≠ k → lookupSvc (l'.map toService) ns name = lookupSvc (l.map toService) ns name
  port : ∀ ns name port, (ns, name) ≠ k →
    (l'.flatMap toPorts).find? (portPred ns name port) = (l.flatMap toPorts).find? (portPred ns name port)

theorem svcPred_false {a : SvcObj} {k : Key} {ns name : String} (hq : (svcKey a == k) = true) (hne : (ns, name) ≠ k) :
    ((toService a).ns == ns && (toService a).name == name) = false := by
  have hk : svcKey a = k := by simpa using hq
  cases h : ((toService a).ns == ns && (toService a).name == name) with
  | false => rfl
  | true =>
    simp only [Bool.and_eq_true, beq_iff_eq, toService] at h
    exact absurd (by rw [← hk, svcKey, h.1, h.2]) hne

theorem portPred_false {a : SvcObj} {k : Key} {ns name : String} {port : Nat} (hq : (svcKey a == k) = true)
    (hne : (ns, name) ≠ k) : ∀ b ∈ toPorts a, portPred ns name port b = false := by
  intro b hb
  have hk : svcKey a = k := by simpa using hq
  simp only [toPorts, List.mem_map] at hb
  obtain ⟨sp, _, rfl⟩ := hb
  cases h : portPred ns name port { ns := a.ns, name := a.name, sp := sp } with
  | false => rfl
  | true =>
    simp only [portPred, Bool.and_eq_true, beq_iff_eq] at h
    exact absurd (by rw [← hk, svcKey, h.1.1, h.1.2]) hne

theorem offKey_kDel (k : Key) (l : List SvcObj) : OffKey k l (kDel svcKey k l) where
  svc ns name hne := by
    unfold lookupSvc kDel
    rw [List.find?_map, List.find?_map]
    congr 1
    exact find?_eraseP_disjoint _ _ l (fun a _ hq => svcPred_false hq hne)
  port ns name port hne := by
    unfold kDel
    exact find?_flatMap_eraseP toPorts _ _ l (fun a _ hq => portPred_false hq hne)

theorem offKey_kPut (x : SvcObj) (l : List SvcObj) : OffKey (svcKey x) l (kPut svcKey x l) where
  svc ns name hne := by
    have h0 := svcPred_false (a := x) (k := svcKey x) (by simp) hne
    have := (offKey_kDel (svcKey x) l).svc ns name hne
    unfold kPut
    unfold lookupSvc at this ⊢
    rw [List.map_cons, List.find?_cons, h0]
    exact this
  port ns name port hne := by
    have h0 : (toPorts x).find? (portPred ns name port) = none := by
      rw [List.find?_eq_none]; intro b hb
      simp [portPred_false (a := x) (k := svcKey x) (by simp) hne b hb]
    have := (offKey_kDel (svcKey x) l).port ns name port hne
    unfold kPut
    rw [List.flatMap_cons, List.find?_append, h0]
    simpa using this

/-! ### configuration and upstreams under a Service change at an unreferenced key -/

def withSvcs (c : PCl) (l' : List SvcObj) : PCl := { c with svcs := l' }

theorem referencedServices_services (c : ScenarioR) (svcs' : List Service) :
    referencedServices { c with services := svcs' } = referencedServices c := by
  unfold referencedServices
  rw [show winner (resolve { c with services := svcs' }) = winner (resolve c) from winner_resolve c c.grants svcs']

/-- C06's `referencedServices` (read off `winner`) is contained in the graph's `ReferencedServices` -/
theorem referencedServices_subset {c : ScenarioR} {k : Key} (h : k ∈ referencedServices c) : k ∈ referencedSvcs c := by
  unfold referencedServices at h
  unfold referencedSvcs
  cases hw : winner (resolve c) with
  | none => simp [hw] at h
  | some g =>
    rw [PipelineStatus.graphGateway_of_winner hw]
    simpa [hw] using h

theorem not_referencedServices {c : ScenarioR} {k : Key} (h : k ∉ referencedSvcs c) : k ∉ referencedServices c :=
  fun hm => h (referencedServices_subset hm)

theorem mem_routeSvcNames {gs : List Grant} {r : RouteR} {ru : RuleR} (hru : ru ∈ r.rules) {refs : List BackendRef}
    (hact : ru.action = .forward refs) {ref : BackendRef} (href : ref ∈ refs)
    (hok : RefGrant.routeRefVerdict gs .http r.ns ref = .ok) :
    (RefGrant.refNs ref r.ns, ref.name) ∈ routeSvcNames gs r := by
  unfold routeSvcNames
  simp only [List.mem_flatMap]
  refine ⟨ru, hru, ?_⟩
  rw [hact]
  simp only [List.mem_filterMap]
  exact ⟨ref, href, by simp [hok]⟩

/-- the resolved actions of a route whose verdict-ok backendRefs all avoid the key `k` do not see the change -/
theorem resolveRule_offKey {gs : List Grant} {k : Key} {l l' : List SvcObj} (hoff : OffKey k l l') {routeNs : String}
    (ru : RuleR)
    (h : ∀ refs, ru.action = .forward refs → ∀ ref ∈ refs, RefGrant.routeRefVerdict gs .http routeNs ref = .ok →
      (RefGrant.refNs ref routeNs, ref.name) ≠ k) :
    resolveRule gs (l'.map toService) routeNs ru = resolveRule gs (l.map toService) routeNs ru := by
  unfold resolveRule
  congr 1
  cases hact : ru.action with
  | redirect code sch hst p => rfl
  | forward refs =>
    simp only [resolveAction]
    congr 1
    apply List.map_congr_left
    intro ref href
    rw [resolveRef_congr rfl]
    intro hok
    exact findPort_congr (hoff.svc _ _ (h refs hact ref href hok))

theorem routeBackends_offKey (c : PCl) {k : Key} {l' : List SvcObj} (hoff : OffKey k c.svcs l') (r : RouteR)
    (h : ∀ ru ∈ r.rules, ∀ refs, ru.action = .forward refs → ∀ ref ∈ refs,
      RefGrant.routeRefVerdict c.grants .http r.ns ref = .ok → (RefGrant.refNs ref r.ns, ref.name) ≠ k) :
    routeBackends (withSvcs c l').toE r = routeBackends c.toE r := by
  unfold routeBackends
  apply flatMap_congr'
  intro ru hru
  cases hact : ru.action with
  | redirect code sch hst p => rfl
  | forward refs =>
    simp only
    congr 1
    apply List.map_congr_left
    intro ref href
    show resolveRef c.grants (l'.map toService) r.ns ref = resolveRef c.grants (c.svcs.map toService) r.ns ref
    rw [resolveRef_congr rfl]
    intro hok
    exact findPort_congr (hoff.svc _ _ (h ru hru refs hact ref href hok))

theorem backends_offKey (c : PCl) {k : Key} {l' : List SvcObj} (hoff : OffKey k c.svcs l')
    (hk : k ∉ referencedServices c.toR) : backends (withSvcs c l').toE = backends c.toE := by
  unfold backends
  have hw : winner (resolve (withSvcs c l').toE.base) = winner (resolve c.toE.base) :=
    winner_resolve c.toR c.grants (l'.map toService)
  rw [hw]
  cases hwg : winner (resolve c.toE.base) with
  | none => rfl
  | some g =>
    simp only
    apply flatMap_congr'
    intro l hl
    show ((c.routes.filter (attachedAt g l)).flatMap (routeBackends (withSvcs c l').toE)) =
         ((c.routes.filter (attachedAt g l)).flatMap (routeBackends c.toE))
    apply flatMap_congr'
    intro r hr
    obtain ⟨hr, ha⟩ := List.mem_filter.mp hr
    have hatt : attached g r = true := attached_iff.mpr ⟨l, hl, ha⟩
    apply routeBackends_offKey c hoff r
    intro ru hru refs hact ref href hok hkey
    exact hk (hkey ▸ mem_referencedServices (c := c.toR) hwg hr hatt hru hact href hok)

/-- **Upstreams.** A Service store that differs at an unreferenced key only yields the same `Configuration.Upstreams`. -/
theorem upstreamsOf_offKey (c : PCl) {k : Key} {l' : List SvcObj} (hoff : OffKey k c.svcs l')
    (hk : k ∉ referencedServices c.toR) : upstreamsOf (withSvcs c l').toE = upstreamsOf c.toE := by
  unfold upstreamsOf
  rw [backends_offKey c hoff hk]
  apply dedupByName_congr
  intro b hb
  obtain ⟨_, g, hw, r, hr, hatt, ru, hru, refs, hact, ref, href, hns, hname, hok, _⟩ := backends_provenance hb
  have hmem := mem_referencedServices (c := c.toR) hw hr hatt hru hact href hok
  have hne : (b.svcNs, b.svcName) ≠ k := by
    rw [hns, hname]; intro e; exact hk (e ▸ hmem)
  show (⟨_, _⟩ : Up) = ⟨_, _⟩
  congr 2
  show servicePort (withSvcs c l').toE b.svcNs b.svcName b.port = servicePort c.toE b.svcNs b.svcName b.port
  unfold servicePort
  have := hoff.port b.svcNs b.svcName b.port hne
  unfold portPred at this
  show (match (l'.flatMap toPorts).find? _ with | some i => i.sp | none => _) =
       (match (c.svcs.flatMap toPorts).find? _ with | some i => i.sp | none => _)
  rw [this]

/-- **Configuration** (`C01Refs.genR_services_congr` on the cluster). -/
theorem genR_offKey (c : PCl) {k : Key} {l' : List SvcObj} (hoff : OffKey k c.svcs l')
    (hk : k ∉ referencedServices c.toR) : genR (withSvcs c l').toR = genR c.toR :=
  genR_services_congr c.toR (l'.map toService) k.1 k.2 hk (fun ns name hne => hoff.svc ns name (by
    intro e; exact hne ⟨congrArg Prod.fst e, congrArg Prod.snd e⟩))

/-! ### statuses: what they read of a route, and of the Services -/

open NGF.PipelineStatus in
/-- everything of a route that attachment / binding / the status keys read — all but the rules -/
structure SameShell (a b : Pipeline.Route) : Prop where
  ns : a.ns = b.ns
  name : a.name = b.name
  parents : a.parents = b.parents
  hostnames : a.hostnames = b.hostnames

open NGF.PipelineStatus in
/-- everything of a scenario the statuses read besides its routes -/
structure SameFrame (s t : Pipeline.Scenario) : Prop where
  cls : s.cls = t.cls
  ctlr : s.ctlr = t.ctlr
  classes : s.classes = t.classes
  gateways : s.gateways = t.gateways

theorem SameFrame.symm' {s t : Pipeline.Scenario} (h : SameFrame s t) : SameFrame t s :=
  ⟨h.cls.symm, h.ctlr.symm, h.classes.symm, h.gateways.symm⟩

open NGF.PipelineStatus

theorem graphGateway_frame {s t : Pipeline.Scenario} (h : SameFrame s t) : graphGateway s = graphGateway t := by
  unfold graphGateway classState Pipeline.classOurs ours
  rw [h.cls, h.ctlr, h.classes, h.gateways]

theorem ours_frame {s t : Pipeline.Scenario} (h : SameFrame s t) : ours s = ours t := by
  unfold ours; rw [h.cls, h.gateways]

theorem sectionNameRefs_congr {s t : Pipeline.Scenario} (h : SameFrame s t) {a b : Pipeline.Route} (hp : a.parents = b.parents) :
    sectionNameRefs s a = sectionNameRefs t b := by
  unfold sectionNameRefs namesOurs
  rw [ours_frame h, hp]

theorem bindOne_shell (g : Gateway) {a b : Pipeline.Route} (h : SameShell a b) (l : Pipeline.Listener) :
    bindOne g a l = bindOne g b l := by
  unfold bindOne Pipeline.nsAllowed
  rw [h.ns, h.hostnames]

theorem attachment_shell (gw : Gateway) (v : Bool) {a b : Pipeline.Route} (h : SameShell a b) (p : Pipeline.Parent) :
    attachment gw v a p = attachment gw v b p := by
  unfold attachment tryAttach
  simp only [bindOne_shell gw h]

theorem toPrepRef_shell (gw : Gateway) (v : Bool) {a b : Pipeline.Route} (h : SameShell a b) :
    toPrepRef gw v a = toPrepRef gw v b := by
  funext p
  unfold toPrepRef
  rw [attachment_shell gw v h]

theorem boundListeners_shell (gw : Gateway) (v : Bool) {a b : Pipeline.Route} (h : SameShell a b) (p : Pipeline.Parent) :
    boundListeners gw v a p = boundListeners gw v b p := by
  unfold boundListeners
  simp only [bindOne_shell gw h]

theorem routeConds_congr {a b : Pipeline.Route} (hv : a.valid = b.valid) (hr : a.rules = b.rules) : routeConds a = routeConds b := by
  unfold routeConds; rw [hv, hr]

/-- the status of a route depends on its rules only when it bears a status (and then only through `routeConds`) -/
theorem routeParentStatuses_congr {s t : Pipeline.Scenario} (hf : SameFrame s t) {a b : Pipeline.Route} (hs : SameShell a b)
    (hc : statusBearing s a = true → routeConds a = routeConds b) (e : Bool) (g : Int) :
    routeParentStatuses s e g a = routeParentStatuses t e g b := by
  unfold routeParentStatuses
  rw [← graphGateway_frame hf, ← sectionNameRefs_congr hf hs.parents, ← hf.ctlr]
  cases hg : graphGateway s with
  | none => rfl
  | some gg =>
    obtain ⟨gw, v⟩ := gg
    simp only
    cases hsn : sectionNameRefs s a with
    | none => rfl
    | some refs =>
      cases refs with
      | nil => rfl
      | cons p ps =>
        simp only
        have hb : statusBearing s a = true := by simp [statusBearing, hg, hsn]
        rw [← hc hb, toPrepRef_shell gw v hs]

theorem listenerRoutes_map_congr {α} (s t : Pipeline.Scenario) (hf : SameFrame s t) (xs : List α) (f f' : α → Pipeline.Route)
    (hs : s.routes = xs.map f) (ht : t.routes = xs.map f') (h : ∀ x ∈ xs, SameShell (f x) (f' x))
    (gw : Gateway) (l : Pipeline.Listener) :
    (listenerRoutes s gw l).map routeKeyStr = (listenerRoutes t gw l).map routeKeyStr := by
  unfold listenerRoutes
  rw [hs, ht, List.filter_map, List.filter_map, List.map_map, List.map_map]
  have key : ∀ (p p' : α → Bool) (g g' : α → String), (∀ x ∈ xs, p x = p' x) → (∀ x ∈ xs, g x = g' x) →
      (xs.filter p).map g = (xs.filter p').map g' := by
    intro p p' g g' hp hg
    rw [List.filter_congr hp]
    exact List.map_congr_left (fun x hx => hg x (List.mem_filter.mp hx).1)
  apply key
  · intro x hx
    simp only [Function.comp]
    rw [sectionNameRefs_congr hf (h x hx).parents]
    cases sectionNameRefs t (f' x) with
    | none => rfl
    | some refs => simp only [boundListeners_shell gw true (h x hx)]
  · intro x hx
    simp only [Function.comp, routeKeyStr, (h x hx).ns, (h x hx).name]

theorem gatewayStatus_congr {α} (s t : Pipeline.Scenario) (hf : SameFrame s t) (xs : List α) (f f' : α → Pipeline.Route)
    (hs : s.routes = xs.map f) (ht : t.routes = xs.map f') (h : ∀ x ∈ xs, SameShell (f x) (f' x)) (e : Bool) (g : Int) :
    gatewayStatus s e g = gatewayStatus t e g := by
  unfold gatewayStatus
  rw [graphGateway_frame hf]
  congr 1
  funext gg
  congr 1
  unfold toPrepGateway
  congr 1
  apply List.map_congr_left
  intro l _
  rw [listenerRoutes_map_congr s t hf xs f f' hs ht h gg.1 l]

theorem ignoredGateways_frame {s t : Pipeline.Scenario} (hf : SameFrame s t) : ignoredGateways s = ignoredGateways t := by
  unfold ignoredGateways
  rw [graphGateway_frame hf, ours_frame hf]

theorem statusBearing_congr {s t : Pipeline.Scenario} (hf : SameFrame s t) {a b : Pipeline.Route} (hp : a.parents = b.parents) :
    statusBearing s a = statusBearing t b := by
  unfold statusBearing
  rw [graphGateway_frame hf, sectionNameRefs_congr hf hp]

theorem sameFrame_withSvcs (c : PCl) (l' : List SvcObj) : SameFrame (resolve (withSvcs c l').toR) (resolve c.toR) :=
  ⟨rfl, rfl, rfl, rfl⟩

theorem sameShell_resolveRoute (gs gs' : List Grant) (svcs svcs' : List Service) (r : RouteR) :
    SameShell (resolveRoute gs svcs r) (resolveRoute gs' svcs' r) := ⟨rfl, rfl, rfl, rfl⟩

/-- what `svcCovered` says of one route -/
theorem svcCovered_spec {c : PCl} (h : svcCovered c = true) {r : RouteR} (hr : r ∈ c.routes) (hv : r.valid = true)
    (hb : statusBearing (resolve c.toR) (shell r) = true) {k : Key} (hk : k ∈ routeSvcNames c.grants r) :
    k ∈ referencedSvcs c.toR := by
  unfold svcCovered at h
  have := List.all_eq_true.mp h r hr
  simp only [hv, hb, Bool.and_self, Bool.not_true, Bool.false_or, List.all_eq_true] at this
  exact List.contains_iff_mem.mp (this k hk)

/-- the status-relevant part of a resolved route does not see a Service change at an unreferenced key, provided the
route's Services are covered by `ReferencedServices` whenever it bears a status -/
theorem routeConds_offKey (c : PCl) {k : Key} {l' : List SvcObj} (hoff : OffKey k c.svcs l')
    (hk : k ∉ referencedSvcs c.toR) (hcov : svcCovered c = true) {r : RouteR} (hr : r ∈ c.routes)
    (hb : statusBearing (resolve c.toR) (shell r) = true) :
    routeConds (resolveRoute c.grants (l'.map toService) r) = routeConds (resolveRoute c.grants (c.svcs.map toService) r) := by
  cases hv : r.valid with
  | false => simp [routeConds, resolveRoute, hv]
  | true =>
    refine routeConds_congr (a := resolveRoute c.grants (l'.map toService) r)
      (b := resolveRoute c.grants (c.svcs.map toService) r) rfl ?_
    show r.rules.map (resolveRule c.grants (l'.map toService) r.ns) = r.rules.map (resolveRule c.grants (c.svcs.map toService) r.ns)
    apply List.map_congr_left
    intro ru hru
    apply resolveRule_offKey hoff
    intro refs hact ref href hok hkey
    exact hk (hkey ▸ svcCovered_spec hcov hr hv hb (mem_routeSvcNames hru hact href hok))

theorem routeStatuses_offKey (c : PCl) {k : Key} {l' : List SvcObj} (hoff : OffKey k c.svcs l')
    (hk : k ∉ referencedSvcs c.toR) (hcov : svcCovered c = true) :
    routeStatuses (resolve (withSvcs c l').toR) = routeStatuses (resolve c.toR) := by
  unfold routeStatuses
  show (c.routes.map (resolveRoute c.grants (l'.map toService))).map _ = (c.routes.map (resolveRoute c.grants (c.svcs.map toService))).map _
  rw [List.map_map, List.map_map]
  apply List.map_congr_left
  intro r hr
  simp only [Function.comp]
  congr 1
  apply routeParentStatuses_congr (sameFrame_withSvcs c l') (sameShell_resolveRoute _ _ _ _ r)
  intro hb
  apply routeConds_offKey c hoff hk hcov hr
  rw [← hb]
  exact statusBearing_congr (sameFrame_withSvcs c l').symm' rfl

/-- **One rebuild does not see a Service change at an unreferenced key** — configuration, upstreams, `ReferencedServices`;
and the statuses too, as long as every Service a status-bearing route names is covered by `ReferencedServices`. -/
theorem pBuild_offKey (st : Bool) (c : PCl) {k : Key} {l' : List SvcObj} (hoff : OffKey k c.svcs l')
    (hk : k ∉ referencedSvcs c.toR) (hcov : st = true → svcCovered c = true) :
    pBuild st (withSvcs c l') = pBuild st c := by
  have h1 : Pipeline.gen (resolve (withSvcs c l').toR) = Pipeline.gen (resolve c.toR) :=
    genR_offKey c hoff (not_referencedServices hk)
  have h2 := upstreamsOf_offKey c hoff (not_referencedServices hk)
  have h6 : referencedSvcs (withSvcs c l').toR = referencedSvcs c.toR := by
    unfold referencedSvcs
    rw [graphGateway_frame (sameFrame_withSvcs c l')]
    rfl
  cases st with
  | false => simp only [pBuild, h1, h2, h6, Bool.false_eq_true, if_false]
  | true =>
    have h3 := routeStatuses_offKey c hoff hk (hcov rfl)
    have h4 := gatewayStatus_congr (resolve (withSvcs c l').toR) (resolve c.toR) (sameFrame_withSvcs c l') c.routes
      (resolveRoute c.grants (l'.map toService)) (resolveRoute c.grants (c.svcs.map toService)) rfl rfl
      (fun r _ => sameShell_resolveRoute _ _ _ _ r) false 0
    have h5 := ignoredGateways_frame (sameFrame_withSvcs c l')
    simp only [pBuild, h1, h2, h3, h4, h5, h6, if_true]

/-! ### EndpointSlices -/

/-- `endpointslice_irrelevant_inert` of C13 with the hypothesis the relevance predicate actually provides: the slice's
owner (its namespace + service-name label) is not in `ReferencedServices`. -/
theorem upstreamsOf_slice_insert (c : ScenarioE) (l1 l2 : List Slice) (s : Slice) (hs : c.slices = l1 ++ l2)
    (h : ∀ name, s.svcLabel = some name → (s.ns, name) ∉ referencedServices c.base) :
    upstreamsOf { c with slices := l1 ++ s :: l2 } = upstreamsOf c := by
  have hb : backends { c with slices := l1 ++ s :: l2 } = backends c := rfl
  unfold upstreamsOf
  rw [hb]
  apply dedupByName_congr
  intro b hbm
  obtain ⟨_, g, hw, r, hr, hatt, ru, hru, refs, hact, ref, href, hns, hname, hok, _⟩ := backends_provenance hbm
  have hmem := mem_referencedServices hw hr hatt hru hact href hok
  show (⟨_, _⟩ : Up) = ⟨_, _⟩
  congr 1
  show Resolver.upstreamEndpoints (l1 ++ s :: l2) _ _ _ _ = Resolver.upstreamEndpoints c.slices _ _ _ _
  rw [hs]
  apply upstreamEndpoints_insert
  rintro ⟨e1, e2⟩
  apply h b.svcName e2
  rw [e1, hns, hname]
  exact hmem

def withSlices (c : PCl) (l' : List SliceObj) : PCl := { c with slices := l' }

/-- inserting (read from right to left: removing) ONE slice whose owner is not referenced changes nothing of a rebuild -/
theorem pBuild_slice_insert (st : Bool) (c : PCl) (l1 l2 : List SliceObj) (x : SliceObj) (hs : c.slices = l1 ++ l2)
    (h : (x.slice.ns, ownerName x.slice) ∉ referencedSvcs c.toR) :
    pBuild st (withSlices c (l1 ++ x :: l2)) = pBuild st c := by
  have h := not_referencedServices h
  have hu : upstreamsOf (withSlices c (l1 ++ x :: l2)).toE = upstreamsOf c.toE := by
    have := upstreamsOf_slice_insert c.toE (l1.map (·.slice)) (l2.map (·.slice)) x.slice
      (by show c.slices.map (·.slice) = _; rw [hs, List.map_append])
      (by intro name hn; show (x.slice.ns, name) ∉ referencedServices c.toR; simpa [ownerName, hn] using h)
    have e : (withSlices c (l1 ++ x :: l2)).toE =
        { c.toE with slices := l1.map (·.slice) ++ x.slice :: l2.map (·.slice) } := by
      simp [withSlices, PCl.toE, PCl.toR, List.map_append]
    rw [e]; exact this
  unfold pBuild
  rw [hu]
  rfl

theorem withSlices_self (c : PCl) : withSlices c c.slices = c := by cases c; rfl

theorem kGet_key {α : Type} (key : α → Key) (k : Key) (l : List α) (x : α) (h : kGet key k l = some x) : key x = k := by
  unfold kGet at h
  simpa using List.find?_some h

/-- deleting the stored slice of a key whose owner is not referenced changes nothing of a rebuild -/
theorem pBuild_slice_del (st : Bool) (c : PCl) (key : Key) :
    (∀ y, kGet sliceKey key c.slices = some y → (key.1, ownerName y.slice) ∉ referencedSvcs c.toR) →
    pBuild st (withSlices c (kDel sliceKey key c.slices)) = pBuild st c := by
  intro h
  cases hg : kGet sliceKey key c.slices with
  | none => rw [kDel_of_kGet_none _ _ _ hg, withSlices_self]
  | some y =>
    obtain ⟨l1, l2, e1, e2⟩ := kDel_split sliceKey key c.slices y hg
    have hy : y.slice.ns = key.1 := by
      have := kGet_key sliceKey key c.slices y hg
      rw [← this]; rfl
    rw [e2]
    have := pBuild_slice_insert st (withSlices c (l1 ++ l2)) l1 l2 y rfl (by rw [hy]; exact h y hg)
    rw [← this]
    show pBuild st (withSlices c (l1 ++ y :: l2)) = pBuild st c
    rw [← e1, withSlices_self]

theorem getObj_isNone_delKey (c : PCl) (k : PKind) (key : Key) (h : (getObj c k key).isNone = true) : delKey k key c = c := by
  cases k <;> simp only [getObj, Option.isNone_map] at h <;> simp only [delKey] <;>
    rw [kDel_of_kGet_none _ _ _ (by simpa using h)]

theorem pAdm_cov {st : Bool} {t : PCl} {e : PEvent} (ha : pAdm st t e = true) (hk : e.kind = .service) :
    st = true → svcCovered t = true := by
  intro hst
  simp only [pAdm, Bool.and_eq_true, Bool.or_eq_true, Bool.not_eq_true'] at ha
  rcases ha.2 with h | h
  · simp [hst, hk] at h
  · exact h

/-- **The relevance predicates of the tree are sound for the pipeline build**, store and cluster coincide (every mutation
is delivered and stored). -/
theorem pSound (st : Bool) : Sound pOps (pBuild st) pRel pWatch Eq (pAdm st) where
  refl _ := rfl
  build_eq _ _ h := by rw [h]
  sim_delivered s t e hR _ _ := by
    subst hR
    show storeAfter pOps s e = pOps.store e s
    unfold storeAfter
    simp only [pOps, if_true]
    cases ho : e.obj with
    | some o => rfl
    | none =>
      simp only
      by_cases hn : (getObj s e.kind e.key).isNone = true
      · simp only [hn, if_true]; exact (getObj_isNone_delKey s e.kind e.key hn).symm
      · simp [hn]
  sim_filtered _ _ _ _ _ hw := by simp [pWatch] at hw
  watch_inert _ _ _ hw := by simp [pWatch] at hw
  rel_sound s t e hR ha _ hv := by
    subst hR
    show pBuild st (storeAfter pOps s e) = pBuild st s
    obtain ⟨kind, key, obj, orc⟩ := e
    have hwf : wfEvent ⟨kind, key, obj, orc⟩ = true := by
      simp only [pAdm, Bool.and_eq_true] at ha; exact ha.1
    cases obj with
    | some o =>
      simp only [wfEvent, Bool.and_eq_true, decide_eq_true_eq] at hwf
      obtain ⟨hkind, hkey⟩ := hwf
      have hsa : storeAfter pOps s ⟨kind, key, some o, orc⟩ = putObj o s := by simp [storeAfter, pOps]
      rw [hsa]
      cases o with
      | cls x => subst hkind; simp [verdict, pOps, PObj.kind] at hv
      | gw x => subst hkind; simp [verdict, pOps, PObj.kind] at hv
      | route x => subst hkind; simp [verdict, pOps, PObj.kind] at hv
      | grant x => subst hkind; simp [verdict, pOps, PObj.kind] at hv
      | svc x =>
        subst hkind
        have hk : svcKey x ∉ referencedSvcs s.toR := by
          intro hm
          simp only [verdict, pOps, PObj.kind, pRel, pBuild] at hv
          simp only [PObj.key] at hkey
          rw [← hkey, List.contains_iff_mem.mpr hm] at hv
          simp at hv
        exact pBuild_offKey st s (offKey_kPut x s.svcs) hk (pAdm_cov ha rfl)
      | slice x =>
        subst hkind
        simp only [PObj.key] at hkey
        have hv' : (sliceReferenced (referencedSvcs s.toR) key.1 (some (.slice x)) ||
            sliceReferenced (referencedSvcs s.toR) key.1 (getObj s .endpointSlice key)) = false := hv
        rw [Bool.or_eq_false_iff] at hv'
        obtain ⟨hnew, hold⟩ := hv'
        simp only [sliceReferenced] at hnew
        have hk1 : key.1 = x.slice.ns := by rw [← hkey]; rfl
        -- first the stored slice of the key goes, then the new one comes
        have hdel : pBuild st (withSlices s (kDel sliceKey key s.slices)) = pBuild st s := by
          apply pBuild_slice_del
          intro y hy hm
          simp only [getObj, hy, Option.map_some, sliceReferenced] at hold
          rw [List.contains_iff_mem.mpr hm] at hold
          cases hold
        have hins := pBuild_slice_insert st (withSlices s (kDel sliceKey key s.slices)) [] (kDel sliceKey key s.slices) x rfl
          (by
            intro hm
            have hm' : (x.slice.ns, ownerName x.slice) ∈ referencedSvcs s.toR := hm
            try rw [hk1] at hnew
            rw [List.contains_iff_mem.mpr hm'] at hnew
            cases hnew)
        rw [← hdel, ← hins]
        show pBuild st (withSlices s (kPut sliceKey x s.slices)) = _
        simp only [kPut, hkey, withSlices, List.nil_append]
    | none =>
      have hsa : storeAfter pOps s ⟨kind, key, none, orc⟩ =
          if (getObj s kind key).isNone then s else delKey kind key s := by simp [storeAfter, pOps]
      rw [hsa]
      cases hn : (getObj s kind key).isNone with
      | true => simp
      | false =>
        simp only [Bool.false_eq_true, if_false]
        simp only [verdict, pOps, hn, Bool.and_false, Bool.false_eq_true, if_false, if_true] at hv
        cases kind with
        | gatewayClass => simp at hv
        | gateway => simp at hv
        | httpRoute => simp at hv
        | referenceGrant => simp at hv
        | service =>
          simp only [BEq.rfl, Bool.true_or, if_true, pRel, pBuild] at hv
          have hk : key ∉ referencedSvcs s.toR := by
            intro hm; rw [List.contains_iff_mem.mpr hm] at hv; cases hv
          exact pBuild_offKey st s (offKey_kDel key s.svcs) hk (pAdm_cov ha rfl)
        | endpointSlice =>
          simp only [BEq.rfl, Bool.or_true, if_true, pRel, pBuild, sliceReferenced, Bool.false_or] at hv
          show pBuild st (withSlices s (kDel sliceKey key s.slices)) = pBuild st s
          apply pBuild_slice_del
          intro y hy hm
          simp only [getObj, hy, Option.map_some] at hv
          rw [List.contains_iff_mem.mpr hm] at hv
          cases hv

end NGF.StorePipeline
