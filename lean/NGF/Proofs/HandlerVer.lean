/-
C12 — helper lemmas about `NGF.HandlerVer.hstep` / `hrun` / `dedup` (core only).
-/
import NGF.Model.HandlerVer

namespace NGF.HandlerVer
open NGF.Reload

theorem hrun_cons (plus : Bool) (s : H) (b : Batch) (bs : List Batch) :
    hrun plus s (b :: bs) =
      ((hrun plus (hstep plus s b).1 bs).1, (hstep plus s b).2 :: (hrun plus (hstep plus s b).1 bs).2) := by
  simp [hrun]

theorem hrun_nil (plus : Bool) (s : H) : hrun plus s [] = (s, []) := rfl

theorem hstep_noChange (plus : Bool) (s : H) (b : Batch) (h : b.ct = .noChange) :
    hstep plus s b = (noChangeStep s, Emit.none) := by
  simp [hstep, h]

theorem hstep_change (plus : Bool) (s : H) (b : Batch) (h : b.ct ≠ .noChange) :
    hstep plus s b =
      (advance s (apply plus s.lastErr b (s.version + 1)).err, apply plus s.lastErr b (s.version + 1)) := by
  cases hct : b.ct <;> simp_all [hstep]

/-- case analysis on the Go state and the error flag -/
macro "state_cases0" s:ident : tactic =>
  `(tactic| (obtain ⟨v, r, f, l, c⟩ := $s:ident
             cases r <;> cases f <;>
               simp_all [advance, noChangeStep, setAsReady, Emit.none]))

macro "state_cases" s:ident e:ident : tactic =>
  `(tactic| (obtain ⟨v, r, f, l, c⟩ := $s:ident
             cases r <;> cases f <;> cases $e:ident <;>
               simp_all [advance, noChangeStep, setAsReady, Emit.none]))

theorem apply_cfgVersion (plus le : Bool) (b : Batch) (v : Nat) (h : b.ct ≠ .noChange) :
    (apply plus le b v).cfgVersion = some v := by
  cases hct : b.ct <;> simp_all [apply, updateNginxConf] <;> (repeat' split) <;> simp

theorem apply_status (plus le : Bool) (b : Batch) (v : Nat) (h : b.ct ≠ .noChange) :
    (apply plus le b v).statusUpdated = true := by
  cases hct : b.ct <;> simp_all [apply, updateNginxConf] <;> (repeat' split) <;> simp

/-! ### the apply transaction -/

/-- exact characterisation of a nil result of the transaction, for every error class -/
theorem applyTx_ok_iff (plus : Bool) (f : FilesOutcome) (o : Oracle) (apiOk : Bool) (v : Nat) :
    (applyTx plus f o apiOk v).res = none ↔
      f = .ok ∧ (reload o v).res = none ∧ (plus = true → apiOk = true) := by
  cases f with
  | failed c k => simp [applyTx]
  | ok =>
    simp only [applyTx, true_and]
    cases hr : (reload o v).res with
    | some e => simp
    | none => cases plus <;> cases apiOk <;> simp

/-- `Reload` is invoked exactly when `ReplaceFiles` returned nil, and then with this oracle -/
theorem applyTx_reload (plus : Bool) (f : FilesOutcome) (o : Oracle) (apiOk : Bool) (v : Nat) :
    (applyTx plus f o apiOk v).reload = if f = .ok then some (reload o v) else none := by
  cases f with
  | failed c k => simp [applyTx]
  | ok =>
    simp only [applyTx, if_true]
    cases hr : (reload o v).res with
    | some e => simp
    | none => cases plus <;> simp

/-- a files error of any class is returned as such, nothing else is touched -/
theorem applyTx_files_failed (plus : Bool) (c : ErrClass) (k : Nat) (o : Oracle) (apiOk : Bool)
    (v : Nat) : applyTx plus (.failed c k) o apiOk v = ⟨some (.files c), none, false⟩ := rfl

theorem applyTx_fileClass (plus : Bool) (f : FilesOutcome) (o : Oracle) (apiOk : Bool) (v : Nat) :
    ApplyErr.fileClass (applyTx plus f o apiOk v).res =
      match f with
      | .ok => none
      | .failed c _ => some c := by
  cases f with
  | failed c k => simp [applyTx, ApplyErr.fileClass]
  | ok =>
    simp only [applyTx]
    cases hr : (reload o v).res with
    | some e => simp [ApplyErr.fileClass]
    | none => cases plus <;> cases apiOk <;> simp [ApplyErr.fileClass]

/-- the Plus API is consulted only after a successful reload -/
theorem applyTx_apiCalled (plus : Bool) (f : FilesOutcome) (o : Oracle) (apiOk : Bool) (v : Nat) :
    (applyTx plus f o apiOk v).apiCalled = true ↔
      plus = true ∧ f = .ok ∧ (reload o v).res = none := by
  cases f with
  | failed c k => simp [applyTx]
  | ok =>
    simp only [applyTx]
    cases hr : (reload o v).res with
    | some e => simp
    | none => cases plus <;> simp

theorem isOk_iff (f : FilesOutcome) : f.isOk = true ↔ f = .ok := by
  cases f <;> simp [FilesOutcome.isOk]

theorem unc_err (plus : Bool) (b : Batch) (v : Nat) :
    (updateNginxConf plus b v).err = true ↔
      (b.writeOk = false ∨ (reload b.oracle v).res.isSome = true ∨ (plus = true ∧ b.apiOk = false)) := by
  have h := applyTx_ok_iff plus b.files b.oracle b.apiOk v
  simp only [updateNginxConf, Batch.writeOk]
  cases hres : (applyTx plus b.files b.oracle b.apiOk v).res with
  | none =>
    obtain ⟨h1, h2, h3⟩ := h.1 hres
    simp only [Option.isSome_none, Bool.false_eq_true, false_iff, not_or, not_and]
    refine ⟨by simp [h1, FilesOutcome.isOk], by simp [h2], fun hp => by simp [h3 hp]⟩
  | some e =>
    simp only [Option.isSome_some, true_iff]
    rw [hres] at h
    simp only [reduceCtorEq, false_iff, not_and] at h
    cases hf : b.files with
    | failed c k => left; simp [FilesOutcome.isOk]
    | ok =>
      right
      cases hr : (reload b.oracle v).res with
      | some e' => left; simp
      | none =>
        right
        have := h hf hr
        cases plus <;> cases hb : b.apiOk <;> simp_all

theorem apply_noChange (plus le : Bool) (b : Batch) (v : Nat) (h : b.ct = .noChange) :
    apply plus le b v = Emit.none := by simp [apply, h]

theorem apply_clusterState (plus le : Bool) (b : Batch) (v : Nat) (h : b.ct = .clusterState) :
    apply plus le b v = updateNginxConf plus b v := by simp [apply, h]

/-- endpoints-only, not the API-only path (OSS, or Plus with a failed apply remembered) -/
theorem apply_endpointsOnly_conf (plus le : Bool) (b : Batch) (v : Nat) (h : b.ct = .endpointsOnly)
    (hp : (plus && !le) = false) : apply plus le b v = updateNginxConf plus b v := by
  simp only [apply, h, hp]; simp

/-- endpoints-only on Plus with the remembered result ok: API alone -/
theorem apply_endpointsOnly_api (plus le : Bool) (b : Batch) (v : Nat) (h : b.ct = .endpointsOnly)
    (hp : (plus && !le) = true) :
    apply plus le b v = ⟨some v, false, none, none, true, !b.apiOk, true, none, none⟩ := by
  simp only [apply, h, hp]; simp

theorem apiOnly_iff (plus le : Bool) (b : Batch) :
    apiOnly plus le b = true ↔ plus = true ∧ le = false ∧ b.ct = .endpointsOnly := by
  cases plus <;> cases le <;> cases hc : b.ct <;> simp [apiOnly, hc]

/-- every arm other than the API-only one is `updateNginxConf` -/
theorem apply_conf (plus le : Bool) (b : Batch) (v : Nat) (hct : b.ct ≠ .noChange)
    (ha : apiOnly plus le b = false) : apply plus le b v = updateNginxConf plus b v := by
  cases hc : b.ct with
  | noChange => exact absurd hc hct
  | clusterState => exact apply_clusterState plus le b v hc
  | endpointsOnly =>
    apply apply_endpointsOnly_conf plus le b v hc
    cases hp : (plus && !le) with
    | false => rfl
    | true => simp [apiOnly, hc, hp] at ha

theorem apply_api (plus le : Bool) (b : Batch) (v : Nat) (ha : apiOnly plus le b = true) :
    apply plus le b v = ⟨some v, false, none, none, true, !b.apiOk, true, none, none⟩ := by
  obtain ⟨rfl, rfl, hc⟩ := (apiOnly_iff plus le b).1 ha
  exact apply_endpointsOnly_api true false b v hc rfl

theorem apply_reloadVersion (plus le : Bool) (b : Batch) (v w : Nat)
    (h : (apply plus le b v).reloadVersion = some w) :
    w = v ∧ (apply plus le b v).reload = some (reload b.oracle v) ∧ b.writeOk = true ∧
      (apply plus le b v).generated = true := by
  have key : ∀ w, (updateNginxConf plus b v).reloadVersion = some w →
      w = v ∧ (updateNginxConf plus b v).reload = some (reload b.oracle v) ∧ b.writeOk = true ∧
        (updateNginxConf plus b v).generated = true := by
    intro w hw
    simp only [updateNginxConf, applyTx_reload, Batch.writeOk] at hw ⊢
    cases hf : b.files with
    | failed c k => simp [hf] at hw
    | ok => simp [hf] at hw; simp [hw, FilesOutcome.isOk]
  revert h
  by_cases hct : b.ct = .noChange
  · rw [apply_noChange plus le b v hct]; simp [Emit.none]
  · cases ha : apiOnly plus le b with
    | true => rw [apply_api plus le b v ha]; simp
    | false => rw [apply_conf plus le b v hct ha]; exact key w

/-- which environment faults make an apply fail, exactly -/
theorem apply_err_iff (plus le : Bool) (b : Batch) (v : Nat) (h : b.ct ≠ .noChange) :
    (apply plus le b v).err = true ↔
      if apiOnly plus le b = true then b.apiOk = false
      else (b.writeOk = false ∨ (reload b.oracle v).res.isSome = true ∨
            (plus = true ∧ b.apiOk = false)) := by
  cases ha : apiOnly plus le b with
  | true => rw [apply_api plus le b v ha]; simp
  | false =>
    rw [apply_conf plus le b v h ha]
    simpa using unc_err plus b v

/-- a successful apply that involved a reload had a successful reload of exactly that version -/
theorem apply_ok_reload (plus le : Bool) (b : Batch) (v : Nat)
    (h1 : (apply plus le b v).err = false) (h2 : apiOnly plus le b = false)
    (h3 : b.ct ≠ .noChange) :
    (apply plus le b v).reloadVersion = some v ∧ (reload b.oracle v).res = none := by
  rw [apply_conf plus le b v h3 h2] at h1 ⊢
  simp only [updateNginxConf, applyTx_reload] at h1 ⊢
  have hn : (applyTx plus b.files b.oracle b.apiOk v).res = none := by
    cases hres : (applyTx plus b.files b.oracle b.apiOk v).res with
    | none => rfl
    | some e => rw [hres] at h1; simp at h1
  obtain ⟨hf, hr, _⟩ := (applyTx_ok_iff _ _ _ _ _).1 hn
  simp [hf, hr]

/-- the batch went through `updateNginxConf` exactly when it built a configuration and was not API-only -/
theorem apply_generated_iff (plus le : Bool) (b : Batch) (v : Nat) :
    (apply plus le b v).generated = true ↔ b.ct ≠ .noChange ∧ apiOnly plus le b = false := by
  by_cases hct : b.ct = .noChange
  · rw [apply_noChange plus le b v hct]; simp [Emit.none, hct]
  · cases ha : apiOnly plus le b with
    | true => rw [apply_api plus le b v ha]; simp
    | false => rw [apply_conf plus le b v hct ha]; simp [updateNginxConf, hct]

theorem needsReload_iff (plus le : Bool) (b : Batch) :
    needsReload plus le b = true ↔ b.ct ≠ .noChange ∧ apiOnly plus le b = false := by
  cases plus <;> cases le <;> cases hc : b.ct <;> simp [needsReload, apiOnly, hc]

/-- a batch that needs a reload IS `updateNginxConf` -/
theorem hstep_conf (plus : Bool) (s : H) (b : Batch) (hre : needsReload plus s.lastErr b = true) :
    (hstep plus s b).2 = updateNginxConf plus b (s.version + 1) := by
  obtain ⟨hct, ha⟩ := (needsReload_iff plus s.lastErr b).1 hre
  rw [hstep_change plus s b hct]
  exact apply_conf plus s.lastErr b _ hct ha

theorem hstep_version (plus : Bool) (s : H) (b : Batch) :
    (hstep plus s b).1.version = if b.ct = .noChange then s.version else s.version + 1 := by
  by_cases hct : b.ct = .noChange
  · rw [hstep_noChange plus s b hct]; simp only [hct, if_true]
    state_cases0 s
  · rw [hstep_change plus s b hct]; simp only [hct, if_false]
    generalize (apply plus s.lastErr b (s.version + 1)).err = e
    state_cases s e

theorem hstep_cfgVersion (plus : Bool) (s : H) (b : Batch) :
    (hstep plus s b).2.cfgVersion = if b.ct = .noChange then none else some (s.version + 1) := by
  by_cases hct : b.ct = .noChange
  · rw [hstep_noChange plus s b hct]; simp [hct, Emit.none]
  · rw [hstep_change plus s b hct]; simp [hct, apply_cfgVersion plus _ b _ hct]

theorem hstep_reloadVersion (plus : Bool) (s : H) (b : Batch) (v : Nat)
    (h : (hstep plus s b).2.reloadVersion = some v) :
    (hstep plus s b).2.cfgVersion = some v ∧ v = s.version + 1 ∧
      (hstep plus s b).2.reload = some (reload b.oracle v) ∧ b.writeOk = true := by
  by_cases hct : b.ct = .noChange
  · rw [hstep_noChange plus s b hct] at h; simp [Emit.none] at h
  · rw [hstep_change plus s b hct] at h ⊢
    obtain ⟨rfl, h2, h3, _⟩ := apply_reloadVersion plus _ b _ _ h
    exact ⟨apply_cfgVersion plus _ b _ hct, rfl, h2, h3⟩

theorem hstep_ready_latch (plus : Bool) (s : H) (b : Batch) (h : s.ready = true) :
    (hstep plus s b).1.ready = true := by
  by_cases hct : b.ct = .noChange
  · rw [hstep_noChange plus s b hct]; state_cases0 s
  · rw [hstep_change plus s b hct]
    generalize (apply plus s.lastErr b (s.version + 1)).err = e
    state_cases s e

/-- how an unready pod can become ready in one batch -/
theorem hstep_becomes_ready (plus : Bool) (s : H) (b : Batch) (h0 : s.ready = false)
    (h1 : (hstep plus s b).1.ready = true) :
    (b.ct ≠ .noChange ∧ (hstep plus s b).2.err = false) ∨
    (b.ct = .noChange ∧ s.firstBatchErr = false) := by
  by_cases hct : b.ct = .noChange
  · rw [hstep_noChange plus s b hct] at h1
    refine Or.inr ⟨hct, ?_⟩
    state_cases0 s
  · rw [hstep_change plus s b hct] at h1 ⊢
    refine Or.inl ⟨hct, ?_⟩
    revert h1
    generalize (apply plus s.lastErr b (s.version + 1)).err = e
    intro h1
    state_cases s e

theorem hstep_failure_unready (plus : Bool) (s : H) (b : Batch) (h0 : s.ready = false)
    (h1 : (hstep plus s b).2.err = true) :
    (hstep plus s b).1.ready = false ∧ (hstep plus s b).1.firstBatchErr = true := by
  by_cases hct : b.ct = .noChange
  · rw [hstep_noChange plus s b hct] at h1; simp [Emit.none] at h1
  · rw [hstep_change plus s b hct] at h1 ⊢
    simp only at h1 ⊢
    rw [h1]
    state_cases0 s

theorem hstep_fbe_blocks_noChange (plus : Bool) (s : H) (b : Batch) (h0 : s.ready = false)
    (h1 : s.firstBatchErr = true) (h2 : b.ct = .noChange) :
    (hstep plus s b).1 = s := by
  rw [hstep_noChange plus s b h2]
  state_cases0 s

/-- while the pod stays unready, `firstBatchError` records exactly whether some apply failed -/
theorem hstep_fbe_unready (plus : Bool) (s : H) (b : Batch)
    (h1 : (hstep plus s b).1.ready = false) :
    (hstep plus s b).1.firstBatchErr = (s.firstBatchErr || (hstep plus s b).2.err) := by
  by_cases hct : b.ct = .noChange
  · rw [hstep_noChange plus s b hct] at h1 ⊢
    state_cases0 s
  · rw [hstep_change plus s b hct] at h1 ⊢
    revert h1
    generalize (apply plus s.lastErr b (s.version + 1)).err = e
    intro h1
    state_cases s e

theorem hstep_lastErr (plus : Bool) (s : H) (b : Batch) :
    (hstep plus s b).1.lastErr =
      if b.ct = .noChange then s.lastErr else (hstep plus s b).2.err := by
  by_cases hct : b.ct = .noChange
  · rw [hstep_noChange plus s b hct]; simp only [hct, if_true]; state_cases0 s
  · rw [hstep_change plus s b hct]; simp only [hct, if_false]
    generalize (apply plus s.lastErr b (s.version + 1)).err = e
    state_cases s e

theorem hstep_status_iff (plus : Bool) (s : H) (b : Batch) :
    (hstep plus s b).2.statusUpdated = true ↔ b.ct ≠ .noChange := by
  by_cases hct : b.ct = .noChange
  · rw [hstep_noChange plus s b hct]; simp [hct, Emit.none]
  · rw [hstep_change plus s b hct]; simp [hct, apply_status plus _ b _ hct]

theorem hstep_err_status (plus : Bool) (s : H) (b : Batch) (h : (hstep plus s b).2.err = true) :
    b.ct ≠ .noChange ∧ (hstep plus s b).2.statusUpdated = true ∧ (hstep plus s b).1.lastErr = true := by
  by_cases hct : b.ct = .noChange
  · rw [hstep_noChange plus s b hct] at h; simp [Emit.none] at h
  · refine ⟨hct, (hstep_status_iff plus s b).2 hct, ?_⟩
    rw [hstep_lastErr]; simp [hct, h]

/-- which environment faults make a batch fail, exactly -/
theorem hstep_err_iff (plus : Bool) (s : H) (b : Batch) :
    (hstep plus s b).2.err = true ↔
      (b.ct ≠ .noChange ∧
        if apiOnly plus s.lastErr b = true then b.apiOk = false
        else (b.writeOk = false ∨ (reload b.oracle (s.version + 1)).res.isSome = true ∨
              (plus = true ∧ b.apiOk = false))) := by
  by_cases hct : b.ct = .noChange
  · rw [hstep_noChange plus s b hct]; simp [hct, Emit.none]
  · rw [hstep_change plus s b hct]
    have := apply_err_iff plus s.lastErr b (s.version + 1) hct
    simp only [ne_eq, hct, not_false_eq_true, true_and]
    exact this

/-- invariant of the readiness checker -/
structure Inv (s : H) : Prop where
  fbe_unready : s.firstBatchErr = true → s.ready = false
  closes_ready : s.ready = true → s.closes = 1
  closes_unready : s.ready = false → s.closes = 0

theorem inv_init : Inv H.init := ⟨by simp [H.init], by simp [H.init], by simp [H.init]⟩

theorem inv_step (plus : Bool) (s : H) (b : Batch) (hi : Inv s) : Inv (hstep plus s b).1 := by
  obtain ⟨h1, h2, h3⟩ := hi
  by_cases hct : b.ct = .noChange
  · rw [hstep_noChange plus s b hct]
    constructor <;> state_cases0 s
  · rw [hstep_change plus s b hct]
    generalize (apply plus s.lastErr b (s.version + 1)).err = e
    constructor <;> state_cases s e

theorem inv_run (plus : Bool) : ∀ (bs : List Batch) (s : H), Inv s → Inv (hrun plus s bs).1
  | [], _, hi => hi
  | b :: bs, s, hi => by
    rw [hrun_cons]; exact inv_run plus bs _ (inv_step plus s b hi)

def cfgVersions (es : List Emit) : List Nat := es.filterMap (·.cfgVersion)

theorem run_version_le (plus : Bool) : ∀ (bs : List Batch) (s : H), s.version ≤ (hrun plus s bs).1.version
  | [], _ => Nat.le_refl _
  | b :: bs, s => by
    rw [hrun_cons]
    have h1 := run_version_le plus bs (hstep plus s b).1
    have h2 := hstep_version plus s b
    simp only at h1 ⊢
    split at h2 <;> omega

theorem versions_mono_aux (plus : Bool) : ∀ (bs : List Batch) (s : H),
    (∀ v ∈ cfgVersions (hrun plus s bs).2, s.version < v) ∧
    (cfgVersions (hrun plus s bs).2).Pairwise (· < ·)
  | [], s => by simp [hrun, cfgVersions]
  | b :: bs, s => by
    obtain ⟨ih1, ih2⟩ := versions_mono_aux plus bs (hstep plus s b).1
    rw [hrun_cons]
    have hv := hstep_version plus s b
    have hc := hstep_cfgVersion plus s b
    by_cases hct : b.ct = .noChange
    · simp only [hct, if_true] at hv hc
      simp only [cfgVersions, List.filterMap_cons, hc]
      rw [hv] at ih1
      exact ⟨ih1, ih2⟩
    · simp only [hct, if_false] at hv hc
      simp only [cfgVersions, List.filterMap_cons, hc, List.mem_cons, List.pairwise_cons]
      rw [hv] at ih1
      refine ⟨?_, ?_, ih2⟩
      · rintro v (rfl | hm)
        · omega
        · have := ih1 v hm; omega
      · intro v hm; exact ih1 v hm

theorem run_ready_latch (plus : Bool) : ∀ (bs : List Batch) (s : H), s.ready = true →
    (hrun plus s bs).1.ready = true
  | [], _, h => h
  | b :: bs, s, h => by
    rw [hrun_cons]; exact run_ready_latch plus bs _ (hstep_ready_latch plus s b h)

theorem run_fbe_unready (plus : Bool) : ∀ (bs : List Batch) (s : H),
    (hrun plus s bs).1.ready = false →
    (hrun plus s bs).1.firstBatchErr = (s.firstBatchErr || (hrun plus s bs).2.any (·.err))
  | [], s, _ => by simp [hrun]
  | b :: bs, s, h => by
    rw [hrun_cons] at h ⊢
    have h1 : (hstep plus s b).1.ready = false := by
      cases hr : (hstep plus s b).1.ready with
      | false => rfl
      | true => have := run_ready_latch plus bs _ hr; simp_all
    have ih := run_fbe_unready plus bs (hstep plus s b).1 h
    simp only at ih ⊢
    rw [ih, hstep_fbe_unready plus s b h1]
    simp [Bool.or_assoc]

/-- an unready start and a ready end: somewhere a batch made the pod ready -/
theorem run_becomes_ready (plus : Bool) : ∀ (bs : List Batch) (s : H), s.ready = false →
    (hrun plus s bs).1.ready = true →
    ∃ pre b post, bs = pre ++ b :: post ∧ (hrun plus s pre).1.ready = false ∧
      ((b.ct ≠ .noChange ∧ (hstep plus (hrun plus s pre).1 b).2.err = false) ∨
       (b.ct = .noChange ∧ (hrun plus s pre).1.firstBatchErr = false))
  | [], s, h0, h1 => by simp [hrun] at h1; simp_all
  | b :: bs, s, h0, h1 => by
    cases hr : (hstep plus s b).1.ready with
    | true =>
      exact ⟨[], b, bs, rfl, by simpa [hrun] using h0, by
        simpa [hrun] using hstep_becomes_ready plus s b h0 hr⟩
    | false =>
      rw [hrun_cons] at h1
      obtain ⟨pre, b', post, hbs, hpre, hor⟩ := run_becomes_ready plus bs _ hr h1
      refine ⟨b :: pre, b', post, by simp [hbs], ?_, ?_⟩
      · rw [hrun_cons]; exact hpre
      · rw [hrun_cons]; exact hor

/-! ### conditions -/

theorem dedup_mem : ∀ (l : List Cond) (x : Cond), x ∈ dedup l → x ∈ l := by
  intro l
  induction l with
  | nil => simp [dedup]
  | cons a l ih2 =>
    intro x hx
    simp only [dedup] at hx
    split at hx
    · exact List.mem_cons_of_mem _ (ih2 x hx)
    · rcases List.mem_cons.1 hx with rfl | hx
      · exact List.mem_cons_self
      · exact List.mem_cons_of_mem _ (ih2 x hx)

theorem lookup_cons_ne (t : String) (x : Cond) (l : List Cond) (h : x.type ≠ t) :
    lookup t (x :: l) = lookup t l := by
  simp [lookup, List.find?_cons, h]

/-- the appended condition is the one found for its type -/
theorem lookup_dedup_snoc_self (c : Cond) : ∀ (cs : List Cond),
    lookup c.type (dedup (cs ++ [c])) = some c
  | [] => by simp [dedup, lookup]
  | x :: cs => by
    have ih := lookup_dedup_snoc_self c cs
    simp only [List.cons_append, dedup]
    split
    · exact ih
    · next hany =>
      have hne : x.type ≠ c.type := by
        intro h; apply hany
        rw [List.any_eq_true]
        exact ⟨c, by simp, by simp [h]⟩
      rw [lookup_cons_ne _ _ _ hne]; exact ih

/-- every other type is reported as without the appended condition -/
theorem lookup_dedup_snoc_other (c : Cond) (t : String) (ht : c.type ≠ t) : ∀ (cs : List Cond),
    lookup t (dedup (cs ++ [c])) = lookup t (dedup cs)
  | [] => by simp [dedup, lookup, List.find?_cons, ht]
  | x :: cs => by
    have ih := lookup_dedup_snoc_other c t ht cs
    simp only [List.cons_append, dedup, List.any_append, List.any_cons, List.any_nil, Bool.or_false]
    by_cases hxc : c.type = x.type
    · -- x is dropped on the left; on the right it is either dropped or skipped by the lookup
      have hxt : x.type ≠ t := hxc ▸ ht
      simp only [hxc, beq_self_eq_true, Bool.or_true, if_true]
      split
      · exact ih
      · rw [lookup_cons_ne _ _ _ hxt]; exact ih
    · have : (c.type == x.type) = false := by simp [hxc]
      simp only [this, Bool.or_false]
      split
      · exact ih
      · simp only [lookup, List.find?_cons] at ih ⊢
        split
        · rfl
        · exact ih

/-- nothing else of that type survives -/
theorem dedup_snoc_unique (c : Cond) : ∀ (cs : List Cond) (x : Cond),
    x ∈ dedup (cs ++ [c]) → x.type = c.type → x = c
  | [], x, hx, _ => by simpa [dedup] using hx
  | y :: cs, x, hx, ht => by
    simp only [List.cons_append, dedup] at hx
    split at hx
    · exact dedup_snoc_unique c cs x hx ht
    · next hany =>
      rcases List.mem_cons.1 hx with rfl | hx
      · exfalso; apply hany
        rw [List.any_eq_true]
        exact ⟨c, by simp, by simp [ht]⟩
      · exact dedup_snoc_unique c cs x hx ht

/-- folding into already de-duplicated conditions gives the same result (this is what allows the
correspondence to feed the status observed without a reload error into the model) -/
theorem dedup_dedup_snoc (c : Cond) : ∀ (cs : List Cond),
    dedup (dedup cs ++ [c]) = dedup (cs ++ [c])
  | [] => by simp [dedup]
  | x :: cs => by
    have ih := dedup_dedup_snoc c cs
    by_cases hany : cs.any (fun d => d.type == x.type) = true
    · have h2 : (cs ++ [c]).any (fun d => d.type == x.type) = true := by
        simp [List.any_append, hany]
      simp only [List.cons_append, dedup, hany, h2, if_true]
      exact ih
    · have hd : (dedup cs).any (fun d => d.type == x.type) = false := by
        cases hh : (dedup cs).any (fun d => d.type == x.type) with
        | false => rfl
        | true =>
          exfalso; apply hany
          obtain ⟨d, hd, hdt⟩ := List.any_eq_true.1 hh
          exact List.any_eq_true.2 ⟨d, dedup_mem cs d hd, hdt⟩
      have hany' : cs.any (fun d => d.type == x.type) = false := by simpa using hany
      simp only [List.cons_append, dedup, hany', Bool.false_eq_true, if_false, List.any_append, hd,
        List.any_cons, List.any_nil, Bool.or_false, Bool.false_or]
      split
      · exact ih
      · rw [ih]

theorem dedup_idem : ∀ (cs : List Cond), dedup (dedup cs) = dedup cs
  | [] => by simp [dedup]
  | x :: cs => by
    have ih := dedup_idem cs
    by_cases hany : cs.any (fun d => d.type == x.type) = true
    · simp only [dedup, hany, if_true]; exact ih
    · have hd : (dedup cs).any (fun d => d.type == x.type) = false := by
        cases hh : (dedup cs).any (fun d => d.type == x.type) with
        | false => rfl
        | true =>
          exfalso; apply hany
          obtain ⟨d, hd, hdt⟩ := List.any_eq_true.1 hh
          exact List.any_eq_true.2 ⟨d, dedup_mem cs d hd, hdt⟩
      have hany' : cs.any (fun d => d.type == x.type) = false := by simpa using hany
      simp only [dedup, hany', Bool.false_eq_true, if_false, hd]
      rw [ih]

end NGF.HandlerVer
