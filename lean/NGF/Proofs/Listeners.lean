import NGF.Model.Order
/-
C14 helper: the closure returned by createPortConflictResolver, folded over the listeners, satisfies an invariant from
which the order-free characterisation of the final Valid flags follows (NGF.Order.resolveListeners_spec).
-/
namespace NGF.Order

theorem group_ne_proto_ne {a b : Lis} (h : a.proto.group ≠ b.proto.group) : a.proto ≠ b.proto := by
  intro e; rw [e] at h; exact h rfl

theorem clash_self (ov : Lis → Lis → Bool) (a : Lis) : clash ov a a = false := by
  simp [clash]

theorem clash_symm (ov : Lis → Lis → Bool) (hsym : ∀ a b, ov a b = ov b a) (a b : Lis) :
    clash ov a b = clash ov b a := by
  unfold clash
  rw [hsym a b]
  have e1 : (a.port == b.port) = (b.port == a.port) := BEq.comm
  have e2 : (a.proto.group != b.proto.group) = (b.proto.group != a.proto.group) := by
    unfold bne; rw [BEq.comm]
  have e3 : (a.proto != b.proto) = (b.proto != a.proto) := by
    unfold bne; rw [BEq.comm]
  rw [e1, e2, e3]

theorem clash_port {ov : Lis → Lis → Bool} {a b : Lis} (h : clash ov a b = true) : a.port = b.port := by
  unfold clash at h; simp at h; exact h.1

theorem clash_of_group {ov : Lis → Lis → Bool} {a b : Lis} (hp : a.port = b.port)
    (hg : a.proto.group ≠ b.proto.group) : clash ov a b = true := by
  unfold clash; simp [hp, hg]

structure LInv (ov : Lis → Lis → Bool) (seen : List Lis) (s : LState) : Prop where
  cp : ∀ p, s.conflictedPorts.contains p = true ↔
        ∃ a ∈ seen, ∃ b ∈ seen, a.port = p ∧ b.port = p ∧ a.proto.group ≠ b.proto.group
  ownNone : ∀ p, s.owner.lookup p = none → ∀ a ∈ seen, a.port ≠ p
  ownSome : ∀ p g, s.owner.lookup p = some g → s.conflictedPorts.contains p = false →
        ∀ a ∈ seen, a.port = p → a.proto.group = g
  ownEx : ∀ p g, s.owner.lookup p = some g → ∃ a ∈ seen, a.port = p ∧ a.proto.group = g
  byPort : ∀ p, s.conflictedPorts.contains p = false →
        ∀ x, x ∈ (s.byPort.filter (·.1 == p)).map (·.2) ↔ x ∈ seen ∧ x.port = p
  inv : ∀ x ∈ seen, (x.id ∈ s.invalid ↔ seen.any (clash ov x) = true)
  invIds : ∀ i ∈ s.invalid, ∃ x ∈ seen, x.id = i

theorem LInv.init (ov : Lis → Lis → Bool) : LInv ov [] {} := by
  refine ⟨?_, ?_, ?_, ?_, ?_, ?_, ?_⟩ <;> simp

theorem any_snoc (f : Lis → Bool) (seen : List Lis) (l : Lis) :
    (seen ++ [l]).any f = (seen.any f || f l) := by simp

/-- a port with two protocol groups: every listener on it clashes with one of the two -/
theorem clash_on_conflicted {ov : Lis → Lis → Bool} {seen : List Lis} {x : Lis}
    (h : ∃ a ∈ seen, ∃ b ∈ seen, a.port = x.port ∧ b.port = x.port ∧ a.proto.group ≠ b.proto.group) :
    seen.any (clash ov x) = true := by
  obtain ⟨a, ha, b, hb, pa, pb, hg⟩ := h
  rw [List.any_eq_true]
  by_cases e : x.proto.group = a.proto.group
  · exact ⟨b, hb, clash_of_group pb.symm (fun e' => hg (e.symm.trans e'))⟩
  · exact ⟨a, ha, clash_of_group pa.symm e⟩


theorem mem_snoc {x l : Lis} {seen : List Lis} (h : x ∈ seen ++ [l]) : x ∈ seen ∨ x = l := by
  rcases List.mem_append.mp h with h | h
  · exact Or.inl h
  · right; simpa using h

/-- branch 1 of the closure: the port is already conflicted -/
theorem stepA {ov : Lis → Lis → Bool} {seen : List Lis} {s s' : LState} {l : Lis}
    (I : LInv ov seen s) (hnew : ∀ x ∈ seen, x.id ≠ l.id)
    (hc : s.conflictedPorts.contains l.port = true)
    (e1 : s'.conflictedPorts = s.conflictedPorts) (e2 : s'.owner = s.owner) (e3 : s'.byPort = s.byPort)
    (e4 : s'.invalid = l.id :: s.invalid) : LInv ov (seen ++ [l]) s' := by
  have hw := (I.cp l.port).mp hc
  refine ⟨?_, ?_, ?_, ?_, ?_, ?_, ?_⟩
  · intro p; rw [e1]
    constructor
    · intro h; obtain ⟨a, ha, b, hb, r⟩ := (I.cp p).mp h
      exact ⟨a, List.mem_append_left _ ha, b, List.mem_append_left _ hb, r⟩
    · rintro ⟨a, ha, b, hb, pa, pb, hg⟩
      rcases mem_snoc ha with ha | ha <;> rcases mem_snoc hb with hb | hb
      · exact (I.cp p).mpr ⟨a, ha, b, hb, pa, pb, hg⟩
      · subst hb; rw [← pb]; exact hc
      · subst ha; rw [← pa]; exact hc
      · subst ha; subst hb; exact absurd rfl hg
  · intro p hp a ha; rw [e2] at hp
    rcases mem_snoc ha with ha | ha
    · exact I.ownNone p hp a ha
    · subst ha
      intro e
      obtain ⟨x, hx, _, _, px, _, _⟩ := hw
      exact I.ownNone p hp x hx (px.trans e)
  · intro p g hp hcp a ha hap; rw [e2] at hp; rw [e1] at hcp
    rcases mem_snoc ha with ha | ha
    · exact I.ownSome p g hp hcp a ha hap
    · subst ha; rw [hap] at hc; rw [hc] at hcp; cases hcp
  · intro p g hp; rw [e2] at hp
    obtain ⟨a, ha, r⟩ := I.ownEx p g hp
    exact ⟨a, List.mem_append_left _ ha, r⟩
  · intro p hcp x; rw [e1] at hcp; rw [e3, I.byPort p hcp x]
    constructor
    · rintro ⟨h1, h2⟩; exact ⟨List.mem_append_left _ h1, h2⟩
    · rintro ⟨h1, h2⟩
      rcases mem_snoc h1 with h1 | h1
      · exact ⟨h1, h2⟩
      · subst h1; rw [h2] at hc; rw [hc] at hcp; cases hcp
  · intro x hx
    rw [e4, any_snoc]
    rcases mem_snoc hx with hx | hx
    · have hne : x.id ≠ l.id := hnew x hx
      simp only [List.mem_cons, hne, false_or]
      rw [I.inv x hx]
      constructor
      · intro h; simp [h]
      · intro h
        rcases Bool.or_eq_true _ _ ▸ h with h | h
        · exact h
        · -- x clashes with l: x is on the conflicted port
          have hp := clash_port h
          apply clash_on_conflicted
          rw [hp]; exact hw
    · subst hx
      simp only [List.mem_cons, true_or, true_iff]
      have := clash_on_conflicted (ov := ov) (x := x) hw
      simp [this]
  · intro i hi; rw [e4] at hi
    rcases List.mem_cons.mp hi with hi | hi
    · exact ⟨l, by simp, hi.symm⟩
    · obtain ⟨x, hx, e⟩ := I.invIds i hi
      exact ⟨x, List.mem_append_left _ hx, e⟩


theorem lookup_cons' (p k : Nat) (g : Nat) (es : List (Nat × Nat)) :
    List.lookup p ((k, g) :: es) = if p = k then some g else List.lookup p es := by
  simp only [List.lookup_cons]
  by_cases h : p = k
  · simp [h]
  · have : (p == k) = false := by simpa using h
    simp [this, h]

theorem mem_byPort_snoc (bp : List (Nat × Lis)) (l x : Lis) (p : Nat) :
    x ∈ ((bp ++ [(l.port, l)]).filter (·.1 == p)).map (·.2) ↔
      x ∈ (bp.filter (·.1 == p)).map (·.2) ∨ (l.port = p ∧ x = l) := by
  rw [List.filter_append, List.map_append, List.mem_append]
  by_cases h : l.port = p
  · simp [h]
  · have : (l.port == p) = false := by simpa using h
    simp [this, h]

/-- branch 2: first listener on its port -/
theorem stepB {ov : Lis → Lis → Bool} {seen : List Lis} {s s' : LState} {l : Lis}
    (I : LInv ov seen s) (hnew : ∀ x ∈ seen, x.id ≠ l.id)
    (hc : s.conflictedPorts.contains l.port = false) (hl : s.owner.lookup l.port = none)
    (e1 : s'.conflictedPorts = s.conflictedPorts) (e2 : s'.owner = (l.port, l.proto.group) :: s.owner)
    (e3 : s'.byPort = s.byPort ++ [(l.port, l)]) (e4 : s'.invalid = s.invalid) : LInv ov (seen ++ [l]) s' := by
  have hnone : ∀ a ∈ seen, a.port ≠ l.port := I.ownNone l.port hl
  have noclash : ∀ a ∈ seen, clash ov a l = false ∧ clash ov l a = false := by
    intro a ha
    have h1 := hnone a ha
    have h2 : ¬ l.port = a.port := fun e => h1 e.symm
    constructor <;> simp [clash, h1, h2]
  refine ⟨?_, ?_, ?_, ?_, ?_, ?_, ?_⟩
  · intro p; rw [e1]
    constructor
    · intro h; obtain ⟨a, ha, b, hb, r⟩ := (I.cp p).mp h
      exact ⟨a, List.mem_append_left _ ha, b, List.mem_append_left _ hb, r⟩
    · rintro ⟨a, ha, b, hb, pa, pb, hg⟩
      rcases mem_snoc ha with ha' | ha' <;> rcases mem_snoc hb with hb' | hb'
      · exact (I.cp p).mpr ⟨a, ha', b, hb', pa, pb, hg⟩
      · rw [hb'] at pb; exact absurd (pa.trans pb.symm) (hnone a ha')
      · rw [ha'] at pa; exact absurd (pb.trans pa.symm) (hnone b hb')
      · rw [ha', hb'] at hg; exact absurd rfl hg
  · intro p hp a ha; rw [e2, lookup_cons'] at hp
    by_cases hpl : p = l.port
    · simp [hpl] at hp
    · simp only [hpl, if_false] at hp
      rcases mem_snoc ha with ha | ha
      · exact I.ownNone p hp a ha
      · subst ha; exact fun e => hpl e.symm
  · intro p g hp hcp a ha hap; rw [e2, lookup_cons'] at hp; rw [e1] at hcp
    by_cases hpl : p = l.port
    · simp only [hpl, if_true] at hp
      rcases mem_snoc ha with ha | ha
      · exact absurd (hap.trans hpl) (hnone a ha)
      · subst ha; injection hp
    · simp only [hpl, if_false] at hp
      rcases mem_snoc ha with ha | ha
      · exact I.ownSome p g hp hcp a ha hap
      · subst ha; exact absurd hap.symm hpl
  · intro p g hp; rw [e2, lookup_cons'] at hp
    by_cases hpl : p = l.port
    · simp only [hpl, if_true] at hp
      injection hp with hp
      exact ⟨l, by simp, hpl.symm, hp⟩
    · simp only [hpl, if_false] at hp
      obtain ⟨a, ha, r⟩ := I.ownEx p g hp
      exact ⟨a, List.mem_append_left _ ha, r⟩
  · intro p hcp x; rw [e1] at hcp; rw [e3, mem_byPort_snoc, I.byPort p hcp x]
    constructor
    · rintro (⟨h1, h2⟩ | ⟨h1, h2⟩)
      · exact ⟨List.mem_append_left _ h1, h2⟩
      · subst h2; exact ⟨by simp, h1⟩
    · rintro ⟨h1, h2⟩
      rcases mem_snoc h1 with h1 | h1
      · exact Or.inl ⟨h1, h2⟩
      · exact Or.inr ⟨h1 ▸ h2, h1⟩
  · intro x hx
    rw [e4, any_snoc]
    rcases mem_snoc hx with hx | hx
    · rw [I.inv x hx, (noclash x hx).1]; simp
    · subst hx
      rw [clash_self]
      have h1 : ¬ x.id ∈ s.invalid := by
        intro h; obtain ⟨y, hy, e⟩ := I.invIds _ h; exact hnew y hy e
      have h2 : seen.any (clash ov x) = false := by
        rw [List.any_eq_false]; intro a ha; simp [(noclash a ha).2]
      simp [h1, h2]
  · intro i hi; rw [e4] at hi
    obtain ⟨x, hx, e⟩ := I.invIds i hi
    exact ⟨x, List.mem_append_left _ hx, e⟩


theorem contains_cons' (p k : Nat) (l : List Nat) : (k :: l).contains p = true ↔ p = k ∨ l.contains p = true := by
  simp

/-- branch 3: the port is owned by the other protocol group -/
theorem stepC {ov : Lis → Lis → Bool} {seen : List Lis} {s s' : LState} {l : Lis} {g : Nat}
    (I : LInv ov seen s) (hnew : ∀ x ∈ seen, x.id ≠ l.id)
    (hinj : ∀ x ∈ seen, ∀ y ∈ seen, x.id = y.id → x = y)
    (hc : s.conflictedPorts.contains l.port = false) (hl : s.owner.lookup l.port = some g)
    (hg : g ≠ l.proto.group)
    (e1 : s'.conflictedPorts = l.port :: s.conflictedPorts) (e2 : s'.owner = s.owner)
    (e3 : s'.byPort = s.byPort ++ [(l.port, l)])
    (e4 : s'.invalid = l.id :: (((s.byPort.filter (·.1 == l.port)).map (·.2)).map (·.id) ++ s.invalid)) :
    LInv ov (seen ++ [l]) s' := by
  have allg : ∀ a ∈ seen, a.port = l.port → a.proto.group = g := I.ownSome l.port g hl hc
  obtain ⟨a0, ha0, pa0, ga0⟩ := I.ownEx l.port g hl
  have memP : ∀ x, x ∈ (s.byPort.filter (·.1 == l.port)).map (·.2) ↔ x ∈ seen ∧ x.port = l.port := I.byPort l.port hc
  have clashL : ∀ x ∈ seen, (clash ov x l = true ↔ x.port = l.port) := by
    intro x hx
    constructor
    · exact clash_port
    · intro hp; exact clash_of_group hp (by rw [allg x hx hp]; exact hg)
  refine ⟨?_, ?_, ?_, ?_, ?_, ?_, ?_⟩
  · intro p; rw [e1, contains_cons']
    constructor
    · rintro (h | h)
      · subst h
        exact ⟨a0, List.mem_append_left _ ha0, l, by simp, pa0, rfl, by rw [ga0]; exact hg⟩
      · obtain ⟨a, ha, b, hb, r⟩ := (I.cp p).mp h
        exact ⟨a, List.mem_append_left _ ha, b, List.mem_append_left _ hb, r⟩
    · rintro ⟨a, ha, b, hb, pa, pb, hgg⟩
      rcases mem_snoc ha with ha' | ha' <;> rcases mem_snoc hb with hb' | hb'
      · exact Or.inr ((I.cp p).mpr ⟨a, ha', b, hb', pa, pb, hgg⟩)
      · left; rw [hb'] at pb; exact pb.symm
      · left; rw [ha'] at pa; exact pa.symm
      · rw [ha', hb'] at hgg; exact absurd rfl hgg
  · intro p hp a ha; rw [e2] at hp
    rcases mem_snoc ha with ha' | ha'
    · exact I.ownNone p hp a ha'
    · rw [ha']; intro e; rw [e] at hl; rw [hl] at hp; cases hp
  · intro p g' hp hcp a ha hap; rw [e2] at hp
    have hcp' : ¬ (p = l.port ∨ s.conflictedPorts.contains p = true) := by
      intro h; have := (contains_cons' p l.port s.conflictedPorts).mpr h; rw [← e1, hcp] at this; cases this
    have hpl : p ≠ l.port := fun e => hcp' (Or.inl e)
    have hcs : s.conflictedPorts.contains p = false := by
      cases h : s.conflictedPorts.contains p with
      | false => rfl
      | true => exact absurd (Or.inr h) hcp'
    rcases mem_snoc ha with ha' | ha'
    · exact I.ownSome p g' hp hcs a ha' hap
    · rw [ha'] at hap; exact absurd hap.symm hpl
  · intro p g' hp; rw [e2] at hp
    obtain ⟨a, ha, r⟩ := I.ownEx p g' hp
    exact ⟨a, List.mem_append_left _ ha, r⟩
  · intro p hcp x
    have hcp' : ¬ (p = l.port ∨ s.conflictedPorts.contains p = true) := by
      intro h; have := (contains_cons' p l.port s.conflictedPorts).mpr h; rw [← e1, hcp] at this; cases this
    have hpl : ¬ l.port = p := fun e => hcp' (Or.inl e.symm)
    have hcs : s.conflictedPorts.contains p = false := by
      cases h : s.conflictedPorts.contains p with
      | false => rfl
      | true => exact absurd (Or.inr h) hcp'
    rw [e3, mem_byPort_snoc, I.byPort p hcs x]
    constructor
    · rintro (⟨h1, h2⟩ | ⟨h1, _⟩)
      · exact ⟨List.mem_append_left _ h1, h2⟩
      · exact absurd h1 hpl
    · rintro ⟨h1, h2⟩
      rcases mem_snoc h1 with h1' | h1'
      · exact Or.inl ⟨h1', h2⟩
      · rw [h1'] at h2; exact absurd h2 hpl
  · intro x hx
    rw [e4, any_snoc]
    rcases mem_snoc hx with hx' | hx'
    · have hne : x.id ≠ l.id := hnew x hx'
      simp only [List.mem_cons, hne, false_or, List.mem_append, Bool.or_eq_true]
      rw [I.inv x hx', clashL x hx']
      constructor
      · rintro (hm | h)
        · obtain ⟨y, hy, e⟩ := List.mem_map.mp hm
          have hy' := (memP y).mp hy
          have : y = x := hinj y hy'.1 x hx' e
          right; rw [← this]; exact hy'.2
        · exact Or.inl h
      · rintro (h | h)
        · exact Or.inr h
        · exact Or.inl (List.mem_map.mpr ⟨x, (memP x).mpr ⟨hx', h⟩, rfl⟩)
    · rw [hx']
      simp only [List.mem_cons, true_or, true_iff]
      have : clash ov l a0 = true := clash_of_group pa0.symm (by rw [ga0]; exact fun e => hg e.symm)
      have h2 : seen.any (clash ov l) = true := List.any_eq_true.mpr ⟨a0, ha0, this⟩
      simp [h2]
  · intro i hi; rw [e4] at hi
    rcases List.mem_cons.mp hi with hi | hi
    · exact ⟨l, by simp, hi.symm⟩
    · rcases List.mem_append.mp hi with hi | hi
      · obtain ⟨y, hy, e⟩ := List.mem_map.mp hi
        exact ⟨y, List.mem_append_left _ ((memP y).mp hy).1, e⟩
      · obtain ⟨x, hx, e⟩ := I.invIds i hi
        exact ⟨x, List.mem_append_left _ hx, e⟩


/-- branch 4: same protocol group; HTTPS/TLS listeners with overlapping hostnames invalidate each other -/
theorem stepD {ov : Lis → Lis → Bool} (hsym : ∀ a b, ov a b = ov b a)
    {seen : List Lis} {s s' : LState} {l : Lis} {g : Nat}
    (I : LInv ov seen s) (hnew : ∀ x ∈ seen, x.id ≠ l.id)
    (hinj : ∀ x ∈ seen, ∀ y ∈ seen, x.id = y.id → x = y)
    (hc : s.conflictedPorts.contains l.port = false) (hl : s.owner.lookup l.port = some g)
    (hg : g = l.proto.group)
    (hit : List Lis)
    (ehit : hit = ((s.byPort.filter (·.1 == l.port)).map (·.2)).filter (fun x => x.proto != l.proto && ov l x))
    (e1 : s'.conflictedPorts = s.conflictedPorts) (e2 : s'.owner = s.owner)
    (e3 : s'.byPort = s.byPort ++ [(l.port, l)])
    (e4 : s'.invalid = if hit.isEmpty then s.invalid else l.id :: (hit.map (·.id) ++ s.invalid)) :
    LInv ov (seen ++ [l]) s' := by
  have allg : ∀ a ∈ seen, a.port = l.port → a.proto.group = l.proto.group := by
    intro a ha hp; rw [← hg]; exact I.ownSome l.port g hl hc a ha hp
  have memP : ∀ x, x ∈ (s.byPort.filter (·.1 == l.port)).map (·.2) ↔ x ∈ seen ∧ x.port = l.port := I.byPort l.port hc
  have memHit : ∀ x, x ∈ hit ↔ x ∈ seen ∧ clash ov x l = true := by
    intro x
    rw [ehit, List.mem_filter, memP x]
    constructor
    · rintro ⟨⟨h1, h2⟩, h3⟩
      refine ⟨h1, ?_⟩
      simp only [Bool.and_eq_true] at h3
      unfold clash
      rw [hsym x l]
      simp [h2, h3.1, h3.2]
    · rintro ⟨h1, h2⟩
      have hp := clash_port h2
      refine ⟨⟨h1, hp⟩, ?_⟩
      unfold clash at h2
      rw [hsym x l] at h2
      have hgx := allg x h1 hp
      simpa [hp, hgx] using h2
  refine ⟨?_, ?_, ?_, ?_, ?_, ?_, ?_⟩
  · intro p; rw [e1]
    constructor
    · intro h; obtain ⟨a, ha, b, hb, r⟩ := (I.cp p).mp h
      exact ⟨a, List.mem_append_left _ ha, b, List.mem_append_left _ hb, r⟩
    · rintro ⟨a, ha, b, hb, pa, pb, hgg⟩
      rcases mem_snoc ha with ha' | ha' <;> rcases mem_snoc hb with hb' | hb'
      · exact (I.cp p).mpr ⟨a, ha', b, hb', pa, pb, hgg⟩
      · rw [hb'] at pb hgg; exact absurd (allg a ha' (pa.trans pb.symm)) hgg
      · rw [ha'] at pa hgg; exact absurd (allg b hb' (pb.trans pa.symm)).symm hgg
      · rw [ha', hb'] at hgg; exact absurd rfl hgg
  · intro p hp a ha; rw [e2] at hp
    rcases mem_snoc ha with ha' | ha'
    · exact I.ownNone p hp a ha'
    · rw [ha']; intro e; rw [e] at hl; rw [hl] at hp; cases hp
  · intro p g' hp hcp a ha hap; rw [e2] at hp; rw [e1] at hcp
    rcases mem_snoc ha with ha' | ha'
    · exact I.ownSome p g' hp hcp a ha' hap
    · rw [ha'] at hap ⊢; rw [← hap, hl] at hp; injection hp with hp; rw [← hp]; exact hg.symm
  · intro p g' hp; rw [e2] at hp
    obtain ⟨a, ha, r⟩ := I.ownEx p g' hp
    exact ⟨a, List.mem_append_left _ ha, r⟩
  · intro p hcp x; rw [e1] at hcp; rw [e3, mem_byPort_snoc, I.byPort p hcp x]
    constructor
    · rintro (⟨h1, h2⟩ | ⟨h1, h2⟩)
      · exact ⟨List.mem_append_left _ h1, h2⟩
      · rw [h2]; exact ⟨by simp, h1⟩
    · rintro ⟨h1, h2⟩
      rcases mem_snoc h1 with h1' | h1'
      · exact Or.inl ⟨h1', h2⟩
      · exact Or.inr ⟨h1' ▸ h2, h1'⟩
  · intro x hx
    rw [e4, any_snoc]
    rcases mem_snoc hx with hx' | hx'
    · have hne : x.id ≠ l.id := hnew x hx'
      by_cases he : hit.isEmpty = true
      · rw [if_pos he, I.inv x hx']
        have : clash ov x l = false := by
          cases hcl : clash ov x l with
          | false => rfl
          | true =>
            have := (memHit x).mpr ⟨hx', hcl⟩
            have hnil : hit = [] := by simpa using he
            rw [hnil] at this; simp at this
        simp [this]
      · rw [if_neg he]
        simp only [List.mem_cons, hne, false_or, List.mem_append, Bool.or_eq_true]
        rw [I.inv x hx']
        constructor
        · rintro (hm | h)
          · obtain ⟨y, hy, e⟩ := List.mem_map.mp hm
            have hy' := (memHit y).mp hy
            have : y = x := hinj y hy'.1 x hx' e
            right; rw [← this]; exact hy'.2
          · exact Or.inl h
        · rintro (h | h)
          · exact Or.inr h
          · exact Or.inl (List.mem_map.mpr ⟨x, (memHit x).mpr ⟨hx', h⟩, rfl⟩)
    · rw [hx', clash_self]
      by_cases he : hit.isEmpty = true
      · rw [if_pos he]
        have h1 : ¬ l.id ∈ s.invalid := by
          intro h; obtain ⟨y, hy, e⟩ := I.invIds _ h; exact hnew y hy e
        have h2 : seen.any (clash ov l) = false := by
          rw [List.any_eq_false]; intro a ha hcl
          have := (memHit a).mpr ⟨ha, by rw [clash_symm ov hsym]; exact hcl⟩
          have hnil : hit = [] := by simpa using he
          rw [hnil] at this; simp at this
        simp [h1, h2]
      · rw [if_neg he]
        simp only [List.mem_cons, true_or, true_iff]
        have hne : hit ≠ [] := by intro e; rw [e] at he; simp at he
        obtain ⟨h0, rest, e⟩ := List.exists_cons_of_ne_nil hne
        have hm := (memHit h0).mp (by rw [e]; simp)
        have h2 : seen.any (clash ov l) = true :=
          List.any_eq_true.mpr ⟨h0, hm.1, by rw [clash_symm ov hsym]; exact hm.2⟩
        simp [h2]
  · intro i hi; rw [e4] at hi
    by_cases he : hit.isEmpty = true
    · rw [if_pos he] at hi
      obtain ⟨x, hx, e⟩ := I.invIds i hi
      exact ⟨x, List.mem_append_left _ hx, e⟩
    · rw [if_neg he] at hi
      rcases List.mem_cons.mp hi with hi | hi
      · exact ⟨l, by simp, hi.symm⟩
      · rcases List.mem_append.mp hi with hi | hi
        · obtain ⟨y, hy, e⟩ := List.mem_map.mp hi
          exact ⟨y, List.mem_append_left _ ((memHit y).mp hy).1, e⟩
        · obtain ⟨x, hx, e⟩ := I.invIds i hi
          exact ⟨x, List.mem_append_left _ hx, e⟩


theorem step {ov : Lis → Lis → Bool} (hsym : ∀ a b, ov a b = ov b a)
    {seen : List Lis} {s : LState} {l : Lis}
    (I : LInv ov seen s) (hnew : ∀ x ∈ seen, x.id ≠ l.id)
    (hinj : ∀ x ∈ seen, ∀ y ∈ seen, x.id = y.id → x = y) :
    LInv ov (seen ++ [l]) (resolveOne ov s l) := by
  unfold resolveOne
  by_cases hc : s.conflictedPorts.contains l.port = true
  · rw [if_pos hc]; exact stepA I hnew hc rfl rfl rfl rfl
  · have hc' : s.conflictedPorts.contains l.port = false := by simpa using hc
    rw [if_neg hc]
    split
    · next hl => exact stepB I hnew hc' hl rfl rfl rfl rfl
    · next g hl =>
      by_cases hg : (g != l.proto.group) = true
      · rw [if_pos hg]
        have hg' : g ≠ l.proto.group := by simpa using hg
        exact stepC I hnew hinj hc' hl hg' rfl rfl rfl rfl
      · rw [if_neg hg]
        have hg' : g = l.proto.group := by simpa using hg
        by_cases he : (List.filter (fun x => x.proto != l.proto && ov l x)
            (List.map (fun x => x.2) (List.filter (fun x => x.1 == l.port) s.byPort))).isEmpty = true
        · rw [if_pos he]
          exact stepD hsym I hnew hinj hc' hl hg' _ rfl rfl rfl rfl (by rw [if_pos he])
        · rw [if_neg he]
          exact stepD hsym I hnew hinj hc' hl hg' _ rfl rfl rfl rfl (by rw [if_neg he])

theorem pairwise_inj : ∀ (l : List Lis), List.Pairwise (fun a b => a.id ≠ b.id) l →
    ∀ x ∈ l, ∀ y ∈ l, x.id = y.id → x = y
  | [], _, _, hx, _, _, _ => by simp at hx
  | a :: t, hp, x, hx, y, hy, e => by
    have hp' := List.pairwise_cons.mp hp
    rcases List.mem_cons.mp hx with hx | hx <;> rcases List.mem_cons.mp hy with hy | hy
    · rw [hx, hy]
    · rw [hx] at e; exact absurd e (hp'.1 y hy)
    · rw [hy] at e; exact absurd e.symm (hp'.1 x hx)
    · exact pairwise_inj t hp'.2 x hx y hy e

theorem resolve_inv {ov : Lis → Lis → Bool} (hsym : ∀ a b, ov a b = ov b a) :
    ∀ (rest seen : List Lis) (s : LState), LInv ov seen s →
      List.Pairwise (fun a b => a.id ≠ b.id) (seen ++ rest) →
      LInv ov (seen ++ rest) (rest.foldl (resolveOne ov) s)
  | [], seen, s, I, _ => by simpa using I
  | l :: rest, seen, s, I, hnd => by
    have h := List.pairwise_append.mp hnd
    have hnew : ∀ x ∈ seen, x.id ≠ l.id := fun x hx => h.2.2 x hx l List.mem_cons_self
    have hinj := pairwise_inj seen h.1
    have I' := step hsym I hnew hinj
    have hnd' : List.Pairwise (fun a b => a.id ≠ b.id) ((seen ++ [l]) ++ rest) := by simpa using hnd
    have := resolve_inv hsym rest (seen ++ [l]) _ I' hnd'
    simpa using this

/-- `createPortConflictResolver`: after all listeners have been processed (in ANY order), a listener is invalid
exactly when some other listener clashes with it. -/
theorem resolveListeners_spec (ov : Lis → Lis → Bool) (hsym : ∀ a b, ov a b = ov b a) (ls : List Lis)
    (hid : List.Pairwise (fun a b => a.id ≠ b.id) ls) (l : Lis) (hl : l ∈ ls) :
    (l.id ∈ (resolveListeners ov ls).invalid ↔ lisValidSpec ov ls l = false) := by
  have I := resolve_inv hsym ls [] {} (LInv.init ov) (by simpa using hid)
  simp only [List.nil_append] at I
  unfold resolveListeners lisValidSpec
  rw [I.inv l hl]
  simp

theorem haveOverlap_symm : ∀ a b : Option String, haveOverlap a b = haveOverlap b a
  | none, none => rfl
  | none, some _ => rfl
  | some _, none => rfl
  | some a, some b => by
    simp only [haveOverlap]
    have e : (a == b) = (b == a) := BEq.comm
    rw [e]
    cases (b == a) <;> cases mw a b <;> cases mw b a <;> rfl

theorem lisOverlap_symm (a b : Lis) : lisOverlap a b = lisOverlap b a := haveOverlap_symm _ _

end NGF.Order
