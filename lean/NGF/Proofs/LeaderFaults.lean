/-
C09 — restricting a history to the healthy resources commutes with running the updater: helper lemmas.
Core Lean only.
-/
import NGF.Model.LeaderFaults
import NGF.Proofs.LeaderWiring

namespace NGF.Leader

def ne (w : Write) : Bool := !w.2.isEmpty

/-- the saved map as the healthy resources see it -/
def clean (fails : Req → Bool) (s : Saved) : Saved := (mapV (attempt fails) s).filter ne

theorem del_filter (g : Group) (p : Write → Bool) (s : Saved) : del g (s.filter p) = (del g s).filter p := by
  simp only [del, List.filter_filter]
  apply List.filter_congr
  intro x _
  exact Bool.and_comm _ _

theorem clean_del (fails : Req → Bool) (g : Group) (s : Saved) : clean fails (del g s) = del g (clean fails s) := by
  simp only [clean, ← del_mapV, del_filter]

theorem keys_filter_sub (p : Write → Bool) (s : Saved) {g : Group} (h : g ∉ keys s) : g ∉ keys (s.filter p) := by
  intro hm
  obtain ⟨w, hw, e⟩ := List.mem_map.1 hm
  exact h (List.mem_map.2 ⟨w, (List.mem_filter.1 hw).1, e⟩)

theorem get_filter_none (p : Write → Bool) {g : Group} {s : Saved} (h : get g s = none) :
    get g (s.filter p) = none := by
  induction s with
  | nil => rfl
  | cons w t ih =>
    obtain ⟨k, v⟩ := w
    by_cases hk : k = g
    · simp [get, hk] at h
    · simp only [get, hk, if_false] at h
      by_cases hp : p (k, v) = true
      · simp [hp, get, hk, ih h]
      · simp [hp, ih h]

theorem get_filter_pos (p : Write → Bool) {g : Group} {r : List Req} {s : Saved} (h : get g s = some r)
    (hp : p (g, r) = true) : get g (s.filter p) = some r := by
  induction s with
  | nil => simp [get] at h
  | cons w t ih =>
    obtain ⟨k, v⟩ := w
    by_cases hk : k = g
    · subst hk
      simp only [get, if_true, Option.some.injEq] at h
      subst h
      simp [hp, get]
    · simp only [get, hk, if_false] at h
      by_cases hq : p (k, v) = true
      · simp [hq, get, hk, ih h]
      · simp [hq, ih h]

theorem get_filter_neg (p : Write → Bool) {g : Group} {r : List Req} {s : Saved} (hn : (keys s).Nodup)
    (h : get g s = some r) (hp : p (g, r) = false) : get g (s.filter p) = none := by
  induction s with
  | nil => simp [get] at h
  | cons w t ih =>
    obtain ⟨k, v⟩ := w
    simp only [keys, List.map_cons, List.nodup_cons] at hn
    by_cases hk : k = g
    · subst hk
      simp only [get, if_true, Option.some.injEq] at h
      subst h
      have hnot : k ∉ keys t := by simpa [keys] using hn.1
      simp only [List.filter_cons, hp, Bool.false_eq_true, if_false]
      exact get_none_of_not_mem (keys_filter_sub p t hnot)
    · simp only [get, hk, if_false] at h
      have iht := ih (by simpa [keys] using hn.2) h
      by_cases hq : p (k, v) = true
      · simp [hq, get, hk, iht]
      · simp [hq, iht]

/-- dropping entries by a predicate on the entry commutes with the flush (one entry per group) -/
theorem flush_filter (p : Write → Bool) : ∀ (o : List Group) (s : Saved), (keys s).Nodup →
    (flush o s).filter p = flush o (s.filter p)
  | [], _, _ => rfl
  | g :: gs, s, hn => by
    simp only [flush]
    cases hg : get g s with
    | none =>
      rw [get_filter_none p hg]
      exact flush_filter p gs s hn
    | some r =>
      have ih := flush_filter p gs (del g s) (nodup_del g hn)
      by_cases hp : p (g, r) = true
      · rw [get_filter_pos p hg hp]
        simp only [List.filter_cons, hp, if_true, ih, del_filter]
      · have hp' : p (g, r) = false := by simpa using hp
        rw [get_filter_neg p hn hg hp']
        simp only [List.filter_cons, hp', Bool.false_eq_true, if_false, ih]
        -- the only entry of `g` was dropped, so deleting `g` afterwards changes nothing
        rw [← del_filter]
        have : g ∉ keys (s.filter p) := by
          intro hm
          have := get_filter_neg p hn hg hp'
          obtain ⟨w, hw, e⟩ := List.mem_map.1 hm
          have hmem : (g, w.2) ∈ s.filter p := by
            have : w = (g, w.2) := by rw [← e]
            rw [← this]; exact hw
          have hnd : (keys (s.filter p)).Nodup := hn.sublist (List.filter_sublist.map _)
          rw [get_of_mem' hnd hmem] at this
          cases this
        rw [del_eq_self this]
where
  get_of_mem' {g : Group} {r : List Req} : ∀ {s : Saved}, (keys s).Nodup → (g, r) ∈ s → get g s = some r
    | [], _, h => by simp at h
    | (k, v) :: t, hn, h => by
      simp only [keys, List.map_cons, List.nodup_cons] at hn
      rcases List.mem_cons.1 h with h | h
      · simp only [Prod.mk.injEq] at h
        simp [get, h.1, h.2]
      · have hk : ¬ k = g := by
          intro e
          subst e
          exact hn.1 (List.mem_map.2 ⟨(k, r), h, rfl⟩)
        simp only [get, hk, if_false]
        exact get_of_mem' (by simpa [keys] using hn.2) h

theorem attempt_isEmpty_of_isEmpty (fails : Req → Bool) {r : List Req} (h : r.isEmpty = true) :
    (attempt fails r).isEmpty = true := by
  have : r = [] := by simpa using h
  subst this
  rfl

/-- the restricted run is in the state `clean` of the original run -/
structure FSim (fails : Req → Bool) (s v : LState) : Prop where
  en : v.enabled = s.enabled
  sv : v.saved = clean fails s.saved
  nd : (keys s.saved).Nodup

theorem fsim_step {fails : Req → Bool} {s v : LState} (h : FSim fails s v) (op : Op) :
    FSim fails (step s op).1 (step v (restrictOp fails op)).1 ∧
      visible (outcome fails (step s op).2) = visible (step v (restrictOp fails op)).2 := by
  obtain ⟨en, sv, nd⟩ := h
  cases op with
  | update g r =>
    simp only [restrictOp]
    by_cases he : s.enabled = true
    · have hv : v.enabled = true := by rw [en, he]
      simp only [step, he, hv, if_true]
      exact ⟨⟨en, sv, nd⟩, by simp [outcome, visible]⟩
    · have he' : s.enabled = false := by simpa using he
      have hv : v.enabled = false := by rw [en, he']
      by_cases hr : r.isEmpty = true
      · have hr' := attempt_isEmpty_of_isEmpty fails hr
        simp only [step, he', hv, hr, hr', if_true, Bool.false_eq_true, if_false]
        exact ⟨⟨by simp, by simp [sv, clean_del], nodup_del g nd⟩, by simp [outcome, visible]⟩
      · have hrf : r.isEmpty = false := by simpa using hr
        by_cases ha : (attempt fails r).isEmpty = true
        · simp only [step, he', hv, hrf, ha, if_true, Bool.false_eq_true, if_false]
          refine ⟨⟨by simp, ?_, nodup_put g r nd⟩, by simp [outcome, visible]⟩
          simp only [sv, put, clean, mapV, List.map_cons, List.filter_cons, ne, ha, Bool.not_true,
            Bool.false_eq_true, if_false]
          have := clean_del fails g s.saved
          simp only [clean, mapV] at this
          first
            | rw [this]
            | (simp only [ne] at this ⊢; rw [this])
        · have haf : (attempt fails r).isEmpty = false := by simpa using ha
          simp only [step, he', hv, hrf, haf, Bool.false_eq_true, if_false]
          refine ⟨⟨by simp, ?_, nodup_put g r nd⟩, by simp [outcome, visible]⟩
          simp only [sv, put, clean, mapV, List.map_cons, List.filter_cons, ne, haf, Bool.not_false, if_true]
          have := clean_del fails g s.saved
          simp only [clean, mapV] at this
          first
            | rw [this]
            | (simp only [ne] at this ⊢; rw [this])
  | enable o =>
    simp only [restrictOp]
    by_cases he : s.enabled = true
    · have hv : v.enabled = true := by rw [en, he]
      simp only [step, he, hv, if_true]
      exact ⟨⟨en, sv, nd⟩, by simp [outcome, visible]⟩
    · have he' : s.enabled = false := by simpa using he
      have hv : v.enabled = false := by rw [en, he']
      simp only [step, he', hv, Bool.false_eq_true, if_false]
      refine ⟨⟨rfl, by simp [clean, mapV], by simp [keys]⟩, ?_⟩
      simp only [outcome, visible, Out.writes.injEq]
      have h1 : (flush o s.saved).map (fun w => (w.1, attempt fails w.2)) = flush o (mapV (attempt fails) s.saved) := by
        rw [flush_mapV]; rfl
      have hnd : (keys (mapV (attempt fails) s.saved)).Nodup := by
        have : keys (mapV (attempt fails) s.saved) = keys s.saved := by simp [keys, mapV]
        rw [this]; exact nd
      rw [h1]
      show (flush o (mapV (attempt fails) s.saved)).filter ne = (flush o v.saved).filter ne
      have h2 := flush_filter ne o (mapV (attempt fails) s.saved) hnd
      rw [h2, sv]
      -- everything saved by the restricted run is non-empty already
      have : (flush o (clean fails s.saved)).filter ne = flush o (clean fails s.saved) := by
        have hnd' : (keys (clean fails s.saved)).Nodup := hnd.sublist (List.filter_sublist.map _)
        rw [flush_filter ne o _ hnd']
        simp [clean]
      rw [this]
      rfl

end NGF.Leader
