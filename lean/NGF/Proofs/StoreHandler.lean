/-
C01 — helper lemmas for the handler layer (`NGF.Model.StoreHandler`): `parseAndCaptureEvent` is
"`capture` iff the event is forwarded", a run through the handler is a run of the store machine whose watch
predicate is `watch ∧ forwards`, and `Sound` is inherited when what the handler swallows is invisible to the build.
-/
import NGF.Model.StoreHandler
import NGF.Proofs.Store

namespace NGF.Store

variable {K Key Obj C G : Type}

theorem parseAndCapture_fst (H : Handler K Key) (O : Ops K Key Obj C)
    (rel : Option G → Option Obj → Event K Key Obj → Bool) (p : Proc C G) (e : Event K Key Obj) :
    (parseAndCapture H O rel p e).1 = if H.forwards e then capture O rel p e else p := by
  obtain ⟨kind, key, obj, orc⟩ := e
  cases obj with
  | some o =>
    rcases hf : H.filters kind key with _ | f
    · simp [parseAndCapture, Handler.forwards, Handler.filterOf, hf]
    · cases hb : H.branches.upsertForwards f <;>
        simp [parseAndCapture, Handler.forwards, Handler.filterOf, hf, hb]
  | none =>
    rcases hf : H.filters kind key with _ | f
    · simp [parseAndCapture, Handler.forwards, Handler.filterOf, hf]
    · cases hb : H.branches.deleteForwards f <;>
        simp [parseAndCapture, Handler.forwards, Handler.filterOf, hf, hb]

theorem parseAndCapture_snd (H : Handler K Key) (O : Ops K Key Obj C)
    (rel : Option G → Option Obj → Event K Key Obj → Bool) (p : Proc C G) (e : Event K Key Obj) :
    (parseAndCapture H O rel p e).2 = H.callback e := by
  obtain ⟨kind, key, obj, orc⟩ := e
  cases obj with
  | some o =>
    rcases hf : H.filters kind key with _ | f
    · simp [parseAndCapture, Handler.callback, Handler.filterOf, hf]
    · cases hb : H.branches.upsertForwards f <;>
        simp [parseAndCapture, Handler.callback, Handler.filterOf, hf, hb]
  | none =>
    rcases hf : H.filters kind key with _ | f
    · simp [parseAndCapture, Handler.callback, Handler.filterOf, hf]
    · cases hb : H.branches.deleteForwards f <;>
        simp [parseAndCapture, Handler.callback, Handler.filterOf, hf, hb]

/-- One step through the handler = one step of the store machine with the watch predicate `watch ∧ forwards`. -/
theorem stepH_eq_step (H : Handler K Key) (O : Ops K Key Obj C) (build : C → G)
    (rel : Option G → Option Obj → Event K Key Obj → Bool) (watch : C → Event K Key Obj → Bool)
    (σ : Sim C G) (s : Step K Key Obj) :
    stepH H O build rel watch σ s = step O build rel (watchH H watch) σ s := by
  cases s with
  | cut => rfl
  | restart => rfl
  | mutate e =>
    simp only [stepH, step, watchH, parseAndCapture_fst]
    by_cases hw : watch σ.world e = true <;> by_cases hf : H.forwards e = true <;> simp [hw, hf]

theorem runH_eq_run (H : Handler K Key) (O : Ops K Key Obj C) (build : C → G)
    (rel : Option G → Option Obj → Event K Key Obj → Bool) (watch : C → Event K Key Obj → Bool) :
    ∀ (ss : List (Step K Key Obj)) (σ : Sim C G),
      runH H O build rel watch σ ss = run O build rel (watchH H watch) σ ss
  | [], _ => rfl
  | s :: ss, σ => by
      simp only [runH, run, stepH_eq_step]
      exact runH_eq_run H O build rel watch ss _

/-- What the handler may swallow: events that do not change what is built and keep the store a stand-in. -/
structure SwallowOK (H : Handler K Key) (O : Ops K Key Obj C) (build : C → G) (R : C → C → Prop)
    (adm : C → Event K Key Obj → Bool) : Prop where
  inert : ∀ t e, adm t e = true → H.forwards e = false → build (applyW O e t) = build t
  sim   : ∀ s t e, R s t → adm t e = true → H.forwards e = false → R (O.cache e s) (applyW O e t)

/-- `Sound` for the store machine is inherited by the machine behind the handler. -/
theorem sound_through_handler (H : Handler K Key) (O : Ops K Key Obj C) (build : C → G)
    (rel : Option G → Option Obj → Event K Key Obj → Bool) (watch : C → Event K Key Obj → Bool)
    (R : C → C → Prop) (adm : C → Event K Key Obj → Bool)
    (hs : Sound O build rel watch R adm) (hw : SwallowOK H O build R adm) :
    Sound O build rel (watchH H watch) R adm where
  refl := hs.refl
  build_eq := hs.build_eq
  sim_delivered s t e hR ha hd := by
    simp only [watchH, Bool.and_eq_true] at hd
    exact hs.sim_delivered s t e hR ha hd.1
  sim_filtered s t e hR ha hd := by
    simp only [watchH, Bool.and_eq_false_iff] at hd
    cases hf : H.forwards e with
    | false => exact hw.sim s t e hR ha hf
    | true =>
      rcases hd with h | h
      · exact hs.sim_filtered s t e hR ha h
      · rw [hf] at h; cases h
  watch_inert t e ha hd := by
    simp only [watchH, Bool.and_eq_false_iff] at hd
    cases hf : H.forwards e with
    | false => exact hw.inert t e ha hf
    | true =>
      rcases hd with h | h
      · exact hs.watch_inert t e ha h
      · rw [hf] at h; cases h
  rel_sound s t e hR ha hd hv := by
    simp only [watchH, Bool.and_eq_true] at hd
    exact hs.rel_sound s t e hR ha hd.1 hv

/-- What the handler keeps to itself is of kinds the cluster state has no component for (`store` and `cache` leave
the state alone — NginxGateway: no entry in `NewChangeProcessorImpl`, not read by `BuildGraph`): then it is invisible to
every build and every stand-in relation. -/
theorem swallowOK_of_untracked (H : Handler K Key) (O : Ops K Key Obj C) (build : C → G) (R : C → C → Prop)
    (adm : C → Event K Key Obj → Bool)
    (hu : ∀ (e : Event K Key Obj) (c : C), H.forwards e = false → O.store e c = c ∧ O.cache e c = c) :
    SwallowOK H O build R adm where
  inert t e _ hf := by
    have h1 := (hu e t hf).2
    have h2 := (hu e t hf).1
    simp only [applyW, h1, h2]
  sim s t e hR _ hf := by
    have h1 := (hu e s hf).2
    have h2 := (hu e t hf).2
    have h3 := (hu e t hf).1
    simpa only [applyW, h1, h2, h3] using hR

/-- A handler whose filters all capture forwards everything. -/
theorem forwards_of_all_capture (H : Handler K Key) (hb : H.branches = treeBranches)
    (hall : ∀ k key f, H.filters k key = some f → f.captureChangeInGraph = true) (e : Event K Key Obj) :
    H.forwards e = true := by
  simp only [Handler.forwards, Handler.filterOf]
  cases hf : H.filters e.kind e.key with
  | none => rfl
  | some f =>
    have := hall _ _ _ hf
    cases e.obj <;> simp [hb, treeBranches, this]

end NGF.Store
