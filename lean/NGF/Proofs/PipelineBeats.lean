/-
C02 refinement proof, part 4: the specification's precedence `beats` (HTTPRouteRule.matches) is a strict weak order
(`beats_swo`) that splits into path rank (Exact first, longer value), then `higherPriority` of the dataplane key — the
order `sortMatchRules` sorts by —, then source position (rule index, match index) (`beats_split`); `best` returns an
element no other beats (`best_spec`); candidates neither of which beats the other come from the same rule of the same
route and carry the same action (`beats_incomp`, `action_of_identity`).
-/
import NGF.Proofs.PipelineBase
import NGF.Proofs.Precedence

namespace NGF.Pipeline
open NGF.Precedence
open NGF.Sort (SWO)

theorem bytes_inj {a b : Str} (h : bytes a = bytes b) : a = b := by
  unfold bytes at h
  induction a generalizing b with
  | nil => cases b <;> simp_all
  | cons x xs ih =>
    cases b with
    | nil => simp at h
    | cons y ys =>
      simp only [List.map_cons, List.cons.injEq] at h
      have hxy : x = y := Char.ext (UInt32.toNat_inj.mp h.1)
      rw [hxy, ih h.2]

/-! ### the levels of a Go-style comparison chain, in `lexLt` form -/

theorem lvlBool (p q rest : Bool) :
    (if p != q then p else rest) =
      (decide ((if p then (0 : Int) else 1) < (if q then 0 else 1)) ||
        (!decide ((if q then (0 : Int) else 1) < (if p then 0 else 1)) && rest)) := by
  cases p <;> cases q <;> simp

theorem lvlGt (x y : Nat) (rest : Bool) :
    (if x != y then decide (x > y) else rest) =
      (decide (-(x : Int) < -(y : Int)) || (!decide (-(y : Int) < -(x : Int)) && rest)) := by
  rcases Nat.lt_trichotomy x y with h | h | h
  · have h1 : (x != y) = true := by simp; omega
    have h2 : ¬ x > y := by omega
    have h3 : ¬ (-(x : Int) < -(y : Int)) := by omega
    have h4 : (-(y : Int) < -(x : Int)) := by omega
    simp [h1, h2, h3, h4]
  · subst h; simp
  · have h1 : (x != y) = true := by simp; omega
    have h3 : (-(x : Int) < -(y : Int)) := by omega
    simp [h1, h, h3]

theorem lvlLt (x y : Nat) (rest : Bool) :
    (if x != y then decide (x < y) else rest) =
      (decide ((x : Int) < (y : Int)) || (!decide ((y : Int) < (x : Int)) && rest)) := by
  rcases Nat.lt_trichotomy x y with h | h | h
  · have h1 : (x != y) = true := by simp; omega
    have h3 : ((x : Int) < (y : Int)) := by omega
    simp [h1, h, h3]
  · subst h; simp
  · have h1 : (x != y) = true := by simp; omega
    have h2 : ¬ x < y := by omega
    have h3 : ¬ ((x : Int) < (y : Int)) := by omega
    have h4 : ((y : Int) < (x : Int)) := by omega
    simp [h1, h2, h3, h4]

/-! ### `beats` below the path rank = `higherPriority` of the key, then source position -/

def HP (a b : Cand) : Bool := higherPriority (keyC a) (keyC b)

def idxLt (a b : Cand) : Bool :=
  if a.ruleIdx != b.ruleIdx then a.ruleIdx < b.ruleIdx else a.matchIdx < b.matchIdx

/-- `higherPriority` on explicit fields -/
def hpA (ma mb : Bool) (ha hb qa qb : Nat) (ga gb : Int) (na nb ea eb : List Nat) : Bool :=
  higherPriority ⟨ma, ha, qa, ga, na, ea, 0⟩ ⟨mb, hb, qb, gb, nb, eb, 0⟩

theorem HP_eq (a b : Cand) :
    HP a b = hpA (!a.m.method.isEmpty) (!b.m.method.isEmpty) a.m.headers.length b.m.headers.length
      a.m.query.length b.m.query.length a.age b.age (bytes a.ns) (bytes b.ns) (bytes a.name) (bytes b.name) := rfl

/-- the object-meta levels (age, namespace, name) -/
theorem meta_abs (ga gb : Int) (na nb ea eb : Str) (I : Bool) :
    (if ga != gb then decide (ga < gb)
     else if na != nb then lexLt (bytes na) (bytes nb)
     else if ea != eb then lexLt (bytes ea) (bytes eb) else I) =
    ((if ga == gb then (if bytes na == bytes nb then lexLt (bytes ea) (bytes eb) else lexLt (bytes na) (bytes nb))
      else decide (ga < gb)) ||
     (!(if gb == ga then (if bytes nb == bytes na then lexLt (bytes eb) (bytes ea) else lexLt (bytes nb) (bytes na))
        else decide (gb < ga)) && I)) := by
  by_cases hg : ga = gb
  · subst hg
    simp only [bne_self_eq_false, Bool.false_eq_true, ↓reduceIte, beq_self_eq_true]
    by_cases hn : na = nb
    · subst hn
      simp only [bne_self_eq_false, Bool.false_eq_true, ↓reduceIte, beq_self_eq_true]
      by_cases he : ea = eb
      · subst he; simp [lexLt_irrefl]
      · have h1 : (ea != eb) = true := by simpa using he
        have hb : bytes ea ≠ bytes eb := fun e => he (bytes_inj e)
        rcases lexLt_tri (bytes ea) (bytes eb) with t | t | t
        · simp [h1, t]
        · exact absurd t hb
        · have := lexLt_swo.asymm _ _ t
          simp [h1, t, this]
    · have h1 : (na != nb) = true := by simpa using hn
      have hb : bytes na ≠ bytes nb := fun e => hn (bytes_inj e)
      have h2 : (bytes na == bytes nb) = false := by simpa using hb
      have h3 : (bytes nb == bytes na) = false := by simpa using fun e : bytes nb = bytes na => hb e.symm
      rcases lexLt_tri (bytes na) (bytes nb) with t | t | t
      · simp [h1, h2, h3, t]
      · exact absurd t hb
      · have := lexLt_swo.asymm _ _ t
        simp [h1, h2, h3, t, this]
  · have h1 : (ga != gb) = true := by simpa using hg
    have h2 : (ga == gb) = false := by simpa using hg
    have h3 : (gb == ga) = false := by simpa using fun e : gb = ga => hg e.symm
    by_cases hlt : ga < gb
    · simp [h1, h2, h3, hlt]
    · have : gb < ga := by omega
      simp [h1, h2, h3, hlt, this]

/-- the condition levels (method, header count, query count) above an arbitrary rest -/
theorem conds_abs (ma mb : Bool) (ha hb qa qb : Nat) (Lab Lba I : Bool) :
    (if ma != mb then ma
     else if ha != hb then decide (ha > hb)
     else if qa != qb then decide (qa > qb) else (Lab || (!Lba && I))) =
    ((if (ma && !mb) = true then true else if (mb && !ma) = true then false
      else if ha != hb then decide (ha > hb) else if qa != qb then decide (qa > qb) else Lab) ||
     (!(if (mb && !ma) = true then true else if (ma && !mb) = true then false
        else if hb != ha then decide (hb > ha) else if qb != qa then decide (qb > qa) else Lba) && I)) := by
  cases ma <;> cases mb <;> simp only [bne_self_eq_false, Bool.false_eq_true, ↓reduceIte, Bool.not_true,
      Bool.not_false, Bool.and_false, Bool.and_true, Bool.and_self, Bool.true_or, Bool.false_or, Bool.false_and,
      Bool.true_and, Bool.bne_true, Bool.bne_false]
  all_goals
    rcases Nat.lt_trichotomy ha hb with h | h | h
    · have h1 : (ha != hb) = true := by simp; omega
      have h1' : (hb != ha) = true := by simp; omega
      have h2 : ¬ ha > hb := by omega
      simp [h1, h1', h2, h]
    · subst h
      simp only [bne_self_eq_false, Bool.false_eq_true, ↓reduceIte]
      rcases Nat.lt_trichotomy qa qb with h | h | h
      · have h1 : (qa != qb) = true := by simp; omega
        have h1' : (qb != qa) = true := by simp; omega
        have h2 : ¬ qa > qb := by omega
        simp [h1, h1', h2, h]
      · subst h; simp
      · have h1 : (qa != qb) = true := by simp; omega
        have h1' : (qb != qa) = true := by simp; omega
        have h2 : ¬ qb > qa := by omega
        simp [h1, h1', h2, h]
    · have h1 : (ha != hb) = true := by simp; omega
      have h1' : (hb != ha) = true := by simp; omega
      have h2 : ¬ hb > ha := by omega
      simp [h1, h1', h2, h]

theorem tail_abs (ma mb : Bool) (ha hb qa qb : Nat) (ga gb : Int) (na nb ea eb : Str) (I : Bool) :
    (if ma != mb then ma
     else if ha != hb then decide (ha > hb)
     else if qa != qb then decide (qa > qb)
     else if ga != gb then decide (ga < gb)
     else if na != nb then lexLt (bytes na) (bytes nb)
     else if ea != eb then lexLt (bytes ea) (bytes eb) else I) =
    (hpA ma mb ha hb qa qb ga gb (bytes na) (bytes nb) (bytes ea) (bytes eb) ||
      (!hpA mb ma hb ha qb qa gb ga (bytes nb) (bytes na) (bytes eb) (bytes ea) && I)) := by
  rw [meta_abs, conds_abs]
  rfl

/-- `beats`: path rank first (Exact, then the longer value), then `higherPriority` of the key, then source position -/
theorem beats_split (a b : Cand) :
    beats a b =
      (if a.m.exact != b.m.exact then a.m.exact
       else if a.m.path.length != b.m.path.length then decide (a.m.path.length > b.m.path.length)
       else (HP a b || (!HP b a && idxLt a b))) := by
  rw [HP_eq, HP_eq, ← tail_abs]
  rfl

/-! ### strict weak order -/

def L1 (a b : Cand) : Bool := decide ((if a.m.exact then (0 : Int) else 1) < (if b.m.exact then 0 else 1))
def L2 (a b : Cand) : Bool := decide (-(a.m.path.length : Int) < -(b.m.path.length : Int))
def I1 (a b : Cand) : Bool := decide ((a.ruleIdx : Int) < (b.ruleIdx : Int))
def I2 (a b : Cand) : Bool := decide ((a.matchIdx : Int) < (b.matchIdx : Int))

theorem idxLt_eq (a b : Cand) : idxLt a b = NGF.Sort.lexLt I1 I2 a b := by
  unfold idxLt NGF.Sort.lexLt I1 I2
  rw [lvlLt]
  rcases Nat.lt_trichotomy a.matchIdx b.matchIdx with h | h | h
  · have : ((a.matchIdx : Int) < (b.matchIdx : Int)) := by omega
    simp [h, this]
  · simp [h]
  · have h2 : ¬ a.matchIdx < b.matchIdx := by omega
    have : ¬ ((a.matchIdx : Int) < (b.matchIdx : Int)) := by omega
    simp [h2, this]

theorem beats_chain (a b : Cand) :
    beats a b = NGF.Sort.lexLt L1 (NGF.Sort.lexLt L2 (NGF.Sort.lexLt HP (NGF.Sort.lexLt I1 I2))) a b := by
  rw [beats_split, lvlBool, lvlGt, idxLt_eq]
  rfl

theorem beats_swo : SWO beats := by
  have : beats = NGF.Sort.lexLt L1 (NGF.Sort.lexLt L2 (NGF.Sort.lexLt HP (NGF.Sort.lexLt I1 I2))) :=
    funext fun a => funext fun b => beats_chain a b
  rw [this]
  exact SWO.lex (SWO.ofMeasure _) (SWO.lex (SWO.ofMeasure _)
    (SWO.lex (SWO.comap keyC higherPriority_swo) (SWO.lex (SWO.ofMeasure _) (SWO.ofMeasure _))))

theorem lex_incomp {α} {lt1 lt2 : α → α → Bool} {a b : α}
    (h1 : NGF.Sort.lexLt lt1 lt2 a b = false) (h2 : NGF.Sort.lexLt lt1 lt2 b a = false) :
    lt1 a b = false ∧ lt1 b a = false ∧ lt2 a b = false ∧ lt2 b a = false := by
  unfold NGF.Sort.lexLt at h1 h2
  cases hab : lt1 a b <;> cases hba : lt1 b a <;> simp_all

/-- keys that tie for `higherPriority` belong to the same route -/
theorem HP_incomp {a b : Cand} (p1 : HP a b = false) (p2 : HP b a = false) : a.ns = b.ns ∧ a.name = b.name := by
  simp only [HP, higherPriority_eq_chain, chain] at p1 p2
  obtain ⟨_, _, p1, p2⟩ := lex_incomp p1 p2
  obtain ⟨_, _, p1, p2⟩ := lex_incomp p1 p2
  obtain ⟨_, _, p1, p2⟩ := lex_incomp p1 p2
  obtain ⟨_, _, p1, p2⟩ := lex_incomp p1 p2
  obtain ⟨n1, n2, e1, e2⟩ := lex_incomp p1 p2
  simp only [ltNs, ltName, keyC] at n1 n2 e1 e2
  refine ⟨?_, ?_⟩
  · rcases lexLt_tri (bytes a.ns) (bytes b.ns) with t | t | t
    · rw [t] at n1; cases n1
    · exact bytes_inj t
    · rw [t] at n2; cases n2
  · rcases lexLt_tri (bytes a.name) (bytes b.name) with t | t | t
    · rw [t] at e1; cases e1
    · exact bytes_inj t
    · rw [t] at e2; cases e2

/-- candidates neither of which beats the other: same route, same rule, same match position -/
theorem beats_incomp {a b : Cand} (h1 : beats a b = false) (h2 : beats b a = false) :
    a.ns = b.ns ∧ a.name = b.name ∧ a.ruleIdx = b.ruleIdx ∧ a.matchIdx = b.matchIdx := by
  rw [beats_chain] at h1 h2
  obtain ⟨_, _, h1, h2⟩ := lex_incomp h1 h2
  obtain ⟨_, _, h1, h2⟩ := lex_incomp h1 h2
  obtain ⟨p1, p2, h1, h2⟩ := lex_incomp h1 h2
  obtain ⟨r1, r2, m1, m2⟩ := lex_incomp h1 h2
  simp only [I1, I2, decide_eq_false_iff_not] at r1 r2 m1 m2
  obtain ⟨hns, hname⟩ := HP_incomp p1 p2
  exact ⟨hns, hname, by omega, by omega⟩

/-! ### `best` -/

theorem best_eq_none {l : List Cand} : best l = none ↔ l = [] := by
  cases l with
  | nil => simp [best]
  | cons c cs =>
    simp only [best, reduceCtorEq, iff_false]
    cases best cs with
    | none => simp
    | some b => by_cases h : beats b c = true <;> simp [h]

/-- `best` returns a member no other member beats -/
theorem best_spec : ∀ {l : List Cand} {c : Cand}, best l = some c → c ∈ l ∧ ∀ d ∈ l, beats d c = false
  | [], c, h => by simp [best] at h
  | x :: xs, c, h => by
    unfold best at h
    cases hb : best xs with
    | none =>
      rw [hb] at h
      simp only [Option.some.injEq] at h; subst h
      have : xs = [] := best_eq_none.mp hb
      subst this
      exact ⟨List.mem_cons_self, by intro d hd; simp at hd; subst hd; exact beats_swo.irrefl _⟩
    | some b =>
      rw [hb] at h
      obtain ⟨hbm, hbmax⟩ := best_spec hb
      by_cases hbx : beats b x = true
      · simp only [hbx, ↓reduceIte, Option.some.injEq] at h; subst h
        refine ⟨List.mem_cons_of_mem _ hbm, ?_⟩
        intro d hd
        rcases List.mem_cons.mp hd with rfl | hd'
        · exact beats_swo.asymm _ _ hbx
        · exact hbmax d hd'
      · have hbx' : beats b x = false := Bool.eq_false_iff.mpr hbx
        simp only [hbx', Bool.false_eq_true, ↓reduceIte, Option.some.injEq] at h; subst h
        refine ⟨List.mem_cons_self, ?_⟩
        intro d hd
        rcases List.mem_cons.mp hd with rfl | hd'
        · exact beats_swo.irrefl _
        · cases hdx : beats d x with
          | false => rfl
          | true =>
            rcases beats_swo.negtrans d b x hdx with t | t
            · rw [hbmax d hd'] at t; cases t
            · rw [hbx'] at t; cases t

/-! ### same identity, same action -/

theorem action_of_identity {g : Gateway} {routes : List Route} {p p' : Nat}
    (ids : nodup (routes.map fun r => (r.ns, r.name)) = true) {c d : Cand}
    (hc : c ∈ specCands g routes p) (hd : d ∈ specCands g routes p')
    (hns : c.ns = d.ns) (hname : c.name = d.name) (hidx : c.ruleIdx = d.ruleIdx) : c.action = d.action := by
  obtain ⟨l, _, _, r, hr, _, _, _, rh, _, ir, hir, jm, _, rfl⟩ := mem_specCands.mp hc
  obtain ⟨l', _, _, r', hr', _, _, _, rh', _, ir', hir', jm', _, rfl⟩ := mem_specCands.mp hd
  simp only [mkCand] at hns hname hidx ⊢
  have hrr : r = r' := nodup_map_inj ids hr hr' (by simp [hns, hname])
  subst hrr
  obtain ⟨i, rule⟩ := ir
  obtain ⟨i', rule'⟩ := ir'
  simp only at hidx
  subst hidx
  rw [enumFrom_fun hir hir']

end NGF.Pipeline
