/-
Expected source text of the functions that `NGF.Model.StatusPrep` / `NGF.Model.HandlerStatus` mirror (hand-pinned copy; the
theorems `facts_*` of `NGF.Props.C07` compare the text regenerated from /repo on every run with these).
-/
namespace NGF.StatusPrep.Expected

def prepareRouteStatusBody : List String :=
  ["parents := make([]v1.RouteParentStatus, 0, len(parentRefs))",
   "defaultConds := staticConds.NewDefaultRouteConditions()",
   "for _, ref := range parentRefs { failedAttachmentCondCount := 0 if ref.Attachment != nil && !ref.Attachment.Attached { failedAttachmentCondCount = 1 } allConds := make([]conditions.Condition, 0, len(conds)+len(defaultConds)+failedAttachmentCondCount) allConds = append(allConds, defaultConds...) allConds = append(allConds, conds...) if failedAttachmentCondCount == 1 { allConds = append(allConds, ref.Attachment.FailedCondition) } if nginxReloadRes.Error != nil { allConds = append( allConds, staticConds.NewRouteGatewayNotProgrammed(staticConds.RouteMessageFailedNginxReload), ) } conds := conditions.DeduplicateConditions(allConds) apiConds := conditions.ConvertConditions(conds, srcGeneration, transitionTime) ps := v1.RouteParentStatus{ ParentRef: v1.ParentReference{ Namespace: helpers.GetPointer(v1.Namespace(ref.Gateway.Namespace)), Name: v1.ObjectName(ref.Gateway.Name), SectionName: ref.SectionName, }, ControllerName: v1.GatewayController(gatewayCtlrName), Conditions: apiConds, } parents = append(parents, ps) }",
   "return v1.RouteStatus{Parents: parents}"]

def prepareGatewayRequestBody : List String :=
  ["if !gateway.Valid { conds := conditions.ConvertConditions( conditions.DeduplicateConditions(gateway.Conditions), gateway.Source.Generation, transitionTime, ) return frameworkStatus.UpdateRequest{ NsName: client.ObjectKeyFromObject(gateway.Source), ResourceType: &v1.Gateway{}, Setter: newGatewayStatusSetter(v1.GatewayStatus{ Conditions: conds, }), } }",
   "listenerStatuses := make([]v1.ListenerStatus, 0, len(gateway.Listeners))",
   "validListenerCount := 0",
   "for _, l := range gateway.Listeners { var conds []conditions.Condition if l.Valid { conds = staticConds.NewDefaultListenerConditions() validListenerCount++ } else { conds = l.Conditions } if nginxReloadRes.Error != nil { conds = append( conds, staticConds.NewListenerNotProgrammedInvalid(staticConds.ListenerMessageFailedNginxReload), ) } apiConds := conditions.ConvertConditions( conditions.DeduplicateConditions(conds), gateway.Source.Generation, transitionTime, ) listenerStatuses = append(listenerStatuses, v1.ListenerStatus{ Name: v1.SectionName(l.Name), SupportedKinds: l.SupportedKinds, AttachedRoutes: int32(len(l.Routes)) + int32(len(l.L4Routes)), Conditions: apiConds, }) }",
   "gwConds := staticConds.NewDefaultGatewayConditions()",
   "if validListenerCount == 0 { gwConds = append(gwConds, staticConds.NewGatewayNotAcceptedListenersNotValid()...) } else if validListenerCount < len(gateway.Listeners) { gwConds = append(gwConds, staticConds.NewGatewayAcceptedListenersNotValid()) }",
   "if nginxReloadRes.Error != nil { gwConds = append( gwConds, staticConds.NewGatewayNotProgrammedInvalid(staticConds.GatewayMessageFailedNginxReload), ) }",
   "apiGwConds := conditions.ConvertConditions( conditions.DeduplicateConditions(gwConds), gateway.Source.Generation, transitionTime, )",
   "return frameworkStatus.UpdateRequest{ NsName: client.ObjectKeyFromObject(gateway.Source), ResourceType: &v1.Gateway{}, Setter: newGatewayStatusSetter(v1.GatewayStatus{ Listeners: listenerStatuses, Conditions: apiGwConds, Addresses: gwAddresses, }), }"]

def prepareGatewayRequestsBody : List String :=
  ["reqs := make([]frameworkStatus.UpdateRequest, 0, 1+len(ignoredGateways))",
   "if gateway != nil { reqs = append(reqs, prepareGatewayRequest(gateway, transitionTime, gwAddresses, nginxReloadRes)) }",
   "for nsname, gw := range ignoredGateways { apiConds := conditions.ConvertConditions(staticConds.NewGatewayConflict(), gw.Generation, transitionTime) reqs = append(reqs, frameworkStatus.UpdateRequest{ NsName: nsname, ResourceType: &v1.Gateway{}, Setter: newGatewayStatusSetter(v1.GatewayStatus{ Conditions: apiConds, }), }) }",
   "return reqs"]

def prepareNGFPolicyRequestsBody : List String :=
  ["reqs := make([]frameworkStatus.UpdateRequest, 0, len(policies))",
   "for key, pol := range policies { ancestorStatuses := make([]v1alpha2.PolicyAncestorStatus, 0, len(pol.TargetRefs)) if len(pol.Ancestors) == 0 { continue } for _, ancestor := range pol.Ancestors { allConds := make([]conditions.Condition, 0, len(pol.Conditions)+len(ancestor.Conditions)+1) allConds = append(allConds, staticConds.NewPolicyAccepted()) allConds = append(allConds, ancestor.Conditions...) allConds = append(allConds, pol.Conditions...) conds := conditions.DeduplicateConditions(allConds) apiConds := conditions.ConvertConditions(conds, pol.Source.GetGeneration(), transitionTime) ancestorStatuses = append(ancestorStatuses, v1alpha2.PolicyAncestorStatus{ AncestorRef: ancestor.Ancestor, ControllerName: v1alpha2.GatewayController(gatewayCtlrName), Conditions: apiConds, }) } status := v1alpha2.PolicyStatus{Ancestors: ancestorStatuses} reqs = append(reqs, frameworkStatus.UpdateRequest{ NsName: key.NsName, ResourceType: pol.Source, Setter: newNGFPolicyStatusSetter(status, gatewayCtlrName), }) }",
   "return reqs"]

def prepareBackendTLSPolicyRequestsBody : List String :=
  ["reqs := make([]frameworkStatus.UpdateRequest, 0, len(policies))",
   "for nsname, pol := range policies { if !pol.IsReferenced || pol.Ignored { continue } conds := conditions.DeduplicateConditions(pol.Conditions) apiConds := conditions.ConvertConditions(conds, pol.Source.Generation, transitionTime) status := v1alpha2.PolicyStatus{ Ancestors: []v1alpha2.PolicyAncestorStatus{ { AncestorRef: v1.ParentReference{ Namespace: (*v1.Namespace)(&pol.Gateway.Namespace), Name: v1alpha2.ObjectName(pol.Gateway.Name), Group: helpers.GetPointer[v1.Group](v1.GroupName), Kind: helpers.GetPointer[v1.Kind](kinds.Gateway), }, ControllerName: v1alpha2.GatewayController(gatewayCtlrName), Conditions: apiConds, }, }, } reqs = append(reqs, frameworkStatus.UpdateRequest{ NsName: nsname, ResourceType: &v1alpha3.BackendTLSPolicy{}, Setter: newBackendTLSPolicyStatusSetter(status, gatewayCtlrName), }) }",
   "return reqs"]

def deduplicateConditionsBody : List String :=
  ["type elem struct { cond Condition reverseIdx int }",
   "uniqueElems := make(map[string]elem)",
   "idx := 0",
   "for i := len(conds) - 1; i >= 0; i-- { if _, exist := uniqueElems[conds[i].Type]; exist { continue } uniqueElems[conds[i].Type] = elem{ cond: conds[i], reverseIdx: idx, } idx++ }",
   "result := make([]Condition, len(uniqueElems))",
   "for _, el := range uniqueElems { result[len(result)-el.reverseIdx-1] = el.cond }",
   "return result"]

def convertConditionsBody : List String :=
  ["apiConds := make([]metav1.Condition, len(conds))",
   "for i := range conds { apiConds[i] = metav1.Condition{ Type: conds[i].Type, Status: conds[i].Status, ObservedGeneration: observedGeneration, LastTransitionTime: transitionTime, Reason: conds[i].Reason, Message: conds[i].Message, } }",
   "return apiConds"]

def reloadErrorBranches : List String :=
  ["prepareRouteStatus: if nginxReloadRes.Error != nil { allConds = append( allConds, staticConds.NewRouteGatewayNotProgrammed(staticConds.RouteMessageFailedNginxReload), ) }",
   "prepareGatewayRequest: if nginxReloadRes.Error != nil { conds = append( conds, staticConds.NewListenerNotProgrammedInvalid(staticConds.ListenerMessageFailedNginxReload), ) }",
   "prepareGatewayRequest: if nginxReloadRes.Error != nil { gwConds = append( gwConds, staticConds.NewGatewayNotProgrammedInvalid(staticConds.GatewayMessageFailedNginxReload), ) }"]

def prepareRouteStatusCalls : List String :=
  ["prepareRouteStatus( gatewayCtlrName, r.ParentRefs, r.Conditions, nginxReloadRes, transitionTime, r.Source.GetGeneration(), )",
   "prepareRouteStatus( gatewayCtlrName, r.ParentRefs, r.Conditions, nginxReloadRes, transitionTime, r.Source.GetGeneration(), )"]

def handleEventBatchBody : List String :=
  ["start := time.Now()",
   "logger.V(1).Info(\"Started processing event batch\")",
   "defer func() { duration := time.Since(start) logger.V(1).Info( \"Finished processing event batch\", \"duration\", duration.String(), ) h.cfg.metricsCollector.ObserveLastEventBatchProcessTime(duration) }()",
   "for _, event := range batch { h.parseAndCaptureEvent(ctx, logger, event) }",
   "changeType, gr := h.cfg.processor.Process()",
   "var err error",
   "switch changeType { case state.NoChange: logger.Info(\"Handling events didn't result into NGINX configuration changes\") if !h.cfg.nginxConfiguredOnStartChecker.ready && h.cfg.nginxConfiguredOnStartChecker.firstBatchError == nil { h.cfg.nginxConfiguredOnStartChecker.setAsReady() } return case state.EndpointsOnlyChange: h.version++ cfg := dataplane.BuildConfiguration(ctx, gr, h.cfg.serviceResolver, h.version) depCtx, getErr := h.getDeploymentContext(ctx) if getErr != nil { logger.Error(getErr, \"error getting deployment context for usage reporting\") } cfg.DeploymentContext = depCtx h.setLatestConfiguration(&cfg) if h.cfg.plus && h.latestReloadResult.Error == nil { err = h.updateUpstreamServers(cfg) } else { err = h.updateNginxConf(ctx, cfg) } case state.ClusterStateChange: h.version++ cfg := dataplane.BuildConfiguration(ctx, gr, h.cfg.serviceResolver, h.version) depCtx, getErr := h.getDeploymentContext(ctx) if getErr != nil { logger.Error(getErr, \"error getting deployment context for usage reporting\") } cfg.DeploymentContext = depCtx h.setLatestConfiguration(&cfg) err = h.updateNginxConf(ctx, cfg) }",
   "var nginxReloadRes status.NginxReloadResult",
   "if err != nil { logger.Error(err, \"Failed to update NGINX configuration\") nginxReloadRes.Error = err if !h.cfg.nginxConfiguredOnStartChecker.ready { h.cfg.nginxConfiguredOnStartChecker.firstBatchError = err } } else { logger.Info(\"NGINX configuration was successfully updated\") if !h.cfg.nginxConfiguredOnStartChecker.ready { h.cfg.nginxConfiguredOnStartChecker.setAsReady() } }",
   "h.latestReloadResult = nginxReloadRes",
   "h.updateStatuses(ctx, logger, gr)"]

def updateNginxConfBody : List String :=
  ["files := h.cfg.generator.Generate(conf)",
   "if err := h.cfg.nginxFileMgr.ReplaceFiles(files); err != nil { return fmt.Errorf(\"failed to replace NGINX configuration files: %w\", err) }",
   "if err := h.cfg.nginxRuntimeMgr.Reload(ctx, conf.Version); err != nil { return fmt.Errorf(\"failed to reload NGINX: %w\", err) }",
   "if err := h.updateUpstreamServers(conf); err != nil { return fmt.Errorf(\"failed to update upstream servers: %w\", err) }",
   "return nil"]

end NGF.StatusPrep.Expected
