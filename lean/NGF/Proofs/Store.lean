/-
C01 — helper lemmas and the invariant proof for the change-tracking store model (`NGF.Model.Store`).
-/
import NGF.Model.Store

namespace NGF.Store

variable {K Key Obj C G : Type}

theorem setCT_none {ct : ChangeType} {ep v : Bool} (h : setCT ct ep v = .none) :
    ct = .none ∧ v = false := by
  unfold setCT at h
  cases v <;> cases ct <;> cases ep <;> simp_all

theorem setCT_unchanged (ct : ChangeType) (ep : Bool) : setCT ct ep false = ct := by
  simp [setCT]

theorem setCT_cluster (ep v : Bool) : setCT .cluster ep v = .cluster := by
  cases v <;> simp [setCT]

/-- The change type only grows within a batch (`none < endpoints < cluster`). -/
theorem setCT_mono (ct : ChangeType) (ep v : Bool) : ct.toNat ≤ (setCT ct ep v).toNat := by
  cases ct <;> cases ep <;> cases v <;> simp [setCT, ChangeType.toNat]

/-- The hypotheses under which the controller converges (see `NGF.Props.C01`).
`adm t e`: the mutations the statement is about (`fun _ _ => true` for the full-strength statement;
a decidable exclusion for a `_partial` one). -/
structure Sound (O : Ops K Key Obj C) (build : C → G)
    (rel : Option G → Option Obj → Event K Key Obj → Bool) (watch : C → Event K Key Obj → Bool)
    (R : C → C → Prop) (adm : C → Event K Key Obj → Bool) : Prop where
  /-- a complete start-up listing makes the store the cluster -/
  refl : ∀ c, R c c
  /-- `R s t`: the (possibly stale) store `s` stands in for the cluster `t` -/
  build_eq : ∀ s t, R s t → build s = build t
  /-- delivered events keep the store a stand-in for the cluster -/
  sim_delivered : ∀ s t e, R s t → adm t e = true → watch t e = true →
    R (storeAfter O (O.cache e s) e) (applyW O e t)
  /-- a mutation suppressed by the watch predicates leaves the (then stale) store a stand-in -/
  sim_filtered : ∀ s t e, R s t → adm t e = true → watch t e = false → R (O.cache e s) (applyW O e t)
  /-- a mutation suppressed by the watch predicates does not change what a fresh controller derives -/
  watch_inert : ∀ t e, adm t e = true → watch t e = false → build (applyW O e t) = build t
  /-- an event judged irrelevant against the graph built from the store does not change what is
  built from the store (and the cache) after it -/
  rel_sound : ∀ s t e, R s t → adm t e = true → watch t e = true →
    verdict O rel (some (build s)) (O.cache e s) e = false →
    build (storeAfter O (O.cache e s) e) = build s

/-- Every mutation of the history is admissible in the cluster it happens in. -/
def Admissible (O : Ops K Key Obj C) (adm : C → Event K Key Obj → Bool) : C → List (Step K Key Obj) → Prop
  | _, [] => True
  | w, .mutate e :: ss => adm w e = true ∧ Admissible O adm (applyW O e w) ss
  | w, _ :: ss => Admissible O adm w ss

theorem admissible_true (O : Ops K Key Obj C) :
    ∀ (ss : List (Step K Key Obj)) (w : C), Admissible O (fun _ _ => true) w ss
  | [], _ => trivial
  | .mutate _ :: ss, _ => ⟨rfl, admissible_true O ss _⟩
  | .cut :: ss, w => admissible_true O ss w
  | .restart :: ss, w => admissible_true O ss w

/-- The invariant of the induction over the history. -/
structure Inv (build : C → G) (R : C → C → Prop) (σ : Sim C G) : Prop where
  sim     : R σ.proc.store σ.world
  latest  : σ.proc.latest = σ.applied
  drained : σ.proc.ct = .none → σ.applied = some (build σ.world)

theorem inv_start (O : Ops K Key Obj C) {build : C → G} {rel watch} {R : C → C → Prop} {adm}
    (hs : Sound O build rel watch R adm) (w : C) : Inv build R (start build w) :=
  ⟨hs.refl w, rfl, fun _ => rfl⟩

theorem inv_step (O : Ops K Key Obj C) {build : C → G} {rel watch} {R : C → C → Prop} {adm}
    (hs : Sound O build rel watch R adm) {σ : Sim C G} (hi : Inv build R σ) (s : Step K Key Obj)
    (ha : ∀ e, s = .mutate e → adm σ.world e = true) :
    Inv build R (step O build rel watch σ s) := by
  obtain ⟨hsim, hlat, hdr⟩ := hi
  cases s with
  | restart => exact inv_start O hs σ.world
  | cut =>
    simp only [step, process]
    by_cases hct : σ.proc.ct = .none
    · simp only [hct, if_true]
      exact ⟨hsim, hlat, fun _ => hdr hct⟩
    · simp only [hct, if_false]
      refine ⟨hsim, rfl, fun _ => ?_⟩
      simp [hs.build_eq _ _ hsim]
  | mutate e =>
    have ha := ha e rfl
    simp only [step]
    by_cases hw : watch σ.world e = true
    · simp only [hw, if_true, capture]
      refine ⟨hs.sim_delivered _ _ e hsim ha hw, hlat, fun hnone => ?_⟩
      obtain ⟨hct, hv⟩ := setCT_none hnone
      have happ := hdr hct
      have hb : build σ.proc.store = build σ.world := hs.build_eq _ _ hsim
      have hv' : verdict O rel (some (build σ.proc.store)) (O.cache e σ.proc.store) e = false := by
        have : σ.proc.latest = some (build σ.proc.store) := by rw [hlat, happ, hb]
        simpa [this] using hv
      have h1 := hs.rel_sound _ _ e hsim ha hw hv'
      have h2 := hs.build_eq _ _ (hs.sim_delivered _ _ e hsim ha hw)
      simp only [happ]
      rw [← h2, h1, hb]
    · have hw' : watch σ.world e = false := by simpa using hw
      simp only [hw', Bool.false_eq_true, if_false]
      refine ⟨hs.sim_filtered _ _ e hsim ha hw', hlat, fun hnone => ?_⟩
      simp only [hdr hnone, hs.watch_inert _ _ ha hw']

theorem inv_run (O : Ops K Key Obj C) {build : C → G} {rel watch} {R : C → C → Prop} {adm}
    (hs : Sound O build rel watch R adm) :
    ∀ (ss : List (Step K Key Obj)) (σ : Sim C G), Inv build R σ → Admissible O adm σ.world ss →
      Inv build R (run O build rel watch σ ss)
  | [], _, hi, _ => hi
  | .mutate e :: ss, σ, hi, ha =>
      inv_run O hs ss _ (inv_step O hs hi _ (fun e' h => by cases h; exact ha.1)) ha.2
  | .cut :: ss, σ, hi, ha => by
      refine inv_run O hs ss _ (inv_step O hs hi _ (fun _ h => by cases h)) ?_
      have : (step O build rel watch σ .cut).world = σ.world := by
        simp only [step, process]
      rw [this]; exact ha
  | .restart :: ss, σ, hi, ha =>
      inv_run O hs ss _ (inv_step O hs hi _ (fun _ h => by cases h)) ha

theorem run_append (O : Ops K Key Obj C) (build : C → G) (rel watch) :
    ∀ (a b : List (Step K Key Obj)) (σ : Sim C G),
      run O build rel watch σ (a ++ b) = run O build rel watch (run O build rel watch σ a) b
  | [], _, _ => rfl
  | s :: a, b, σ => by simp [run, run_append O build rel watch a b]

/-- The cluster component of the simulation is the cluster the history ends in. -/
theorem world_run (O : Ops K Key Obj C) (build : C → G) (rel watch) :
    ∀ (ss : List (Step K Key Obj)) (σ : Sim C G),
      (run O build rel watch σ ss).world = finalWorld O σ.world ss
  | [], _ => rfl
  | .mutate e :: ss, σ => by
      simp only [run, finalWorld]
      rw [world_run O build rel watch ss]
      rfl
  | .cut :: ss, σ => by
      simp only [run, finalWorld]
      rw [world_run O build rel watch ss]
      simp only [step, process]
  | .restart :: ss, σ => by
      simp only [run, finalWorld]
      rw [world_run O build rel watch ss]
      rfl

theorem cut_world (O : Ops K Key Obj C) (build : C → G) (rel watch) (σ : Sim C G) :
    (step O build rel watch σ .cut).world = σ.world := by
  simp only [step, process]

/-- A `cut` leaves nothing pending. -/
theorem cut_drains (O : Ops K Key Obj C) (build : C → G) (rel watch) (σ : Sim C G) :
    (step O build rel watch σ .cut).proc.ct = .none := by
  simp only [step, process]
  by_cases h : σ.proc.ct = .none <;> simp [h]

end NGF.Store
