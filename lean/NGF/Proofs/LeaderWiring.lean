/-
C09 — helper lemmas for `Model/LeaderWiring.lean`: slices over an append-only memory keep their
contents; the association-list operations of the updater only look at group names, so they commute
with reading the saved slices; the resulting simulation between the reference-level and the
value-level semantics for call sites that allocate per call.  Core Lean only.
-/
import NGF.Model.LeaderWiring
import NGF.Proofs.Leader

namespace NGF.Leader

/-! ### slices -/

theorem mem_cellsAt {a : Nat} : ∀ {n b : Nat}, a ∈ cellsAt b n → b ≤ a ∧ a < b + n
  | 0, _, h => by simp [cellsAt] at h
  | n + 1, b, h => by
    simp only [cellsAt, List.mem_cons] at h
    rcases h with h | h
    · omega
    · have := mem_cellsAt h
      omega

theorem cellsAt_isEmpty (b n : Nat) : (cellsAt b n).isEmpty = (n == 0) := by
  cases n <;> simp [cellsAt]

theorem cellsAt_isEmpty_length (b : Nat) (vals : List Req) :
    (cellsAt b vals.length).isEmpty = vals.isEmpty := by
  cases vals <;> simp [cellsAt]

/-- appending to the memory does not change what an existing slice holds -/
theorem deref_append (m x : Mem) (ps : List Nat) (h : ∀ a ∈ ps, a < m.length) :
    deref (m ++ x) ps = deref m ps := by
  induction ps with
  | nil => rfl
  | cons a t ih =>
    have ha : a < m.length := h a (by simp)
    have ht := ih (fun b hb => h b (by simp [hb]))
    simp only [deref] at ht ⊢
    simp [List.filterMap_cons, List.getElem?_append_left ha, ht]

/-- a freshly allocated slice holds exactly the values it was built from -/
theorem deref_cellsAt (vals : List Req) : ∀ (m t : Mem),
    deref (m ++ (vals ++ t)) (cellsAt m.length vals.length) = vals := by
  induction vals with
  | nil => intro m t; simp [cellsAt, deref]
  | cons v vs ih =>
    intro m t
    have e : m ++ (v :: vs ++ t) = (m ++ [v]) ++ (vs ++ t) := by simp
    have hl : (m ++ [v]).length = m.length + 1 := by simp
    have ih' := ih (m ++ [v]) t
    rw [hl, ← e] at ih'
    have hget : (m ++ (v :: vs ++ t))[m.length]? = some v := by
      rw [List.getElem?_append_right (Nat.le_refl _)]
      simp
    simp only [deref] at ih'
    simp only [List.length_cons, cellsAt, deref, List.filterMap_cons, hget, ih']

theorem deref_fresh (m : Mem) (vals : List Req) :
    deref (m ++ vals) (cellsAt m.length vals.length) = vals := by
  have := deref_cellsAt vals m []
  simpa using this

/-! ### the updater's map operations only look at the keys -/

def mapV (f : List Req → List Req) (s : Saved) : Saved := s.map fun w => (w.1, f w.2)

theorem derefWrites_eq (m : Mem) (s : Saved) : derefWrites m s = mapV (deref m) s := rfl

theorem get_mapV (f : List Req → List Req) (g : Group) (s : Saved) :
    get g (mapV f s) = (get g s).map f := by
  induction s with
  | nil => rfl
  | cons p t ih =>
    obtain ⟨k, v⟩ := p
    simp only [mapV, List.map_cons, get] at ih ⊢
    by_cases hk : k = g <;> simp [hk, ih]

theorem del_mapV (f : List Req → List Req) (g : Group) (s : Saved) :
    del g (mapV f s) = mapV f (del g s) := by
  induction s with
  | nil => rfl
  | cons p t ih =>
    obtain ⟨k, v⟩ := p
    simp only [mapV, del, List.map_cons] at ih ⊢
    by_cases hk : k = g
    · subst hk
      simp [ih]
    · have : (k != g) = true := by simpa using hk
      simp [this, ih]

theorem flush_mapV (f : List Req → List Req) : ∀ (o : List Group) (s : Saved),
    flush o (mapV f s) = mapV f (flush o s)
  | [], _ => rfl
  | g :: gs, s => by
    simp only [flush, get_mapV]
    cases hg : get g s with
    | none => simpa using flush_mapV f gs s
    | some r =>
      simp only [Option.map_some, del_mapV]
      rw [flush_mapV f gs (del g s)]
      simp [mapV]

/-- every address held by the saved slices is allocated -/
def Valid (m : Mem) (s : Saved) : Prop := ∀ w ∈ s, ∀ a : Nat, a ∈ w.2 → a < m.length

theorem derefWrites_append {m : Mem} {s : Saved} (x : Mem) (h : Valid m s) :
    derefWrites (m ++ x) s = derefWrites m s := by
  simp only [derefWrites]
  apply List.map_congr_left
  intro w hw
  rw [deref_append m x w.2 (h w hw)]

theorem valid_append {m : Mem} {s : Saved} (x : Mem) (h : Valid m s) : Valid (m ++ x) s := by
  intro w hw a ha
  have h1 : a < m.length := h w hw a ha
  show a < (m ++ x).length
  rw [List.length_append]
  omega

theorem valid_del {m : Mem} {s : Saved} (g : Group) (h : Valid m s) : Valid m (del g s) := by
  intro w hw
  exact h w (List.mem_filter.1 hw).1

/-! ### simulation: call sites that allocate per call -/

/-- the value-level updater state `v` is the reference-level one read through the memory -/
structure Sim (s : HState) (v : LState) : Prop where
  en : v.enabled = s.upd.enabled
  sv : v.saved = derefWrites s.mem s.upd.saved
  ok : Valid s.mem s.upd.saved

theorem sim_init : Sim hinit init := ⟨rfl, rfl, by intro w hw; simp [hinit, init] at hw⟩

theorem mkSlice_fresh (s : HState) (g : Group) (vals : List Req) :
    mkSlice allFresh s g vals = (s.mem ++ vals, s.buf, cellsAt s.mem.length vals.length) := by
  simp [mkSlice, allFresh]

theorem sim_step {s : HState} {v : LState} (h : Sim s v) (op : Op) :
    Sim (hstep allFresh s op).1 (step v op).1 ∧ (hstep allFresh s op).2 = (step v op).2 := by
  obtain ⟨en, sv, ok⟩ := h
  cases op with
  | update g vals =>
    simp only [hstep, mkSlice_fresh]
    have hfresh := deref_fresh s.mem vals
    by_cases he : s.upd.enabled = true
    · -- leader: written at once, from the slice just built
      have hv : v.enabled = true := by rw [en, he]
      simp only [step, he, hv, if_true, derefOut, derefWrites, List.map_cons, List.map_nil, hfresh]
      refine ⟨⟨by simp [en], ?_, valid_append vals ok⟩, by trivial⟩
      simp only
      rw [derefWrites_append vals ok]
      exact sv
    · have he' : s.upd.enabled = false := by simpa using he
      have hv : v.enabled = false := by rw [en, he']
      have hemp := cellsAt_isEmpty_length s.mem.length vals
      by_cases hr : vals.isEmpty = true
      · simp only [step, he', hv, hemp, hr, if_true, Bool.false_eq_true, if_false, derefOut,
          derefWrites, List.map_nil]
        refine ⟨⟨by simp, ?_, valid_append vals (valid_del g ok)⟩, by trivial⟩
        simp only
        rw [derefWrites_append vals (valid_del g ok), derefWrites_eq, ← del_mapV, ← derefWrites_eq, ← sv]
      · have hr' : vals.isEmpty = false := by simpa using hr
        simp only [step, he', hv, hemp, hr', Bool.false_eq_true, if_false, derefOut, derefWrites,
          List.map_nil]
        refine ⟨⟨by simp, ?_, ?_⟩, by trivial⟩
        · simp only [put, derefWrites, List.map_cons, hfresh]
          have := derefWrites_append vals (valid_del g ok)
          simp only [derefWrites] at this
          rw [this]
          have e := del_mapV (deref s.mem) g s.upd.saved
          simp only [mapV] at e
          rw [← e]
          have sv' : v.saved = List.map (fun w => (w.1, deref s.mem w.2)) s.upd.saved := sv
          rw [← sv']
        · intro w hw a ha
          simp only [put, List.mem_cons] at hw
          rcases hw with hw | hw
          · subst hw
            have := mem_cellsAt ha
            show a < (s.mem ++ vals).length
            rw [List.length_append]
            omega
          · exact valid_append vals (valid_del g ok) w hw a ha
  | enable o =>
    simp only [hstep]
    by_cases he : s.upd.enabled = true
    · have hv : v.enabled = true := by rw [en, he]
      simp only [step, he, hv, if_true, derefOut]
      exact ⟨⟨en, sv, ok⟩, by trivial⟩
    · have he' : s.upd.enabled = false := by simpa using he
      have hv : v.enabled = false := by rw [en, he']
      simp only [step, he', hv, Bool.false_eq_true, if_false, derefOut]
      refine ⟨⟨rfl, rfl, by intro w hw; simp at hw⟩, ?_⟩
      rw [sv, derefWrites_eq, derefWrites_eq, flush_mapV]

theorem hrun_fresh_eq_run : ∀ (ops : List Op) {s : HState} {v : LState}, Sim s v →
    hrun allFresh s ops = run v ops
  | [], _, _, _ => rfl
  | op :: ops, s, v, h => by
    obtain ⟨h', e⟩ := sim_step h op
    simp only [hrun, run, e]
    rw [hrun_fresh_eq_run ops h']

/-! ### `latest` in terms of the last call per group -/

theorem superseded_eq_lastSub (g : Group) : ∀ (ops : List Op),
    superseded g ops = (lastSub g ops).isSome
  | [] => rfl
  | .enable _ :: ops => by
    have := superseded_eq_lastSub g ops
    simpa [superseded, lastSub] using this
  | .update g' r :: ops => by
    rw [superseded_cons_update, superseded_eq_lastSub g ops]
    simp only [lastSub]
    cases h : lastSub g ops with
    | some x => simp
    | none =>
      by_cases hg : g' = g <;> simp [hg]

theorem mem_latest_iff_lastSub (g : Group) (r : List Req) : ∀ (ops : List Op),
    (g, r) ∈ latest ops ↔ lastSub g ops = some r ∧ r ≠ []
  | [] => by simp [latest, lastSub]
  | .enable _ :: ops => by
    have := mem_latest_iff_lastSub g r ops
    simpa [latest, lastSub] using this
  | .update g' r' :: ops => by
    have ih := mem_latest_iff_lastSub g r ops
    have hsup := superseded_eq_lastSub g' ops
    simp only [latest, lastSub]
    by_cases hg : g' = g
    · subst hg
      cases hl : lastSub g' ops with
      | some x =>
        have : superseded g' ops = true := by rw [hsup, hl]; rfl
        simp only [this, Bool.true_or, if_true]
        rw [ih, hl]
      | none =>
        have hs : superseded g' ops = false := by rw [hsup, hl]; rfl
        have hnot : (g', r) ∉ latest ops := by
          intro hm
          have := superseded_of_mem_latest hm
          rw [hs] at this
          exact absurd this (by simp)
        by_cases hr : r'.isEmpty = true
        · simp only [hs, hr, Bool.or_true, if_true]
          have : r' = [] := by simpa using hr
          subst this
          constructor
          · intro hm; exact absurd hm hnot
          · rintro ⟨e, hne⟩
            simp only [Option.some.injEq] at e
            exact absurd e.symm hne
        · have hr' : r'.isEmpty = false := by simpa using hr
          simp only [hs, hr', Bool.or_false, Bool.false_eq_true, if_false, List.mem_cons,
            Prod.mk.injEq, true_and, if_true, Option.some.injEq]
          constructor
          · rintro (e | hm)
            · subst e
              exact ⟨rfl, by intro e; simp [e] at hr'⟩
            · exact absurd hm hnot
          · rintro ⟨e, _⟩
            exact Or.inl e.symm
    · have key : lastSub g (.update g' r' :: ops) = lastSub g ops := by
        simp only [lastSub]
        cases lastSub g ops <;> simp [hg]
      simp only [lastSub] at key
      rw [key, ← ih]
      split
      · rfl
      · simp only [List.mem_cons, Prod.mk.injEq]
        constructor
        · rintro (⟨e, _⟩ | hm)
          · exact absurd e.symm hg
          · exact hm
        · exact Or.inr

/-- appending operations that do not submit `g` does not change the last call for `g` -/
theorem lastSub_append_other (g : Group) (b : List Op) (hb : superseded g b = false) :
    ∀ (a : List Op), lastSub g (a ++ b) = lastSub g a
  | [] => by
    have := superseded_eq_lastSub g b
    rw [hb] at this
    cases h : lastSub g b with
    | none => simp [h, lastSub]
    | some x => simp [h] at this
  | .enable _ :: a => by
    simpa [lastSub] using lastSub_append_other g b hb a
  | .update g' r :: a => by
    simp only [List.cons_append, lastSub, lastSub_append_other g b hb a]

theorem opsOf_append (a b : List HEv) : opsOf (a ++ b) = opsOf a ++ opsOf b := by
  induction a with
  | nil => rfl
  | cons e a ih => simp [opsOf, ih]

/-- no `Enable` among the events -/
def NoEnableEv (evs : List HEv) : Prop :=
  evs.all (fun | .enable _ => false | _ => true) = true

instance (evs : List HEv) : Decidable (NoEnableEv evs) := by unfold NoEnableEv; infer_instance

theorem noEnable_opsOf : ∀ {evs : List HEv}, NoEnableEv evs → NoEnable (opsOf evs)
  | [], _ => by simp [opsOf, NoEnable]
  | e :: evs, h => by
    simp only [NoEnableEv, List.all_cons, Bool.and_eq_true] at h
    have ih := noEnable_opsOf (evs := evs) h.2
    unfold NoEnable at ih ⊢
    cases e <;> simp_all [opsOf, HEv.ops, Op.isEnable]

/-- (`run_decompose` of Props/C09, needed here because Props/C09 imports the wiring theorems) -/
theorem run_decompose_aux (pre : List Op) (o : List Group) (post : List Op) (h : NoEnable pre) :
    run init (pre ++ .enable o :: post) =
      pre.map (fun _ => Out.writes []) ++
        Out.writes (flush o (exec init pre).saved) :: post.map after := by
  obtain ⟨he, _, hr, _⟩ := disabled_exec pre init rfl h (by simp [init, keys])
  rw [run_append, hr]
  congr 1
  have hs : step (exec init pre) (.enable o) =
      ({ enabled := true, saved := [] }, Out.writes (flush o (exec init pre).saved)) := by
    simp [step, he]
  simp only [run, hs]
  rw [enabled_run rfl]

end NGF.Leader
