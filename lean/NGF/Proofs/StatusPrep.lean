/-
Helper lemmas for C07 (`NGF.Model.StatusPrep`): the reverse scan of `DeduplicateConditions` keeps exactly the
last condition of every type, in input order. Core Lean only.
-/
import NGF.Model.StatusPrep

namespace NGF.StatusPrep

/-- keep the first condition of every type not in `seen` (forward formulation of the reverse scan) -/
def firsts : List Cond → List String → List Cond
  | [], _ => []
  | c :: r, seen => if c.type ∈ seen then firsts r seen else c :: firsts r (c.type :: seen)

theorem dedupAux_eq (l : List Cond) (seen : List String) (acc : List Cond) :
    dedupAux l seen acc = (firsts l seen).reverse ++ acc := by
  induction l generalizing seen acc with
  | nil => simp [dedupAux, firsts]
  | cons c r ih =>
    simp only [dedupAux, firsts]
    split
    · exact ih seen acc
    · rw [ih]; simp

theorem dedup_eq (cs : List Cond) : dedup cs = (firsts cs.reverse []).reverse := by
  simp [dedup, dedupAux_eq]

theorem firsts_sublist (l : List Cond) (seen : List String) : (firsts l seen).Sublist l := by
  induction l generalizing seen with
  | nil => simp [firsts]
  | cons c r ih =>
    simp only [firsts]
    split
    · exact (ih seen).cons c
    · exact (ih _).cons_cons c

theorem firsts_type_not_seen {l : List Cond} {seen : List String} {c : Cond} (h : c ∈ firsts l seen) :
    c.type ∉ seen := by
  induction l generalizing seen with
  | nil => simp [firsts] at h
  | cons d r ih =>
    simp only [firsts] at h
    split at h
    · exact ih h
    · rcases List.mem_cons.mp h with rfl | h'
      · assumption
      · intro hc; exact ih h' (List.mem_cons_of_mem _ hc)

theorem mem_firsts {l : List Cond} {seen : List String} {c : Cond} :
    c ∈ firsts l seen ↔ c.type ∉ seen ∧ l.find? (fun d => d.type = c.type) = some c := by
  induction l generalizing seen with
  | nil => simp [firsts]
  | cons d r ih =>
    simp only [firsts, List.find?_cons]
    by_cases hd : d.type ∈ seen
    · simp only [hd, if_true]
      by_cases hdc : d.type = c.type
      · simp only [hdc, decide_true]
        constructor
        · intro h; exact absurd (hdc ▸ hd) (ih.mp h).1
        · intro h; exact absurd (hdc ▸ hd) h.1
      · simp only [hdc, decide_false]; exact ih
    · simp only [hd, if_false, List.mem_cons]
      by_cases hdc : d.type = c.type
      · simp only [hdc, decide_true]
        constructor
        · rintro (rfl | h)
          · exact ⟨hd, rfl⟩
          · exact absurd (List.mem_cons_self) (hdc ▸ firsts_type_not_seen h)
        · rintro ⟨_, h⟩
          left; exact (Option.some.inj h).symm
      · simp only [hdc, decide_false]
        constructor
        · rintro (rfl | h)
          · exact absurd rfl hdc
          · have := ih.mp h
            exact ⟨fun hs => this.1 (List.mem_cons_of_mem _ hs), this.2⟩
        · rintro ⟨hs, h⟩
          right
          refine ih.mpr ⟨?_, h⟩
          intro hm
          rcases List.mem_cons.mp hm with e | e
          · exact hdc e.symm
          · exact hs e

theorem firsts_nodup (l : List Cond) (seen : List String) : ((firsts l seen).map (·.type)).Nodup := by
  induction l generalizing seen with
  | nil => simp [firsts]
  | cons d r ih =>
    simp only [firsts]
    split
    · exact ih seen
    · simp only [List.map_cons, List.nodup_cons]
      refine ⟨?_, ih _⟩
      intro hm
      obtain ⟨c, hc, hct⟩ := List.mem_map.mp hm
      exact firsts_type_not_seen hc (hct ▸ List.mem_cons_self)

/-- the kept conditions are a sublist of the input: order is preserved -/
theorem dedup_sublist (cs : List Cond) : (dedup cs).Sublist cs := by
  rw [dedup_eq]
  have := (firsts_sublist cs.reverse []).reverse
  simpa using this

/-- a condition is kept iff it is the last condition of its type -/
theorem mem_dedup {cs : List Cond} {c : Cond} : c ∈ dedup cs ↔ lastOfType c.type cs = some c := by
  rw [dedup_eq, List.mem_reverse, mem_firsts]
  simp [lastOfType]

/-- types are unique after de-duplication -/
theorem dedup_nodup (cs : List Cond) : ((dedup cs).map (·.type)).Nodup := by
  rw [dedup_eq, List.map_reverse]
  have h := firsts_nodup cs.reverse []
  unfold List.Nodup at *
  rw [List.pairwise_reverse]
  exact h.imp (fun h => h.symm)

theorem lastOfType_type {t : String} {cs : List Cond} {c : Cond} (h : lastOfType t cs = some c) : c.type = t := by
  have := List.find?_some h
  simpa using this

theorem lastOfType_mem {t : String} {cs : List Cond} {c : Cond} (h : lastOfType t cs = some c) : c ∈ cs := by
  have := List.mem_of_find?_eq_some h
  simpa using this

theorem lastOfType_append (t : String) (a b : List Cond) :
    lastOfType t (a ++ b) = (lastOfType t b).or (lastOfType t a) := by
  simp [lastOfType, List.find?_append]

theorem lastOfType_nil (t : String) : lastOfType t [] = none := rfl

theorem lastOfType_singleton (t : String) (c : Cond) :
    lastOfType t [c] = if c.type = t then some c else none := by
  simp [lastOfType, List.find?_cons]
  split <;> simp_all

theorem lastOfType_none_iff {t : String} {cs : List Cond} :
    lastOfType t cs = none ↔ ∀ c ∈ cs, c.type ≠ t := by
  simp [lastOfType]

/-- reading a status off a prepared condition list = reading the last condition of that type in the input -/
theorem hasCond_convert_dedup (cs : List Cond) (g : Int) (t s : String) :
    hasCond (convert (dedup cs) g) t s = true ↔ ∃ c, lastOfType t cs = some c ∧ c.status = s := by
  simp only [hasCond, convert, List.any_map, List.any_eq_true, Function.comp, decide_eq_true_eq]
  constructor
  · rintro ⟨c, hc, ht, hs⟩
    exact ⟨c, ht ▸ mem_dedup.mp hc, hs⟩
  · rintro ⟨c, hc, hs⟩
    have ht := lastOfType_type hc
    exact ⟨c, mem_dedup.mpr (ht ▸ hc), ht, hs⟩

theorem hasCond_convert (cs : List Cond) (g : Int) (t s : String) :
    hasCond (convert cs g) t s = true ↔ ∃ c ∈ cs, c.type = t ∧ c.status = s := by
  simp [hasCond, convert, List.any_map, List.any_eq_true, Function.comp]

theorem convert_gen {cs : List Cond} {g : Int} {a : ApiCond} (h : a ∈ convert cs g) : a.gen = g := by
  simp only [convert, List.mem_map] at h
  obtain ⟨c, _, rfl⟩ := h
  rfl

end NGF.StatusPrep
