/-
Helper lemmas for C02 about the NGINX selection functions of Model/NginxEval.lean
(`bestWild`/`selectName`, `bestPrefix`/`selectLoc`, `Njs.findWinning`).
-/
import NGF.Model.NginxEval

namespace NGF.NginxEval

theorem bestWild_some {host : Str} : ∀ {names : List Str} {w : Str}, bestWild host names = some w →
    w ∈ names ∧ wildCovers w host = true ∧ ∀ n ∈ names, wildCovers n host = true → n.length ≤ w.length
  | [], w, h => by simp [bestWild] at h
  | n :: ns, w, h => by
    unfold bestWild at h
    cases hb : bestWild host ns with
    | none =>
      rw [hb] at h
      by_cases hc : wildCovers n host = true
      · simp [hc] at h; subst h
        refine ⟨List.mem_cons_self, hc, ?_⟩
        intro m hm hmc
        rcases List.mem_cons.mp hm with e | e
        · subst e; exact Nat.le_refl _
        · exact absurd hmc (by
            have := bestWild_none hb m e; simp [this])
      · simp [hc] at h
    | some b =>
      rw [hb] at h
      obtain ⟨hbm, hbc, hbmax⟩ := bestWild_some hb
      by_cases hc : (wildCovers n host && decide (b.length ≤ n.length)) = true
      · simp only [hc, ↓reduceIte, Option.some.injEq] at h; subst h
        simp only [Bool.and_eq_true, decide_eq_true_eq] at hc
        refine ⟨List.mem_cons_self, hc.1, ?_⟩
        intro m hm hmc
        rcases List.mem_cons.mp hm with e | e
        · subst e; exact Nat.le_refl _
        · exact Nat.le_trans (hbmax m e hmc) hc.2
      · have hc' : (wildCovers n host && decide (b.length ≤ n.length)) = false := Bool.eq_false_iff.mpr hc
        simp only [hc', Bool.false_eq_true, ↓reduceIte, Option.some.injEq] at h; subst h
        refine ⟨List.mem_cons_of_mem _ hbm, hbc, ?_⟩
        intro m hm hmc
        rcases List.mem_cons.mp hm with e | e
        · subst e
          simp only [Bool.and_eq_false_iff, decide_eq_false_iff_not] at hc'
          rcases hc' with h1 | h1
          · rw [h1] at hmc; cases hmc
          · omega
        · exact hbmax m e hmc
where
  bestWild_none {host : Str} : ∀ {names : List Str}, bestWild host names = none → ∀ n ∈ names, wildCovers n host = false
    | [], _, n, hn => by cases hn
    | x :: xs, h, n, hn => by
      unfold bestWild at h
      cases hb : bestWild host xs with
      | none =>
        rw [hb] at h
        by_cases hc : wildCovers x host = true
        · simp [hc] at h
        · rcases List.mem_cons.mp hn with e | e
          · subst e; cases hh : wildCovers n host <;> simp_all
          · exact bestWild_none hb n e
      | some b =>
        rw [hb] at h
        by_cases hc : (wildCovers x host && decide (b.length ≤ x.length)) = true <;> simp [hc] at h

theorem bestWild_none {host : Str} {names : List Str} (h : bestWild host names = none) :
    ∀ n ∈ names, wildCovers n host = false := bestWild_some.bestWild_none h

theorem bestPrefix_some {p : Str} : ∀ {locs : List Loc} {w : Loc}, bestPrefix p locs = some w →
    w ∈ locs ∧ w.exact = false ∧ w.path <+: p ∧
      ∀ l ∈ locs, l.exact = false → l.path <+: p → l.path.length ≤ w.path.length
  | [], w, h => by simp [bestPrefix] at h
  | l :: ls, w, h => by
    unfold bestPrefix at h
    simp only at h
    cases hb : bestPrefix p ls with
    | none =>
      rw [hb] at h
      by_cases hok : (!l.exact && l.path.isPrefixOf p) = true
      · simp only [hok, ↓reduceIte, Option.some.injEq] at h; subst h
        simp only [Bool.and_eq_true, Bool.not_eq_true', List.isPrefixOf_iff_prefix] at hok
        refine ⟨List.mem_cons_self, hok.1, hok.2, ?_⟩
        intro m hm hme hmp
        rcases List.mem_cons.mp hm with e | e
        · subst e; exact Nat.le_refl _
        · have := bestPrefix_none hb m e
          simp [hme, List.isPrefixOf_iff_prefix.mpr hmp] at this
      · have : (!l.exact && l.path.isPrefixOf p) = false := Bool.eq_false_iff.mpr hok
        simp [this] at h
    | some b =>
      rw [hb] at h
      obtain ⟨hbm, hbe, hbp, hbmax⟩ := bestPrefix_some hb
      by_cases hc : ((!l.exact && l.path.isPrefixOf p) && decide (b.path.length ≤ l.path.length)) = true
      · simp only [hc, ↓reduceIte, Option.some.injEq] at h; subst h
        simp only [Bool.and_eq_true, Bool.not_eq_true', List.isPrefixOf_iff_prefix, decide_eq_true_eq] at hc
        refine ⟨List.mem_cons_self, hc.1.1, hc.1.2, ?_⟩
        intro m hm hme hmp
        rcases List.mem_cons.mp hm with e | e
        · subst e; exact Nat.le_refl _
        · exact Nat.le_trans (hbmax m e hme hmp) hc.2
      · have hc' : ((!l.exact && l.path.isPrefixOf p) && decide (b.path.length ≤ l.path.length)) = false :=
          Bool.eq_false_iff.mpr hc
        simp only [hc', Bool.false_eq_true, ↓reduceIte, Option.some.injEq] at h; subst h
        refine ⟨List.mem_cons_of_mem _ hbm, hbe, hbp, ?_⟩
        intro m hm hme hmp
        rcases List.mem_cons.mp hm with e | e
        · subst e
          simp only [Bool.and_eq_false_iff, Bool.not_eq_false', decide_eq_false_iff_not] at hc'
          rcases hc' with (h1 | h1) | h1
          · rw [hme] at h1; cases h1
          · rw [List.isPrefixOf_iff_prefix.mpr hmp] at h1; cases h1
          · omega
        · exact hbmax m e hme hmp
where
  bestPrefix_none {p : Str} : ∀ {locs : List Loc}, bestPrefix p locs = none →
      ∀ l ∈ locs, (!l.exact && l.path.isPrefixOf p) = false
    | [], _, l, hl => by cases hl
    | x :: xs, h, l, hl => by
      unfold bestPrefix at h
      simp only at h
      cases hb : bestPrefix p xs with
      | none =>
        rw [hb] at h
        by_cases hok : (!x.exact && x.path.isPrefixOf p) = true
        · simp [hok] at h
        · rcases List.mem_cons.mp hl with e | e
          · subst e; cases hh : (!l.exact && l.path.isPrefixOf p) <;> simp_all
          · exact bestPrefix_none hb l e
      | some b =>
        rw [hb] at h
        by_cases hc : ((!x.exact && x.path.isPrefixOf p) && decide (b.path.length ≤ x.path.length)) = true <;> simp [hc] at h

theorem bestPrefix_none {p : Str} {locs : List Loc} (h : bestPrefix p locs = none) :
    ∀ l ∈ locs, (!l.exact && l.path.isPrefixOf p) = false := bestPrefix_some.bestPrefix_none h

namespace Njs

/-- when no match of the list is malformed, `findWinningMatch` is `find?` with "the request satisfies the match" -/
theorem findWinning_eq_find (r : Req) : ∀ (ms : List Match), (∀ m ∈ ms, testMatch r m ≠ .throw) →
    findWinning r ms =
      match ms.find? (fun m => match testMatch r m with | .ok true => true | _ => false) with
      | some m => .found m
      | none => .notFound
  | [], _ => rfl
  | m :: ms, h => by
    have hm := h m List.mem_cons_self
    have ih := findWinning_eq_find r ms (fun x hx => h x (List.mem_cons_of_mem _ hx))
    unfold findWinning
    rw [List.find?_cons]
    cases ht : testMatch r m with
    | throw => exact absurd ht hm
    | ok b => cases b <;> simp [ih]

end Njs

end NGF.NginxEval
