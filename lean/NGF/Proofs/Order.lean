import NGF.Model.Order
import NGF.Proofs.Sort
/-
Helper lemmas for C14: the order `less`, `higherPriority`, running minimum, TLS claims,
policy-conflict frames. The property theorems are in NGF/Props/C14.lean.
-/
set_option linter.unusedSectionVars false
namespace NGF.Order
open NGF.Sort

/-! ### the model's structural sort is core's `mergeSort` -/

section isort
variable {α : Type} {le : α → α → Bool}

theorem insertBy_perm (x : α) : ∀ l : List α, (insertBy le x l).Perm (x :: l)
  | [] => by simp [insertBy]
  | y :: ys => by
    by_cases h : le x y = true
    · simp [insertBy, h]
    · simp only [insertBy, h, Bool.false_eq_true, if_false]
      exact ((insertBy_perm x ys).cons y).trans (List.Perm.swap x y ys)

theorem isort_perm : ∀ l : List α, (isort le l).Perm l
  | [] => by simp [isort]
  | x :: xs => by
    simp only [isort]
    exact (insertBy_perm x _).trans ((isort_perm xs).cons x)

theorem insertBy_filter_neg (p : α → Bool) (x : α) (hx : p x = false) :
    ∀ l : List α, (insertBy le x l).filter p = l.filter p
  | [] => by simp [insertBy, hx]
  | y :: ys => by
    by_cases h : le x y = true
    · simp [insertBy, h, hx]
    · simp only [insertBy, h, Bool.false_eq_true, if_false]
      by_cases hy : p y = true
      · rw [List.filter_cons_of_pos hy, List.filter_cons_of_pos hy, insertBy_filter_neg p x hx ys]
      · rw [List.filter_cons_of_neg hy, List.filter_cons_of_neg hy, insertBy_filter_neg p x hx ys]

variable (tr : ∀ a b c, le a b = true → le b c = true → le a c = true)
  (tot : ∀ a b, (le a b || le b a) = true)
include tr tot

theorem insertBy_pairwise (x : α) :
    ∀ l : List α, List.Pairwise (fun a b => le a b = true) l →
      List.Pairwise (fun a b => le a b = true) (insertBy le x l)
  | [], _ => by simp [insertBy]
  | y :: ys, h => by
    have hy := List.pairwise_cons.mp h
    by_cases hxy : le x y = true
    · simp only [insertBy, hxy, if_true]
      refine List.pairwise_cons.mpr ⟨?_, h⟩
      intro z hz
      rcases List.mem_cons.mp hz with e | e
      · subst e; exact hxy
      · exact tr x y z hxy (hy.1 z e)
    · simp only [insertBy, hxy, Bool.false_eq_true, if_false]
      refine List.pairwise_cons.mpr ⟨?_, insertBy_pairwise x ys hy.2⟩
      intro z hz
      rcases List.mem_cons.mp ((insertBy_perm x ys).mem_iff.mp hz) with e | e
      · subst e
        have := tot z y
        simpa [hxy] using this
      · exact hy.1 z e

theorem isort_pairwise : ∀ l : List α, List.Pairwise (fun a b => le a b = true) (isort le l)
  | [] => by simp [isort]
  | x :: xs => by
    simp only [isort]
    exact insertBy_pairwise tr tot x _ (isort_pairwise xs)

theorem insertBy_filter_class (a x : α) (hx : equivB le a x = true) :
    ∀ l : List α, (insertBy le x l).filter (equivB le a) = x :: l.filter (equivB le a)
  | [] => by simp [insertBy, hx]
  | y :: ys => by
    by_cases h : le x y = true
    · simp only [insertBy, h, if_true]
      rw [List.filter_cons_of_pos hx]
    · simp only [insertBy, h, Bool.false_eq_true, if_false]
      have hy : ¬ equivB le a y = true := by
        intro hy
        unfold equivB at hx hy
        simp only [Bool.and_eq_true] at hx hy
        exact h (tr x a y hx.2 hy.1)
      rw [List.filter_cons_of_neg hy, List.filter_cons_of_neg hy, insertBy_filter_class a x hx ys]

theorem isort_filter_class (a : α) :
    ∀ l : List α, (isort le l).filter (equivB le a) = l.filter (equivB le a)
  | [] => by simp [isort]
  | x :: xs => by
    simp only [isort]
    by_cases hx : equivB le a x = true
    · rw [insertBy_filter_class tr tot a x hx, List.filter_cons_of_pos hx, isort_filter_class a xs]
    · have hx' : equivB le a x = false := by simpa using hx
      rw [insertBy_filter_neg _ x hx', List.filter_cons_of_neg hx, isort_filter_class a xs]

/-- the executable model sort IS core's stable merge sort -/
theorem isort_eq_mergeSort (l : List α) : isort le l = l.mergeSort le := by
  apply sorted_eq_of_class_eq tr tot _ _ (isort_pairwise tr tot l) (List.pairwise_mergeSort tr tot l)
  intro a
  rw [isort_filter_class tr tot a l, filter_mergeSort_class tr tot l a]

end isort

/-! ### Go string comparison -/

theorem bytesLt_irrefl : ∀ a, bytesLt a a = false
  | [] => rfl
  | x :: xs => by simp [bytesLt, bytesLt_irrefl xs]

theorem bytesLt_trans : ∀ a b c, bytesLt a b = true → bytesLt b c = true → bytesLt a c = true
  | [], [], _, h, _ => by simp [bytesLt] at h
  | [], _ :: _, [], _, h => by simp [bytesLt] at h
  | [], _ :: _, _ :: _, _, _ => by simp [bytesLt]
  | _ :: _, [], _, h, _ => by simp [bytesLt] at h
  | _ :: _, _ :: _, [], _, h => by simp [bytesLt] at h
  | x :: xs, y :: ys, z :: zs, h1, h2 => by
    simp only [bytesLt] at h1 h2 ⊢
    rcases Nat.lt_trichotomy x y with hxy | hxy | hxy
    · rcases Nat.lt_trichotomy y z with hyz | hyz | hyz
      · have : x < z := by omega
        simp [this]
      · subst hyz; simp [hxy]
      · have : ¬ y < z := by omega
        simp [this, hyz] at h2
    · subst hxy
      have hxx : ¬ x < x := by omega
      simp only [hxx, if_false] at h1
      rcases Nat.lt_trichotomy x z with hxz | hxz | hxz
      · simp [hxz]
      · subst hxz
        simp only [hxx, if_false] at h2 ⊢
        exact bytesLt_trans xs ys zs h1 h2
      · have : ¬ x < z := by omega
        simp [this, hxz] at h2
    · have : ¬ x < y := by omega
      simp [this, hxy] at h1

theorem bytesLt_tri : ∀ a b, bytesLt a b = true ∨ a = b ∨ bytesLt b a = true
  | [], [] => Or.inr (Or.inl rfl)
  | [], _ :: _ => Or.inl (by simp [bytesLt])
  | _ :: _, [] => Or.inr (Or.inr (by simp [bytesLt]))
  | x :: xs, y :: ys => by
    simp only [bytesLt]
    by_cases hxy : x < y
    · left; simp [hxy]
    · by_cases hyx : y < x
      · right; right; simp [hyx]
      · have : x = y := by omega
        subst this
        simp [hxy]
        rcases bytesLt_tri xs ys with h | h | h
        · exact Or.inl h
        · exact Or.inr (Or.inl h)
        · exact Or.inr (Or.inr h)

theorem bytesLt_swo : SWO bytesLt := SWO.ofStrictTotal bytesLt_irrefl bytesLt_trans bytesLt_tri

/-! ### `less` is a strict total order on `Meta` -/

def tsLt (a b : Meta) : Bool := decide (a.ts < b.ts)
def nsLt (a b : Meta) : Bool := bytesLt a.ns b.ns
def nameLt (a b : Meta) : Bool := bytesLt a.name b.name

theorem less_eq_lex (a b : Meta) : less a b = lexLt tsLt (lexLt nsLt nameLt) a b := by
  unfold less lexLt tsLt nsLt nameLt
  by_cases hts : a.ts = b.ts
  · have h1 : ¬ a.ts < b.ts := by omega
    have h2 : ¬ b.ts < a.ts := by omega
    simp only [hts, if_true]
    by_cases hns : a.ns = b.ns
    · simp [hns, bytesLt_irrefl]
    · simp only [hns, if_false]
      rcases bytesLt_tri a.ns b.ns with h | h | h
      · simp [h]
      · exact absurd h hns
      · have := bytesLt_swo.asymm _ _ h
        simp [h, this]
  · simp only [hts, if_false]
    by_cases h : a.ts < b.ts
    · simp [h]
    · have : b.ts < a.ts := by omega
      simp [h, this]

theorem less_swo : SWO less := by
  have h : SWO (lexLt tsLt (lexLt nsLt nameLt)) :=
    SWO.lex (SWO.ofMeasure (fun m : Meta => m.ts))
      (SWO.lex (SWO.comap (fun m : Meta => m.ns) bytesLt_swo) (SWO.comap (fun m : Meta => m.name) bytesLt_swo))
  have e : less = lexLt tsLt (lexLt nsLt nameLt) := by funext a b; exact less_eq_lex a b
  rw [e]; exact h

theorem less_irrefl (a : Meta) : less a a = false := less_swo.irrefl a

theorem less_trans {a b c : Meta} (h1 : less a b = true) (h2 : less b c = true) : less a c = true :=
  less_swo.trans h1 h2

theorem less_asymm {a b : Meta} (h : less a b = true) : less b a = false := less_swo.asymm a b h

theorem less_tri (a b : Meta) : less a b = true ∨ a = b ∨ less b a = true := by
  unfold less
  by_cases hts : a.ts = b.ts
  · by_cases hns : a.ns = b.ns
    · rcases bytesLt_tri a.name b.name with h | h | h
      · left; simp [hts, hns, h]
      · right; left
        cases a; cases b; simp_all
      · right; right; simp [hts, hns, h]
    · rcases bytesLt_tri a.ns b.ns with h | h | h
      · left; simp [hts, hns, h]
      · exact absurd h hns
      · right; right
        have : ¬ b.ns = a.ns := fun e => hns e.symm
        simp [hts, this, h]
  · by_cases h : a.ts < b.ts
    · left; simp [hts, h]
    · right; right
      have h' : b.ts < a.ts := by omega
      have : ¬ b.ts = a.ts := fun e => hts e.symm
      simp [this, h']

theorem le_total (a b : Meta) : (le a b || le b a) = true := less_swo.le_total a b
theorem le_trans (a b c : Meta) : le a b = true → le b c = true → le a c = true := less_swo.le_trans a b c

theorem le_antisymm {a b : Meta} (h1 : le a b = true) (h2 : le b a = true) : a = b := by
  unfold le at *
  rcases less_tri a b with h | h | h
  · simp [h] at h2
  · exact h
  · simp [h] at h1

theorem le_of_ne {a b : Meta} (h : le a b = true) (hne : a ≠ b) : less a b = true := by
  rcases less_tri a b with h' | h' | h'
  · exact h'
  · exact absurd h' hne
  · unfold le at h; simp [h'] at h

/-! ### sorting objects by their Meta -/

section sortBy
variable {α : Type} (m : α → Meta)

theorem sortBy_eq (l : List α) : sortBy m l = l.mergeSort (fun a b => le (m a) (m b)) :=
  isort_eq_mergeSort (fun a b c => le_trans (m a) (m b) (m c)) (fun a b => le_total (m a) (m b)) l

theorem sortBy_perm (l : List α) : (sortBy m l).Perm l := isort_perm l

theorem sortBy_pairwise (l : List α) :
    List.Pairwise (fun a b => le (m a) (m b) = true) (sortBy m l) :=
  isort_pairwise (fun a b c => le_trans (m a) (m b) (m c)) (fun a b => le_total (m a) (m b)) l

/-- keys (`Meta`s) of the listed objects are pairwise distinct: `m` is injective on the list -/
def InjOn (l : List α) : Prop := ∀ a b, a ∈ l → b ∈ l → m a = m b → a = b

theorem sortBy_perm_invariant (l1 l2 : List α) (hp : l1.Perm l2) (inj : InjOn m l1) :
    sortBy m l1 = sortBy m l2 := by
  rw [sortBy_eq, sortBy_eq]
  exact mergeSort_perm_invariant (fun a b c => le_trans (m a) (m b) (m c)) (fun a b => le_total (m a) (m b))
    l1 l2 hp (fun a b ha hb h1 h2 => inj a b ha hb (le_antisymm h1 h2))

/-- any sorted permutation (the contract of Go's `sort.Slice`) is the model's `sortBy` -/
theorem any_sort_eq_sortBy (l s : List α) (hp : s.Perm l)
    (hs : List.Pairwise (fun a b => le (m a) (m b) = true) s) (inj : InjOn m l) :
    s = sortBy m l := by
  rw [sortBy_eq]
  exact any_sort_eq_mergeSort (fun a b c => le_trans (m a) (m b) (m c)) (fun a b => le_total (m a) (m b))
    l s hp hs (fun a b ha hb h1 h2 => inj a b ha hb (le_antisymm h1 h2))

theorem head_sortBy_min (l : List α) (w : α) (rest : List α) (h : sortBy m l = w :: rest) :
    w ∈ l ∧ (∀ x ∈ l, le (m w) (m x) = true) ∧ (w :: rest).Perm l := by
  have hp : (w :: rest).Perm l := h ▸ sortBy_perm m l
  have hs := sortBy_pairwise m l
  rw [h] at hs
  refine ⟨hp.mem_iff.mp List.mem_cons_self, ?_, hp⟩
  intro x hx
  rcases List.mem_cons.mp (hp.mem_iff.mpr hx) with e | hr
  · subst e; have := le_total (m x) (m x); simpa using this
  · exact (List.pairwise_cons.mp hs).1 x hr

end sortBy

/-! ### higherPriority is a strict weak order -/

def mLt (a b : MatchRule) : Bool := a.hasMethod && !b.hasMethod
def hLt (a b : MatchRule) : Bool := decide (b.headers < a.headers)
def qLt (a b : MatchRule) : Bool := decide (b.queries < a.queries)
def sLt (a b : MatchRule) : Bool := less a.src b.src

theorem hp_eq_lex (a b : MatchRule) :
    higherPriority a b = lexLt mLt (lexLt hLt (lexLt qLt sLt)) a b := by
  unfold higherPriority lexLt mLt hLt qLt sLt
  cases a.hasMethod <;> cases b.hasMethod <;> simp <;>
  · rcases Nat.lt_trichotomy a.headers b.headers with h | h | h
    · have h1 : ¬ a.headers = b.headers := by omega
      have h2 : ¬ b.headers < a.headers := by omega
      simp [h1, h2, h]
    · rcases Nat.lt_trichotomy a.queries b.queries with q | q | q
      · have q1 : ¬ a.queries = b.queries := by omega
        have q2 : ¬ b.queries < a.queries := by omega
        simp [h, q1, q2, q]
      · simp [h, q]
      · have q1 : ¬ a.queries = b.queries := by omega
        simp [h, q1, q]
    · have h1 : ¬ a.headers = b.headers := by omega
      simp [h1, h]

theorem mLt_swo : SWO mLt := by
  have e : mLt = fun a b => decide ((if a.hasMethod then (0:Int) else 1) < (if b.hasMethod then (0:Int) else 1)) := by
    funext a b; unfold mLt; cases a.hasMethod <;> cases b.hasMethod <;> simp
  rw [e]; exact SWO.ofMeasure _

theorem hLt_swo : SWO hLt := by
  have e : hLt = fun a b => decide (-(a.headers : Int) < -(b.headers : Int)) := by
    funext a b; unfold hLt; simp
  rw [e]; exact SWO.ofMeasure _

theorem qLt_swo : SWO qLt := by
  have e : qLt = fun a b => decide (-(a.queries : Int) < -(b.queries : Int)) := by
    funext a b; unfold qLt; simp
  rw [e]; exact SWO.ofMeasure _

theorem hp_swo : SWO higherPriority := by
  have e : higherPriority = lexLt mLt (lexLt hLt (lexLt qLt sLt)) := by funext a b; exact hp_eq_lex a b
  rw [e]
  exact SWO.lex mLt_swo (SWO.lex hLt_swo (SWO.lex qLt_swo (SWO.comap (fun r : MatchRule => r.src) less_swo)))

theorem sortMatchRules_eq (l : List MatchRule) : sortMatchRules l = l.mergeSort mrLe :=
  isort_eq_mergeSort (fun a b c => hp_swo.le_trans a b c) (fun a b => hp_swo.le_total a b) l

theorem mrLe_total (a b : MatchRule) : (mrLe a b || mrLe b a) = true := hp_swo.le_total a b
theorem mrLe_trans (a b c : MatchRule) : mrLe a b = true → mrLe b c = true → mrLe a c = true :=
  hp_swo.le_trans a b c

/-! ### running minimum (`findBackendTLSPolicyForService`) -/

abbrev upd := btpUpd

theorem upd_idem (acc : Option Btp) (b : Btp) : upd (upd acc b) b = upd acc b := by
  unfold upd btpUpd
  cases acc with
  | none => simp [less_irrefl]
  | some c =>
    by_cases h : less b.md c.md = true
    · simp [h, less_irrefl]
    · simp [h]

def cand (refNs refName : List Nat) (b : Btp) : Bool := decide (b.md.ns = refNs ∧ refName ∈ b.targets)

theorem btpStep_eq (refNs refName : List Nat) (acc : Option Btp) (b : Btp) :
    btpStep refNs refName acc b = if cand refNs refName b = true then upd acc b else acc := by
  unfold btpStep cand
  generalize b.targets = ts
  induction ts generalizing acc with
  | nil => simp
  | cons t ts ih =>
    simp only [List.foldl_cons]
    by_cases ht : t = refName ∧ b.md.ns = refNs
    · rw [if_pos ht, ih]
      have h1 : decide (b.md.ns = refNs ∧ refName ∈ t :: ts) = true := by simp [ht.1, ht.2]
      rw [if_pos h1]
      by_cases h2 : decide (b.md.ns = refNs ∧ refName ∈ ts) = true
      · rw [if_pos h2]; exact upd_idem acc b
      · rw [if_neg h2]
    · rw [if_neg ht, ih]
      have h1 : decide (b.md.ns = refNs ∧ refName ∈ t :: ts) = decide (b.md.ns = refNs ∧ refName ∈ ts) := by
        by_cases hns : b.md.ns = refNs
        · have h3 : ¬ t = refName := fun e => ht ⟨e, hns⟩
          have h4 : ¬ refName = t := fun e => h3 e.symm
          simp [hns, h4]
        · simp [hns]
      rw [h1]

theorem foldl_filter {α β : Type} (p : α → Bool) (g : β → α → β) :
    ∀ (l : List α) (init : β),
      l.foldl (fun acc a => if p a then g acc a else acc) init = (l.filter p).foldl g init
  | [], _ => rfl
  | a :: l, init => by
    by_cases h : p a = true
    · simp [List.filter_cons_of_pos h, h, foldl_filter p g l]
    · simp [List.filter_cons_of_neg h, h, foldl_filter p g l]

theorem findBTP_eq (btps : List Btp) (refNs refName : List Nat) :
    findBTP btps refNs refName = (btps.filter (cand refNs refName)).foldl upd none := by
  unfold findBTP
  have : btpStep refNs refName = fun acc b => if cand refNs refName b then upd acc b else acc := by
    funext acc b; exact btpStep_eq refNs refName acc b
  rw [this, foldl_filter]

theorem foldl_upd_some : ∀ (l : List Btp) (c : Btp),
    ∃ r, l.foldl upd (some c) = some r ∧ r ∈ c :: l ∧ ∀ x ∈ c :: l, le r.md x.md = true
  | [], c => ⟨c, rfl, List.mem_cons_self, by
      intro x hx; simp at hx; subst hx; have := le_total x.md x.md; simpa using this⟩
  | b :: l, c => by
    simp only [List.foldl_cons]
    by_cases h : less b.md c.md = true
    · have e : upd (some c) b = some b := by simp [upd, btpUpd, h]
      rw [e]
      obtain ⟨r, hr, hm, hmin⟩ := foldl_upd_some l b
      refine ⟨r, hr, ?_, ?_⟩
      · rcases List.mem_cons.mp hm with e | e
        · subst e; simp
        · simp [e]
      · intro x hx
        rcases List.mem_cons.mp hx with e | e
        · subst e
          have hb := hmin b List.mem_cons_self
          have : le b.md x.md = true := by unfold le; simp [less_asymm h]
          exact le_trans _ _ _ hb this
        · exact hmin x e
    · have e : upd (some c) b = some c := by simp [upd, btpUpd, h]
      rw [e]
      obtain ⟨r, hr, hm, hmin⟩ := foldl_upd_some l c
      refine ⟨r, hr, ?_, ?_⟩
      · rcases List.mem_cons.mp hm with e | e
        · subst e; simp
        · simp [e]
      · intro x hx
        rcases List.mem_cons.mp hx with e | e
        · subst e; exact hmin _ List.mem_cons_self
        · rcases List.mem_cons.mp e with e | e
          · subst e
            have hc := hmin c List.mem_cons_self
            have : le c.md x.md = true := by unfold le; simpa using h
            exact le_trans _ _ _ hc this
          · exact hmin x (List.mem_cons_of_mem _ e)

/-! ### TLS claims -/

theorem grant_spec : ∀ (cs taken : List String),
    (∀ k, k ∈ (grant taken cs).1 → k ∈ cs ∧ k ∉ taken) ∧
    (∀ k, k ∈ (grant taken cs).2 ↔ k ∈ taken ∨ k ∈ cs)
  | [], taken => by simp [grant]
  | c :: cs, taken => by
    by_cases h : taken.contains c = true
    · have hc : c ∈ taken := by simpa using h
      have ih := grant_spec cs taken
      simp only [grant, h, if_true]
      refine ⟨fun k hk => ⟨List.mem_cons_of_mem _ (ih.1 k hk).1, (ih.1 k hk).2⟩, fun k => ?_⟩
      rw [ih.2 k]
      constructor
      · rintro (h1 | h1)
        · exact Or.inl h1
        · exact Or.inr (List.mem_cons_of_mem _ h1)
      · rintro (h1 | h1)
        · exact Or.inl h1
        · rcases List.mem_cons.mp h1 with e | e
          · subst e; exact Or.inl hc
          · exact Or.inr e
    · have hc : c ∉ taken := by simpa using h
      have ih := grant_spec cs (c :: taken)
      simp only [grant, h]
      refine ⟨fun k hk => ?_, fun k => ?_⟩
      · rcases List.mem_cons.mp hk with e | e
        · subst e; exact ⟨List.mem_cons_self, hc⟩
        · have := ih.1 k e
          exact ⟨List.mem_cons_of_mem _ this.1, fun h' => this.2 (List.mem_cons_of_mem _ h')⟩
      · show k ∈ (grant (c :: taken) cs).2 ↔ _
        rw [ih.2 k]
        simp only [List.mem_cons]
        constructor
        · rintro ((h1 | h1) | h1)
          · exact Or.inr (Or.inl h1)
          · exact Or.inl h1
          · exact Or.inr (Or.inr h1)
        · rintro (h1 | h1 | h1)
          · exact Or.inl (Or.inr h1)
          · exact Or.inl (Or.inl h1)
          · exact Or.inr h1

theorem bind_spec : ∀ (rs : List L4) (taken : List String) (r : L4) (g : List String) (k : String),
    (r, g) ∈ bindL4Sorted taken rs → k ∈ g →
    k ∉ taken ∧ k ∈ r.claims ∧ ∃ pre post, rs = pre ++ r :: post ∧ ∀ r' ∈ pre, k ∉ r'.claims
  | [], _, _, _, _, h, _ => by simp [bindL4Sorted] at h
  | r0 :: rs, taken, r, g, k, h, hk => by
    simp only [bindL4Sorted, List.mem_cons] at h
    have gs := grant_spec r0.claims taken
    rcases h with h | h
    · have e1 : r = r0 := (Prod.mk.inj h).1
      have e2 : g = (grant taken r0.claims).1 := (Prod.mk.inj h).2
      subst e1; subst e2
      exact ⟨(gs.1 k hk).2, (gs.1 k hk).1, [], rs, rfl, by simp⟩
    · obtain ⟨hnt, hc, pre, post, hrs, hpre⟩ := bind_spec rs _ r g k h hk
      have hnot : ¬ (k ∈ taken ∨ k ∈ r0.claims) := fun hh => hnt ((gs.2 k).mpr hh)
      refine ⟨fun hh => hnot (Or.inl hh), hc, r0 :: pre, post, by simp [hrs], ?_⟩
      intro r' hr'
      rcases List.mem_cons.mp hr' with e | e
      · subst e; exact fun hh => hnot (Or.inr hh)
      · exact hpre r' e

theorem bind_complete : ∀ (rs : List L4) (taken : List String) (r : L4) (k : String),
    r ∈ rs → k ∈ r.claims → k ∈ taken ∨ ∃ r' g, (r', g) ∈ bindL4Sorted taken rs ∧ k ∈ g
  | [], _, _, _, h, _ => by simp at h
  | r0 :: rs, taken, r, k, h, hk => by
    have gs := grant_spec r0.claims taken
    by_cases hg : k ∈ (grant taken r0.claims).1
    · exact Or.inr ⟨r0, _, by simp [bindL4Sorted], hg⟩
    · rcases List.mem_cons.mp h with e | e
      · subst e
        -- k is claimed by the head but not granted: it was already taken
        by_cases ht : k ∈ taken
        · exact Or.inl ht
        · exfalso
          -- k ∈ claims, k ∉ taken → granted
          have : ∀ (cs taken : List String), k ∈ cs → k ∉ taken → k ∈ (grant taken cs).1 := by
            intro cs
            induction cs with
            | nil => intro _ h; simp at h
            | cons c cs ih =>
              intro taken hc hnt
              by_cases hcc : taken.contains c = true
              · have hct : c ∈ taken := by simpa using hcc
                simp only [grant, hcc, if_true]
                rcases List.mem_cons.mp hc with e | e
                · subst e; exact absurd hct hnt
                · exact ih taken e hnt
              · simp only [grant, hcc]
                by_cases e : k = c
                · subst e; exact List.mem_cons_self
                · rcases List.mem_cons.mp hc with e' | e'
                  · exact absurd e' e
                  · exact List.mem_cons_of_mem _ (ih (c :: taken) e' (by simp [e, hnt]))
          exact hg (this _ _ hk ht)
      · rcases bind_complete rs (grant taken r0.claims).2 r k e hk with h1 | ⟨r', g, h1, h2⟩
        · rcases (gs.2 k).mp h1 with h2 | h2
          · exact Or.inl h2
          · by_cases ht : k ∈ taken
            · exact Or.inl ht
            · -- claimed by head and not taken: granted to head, contradiction with hg
              exfalso
              have : ∀ (cs taken : List String), k ∈ cs → k ∉ taken → k ∈ (grant taken cs).1 := by
                intro cs
                induction cs with
                | nil => intro _ h; simp at h
                | cons c cs ih =>
                  intro taken hc hnt
                  by_cases hcc : taken.contains c = true
                  · have hct : c ∈ taken := by simpa using hcc
                    simp only [grant, hcc, if_true]
                    rcases List.mem_cons.mp hc with e | e
                    · subst e; exact absurd hct hnt
                    · exact ih taken e hnt
                  · simp only [grant, hcc]
                    by_cases e : k = c
                    · subst e; exact List.mem_cons_self
                    · rcases List.mem_cons.mp hc with e' | e'
                      · exact absurd e' e
                      · exact List.mem_cons_of_mem _ (ih (c :: taken) e' (by simp [e, hnt]))
              exact hg (this _ _ h2 ht)
        · exact Or.inr ⟨r', g, by simp [bindL4Sorted, h1], h2⟩

/-! ### policy conflict marking: frame and locality of one group -/

theorem markFrom_mem (conf : Pol → Pol → Bool) (i : Pol) :
    ∀ (js : List Pol) (inv : List Nat) (x : Nat),
      x ∈ markFrom conf i js inv ↔ x ∈ inv ∨ ∃ j ∈ js, j.id = x ∧ conf i j = true
  | [], inv, x => by simp [markFrom]
  | j :: js, inv, x => by
    by_cases h : (!inv.contains j.id && conf i j) = true
    · simp only [markFrom, h, if_true]
      rw [markFrom_mem conf i js (j.id :: inv) x]
      simp only [Bool.and_eq_true, Bool.not_eq_true'] at h
      constructor
      · rintro (h1 | ⟨j', hj', e, c⟩)
        · rcases List.mem_cons.mp h1 with e | e
          · exact Or.inr ⟨j, List.mem_cons_self, e.symm, h.2⟩
          · exact Or.inl e
        · exact Or.inr ⟨j', List.mem_cons_of_mem _ hj', e, c⟩
      · rintro (h1 | ⟨j', hj', e, c⟩)
        · exact Or.inl (List.mem_cons_of_mem _ h1)
        · rcases List.mem_cons.mp hj' with e' | e'
          · subst e'; exact Or.inl (by simp [e])
          · exact Or.inr ⟨j', e', e, c⟩
    · simp only [markFrom, h, Bool.false_eq_true, if_false]
      rw [markFrom_mem conf i js inv x]
      constructor
      · rintro (h1 | ⟨j', hj', e, c⟩)
        · exact Or.inl h1
        · exact Or.inr ⟨j', List.mem_cons_of_mem _ hj', e, c⟩
      · rintro (h1 | ⟨j', hj', e, c⟩)
        · exact Or.inl h1
        · rcases List.mem_cons.mp hj' with e' | e'
          · subst e'
            -- j conflicts but was already invalid
            have : j'.id ∈ inv := by
              simpa [c] using h
            exact Or.inl (by subst e; exact this)
          · exact Or.inr ⟨j', e', e, c⟩

/-- frame: a group only touches the ids of its own members -/
theorem processGroup_frame (conf : Pol → Pol → Bool) :
    ∀ (g : List Pol) (inv : List Nat) (x : Nat), (∀ p ∈ g, p.id ≠ x) →
      (x ∈ processGroup conf g inv ↔ x ∈ inv)
  | [], inv, x, _ => by simp [processGroup]
  | i :: rest, inv, x, hx => by
    have hrest : ∀ p ∈ rest, p.id ≠ x := fun p hp => hx p (List.mem_cons_of_mem _ hp)
    by_cases h : inv.contains i.id = true
    · simp only [processGroup, h, if_true]
      exact processGroup_frame conf rest inv x hrest
    · simp only [processGroup, h, Bool.false_eq_true, if_false]
      rw [processGroup_frame conf rest _ x hrest, markFrom_mem]
      constructor
      · rintro (h1 | ⟨j, hj, e, _⟩)
        · exact h1
        · exact absurd e (hrest j hj)
      · exact Or.inl

/-- monotone: nothing becomes valid again -/
theorem processGroup_mono (conf : Pol → Pol → Bool) :
    ∀ (g : List Pol) (inv : List Nat) (x : Nat), x ∈ inv → x ∈ processGroup conf g inv
  | [], inv, x, h => by simpa [processGroup] using h
  | i :: rest, inv, x, h => by
    by_cases hc : inv.contains i.id = true
    · simp only [processGroup, hc, if_true]; exact processGroup_mono conf rest inv x h
    · simp only [processGroup, hc, Bool.false_eq_true, if_false]
      exact processGroup_mono conf rest _ x ((markFrom_mem conf i rest inv x).mpr (Or.inl h))

/-- locality: the effect of a group on a scope `S` containing its members depends only on the state
restricted to `S` -/
theorem processGroup_local (conf : Pol → Pol → Bool) (S : List Nat) :
    ∀ (g : List Pol) (inv inv' : List Nat), (∀ p ∈ g, p.id ∈ S) →
      (∀ x ∈ S, x ∈ inv ↔ x ∈ inv') →
      ∀ x ∈ S, x ∈ processGroup conf g inv ↔ x ∈ processGroup conf g inv'
  | [], inv, inv', _, hag, x, hx => by simpa [processGroup] using hag x hx
  | i :: rest, inv, inv', hS, hag, x, hx => by
    have hi : i.id ∈ S := hS i List.mem_cons_self
    have hrest : ∀ p ∈ rest, p.id ∈ S := fun p hp => hS p (List.mem_cons_of_mem _ hp)
    have hci : inv.contains i.id = inv'.contains i.id := by
      have := hag i.id hi
      cases h1 : inv.contains i.id <;> cases h2 : inv'.contains i.id <;> simp_all
    by_cases h : inv.contains i.id = true
    · have h' : inv'.contains i.id = true := hci ▸ h
      simp only [processGroup, h, h', if_true]
      exact processGroup_local conf S rest inv inv' hrest hag x hx
    · have h' : ¬ inv'.contains i.id = true := hci ▸ h
      simp only [processGroup, h, h', Bool.false_eq_true, if_false]
      apply processGroup_local conf S rest _ _ hrest _ x hx
      intro y hy
      rw [markFrom_mem, markFrom_mem, hag y hy]

def ids (g : List Pol) : List Nat := g.map (·.id)

def Disjoint (a b : List Pol) : Prop := ∀ x, x ∈ ids a → x ∉ ids b

def runGroups (conf : Pol → Pol → Bool) (gs : List (List Pol)) (inv : List Nat) : List Nat :=
  gs.foldl (fun inv g => processGroup conf g inv) inv

theorem runGroups_frame (conf : Pol → Pol → Bool) :
    ∀ (gs : List (List Pol)) (inv : List Nat) (x : Nat), (∀ g ∈ gs, x ∉ ids g) →
      (x ∈ runGroups conf gs inv ↔ x ∈ inv)
  | [], inv, x, _ => by simp [runGroups]
  | h :: t, inv, x, hx => by
    simp only [runGroups, List.foldl_cons]
    have := runGroups_frame conf t (processGroup conf h inv) x (fun g hg => hx g (List.mem_cons_of_mem _ hg))
    simp only [runGroups] at this
    rw [this]
    apply processGroup_frame
    intro p hp e
    exact hx h List.mem_cons_self (by simp [ids]; exact ⟨p, hp, e⟩)

/-- with pairwise disjoint groups, the fate of a member of `g` is decided by `g` alone -/
theorem runGroups_member (conf : Pol → Pol → Bool) :
    ∀ (gs : List (List Pol)) (inv : List Nat) (g : List Pol) (x : Nat),
      List.Pairwise Disjoint gs → g ∈ gs → x ∈ ids g →
      (x ∈ runGroups conf gs inv ↔ x ∈ processGroup conf g inv)
  | [], _, _, _, _, hg, _ => by simp at hg
  | h :: t, inv, g, x, hpw, hg, hx => by
    simp only [runGroups, List.foldl_cons]
    have hpw' := List.pairwise_cons.mp hpw
    by_cases e : x ∈ ids h
    · -- x belongs to the head group; then it belongs to no group of the tail
      have hfr := runGroups_frame conf t (processGroup conf h inv) x (fun b hb => hpw'.1 b hb x e)
      simp only [runGroups] at hfr
      rw [hfr]
      rcases List.mem_cons.mp hg with e' | e'
      · subst e'; exact Iff.rfl
      · exact absurd hx (hpw'.1 g e' x e)
    · rcases List.mem_cons.mp hg with e' | e'
      · subst e'; exact absurd hx e
      · have ih := runGroups_member conf t (processGroup conf h inv) g x hpw'.2 e' hx
        simp only [runGroups] at ih
        rw [ih]
        apply processGroup_local conf (ids g) g _ _ (fun p hp => by simp [ids]; exact ⟨p, hp, rfl⟩) _ x hx
        intro y hy
        apply processGroup_frame
        intro p hp e2
        exact hpw'.1 g e' y (by simp [ids]; exact ⟨p, hp, e2⟩) hy

theorem disjoint_symm {a b : List Pol} (h : Disjoint a b) : Disjoint b a :=
  fun x hb ha => h x ha hb

/-- pairwise disjoint groups may be processed in any order -/
theorem runGroups_perm (conf : Pol → Pol → Bool) (gs gs' : List (List Pol)) (hp : gs.Perm gs')
    (hd : List.Pairwise Disjoint gs) (x : Nat) :
    x ∈ runGroups conf gs [] ↔ x ∈ runGroups conf gs' [] := by
  have hd' : List.Pairwise Disjoint gs' := (hp.pairwise_iff (fun h => disjoint_symm h)).mp hd
  by_cases h : ∃ g ∈ gs, x ∈ ids g
  · obtain ⟨g, hg, hx⟩ := h
    rw [runGroups_member conf gs [] g x hd hg hx,
        runGroups_member conf gs' [] g x hd' (hp.mem_iff.mp hg) hx]
  · have h1 : ∀ g ∈ gs, x ∉ ids g := fun g hg hx => h ⟨g, hg, hx⟩
    have h2 : ∀ g ∈ gs', x ∉ ids g := fun g hg hx => h ⟨g, hp.mem_iff.mpr hg, hx⟩
    rw [runGroups_frame conf gs [] x h1, runGroups_frame conf gs' [] x h2]

theorem pairwise_ids_inj : ∀ (l : List Pol), List.Pairwise (fun a b => a.id ≠ b.id) l →
    ∀ x ∈ l, ∀ y ∈ l, x.id = y.id → x = y
  | [], _, _, hx, _, _, _ => by simp at hx
  | a :: t, hp, x, hx, y, hy, e => by
    have hp' := List.pairwise_cons.mp hp
    rcases List.mem_cons.mp hx with hx | hx <;> rcases List.mem_cons.mp hy with hy | hy
    · rw [hx, hy]
    · rw [hx] at e; exact absurd e (hp'.1 y hy)
    · rw [hy] at e; exact absurd e.symm (hp'.1 x hx)
    · exact pairwise_ids_inj t hp'.2 x hx y hy e

theorem dropped_sub (conf : Pol → Pol → Bool) : ∀ (rest acc : List Pol) (p : Pol), p ∈ dropped conf acc rest → p ∈ rest
  | [], _, _, h => by simp [dropped] at h
  | q :: rest, acc, p, h => by
    by_cases hc : acc.any (fun a => conf a q) = true
    · simp only [dropped, hc, if_true] at h
      rcases List.mem_cons.mp h with e | e
      · rw [e]; exact List.mem_cons_self
      · exact List.mem_cons_of_mem _ (dropped_sub conf rest acc p e)
    · simp only [dropped, hc, Bool.false_eq_true, if_false] at h
      exact List.mem_cons_of_mem _ (dropped_sub conf rest _ p h)

/-- whoever conflicts with a current survivor is dropped -/
theorem dropped_of_any (conf : Pol → Pol → Bool) : ∀ (rest acc : List Pol) (j : Pol),
    j ∈ rest → acc.any (fun a => conf a j) = true → j ∈ dropped conf acc rest
  | [], _, _, h, _ => by simp at h
  | q :: rest, acc, j, h, ha => by
    by_cases hc : acc.any (fun a => conf a q) = true
    · simp only [dropped, hc, if_true]
      rcases List.mem_cons.mp h with e | e
      · rw [e]; exact List.mem_cons_self
      · exact List.mem_cons_of_mem _ (dropped_of_any conf rest acc j e ha)
    · simp only [dropped, hc, Bool.false_eq_true, if_false]
      rcases List.mem_cons.mp h with e | e
      · rw [e] at ha; exact absurd ha hc
      · exact dropped_of_any conf rest _ j e (by simp [List.any_append, ha])

/-- `processGroup` (the two nested loops of markConflictedPolicies) computes the greedy-by-age losers:
soundness AND completeness, from any state `inv` that reflects the survivors `acc` seen so far. -/
theorem processGroup_greedy (conf : Pol → Pol → Bool) :
    ∀ (rest acc : List Pol) (inv : List Nat),
      List.Pairwise (fun a b => a.id ≠ b.id) rest →
      (∀ j ∈ rest, (j.id ∈ inv ↔ acc.any (fun a => conf a j) = true)) →
      ∀ x, x ∈ processGroup conf rest inv ↔ x ∈ inv ∨ x ∈ (dropped conf acc rest).map (·.id)
  | [], acc, inv, _, _, x => by simp [processGroup, dropped]
  | i :: rest, acc, inv, hpw, hinv, x => by
    have hpw' := List.pairwise_cons.mp hpw
    have hi := hinv i List.mem_cons_self
    have hrest : ∀ j ∈ rest, (j.id ∈ inv ↔ acc.any (fun a => conf a j) = true) :=
      fun j hj => hinv j (List.mem_cons_of_mem _ hj)
    by_cases hc : inv.contains i.id = true
    · have hin : i.id ∈ inv := by simpa using hc
      have hany : acc.any (fun a => conf a i) = true := hi.mp hin
      simp only [processGroup, hc, if_true, dropped, hany, List.map_cons, List.mem_cons]
      rw [processGroup_greedy conf rest acc inv hpw'.2 hrest x]
      constructor
      · rintro (h | h)
        · exact Or.inl h
        · exact Or.inr (Or.inr h)
      · rintro (h | h | h)
        · exact Or.inl h
        · rw [h]; exact Or.inl hin
        · exact Or.inr h
    · have hnin : ¬ i.id ∈ inv := by simpa using hc
      have hany : ¬ acc.any (fun a => conf a i) = true := fun h => hnin (hi.mpr h)
      simp only [processGroup, hc, Bool.false_eq_true, if_false, dropped, hany]
      have hinv' : ∀ j ∈ rest, (j.id ∈ markFrom conf i rest inv ↔ (acc ++ [i]).any (fun a => conf a j) = true) := by
        intro j hj
        rw [markFrom_mem, hrest j hj]
        simp only [List.any_append, List.any_cons, List.any_nil, Bool.or_false, Bool.or_eq_true]
        constructor
        · rintro (h | ⟨j', hj', e, c⟩)
          · exact Or.inl h
          · have : j' = j := by
              by_cases ejj : j' = j
              · exact ejj
              · exfalso
                -- two different members of `rest` with one id contradict pairwise distinctness
                have := pairwise_ids_inj rest hpw'.2 j' hj' j hj e
                exact ejj this
            rw [this] at c; exact Or.inr c
        · rintro (h | h)
          · exact Or.inl h
          · exact Or.inr ⟨j, hj, rfl, h⟩
      rw [processGroup_greedy conf rest (acc ++ [i]) _ hpw'.2 hinv' x, markFrom_mem]
      constructor
      · rintro ((h | ⟨j, hj, e, c⟩) | h)
        · exact Or.inl h
        · right
          exact List.mem_map.mpr ⟨j, dropped_of_any conf rest _ j hj (by simp [List.any_append, c]), e⟩
        · exact Or.inr h
      · rintro (h | h)
        · exact Or.inl (Or.inl h)
        · exact Or.inr h

/-- explicit form of the greedy specification: the policy at a given position is dropped iff one of the SURVIVORS among
the older policies conflicts with it -/
theorem mem_dropped_iff (conf : Pol → Pol → Bool) (p : Pol) (post : List Pol) (hpost : p ∉ post) :
    ∀ (pre acc : List Pol), p ∉ pre →
      (p ∈ dropped conf acc (pre ++ p :: post) ↔ (survivors conf acc pre).any (fun q => conf q p) = true)
  | [], acc, _ => by
    by_cases hc : acc.any (fun a => conf a p) = true
    · simp [dropped, survivors, hc]
    · simp only [List.nil_append, dropped, hc, Bool.false_eq_true, if_false, survivors]
      constructor
      · intro h; exact absurd (dropped_sub conf post _ p h) hpost
      · intro h; cases h
  | q :: pre, acc, hpre => by
    have hne : p ≠ q := fun e => hpre (by rw [e]; exact List.mem_cons_self)
    have hpre' : p ∉ pre := fun h => hpre (List.mem_cons_of_mem _ h)
    by_cases hc : acc.any (fun a => conf a q) = true
    · simp only [List.cons_append, dropped, survivors, hc, if_true, List.mem_cons, hne, false_or]
      exact mem_dropped_iff conf p post hpost pre acc hpre'
    · simp only [List.cons_append, dropped, survivors, hc, Bool.false_eq_true, if_false]
      exact mem_dropped_iff conf p post hpost pre (acc ++ [q]) hpre'

theorem markConflicted_eq_runGroups (conf : Pol → Pol → Bool) (keys : List (Nat × Nat)) (pols : List Pol) :
    markConflicted conf keys pols = runGroups conf (keys.map (groupOf pols)) [] := by
  unfold markConflicted runGroups
  rw [List.foldl_map]

end NGF.Order
