/-
Helper lemmas for C13, NGINX Plus part: `serversEqual`, association tables, `updateUpstreamServers`.
Core Lean only.
-/
import NGF.Proofs.Resolver

namespace NGF.Resolver

/-- same set of servers -/
def SetEq (a b : List String) : Prop := ∀ x, x ∈ a ↔ x ∈ b

theorem SetEq.refl (a : List String) : SetEq a a := fun _ => Iff.rfl
theorem SetEq.symm {a b : List String} (h : SetEq a b) : SetEq b a := fun x => (h x).symm
theorem SetEq.trans {a b c : List String} (h : SetEq a b) (h' : SetEq b c) : SetEq a c :=
  fun x => (h x).trans (h' x)

theorem setEq_dedup (l : List String) : SetEq (dedup l) l := fun _ => mem_dedup

theorem setEq_nil {l : List String} (h : SetEq l []) : l = [] := by
  cases l with
  | nil => rfl
  | cons a t => exact absurd ((h a).mp (List.mem_cons_self ..)) (by simp)

/-! ### pigeonhole -/

theorem length_le_of_nodup_subset : ∀ (old new : List String), old.Nodup → (∀ x ∈ old, x ∈ new) →
    old.length ≤ new.length
  | [], _, _, _ => by simp
  | a :: t, new, hnd, hsub => by
    obtain ⟨hat, hnt⟩ := List.nodup_cons.mp hnd
    have ha : a ∈ new := hsub a (List.mem_cons_self ..)
    have hsub' : ∀ x ∈ t, x ∈ new.erase a := by
      intro x hx
      have hxa : x ≠ a := by intro h; subst h; exact hat hx
      exact (List.mem_erase_of_ne hxa).mpr (hsub x (List.mem_cons_of_mem _ hx))
    have ih := length_le_of_nodup_subset t (new.erase a) hnt hsub'
    rw [List.length_erase_of_mem ha] at ih
    have : 0 < new.length := List.length_pos_of_mem ha
    simp only [List.length_cons]; omega

theorem subset_of_nodup_subset_length : ∀ (old new : List String), old.Nodup → (∀ x ∈ old, x ∈ new) →
    new.length ≤ old.length → ∀ x ∈ new, x ∈ old
  | [], new, _, _, hlen => by
    have : new = [] := by cases new <;> simp_all
    simp [this]
  | a :: t, new, hnd, hsub, hlen => by
    obtain ⟨hat, hnt⟩ := List.nodup_cons.mp hnd
    have ha : a ∈ new := hsub a (List.mem_cons_self ..)
    have hsub' : ∀ x ∈ t, x ∈ new.erase a := by
      intro x hx
      have hxa : x ≠ a := by intro h; subst h; exact hat hx
      exact (List.mem_erase_of_ne hxa).mpr (hsub x (List.mem_cons_of_mem _ hx))
    have hlen' : (new.erase a).length ≤ t.length := by
      rw [List.length_erase_of_mem ha]; simp only [List.length_cons] at hlen; omega
    have ih := subset_of_nodup_subset_length t (new.erase a) hnt hsub' hlen'
    intro x hx
    by_cases hxa : x = a
    · subst hxa; exact List.mem_cons_self ..
    · exact List.mem_cons_of_mem _ (ih x ((List.mem_erase_of_ne hxa).mpr hx))

/-! ### serversEqual -/

theorem serversEqual_true {new old : List String} :
    serversEqual new old = true ↔ new.length = old.length ∧ ∀ x ∈ old, x ∈ new := by
  simp [serversEqual, List.all_eq_true]

/-- NGINX never holds the same server twice in one upstream: then "equal" means the same set. -/
theorem setEq_of_serversEqual {new old : List String} (hold : old.Nodup)
    (h : serversEqual new old = true) : SetEq new old := by
  obtain ⟨hlen, hsub⟩ := serversEqual_true.mp h
  intro x
  exact ⟨subset_of_nodup_subset_length old new hold hsub (by omega) x, hsub x⟩

theorem serversEqual_of_setEq {new old : List String} (hnew : new.Nodup) (hold : old.Nodup)
    (h : SetEq new old) : serversEqual new old = true := by
  refine serversEqual_true.mpr ⟨?_, fun x hx => (h x).mpr hx⟩
  have h1 := length_le_of_nodup_subset new old hnew (fun x hx => (h x).mp hx)
  have h2 := length_le_of_nodup_subset old new hold (fun x hx => (h x).mpr hx)
  omega

/-! ### tables -/

/-- every server list held by NGINX is duplicate-free -/
def Table.Inv (t : Table) : Prop := ∀ n l, t.get n = some l → l.Nodup

theorem Table.keys_set (t : Table) (n : String) (v : List String) : (t.set n v).keys = t.keys := by
  induction t with
  | nil => rfl
  | cons kv r ih =>
    obtain ⟨k, old⟩ := kv
    by_cases h : k = n <;> simp_all [Table.set, Table.keys]

theorem Table.get_cons (k : String) (old : List String) (r : Table) (m : String) :
    Table.get ((k, old) :: r) m = if k = m then some old else Table.get r m := rfl

theorem Table.set_cons (k : String) (old : List String) (r : Table) (n : String) (v : List String) :
    Table.set ((k, old) :: r) n v =
      if k = n then (k, dedup v) :: Table.set r n v else (k, old) :: Table.set r n v := rfl

theorem Table.keys_cons (k : String) (old : List String) (r : Table) :
    Table.keys ((k, old) :: r) = k :: Table.keys r := rfl

theorem Table.get_isSome (t : Table) (n : String) : (t.get n).isSome ↔ n ∈ t.keys := by
  induction t with
  | nil => simp [Table.get, Table.keys]
  | cons kv r ih =>
    obtain ⟨k, old⟩ := kv
    rw [Table.get_cons, Table.keys_cons]
    by_cases h : k = n
    · simp [h]
    · have h' : ¬ n = k := fun e => h e.symm
      simp [h, h', ih]

theorem Table.get_set_same (t : Table) (n : String) (v : List String) :
    (t.set n v).get n = if n ∈ t.keys then some (dedup v) else none := by
  induction t with
  | nil => simp [Table.set, Table.get, Table.keys]
  | cons kv r ih =>
    obtain ⟨k, old⟩ := kv
    rw [Table.set_cons, Table.keys_cons]
    by_cases h : k = n
    · simp [h, Table.get_cons]
    · have h' : ¬ n = k := fun e => h e.symm
      simp [h, h', Table.get_cons, ih]

theorem Table.get_set_other (t : Table) {n m : String} (v : List String) (h : m ≠ n) :
    (t.set n v).get m = t.get m := by
  induction t with
  | nil => simp [Table.set, Table.get]
  | cons kv r ih =>
    obtain ⟨k, old⟩ := kv
    rw [Table.set_cons]
    by_cases hk : k = n
    · have : ¬ k = m := by intro e; exact h (e ▸ hk)
      simp [hk, Table.get_cons, ih]
      have h2 : ¬ n = m := fun e => h e.symm
      simp [h2]
    · by_cases hm : k = m
      · subst hm; simp [hk, Table.get_cons]
      · simp [hk, hm, Table.get_cons, ih]

theorem Table.inv_set {t : Table} (h : t.Inv) (n : String) (v : List String) : (t.set n v).Inv := by
  intro m l hl
  by_cases hm : m = n
  · subst hm
    rw [Table.get_set_same] at hl
    split at hl
    · cases hl; exact nodup_dedup v
    · cases hl
  · rw [Table.get_set_other t v hm] at hl
    exact h m l hl

theorem keys_applyAll : ∀ (P : List (String × List String)) (t : Table), (applyAll t P).keys = t.keys
  | [], _ => rfl
  | (n, v) :: r, t => by simp [applyAll, keys_applyAll r, Table.keys_set]

theorem inv_applyAll : ∀ (P : List (String × List String)) (t : Table), t.Inv → (applyAll t P).Inv
  | [], _, h => h
  | (n, v) :: r, t, h => by simp only [applyAll]; exact inv_applyAll r _ (Table.inv_set h n v)

theorem get_applyAll_notin : ∀ (P : List (String × List String)) (t : Table) (m : String),
    m ∉ P.map (·.1) → (applyAll t P).get m = t.get m
  | [], _, _, _ => rfl
  | (n, v) :: r, t, m, h => by
    simp only [List.map_cons, List.mem_cons, not_or] at h
    simp only [applyAll]
    rw [get_applyAll_notin r _ m h.2, Table.get_set_other t v h.1]

theorem get_applyAll_in : ∀ (P : List (String × List String)) (t : Table) (m : String) (v : List String),
    (P.map (·.1)).Nodup → (m, v) ∈ P → m ∈ t.keys → (applyAll t P).get m = some (dedup v)
  | [], _, _, _, _, hmem, _ => by simp at hmem
  | (n, w) :: r, t, m, v, hnd, hmem, hk => by
    simp only [List.map_cons, List.nodup_cons] at hnd
    simp only [applyAll]
    rcases List.mem_cons.mp hmem with heq | hr
    · obtain ⟨h1, h2⟩ := Prod.mk.inj heq
      subst h1; subst h2
      rw [get_applyAll_notin r _ _ hnd.1, Table.get_set_same]
      simp [hk]
    · have hne : m ≠ n := by
        intro e; subst e
        exact hnd.1 (List.mem_map.mpr ⟨(m, v), hr, rfl⟩)
      exact get_applyAll_in r _ m v hnd.2 hr (by rw [Table.keys_set]; exact hk)

/-! ### updateUpstreamServers on one table -/

def pendingOne (prev : Table) (u : Up) : Option (String × List String) :=
  match prev.get u.name with
  | some peers =>
    if serversEqual (convertEndpoints u.eps) peers then none else some (u.name, convertEndpoints u.eps)
  | none => none

theorem pending_eq (ups : List Up) (prev : Table) : pending ups prev = ups.filterMap (pendingOne prev) := rfl

theorem pendingOne_some {prev : Table} {u : Up} {m : String} {v : List String}
    (h : pendingOne prev u = some (m, v)) :
    m = u.name ∧ v = convertEndpoints u.eps ∧
      ∃ peers, prev.get u.name = some peers ∧ serversEqual (convertEndpoints u.eps) peers = false := by
  unfold pendingOne at h
  cases hg : prev.get u.name with
  | none => simp [hg] at h
  | some peers =>
    simp only [hg] at h
    by_cases he : serversEqual (convertEndpoints u.eps) peers = true
    · simp [he] at h
    · simp only [he] at h
      simp only [Bool.false_eq_true, if_false, Option.some.injEq, Prod.mk.injEq] at h
      exact ⟨h.1.symm, h.2.symm, peers, rfl, by simpa using he⟩

theorem pending_keys_sublist (prev : Table) : ∀ (ups : List Up),
    ((pending ups prev).map (·.1)).Sublist (ups.map (·.name))
  | [] => by simp [pending]
  | u :: r => by
    have ih := pending_keys_sublist prev r
    rw [pending_eq] at ih ⊢
    rw [List.filterMap_cons]
    cases h : pendingOne prev u with
    | none => simp only [List.map_cons]; exact List.Sublist.cons _ ih
    | some mv =>
      obtain ⟨m, v⟩ := mv
      obtain ⟨hm, _⟩ := pendingOne_some h
      simp only [List.map_cons, hm]
      exact List.Sublist.cons_cons _ ih

theorem unique_of_nodup_names : ∀ {ups : List Up} {u u' : Up}, (ups.map (·.name)).Nodup →
    u ∈ ups → u' ∈ ups → u.name = u'.name → u = u'
  | [], _, _, _, h, _, _ => by simp at h
  | x :: r, u, u', hnd, hu, hu', hn => by
    simp only [List.map_cons, List.nodup_cons, List.mem_map, not_exists, not_and] at hnd
    rcases List.mem_cons.mp hu with rfl | hur <;> rcases List.mem_cons.mp hu' with rfl | hur'
    · rfl
    · exact absurd hn.symm (hnd.1 u' hur')
    · exact absurd hn (hnd.1 u hur)
    · exact unique_of_nodup_names hnd.2 hur hur' hn

/-- What the two loops of `updateUpstreamServers` do to one API table. -/
theorem updateTable_spec (ups : List Up) (prev : Table) (hn : (ups.map (·.name)).Nodup) (hi : prev.Inv) :
    (applyAll prev (pending ups prev)).keys = prev.keys ∧
    (applyAll prev (pending ups prev)).Inv ∧
    (∀ u ∈ ups, u.name ∈ prev.keys →
      ∃ l, (applyAll prev (pending ups prev)).get u.name = some l ∧ SetEq l (convertEndpoints u.eps)) ∧
    (∀ m, m ∉ ups.map (·.name) → (applyAll prev (pending ups prev)).get m = prev.get m) := by
  have hpn : ((pending ups prev).map (·.1)).Nodup := List.Nodup.sublist (pending_keys_sublist prev ups) hn
  refine ⟨keys_applyAll _ _, inv_applyAll _ _ hi, ?_, ?_⟩
  · intro u hu hk
    obtain ⟨peers, hpeers⟩ := Option.isSome_iff_exists.mp ((Table.get_isSome prev u.name).mpr hk)
    by_cases he : serversEqual (convertEndpoints u.eps) peers = true
    · -- equal: nothing is sent, NGINX keeps `peers`
      have hnot : u.name ∉ (pending ups prev).map (·.1) := by
        intro hin
        obtain ⟨⟨m, v⟩, hmv, hm⟩ := List.mem_map.mp hin
        simp only at hm; subst hm
        rw [pending_eq] at hmv
        obtain ⟨u', hu', hp'⟩ := List.mem_filterMap.mp hmv
        obtain ⟨hm', _, peers', hg', hf'⟩ := pendingOne_some hp'
        have := unique_of_nodup_names hn hu' hu hm'.symm
        subst this
        rw [hpeers] at hg'; cases hg'
        rw [he] at hf'; cases hf'
      refine ⟨peers, by rw [get_applyAll_notin _ _ _ hnot]; exact hpeers, ?_⟩
      exact (setEq_of_serversEqual (hi _ _ hpeers) he).symm
    · -- different: the new list is sent
      have hin : (u.name, convertEndpoints u.eps) ∈ pending ups prev := by
        rw [pending_eq]
        refine List.mem_filterMap.mpr ⟨u, hu, ?_⟩
        simp [pendingOne, hpeers, he]
      refine ⟨dedup (convertEndpoints u.eps), get_applyAll_in _ _ _ _ hpn hin hk, setEq_dedup _⟩
  · intro m hm
    apply get_applyAll_notin
    intro hin
    exact hm ((pending_keys_sublist prev ups).subset hin)

/-! ### reload -/

theorem get_map_pair (f : String → List String) (m : String) : ∀ (l : List String),
    Table.get (l.map fun n => (n, f n)) m = if m ∈ l then some (f m) else none
  | [] => by simp [Table.get]
  | a :: r => by
    rw [List.map_cons, Table.get_cons, get_map_pair f m r]
    by_cases h : a = m
    · subst h; simp
    · have h' : ¬ m = a := fun e => h e.symm
      simp [h, h']

theorem get_reloadTable (names : List String) (old : Table) (m : String) :
    (reloadTable names old).get m = if m ∈ names then some (old.servers m) else none := by
  unfold reloadTable
  rw [get_map_pair (fun n => old.servers n) m (dedup names)]
  simp [mem_dedup]

theorem keys_reloadTable (names : List String) (old : Table) : (reloadTable names old).keys = dedup names := by
  simp [reloadTable, Table.keys, List.map_map, Function.comp_def]

theorem Table.nodup_servers {t : Table} (h : t.Inv) (n : String) : (t.servers n).Nodup := by
  unfold Table.servers
  cases hg : t.get n with
  | none => simp
  | some l => simpa using h n l hg

theorem inv_reloadTable (names : List String) {old : Table} (h : old.Inv) : (reloadTable names old).Inv := by
  intro m l hl
  rw [get_reloadTable] at hl
  split at hl
  · cases hl; exact Table.nodup_servers h m
  · cases hl

/-! ### the two paths of the handler -/

structure Api.Inv (a : Api) : Prop where
  http : a.http.Inv
  stream : a.stream.Inv

/-- upstream names are unique inside one configuration (they are keys of a Go map in `buildUpstreams`) -/
structure Conf.WF (c : Conf) : Prop where
  http : (c.http.map (·.name)).Nodup
  stream : (c.stream.map (·.name)).Nodup

theorem inv_update {c : Conf} {a : Api} (hc : c.WF) (ha : a.Inv) : (updateUpstreamServers c a).Inv :=
  ⟨(updateTable_spec c.http a.http hc.http ha.http).2.1, (updateTable_spec c.stream a.stream hc.stream ha.stream).2.1⟩

theorem inv_reloadNginx (c : Conf) {a : Api} (ha : a.Inv) : (reloadNginx c a).Inv :=
  ⟨inv_reloadTable _ ha.http, inv_reloadTable _ ha.stream⟩

theorem inv_step {a : Api} (ha : a.Inv) : ∀ (o : Op), o.conf.WF → (step a o).Inv
  | .reload c, hc => inv_update hc (inv_reloadNginx c ha)
  | .endpoints _, hc => inv_update hc ha

theorem inv_run : ∀ (ops : List Op) (a : Api), a.Inv → (∀ o ∈ ops, o.conf.WF) → (run a ops).Inv
  | [], _, ha, _ => ha
  | o :: os, a, ha, h => by
    simp only [run]
    exact inv_run os _ (inv_step ha o (h o (List.mem_cons_self ..))) (fun o' ho' => h o' (List.mem_cons_of_mem _ ho'))

theorem run_append : ∀ (l1 l2 : List Op) (a : Api), run a (l1 ++ l2) = run (run a l1) l2
  | [], _, _ => rfl
  | o :: os, l2, a => by simp only [List.cons_append, run]; exact run_append os l2 _

theorem keys_endpoints_step (c : Conf) (a : Api) :
    (step a (.endpoints c)).http.keys = a.http.keys ∧ (step a (.endpoints c)).stream.keys = a.stream.keys :=
  ⟨keys_applyAll _ _, keys_applyAll _ _⟩

/-- endpoints-only steps never create or remove an upstream in NGINX -/
theorem keys_run_endpoints : ∀ (es : List Conf) (a : Api),
    (run a (es.map .endpoints)).http.keys = a.http.keys ∧ (run a (es.map .endpoints)).stream.keys = a.stream.keys
  | [], _ => ⟨rfl, rfl⟩
  | e :: es, a => by
    simp only [List.map_cons, run]
    obtain ⟨h1, h2⟩ := keys_run_endpoints es (step a (.endpoints e))
    obtain ⟨k1, k2⟩ := keys_endpoints_step e a
    exact ⟨h1.trans k1, h2.trans k2⟩

theorem keys_reload_step (c : Conf) (a : Api) :
    (step a (.reload c)).http.keys = dedup (c.http.map (·.name)) ∧
    (step a (.reload c)).stream.keys = dedup ((c.stream.filter fun u => !u.eps.isEmpty).map (·.name)) := by
  obtain ⟨k1, k2⟩ := keys_endpoints_step c (reloadNginx c a)
  exact ⟨k1.trans (keys_reloadTable _ _), k2.trans (keys_reloadTable _ _)⟩

theorem servers_of_get {t : Table} {n : String} {l : List String} (h : t.get n = some l) : t.servers n = l := by
  simp [Table.servers, h]

/-- endpoints-only path: every upstream of the configuration that NGINX knows ends with the new endpoints -/
theorem endpoints_step_http {c : Conf} {a : Api} (hc : c.WF) (ha : a.Inv) {u : Up} (hu : u ∈ c.http)
    (hk : u.name ∈ a.http.keys) :
    SetEq ((step a (.endpoints c)).http.servers u.name) (convertEndpoints u.eps) := by
  obtain ⟨l, hl, hs⟩ := (updateTable_spec c.http a.http hc.http ha.http).2.2.1 u hu hk
  show SetEq ((applyAll a.http (pending c.http a.http)).servers u.name) _
  rw [servers_of_get hl]; exact hs

theorem endpoints_step_stream {c : Conf} {a : Api} (hc : c.WF) (ha : a.Inv) {u : Up} (hu : u ∈ c.stream)
    (hk : u.name ∈ a.stream.keys) :
    SetEq ((step a (.endpoints c)).stream.servers u.name) (convertEndpoints u.eps) := by
  obtain ⟨l, hl, hs⟩ := (updateTable_spec c.stream a.stream hc.stream ha.stream).2.2.1 u hu hk
  show SetEq ((applyAll a.stream (pending c.stream a.stream)).servers u.name) _
  rw [servers_of_get hl]; exact hs

/-- an upstream NGINX does not know stays unknown on the endpoints-only path -/
theorem endpoints_step_absent {c : Conf} {a : Api} {n : String} (hk : n ∉ a.stream.keys) :
    (step a (.endpoints c)).stream.get n = none := by
  have hkeys : (applyAll a.stream (pending c.stream a.stream)).keys = a.stream.keys := keys_applyAll _ _
  have : ¬ ((step a (.endpoints c)).stream.get n).isSome := by
    rw [Table.get_isSome]; show n ∉ (applyAll a.stream (pending c.stream a.stream)).keys
    rw [hkeys]; exact hk
  cases h : (step a (.endpoints c)).stream.get n with
  | none => rfl
  | some l => simp [h] at this

/-- reload path, http: every upstream of the configuration ends with its endpoints, whatever NGINX held -/
theorem reload_step_http {c : Conf} {a : Api} (hc : c.WF) (ha : a.Inv) {u : Up} (hu : u ∈ c.http) :
    SetEq ((step a (.reload c)).http.servers u.name) (convertEndpoints u.eps) := by
  have hinv := inv_reloadNginx c ha
  have hk : u.name ∈ (reloadNginx c a).http.keys := by
    show u.name ∈ (reloadTable _ _).keys
    rw [keys_reloadTable, mem_dedup]; exact List.mem_map.mpr ⟨u, hu, rfl⟩
  exact endpoints_step_http hc hinv hu hk

/-- reload path, stream: upstreams with endpoints end with them; upstreams without endpoints do not exist -/
theorem reload_step_stream {c : Conf} {a : Api} (hc : c.WF) (ha : a.Inv) {u : Up} (hu : u ∈ c.stream) :
    SetEq ((step a (.reload c)).stream.servers u.name) (convertEndpoints u.eps) := by
  have hinv := inv_reloadNginx c ha
  by_cases he : u.eps = []
  · -- not in the generated configuration
    have hk : u.name ∉ (reloadNginx c a).stream.keys := by
      show u.name ∉ (reloadTable _ _).keys
      rw [keys_reloadTable, mem_dedup]
      intro hin
      obtain ⟨u', hu', hn⟩ := List.mem_map.mp hin
      obtain ⟨hu'm, hne⟩ := List.mem_filter.mp hu'
      have := unique_of_nodup_names hc.stream hu'm hu hn
      subst this
      simp [he] at hne
    have := @endpoints_step_absent c (reloadNginx c a) u.name hk
    have hs : (step a (.reload c)).stream.servers u.name = [] := by
      show ((step (reloadNginx c a) (.endpoints c)).stream.servers u.name) = []
      simp [Table.servers, this]
    rw [hs, he]; exact SetEq.refl _
  · have hk : u.name ∈ (reloadNginx c a).stream.keys := by
      show u.name ∈ (reloadTable _ _).keys
      rw [keys_reloadTable, mem_dedup]
      refine List.mem_map.mpr ⟨u, List.mem_filter.mpr ⟨hu, ?_⟩, rfl⟩
      cases h : u.eps with
      | nil => exact absurd h he
      | cons _ _ => simp
    exact endpoints_step_stream hc hinv hu hk

/-! ### repaired variant (known finding `C13:plus_empty_no_503`) -/

theorem fix503_keys_sublist : ∀ (ups : List Up), ((fix503 ups).map (·.1)).Sublist (ups.map (·.name))
  | [] => by simp [fix503]
  | u :: r => by
    have ih := fix503_keys_sublist r
    unfold fix503 at ih ⊢
    rw [List.filterMap_cons]
    by_cases h : u.eps.isEmpty = true
    · simp only [h, if_true, List.map_cons]; exact List.Sublist.cons_cons _ ih
    · simp only [h]; exact List.Sublist.cons _ ih

theorem mem_fix503 {ups : List Up} {m : String} {v : List String} :
    (m, v) ∈ fix503 ups ↔ ∃ u ∈ ups, u.eps = [] ∧ m = u.name ∧ v = [nginx503Server] := by
  simp only [fix503, List.mem_filterMap]
  constructor
  · rintro ⟨u, hu, h⟩
    by_cases he : u.eps.isEmpty = true
    · simp only [he, if_true, Option.some.injEq, Prod.mk.injEq] at h
      exact ⟨u, hu, by simpa using he, h.1.symm, h.2.symm⟩
    · simp [he] at h
  · rintro ⟨u, hu, he, rfl, rfl⟩
    exact ⟨u, hu, by simp [he]⟩

/-- repaired: an existing http upstream without endpoints holds exactly the 503 placeholder … -/
theorem fixed_empty_gives_503 {c : Conf} {a : Api} (hc : c.WF) {u : Up} (hu : u ∈ c.http) (he : u.eps = [])
    (hk : u.name ∈ a.http.keys) :
    (updateUpstreamServersFixed c a).http.servers u.name = [nginx503Server] := by
  have hk' : u.name ∈ (updateUpstreamServers c a).http.keys := by
    show u.name ∈ (applyAll a.http (pending c.http a.http)).keys
    rw [keys_applyAll]; exact hk
  have hnd : ((fix503 c.http).map (·.1)).Nodup := List.Nodup.sublist (fix503_keys_sublist c.http) hc.http
  have hin : (u.name, [nginx503Server]) ∈ fix503 c.http := mem_fix503.mpr ⟨u, hu, he, rfl, rfl⟩
  have := get_applyAll_in (fix503 c.http) (updateUpstreamServers c a).http u.name [nginx503Server] hnd hin hk'
  show (applyAll (updateUpstreamServers c a).http (fix503 c.http)).servers u.name = _
  rw [servers_of_get this]
  simp [dedup]

/-- … and every upstream with endpoints is left exactly as the current code leaves it. -/
theorem fixed_nonempty_unchanged {c : Conf} {a : Api} (hc : c.WF) {u : Up} (hu : u ∈ c.http) (he : u.eps ≠ []) :
    (updateUpstreamServersFixed c a).http.get u.name = (updateUpstreamServers c a).http.get u.name ∧
    (updateUpstreamServersFixed c a).stream = (updateUpstreamServers c a).stream := by
  refine ⟨?_, rfl⟩
  show (applyAll (updateUpstreamServers c a).http (fix503 c.http)).get u.name = _
  apply get_applyAll_notin
  intro hin
  obtain ⟨⟨m, v⟩, hmv, hm⟩ := List.mem_map.mp hin
  simp only at hm; subst hm
  obtain ⟨u', hu', he', hn, _⟩ := mem_fix503.mp hmv
  have := unique_of_nodup_names hc.http hu hu' hn
  subst this
  exact he he'

/-! ### repaired variant (known finding `C13:plus_stream_upstream_absent`) -/

theorem stepB_stream_eq_reload {c : Conf} {a : Api} (hc : c.WF) (ha : a.Inv) {u : Up} (hu : u ∈ c.stream) :
    SetEq ((stepB a (.endpoints c)).stream.servers u.name) ((step a (.reload c)).stream.servers u.name) := by
  unfold stepB
  by_cases hn : needsReload c a = true
  · simp only [hn, if_true]; exact SetEq.refl _
  · have hn' : needsReload c a = false := by simpa using hn
    simp only [hn', Bool.false_eq_true, if_false]
    refine SetEq.trans ?_ (reload_step_stream hc ha hu).symm
    by_cases hk : u.name ∈ a.stream.keys
    · exact endpoints_step_stream hc ha hu hk
    · -- not known to NGINX and no reload needed: the upstream has no endpoints
      have he : u.eps = [] := by
        cases h : u.eps with
        | nil => rfl
        | cons e t =>
          exfalso; apply hn
          simp only [needsReload, List.any_eq_true, Bool.and_eq_true, Bool.not_eq_true', decide_eq_false_iff_not]
          exact ⟨u, hu, by simp [h], hk⟩
      have := @endpoints_step_absent c a u.name hk
      simp only [Table.servers, this, he, Option.getD_none]
      exact SetEq.refl _

end NGF.Resolver
