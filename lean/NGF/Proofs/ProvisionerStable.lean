/-
C18: a purely syntactic sufficient condition for the `_partial` region of the PRE-FIX code: histories in which no
Gateway is ever upserted with two different class names never re-point a provisioned Gateway.
-/
import NGF.Proofs.ProvisionerRun

namespace NGF.Prov

/-- the (Gateway, class) pairs upserted by a batch / a history -/
def upsertsOf (b : List Ev) : List (Key × Str) :=
  b.filterMap (fun e => match e with | .upsertGw k c => some (k, c) | _ => none)

def upserts (hist : Hist) : List (Key × Str) := hist.flatMap (fun x => upsertsOf x.1)

/-- no Gateway appears with two different class names anywhere in the history -/
def ClassStable (hist : Hist) : Prop :=
  ∀ k c c', (k, c) ∈ upserts hist → (k, c') ∈ upserts hist → c = c'

theorem storeUpdate_gws_src (b : List Ev) (s : State) (k : Key) (c : Str)
    (h : get? (storeUpdate s b).gws k = some c) : get? s.gws k = some c ∨ (k, c) ∈ upsertsOf b := by
  unfold storeUpdate at h
  induction b generalizing s with
  | nil => exact Or.inl h
  | cons e t ih =>
    simp only [List.foldl_cons] at h
    rcases ih _ h with h' | h'
    · cases e with
      | upsertGw k' c' =>
        simp only [storeUpdate1, get?_upsert] at h'
        by_cases hk : k = k'
        · subst hk
          simp only [if_true, Option.some.injEq] at h'
          subst h'
          exact Or.inr (by simp [upsertsOf])
        · simp only [hk, if_false] at h'
          exact Or.inl h'
      | deleteGw k' =>
        simp only [storeUpdate1, get?_erase] at h'
        by_cases hk : k = k'
        · simp [hk] at h'
        · simp only [hk, if_false] at h'
          exact Or.inl h'
      | upsertGC n => exact Or.inl h'
      | deleteGC n => exact Or.inl h'
      | crd => exact Or.inl h'
    · refine Or.inr ?_
      simp only [upsertsOf, List.filterMap_cons] at h' ⊢
      split
      · exact h'
      · exact List.mem_cons_of_mem _ h'

/-- ghost invariant: `U` collects the upserts seen so far -/
structure Src (cfg : Cfg) (s : State) (U : List (Key × Str)) : Prop where
  gws  : ∀ k c, get? s.gws k = some c → (k, c) ∈ U
  prov : ∀ k, hasKey s.prov k = true → (k, cfg.gcName) ∈ U

theorem noAwayHist_of_stable (cfg : Cfg) (hist : Hist) (s : State) (U : List (Key × Str)) (h : WF cfg s)
    (hs : Src cfg s U)
    (hst : ∀ k c c', (k, c) ∈ U ++ upserts hist → (k, c') ∈ U ++ upserts hist → c = c') :
    noAwayHist cfg s hist = true := by
  induction hist generalizing s U with
  | nil => rfl
  | cons x t ih =>
    obtain ⟨b, o⟩ := x
    have hU : ∀ p, p ∈ U ++ upsertsOf b → p ∈ U ++ upserts ((b, o) :: t) := by
      intro p hp
      simp only [upserts, List.flatMap_cons, List.mem_append] at hp ⊢
      rcases hp with hp | hp
      · exact Or.inl hp
      · exact Or.inr (Or.inl hp)
    have hsrc : ∀ k c, get? (storeUpdate s b).gws k = some c → (k, c) ∈ U ++ upsertsOf b := by
      intro k c hk
      rcases storeUpdate_gws_src b s k c hk with h' | h'
      · exact List.mem_append_left _ (hs.gws k c h')
      · exact List.mem_append_right _ h'
    have hsplit : U ++ upserts ((b, o) :: t) = (U ++ upsertsOf b) ++ upserts t := by
      simp [upserts, List.flatMap_cons, List.append_assoc]
    simp only [noAwayHist, Bool.and_eq_true]
    constructor
    · -- this batch does not re-point a provisioned Gateway
      simp only [noAway, List.all_eq_true]
      intro p hp
      split
      · next c hc =>
        have h1 := hU _ (hsrc p.1 c hc)
        have h2 := hU _ (List.mem_append_left (upsertsOf b) (hs.prov p.1 (hasKey_iff_mem.mpr ⟨p.2, hp⟩)))
        simp only [beq_iff_eq]
        exact hst p.1 c cfg.gcName h1 h2
      · rfl
    · by_cases hc : s.crashed = none
      · apply ih (stepPreFix cfg s b o) (U ++ upsertsOf b) (stepWith_wf removedPreFix h b o)
        · constructor
          · intro k c hk
            rw [stepWith_gws removedPreFix cfg s b o h hc] at hk
            exact hsrc k c hk
          · intro k hk
            by_cases hg : cfg.gcName ∈ (storeUpdate s b).gcs
            · have p := stepPreFix_prov cfg s b o h hc hg k
              rw [p] at hk
              simp only [Bool.and_eq_true, Bool.or_eq_true, decide_eq_true_eq] at hk
              rcases hk.1 with h1 | h1
              · exact List.mem_append_left _ (hs.prov k h1)
              · exact hsrc k _ h1
            · unfold stepPreFix at hk
              rw [stepWith_crash removedPreFix hc hg] at hk
              have : (storeUpdate s b).prov = s.prov := (storeUpdate_frame s b).1
              simp only [this] at hk
              exact List.mem_append_left _ (hs.prov k hk)
        · intro k c c' h1 h2
          rw [hsplit] at hst
          exact hst k c c' h1 h2
      · unfold stepPreFix
        rw [stepWith_crashed removedPreFix hc]
        apply ih s (U ++ upsertsOf b) h
        · exact ⟨fun k c hk => List.mem_append_left _ (hs.gws k c hk),
                 fun k hk => List.mem_append_left _ (hs.prov k hk)⟩
        · intro k c c' h1 h2
          rw [hsplit] at hst
          exact hst k c c' h1 h2

theorem noAwayHist_of_classStable (cfg : Cfg) (hist : Hist) (h : ClassStable hist) :
    noAwayHist cfg init hist = true :=
  noAwayHist_of_stable cfg hist init [] (wf_init cfg)
    ⟨by intro k c hk; simp [init] at hk, by intro k hk; simp [init] at hk⟩
    (by intro k c c' h1 h2; simp only [List.nil_append] at h1 h2; exact h k c c' h1 h2)

end NGF.Prov
