/-
Helper lemmas for the text step of C04 (Model/Print): lexing the printed text of a tree whose words are lexically safe
gives back the intended token stream (`lexFrom_printDirs`), parsing the intended token stream gives back the tree
(`parseToks_dirsToks`), and the skeleton of the intended token stream depends only on the shape of the tree.
Core Lean only.
-/
import NGF.Model.Print
import NGF.Proofs.NginxLexHoles
import NGF.Proofs.InjBridge

namespace NGF.Print
open NGF.Nginx

/-- the lexer between two statements / two words: `pending` words of the current statement have been read -/
def Sk (k : Nat) : LexSt := { mode := .space, esc := false, dollar := false, cur := [], pending := k }

/-- inside a double-quoted word that has just been opened -/
def Dk (k : Nat) : LexSt := { mode := .dq, esc := false, dollar := false, cur := [], pending := k }

/-- just after the closing quote of the `k`-th word -/
def Nk (k : Nat) : LexSt := { mode := .needSpace, esc := false, dollar := false, cur := [], pending := k }

theorem init_eq : LexSt.init = Sk 0 := rfl

theorem headChar_eq (c : Char) : headChar c = startOK c := rfl

theorem tailChar_facts {c : Char} (h : tailChar c = true) : isTerm .bare c = false ∧ c ≠ '\\' := by
  simp only [tailChar, Bool.not_eq_true', Bool.or_eq_false_iff, beq_eq_false_iff_ne, ne_eq] at h
  obtain ⟨⟨⟨h1, h2⟩, h3⟩, h4⟩ := h
  exact ⟨by simp [isTerm, h1, h2, h3], h4⟩

theorem headChar_ne_backslash {c : Char} (h : headChar c = true) : c ≠ '\\' := by
  intro e; subst e; revert h; decide

/-- what `bareOK` gives the hole lemmas -/
theorem bareOK_facts {a : List Char} (h : bareOK a = true) :
    ∃ c t, a = c :: t ∧ startOK c = true ∧ Inert .bare t ∧ '\\' ∉ a := by
  cases a with
  | nil => simp [bareOK] at h
  | cons c t =>
    simp only [bareOK, Bool.and_eq_true, List.all_eq_true] at h
    refine ⟨c, t, rfl, h.1, inert_of_all_plain (fun c' h' => tailChar_facts (h.2 c' h')), ?_⟩
    intro hm
    rcases List.mem_cons.mp hm with e | hm
    · exact headChar_ne_backslash h.1 e.symm
    · exact (tailChar_facts (h.2 _ hm)).2 rfl

theorem dqOK_facts {a : List Char} (h : dqOK a = true) : Inert .dq a ∧ '\\' ∉ a := by
  simp only [dqOK, List.all_eq_true, Bool.not_eq_true', Bool.or_eq_false_iff, beq_eq_false_iff_ne, ne_eq] at h
  refine ⟨inert_of_all_plain (fun c hc => ⟨?_, (h c hc).2⟩), fun hm => (h _ hm).2 rfl⟩
  simp [isTerm, (h c hc).1]

/-! ### one word and the character after it -/

/-- tokens produced by the character that follows a word -/
def sepToks (c : Char) : List Tok := if c == ';' then [.semi] else []

/-- state after a word (the `k+1`-th of its statement) and the character that follows it -/
def sepState (k : Nat) (c : Char) : LexSt := if c == ';' then Sk 0 else Sk (k + 1)

/-- **One safe word** (bare or quoted, as the templates write it) followed by a space or `;` is exactly one word token
(+ the semicolon), and the lexer is between words again. -/
theorem lexFrom_word {a : Arg} (ha : argOK a = true) {c : Char} (hc : c = ' ' ∨ c = ';') (k : Nat) (post : List Char) :
    lexFrom (Sk k) (printArg a ++ c :: post) =
      prepend (argTok a :: sepToks c) (lexFrom (sepState k c) post) := by
  obtain ⟨v, q⟩ := a
  cases q with
  | false =>
    simp only [argOK, Bool.false_eq_true, if_false] at ha
    obtain ⟨h, t, rfl, hs, ht, hb⟩ := bareOK_facts ha
    simp only [printArg, Bool.false_eq_true, if_false, argTok]
    rcases hc with rfl | rfl
    · rw [hole_bare_ws (st := Sk k) rfl rfl hs ht (by decide), NGF.Inj.unescape_of_no_backslash _ hb]
      rfl
    · rw [hole_bare_semi (st := Sk k) rfl rfl hs ht, NGF.Inj.unescape_of_no_backslash _ hb]
      rfl
  | true =>
    simp only [argOK, if_true] at ha
    obtain ⟨hi, hb⟩ := dqOK_facts ha
    simp only [printArg, if_true, argTok]
    have h0 : step (Sk k) '"' = .ok (Dk k, []) := by simp [step, Sk, Dk, isWs]
    have hq : lexFrom (Dk k) (v ++ '"' :: c :: post) =
        prepend [.word (unescape v) true] (lexFrom (Nk (k + 1)) (c :: post)) :=
      hole_dquoted (st := Dk k) (v := v) (post := c :: post) rfl rfl hi
    rw [List.cons_append, lexFrom_cons_ok h0, List.append_assoc, List.singleton_append, hq,
      NGF.Inj.unescape_of_no_backslash _ hb, prepend_prepend]
    rcases hc with rfl | rfl
    · have h1 : step (Nk (k + 1)) ' ' = .ok (Sk (k + 1), []) := by simp [step, Sk, Nk, isWs]
      rw [lexFrom_cons_ok h1, prepend_prepend]; rfl
    · have h1 : step (Nk (k + 1)) ';' = .ok (Sk 0, [.semi]) := by simp [step, Sk, Nk, isWs]
      rw [lexFrom_cons_ok h1, prepend_prepend]; rfl

/-! ### the words of one statement -/

theorem printWords_append (ws : List Arg) (t r : List Char) : printWords ws t ++ r = printWords ws (t ++ r) := by
  induction ws with
  | nil => rfl
  | cons a as ih =>
    simp only [printWords]
    cases as with
    | nil => simp
    | cons b bs => simp [ih]

/-- **One statement head**: safe words separated by single spaces, followed by a space or `;`. -/
theorem lexFrom_words : ∀ (ws : List Arg), ws ≠ [] → ws.all argOK = true → ∀ {c : Char}, c = ' ' ∨ c = ';' →
    ∀ (k : Nat) (post : List Char),
      lexFrom (Sk k) (printWords ws (c :: post)) =
        prepend (ws.map argTok ++ sepToks c) (lexFrom (sepState (k + ws.length - 1) c) post)
  | [], h, _, _, _, _, _ => absurd rfl h
  | [a], _, hok, c, hc, k, post => by
    simp only [List.all_cons, List.all_nil, Bool.and_true] at hok
    simpa [printWords] using lexFrom_word hok hc k post
  | a :: b :: r, _, hok, c, hc, k, post => by
    simp only [List.all_cons, Bool.and_eq_true] at hok
    have ih := lexFrom_words (b :: r) (by simp) (by simp [hok.2]) hc (k + 1) post
    have hw := lexFrom_word hok.1 (c := ' ') (.inl rfl) k (printWords (b :: r) (c :: post))
    have e : sepState k ' ' = Sk (k + 1) := rfl
    have e2 : sepToks ' ' = [] := rfl
    have pw : printWords (a :: b :: r) (c :: post) = printArg a ++ ' ' :: printWords (b :: r) (c :: post) := rfl
    rw [pw, hw, e, e2, ih, prepend_prepend]
    have : k + 1 + (b :: r).length - 1 = k + (a :: b :: r).length - 1 := by simp; omega
    rw [this]
    simp

/-! ### directives and blocks -/

theorem step_nl (k : Nat) : step (Sk k) '\n' = .ok (Sk k, []) := by simp [step, Sk, isWs]

theorem step_open (k : Nat) : step (Sk (k + 1)) '{' = .ok (Sk 0, [.open]) := by simp [step, Sk, isWs]

theorem step_close : step (Sk 0) '}' = .ok (Sk 0, [.close]) := by simp [step, Sk, isWs]

theorem prepend_nil (x : Except LexErr (LexSt × List Tok)) : prepend [] x = x := by
  cases x with
  | error e => rfl
  | ok p => obtain ⟨s, t⟩ := p; rfl

mutual
/-- **One directive** (simple or block, nested to any depth) whose words are safe, printed the way the templates do,
is read back as exactly its intended tokens, and the lexer is between statements again. -/
theorem lexFrom_printDir : ∀ (d : Dir), dirOK d = true → ∀ (post : List Char),
    lexFrom (Sk 0) (printDir d ++ post) = prepend (dirToks d) (lexFrom (Sk 0) post)
  | .mk n args none, h, post => by
    simp only [dirOK, Bool.and_eq_true] at h
    have hw := lexFrom_words ((n, false) :: args) (by simp) (by simp [argOK, h.1, h.2]) (c := ';') (.inr rfl) 0
      ('\n' :: post)
    have e1 : sepState (0 + ((n, false) :: args).length - 1) ';' = Sk 0 := rfl
    have e2 : sepToks ';' = [.semi] := rfl
    simp only [printDir, dirToks, printWords_append, List.cons_append, List.nil_append]
    rw [hw, e1, e2, lexFrom_cons_ok (step_nl 0), prepend_nil]
    simp [argTok]
  | .mk n args (some ch), h, post => by
    simp only [dirOK, Bool.and_eq_true] at h
    have hw := lexFrom_words ((n, false) :: args) (by simp) (by simp [argOK, h.1.1, h.1.2]) (c := ' ') (.inl rfl) 0
      ('{' :: '\n' :: (printDirs ch ++ '}' :: '\n' :: post))
    have e1 : sepState (0 + ((n, false) :: args).length - 1) ' ' = Sk (args.length + 1) := by
      simp [sepState]
    have e2 : sepToks ' ' = [] := rfl
    have ih := lexFrom_printDirs ch h.2 ('}' :: '\n' :: post)
    simp only [printDir, dirToks, printWords_append, List.cons_append, List.nil_append, List.append_assoc]
    rw [hw, e1, e2, lexFrom_cons_ok (step_open _), lexFrom_cons_ok (step_nl 0), prepend_nil, ih,
      lexFrom_cons_ok step_close, lexFrom_cons_ok (step_nl 0), prepend_nil, prepend_prepend, prepend_prepend,
      prepend_prepend]
    simp [argTok]
theorem lexFrom_printDirs : ∀ (ds : List Dir), dirsOK ds = true → ∀ (post : List Char),
    lexFrom (Sk 0) (printDirs ds ++ post) = prepend (dirsToks ds) (lexFrom (Sk 0) post)
  | [], _, post => by simp [printDirs, dirsToks, prepend_nil]
  | d :: ds, h, post => by
    simp only [dirsOK, Bool.and_eq_true] at h
    simp only [printDirs, dirsToks, List.append_assoc]
    rw [lexFrom_printDir d h.1, lexFrom_printDirs ds h.2, prepend_prepend]
end

/-- the whole text: exactly the intended tokens, and the end of file is legal -/
theorem lex_printDirs {ds : List Dir} (h : dirsOK ds = true) : lex (printDirs ds) = .ok (dirsToks ds) := by
  have := lexFrom_printDirs ds h []
  simp only [List.append_nil] at this
  unfold lex
  rw [init_eq, this]
  simp [lexFrom, prepend, atEOF, Sk]

/-! ### parsing the intended token stream -/

/-- argument words are collected -/
theorem parseToks_words (args : List Arg) : ∀ (n depth : Nat) (rest : List Tok) (words : List (List Char × Bool))
    (acc : List Dir),
    parseToks (n + args.length) depth (args.map argTok ++ rest) words acc = parseToks n depth rest (words ++ args) acc := by
  induction args with
  | nil => intro n depth rest words acc; simp
  | cons a as ih =>
    intro n depth rest words acc
    have : n + (a :: as).length = (n + as.length) + 1 := by simp; omega
    rw [this]
    simp only [List.map_cons, List.cons_append, argTok, parseToks]
    rw [ih]
    simp

mutual
theorem parseToks_dirToks : ∀ (d : Dir) (n f depth : Nat) (rest : List Tok) (acc : List Dir),
    n + (dirToks d).length ≤ f →
    ∃ f', n ≤ f' ∧ parseToks f depth (dirToks d ++ rest) [] acc = parseToks f' depth rest [] (d :: acc)
  | .mk nm args none, n, f, depth, rest, acc, hf => by
    simp only [dirToks, List.length_append, List.length_cons, List.length_map, List.length_nil] at hf
    obtain ⟨m, rfl⟩ : ∃ m, f = (m + 1 + args.length) + 1 := ⟨f - args.length - 2, by omega⟩
    refine ⟨m, by omega, ?_⟩
    simp only [dirToks, List.cons_append, List.append_assoc, parseToks, List.nil_append]
    rw [parseToks_words]
    simp [parseToks]
  | .mk nm args (some ch), n, f, depth, rest, acc, hf => by
    simp only [dirToks, List.length_append, List.length_cons, List.length_map, List.length_nil] at hf
    obtain ⟨m, rfl⟩ : ∃ m, f = (m + 1 + args.length) + 1 := ⟨f - args.length - 2, by omega⟩
    obtain ⟨f', hf', ih⟩ := parseToks_dirsToks ch 1 m (depth + 1) (.close :: rest) [] (by omega)
    obtain ⟨g, rfl⟩ : ∃ g, f' = g + 1 := ⟨f' - 1, by omega⟩
    refine ⟨m, by omega, ?_⟩
    simp only [dirToks, List.cons_append, List.append_assoc, parseToks, List.nil_append]
    rw [parseToks_words]
    simp only [parseToks, List.singleton_append]
    rw [ih]
    simp [parseToks]
theorem parseToks_dirsToks : ∀ (ds : List Dir) (n f depth : Nat) (rest : List Tok) (acc : List Dir),
    n + (dirsToks ds).length ≤ f →
    ∃ f', n ≤ f' ∧ parseToks f depth (dirsToks ds ++ rest) [] acc = parseToks f' depth rest [] (ds.reverse ++ acc)
  | [], n, f, depth, rest, acc, hf => ⟨f, by simpa [dirsToks] using hf, by simp [dirsToks]⟩
  | d :: ds, n, f, depth, rest, acc, hf => by
    simp only [dirsToks, List.length_append] at hf
    obtain ⟨f1, h1, e1⟩ := parseToks_dirToks d (n + (dirsToks ds).length) f depth (dirsToks ds ++ rest) acc (by omega)
    obtain ⟨f2, h2, e2⟩ := parseToks_dirsToks ds n f1 depth rest (d :: acc) h1
    exact ⟨f2, h2, by simp only [dirsToks, List.append_assoc]; rw [e1, e2]; simp⟩
end

/-- the block structure NGINX builds from the intended tokens is the tree -/
theorem parseToks_top (ds : List Dir) :
    parseToks ((dirsToks ds).length + 1) 0 (dirsToks ds) [] [] = .ok (ds, []) := by
  obtain ⟨f', hf', e⟩ := parseToks_dirsToks ds 1 ((dirsToks ds).length + 1) 0 [] [] (by omega)
  obtain ⟨g, rfl⟩ : ∃ g, f' = g + 1 := ⟨f' - 1, by omega⟩
  simp only [List.append_nil] at e
  rw [e]
  simp [parseToks]

/-- lexing and parsing the printed text of a tree with safe words gives back the tree -/
theorem parse_printDirs {ds : List Dir} (h : dirsOK ds = true) : parse (printDirs ds) = .ok ds := by
  simp [parse, lex_printDirs h, parseToks_top]

/-! ### skeletons -/

theorem sameArgs_shape {a b : List Arg} (h : sameArgs a b = true) :
    (a.map argTok).map Tok.shape = (b.map argTok).map Tok.shape := by
  simp only [sameArgs, beq_iff_eq] at h
  have : ∀ l : List Arg, (l.map argTok).map Tok.shape = (l.map (·.2)).map fun q => Tok.word [] q := by
    intro l; induction l with
    | nil => rfl
    | cons x xs ih => simp [argTok, Tok.shape, ih]
  rw [this, this, h]

mutual
theorem sameShape_skeleton : ∀ (x y : Dir), sameShape x y = true → skeleton (dirToks x) = skeleton (dirToks y)
  | .mk _ a none, .mk _ b none, h => by
    simp only [sameShape] at h
    simp [skeleton, dirToks, Tok.shape, sameArgs_shape h]
  | .mk _ a (some c), .mk _ b (some d), h => by
    simp only [sameShape, Bool.and_eq_true] at h
    have ih := sameShapes_skeleton c d h.2
    simp only [skeleton] at ih
    simp [skeleton, dirToks, Tok.shape, sameArgs_shape h.1, ih]
  | .mk _ _ none, .mk _ _ (some _), h => by simp [sameShape] at h
  | .mk _ _ (some _), .mk _ _ none, h => by simp [sameShape] at h
theorem sameShapes_skeleton : ∀ (xs ys : List Dir), sameShapes xs ys = true → skeleton (dirsToks xs) = skeleton (dirsToks ys)
  | [], [], _ => rfl
  | x :: xs, y :: ys, h => by
    simp only [sameShapes, Bool.and_eq_true] at h
    have h1 := sameShape_skeleton x y h.1
    have h2 := sameShapes_skeleton xs ys h.2
    simp only [skeleton] at h1 h2
    simp [skeleton, dirsToks, h1, h2]
  | [], _ :: _, h => by simp [sameShapes] at h
  | _ :: _, [], h => by simp [sameShapes] at h
end

/-! ### membership forms -/

theorem dirsOK_iff (ds : List Dir) : dirsOK ds = true ↔ ∀ d ∈ ds, dirOK d = true := by
  induction ds with
  | nil => simp [dirsOK]
  | cons d ds ih => simp [dirsOK, ih]

theorem dirsOK_append (a b : List Dir) : dirsOK (a ++ b) = (dirsOK a && dirsOK b) := by
  induction a with
  | nil => simp [dirsOK]
  | cons d ds ih => simp [dirsOK, ih, Bool.and_assoc]

end NGF.Print
