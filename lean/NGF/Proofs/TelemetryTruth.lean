/-
C19 (task C19-truth) — helper lemmas for `NGF.Props.C19Truth`: `strings.Cut(id, "://")`, the provider-id extractors,
`strings.TrimSpace`, the handler/processor pair as telemetry sees it, comments of the snippet tokenizer.
-/
import NGF.Model.TelemetryTruth
import NGF.Proofs.Telemetry

namespace NGF.Telemetry
open NGF.SnippetLex

/-! ### `strings.Cut(s, "://")` -/

theorem isPrefixOf_eq_append {l s : Str} (h : l.isPrefixOf s = true) : s = l ++ s.drop l.length := by
  have := List.isPrefixOf_iff_prefix.mp h
  exact (List.prefix_iff_eq_append.mp this).symm

theorem isPrefixOf_append_right {l a : Str} (b : Str) (h : l.isPrefixOf a = true) : l.isPrefixOf (a ++ b) = true :=
  List.isPrefixOf_iff_prefix.mpr ((List.isPrefixOf_iff_prefix.mp h).trans (List.prefix_append a b))

/-- the result of `Cut` splits the string around a `://` -/
theorem cutScheme_some : ∀ (s p r : Str), cutScheme s = some (p, r) → s = p ++ schemeSep ++ r := by
  intro s
  induction s with
  | nil => intro p r h; simp [cutScheme] at h
  | cons c cs ih =>
    intro p r h
    unfold cutScheme at h
    split at h
    · next hp =>
      simp only [Option.some.injEq, Prod.mk.injEq] at h
      obtain ⟨rfl, rfl⟩ := h
      have := isPrefixOf_eq_append hp
      simpa [schemeSep] using this
    · next hp =>
      cases hc : cutScheme cs with
      | none => simp [hc] at h
      | some pr =>
        obtain ⟨p', r'⟩ := pr
        simp only [hc, Option.some.injEq, Prod.mk.injEq] at h
        obtain ⟨rfl, rfl⟩ := h
        rw [ih p' r' hc]
        simp

/-- … around the FIRST one: the part before it contains none -/
theorem cutScheme_pre_none : ∀ (s p r : Str), cutScheme s = some (p, r) → cutScheme p = none := by
  intro s
  induction s with
  | nil => intro p r h; simp [cutScheme] at h
  | cons c cs ih =>
    intro p r h
    have hs := cutScheme_some _ _ _ h
    unfold cutScheme at h
    split at h
    · simp only [Option.some.injEq, Prod.mk.injEq] at h
      obtain ⟨rfl, _⟩ := h
      rfl
    · next hp =>
      cases hc : cutScheme cs with
      | none => simp [hc] at h
      | some pr =>
        obtain ⟨p', r'⟩ := pr
        simp only [hc, Option.some.injEq, Prod.mk.injEq] at h
        obtain ⟨rfl, rfl⟩ := h
        have hcs := cutScheme_some _ _ _ hc
        unfold cutScheme
        have hnp : schemeSep.isPrefixOf (c :: p') = false := by
          cases hq : schemeSep.isPrefixOf (c :: p') with
          | false => rfl
          | true =>
            exfalso
            apply hp
            have := isPrefixOf_append_right (schemeSep ++ r') hq
            rw [hcs]
            simpa using this
        simp [hnp, ih p' r' hc]

/-- `Cut` finds nothing exactly when the text contains no `://` -/
theorem cutScheme_none_iff (s : Str) : cutScheme s = none ↔ ∀ a b, s ≠ a ++ schemeSep ++ b := by
  constructor
  · induction s with
    | nil =>
      intro _ a b h
      have := congrArg List.length h
      simp [schemeSep] at this
    | cons c cs ih =>
      intro h a b hs
      unfold cutScheme at h
      split at h
      · simp at h
      · next hp =>
        cases hc : cutScheme cs with
        | some pr => simp [hc] at h
        | none =>
          cases a with
          | nil =>
            apply hp
            rw [hs]
            simp [schemeSep, List.isPrefixOf]
          | cons a0 a' =>
            simp only [List.cons_append, List.cons.injEq] at hs
            exact ih hc a' b hs.2
  · intro h
    cases hc : cutScheme s with
    | none => rfl
    | some pr => exact absurd (cutScheme_some s pr.1 pr.2 hc) (h pr.1 pr.2)

/-- whatever follows the first `://` has no influence on what `Cut` returns before it -/
theorem cutScheme_rest_irrelevant : ∀ (s p r : Str), cutScheme s = some (p, r) →
    ∀ r', cutScheme (p ++ schemeSep ++ r') = some (p, r') := by
  intro s
  induction s with
  | nil => intro p r h; simp [cutScheme] at h
  | cons c cs ih =>
    intro p r h r'
    unfold cutScheme at h
    split at h
    · simp only [Option.some.injEq, Prod.mk.injEq] at h
      obtain ⟨rfl, _⟩ := h
      simp [schemeSep, cutScheme, List.isPrefixOf]
    · next hp =>
      cases hc : cutScheme cs with
      | none => simp [hc] at h
      | some pr =>
        obtain ⟨p', r0⟩ := pr
        simp only [hc, Option.some.injEq, Prod.mk.injEq] at h
        obtain ⟨rfl, rfl⟩ := h
        have hcs := cutScheme_some _ _ _ hc
        have ih' := ih p' r0 hc r'
        have hnp : schemeSep.isPrefixOf (c :: (p' ++ schemeSep ++ r')) = false := by
          rw [hcs] at hp
          match p', hp with
          | [], _ => simp [schemeSep, List.isPrefixOf]
          | [x], _ => simp [schemeSep, List.isPrefixOf]
          | x :: y :: q, hp => simpa [schemeSep, List.isPrefixOf] using hp
        show cutScheme (c :: (p' ++ schemeSep ++ r')) = some (c :: p', r')
        rw [cutScheme]
        simp only [hnp, ih', Bool.false_eq_true, if_false]

/-! ### `strings.HasPrefix(providerID, id)` for an identifier without ':' -/

theorem isPrefixOf_before_colon : ∀ (id p x : Str), ':' ∉ id →
    id.isPrefixOf (p ++ ':' :: x) = id.isPrefixOf p := by
  intro id
  induction id with
  | nil => intro p x _; simp [List.isPrefixOf]
  | cons a as ih =>
    intro p x h
    have ha : a ≠ ':' := fun e => h (e ▸ List.mem_cons_self)
    have has : ':' ∉ as := fun m => h (List.mem_cons_of_mem _ m)
    cases p with
    | nil => simp [List.isPrefixOf, ha]
    | cons b p' =>
      simp only [List.cons_append, List.isPrefixOf]
      rw [ih p' x has]

/-! ### `strings.TrimSpace` returns a piece of its argument, cut off at white space only -/

theorem trimRight_spec : ∀ l : Str, ∃ b, l = trimRight l ++ b ∧ ∀ c ∈ b, isGoSpace c = true := by
  intro l
  induction l with
  | nil => exact ⟨[], rfl, by simp⟩
  | cons c cs ih =>
    obtain ⟨b, hb, hsp⟩ := ih
    unfold trimRight
    cases ht : trimRight cs with
    | nil =>
      rw [ht] at hb
      simp only [List.nil_append] at hb
      by_cases hc : isGoSpace c = true
      · refine ⟨c :: b, by simp [hc, hb], ?_⟩
        intro x hx
        rcases List.mem_cons.mp hx with rfl | hx
        · exact hc
        · exact hsp x hx
      · refine ⟨b, by simp [hc, hb], hsp⟩
    | cons t ts =>
      rw [ht] at hb
      exact ⟨b, by simp [hb], hsp⟩

theorem takeWhile_all (p : Char → Bool) : ∀ l : Str, ∀ c ∈ l.takeWhile p, p c = true := by
  intro l
  induction l with
  | nil => intro c hc; simp at hc
  | cons x xs ih =>
    intro c hc
    rw [List.takeWhile_cons] at hc
    split at hc
    · next hx =>
      rcases List.mem_cons.mp hc with rfl | h
      · exact hx
      · exact ih c h
    · simp at hc

theorem trimSpace_spec (l : Str) : ∃ a b, l = a ++ trimSpace l ++ b ∧
    (∀ c ∈ a, isGoSpace c = true) ∧ (∀ c ∈ b, isGoSpace c = true) := by
  obtain ⟨b, hb, hsp⟩ := trimRight_spec (trimLeft l)
  refine ⟨l.takeWhile isGoSpace, b, ?_, ?_, hsp⟩
  · have : l = l.takeWhile isGoSpace ++ l.dropWhile isGoSpace := (List.takeWhile_append_dropWhile).symm
    simp only [trimSpace, List.append_assoc, ← hb]
    exact this
  · exact takeWhile_all isGoSpace l

/-! ### the extractors -/

theorem firstPlatform_some : ∀ (es : List (K8sState → Str)) (s : K8sState) (p : Str),
    firstPlatform es s = some p → ∃ e ∈ es, p = e s ∧ e s ≠ [] := by
  intro es
  induction es with
  | nil => intro s p h; simp [firstPlatform] at h
  | cons e es ih =>
    intro s p h
    unfold firstPlatform at h
    split at h
    · next hne =>
      simp only [Option.some.injEq] at h
      exact ⟨e, List.mem_cons_self, h.symm, by simpa using hne⟩
    · obtain ⟨e', he', hp⟩ := ih s p h
      exact ⟨e', List.mem_cons_of_mem _ he', hp⟩

theorem firstPlatform_congr : ∀ (es : List (K8sState → Str)) (s t : K8sState),
    (∀ e ∈ es, e s = e t) → firstPlatform es s = firstPlatform es t := by
  intro es
  induction es with
  | nil => intro s t _; rfl
  | cons e es ih =>
    intro s t h
    unfold firstPlatform
    rw [h e List.mem_cons_self, ih s t (fun e' he' => h e' (List.mem_cons_of_mem _ he'))]

theorem rancherLoop_closed : ∀ ns : List Str, rancherLoop ns = [] ∨ rancherLoop ns = "rancher".toList := by
  intro ns
  induction ns with
  | nil => exact Or.inl rfl
  | cons n ns ih =>
    unfold rancherLoop
    split
    · exact Or.inr rfl
    · exact ih

/-- every extractor of the list answers "" or one of the platform constants -/
theorem extractor_closed (s : K8sState) : ∀ e ∈ platformExtractors, e s = [] ∨ e s ∈ platformConstants := by
  intro e he
  simp only [platformExtractors, providerIDTable, List.map_cons, List.map_nil, List.cons_append, List.nil_append,
    List.mem_cons, List.not_mem_nil, or_false] at he
  rcases he with rfl | rfl | rfl | rfl | rfl | rfl | rfl
  · unfold openShiftExtractor
    split
    · exact Or.inr (by decide)
    · exact Or.inl rfl
  · rcases rancherLoop_closed s.namespaces with h | h
    · exact Or.inl h
    · exact Or.inr (by rw [rancherExtractor, h]; decide)
  all_goals
    simp only [providerIDExtractor]
    split
    · exact Or.inr (by decide)
    · exact Or.inl rfl

/-- no provider identifier of the table contains ':' -/
theorem providerIDTable_no_colon : ∀ p ∈ providerIDTable, ':' ∉ p.1 := by decide

/-- two states that differ only in what follows `pre ++ ":"` of the providerID get the same answer from every extractor -/
theorem extractors_agree (s : K8sState) (pre x y : Str) :
    ∀ e ∈ platformExtractors,
      e { s with providerID := pre ++ ':' :: x } = e { s with providerID := pre ++ ':' :: y } := by
  intro e he
  simp only [platformExtractors, List.mem_append, List.mem_cons, List.not_mem_nil, or_false, List.mem_map] at he
  rcases he with (rfl | rfl) | ⟨p, hp, rfl⟩
  · rfl
  · rfl
  · have := providerIDTable_no_colon p hp
    simp only [providerIDExtractor, isPrefixOf_before_colon _ pre _ this]

/-! ### handler + processor -/

theorem updateFails_noChange (plus prevErr : Bool) (o : Outcome) : updateFails plus prevErr .noChange o = false := rfl

/-- invariant: the stored configuration is the one built from the stored graph, with the current version -/
def SnapshotInv (st : HState) : Prop := st.conf = st.graph.map fun g => buildConf g st.version

theorem inv_init : SnapshotInv .init := rfl

theorem inv_handleBatch (plus : Bool) (st : HState) (b : Batch) (h : SnapshotInv st) :
    SnapshotInv (handleBatch plus st b) := by
  unfold handleBatch
  cases hc : b.change <;> simp [SnapshotInv] <;> exact h

theorem inv_foldl (plus : Bool) : ∀ (bs : List Batch) (st : HState), SnapshotInv st →
    SnapshotInv (bs.foldl (handleBatch plus) st) := by
  intro bs
  induction bs with
  | nil => intro st h; exact h
  | cons b bs ih => intro st h; exact ih _ (inv_handleBatch plus st b h)

theorem graph_handleBatch (plus : Bool) (st : HState) (b : Batch) :
    (handleBatch plus st b).graph = if b.change = .noChange then st.graph else some b.snap := by
  unfold handleBatch
  cases hc : b.change <;> simp

theorem graph_foldl (plus : Bool) : ∀ (bs : List Batch) (st : HState),
    (bs.foldl (handleBatch plus) st).graph =
      match lastSnapshot bs with
      | some s => some s
      | none => st.graph := by
  intro bs
  induction bs with
  | nil => intro st; rfl
  | cons b bs ih =>
    intro st
    simp only [List.foldl_cons, ih, lastSnapshot]
    cases hl : lastSnapshot bs with
    | some s => rfl
    | none =>
      simp only [graph_handleBatch]
      split <;> rfl

theorem telemetryCounts_of_inv (st : HState) (h : SnapshotInv st) :
    telemetryCounts st = st.graph.map countResources := by
  unfold SnapshotInv at h
  unfold telemetryCounts
  cases hg : st.graph with
  | none => rfl
  | some g =>
    rw [hg] at h
    simp only [Option.map_some] at h
    rw [h]
    rfl

/-! ### comments of the snippet tokenizer and of the reference lexer -/

theorem tokRun_append : ∀ (a b : Str) (s : TokState), tokRun s (a ++ b) = tokRun (a.foldl tokStep s) b := by
  intro a
  induction a with
  | nil => intro b s; rfl
  | cons c cs ih => intro b s; exact ih b (tokStep s c)

theorem tokStep_comment (d : Nat) (a : Bool) (ds : List Str) (c : Char) (hc : c ≠ '\n') :
    tokStep ⟨.comment, d, a, ds⟩ c = ⟨.comment, d, a, ds⟩ := by
  simp [tokStep, hc]

/-- inside a comment only LF does anything -/
theorem tokRun_comment : ∀ (body rest : Str) (d : Nat) (a : Bool) (ds : List Str), '\n' ∉ body →
    tokRun ⟨.comment, d, a, ds⟩ (body ++ '\n' :: rest) = tokRun ⟨.gap, d, a, ds⟩ rest := by
  intro body
  induction body with
  | nil => intro rest d a ds _; simp [tokRun, tokStep]
  | cons c cs ih =>
    intro rest d a ds h
    have hc : c ≠ '\n' := fun e => h (e ▸ List.mem_cons_self)
    have hcs : '\n' ∉ cs := fun m => h (List.mem_cons_of_mem _ m)
    simp only [List.cons_append, tokRun, tokStep_comment d a ds c hc]
    exact ih rest d a ds hcs

theorem tokRun_comment_end : ∀ (body : Str) (d : Nat) (a : Bool) (ds : List Str), '\n' ∉ body →
    tokRun ⟨.comment, d, a, ds⟩ body = ⟨.comment, d, a, ds⟩ := by
  intro body
  induction body with
  | nil => intro d a ds _; rfl
  | cons c cs ih =>
    intro d a ds h
    have hc : c ≠ '\n' := fun e => h (e ▸ List.mem_cons_self)
    have hcs : '\n' ∉ cs := fun m => h (List.mem_cons_of_mem _ m)
    simp only [tokRun, tokStep_comment d a ds c hc]
    exact ih d a ds hcs

theorem tokStep_gap_hash (d : Nat) (a : Bool) (ds : List Str) :
    tokStep ⟨.gap, d, a, ds⟩ '#' = ⟨.comment, d, a, ds⟩ := by
  simp [tokStep, tokSpace]

theorem run_comment : ∀ (body rest : Str) (acc : List Char), '\n' ∉ body →
    run (.comment acc) (body ++ '\n' :: rest) = .comment (acc.reverse ++ body) :: .ws '\n' :: run .gap rest := by
  intro body
  induction body with
  | nil => intro rest acc _; simp [run, step]
  | cons c cs ih =>
    intro rest acc h
    have hc : c ≠ '\n' := fun e => h (e ▸ List.mem_cons_self)
    have hcs : '\n' ∉ cs := fun m => h (List.mem_cons_of_mem _ m)
    simp only [List.cons_append, run, step, beq_iff_eq, hc, if_false, List.nil_append]
    rw [ih rest (c :: acc) hcs]
    simp

theorem run_comment_end : ∀ (body : Str) (acc : List Char), '\n' ∉ body →
    run (.comment acc) body = [.comment (acc.reverse ++ body)] := by
  intro body
  induction body with
  | nil => intro acc _; simp [run, flush]
  | cons c cs ih =>
    intro acc h
    have hc : c ≠ '\n' := fun e => h (e ▸ List.mem_cons_self)
    have hcs : '\n' ∉ cs := fun m => h (List.mem_cons_of_mem _ m)
    simp only [run, step, beq_iff_eq, hc, if_false, List.nil_append]
    rw [ih (c :: acc) hcs]
    simp

/-! ### quotes inside a bare word -/

/-- characters that keep the lexer (and the tokenizer) inside an unescaped bare word: everything except NGINX white space,
`;`, `{`, `\` and `$` — in particular both quote characters, `}` and `#` -/
def bareStay (c : Char) : Bool := !isNgxSpace c && c != ';' && c != '{' && c != '\\' && c != '$'

theorem step_bare_stay (acc : List Char) (v : Bool) (c : Char) (h : bareStay c = true) :
    step (.bare acc false v) c = (.bare (c :: acc) false false, []) := by
  simp only [bareStay, Bool.and_eq_true, Bool.not_eq_true', bne_iff_ne, ne_eq] at h
  obtain ⟨⟨⟨⟨h1, h2⟩, h3⟩, h4⟩, h5⟩ := h
  simp [step, h1, h2, h3, h4, h5]

/-- a run of such characters after the start of a bare word, ended by `;`, is ONE word token -/
theorem run_bare_stay : ∀ (w rest : List Char) (acc : List Char) (v : Bool), (∀ c ∈ w, bareStay c = true) →
    run (.bare acc false v) (w ++ ';' :: rest) = .word (acc.reverse ++ w) .none :: .semi :: run .gap rest := by
  intro w
  induction w with
  | nil =>
    intro rest acc v _
    cases v <;> simp [run, step, isNgxSpace]
  | cons c cs ih =>
    intro rest acc v h
    have hc := h c List.mem_cons_self
    have hcs : ∀ x ∈ cs, bareStay x = true := fun x hx => h x (List.mem_cons_of_mem _ hx)
    simp only [List.cons_append, run, step_bare_stay acc v c hc, List.nil_append]
    rw [ih rest (c :: acc) false hcs]
    simp

end NGF.Telemetry
