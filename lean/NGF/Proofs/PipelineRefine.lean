/-
C02 refinement proof, part 6 (composition): inside the server NGINX selected, the location it selects and the first njs
match it satisfies belong to a candidate no other hitting candidate of the server `beats` (`server_pick`); together with
the server stage (`pool_iff_server_entries`) this gives `nginxEvalConf (gen s) q = routeF s q` for every scenario of the
fragment and every well-formed request (`refines_fragment`; stated in Props/C02.lean as `route_refines_spec_fragment`).
-/
import NGF.Proofs.PipelineServer
import NGF.Proofs.PipelineLoc
import NGF.Proofs.PipelineNjs
import NGF.Proofs.PipelineOrder

namespace NGF.Pipeline
open NGF.Precedence NGF.NginxEval NGF.Locations

/-! ### one server, in annotated terms -/

/-- the annotated entries of server `(p, n)` -/
def xmine (g : Gateway) (routes : List Route) (p : Nat) (n : Str) : List XE :=
  (xentries g routes).filter fun x => x.port == p && x.host == n

theorem mine_eq (g : Gateway) (routes : List Route) (p : Nat) (n : Str) :
    (entries g routes).filter (fun e => e.port == p && e.host == n) = (xmine g routes p n).map entryOf := by
  rw [entries_eq_map, List.filter_map]; rfl

/-- the path rules of server `(p, n)`, as `serverOf` computes them -/
def keysOf (g : Gateway) (routes : List Route) (p : Nat) (n : Str) : List Key :=
  (((xmine g routes p n).map entryOf).map pathKey).eraseDups

/-- the sorted match rules of one path rule -/
def esK (g : Gateway) (routes : List Route) (p : Nat) (n : Str) (k : Key) : List Entry :=
  sortEntries (((xmine g routes p n).map entryOf).filter fun e => pathKey e == k)

def locF (g : Gateway) (routes : List Route) (p : Nat) (n : Str) (gl : GenLoc) : CLoc :=
  match (keysOf g routes p n)[gl.rule]? with
  | some k => { exact := gl.exact, path := gl.path, act := ruleAct p (esK g routes p n k) }
  | none => { exact := gl.exact, path := gl.path, act := .direct (.status 404) }

theorem serverOf_locs (g : Gateway) (routes : List Route) (p : Nat) (n : Str) :
    (serverOf (entries g routes) p n).locs =
      (genLocs (rulesOf (keysOf g routes p n))).map (locF g routes p n) := by
  unfold serverOf
  simp only [mine_eq]
  rfl

theorem locF_exact (g : Gateway) (routes : List Route) (p : Nat) (n : Str) (gl : GenLoc) :
    (locF g routes p n gl).exact = gl.exact := by
  unfold locF; split <;> rfl

theorem locF_path (g : Gateway) (routes : List Route) (p : Nat) (n : Str) (gl : GenLoc) :
    (locF g routes p n gl).path = gl.path := by
  unfold locF; split <;> rfl

theorem mem_keysOf {g : Gateway} {routes : List Route} {p : Nat} {n : Str} {k : Key} :
    k ∈ keysOf g routes p n ↔ ∃ x ∈ xmine g routes p n, (x.c.m.exact, x.c.m.path) = k := by
  unfold keysOf
  rw [List.mem_eraseDups]
  simp only [List.map_map, List.mem_map, Function.comp]
  rfl

theorem xe_matchOK {g : Gateway} {routes : List Route} (ok : ScenOK g routes) {x : XE}
    (hx : x ∈ xentries g routes) : matchOK x.c.m = true := by
  obtain ⟨l, _, r, hr, _, _, _, hh, _, ir, hir, jm, hjm, rfl⟩ := mem_xentries.mp hx
  exact ok.matches_ r hr ir.2 (enumFrom_snd_mem hir) jm.2 (enumFrom_snd_mem hjm)

theorem mem_xmine {g : Gateway} {routes : List Route} {p : Nat} {n : Str} {x : XE} :
    x ∈ xmine g routes p n ↔ x ∈ xentries g routes ∧ x.port = p ∧ x.host = n := by
  simp [xmine, List.mem_filter]

theorem keysOK_of {g : Gateway} {routes : List Route} (ok : ScenOK g routes) (p : Nat) (n : Str) :
    KeysOK (keysOf g routes p n) := by
  refine ⟨pairwise_eraseDups _ _ (Nat.le_refl _), ?_, ?_⟩
  · intro k hk
    obtain ⟨x, hx, rfl⟩ := mem_keysOf.mp hk
    have := xe_matchOK ok (mem_xmine.mp hx).1
    simp only [matchOK, Bool.and_eq_true, beq_iff_eq] at this
    exact this.1.1.1
  · intro k hk hk1
    obtain ⟨x, hx, rfl⟩ := mem_keysOf.mp hk
    have := xe_matchOK ok (mem_xmine.mp hx).1
    simp only [matchOK, Bool.and_eq_true, Bool.or_eq_true, beq_iff_eq, bne_iff_ne, ne_eq] at this
    simp only at hk1
    rcases this.1.1.2 with (h | h) | h
    · rw [hk1] at h; cases h
    · left; exact h
    · right
      simp only [endsSlash, beq_eq_false_iff_ne, ne_eq]
      exact h

/-! ### what the selected server answers -/

/-- the tail of `nginxEvalConf`: location selection and the content of the location -/
def locEval (sv : CServer) (q : Req) : Outcome :=
  match selectLoc (sv.locs.map toLoc) q.path with
  | .loc l =>
    match sv.locs.find? (fun cl => cl.exact == l.exact && cl.path == l.path) with
    | some cl => evalLocAct q cl.act
    | none => .status 404
  | .autoRedirect _ => .status 301
  | .none => .status 404

/-- Location stage on the generated server: NGINX ends in the location of a path rule that hits the request path and
that no other hitting path rule of the server outranks — or, when no path rule hits, answers 404. -/
theorem locEval_serverOf {g : Gateway} {routes : List Route} (ok : ScenOK g routes) (p : Nat) (n : Str) {q : Req}
    (hq : q.path.head? = some '/') (hsh : (serverOf (entries g routes) p n).locs.all locShadowOK = true) :
    (∃ k ∈ keysOf g routes p n, khit k q.path = true ∧
      (∀ k' ∈ keysOf g routes p n, khit k' q.path = true →
        (k'.1 = true → k.1 = true) ∧ (k'.1 = k.1 → k'.2.length ≤ k.2.length)) ∧
      locEval (serverOf (entries g routes) p n) q = evalLocAct q (ruleAct p (esK g routes p n k)) ∧
      ∃ e ∈ esK g routes p n k, isPathOnly e.m = true) ∨
    ((∀ k ∈ keysOf g routes p n, khit k q.path = false) ∧
      locEval (serverOf (entries g routes) p n) q = .status 404) := by
  have hlocs := serverOf_locs g routes p n
  have kok := keysOK_of ok p n
  have hte : ∀ gl, (toLoc (locF g routes p n gl)).exact = gl.exact := fun gl => locF_exact g routes p n gl
  have htp : ∀ gl, (toLoc (locF g routes p n gl)).path = gl.path := fun gl => locF_path g routes p n gl
  unfold locEval
  rw [hlocs] at hsh
  rw [hlocs, List.map_map]
  rcases select_fragment kok hq (toLoc ∘ locF g routes p n) hte htp with ⟨gl, hgl, hsel, hcase⟩ | ⟨hsel, hnone⟩
  · rw [hsel]
    simp only [Function.comp]
    rw [List.find?_map]
    cases hfind : (genLocs (rulesOf (keysOf g routes p n))).find?
        ((fun cl => cl.exact == (toLoc (locF g routes p n gl)).exact && cl.path == (toLoc (locF g routes p n gl)).path) ∘
          locF g routes p n) with
    | none =>
      exfalso
      have := List.find?_eq_none.mp hfind gl hgl
      simp only [Function.comp, Bool.and_eq_true, beq_iff_eq, not_and] at this
      exact this rfl rfl
    | some gl' =>
      have hgl' : gl' ∈ genLocs (rulesOf (keysOf g routes p n)) := List.mem_of_find?_eq_some hfind
      have hp' := List.find?_some hfind
      simp only [Function.comp, locF_exact, locF_path, hte, htp, Bool.and_eq_true, beq_iff_eq] at hp'
      have hrule : gl'.rule = gl.rule := genLocs_rule_unique kok hgl' hgl hp'.1 hp'.2
      simp only [Option.map_some]
      rcases hcase with ⟨k, hk, hhit, hbest⟩ | ⟨hlen, hnone⟩
      · left
        have hk' : (keysOf g routes p n)[gl'.rule]? = some k := by rw [hrule]; exact hk
        have hF : locF g routes p n gl' =
            { exact := gl'.exact, path := gl'.path, act := ruleAct p (esK g routes p n k) } := by
          unfold locF; rw [hk']
        refine ⟨k, List.mem_of_getElem? hk, hhit, hbest, by rw [hF], ?_⟩
        have hmem : locF g routes p n gl' ∈ (genLocs (rulesOf (keysOf g routes p n))).map (locF g routes p n) :=
          List.mem_map.mpr ⟨gl', hgl', rfl⟩
        have := List.all_eq_true.mp hsh _ hmem
        rw [hF] at this
        exact pathOnly_of_shadowOK p _ _ _ this
      · right
        refine ⟨hnone, ?_⟩
        have hk' : (keysOf g routes p n)[gl'.rule]? = none := by
          rw [hrule, hlen]; simp
        have hF : locF g routes p n gl' =
            { exact := gl'.exact, path := gl'.path, act := .direct (.status 404) } := by
          unfold locF; rw [hk']
        rw [hF]; rfl
  · right
    rw [hsel]
    exact ⟨hnone, rfl⟩

/-! ### inside the selected path rule -/

theorem same_len_hit {b : Bool} {p1 p2 q : Str} (hq : q.head? = some '/') (h1 : khit (b, p1) q = true)
    (h2 : khit (b, p2) q = true) (hl : p1.length = p2.length) : p1 = p2 := by
  cases b with
  | true =>
    simp only [khit, ↓reduceIte, beq_iff_eq] at h1 h2
    rw [h1, h2]
  | false =>
    have pre : ∀ {p : Str}, khit (false, p) q = true → p <+: q := by
      intro p h
      simp only [khit, Bool.false_eq_true, ↓reduceIte, prefixHit, Bool.or_eq_true, beq_iff_eq,
        List.isPrefixOf_iff_prefix] at h
      rcases h with (h | h) | h
      · rw [h]
        cases q with
        | nil => simp at hq
        | cons c cs =>
          simp only [List.head?_cons, Option.some.injEq] at hq
          subst hq; exact ⟨cs, rfl⟩
      · rw [h]; exact List.prefix_refl _
      · exact (List.prefix_append p ['/']).trans h
    have a1 := pre h1
    have a2 := pre h2
    have := List.prefix_of_prefix_length_le a1 a2 (by omega)
    exact this.eq_of_length hl

/-- the order handed to the stable sort, on annotated entries -/
def leX (a b : XE) : Bool := Precedence.le (keyC a.c) (keyC b.c)

/-- Rule stage: the location of path rule `k` answers with the action of an entry `x` of that rule whose conditions
the request satisfies, such that no other satisfied entry of the rule has priority over `x`, nor — on a tie — an
earlier source position. -/
theorem rule_pick {g : Gateway} {routes : List Route} (ok : ScenOK g routes) (p : Nat) (n : Str) {q : Req}
    (hqh : ∀ h ∈ q.headers, h.2.contains ',' = false) (k : Key)
    (hpo : ∃ e ∈ esK g routes p n k, isPathOnly e.m = true) :
    ∃ x ∈ xmine g routes p n, (x.c.m.exact, x.c.m.path) = k ∧ condsHit x.c.m q = true ∧
      evalLocAct q (ruleAct p (esK g routes p n k)) = evalAct q (actOf p x.c.action) ∧
      ∀ y ∈ xmine g routes p n, (y.c.m.exact, y.c.m.path) = k → condsHit y.c.m q = true →
        HP y.c x.c = false ∧ (HP x.c y.c = false → idxLt y.c x.c = false) := by
  -- the sorted list, in annotated terms
  let XK := (xmine g routes p n).filter fun x => pathKey (entryOf x) == k
  have hXK : ((xmine g routes p n).map entryOf).filter (fun e => pathKey e == k) = XK.map entryOf := by
    rw [List.filter_map]; rfl
  have hsort : esK g routes p n k = (XK.mergeSort leX).map entryOf := by
    unfold esK sortEntries
    rw [hXK]
    exact (List.map_mergeSort (f := entryOf) (r := leX) (s := fun a b => Precedence.le a.key b.key) (l := XK)
      (fun a _ b _ => rfl)).symm
  have tr : ∀ a b c : XE, leX a b = true → leX b c = true → leX a c = true :=
    fun a b c => le_trans' (keyC a.c) (keyC b.c) (keyC c.c)
  have tot : ∀ a b : XE, (leX a b || leX b a) = true := fun a b => le_total' (keyC a.c) (keyC b.c)
  have hperm := List.mergeSort_perm XK leX
  have hXKmem : ∀ {z : XE}, z ∈ XK ↔ z ∈ xmine g routes p n ∧ (z.c.m.exact, z.c.m.path) = k := by
    intro z
    simp only [XK, List.mem_filter, beq_iff_eq]
    rfl
  -- the njs list evaluates like `find?` with `condsHit`
  have htest : ∀ e ∈ esK g routes p n k, Njs.testMatch (njsReq q) (njsMatchOf e.m) = .ok (condsHit e.m q) := by
    intro e he
    rw [hsort] at he
    obtain ⟨z, hz, rfl⟩ := List.mem_map.mp he
    have hz' : z ∈ XK := hperm.mem_iff.mp hz
    exact testMatch_eq_condsHit (xe_matchOK ok (mem_xmine.mp (hXKmem.mp hz').1).1) hqh
  have heval := evalLocAct_ruleAct p q (esK g routes p n k) htest
  rw [hsort, List.find?_map] at heval
  -- a path-only entry exists, so the search succeeds
  obtain ⟨e0, he0, hpo0⟩ := hpo
  rw [hsort] at he0
  obtain ⟨z0, hz0, rfl⟩ := List.mem_map.mp he0
  cases hfind : (XK.mergeSort leX).find? ((fun e : Entry => condsHit e.m q) ∘ entryOf) with
  | none =>
    exfalso
    have := List.find?_eq_none.mp hfind z0 hz0
    exact this (condsHit_of_pathOnly hpo0 q)
  | some x =>
    rw [hfind] at heval
    simp only [Option.map_some] at heval
    obtain ⟨hxm, hsat, hmin, hfirst⟩ := mergeSort_find_first tr tot XK _ hfind
    have hxk := hXKmem.mp hxm
    refine ⟨x, hxk.1, hxk.2, hsat, by rw [hsort]; exact heval, ?_⟩
    intro y hy hyk hysat
    have hyK : y ∈ XK := hXKmem.mpr ⟨hy, hyk⟩
    have hle := hmin y hyK hysat
    have hHPyx : HP y.c x.c = false := by
      simp only [leX, Precedence.le, Bool.not_eq_true'] at hle
      exact hle
    refine ⟨hHPyx, ?_⟩
    intro hHPxy
    -- x is the first element of the whole entry list satisfying a provenance-blind predicate
    let P : XE → Bool := fun z =>
      (z.port == p && z.host == n) && (pathKey (entryOf z) == k) && NGF.Sort.equivB leX x z && condsHit z.c.m q
    have hPfind : (xentries g routes).find? P = some x := by
      have : (XK.filter (NGF.Sort.equivB leX x)).find? ((fun e : Entry => condsHit e.m q) ∘ entryOf) =
          (xentries g routes).find? P := by
        simp only [XK, xmine, List.find?_filter]
        congr 1
        funext z
        simp only [P, Function.comp, Bool.decide_and, Bool.decide_eq_true, Bool.and_assoc]
        rfl
      rw [← this]; exact hfirst
    have hblind : Blind P := by
      intro z z' h1 h2 h3 h4 h5 h6
      have hk' : keyC z.c = keyC z'.c := by simp [keyC, h3, h4, h5, h6]
      simp only [P, entryOf, pathKey, NGF.Sort.equivB, leX, h1, h2, h3, hk']
    have hPy : P y = true := by
      have h1 := (mem_xmine.mp hy)
      have heq : NGF.Sort.equivB leX x y = true := by
        simp only [NGF.Sort.equivB, leX, Precedence.le, Bool.and_eq_true, Bool.not_eq_true']
        exact ⟨hHPyx, hHPxy⟩
      have hkk : (pathKey (entryOf y) == k) = true := by
        rw [beq_iff_eq]; exact hyk
      simp [P, h1.2.1, h1.2.2, heq, hkk, hysat]
    have hx1 := mem_xmine.mp hxk.1
    have hy1 := mem_xmine.mp hy
    obtain ⟨hns, hname⟩ := HP_incomp hHPyx hHPxy
    exact first_has_least_index ok.ids hblind hPfind hy1.1 hPy (hy1.2.1.trans hx1.2.1.symm)
      (hy1.2.2.trans hx1.2.2.symm) hns hname

/-- Server-internal stage, composed: inside server `(p, n)` NGINX answers 404 when no entry's path hits; otherwise it
performs the action of an entry whose path and conditions hit and that no other such entry of the server `beats`. -/
theorem server_pick {g : Gateway} {routes : List Route} (ok : ScenOK g routes) (p : Nat) (n : Str) {q : Req}
    (hq : q.path.head? = some '/') (hqh : ∀ h ∈ q.headers, h.2.contains ',' = false)
    (hsh : (serverOf (entries g routes) p n).locs.all locShadowOK = true) :
    ((∀ y ∈ xmine g routes p n, pathHit y.c.m q.path = false) ∧
      locEval (serverOf (entries g routes) p n) q = .status 404) ∨
    (∃ x ∈ xmine g routes p n, pathHit x.c.m q.path = true ∧ condsHit x.c.m q = true ∧
      locEval (serverOf (entries g routes) p n) q = evalAct q (actOf p x.c.action) ∧
      ∀ y ∈ xmine g routes p n, pathHit y.c.m q.path = true → condsHit y.c.m q = true → beats y.c x.c = false) := by
  have hkhit : ∀ z : XE, khit (z.c.m.exact, z.c.m.path) q.path = pathHit z.c.m q.path := fun _ => rfl
  rcases locEval_serverOf ok p n hq hsh with ⟨k, hk, hhit, hbest, heval, hpo⟩ | ⟨hnone, heval⟩
  · right
    obtain ⟨x, hx, hxk, hsat, hact, hmin⟩ := rule_pick ok p n hqh k hpo
    refine ⟨x, hx, by rw [← hkhit, hxk]; exact hhit, hsat, heval.trans hact, ?_⟩
    intro y hy hyhit hysat
    have hyk : (y.c.m.exact, y.c.m.path) ∈ keysOf g routes p n := mem_keysOf.mpr ⟨y, hy, rfl⟩
    have hb := hbest _ hyk (by rw [hkhit]; exact hyhit)
    have hk1 : k.1 = x.c.m.exact := by rw [← hxk]
    have hk2 : k.2 = x.c.m.path := by rw [← hxk]
    simp only [hk1, hk2] at hb
    rw [beats_split]
    by_cases he : y.c.m.exact = x.c.m.exact
    · have hlen := hb.2 he
      by_cases hl : y.c.m.path.length = x.c.m.path.length
      · -- same path rule
        have hpath : y.c.m.path = x.c.m.path := by
          refine same_len_hit hq (b := x.c.m.exact) ?_ ?_ hl
          · rw [← he]; exact hyhit
          · rw [← hk1, ← hk2]; exact hhit
        have hyk' : (y.c.m.exact, y.c.m.path) = k := by rw [he, hpath, ← hxk]
        obtain ⟨h1, h2⟩ := hmin y hy hyk' hysat
        simp only [he, hl, bne_self_eq_false, Bool.false_eq_true, ↓reduceIte, h1, Bool.false_or]
        cases hxy : HP x.c y.c with
        | true => simp
        | false => simp [h2 hxy]
      · have : (y.c.m.path.length != x.c.m.path.length) = true := by simpa using hl
        have hgt : ¬ y.c.m.path.length > x.c.m.path.length := by omega
        simp [he, this, hgt]
    · have hne : (y.c.m.exact != x.c.m.exact) = true := by simpa using he
      simp only [hne, ↓reduceIte]
      cases hy1 : y.c.m.exact with
      | false => rfl
      | true => exact absurd (hy1.trans (hb.1 hy1).symm) he
  · left
    refine ⟨?_, heval⟩
    intro y hy
    rw [← hkhit]
    exact hnone _ (mem_keysOf.mpr ⟨y, hy, rfl⟩)

/-! ### the end-to-end statement -/

theorem reqOK_unpack {q : Req} (h : reqOK q = true) :
    (isWildName q.host = false ∧ q.host ≠ catchAll) ∧ q.host.length < 100000 ∧ q.path.head? = some '/' ∧
    ∀ h ∈ q.headers, h.2.contains ',' = false := by
  simp only [reqOK, Bool.and_eq_true, Bool.not_eq_true', bne_iff_ne, ne_eq, decide_eq_true_eq, beq_iff_eq,
    List.all_eq_true] at h
  exact ⟨⟨h.1.1.1.1, h.1.1.1.2⟩, h.1.1.2, h.1.2, h.2⟩

/-- `nginxEvalConf` on a generated configuration, server by server -/
theorem nginxEvalConf_gen {s : Scenario} {g : Gateway} (hw : winner s = some g) {q : Req}
    (hport : g.listeners.any (·.port == q.port) = true) :
    nginxEvalConf (gen s) q =
      match selectName (((hostsOf g s.routes).filter (·.1 == q.port)).map (·.2)) q.host with
      | none => .status 404
      | some n =>
        if (q.port, n) ∈ hostsOf g s.routes then locEval (serverOf (entries g s.routes) q.port n) q
        else .status 404 := by
  have hports : (gen s).ports.contains q.port = true := by
    have := ports_contains g q.port
    unfold gen; simp only [hw]; rw [this, hport]
  have hsrv : (gen s).servers = (hostsOf g s.routes).map fun ph => serverOf (entries g s.routes) ph.1 ph.2 := by
    unfold gen; simp only [hw]
  have hnames : ((gen s).servers.filter (·.port == q.port)).map (·.name) =
      ((hostsOf g s.routes).filter (·.1 == q.port)).map (·.2) := by
    rw [hsrv, List.filter_map, List.map_map]; rfl
  unfold nginxEvalConf
  simp only [hports, Bool.not_true, Bool.false_eq_true, ↓reduceIte, hnames]
  cases hsel : selectName (((hostsOf g s.routes).filter (·.1 == q.port)).map (·.2)) q.host with
  | none => rfl
  | some n =>
    simp only
    rw [hsrv, List.filter_map, List.find?_map]
    by_cases hmem : (q.port, n) ∈ hostsOf g s.routes
    · simp only [hmem, ↓reduceIte]
      cases hf : ((hostsOf g s.routes).filter ((fun x : CServer => x.port == q.port) ∘
          fun ph => serverOf (entries g s.routes) ph.1 ph.2)).find?
          ((fun x : CServer => x.name == n) ∘ fun ph => serverOf (entries g s.routes) ph.1 ph.2) with
      | none =>
        exfalso
        have := List.find?_eq_none.mp hf (q.port, n) (List.mem_filter.mpr ⟨hmem, by simp [serverOf]⟩)
        simp [serverOf] at this
      | some ph =>
        have h1 := List.find?_some hf
        have h2 := (List.mem_filter.mp (List.mem_of_find?_eq_some hf)).2
        simp only [Function.comp, serverOf, beq_iff_eq] at h1 h2
        have : ph = (q.port, n) := by cases ph; simp_all
        subst this
        rfl
    · simp only [hmem, ↓reduceIte]
      cases hf : ((hostsOf g s.routes).filter ((fun x : CServer => x.port == q.port) ∘
          fun ph => serverOf (entries g s.routes) ph.1 ph.2)).find?
          ((fun x : CServer => x.name == n) ∘ fun ph => serverOf (entries g s.routes) ph.1 ph.2) with
      | none => rfl
      | some ph =>
        exfalso
        have h1 := List.find?_some hf
        have h2 := List.mem_filter.mp (List.mem_of_find?_eq_some hf)
        simp only [Function.comp, serverOf, beq_iff_eq] at h1 h2
        have : ph = (q.port, n) := by cases ph; simp_all
        rw [this] at h2; exact hmem h2.1

/-- The end-to-end refinement on the region "the port is served": server selection, location selection, the njs
matcher and the action, composed. -/
theorem refines_served {s : Scenario} {g : Gateway} (hw : winner s = some g) {q : Req}
    (hport : g.listeners.any (·.port == q.port) = true) (hf : inFragment s = true) (hn : noShadow (gen s) = true)
    (hp : namesPlain s = true) (hr : routesHaveRules s = true) (hq : reqOK q = true) :
    nginxEvalConf (gen s) q = routeF s q := by
  have ok := scenOK_of hw hf hp hr
  obtain ⟨hconc, hlen, hpath, hqh⟩ := reqOK_unpack hq
  have hroute : routeF s q =
      match best ((((specCands g s.routes q.port).filter (candCovers · q.host)).filter
          (fun c => candSpec c == ((specCands g s.routes q.port).filter (candCovers · q.host)).foldl
            (fun acc c => max acc (candSpec c)) 0)).filter fun c => pathHit c.m q.path && condsHit c.m q) with
      | some c => specAction q c.action
      | none => .status 404 := by
    unfold routeF
    simp only [hw, hport, Bool.not_true, Bool.false_eq_true, ↓reduceIte]
    rfl
  rw [nginxEvalConf_gen hw hport, hroute]
  have hnamemem : ∀ m, m ∈ ((hostsOf g s.routes).filter (·.1 == q.port)).map (·.2) ↔ (q.port, m) ∈ hostsOf g s.routes := by
    intro m
    simp only [List.mem_map, List.mem_filter, beq_iff_eq]
    constructor
    · rintro ⟨ph, ⟨h1, h2⟩, rfl⟩
      rw [← h2]; exact h1
    · intro h; exact ⟨(q.port, m), ⟨h, rfl⟩, rfl⟩
  cases hsel : selectName (((hostsOf g s.routes).filter (·.1 == q.port)).map (·.2)) q.host with
  | none =>
    have hnone := selectName_none hconc hsel
    have hcov := no_covering_of_unselected ok (p := q.port) hconc.1
      (fun m hm => hnone m ((hnamemem m).mpr hm))
    simp only [hcov, List.filter_nil, best]
  | some n =>
    obtain ⟨hnmem, hncov, hnmax⟩ := selectName_most_specific hconc hlen hsel
    have hnh : (q.port, n) ∈ hostsOf g s.routes := (hnamemem n).mp hnmem
    simp only [hnh, ↓reduceIte]
    have hpool := pool_iff_server_entries ok hconc hnh hncov
      (fun m hm hc => hnmax m ((hnamemem m).mpr hm) hc)
    -- membership in the hit set
    generalize hhit : ((((specCands g s.routes q.port).filter (candCovers · q.host)).filter
          (fun c => candSpec c == ((specCands g s.routes q.port).filter (candCovers · q.host)).foldl
            (fun acc c => max acc (candSpec c)) 0)).filter fun c => pathHit c.m q.path && condsHit c.m q) = hit
    have hhitmem : ∀ c, c ∈ hit ↔ (⟨q.port, n, c⟩ : XE) ∈ xentries g s.routes ∧ pathHit c.m q.path = true ∧
        condsHit c.m q = true := by
      intro c
      rw [← hhit, List.mem_filter, hpool c, Bool.and_eq_true]
    have hxmine : ∀ c, (⟨q.port, n, c⟩ : XE) ∈ xentries g s.routes ↔ (⟨q.port, n, c⟩ : XE) ∈ xmine g s.routes q.port n := by
      intro c; simp [mem_xmine]
    -- noShadow for this server
    have hsh : (serverOf (entries g s.routes) q.port n).locs.all locShadowOK = true := by
      rw [noShadow_eq] at hn
      have hsv : serverOf (entries g s.routes) q.port n ∈ (gen s).servers := by
        unfold gen; simp only [hw]
        exact List.mem_map.mpr ⟨(q.port, n), hnh, rfl⟩
      exact List.all_eq_true.mp hn _ hsv
    rcases server_pick ok q.port n hpath hqh hsh with ⟨hnohit, heval⟩ | ⟨x, hx, hxhit, hxsat, heval, hxmin⟩
    · -- nothing hits: the hit set is empty
      have : hit = [] := by
        cases hh : hit with
        | nil => rfl
        | cons c cs =>
          exfalso
          have hc : c ∈ hit := by rw [hh]; exact List.mem_cons_self
          obtain ⟨h1, h2, _⟩ := (hhitmem c).mp hc
          have := hnohit _ ((hxmine c).mp h1)
          simp only at this
          rw [this] at h2; cases h2
      rw [heval, this]; rfl
    · -- the entry NGINX picks is an unbeaten member of the hit set
      have hx1 := mem_xmine.mp hx
      have hxeq : x = ⟨q.port, n, x.c⟩ := by cases x; simp_all
      have hxhitm : x.c ∈ hit := (hhitmem x.c).mpr ⟨by rw [← hxeq]; exact hx1.1, hxhit, hxsat⟩
      cases hb : best hit with
      | none => rw [best_eq_none.mp hb] at hxhitm; cases hxhitm
      | some c =>
        obtain ⟨hcm, hcmax⟩ := best_spec hb
        obtain ⟨hc1, hc2, hc3⟩ := (hhitmem c).mp hcm
        have h1 : beats x.c c = false := hcmax _ hxhitm
        have h2 : beats c x.c = false := hxmin _ ((hxmine c).mp hc1) hc2 hc3
        obtain ⟨hns, hname, hidx, _⟩ := beats_incomp h1 h2
        have hcs : c ∈ specCands g s.routes q.port := (cand_of_xe ok hconc.1 hc1).1
        have hxs : x.c ∈ specCands g s.routes x.port := (cand_of_xe ok hconc.1 hx1.1).1
        have hact : x.c.action = c.action := action_of_identity ok.ids hxs hcs hns hname hidx
        simp only
        rw [heval, hact, evalAct_actOf]

/-- The end-to-end refinement theorem of the pipeline fragment, for all scenarios and all requests. -/
theorem refines_fragment (s : Scenario) (q : Req) (hf : inFragment s = true) (hn : noShadow (gen s) = true)
    (hp : namesPlain s = true) (hr : routesHaveRules s = true) (hq : reqOK q = true) :
    nginxEvalConf (gen s) q = routeF s q := by
  cases hw : winner s with
  | none => exact refines_no_gateway s q hw
  | some g =>
    cases hport : g.listeners.any (·.port == q.port) with
    | false => exact refines_unused_port s q g hw hport
    | true => exact refines_served hw hport hf hn hp hr hq

end NGF.Pipeline
