/-
Helpers for Props/C06Certs (task C06-certs): the projection lemma `Tls.secretRefAllowed ∘ convGrant = C06 resolver`, and
that `genT` depends on the grants only through listener validity.
-/
import NGF.Model.PipelineTlsRefs
import NGF.Proofs.PipelineTls
import NGF.Proofs.RefGrant

namespace NGF.PipelineTlsRefs
open NGF.Pipeline NGF.PipelineTls

theorem toList_eq_iff {s : String} {l : List Char} : s.toList = l ↔ s = String.ofList l := by
  constructor
  · intro h; rw [← h, String.ofList_toList]
  · intro h; rw [h, String.toList_ofList]

/-- what `PipelineTls` asks of the projected grants is the declarative spec over the C06 grants -/
theorem secretRefAllowed_conv_iff (gs : List RefGrant.Grant) (gwNs sNs sName : Str) :
    Tls.secretRefAllowed (gs.map convGrant) gwNs sNs sName = true ↔
      RefGrant.Permitted gs "Secret" (String.ofList sNs) (String.ofList sName) (RefGrant.fromGateway (String.ofList gwNs)) := by
  unfold Tls.secretRefAllowed RefGrant.Permitted
  simp only [List.any_map, List.any_eq_true, Function.comp, convGrant, Bool.and_eq_true, Bool.or_eq_true, convFrom, convTo,
    decide_eq_true_iff]
  constructor
  · rintro ⟨g, hg, ⟨hns, f, hf, ⟨hf1, hf2⟩, hf3⟩, t, ht, ⟨htg, htk⟩, htn⟩
    have hns := of_decide_eq_true hns
    have hf1 := of_decide_eq_true hf1
    have hf2 := of_decide_eq_true hf2
    have hf3 := of_decide_eq_true hf3
    have htk := of_decide_eq_true htk
    refine ⟨g, hg, toList_eq_iff.1 hns, ⟨f, hf, ?_, ?_, toList_eq_iff.1 hf3⟩, t, ht, ?_, ?_, ?_⟩
    · exact String.toList_inj.1 hf1
    · exact String.toList_inj.1 hf2
    · rcases htg with h | h
      · exact .inl (String.toList_inj.1 (of_decide_eq_true h))
      · exact .inr (String.toList_inj.1 (of_decide_eq_true h))
    · exact String.toList_inj.1 htk
    · rcases htn with h | h
      · have := toList_eq_iff.1 (of_decide_eq_true h)
        rcases RefGrant.toName_eq.1 this with ⟨h1, _⟩ | h1
        · exact .inl h1
        · exact .inr (.inr h1)
      · have : RefGrant.toName t = "" := String.toList_inj.1 (of_decide_eq_true h)
        rcases RefGrant.toName_eq.1 this with ⟨h1, _⟩ | h1
        · exact .inl h1
        · exact .inr (.inl h1)
  · rintro ⟨g, hg, hns, ⟨f, hf, hf1, hf2, hf3⟩, t, ht, htg, htk, htn⟩
    refine ⟨g, hg, ⟨decide_eq_true (toList_eq_iff.2 hns), f, hf, ⟨decide_eq_true ?_, decide_eq_true ?_⟩,
      decide_eq_true (toList_eq_iff.2 hf3)⟩, t, ht, ⟨?_, decide_eq_true ?_⟩, ?_⟩
    · rw [hf1]; rfl
    · rw [hf2]; rfl
    · rcases htg with h | h
      · exact .inl (decide_eq_true (by rw [h]; rfl))
      · exact .inr (decide_eq_true (by rw [h]; rfl))
    · rw [htk]; rfl
    · rcases htn with h | h | h
      · exact .inr (decide_eq_true (by rw [RefGrant.toName_eq.2 (.inl ⟨h, rfl⟩)]; rfl))
      · exact .inr (decide_eq_true (by rw [RefGrant.toName_eq.2 (.inr h)]; rfl))
      · exact .inl (decide_eq_true (by rw [RefGrant.toName_eq.2 (.inr h), String.toList_ofList]))

theorem genT_http' (s : ScenarioT) : (genT s).http = gen (httpPart s) := by
  unfold genT; cases winnerT s <;> rfl

/-- `genT` reads the grants only through `validHttps` -/
theorem genT_congr_grants (s : ScenarioT) (gs' : List Tls.Grant)
    (h : ∀ g l, validHttps { s with grants := gs' } g l = validHttps s g l) :
    genT { s with grants := gs' } = genT s := by
  have hf : validHttps { s with grants := gs' } = validHttps s := by funext g l; exact h g l
  unfold genT httpsPart sslListeners
  simp only [hf]
  rfl

end NGF.PipelineTlsRefs
