/-
Helper lemmas for `NGF.Model.PipelineRefs` (C06 deepening round; also used by Props/C01Refs). Core Lean only.

  §1 where the actions of `Pipeline.gen` come from (every action of every location is the action of a rule of a valid,
     attached route, or the default 404)
  §2 what `distOf` can name
  §3 what `resolveRef` / `resolve` produce
  §4 upstream names (`ns_name_port`) identify namespace and name when these contain no `_`
  §5 congruence: `gen (resolve c)` depends on the cluster only through the resolved actions of valid attached routes
-/
import NGF.Model.PipelineRefs
import NGF.Proofs.RefGrant
import NGF.Proofs.SplitClientsInt

namespace NGF.PipelineRefs
open NGF.Pipeline
open NGF.RefGrant (Grant BackendRef GBackendRef Permitted)

/-! ### §1 provenance of the actions of `gen` -/

theorem mem_sortEntries {es : List Entry} {e : Entry} : e ∈ sortEntries es ↔ e ∈ es := by
  unfold sortEntries; exact List.mem_mergeSort

theorem ruleAct_acts {port : Nat} {mrs : List Entry} {a : Act} (h : a ∈ locActs (ruleAct port mrs)) :
    ∃ e ∈ mrs, a = actOf port e.action := by
  unfold ruleAct at h
  split at h
  · rename_i e
    split at h
    · simp only [locActs, List.mem_singleton] at h; exact ⟨e, by simp, h⟩
    · simp only [locActs, List.map_cons, List.map_nil, List.mem_singleton] at h; exact ⟨e, by simp, h⟩
  · simp only [locActs, List.map_map, List.mem_map, Function.comp] at h
    obtain ⟨e, he, rfl⟩ := h
    exact ⟨e, he, rfl⟩

theorem serverOf_acts {es : List Entry} {port : Nat} {h : Str} {a : Act}
    (ha : a ∈ (serverOf es port h).locs.flatMap (fun l => locActs l.act)) :
    a = .status 404 ∨ ∃ e ∈ es, a = actOf port e.action := by
  simp only [serverOf, List.mem_flatMap, List.mem_map] at ha
  obtain ⟨l, ⟨gl, _, rfl⟩, ha⟩ := ha
  split at ha
  · obtain ⟨e, he, rfl⟩ := ruleAct_acts ha
    rw [mem_sortEntries] at he
    exact .inr ⟨e, (List.mem_filter.1 (List.mem_filter.1 he).1).1, rfl⟩
  · simp only [locActs, List.mem_singleton] at ha; exact .inl ha

/-- every action of every location of the generated configuration is the default 404 or the action of an entry -/
theorem gen_acts {s : Scenario} {a : Act} (ha : a ∈ confActs (gen s)) :
    a = .status 404 ∨ ∃ g, winner s = some g ∧ ∃ e ∈ entries g s.routes, ∃ port, a = actOf port e.action := by
  unfold gen at ha
  cases hw : winner s with
  | none => simp [hw, confActs] at ha
  | some g =>
    simp only [hw, confActs, List.mem_flatMap, List.mem_map] at ha
    obtain ⟨sv, ⟨ph, _, rfl⟩, l, hl, hal⟩ := ha
    rcases serverOf_acts (List.mem_flatMap.2 ⟨l, hl, hal⟩) with h | ⟨e, he, h⟩
    · exact .inl h
    · exact .inr ⟨g, rfl, e, he, ph.1, h⟩

/-- an entry is a match of a rule of a valid route at a listener the route is attached to -/
theorem mem_entries {g : Gateway} {routes : List Route} {e : Entry} (he : e ∈ entries g routes) :
    ∃ l ∈ g.listeners, ∃ r ∈ routes, r.valid = true ∧ acceptedAt g l r ≠ [] ∧ ∃ rule ∈ r.rules, e.action = rule.action := by
  simp only [entries, List.mem_flatMap] at he
  obtain ⟨l, hl, r, hr, he⟩ := he
  by_cases hv : r.valid = true
  · simp only [hv, if_true, routeEntries, List.mem_flatMap, List.mem_map] at he
    obtain ⟨rule, hrule, h, hh, m, _, rfl⟩ := he
    exact ⟨l, hl, r, hr, hv, List.ne_nil_of_mem hh, rule, hrule, rfl⟩
  · simp [hv] at he

/-! ### §2 `distOf` -/

theorem mem_zipDist : ∀ {bs : List Backend} {cs : List Nat} {t : Str × Nat},
    t ∈ zipDist bs cs → ∃ b ∈ bs, t.1 = valueOf b
  | b :: bs, c :: cs, t, h => by
    simp only [zipDist, List.mem_cons] at h
    rcases h with rfl | h
    · exact ⟨b, by simp, rfl⟩
    · obtain ⟨b', hb', e⟩ := mem_zipDist h
      exact ⟨b', by simp [hb'], e⟩
  | [], _, t, h => by simp [zipDist] at h
  | _ :: _, [], t, h => by simp [zipDist] at h

theorem valueOf_cases (b : Backend) : valueOf b = invalidBackendRef ∨ (b.valid = true ∧ valueOf b = b.target) := by
  unfold valueOf
  cases b.valid <;> simp

/-- a distribution names only `invalid-backend-ref` and the targets of VALID backends -/
theorem mem_distOf {bs : List Backend} {t : Str × Nat} (h : t ∈ distOf bs) :
    t.1 = invalidBackendRef ∨ ∃ b ∈ bs, b.valid = true ∧ t.1 = b.target := by
  unfold distOf at h
  split at h
  · simp only [List.mem_singleton] at h; subst h; exact .inl rfl
  · rename_i b
    split at h
    · simp only [List.mem_singleton] at h; subst h; exact .inl rfl
    · rename_i hc
      simp only [List.mem_singleton] at h; subst h
      simp only [Bool.or_eq_true, beq_iff_eq, Bool.not_eq_true', not_or, Bool.not_eq_false] at hc
      exact .inr ⟨b, by simp, hc.2, rfl⟩
  · simp only at h
    split at h
    · simp only [List.mem_singleton] at h; subst h; exact .inl rfl
    · obtain ⟨b, hb, e⟩ := mem_zipDist h
      rcases valueOf_cases b with hv | ⟨hv, ht⟩
      · exact .inl (e.trans hv)
      · exact .inr ⟨b, hb, hv, e.trans ht⟩

theorem zipDist_length : ∀ (bs : List Backend) (cs : List Nat), bs.length = cs.length → (zipDist bs cs).length = bs.length
  | [], [], _ => rfl
  | b :: bs, c :: cs, h => by simp [zipDist, zipDist_length bs cs (by simpa using h)]
  | [], _ :: _, h => by simp at h
  | _ :: _, [], h => by simp at h

theorem zipDist_get : ∀ (bs : List Backend) (cs : List Nat) (i : Nat) (b : Backend), bs.length = cs.length →
    bs[i]? = some b → ∃ c, (zipDist bs cs)[i]? = some (valueOf b, c)
  | [], _, _, _, _, h => by simp at h
  | _ :: _, [], _, _, hl, _ => by simp at hl
  | b0 :: bs, c :: cs, 0, b, _, h => by
    simp only [List.getElem?_cons_zero, Option.some.injEq] at h; subst h
    exact ⟨c, by simp [zipDist]⟩
  | b0 :: bs, c :: cs, i + 1, b, hl, h => by
    simp only [List.getElem?_cons_succ] at h
    obtain ⟨c', hc'⟩ := zipDist_get bs cs i b (by simpa using hl) h
    exact ⟨c', by simpa [zipDist] using hc'⟩

/-- an INVALID backend at position `i` of a rule: the whole rule answers 500, or the distribution has one entry per
backend and the `i`-th names `invalid-backend-ref` -/
theorem distOf_invalid_at {bs : List Backend} {i : Nat} {b : Backend} (hi : bs[i]? = some b) (hv : b.valid = false) :
    distOf bs = [(invalidBackendRef, 10000)] ∨
      ((distOf bs).length = bs.length ∧ ∃ share, (distOf bs)[i]? = some (invalidBackendRef, share)) := by
  have hval : valueOf b = invalidBackendRef := by simp [valueOf, hv]
  match bs, hi with
  | [], hi => simp at hi
  | [b0], hi =>
    cases i with
    | zero =>
      simp only [List.getElem?_cons_zero, Option.some.injEq] at hi; subst hi
      left; simp [distOf, hv]
    | succ j => simp at hi
  | b0 :: b1 :: rest, hi =>
    by_cases hs : (((b0 :: b1 :: rest).map (·.weight)).sum == 0) = true
    · left; simp only [distOf, hs, if_true]
    · right
      have hpos : 0 < ((b0 :: b1 :: rest).map (·.weight)).sum := by
        simp only [beq_iff_eq] at hs; omega
      have hlen := (NGF.SplitClients.intCents_main _ hpos).1
      have hl : (b0 :: b1 :: rest).length = (NGF.SplitClients.intCents ((b0 :: b1 :: rest).map (·.weight))).length := by
        rw [hlen]; simp
      have hd : distOf (b0 :: b1 :: rest) =
          zipDist (b0 :: b1 :: rest) (NGF.SplitClients.intCents ((b0 :: b1 :: rest).map (·.weight))) := by
        simp only [distOf, hs, Bool.false_eq_true, if_false]
      rw [hd]
      refine ⟨zipDist_length _ _ hl, ?_⟩
      obtain ⟨c, hc⟩ := zipDist_get _ _ i b hl hi
      exact ⟨c, by rw [hc, hval]⟩

/-! ### §3 `resolveRef`, `resolve` -/

theorem resolveRef_valid {gs : List Grant} {svcs : List Service} {routeNs : String} {ref : BackendRef}
    (h : (resolveRef gs svcs routeNs ref).valid = true) :
    RefGrant.routeRefVerdict gs .http routeNs ref = .ok ∧ ∃ p, findPort svcs routeNs ref = some p ∧
      resolveRef gs svcs routeNs ref =
        { valid := true, svcNs := RefGrant.refNs ref routeNs, svcName := ref.name, port := p, weight := refWeight ref } := by
  unfold resolveRef RefGrant.createBackendRef at h ⊢
  split at h
  · rename_i hok
    simp only at h
    cases hf : findPort svcs routeNs ref with
    | none => simp [hf] at h
    | some p => exact ⟨hok, p, rfl, by simp⟩
  · simp at h

/-- the reference check failed: the graph backendRef is invalid and carries no Service -/
theorem resolveRef_refused {gs : List Grant} {svcs : List Service} {routeNs : String} {ref : BackendRef}
    (h : RefGrant.routeRefVerdict gs .http routeNs ref ≠ .ok) :
    resolveRef gs svcs routeNs ref = { valid := false, svcNs := "", svcName := "", port := 0, weight := refWeight ref } := by
  unfold resolveRef RefGrant.createBackendRef
  split
  · rename_i hok; exact absurd hok h
  · rfl

theorem findPort_some {svcs : List Service} {routeNs : String} {ref : BackendRef} {p : Nat}
    (h : findPort svcs routeNs ref = some p) :
    ref.port = some p ∧ ∃ svc, lookupSvc svcs (RefGrant.refNs ref routeNs) ref.name = some svc ∧ p ∈ svc.ports := by
  unfold findPort at h
  split at h
  · simp at h
  · rename_i svc hs
    split at h
    · simp at h
    · rename_i q hq
      unfold getServicePort at h
      have hm := List.mem_of_find?_eq_some h
      have he := List.find?_some h
      simp only [beq_iff_eq] at he
      subst he
      exact ⟨hq, svc, hs, hm⟩

theorem lookupSvc_some {svcs : List Service} {ns name : String} {svc : Service} (h : lookupSvc svcs ns name = some svc) :
    svc ∈ svcs ∧ svc.ns = ns ∧ svc.name = name := by
  unfold lookupSvc at h
  have hm := List.mem_of_find?_eq_some h
  have he := List.find?_some h
  simp only [Bool.and_eq_true, beq_iff_eq] at he
  exact ⟨hm, he.1, he.2⟩

theorem toPBackend_target {b : GBackendRef} (hv : b.valid = true) :
    (toPBackend b).target = upstreamOf b.svcNs b.svcName b.port := by
  simp [toPBackend, upstreamOf, RefGrant.servicePortReference, hv]

theorem acceptedAt_congr {g : Gateway} {l : Listener} {a b : Route} (h1 : a.parents = b.parents) (h2 : a.ns = b.ns)
    (h3 : a.hostnames = b.hostnames) : acceptedAt g l a = acceptedAt g l b := by
  unfold acceptedAt refersTo nsAllowed; rw [h1, h2, h3]

theorem winner_congr {s t : Scenario} (h1 : s.classes = t.classes) (h2 : s.cls = t.cls) (h3 : s.ctlr = t.ctlr)
    (h4 : s.gateways = t.gateways) : winner s = winner t := by
  unfold winner classOurs; rw [h1, h2, h3, h4]

/-- attachment does not look at grants or Services -/
theorem acceptedAt_resolveRoute (g : Gateway) (l : Listener) (gs : List Grant) (svcs : List Service) (r : RouteR) :
    acceptedAt g l (resolveRoute gs svcs r) = acceptedAtR g l r :=
  acceptedAt_congr (a := resolveRoute gs svcs r) (b := resolveRoute [] [] r) rfl rfl rfl

theorem attached_of_accepted {g : Gateway} {l : Listener} {r : RouteR} (hl : l ∈ g.listeners) (hv : r.valid = true)
    (ha : acceptedAtR g l r ≠ []) : attached g r = true := by
  unfold attached
  simp only [hv, Bool.true_and, List.any_eq_true]
  exact ⟨l, hl, by cases h : acceptedAtR g l r <;> simp_all⟩

theorem winner_resolve (c : ScenarioR) (gs : List Grant) (svcs : List Service) :
    winner (resolve { c with grants := gs, services := svcs }) = winner (resolve c) :=
  winner_congr rfl rfl rfl rfl

/-- §1 for `resolve`: every action of `gen (resolve c)` is the default 404 or the resolved action of a rule of a valid
route attached to the served Gateway -/
theorem genR_acts {c : ScenarioR} {a : Act} (ha : a ∈ confActs (genR c)) :
    a = .status 404 ∨ ∃ g, winner (resolve c) = some g ∧ ∃ r ∈ c.routes, attached g r = true ∧
      ∃ ru ∈ r.rules, ∃ port, a = actOf port (resolveAction c.grants c.services r.ns ru.action) := by
  rcases gen_acts ha with h | ⟨g, hw, e, he, port, h⟩
  · exact .inl h
  · right
    obtain ⟨l, hl, r', hr', hv, hacc, rule, hrule, hact⟩ := mem_entries he
    simp only [resolve, List.mem_map] at hr'
    obtain ⟨r, hr, rfl⟩ := hr'
    simp only [resolveRoute, List.mem_map] at hrule
    obtain ⟨ru, hru, rfl⟩ := hrule
    refine ⟨g, hw, r, hr, attached_of_accepted hl hv ?_, ru, hru, port, ?_⟩
    · rw [← acceptedAt_resolveRoute g l c.grants c.services r]; exact hacc
    · rw [h, hact]; rfl

/-- every named upstream of a resolved action is the Service port of one of its backendRefs, and that reference
passed the reference check and found its Service and port -/
theorem resolveAction_targets {gs : List Grant} {svcs : List Service} {routeNs : String} {act : ActionR} {port : Nat}
    {t : Str × Nat} (ht : t ∈ actTargets (actOf port (resolveAction gs svcs routeNs act)))
    (hne : t.1 ≠ invalidBackendRef) :
    ∃ refs, act = .forward refs ∧ ∃ ref ∈ refs, ∃ p,
      t.1 = upstreamOf (RefGrant.refNs ref routeNs) ref.name p ∧
      RefGrant.routeRefVerdict gs .http routeNs ref = .ok ∧ findPort svcs routeNs ref = some p := by
  cases act with
  | redirect code sch h p => simp [resolveAction, actOf, actTargets] at ht
  | forward refs =>
    simp only [resolveAction, actOf, actTargets] at ht
    rcases mem_distOf ht with h | ⟨b, hb, hv, htb⟩
    · exact absurd h hne
    · obtain ⟨ref, href, rfl⟩ := List.mem_map.1 hb
      have hv' : (resolveRef gs svcs routeNs ref).valid = true := hv
      obtain ⟨hok, p, hf, heq⟩ := resolveRef_valid hv'
      refine ⟨refs, rfl, ref, href, p, ?_, hok, hf⟩
      rw [htb, toPBackend_target hv', heq]

/-! ### §4 upstream names -/

theorem upstreamOf_eq (ns name : String) (port : Nat) :
    upstreamOf ns name port = ns.toList ++ '_' :: (name.toList ++ '_' :: Nat.toDigits 10 port) := by
  simp [upstreamOf, RefGrant.servicePortReference, String.toList_append, ToString.toString]

theorem split_at_underscore : ∀ {a a' x x' : List Char}, '_' ∉ a → '_' ∉ a' →
    a ++ '_' :: x = a' ++ '_' :: x' → a = a' ∧ x = x'
  | [], [], _, _, _, _, h => by simpa using h
  | [], c :: a', _, _, _, h', h => by
    simp only [List.nil_append, List.cons_append, List.cons.injEq] at h
    exact absurd (by simp [← h.1]) h'
  | c :: a, [], _, _, h', _, h => by
    simp only [List.nil_append, List.cons_append, List.cons.injEq] at h
    exact absurd (by simp [h.1]) h'
  | c :: a, c' :: a', _, _, h1, h2, h => by
    simp only [List.cons_append, List.cons.injEq] at h
    obtain ⟨rfl, h⟩ := h
    obtain ⟨e1, e2⟩ := split_at_underscore (a := a) (a' := a') (fun hm => h1 (List.mem_cons_of_mem _ hm))
      (fun hm => h2 (List.mem_cons_of_mem _ hm)) h
    exact ⟨by rw [e1], e2⟩

theorem noUnderscore_iff {s : String} : noUnderscore s = true ↔ '_' ∉ s.toList := by
  simp [noUnderscore]

/-- names without `_`: the upstream name identifies the Service's namespace and name -/
theorem upstreamOf_inj {ns name ns' name' : String} {p p' : Nat}
    (h1 : noUnderscore ns = true) (h2 : noUnderscore name = true) (h3 : noUnderscore ns' = true)
    (h4 : noUnderscore name' = true) (h : upstreamOf ns name p = upstreamOf ns' name' p') :
    ns = ns' ∧ name = name' := by
  rw [upstreamOf_eq, upstreamOf_eq] at h
  obtain ⟨e1, h⟩ := split_at_underscore (noUnderscore_iff.1 h1) (noUnderscore_iff.1 h3) h
  obtain ⟨e2, _⟩ := split_at_underscore (noUnderscore_iff.1 h2) (noUnderscore_iff.1 h4) h
  exact ⟨String.toList_inj.1 e1, String.toList_inj.1 e2⟩

theorem upstreamOf_ne_invalid (ns name : String) (p : Nat) : upstreamOf ns name p ≠ invalidBackendRef := by
  intro h
  have hm : '_' ∈ upstreamOf ns name p := by rw [upstreamOf_eq]; simp
  rw [h] at hm
  exact absurd hm (by decide)

/-! ### §5 congruence: what `gen (resolve c)` depends on -/

theorem resolveRef_congr {gs gs' : List Grant} {svcs svcs' : List Service} {routeNs : String} {ref : BackendRef}
    (hv : RefGrant.routeRefVerdict gs .http routeNs ref = RefGrant.routeRefVerdict gs' .http routeNs ref)
    (hp : RefGrant.routeRefVerdict gs .http routeNs ref = .ok → findPort svcs routeNs ref = findPort svcs' routeNs ref) :
    resolveRef gs svcs routeNs ref = resolveRef gs' svcs' routeNs ref := by
  unfold resolveRef RefGrant.createBackendRef
  rw [← hv]
  split
  · rename_i hok; rw [hp hok]
  · rfl

theorem routeEntries_nil (port : Nat) (r : Route) : routeEntries port [] r = [] := by
  simp [routeEntries]

/-- the contribution of one route at one listener -/
def contrib (g : Gateway) (l : Listener) (r : Route) : List Entry :=
  if r.valid then routeEntries l.port (acceptedAt g l r) r else []

def hostContrib (g : Gateway) (l : Listener) (r : Route) : List (Nat × Str) :=
  if r.valid then (acceptedAt g l r).map fun h => (l.port, h) else []

theorem entries_eq (g : Gateway) (rs : List Route) :
    entries g rs = g.listeners.flatMap fun l => rs.flatMap (contrib g l) := rfl

theorem hostsOf_eq (g : Gateway) (rs : List Route) :
    hostsOf g rs = (g.listeners.flatMap fun l => rs.flatMap (hostContrib g l)).eraseDups := rfl

theorem flatMap_congr' {α β} {l : List α} {f g : α → List β} (h : ∀ a ∈ l, f a = g a) : l.flatMap f = l.flatMap g := by
  induction l with
  | nil => rfl
  | cons x xs ih =>
    simp only [List.flatMap_cons]
    rw [h x List.mem_cons_self, ih (fun a ha => h a (List.mem_cons_of_mem _ ha))]

theorem entries_map_congr {α} (g : Gateway) (xs : List α) (f f' : α → Route)
    (h : ∀ x ∈ xs, ∀ l ∈ g.listeners, contrib g l (f x) = contrib g l (f' x)) :
    entries g (xs.map f) = entries g (xs.map f') := by
  rw [entries_eq, entries_eq]
  apply flatMap_congr'
  intro l hl
  rw [List.flatMap_map, List.flatMap_map]
  exact flatMap_congr' fun x hx => h x hx l hl

theorem hostsOf_map_congr {α} (g : Gateway) (xs : List α) (f f' : α → Route)
    (h : ∀ x ∈ xs, ∀ l ∈ g.listeners, hostContrib g l (f x) = hostContrib g l (f' x)) :
    hostsOf g (xs.map f) = hostsOf g (xs.map f') := by
  rw [hostsOf_eq, hostsOf_eq]
  congr 1
  apply flatMap_congr'
  intro l hl
  rw [List.flatMap_map, List.flatMap_map]
  exact flatMap_congr' fun x hx => h x hx l hl

theorem hostContrib_resolveRoute (g : Gateway) (l : Listener) (gs gs' : List Grant) (svcs svcs' : List Service) (r : RouteR) :
    hostContrib g l (resolveRoute gs svcs r) = hostContrib g l (resolveRoute gs' svcs' r) := by
  unfold hostContrib
  rw [acceptedAt_resolveRoute, acceptedAt_resolveRoute]
  rfl

theorem routeEntries_congr {port : Nat} {hosts : List Str} {a b : Route} (h1 : a.age = b.age) (h2 : a.ns = b.ns)
    (h3 : a.name = b.name) (h4 : a.rules = b.rules) : routeEntries port hosts a = routeEntries port hosts b := by
  unfold routeEntries keyOf; rw [h1, h2, h3, h4]

theorem contrib_resolveRoute {g : Gateway} {l : Listener} {gs gs' : List Grant} {svcs svcs' : List Service} {r : RouteR}
    (hl : l ∈ g.listeners)
    (h : attached g r = true → ∀ ru ∈ r.rules,
      resolveAction gs svcs r.ns ru.action = resolveAction gs' svcs' r.ns ru.action) :
    contrib g l (resolveRoute gs svcs r) = contrib g l (resolveRoute gs' svcs' r) := by
  unfold contrib
  rw [acceptedAt_resolveRoute, acceptedAt_resolveRoute]
  have hvalid : (resolveRoute gs svcs r).valid = r.valid := rfl
  have hvalid' : (resolveRoute gs' svcs' r).valid = r.valid := rfl
  rw [hvalid, hvalid']
  by_cases hv : r.valid = true
  · simp only [hv, if_true]
    by_cases ha : acceptedAtR g l r = []
    · rw [ha, routeEntries_nil, routeEntries_nil]
    · have hatt := attached_of_accepted hl hv ha
      refine routeEntries_congr (a := resolveRoute gs svcs r) (b := resolveRoute gs' svcs' r) rfl rfl rfl ?_
      show r.rules.map (resolveRule gs svcs r.ns) = r.rules.map (resolveRule gs' svcs' r.ns)
      apply List.map_congr_left
      intro ru hru
      unfold resolveRule
      rw [h hatt ru hru]
  · simp [hv]

theorem gen_congr {s t : Scenario} (hw : winner s = winner t)
    (he : ∀ g, winner s = some g → entries g s.routes = entries g t.routes)
    (hh : ∀ g, winner s = some g → hostsOf g s.routes = hostsOf g t.routes) : gen s = gen t := by
  unfold gen
  rw [← hw]
  cases hws : winner s with
  | none => rfl
  | some g => simp only [he g hws, hh g hws]

/-- `gen (resolve c)` depends on grants and Services only through the resolved actions of the rules of valid routes
attached to the served Gateway -/
theorem genR_congr (c : ScenarioR) (gs' : List Grant) (svcs' : List Service)
    (h : ∀ g, winner (resolve c) = some g → ∀ r ∈ c.routes, attached g r = true → ∀ ru ∈ r.rules,
      resolveAction c.grants c.services r.ns ru.action = resolveAction gs' svcs' r.ns ru.action) :
    genR { c with grants := gs', services := svcs' } = genR c := by
  unfold genR
  apply gen_congr (winner_resolve c gs' svcs')
  · intro g hg
    rw [winner_resolve] at hg
    show entries g (c.routes.map (resolveRoute gs' svcs')) = entries g (c.routes.map (resolveRoute c.grants c.services))
    apply entries_map_congr
    intro r hr l hl
    exact (contrib_resolveRoute hl (fun hatt ru hru => h g hg r hr hatt ru hru)).symm
  · intro g _
    show hostsOf g (c.routes.map (resolveRoute gs' svcs')) = hostsOf g (c.routes.map (resolveRoute c.grants c.services))
    apply hostsOf_map_congr
    intro r _ l _
    exact hostContrib_resolveRoute g l _ _ _ _ r

/-! ### Services: lookups at other keys -/

theorem find?_filter_of_imp {α} (p q : α → Bool) : ∀ (l : List α), (∀ a ∈ l, p a = true → q a = true) →
    (l.filter q).find? p = l.find? p
  | [], _ => rfl
  | a :: l, h => by
    have ih := find?_filter_of_imp p q l (fun b hb => h b (List.mem_cons_of_mem _ hb))
    by_cases hq : q a = true
    · simp only [List.filter_cons, hq, if_true, List.find?_cons, ih]
    · have hp : p a = false := by
        cases hpa : p a with
        | false => rfl
        | true => exact absurd (h a List.mem_cons_self hpa) hq
      simp only [List.filter_cons, hq, Bool.false_eq_true, if_false, List.find?_cons, hp, ih]

theorem lookupSvc_deleteSvc_other {svcs : List Service} {ns name ns' name' : String} (h : ¬ (ns' = ns ∧ name' = name)) :
    lookupSvc (deleteSvc svcs ns name) ns' name' = lookupSvc svcs ns' name' := by
  unfold lookupSvc deleteSvc
  apply find?_filter_of_imp
  intro a _ ha
  simp only [Bool.and_eq_true, beq_iff_eq] at ha
  simp only [Bool.not_eq_true', Bool.and_eq_false_iff, beq_eq_false_iff_ne, ne_eq]
  by_cases h1 : a.ns = ns
  · right; intro h2; exact h ⟨ha.1.symm.trans h1, ha.2.symm.trans h2⟩
  · left; exact h1

theorem lookupSvc_upsertSvc_other {svcs : List Service} {s : Service} {ns' name' : String}
    (h : ¬ (ns' = s.ns ∧ name' = s.name)) :
    lookupSvc (upsertSvc svcs s) ns' name' = lookupSvc svcs ns' name' := by
  have hs : (s.ns == ns' && s.name == name') = false := by
    simp only [Bool.and_eq_false_iff, beq_eq_false_iff_ne, ne_eq]
    by_cases h1 : s.ns = ns'
    · right; intro h2; exact h ⟨h1.symm, h2.symm⟩
    · left; exact h1
  have := lookupSvc_deleteSvc_other (svcs := svcs) h
  unfold lookupSvc upsertSvc deleteSvc at *
  rw [List.find?_cons, hs]
  exact this

theorem findPort_congr {svcs svcs' : List Service} {routeNs : String} {ref : BackendRef}
    (h : lookupSvc svcs' (RefGrant.refNs ref routeNs) ref.name = lookupSvc svcs (RefGrant.refNs ref routeNs) ref.name) :
    findPort svcs' routeNs ref = findPort svcs routeNs ref := by
  unfold findPort; rw [h]

theorem namesOK_spec {c : ScenarioR} (h : namesOK c = true) :
    ∀ r ∈ c.routes, noUnderscore r.ns = true ∧ ∀ ru ∈ r.rules, ∀ refs, ru.action = .forward refs → ∀ ref ∈ refs,
      noUnderscore ref.name = true ∧ ∀ n, ref.ns = some n → noUnderscore n = true := by
  intro r hr
  unfold namesOK at h
  have h1 := List.all_eq_true.1 h r hr
  simp only [Bool.and_eq_true] at h1
  refine ⟨h1.1, ?_⟩
  intro ru hru refs hact ref href
  have h2 := List.all_eq_true.1 h1.2 ru hru
  rw [hact] at h2
  have h3 := List.all_eq_true.1 h2 ref href
  simp only [Bool.and_eq_true] at h3
  refine ⟨h3.1, ?_⟩
  intro n hn
  have := h3.2
  rw [hn] at this
  exact this

/-! ### §6 monotonicity in the grants -/

theorem ite5_ok (c1 c2 c3 c4 c5 : Bool) :
    (if c1 then RefGrant.Verdict.invalidKind else if c2 then .invalidKind else if c3 then .refNotPermitted
      else if c4 then .unsupportedValue else if c5 then .unsupportedValue else .ok) = RefGrant.Verdict.ok ↔
      c1 = false ∧ c2 = false ∧ c3 = false ∧ c4 = false ∧ c5 = false := by
  cases c1 <;> cases c2 <;> cases c3 <;> cases c4 <;> cases c5 <;> simp

/-- a resolver that allows more accepts more -/
theorem validateBackendRef_mono {ref : BackendRef} {routeNs : String} {a b : RefGrant.ToRes → Bool}
    (hab : ∀ t, a t = true → b t = true) (h : RefGrant.validateBackendRef ref routeNs a = .ok) :
    RefGrant.validateBackendRef ref routeNs b = .ok := by
  unfold RefGrant.validateBackendRef at h ⊢
  rw [ite5_ok] at h ⊢
  obtain ⟨h1, h2, h3, h4, h5⟩ := h
  refine ⟨h1, h2, ?_, h4, h5⟩
  cases hns : ref.ns with
  | none => rfl
  | some n =>
    rw [hns] at h3
    simp only [Bool.and_eq_false_iff, Bool.not_eq_false'] at h3 ⊢
    rcases h3 with h3 | h3
    · exact .inl h3
    · exact .inr (hab _ h3)

theorem routeRefVerdict_http_mono {gs gs' : List Grant} (hsub : ∀ g ∈ gs, g ∈ gs') {routeNs : String} {ref : BackendRef}
    (h : RefGrant.routeRefVerdict gs .http routeNs ref = .ok) : RefGrant.routeRefVerdict gs' .http routeNs ref = .ok := by
  unfold RefGrant.routeRefVerdict RefGrant.validateRouteBackendRef at h ⊢
  simp only at h ⊢
  split at h
  · exact absurd h (by decide)
  · rename_i hnf
    simp only [hnf, if_false]
    refine validateBackendRef_mono (fun t ht => ?_) h
    exact RefGrant.refAllowed_mono_keys (RefGrant.newResolver_mono hsub) t _ ht

/-- `bs'` is `bs` with some INVALID backends replaced (weights kept): what adding grants does to a rule -/
def Upgrades : List Backend → List Backend → Prop
  | [], [] => True
  | b :: bs, b' :: bs' => b'.weight = b.weight ∧ (b.valid = true → b' = b) ∧ Upgrades bs bs'
  | _, _ => False

theorem upgrades_weights : ∀ {bs bs' : List Backend}, Upgrades bs bs' → bs'.map (·.weight) = bs.map (·.weight)
  | [], [], _ => rfl
  | b :: bs, b' :: bs', h => by simp [h.1, upgrades_weights h.2.2]
  | [], _ :: _, h => by simp [Upgrades] at h
  | _ :: _, [], h => by simp [Upgrades] at h

/-- position by position: a named (not `invalid-backend-ref`) entry stays what it is -/
@[reducible] def DistLe (d d' : List (Str × Nat)) : Prop :=
  ∀ (i : Nat) (t : Str) (share : Nat), d[i]? = some (t, share) → t ≠ invalidBackendRef → d'[i]? = some (t, share)

theorem zipDist_upgrades : ∀ {bs bs' : List Backend} (cs : List Nat), Upgrades bs bs' → DistLe (zipDist bs cs) (zipDist bs' cs)
  | [], [], _, _ => by intro i t share h; simp [zipDist] at h
  | b :: bs, b' :: bs', [], _ => by intro i t share h; simp [zipDist] at h
  | b :: bs, b' :: bs', c :: cs, h => by
    intro i t share hi hne
    cases i with
    | zero =>
      simp only [zipDist, List.getElem?_cons_zero, Option.some.injEq, Prod.mk.injEq] at hi ⊢
      obtain ⟨h1, h2⟩ := hi
      rcases valueOf_cases b with hv | ⟨hv, _⟩
      · exact absurd (h1.symm.trans hv) hne
      · rw [h.2.1 hv]; exact ⟨h1, h2⟩
    | succ j =>
      simp only [zipDist, List.getElem?_cons_succ] at hi ⊢
      exact zipDist_upgrades cs h.2.2 j t share hi hne
  | [], _ :: _, _, h => by simp [Upgrades] at h
  | _ :: _, [], _, h => by simp [Upgrades] at h

theorem distOf_upgrades {bs bs' : List Backend} (h : Upgrades bs bs') : DistLe (distOf bs) (distOf bs') := by
  match bs, bs', h with
  | [], [], _ => intro i t share hi hne; exact hi
  | [b], [b'], h =>
    intro i t share hi hne
    by_cases hc : (b.weight == 0 || !b.valid) = true
    · simp only [distOf, hc, if_true] at hi
      cases i with
      | zero => simp only [List.getElem?_cons_zero, Option.some.injEq, Prod.mk.injEq] at hi; exact absurd hi.1.symm hne
      | succ j => simp at hi
    · have hv : b.valid = true := by
        simp only [Bool.or_eq_true, beq_iff_eq, Bool.not_eq_true', not_or, Bool.not_eq_false] at hc; exact hc.2
      rw [h.2.1 hv]; exact hi
  | b0 :: b1 :: rest, b0' :: b1' :: rest', h =>
    intro i t share hi hne
    have hw := upgrades_weights h
    by_cases hs : (((b0 :: b1 :: rest).map (·.weight)).sum == 0) = true
    · simp only [distOf, hs, if_true] at hi
      cases i with
      | zero => simp only [List.getElem?_cons_zero, Option.some.injEq, Prod.mk.injEq] at hi; exact absurd hi.1.symm hne
      | succ j => simp at hi
    · have hd : distOf (b0 :: b1 :: rest) =
          zipDist (b0 :: b1 :: rest) (NGF.SplitClients.intCents ((b0 :: b1 :: rest).map (·.weight))) := by
        simp only [distOf, hs, Bool.false_eq_true, if_false]
      have hd' : distOf (b0' :: b1' :: rest') =
          zipDist (b0' :: b1' :: rest') (NGF.SplitClients.intCents ((b0 :: b1 :: rest).map (·.weight))) := by
        have hs0 : (((b0 :: b1 :: rest).map (·.weight)).sum == 0) = false := Bool.eq_false_iff.2 hs
        simp only [distOf, hw, hs0, Bool.false_eq_true, if_false]
      rw [hd] at hi; rw [hd']
      exact zipDist_upgrades _ h i t share hi hne
  | [], _ :: _, h => simp [Upgrades] at h
  | _ :: _, [], h => simp [Upgrades] at h
  | [_], _ :: _ :: _, h => simp [Upgrades] at h
  | _ :: _ :: _, [_], h => simp [Upgrades] at h

theorem resolveRef_weight (gs : List Grant) (svcs : List Service) (routeNs : String) (ref : BackendRef) :
    (resolveRef gs svcs routeNs ref).weight = refWeight ref := by
  unfold resolveRef RefGrant.createBackendRef
  split <;> rfl

theorem resolve_upgrades {gs gs' : List Grant} (hsub : ∀ g ∈ gs, g ∈ gs') (svcs : List Service) (routeNs : String) :
    ∀ refs : List BackendRef,
      Upgrades (refs.map fun ref => toPBackend (resolveRef gs svcs routeNs ref))
               (refs.map fun ref => toPBackend (resolveRef gs' svcs routeNs ref))
  | [] => trivial
  | ref :: refs => by
    refine ⟨?_, ?_, resolve_upgrades hsub svcs routeNs refs⟩
    · show (resolveRef gs' svcs routeNs ref).weight.toNat = (resolveRef gs svcs routeNs ref).weight.toNat
      rw [resolveRef_weight, resolveRef_weight]
    · intro hv
      have hv' : (resolveRef gs svcs routeNs ref).valid = true := hv
      obtain ⟨hok, _⟩ := resolveRef_valid hv'
      have hok' := routeRefVerdict_http_mono hsub hok
      show toPBackend (resolveRef gs' svcs routeNs ref) = toPBackend (resolveRef gs svcs routeNs ref)
      rw [resolveRef_congr (hok'.trans hok.symm) (fun _ => rfl)]

/-! ### §7 monotonicity of the whole configuration

`gen` places the action of an entry by the entry's port, hostname, match and precedence key only; two entry lists that
agree on these, position by position, and whose actions are related, generate configurations with the same servers and
locations and related actions. -/

theorem locActs_ruleAct (port : Nat) (mrs : List Entry) :
    locActs (ruleAct port mrs) = mrs.map fun e => actOf port e.action := by
  unfold ruleAct
  split
  · split <;> simp [locActs]
  · simp [locActs, List.map_map, Function.comp_def]

/-- the path-rule keys of one server -/
def keysOf (es : List Entry) (port : Nat) (h : Str) : List (Bool × Str) :=
  ((es.filter fun e => e.port == port && e.host == h).map pathKey).eraseDups

/-- where a target of a server comes from … -/
theorem serverOf_targets_fwd {es : List Entry} {port : Nat} {h : Str} {x : Str × Nat}
    (hx : x ∈ ((serverOf es port h).locs.flatMap fun l => locActs l.act).flatMap actTargets) :
    ∃ gl ∈ Precedence.genLocs ((keysOf es port h).map fun k => ⟨k.2, !k.1⟩), ∃ k, (keysOf es port h)[gl.rule]? = some k ∧
      ∃ e ∈ es, (e.port == port && e.host == h) = true ∧ (pathKey e == k) = true ∧ x ∈ actTargets (actOf port e.action) := by
  simp only [serverOf, List.mem_flatMap, List.mem_map] at hx
  obtain ⟨a, ⟨l, ⟨gl, hgl, rfl⟩, ha⟩, hxa⟩ := hx
  refine ⟨gl, hgl, ?_⟩
  split at ha
  · rename_i k hk
    rw [locActs_ruleAct] at ha
    obtain ⟨e, he, rfl⟩ := List.mem_map.1 ha
    rw [mem_sortEntries] at he
    obtain ⟨he1, he2⟩ := List.mem_filter.1 he
    obtain ⟨he3, he4⟩ := List.mem_filter.1 he1
    exact ⟨k, hk, e, he3, he4, he2, hxa⟩
  · simp only [locActs, List.mem_singleton] at ha
    subst ha
    simp [actTargets] at hxa

/-- … and conversely -/
theorem serverOf_targets_bwd {es : List Entry} {port : Nat} {h : Str} {x : Str × Nat}
    {gl : Precedence.GenLoc} (hgl : gl ∈ Precedence.genLocs ((keysOf es port h).map fun k => ⟨k.2, !k.1⟩))
    {k : Bool × Str} (hk : (keysOf es port h)[gl.rule]? = some k) {e : Entry} (he : e ∈ es)
    (h1 : (e.port == port && e.host == h) = true) (h2 : (pathKey e == k) = true)
    (hx : x ∈ actTargets (actOf port e.action)) :
    x ∈ ((serverOf es port h).locs.flatMap fun l => locActs l.act).flatMap actTargets := by
  simp only [serverOf, List.mem_flatMap, List.mem_map]
  refine ⟨actOf port e.action, ⟨_, ⟨gl, hgl, rfl⟩, ?_⟩, hx⟩
  have hk' : (List.map pathKey (List.filter (fun e => e.port == port && e.host == h) es)).eraseDups[gl.rule]? = some k := hk
  simp only [hk', locActs_ruleAct]
  refine List.mem_map.2 ⟨e, ?_, rfl⟩
  rw [mem_sortEntries]
  exact List.mem_filter.2 ⟨List.mem_filter.2 ⟨he, h1⟩, h2⟩

theorem mem_confTargets_gen {s : Scenario} {x : Str × Nat} :
    x ∈ confTargets (gen s) ↔ ∃ g, winner s = some g ∧ ∃ ph ∈ hostsOf g s.routes,
      x ∈ ((serverOf (entries g s.routes) ph.1 ph.2).locs.flatMap fun l => locActs l.act).flatMap actTargets := by
  unfold gen
  cases hw : winner s with
  | none => simp [confTargets, confActs]
  | some g =>
    simp only [confTargets, confActs, List.mem_flatMap, List.mem_map, Option.some.injEq, exists_eq_left']
    constructor
    · rintro ⟨a, ⟨sv, ⟨ph, hph, rfl⟩, l, hl, ha⟩, hx⟩
      exact ⟨ph, hph, a, ⟨l, hl, ha⟩, hx⟩
    · rintro ⟨ph, hph, a, ⟨l, hl, ha⟩, hx⟩
      exact ⟨a, ⟨_, ⟨ph, hph, rfl⟩, l, hl, ha⟩, hx⟩

/-- the action of `a'` offers every named target of `a` -/
def ActionLe (a a' : Action) : Prop :=
  ∀ (port : Nat) (x : Str × Nat), x ∈ actTargets (actOf port a) → x.1 ≠ invalidBackendRef → x ∈ actTargets (actOf port a')

def EntRel (e e' : Entry) : Prop :=
  e'.port = e.port ∧ e'.host = e.host ∧ e'.m = e.m ∧ ActionLe e.action e'.action

/-- two lists related position by position -/
inductive Rel2 {α β : Type} (R : α → β → Prop) : List α → List β → Prop
  | nil : Rel2 R [] []
  | cons {a : α} {b : β} {as : List α} {bs : List β} : R a b → Rel2 R as bs → Rel2 R (a :: as) (b :: bs)

theorem forall₂_append {α β : Type} {R : α → β → Prop} : ∀ {a : List α} {b : List β} {c : List α} {d : List β},
    Rel2 R a b → Rel2 R c d → Rel2 R (a ++ c) (b ++ d)
  | [], [], _, _, _, h => h
  | _ :: _, _ :: _, _, _, .cons h t, h' => .cons h (forall₂_append t h')

theorem forall₂_flatMap_same {γ α β : Type} {R : α → β → Prop} {F : γ → List α} {F' : γ → List β} :
    ∀ (xs : List γ), (∀ x ∈ xs, Rel2 R (F x) (F' x)) → Rel2 R (xs.flatMap F) (xs.flatMap F')
  | [], _ => .nil
  | x :: xs, h => by
    simp only [List.flatMap_cons]
    exact forall₂_append (h x List.mem_cons_self) (forall₂_flatMap_same xs fun y hy => h y (List.mem_cons_of_mem _ hy))

theorem forall₂_map_same {γ α β : Type} {R : α → β → Prop} {F : γ → α} {F' : γ → β} :
    ∀ (xs : List γ), (∀ x ∈ xs, R (F x) (F' x)) → Rel2 R (xs.map F) (xs.map F')
  | [], _ => .nil
  | x :: xs, h => .cons (h x List.mem_cons_self) (forall₂_map_same xs fun y hy => h y (List.mem_cons_of_mem _ hy))

theorem entRel_keys : ∀ {es es' : List Entry}, Rel2 EntRel es es' → ∀ (port : Nat) (h : Str),
    (es'.filter fun e => e.port == port && e.host == h).map pathKey = (es.filter fun e => e.port == port && e.host == h).map pathKey
  | [], [], _, _, _ => rfl
  | e :: es, e' :: es', .cons hr t, port, h => by
    obtain ⟨h1, h2, h3, _⟩ := hr
    have ih := entRel_keys t port h
    simp only [List.filter_cons, h1, h2]
    split
    · simp only [List.map_cons, ih, pathKey, h3]
    · exact ih

theorem entRel_mem : ∀ {es es' : List Entry}, Rel2 EntRel es es' → ∀ e ∈ es, ∃ e' ∈ es', EntRel e e'
  | e0 :: es, e0' :: es', .cons hr t, e, he => by
    rcases List.mem_cons.1 he with rfl | he
    · exact ⟨e0', List.mem_cons_self, hr⟩
    · obtain ⟨e', he', hrel⟩ := entRel_mem t e he
      exact ⟨e', List.mem_cons_of_mem _ he', hrel⟩

/-- two entry lists related position by position: every named target of the one configuration is in the other -/
theorem serverOf_targets_mono {es es' : List Entry} (hrel : Rel2 EntRel es es') (port : Nat) (h : Str)
    {x : Str × Nat} (hx : x ∈ ((serverOf es port h).locs.flatMap fun l => locActs l.act).flatMap actTargets)
    (hne : x.1 ≠ invalidBackendRef) :
    x ∈ ((serverOf es' port h).locs.flatMap fun l => locActs l.act).flatMap actTargets := by
  obtain ⟨gl, hgl, k, hk, e, he, h1, h2, hxe⟩ := serverOf_targets_fwd hx
  have hkeys : keysOf es' port h = keysOf es port h := by unfold keysOf; rw [entRel_keys hrel port h]
  obtain ⟨e', he', hp, hh, hm, hact⟩ := entRel_mem hrel e he
  refine serverOf_targets_bwd (gl := gl) (by rw [hkeys]; exact hgl) (k := k) (by rw [hkeys]; exact hk) he' ?_ ?_
    (hact port x hxe hne)
  · rw [hp, hh]; exact h1
  · unfold pathKey at h2 ⊢; rw [hm]; exact h2

theorem actionLe_resolve {gs gs' : List Grant} (hsub : ∀ g ∈ gs, g ∈ gs') (svcs : List Service) (routeNs : String)
    (a : ActionR) : ActionLe (resolveAction gs svcs routeNs a) (resolveAction gs' svcs routeNs a) := by
  intro port x hx hne
  cases a with
  | redirect code sch hst p => exact hx
  | forward refs =>
    simp only [resolveAction, actOf, actTargets] at hx ⊢
    obtain ⟨i, hi⟩ := List.getElem?_of_mem hx
    exact List.mem_of_getElem? (distOf_upgrades (resolve_upgrades hsub svcs routeNs refs) i x.1 x.2 hi hne)

theorem contrib_rel {gs gs' : List Grant} (hsub : ∀ g ∈ gs, g ∈ gs') (svcs : List Service) (g : Gateway) (l : Listener)
    (r : RouteR) :
    Rel2 EntRel (contrib g l (resolveRoute gs svcs r)) (contrib g l (resolveRoute gs' svcs r)) := by
  unfold contrib
  rw [acceptedAt_resolveRoute, acceptedAt_resolveRoute]
  have hvalid : (resolveRoute gs svcs r).valid = r.valid := rfl
  have hvalid' : (resolveRoute gs' svcs r).valid = r.valid := rfl
  rw [hvalid, hvalid']
  by_cases hv : r.valid = true
  · simp only [hv, if_true]
    unfold routeEntries
    show Rel2 EntRel ((r.rules.map (resolveRule gs svcs r.ns)).flatMap _) ((r.rules.map (resolveRule gs' svcs r.ns)).flatMap _)
    rw [List.flatMap_map, List.flatMap_map]
    apply forall₂_flatMap_same
    intro ru _
    apply forall₂_flatMap_same
    intro hst _
    apply forall₂_map_same
    intro m _
    exact ⟨rfl, rfl, rfl, actionLe_resolve hsub svcs r.ns ru.action⟩
  · simp only [hv, Bool.false_eq_true, if_false]; exact .nil

theorem entries_rel {gs gs' : List Grant} (hsub : ∀ g ∈ gs, g ∈ gs') (svcs : List Service) (g : Gateway)
    (rs : List RouteR) :
    Rel2 EntRel (entries g (rs.map (resolveRoute gs svcs))) (entries g (rs.map (resolveRoute gs' svcs))) := by
  rw [entries_eq, entries_eq]
  apply forall₂_flatMap_same
  intro l _
  rw [List.flatMap_map, List.flatMap_map]
  apply forall₂_flatMap_same
  intro r _
  exact contrib_rel hsub svcs g l r

/-- adding grants: every named target of the generated configuration stays -/
theorem genR_targets_mono (c : ScenarioR) (gs' : List Grant) (hsub : ∀ g ∈ c.grants, g ∈ gs') {x : Str × Nat}
    (hx : x ∈ confTargets (genR c)) (hne : x.1 ≠ invalidBackendRef) :
    x ∈ confTargets (genR { c with grants := gs' }) := by
  unfold genR at hx ⊢
  rw [mem_confTargets_gen] at hx ⊢
  obtain ⟨g, hw, ph, hph, hxs⟩ := hx
  refine ⟨g, (winner_resolve c gs' c.services).trans hw, ph, ?_, ?_⟩
  · show ph ∈ hostsOf g (c.routes.map (resolveRoute gs' c.services))
    rw [hostsOf_map_congr g c.routes (resolveRoute gs' c.services) (resolveRoute c.grants c.services)
      (fun r _ l _ => hostContrib_resolveRoute g l _ _ _ _ r)]
    exact hph
  · exact serverOf_targets_mono (entries_rel hsub c.services g c.routes) ph.1 ph.2 hxs hne

end NGF.PipelineRefs
