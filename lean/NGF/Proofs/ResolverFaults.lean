/-
Helper lemmas for C13, handler under faults (`NGF.Model.ResolverFaults`). Core Lean only.
-/
import NGF.Proofs.ResolverPlus
import NGF.Model.ResolverFaults

namespace NGF.Resolver

/-! ### Bool judges ↔ Prop -/

theorem sameSet_iff {a b : List String} : sameSet a b = true ↔ SetEq a b := by
  simp only [sameSet, Bool.and_eq_true, List.all_eq_true, decide_eq_true_eq, SetEq]
  exact ⟨fun h x => ⟨h.1 x, h.2 x⟩, fun h => ⟨fun x => (h x).mp, fun x => (h x).mpr⟩⟩

theorem outOfSyncHttp_nil {plus : Bool} {c : Conf} {a : Api} :
    outOfSyncHttp plus c a = [] ↔ ∀ u ∈ c.http, SetEq (a.http.servers u.name) (heldHttpExpected plus u) := by
  simp only [outOfSyncHttp, List.map_eq_nil_iff, List.filter_eq_nil_iff, Bool.not_eq_true',
    Bool.not_eq_false, sameSet_iff]

theorem outOfSyncStream_nil {plus : Bool} {c : Conf} {a : Api} :
    outOfSyncStream plus c a = [] ↔
      ∀ u ∈ c.stream, SetEq (a.stream.servers u.name) (heldStreamExpected plus u) := by
  simp only [outOfSyncStream, List.map_eq_nil_iff, List.filter_eq_nil_iff, Bool.not_eq_true',
    Bool.not_eq_false, sameSet_iff]

theorem inSync_iff {plus : Bool} {c : Conf} {a : Api} :
    inSync plus c a = true ↔
      (∀ u ∈ c.http, SetEq (a.http.servers u.name) (heldHttpExpected plus u)) ∧
      (∀ u ∈ c.stream, SetEq (a.stream.servers u.name) (heldStreamExpected plus u)) := by
  simp only [inSync, Bool.and_eq_true, List.isEmpty_iff, outOfSyncHttp_nil, outOfSyncStream_nil]

/-! ### OSS: what NGINX holds after loading the files of `c` -/

theorem get_map_up (f : Up → List String) : ∀ (ups : List Up) (u : Up), (ups.map (·.name)).Nodup → u ∈ ups →
    Table.get (ups.map fun x => (x.name, f x)) u.name = some (f u)
  | [], _, _, h => by simp at h
  | x :: r, u, hnd, hu => by
    simp only [List.map_cons, List.nodup_cons, List.mem_map, not_exists, not_and] at hnd
    rw [List.map_cons, Table.get_cons]
    rcases List.mem_cons.mp hu with rfl | hr
    · simp
    · have : ¬ x.name = u.name := fun e => hnd.1 u hr e.symm
      simp only [this, if_false]
      exact get_map_up f r u hnd.2 hr

theorem get_map_absent (f : Up → List String) : ∀ (ups : List Up) (n : String), n ∉ ups.map (·.name) →
    Table.get (ups.map fun x => (x.name, f x)) n = none
  | [], _, _ => rfl
  | x :: r, n, h => by
    simp only [List.map_cons, List.mem_cons, not_or] at h
    rw [List.map_cons, Table.get_cons]
    have : ¬ x.name = n := fun e => h.1 e.symm
    simp only [this, if_false]
    exact get_map_absent f r n h.2

theorem loadOss_http {c : Conf} (hc : c.WF) {u : Up} (hu : u ∈ c.http) :
    (loadOss c).http.servers u.name = heldHttpExpected false u := by
  have := get_map_up (fun x => configServers (createUpstream false x)) c.http u hc.http hu
  simp only [loadOss, Table.servers, this, Option.getD_some]
  simp [configServers, createUpstream, heldHttpExpected]

theorem loadOss_stream {c : Conf} (hc : c.WF) {u : Up} (hu : u ∈ c.stream) :
    (loadOss c).stream.servers u.name = heldStreamExpected false u := by
  have hmap : (loadOss c).stream =
      (c.stream.filter fun u => !u.eps.isEmpty).map fun x => (x.name, x.eps.map serverAddress) := by
    simp [loadOss, createStreamUpstreams, configServers, List.map_map, Function.comp_def]
  rw [hmap]
  by_cases he : u.eps = []
  · have hno : u.name ∉ (c.stream.filter fun u => !u.eps.isEmpty).map (·.name) := by
      intro hin
      obtain ⟨u', hu', hn⟩ := List.mem_map.mp hin
      obtain ⟨hu'm, hne⟩ := List.mem_filter.mp hu'
      have := unique_of_nodup_names hc.stream hu'm hu hn
      subst this
      simp [he] at hne
    simp [Table.servers, get_map_absent _ _ _ hno, heldStreamExpected, he]
  · have hin : u ∈ c.stream.filter fun u => !u.eps.isEmpty := by
      refine List.mem_filter.mpr ⟨hu, ?_⟩
      cases h : u.eps with
      | nil => exact absurd h he
      | cons _ _ => simp
    have hnd : ((c.stream.filter fun u => !u.eps.isEmpty).map (·.name)).Nodup :=
      List.Nodup.sublist ((List.filter_sublist).map _) hc.stream
    simp [Table.servers, get_map_up _ _ u hnd hin, heldStreamExpected]

theorem inSync_loadOss {c : Conf} (hc : c.WF) : inSync false c (loadOss c) = true :=
  inSync_iff.mpr ⟨fun _ hu => by rw [loadOss_http hc hu]; exact SetEq.refl _,
    fun _ hu => by rw [loadOss_stream hc hu]; exact SetEq.refl _⟩

/-! ### state files -/

theorem Table.get_put_same (t : Table) (n : String) (v : List String) : (t.put n v).get n = some v := by
  induction t with
  | nil => simp [Table.put, Table.get]
  | cons kv r ih =>
    obtain ⟨k, old⟩ := kv
    by_cases h : k = n
    · simp [Table.put, h, Table.get]
    · simp [Table.put, h, Table.get, ih]

theorem Table.get_put_other (t : Table) {n m : String} (v : List String) (h : m ≠ n) :
    (t.put n v).get m = t.get m := by
  induction t with
  | nil =>
    have : ¬ n = m := fun e => h e.symm
    simp [Table.put, Table.get, this]
  | cons kv r ih =>
    obtain ⟨k, old⟩ := kv
    by_cases hk : k = n
    · have : ¬ k = m := by intro e; exact h (e ▸ hk)
      have h2 : ¬ n = m := fun e => h e.symm
      simp [Table.put, hk, Table.get, h2]
    · by_cases hm : k = m
      · subst hm; simp [Table.put, hk, Table.get]
      · simp [Table.put, hk, Table.get, hm, ih]

theorem Table.inv_put {t : Table} (h : t.Inv) (n : String) {v : List String} (hv : v.Nodup) : (t.put n v).Inv := by
  intro m l hl
  by_cases hm : m = n
  · subst hm; rw [Table.get_put_same] at hl; cases hl; exact hv
  · rw [Table.get_put_other t v hm] at hl; exact h m l hl

theorem inv_putAll : ∀ (p : List (String × List String)) (st : Table), st.Inv → (putAll st p).Inv
  | [], _, h => h
  | (n, v) :: r, st, h => by simp only [putAll]; exact inv_putAll r _ (Table.inv_put h n (nodup_dedup v))

structure Ngx.Inv (x : Ngx) : Prop where
  api : x.api.Inv
  state : x.state.Inv

/-! ### the API path under faults -/

theorem applyTableF_quiet {fail : List String} {t st : Table} {p : List (String × List String)}
    (h : (applyTableF fail t st p).2.2 = false) : (applyTableF fail t st p).1 = applyAll t p := by
  simp only [applyTableF] at h ⊢
  congr 1
  rw [List.filter_eq_self]
  intro x hx
  have := List.any_eq_false.mp h x hx
  simpa using this

theorem applyTableF_nofaults (t st : Table) (p : List (String × List String)) :
    applyTableF [] t st p = (applyAll t p, putAll st p, false) := by
  have : p.filter (fun _ => true) = p := List.filter_eq_self.mpr (fun _ _ => rfl)
  simp [applyTableF, this]

theorem keys_applyTableF (fail : List String) (t st : Table) (p : List (String × List String)) :
    (applyTableF fail t st p).1.keys = t.keys := keys_applyAll _ _

theorem inv_applyTableF (fail : List String) {t st : Table} (p : List (String × List String))
    (h : t.Inv) (hs : st.Inv) : (applyTableF fail t st p).1.Inv ∧ (applyTableF fail t st p).2.1.Inv :=
  ⟨inv_applyAll _ _ h, inv_putAll _ _ hs⟩

/-- no error returned ⇒ the API path left NGINX's upstreams exactly as the fault-free `updateUpstreamServers` does -/
theorem updateF_quiet {f : Faults} {c : Conf} {x : Ngx} (h : (updateUpstreamServersF f c x).2 = false) :
    (updateUpstreamServersF f c x).1.api = updateUpstreamServers c x.api := by
  unfold updateUpstreamServersF at h ⊢
  by_cases hg : f.get = true
  · simp [hg] at h
  · simp only [hg, Bool.false_eq_true, if_false, Bool.or_eq_false_iff] at h ⊢
    simp only [updateUpstreamServers, applyTableF_quiet h.1, applyTableF_quiet h.2]

theorem updateF_nofaults (c : Conf) (x : Ngx) : (updateUpstreamServersF Faults.none c x).2 = false := by
  simp [updateUpstreamServersF, Faults.none, applyTableF_nofaults]

theorem keys_updateF (f : Faults) (c : Conf) (x : Ngx) :
    (updateUpstreamServersF f c x).1.api.http.keys = x.api.http.keys ∧
    (updateUpstreamServersF f c x).1.api.stream.keys = x.api.stream.keys := by
  unfold updateUpstreamServersF
  by_cases hg : f.get = true
  · simp [hg]
  · simp only [hg, Bool.false_eq_true, if_false]
    exact ⟨keys_applyTableF _ _ _ _, keys_applyTableF _ _ _ _⟩

theorem inv_updateF (f : Faults) (c : Conf) {x : Ngx} (hx : x.Inv) : (updateUpstreamServersF f c x).1.Inv := by
  unfold updateUpstreamServersF
  by_cases hg : f.get = true
  · simpa [hg] using hx
  · simp only [hg, Bool.false_eq_true, if_false]
    have h1 := inv_applyTableF f.http (pending c.http x.api.http) hx.api.http hx.state
    have h2 := inv_applyTableF f.stream (pending c.stream x.api.stream) hx.api.stream h1.2
    exact ⟨⟨h1.1, h2.1⟩, h2.2⟩

/-! ### a failing API call is local: the other upstreams are still updated -/

theorem filtered_pending_spec (ups : List Up) (prev : Table) (hn : (ups.map (·.name)).Nodup) (hi : prev.Inv)
    (fail : List String) {u : Up} (hu : u ∈ ups) (hk : u.name ∈ prev.keys) (hok : u.name ∉ fail) :
    ∃ l, (applyAll prev ((pending ups prev).filter fun x => !fail.contains x.1)).get u.name = some l ∧
      SetEq l (convertEndpoints u.eps) := by
  have hsub : (((pending ups prev).filter fun x => !fail.contains x.1).map (·.1)).Sublist ((pending ups prev).map (·.1)) :=
    (List.filter_sublist).map _
  have hpn : (((pending ups prev).filter fun x => !fail.contains x.1).map (·.1)).Nodup :=
    List.Nodup.sublist (hsub.trans (pending_keys_sublist prev ups)) hn
  obtain ⟨peers, hpeers⟩ := Option.isSome_iff_exists.mp ((Table.get_isSome prev u.name).mpr hk)
  by_cases he : serversEqual (convertEndpoints u.eps) peers = true
  · have hnot : u.name ∉ (pending ups prev).map (·.1) := by
      intro hin
      obtain ⟨⟨m, v⟩, hmv, hm⟩ := List.mem_map.mp hin
      simp only at hm; subst hm
      rw [pending_eq] at hmv
      obtain ⟨u', hu', hp'⟩ := List.mem_filterMap.mp hmv
      obtain ⟨hm', _, peers', hg', hf'⟩ := pendingOne_some hp'
      have := unique_of_nodup_names hn hu' hu hm'.symm
      subst this
      rw [hpeers] at hg'; cases hg'
      rw [he] at hf'; cases hf'
    have hnot' : u.name ∉ ((pending ups prev).filter fun x => !fail.contains x.1).map (·.1) :=
      fun hin => hnot (hsub.subset hin)
    exact ⟨peers, by rw [get_applyAll_notin _ _ _ hnot']; exact hpeers,
      (setEq_of_serversEqual (hi _ _ hpeers) he).symm⟩
  · have hin : (u.name, convertEndpoints u.eps) ∈ (pending ups prev).filter fun x => !fail.contains x.1 := by
      refine List.mem_filter.mpr ⟨?_, by simpa using hok⟩
      rw [pending_eq]
      refine List.mem_filterMap.mpr ⟨u, hu, ?_⟩
      simp [pendingOne, hpeers, he]
    exact ⟨dedup (convertEndpoints u.eps), get_applyAll_in _ _ _ _ hpn hin hk, setEq_dedup _⟩

theorem updateF_local {f : Faults} {c : Conf} {x : Ngx} (hc : c.WF) (hx : x.api.Inv) (hg : f.get = false) :
    (∀ u ∈ c.http, u.name ∉ f.http → u.name ∈ x.api.http.keys →
      SetEq ((updateUpstreamServersF f c x).1.api.http.servers u.name) (convertEndpoints u.eps)) ∧
    (∀ u ∈ c.stream, u.name ∉ f.stream → u.name ∈ x.api.stream.keys →
      SetEq ((updateUpstreamServersF f c x).1.api.stream.servers u.name) (convertEndpoints u.eps)) := by
  unfold updateUpstreamServersF
  simp only [hg, Bool.false_eq_true, if_false, applyTableF]
  constructor
  · intro u hu hok hk
    obtain ⟨l, hl, hs⟩ := filtered_pending_spec c.http x.api.http hc.http hx.http f.http hu hk hok
    rw [servers_of_get hl]; exact hs
  · intro u hu hok hk
    obtain ⟨l, hl, hs⟩ := filtered_pending_spec c.stream x.api.stream hc.stream hx.stream f.stream hu hk hok
    rw [servers_of_get hl]; exact hs

/-! ### NGINX Plus loads a configuration -/

theorem inv_loadPlus (c : Conf) {st : Table} (h : st.Inv) : (loadPlus c st).Inv :=
  ⟨inv_reloadTable _ h, inv_reloadTable _ h⟩

theorem keys_loadPlus (c : Conf) (st : Table) :
    (loadPlus c st).http.keys = dedup (c.http.map (·.name)) ∧
    (loadPlus c st).stream.keys = dedup ((c.stream.filter fun u => !u.eps.isEmpty).map (·.name)) :=
  ⟨keys_reloadTable _ _, keys_reloadTable _ _⟩

/-- load + successful API update, http: every upstream of the configuration ends with its endpoints, whatever the
state files held -/
theorem loaded_update_http {c : Conf} {st : Table} (hc : c.WF) (hst : st.Inv) {u : Up} (hu : u ∈ c.http) :
    SetEq ((updateUpstreamServers c (loadPlus c st)).http.servers u.name) (convertEndpoints u.eps) := by
  have hk : u.name ∈ (loadPlus c st).http.keys := by
    rw [(keys_loadPlus c st).1, mem_dedup]; exact List.mem_map.mpr ⟨u, hu, rfl⟩
  exact endpoints_step_http hc (inv_loadPlus c hst) hu hk

theorem loaded_update_stream {c : Conf} {st : Table} (hc : c.WF) (hst : st.Inv) {u : Up} (hu : u ∈ c.stream) :
    SetEq ((updateUpstreamServers c (loadPlus c st)).stream.servers u.name) (convertEndpoints u.eps) := by
  by_cases he : u.eps = []
  · have hk : u.name ∉ (loadPlus c st).stream.keys := by
      rw [(keys_loadPlus c st).2, mem_dedup]
      intro hin
      obtain ⟨u', hu', hn⟩ := List.mem_map.mp hin
      obtain ⟨hu'm, hne⟩ := List.mem_filter.mp hu'
      have := unique_of_nodup_names hc.stream hu'm hu hn
      subst this
      simp [he] at hne
    have := @endpoints_step_absent c (loadPlus c st) u.name hk
    have hs : (updateUpstreamServers c (loadPlus c st)).stream.servers u.name = [] := by
      show ((step (loadPlus c st) (.endpoints c)).stream.servers u.name) = []
      simp [Table.servers, this]
    rw [hs, he]; exact SetEq.refl _
  · have hk : u.name ∈ (loadPlus c st).stream.keys := by
      rw [(keys_loadPlus c st).2, mem_dedup]
      refine List.mem_map.mpr ⟨u, List.mem_filter.mpr ⟨hu, ?_⟩, rfl⟩
      cases h : u.eps with
      | nil => exact absurd h he
      | cons _ _ => simp
    exact endpoints_step_stream hc (inv_loadPlus c hst) hu hk

/-! ### one batch -/

/-- the reload of this batch is not performed (ReplaceFiles or Reload fails) -/
def Faults.noReload (f : Faults) : Bool := f.replace || f.reload

/-- Plus: the batch goes through the files and a reload (ClusterStateChange, or an EndpointsOnlyChange while the last
apply is remembered as failed); otherwise through the API alone -/
def viaReload (lastErr : Bool) (o : HOp) : Bool := decide (o.kind = .cluster) || lastErr

theorem viaReload_false {lastErr : Bool} {o : HOp} (h : viaReload lastErr o = false) :
    o.kind = .endpoints ∧ lastErr = false := by
  simp only [viaReload, Bool.or_eq_false_iff, decide_eq_false_iff_not] at h
  refine ⟨?_, h.2⟩
  cases hk : o.kind with
  | cluster => exact absurd hk h.1
  | endpoints => rfl

theorem applyOp_oss (lastErr : Bool) (o : HOp) (x : Ngx) :
    applyOp false lastErr o x =
      if o.faults.noReload then (x, true) else ({ x with api := loadOss o.conf }, false) := by
  unfold applyOp updateNginxConfF Faults.noReload
  cases o.kind <;> cases o.faults.replace <;> cases o.faults.reload <;> simp

theorem applyOp_plus_reload {lastErr : Bool} {o : HOp} (h : viaReload lastErr o = true) (x : Ngx) :
    applyOp true lastErr o x = if o.faults.noReload then (x, true)
      else updateUpstreamServersF o.faults o.conf { x with api := loadPlus o.conf x.state } := by
  unfold applyOp updateNginxConfF Faults.noReload
  simp only [viaReload, Bool.or_eq_true, decide_eq_true_eq] at h
  cases hk : o.kind with
  | cluster => cases o.faults.replace <;> cases o.faults.reload <;> simp
  | endpoints =>
    have hl : lastErr = true := by
      rcases h with h | h
      · rw [hk] at h; cases h
      · exact h
    subst hl
    cases o.faults.replace <;> cases o.faults.reload <;> simp

theorem applyOp_plus_api {lastErr : Bool} {o : HOp} (h : viaReload lastErr o = false) (x : Ngx) :
    applyOp true lastErr o x = updateUpstreamServersF o.faults o.conf x := by
  obtain ⟨hk, hl⟩ := viaReload_false h
  unfold applyOp
  rw [hk, hl]; simp

/-- the upstreams NGINX Plus has when the API update of the batch starts -/
def apiBeforeUpdate (lastErr : Bool) (o : HOp) (x : Ngx) : Api :=
  if viaReload lastErr o then loadPlus o.conf x.state else x.api

/-- Plus, quiet batch: NGINX holds what the fault-free `updateUpstreamServers` of `Model/Resolver.lean` produces -/
theorem applyOp_plus_quiet {lastErr : Bool} {o : HOp} {x : Ngx} (h : (applyOp true lastErr o x).2 = false) :
    (applyOp true lastErr o x).1.api = updateUpstreamServers o.conf (apiBeforeUpdate lastErr o x) := by
  by_cases hv : viaReload lastErr o = true
  · rw [applyOp_plus_reload hv] at h ⊢
    by_cases hn : o.faults.noReload = true
    · simp [hn] at h
    · simp only [hn, Bool.false_eq_true, if_false] at h ⊢
      rw [updateF_quiet h]; simp [apiBeforeUpdate, hv]
  · have hv' : viaReload lastErr o = false := by simpa using hv
    rw [applyOp_plus_api hv'] at h ⊢
    rw [updateF_quiet h]; simp [apiBeforeUpdate, hv']

theorem applyOp_nofaults (plus lastErr : Bool) {o : HOp} (h : o.faults = Faults.none) (x : Ngx) :
    (applyOp plus lastErr o x).2 = false := by
  cases plus
  · rw [applyOp_oss]; simp [h, Faults.noReload, Faults.none]
  · by_cases hv : viaReload lastErr o = true
    · rw [applyOp_plus_reload hv, h]
      simp only [Faults.noReload, Faults.none, Bool.or_self, Bool.false_eq_true, if_false]
      exact updateF_nofaults _ _
    · have hv' : viaReload lastErr o = false := by simpa using hv
      rw [applyOp_plus_api hv', h]; exact updateF_nofaults _ _

theorem inv_applyOp_plus (lastErr : Bool) (o : HOp) {x : Ngx} (hx : x.Inv) : (applyOp true lastErr o x).1.Inv := by
  by_cases hv : viaReload lastErr o = true
  · rw [applyOp_plus_reload hv]
    by_cases hn : o.faults.noReload = true
    · simpa [hn] using hx
    · simp only [hn, Bool.false_eq_true, if_false]
      exact inv_updateF _ _ ⟨inv_loadPlus _ hx.state, hx.state⟩
  · have hv' : viaReload lastErr o = false := by simpa using hv
    rw [applyOp_plus_api hv']; exact inv_updateF _ _ hx

theorem inv_runH_plus : ∀ (ops : List HOp) (s : HState), s.ngx.Inv → (runH true s ops).ngx.Inv
  | [], _, h => h
  | o :: os, s, h => by
    simp only [runH]
    exact inv_runH_plus os _ (inv_applyOp_plus s.lastErr o h)

/-! ### which upstreams exist in NGINX Plus after a history -/

/-- the batch makes NGINX load a new configuration -/
def loadsNow (lastErr : Bool) (o : HOp) : Bool := viaReload lastErr o && !o.faults.noReload

def keysOf (c : Conf) : List String × List String :=
  (dedup (c.http.map (·.name)), dedup ((c.stream.filter fun u => !u.eps.isEmpty).map (·.name)))

theorem keys_applyOp_plus (lastErr : Bool) (o : HOp) (x : Ngx) :
    ((applyOp true lastErr o x).1.api.http.keys, (applyOp true lastErr o x).1.api.stream.keys) =
      if loadsNow lastErr o then keysOf o.conf else (x.api.http.keys, x.api.stream.keys) := by
  by_cases hv : viaReload lastErr o = true
  · rw [applyOp_plus_reload hv]
    by_cases hn : o.faults.noReload = true
    · simp [hn, loadsNow]
    · simp only [hn, Bool.false_eq_true, if_false, loadsNow, hv, Bool.not_false, Bool.and_self, if_true]
      obtain ⟨h1, h2⟩ := keys_updateF o.faults o.conf { x with api := loadPlus o.conf x.state }
      rw [h1, h2]
      simp [keysOf, (keys_loadPlus o.conf x.state).1, (keys_loadPlus o.conf x.state).2]
  · have hv' : viaReload lastErr o = false := by simpa using hv
    rw [applyOp_plus_api hv']
    obtain ⟨h1, h2⟩ := keys_updateF o.faults o.conf x
    simp [loadsNow, hv', h1, h2]

/-- a batch that had to reload and could not records an error -/
theorem applyOp_plus_noReload_err {lastErr : Bool} {o : HOp} {x : Ngx} (hv : viaReload lastErr o = true)
    (hn : o.faults.noReload = true) : applyOp true lastErr o x = (x, true) := by
  rw [applyOp_plus_reload hv]; simp [hn]

/-- An `EndpointsOnlyChange` keeps the http upstream names of the configuration generated just before it (this is what
the change processor's classification means; property C01). -/
def SameHttpNames (c c' : Conf) : Prop := c'.http.map (·.name) = c.http.map (·.name)

def CoherentStep (s : HState) (o : HOp) : Prop :=
  o.kind = .endpoints → ∃ c, s.latest = some c ∧ SameHttpNames c o.conf

def Coherent : HState → List HOp → Prop
  | _, [] => True
  | s, o :: os => CoherentStep s o ∧ Coherent (stepH true s o).1 os

/-- while the handler remembers a successful apply, NGINX knows every http upstream of the last generated configuration -/
def NamesKnown (s : HState) : Prop :=
  s.lastErr = false → ∀ c, s.latest = some c → ∀ u ∈ c.http, u.name ∈ s.ngx.api.http.keys

theorem namesKnown_step {s : HState} {o : HOp} (hn : NamesKnown s) (hc : CoherentStep s o) :
    NamesKnown (stepH true s o).1 := by
  intro herr c hlat u hu
  have hlat' : c = o.conf := by
    have : some o.conf = some c := hlat
    cases this; rfl
  subst hlat'
  have herr' : (applyOp true s.lastErr o s.ngx).2 = false := herr
  have hk := keys_applyOp_plus s.lastErr o s.ngx
  show u.name ∈ (applyOp true s.lastErr o s.ngx).1.api.http.keys
  by_cases hl : loadsNow s.lastErr o = true
  · simp only [hl, if_true, keysOf, Prod.mk.injEq] at hk
    rw [hk.1, mem_dedup]; exact List.mem_map.mpr ⟨u, hu, rfl⟩
  · simp only [hl, Bool.false_eq_true, if_false, Prod.mk.injEq] at hk
    rw [hk.1]
    by_cases hv : viaReload s.lastErr o = true
    · -- it had to reload and did not: an error was recorded
      have hnr : o.faults.noReload = true := by
        simp only [loadsNow, hv, Bool.true_and, Bool.not_eq_true'] at hl
        cases h : o.faults.noReload
        · rw [h] at hl; simp at hl
        · rfl
      rw [applyOp_plus_noReload_err hv hnr] at herr'
      cases herr'
    · have hv' : viaReload s.lastErr o = false := by simpa using hv
      obtain ⟨hkind, hle⟩ := viaReload_false hv'
      obtain ⟨c0, hc0, hsame⟩ := hc hkind
      have hin : u.name ∈ c0.http.map (·.name) := by
        rw [← hsame]; exact List.mem_map.mpr ⟨u, hu, rfl⟩
      obtain ⟨u0, hu0, hn0⟩ := List.mem_map.mp hin
      rw [← hn0]
      exact hn hle c0 hc0 u0 hu0

theorem namesKnown_runH : ∀ (ops : List HOp) (s : HState), NamesKnown s → Coherent s ops →
    NamesKnown (runH true s ops)
  | [], _, h, _ => h
  | o :: os, s, h, hc => by
    simp only [runH]
    exact namesKnown_runH os _ (namesKnown_step h hc.1) hc.2

end NGF.Resolver
