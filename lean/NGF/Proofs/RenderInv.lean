/-
The invariant `GoodConf` of the enriched configuration (everything the well-formedness of the rendered directives
rests on) and its proof for `genR s order` under the decidable hypotheses `inFragment s` and `namesSafe s`.
Core Lean only.
-/
import NGF.Proofs.RenderDirs

namespace NGF.Render
open NGF.Pipeline NGF.Nginx NGF.Mangle
open NGF.Precedence (PathRule GenLoc extLocs hasExact hasPrefix)

/-! ### the invariant -/

def actsOf : RLocAct → List RAct
  | .direct a => [a]
  | .njs ms => ms.map (·.act)

structure GoodServer (sv : RServer) : Prop where
  name_ne : sv.name ≠ []
  idx_inj : sv.rules.Pairwise fun a b => a.idx ≠ b.idx
  ext_nodup : (sv.rules.flatMap (·.ext)).Nodup
  /-- external prefix locations end in `/` -/
  ext_shape : ∀ r ∈ sv.rules, ∀ k ∈ r.ext, k.1 = true ∨ k.2.getLast? = some '/'
  root_free : sv.root404 = true → ∀ r ∈ sv.rules, (false, ['/']) ∉ r.ext

/-- what a proxied action needs: upstream names without `$`, a safe group source, and its split_clients block -/
def GoodAct (c : ConfR) : RAct → Prop
  | .proxy src bs => (∀ b ∈ bs, '$' ∉ b.target) ∧ SafeSrc src ∧ (bs.length > 1 → ∃ g ∈ c.groups, g.1 = src ∧ needsSplit g = true)
  | _ => True

structure GoodConf (c : ConfR) : Prop where
  dports_nodup : (c.dports.map (·.1)).Nodup
  hosts_nodup : (c.servers.map fun sv => (sv.port, sv.name)).Nodup
  sids_nodup : (c.servers.map (·.sid)).Nodup
  servers : ∀ sv ∈ c.servers, GoodServer sv
  groups_keys : (c.groups.map (·.1)).Nodup
  groups_safe : ∀ g ∈ c.groups, SafeSrc g.1
  acts : ∀ sv ∈ c.servers, ∀ r ∈ sv.rules, ∀ a ∈ actsOf r.act, GoodAct c a
  /-- every server listens on a TCP port -/
  ports_ok : (∀ d ∈ c.dports, 1 ≤ d.1 ∧ d.1 ≤ 65535) ∧ ∀ sv ∈ c.servers, 1 ≤ sv.port ∧ sv.port ≤ 65535

/-! ### external locations: the bridge to `Mangle.serverExternalLocs` -/

def conv (k : Bool × Str) : List Char × PathType := (k.2, if k.1 then .exact else .prefix)

theorem conv_inj {a b : Bool × Str} (e : conv a = conv b) : a = b := by
  obtain ⟨a1, a2⟩ := a
  obtain ⟨b1, b2⟩ := b
  simp only [conv, Prod.mk.injEq] at e
  obtain ⟨e1, e2⟩ := e
  subst e1
  cases a1 <;> cases b1 <;> simp_all

theorem hasExact_iff (keys : List (Bool × Str)) (p : Str) :
    hasExact (keys.map toRule) p = decide ((p, PathType.exact) ∈ keys.map conv) := by
  unfold hasExact
  rw [Bool.eq_iff_iff]
  simp only [List.any_eq_true, List.mem_map, decide_eq_true_eq, toRule, conv, Prod.mk.injEq]
  constructor
  · rintro ⟨r, ⟨k, hk, rfl⟩, h⟩
    simp only [Bool.not_not, Bool.and_eq_true, beq_iff_eq] at h
    exact ⟨k, hk, h.2, by simp [h.1]⟩
  · rintro ⟨k, hk, h1, h2⟩
    refine ⟨_, ⟨k, hk, rfl⟩, ?_⟩
    cases hk1 : k.1 <;> simp_all

theorem hasPrefix_iff (keys : List (Bool × Str)) (p : Str) :
    hasPrefix (keys.map toRule) p = decide ((p, PathType.prefix) ∈ keys.map conv) := by
  unfold hasPrefix
  rw [Bool.eq_iff_iff]
  simp only [List.any_eq_true, List.mem_map, decide_eq_true_eq, toRule, conv, Prod.mk.injEq]
  constructor
  · rintro ⟨r, ⟨k, hk, rfl⟩, h⟩
    simp only [Bool.and_eq_true, Bool.not_eq_true', beq_iff_eq] at h
    exact ⟨k, hk, h.2, by simp [h.1]⟩
  · rintro ⟨k, hk, h1, h2⟩
    refine ⟨_, ⟨k, hk, rfl⟩, ?_⟩
    cases hk1 : k.1 <;> simp_all

theorem extLocs_bridge (keys : List (Bool × Str)) (i : Nat) (k : Bool × Str) :
    (extLocs (keys.map toRule) i (toRule k)).map (fun gl => (gl.exact, gl.path)) =
      externalLocs (fun p t => decide ((p, t) ∈ keys.map conv)) (conv k).1 (conv k).2 := by
  obtain ⟨ex, p⟩ := k
  cases ex with
  | true => simp [extLocs, toRule, conv, externalLocs]
  | false =>
    simp only [extLocs, toRule, conv, externalLocs, Bool.not_false, Bool.true_and, Bool.false_eq_true, ↓reduceIte,
      hasExact_iff, hasPrefix_iff, NGF.Precedence.endsSlash]
    by_cases hs : p.getLast? = some '/'
    · simp [hs]
    · have hs' : (p.getLast? == some '/') = false := by simpa using hs
      simp only [hs', Bool.not_false, ↓reduceIte, hs]
      by_cases h1 : (p, PathType.exact) ∈ keys.map conv <;> by_cases h2 : (p ++ ['/'], PathType.prefix) ∈ keys.map conv <;>
        simp [h1, h2]

theorem extKeys_nodup {keys : List (Bool × Str)} (hn : keys.Nodup) :
    ((enumFrom 0 keys).flatMap fun ik =>
      (extLocs (keys.map toRule) ik.1 (toRule ik.2)).map fun gl => (gl.exact, gl.path)).Nodup := by
  have e : ((enumFrom 0 keys).flatMap fun ik =>
      (extLocs (keys.map toRule) ik.1 (toRule ik.2)).map fun gl => (gl.exact, gl.path)) =
      serverExternalLocs (keys.map conv) := by
    simp only [extLocs_bridge]
    rw [enumFrom_flatMap_snd (fun k => externalLocs (fun p t => decide ((p, t) ∈ keys.map conv)) (conv k).1 (conv k).2)]
    unfold serverExternalLocs
    rw [List.flatMap_map]
  rw [e]
  exact serverExternalLocs_nodup _ (nodup_map_of_inj (fun a _ b _ h => conv_inj h) hn)

theorem mem_extLocs_shape {keys : List (Bool × Str)} {i : Nat} {k : Bool × Str} {x : Bool × Str}
    (h : x ∈ (extLocs (keys.map toRule) i (toRule k)).map fun gl => (gl.exact, gl.path)) :
    (x.1 = true ∧ x.2 = k.2) ∨
    (x.1 = false ∧ x.2.getLast? = some '/' ∧ (x.2 = k.2 ∨ x.2 = k.2 ++ ['/'])) := by
  rw [extLocs_bridge] at h
  rcases mem_externalLocs h with ⟨_, rfl⟩ | ⟨_, hl, rfl⟩ | ⟨_, _, _, rfl⟩ | ⟨_, _, _, rfl⟩
  · exact Or.inl ⟨rfl, rfl⟩
  · exact Or.inr ⟨rfl, hl, Or.inl rfl⟩
  · exact Or.inr ⟨rfl, by simp [conv], Or.inr rfl⟩
  · exact Or.inl ⟨rfl, rfl⟩

/-! ### one server -/

theorem mem_actsOf_ruleActR {port : Nat} {mrs : List REntry} {a : RAct} (h : a ∈ actsOf (ruleActR port mrs)) :
    ∃ x ∈ mrs, a = actOfR port x.src x.e.action := by
  match mrs with
  | [] => simp [ruleActR, actsOf] at h
  | [x] =>
    simp only [ruleActR] at h
    by_cases hp : isPathOnly x.e.m = true
    · simp only [hp, ↓reduceIte, actsOf, List.mem_singleton] at h
      exact ⟨x, List.mem_singleton.mpr rfl, h⟩
    · simp only [hp, Bool.false_eq_true, ↓reduceIte, actsOf, List.map_cons, List.map_nil, List.mem_singleton, rmatchOf] at h
      exact ⟨x, List.mem_singleton.mpr rfl, h⟩
  | x :: y :: rest =>
    simp only [ruleActR, actsOf, List.map_map, List.mem_map, Function.comp_def, rmatchOf] at h
    obtain ⟨z, hz, rfl⟩ := h
    exact ⟨z, hz, rfl⟩

theorem goodServer_core {mine : List REntry} {keys : List (Bool × Str)} (sid port : Nat) {h : Str}
    (hK : (mine.map pathKeyR).eraseDups = keys) (hname : h ≠ [])
    (hpath : ∀ x ∈ mine, x.e.m.path ≠ []) : GoodServer (serverCoreR mine keys sid port h) := by
  have hn : keys.Nodup := hK ▸ nodup_eraseDups _
  have hkp : ∀ k ∈ keys, k.2 ≠ [] := by
    intro k hk
    rw [← hK, List.mem_eraseDups] at hk
    obtain ⟨x, hx, rfl⟩ := List.mem_map.mp hk
    exact hpath x hx
  refine ⟨hname, ?_, ?_, ?_, ?_⟩
  · simp only [serverCoreR]
    rw [List.pairwise_map]
    exact pairwise_of_nodup_inj (enumFrom_nodup _ _) fun a ha b hb hne => rank_ne_of_enum hn ha hb hne
  · simp only [serverCoreR]
    rw [List.flatMap_map]
    exact extKeys_nodup hn
  · intro r hr k hk
    simp only [serverCoreR, List.mem_map] at hr
    obtain ⟨ik, _, rfl⟩ := hr
    rcases mem_extLocs_shape hk with ⟨h1, _⟩ | ⟨_, h2, _⟩
    · exact Or.inl h1
    · exact Or.inr h2
  · intro hroot r hr hk
    simp only [serverCoreR, List.mem_map] at hr
    obtain ⟨ik, hik, rfl⟩ := hr
    simp only [serverCoreR, Bool.not_eq_true', List.any_eq_false, List.mem_map, beq_iff_eq] at hroot
    have hmem := enumFrom_mem_snd hik
    rcases mem_extLocs_shape hk with ⟨h1, _⟩ | ⟨_, _, h3 | h3⟩
    · simp at h1
    · exact hroot (toRule ik.2) ⟨ik.2, hmem, rfl⟩ (by simpa [toRule] using h3.symm)
    · have : ik.2.2 = [] := by
        cases hp : ik.2.2 with
        | nil => rfl
        | cons c cs => rw [hp] at h3; simp at h3
      exact hkp ik.2 hmem this

/-! ### server names are not empty inside the fragment -/

theorem moreSpecific_ne_nil {l r : Str} (hr : r ≠ []) (hm : NGF.Hostname.hmatch l r = true) :
    NGF.Hostname.moreSpecific l r ≠ [] := by
  unfold NGF.Hostname.moreSpecific
  by_cases e : l = r
  · subst e; simp [hr]
  · have b1 : (l == r) = false := by simpa using e
    simp only [b1, Bool.false_eq_true, ↓reduceIte]
    by_cases hl : l.isEmpty = true
    · simp [hl, hr]
    · have hl' : l ≠ [] := by intro h; simp [h] at hl
      simp only [hl, Bool.false_eq_true, ↓reduceIte]
      have hre : r.isEmpty = false := by cases r <;> simp_all
      simp only [hre, Bool.false_eq_true, ↓reduceIte]
      cases hwa : NGF.Hostname.isWild l with
      | true =>
        cases hwb : NGF.Hostname.isWild r with
        | true =>
          simp only [↓reduceIte]
          by_cases hlab : NGF.Hostname.labels l > NGF.Hostname.labels r
          · simp [hlab, hl']
          · simp [hlab, hr]
        | false => simp [hr]
      | false =>
        cases hwb : NGF.Hostname.isWild r with
        | true => simp [hl']
        | false =>
          unfold NGF.Hostname.hmatch at hm
          have b2 : (r == l) = false := by simpa using (fun x : r = l => e x.symm)
          simp [hl, b2, NGF.Hostname.wildcardMatch, hwa, hwb] at hm

theorem hostsOf_name_ne_nil {s : Scenario} {g : Gateway} (hf : inFragment s = true) (hw : winner s = some g)
    {ph : Nat × Str} (h : ph ∈ hostsOf g s.routes) : ph.2 ≠ [] := by
  unfold hostsOf at h
  rw [List.mem_eraseDups] at h
  simp only [List.mem_flatMap] at h
  obtain ⟨l, hl, r, hr, hx⟩ := h
  by_cases hv : r.valid = true
  · simp only [hv, ↓reduceIte, List.mem_map] at hx
    obtain ⟨hn, hacc, rfl⟩ := hx
    show hn ≠ []
    unfold inFragment at hf
    simp only [hw, Bool.and_eq_true, List.all_eq_true] at hf
    have hro := hf.1.2 r hr
    unfold routeOK at hro
    simp only [Bool.and_eq_true, List.all_eq_true] at hro
    have hhost : ∀ x ∈ r.hostnames, x ≠ [] := by
      intro x hx
      have := hro.1.1 x hx
      unfold hostOK at this
      intro e; subst e; simp at this
    have hgw := hf.2
    unfold gatewayOK at hgw
    simp only [Bool.and_eq_true, List.all_eq_true, Bool.or_eq_true] at hgw
    unfold acceptedAt at hacc
    by_cases hc : (refersTo g l r && nsAllowed g l r) = true
    · simp only [hc, ↓reduceIte] at hacc
      unfold NGF.Hostname.accepted at hacc
      by_cases he : r.hostnames.isEmpty = true
      · simp only [he, ↓reduceIte] at hacc
        by_cases hle : l.host.isEmpty = true
        · simp only [hle, ↓reduceIte, List.mem_singleton] at hacc
          subst hacc; simp [NGF.Hostname.wildcardHostname]
        · simp only [hle, Bool.false_eq_true, ↓reduceIte, List.mem_singleton] at hacc
          subst hacc; intro e; simp [e] at hle
      · simp only [he, Bool.false_eq_true, ↓reduceIte, List.mem_filterMap] at hacc
        obtain ⟨rh, hrh, hsome⟩ := hacc
        by_cases hm : NGF.Hostname.hmatch l.host rh = true
        · simp only [hm, ↓reduceIte, Option.some.injEq] at hsome
          subst hsome
          exact moreSpecific_ne_nil (hhost rh hrh) hm
        · simp [hm] at hsome
    · simp [hc] at hacc
  · simp [hv] at hx

/-! ### the invariant holds for `genR` -/

/-- the per-server part needs only `inFragment` -/
theorem goodServers_genR {s : Scenario} (order : List Nat) (hf : inFragment s = true) :
    ∀ sv ∈ (genR s order).servers, GoodServer sv := by
  unfold genR
  cases hw : winner s with
  | none => simp
  | some g =>
    intro sv hsv
    simp only at hsv
    obtain ⟨ph, hph, rfl⟩ := List.mem_map.mp hsv
    rw [serverOfR_eq_core]
    refine goodServer_core _ _ rfl (hostsOf_name_ne_nil hf hw hph) ?_
    intro x hx
    have hx' := (List.mem_filter.mp hx).1
    have := path_ne_nil_of_inFragment hf hx'
    intro e; rw [e] at this; simp at this

theorem goodConf_genR {s : Scenario} (order : List Nat) (hf : inFragment s = true) (hs : namesSafe s = true)
    (hp : portsOK s = true) : GoodConf (genR s order) := by
  unfold genR
  cases hw : winner s with
  | none =>
    exact ⟨by simp, by simp, by simp, by simp, by simp, by simp, by simp, by simp⟩
  | some g =>
    simp only
    have hhosts : (hostsOf g s.routes).Nodup := by unfold hostsOf; exact nodup_eraseDups _
    have hes : ∀ x ∈ entriesR g s.routes, SafeEntry x := fun x hx => safe_of_namesSafe hs hx
    have hport : ∀ p ∈ (g.listeners.map (·.port)).eraseDups, 1 ≤ p ∧ p ≤ 65535 := by
      intro p hpm
      rw [List.mem_eraseDups] at hpm
      obtain ⟨l, hl, rfl⟩ := List.mem_map.mp hpm
      unfold portsOK at hp
      simp only [hw, List.all_eq_true, Bool.and_eq_true, decide_eq_true_eq] at hp
      exact hp l hl
    refine ⟨?_, ?_, ?_, ?_, ?_, ?_, ?_, ⟨?_, ?_⟩⟩
    rotate_left 7
    · intro d hd
      obtain ⟨p, hpm, rfl⟩ := List.mem_map.mp hd
      exact hport p hpm
    · intro sv hsv
      obtain ⟨ph, hph, rfl⟩ := List.mem_map.mp hsv
      exact hport ph.1 (hostsOf_port hph)
    · simp only [List.map_map, Function.comp_def, List.map_id']
      exact nodup_eraseDups _
    · simp only [List.map_map, Function.comp_def, serverOfR]
      simpa using hhosts
    · simp only [List.map_map, Function.comp_def, serverOfR]
      exact nodup_map_of_inj (fun a ha b hb e => sidOf_inj ha hb (mem_portOrder (hostsOf_port ha)) e) hhosts
    · intro sv hsv
      obtain ⟨ph, hph, rfl⟩ := List.mem_map.mp hsv
      rw [serverOfR_eq_core]
      refine goodServer_core _ _ rfl (hostsOf_name_ne_nil hf hw hph) ?_
      intro x hx
      have hx' := (List.mem_filter.mp hx).1
      have := path_ne_nil_of_inFragment hf hx'
      intro e; rw [e] at this; simp at this
    · exact dedupKey_keys_nodup _ _
    · intro gr hgr
      obtain ⟨hm, _⟩ := dedupKey_sub hgr
      obtain ⟨x, hx, rfl⟩ := List.mem_map.mp hm
      exact ⟨(hes x hx).ns, (hes x hx).name, (hes x hx).nsHyphen⟩
    · intro sv hsv r hr a ha
      obtain ⟨ph, _, rfl⟩ := List.mem_map.mp hsv
      rw [serverOfR_eq_core] at hr
      simp only [serverCoreR, List.mem_map] at hr
      obtain ⟨ik, _, rfl⟩ := hr
      obtain ⟨x, hx, rfl⟩ := mem_actsOf_ruleActR ha
      have hx1 : x ∈ entriesR g s.routes := by
        have := (List.mergeSort_perm _ _).mem_iff.mp hx
        exact (List.mem_filter.mp (List.mem_filter.mp this).1).1
      cases hact : x.e.action with
      | redirect code scheme host port => simp [actOfR, GoodAct]
      | forward bs =>
        simp only [actOfR, GoodAct]
        have hsafe := hes x hx1
        refine ⟨?_, ⟨hsafe.ns, hsafe.name, hsafe.nsHyphen⟩, ?_⟩
        · intro b hb
          exact hsafe.targets b (by rw [hact]; exact hb)
        · intro hlen
          have hk : x.src ∈ ((entriesR g s.routes).map fun x => (x.src, backendsOf x.e.action)).map (·.1) := by
            simp only [List.map_map, Function.comp_def, List.mem_map]
            exact ⟨x, hx1, rfl⟩
          obtain ⟨gr, hgr, hg1⟩ := List.mem_map.mp (mem_dedupKey_key (seen := []) hk (by simp))
          refine ⟨gr, hgr, hg1, ?_⟩
          obtain ⟨hm, _⟩ := dedupKey_sub hgr
          obtain ⟨y, hy, rfl⟩ := List.mem_map.mp hm
          have := src_determines_action hf hy hx1 hg1
          simp only [needsSplit, this, hact, backendsOf, decide_eq_true_eq]
          exact hlen

end NGF.Render
