/-
C16, pipeline level: helper lemmas about `NGF.Model.PipelineTls` (the TLS layer on the pipeline fragment model).
 * the two hostname models (`NGF.Hostname`, used by `Pipeline.acceptedAt`, and `NGF.Tls`, used by the certificate
   binding core) are the same functions: `accepted_eq`, hence `acceptedAt_covers`;
 * the served Gateway of both projections is the projection of `winnerT`: `winner_proj`;
 * the fold computing `listenersForHost[h]`: `ownerOf_spec`, `ownerOf_isSome`;
 * Secret resolution: `resolveRef_ok`, `valid_cert`; key pairs: `keyPairsFrom_sound`, `keyPairsFrom_complete`,
   `keyPairsFrom_nodup`.
Core Lean only.
-/
import NGF.Model.PipelineTls
import NGF.Proofs.TlsOwner
import NGF.Proofs.TlsBind
import NGF.Proofs.Pipeline

set_option linter.unusedSimpArgs false

namespace NGF.PipelineTls
open NGF.Pipeline

/-! ### the two hostname models agree -/

theorem isWild_eq (h : Str) : NGF.Hostname.isWild h = Tls.isWild h := by
  match h with
  | [] => rfl
  | [c] => simp [NGF.Hostname.isWild, Tls.isWild]
  | a :: b :: t =>
    simp only [NGF.Hostname.isWild, List.take]
    by_cases ha : a = '*' <;> by_cases hb : b = '.' <;> simp_all [Tls.isWild]

theorem labels_gt (a b : Str) : decide (NGF.Hostname.labels a > NGF.Hostname.labels b) = decide (Tls.dots a > Tls.dots b) := by
  simp [NGF.Hostname.labels, Tls.dots, List.count_eq_length_filter]

theorem moreSpecific_eq (a b : Str) : NGF.Hostname.moreSpecific a b = Tls.moreSpecific a b := by
  unfold NGF.Hostname.moreSpecific Tls.moreSpecific
  rw [isWild_eq, isWild_eq]
  have h := labels_gt a b
  by_cases h1 : a = b
  · simp [h1]
  · by_cases h2 : a = []
    · simp [h1, h2]
    · by_cases h3 : b = []
      · simp [h1, h2, h3]
      · by_cases hg : Tls.dots a > Tls.dots b
        · have : NGF.Hostname.labels a > NGF.Hostname.labels b := by simpa [hg] using h
          simp [h1, h2, h3, hg, this]
        · have : ¬ NGF.Hostname.labels a > NGF.Hostname.labels b := by simpa [hg] using h
          simp [h1, h2, h3, hg, this]

theorem wildcardMatch_eq (a b : Str) : NGF.Hostname.wildcardMatch a b = Tls.wildcardMatch a b := by
  simp [NGF.Hostname.wildcardMatch, Tls.wildcardMatch, isWild_eq, NGF.Hostname.wildTail]

theorem hmatch_eq (l r : Str) : NGF.Hostname.hmatch l r = Tls.hostMatch l r := by
  unfold NGF.Hostname.hmatch Tls.hostMatch
  rw [wildcardMatch_eq, wildcardMatch_eq]
  by_cases h1 : l = []
  · simp [h1]
  · by_cases h2 : r = l
    · simp [h1, h2]
    · cases h3 : Tls.wildcardMatch l r <;> simp [h1, h2, h3]

theorem accepted_eq (l : Str) (rs : List Str) : NGF.Hostname.accepted l rs = Tls.findAccepted l rs := by
  unfold NGF.Hostname.accepted Tls.findAccepted
  by_cases he : rs.isEmpty = true
  · by_cases hl : l = [] <;> simp [he, hl, NGF.Hostname.wildcardHostname, Tls.wildcardHostname]
  · simp only [he]
    simp only [Bool.false_eq_true, if_false]
    induction rs with
    | nil => rfl
    | cons r rs ih =>
      simp only [List.filterMap_cons, List.filter_cons, hmatch_eq, moreSpecific_eq]
      cases hm : Tls.hostMatch l r
      · simp only [Bool.false_eq_true, if_false]
        by_cases hrs : rs.isEmpty = true
        · simp at hrs; subst hrs; rfl
        · simpa [hmatch_eq, moreSpecific_eq] using ih hrs
      · simp only [if_true, List.map_cons]
        by_cases hrs : rs.isEmpty = true
        · simp at hrs; subst hrs; rfl
        · congr 1
          simpa [hmatch_eq, moreSpecific_eq] using ih hrs

/-- accepted hostnames are covered by the listener hostname (`Tls.covers`) -/
theorem acceptedAt_covers {g : Gateway} {l : Listener} {r : Route} {h : Str} (hm : h ∈ acceptedAt g l r) :
    Tls.covers l.host h = true := by
  unfold acceptedAt at hm
  split at hm
  · rw [accepted_eq] at hm
    exact Tls.accepted_covers _ _ _ hm
  · simp at hm

/-! ### the served Gateway -/

theorem olderGw_proj (keep keep' : GatewayT → ListenerT → Bool) (a b : GatewayT) :
    olderGw (projGw keep a) (projGw keep' b) = olderGw (bare a) (bare b) := rfl

theorem oldest_map (keep : GatewayT → ListenerT → Bool) (l : List GatewayT) :
    oldest (l.map (projGw keep)) = (oldestT l).map (projGw keep) := by
  induction l with
  | nil => rfl
  | cons g gs ih =>
    simp only [List.map_cons, oldest, oldestT, ih]
    cases oldestT gs with
    | none => rfl
    | some b =>
      simp only [Option.map_some, olderGw_proj]
      by_cases h : olderGw (bare b) (bare g) = true <;> simp [h]

theorem winner_proj (keep : GatewayT → ListenerT → Bool) (s : ScenarioT) :
    winner (proj keep s) = (winnerT s).map (projGw keep) := by
  unfold winner winnerT
  have hc : classOurs (proj keep s) = classOurs (allPart s) := rfl
  rw [hc]
  split
  · have : (proj keep s).gateways.filter (·.cls == (proj keep s).cls) =
        (s.gateways.filter (·.cls == s.cls)).map (projGw keep) := by
      simp only [proj, List.filter_map]
      rfl
    rw [this, oldest_map]
  · rfl

theorem oldestT_mem {l : List GatewayT} {g : GatewayT} (h : oldestT l = some g) : g ∈ l := by
  induction l generalizing g with
  | nil => simp [oldestT] at h
  | cons a as ih =>
    simp only [oldestT] at h
    cases hb : oldestT as with
    | none => simp [hb] at h; simp [h]
    | some b =>
      simp only [hb] at h
      split at h
      · simp at h; subst h; exact List.mem_cons_of_mem _ (ih hb)
      · simp at h; simp [h]

theorem winnerT_mem {s : ScenarioT} {g : GatewayT} (h : winnerT s = some g) : g ∈ s.gateways := by
  unfold winnerT at h
  split at h
  · exact (List.mem_filter.mp (oldestT_mem h)).1
  · simp at h

/-! ### `genT` unfolded -/

theorem genT_none {s : ScenarioT} (hw : winnerT s = none) :
    genT s = { http := gen (httpPart s), ssl := [], sslPorts := [], keyPairs := [] } := by
  simp [genT, hw]

theorem gen_httpsPart {s : ScenarioT} {gT : GatewayT} (hw : winnerT s = some gT) :
    gen (httpsPart s) =
      { ports := ((projGw (validHttps s) gT).listeners.map (·.port)).eraseDups
        servers := (hostsOf (projGw (validHttps s) gT) s.routes).map fun ph =>
          serverOf (entries (projGw (validHttps s) gT) s.routes) ph.1 ph.2 } := by
  have : winner (httpsPart s) = some (projGw (validHttps s) gT) := by
    unfold httpsPart; rw [winner_proj, hw]; rfl
  simp only [gen, this]
  rfl

theorem gen_httpPart {s : ScenarioT} {gT : GatewayT} (hw : winnerT s = some gT) :
    gen (httpPart s) =
      { ports := ((projGw (fun g l => validHttp g l) gT).listeners.map (·.port)).eraseDups
        servers := (hostsOf (projGw (fun g l => validHttp g l) gT) s.routes).map fun ph =>
          serverOf (entries (projGw (fun g l => validHttp g l) gT) s.routes) ph.1 ph.2 } := by
  have : winner (httpPart s) = some (projGw (fun g l => validHttp g l) gT) := by
    unfold httpPart; rw [winner_proj, hw]; rfl
  simp only [gen, this]
  rfl

theorem mem_projGw_listeners {keep : GatewayT → ListenerT → Bool} {g : GatewayT} {l : Listener}
    (h : l ∈ (projGw keep g).listeners) : ∃ lT ∈ g.listeners, keep g lT = true ∧ lT.base = l := by
  simp only [projGw, List.mem_map, List.mem_filter] at h
  obtain ⟨lT, ⟨h1, h2⟩, h3⟩ := h
  exact ⟨lT, h1, h2, h3⟩

/-- `acceptedAt` only reads the identity of the Gateway -/
theorem acceptedAt_projGw (keep keep' : GatewayT → ListenerT → Bool) (g : GatewayT) (l : Listener) (r : Route) :
    acceptedAt (projGw keep g) l r = acceptedAt (projGw keep' g) l r := rfl

/-! ### `listenersForHost[h]` -/

/-- a valid route attached to `l` carries hostname `h` -/
def carries (g : Gateway) (routes : List Route) (h : Str) (l : ListenerT) : Bool := (accHosts g routes l.base).contains h

theorem carries_iff {g : Gateway} {routes : List Route} {h : Str} {l : ListenerT} :
    carries g routes h l = true ↔ ∃ r ∈ routes, r.valid = true ∧ h ∈ acceptedAt g l.base r := by
  simp only [carries, accHosts, List.contains_iff_mem, List.mem_flatMap]
  constructor
  · rintro ⟨r, hr, hm⟩
    by_cases hv : r.valid = true
    · simp only [hv, if_true] at hm; exact ⟨r, hr, hv, hm⟩
    · simp [hv] at hm
  · rintro ⟨r, hr, hv, hm⟩
    exact ⟨r, hr, by simpa [hv] using hm⟩

theorem carries_covers {g : Gateway} {routes : List Route} {h : Str} {l : ListenerT}
    (hc : carries g routes h l = true) : Tls.covers l.base.host h = true := by
  obtain ⟨r, _, _, hm⟩ := carries_iff.mp hc
  exact acceptedAt_covers hm

theorem ownerStep_eq (g : Gateway) (routes : List Route) (h : Str) (acc : Option ListenerT) (l : ListenerT) :
    ownerStep g routes h acc l =
      if carries g routes h l then
        (match acc with
         | none => some l
         | some p => if Tls.lms l.base.host p.base.host then some l else some p)
      else acc := rfl

/-- the fold's result is a listener carrying `h` (or the initial value), at least as specific as every listener
carrying `h` and as the initial value -/
theorem ownerFrom_spec (g : Gateway) (routes : List Route) (h : Str) :
    ∀ (ls : List ListenerT) (acc : Option ListenerT),
      (∀ a, acc = some a → Tls.covers a.base.host h = true) →
      ∀ w, ownerFrom g routes h acc ls = some w →
        ((w ∈ ls ∧ carries g routes h w = true) ∨ acc = some w) ∧
        (∀ l ∈ ls, carries g routes h l = true → Tls.rank l.base.host ≤ Tls.rank w.base.host) ∧
        (∀ a, acc = some a → Tls.rank a.base.host ≤ Tls.rank w.base.host) := by
  intro ls
  induction ls with
  | nil =>
    intro acc _ w hw
    simp only [ownerFrom] at hw
    refine ⟨Or.inr hw, by simp, ?_⟩
    intro a ha; rw [hw] at ha; cases ha; exact Nat.le_refl _
  | cons l ls ih =>
    intro acc hcov w hw
    simp only [ownerFrom] at hw
    rw [ownerStep_eq] at hw
    by_cases hc : carries g routes h l = true
    · have hcl := carries_covers hc
      simp only [hc, if_true] at hw
      cases acc with
      | none =>
        simp only at hw
        obtain ⟨h1, h2, h3⟩ := ih (some l) (by intro a ha; cases ha; exact hcl) w hw
        refine ⟨?_, ?_, by simp⟩
        · rcases h1 with ⟨hm, hcw⟩ | he
          · exact Or.inl ⟨List.mem_cons_of_mem _ hm, hcw⟩
          · cases he; exact Or.inl ⟨List.mem_cons_self, hc⟩
        · intro l' hl' hc'
          rcases List.mem_cons.mp hl' with e | e
          · subst e; exact h3 _ rfl
          · exact h2 l' e hc'
      | some p =>
        have hcp := hcov p rfl
        have hiff := Tls.lms_iff_rank hcl hcp
        simp only at hw
        by_cases hl : Tls.lms l.base.host p.base.host = true
        · simp only [hl, if_true] at hw
          obtain ⟨h1, h2, h3⟩ := ih (some l) (by intro a ha; cases ha; exact hcl) w hw
          have hle := hiff.mp hl
          refine ⟨?_, ?_, ?_⟩
          · rcases h1 with ⟨hm, hcw⟩ | he
            · exact Or.inl ⟨List.mem_cons_of_mem _ hm, hcw⟩
            · cases he; exact Or.inl ⟨List.mem_cons_self, hc⟩
          · intro l' hl' hc'
            rcases List.mem_cons.mp hl' with e | e
            · subst e; exact h3 _ rfl
            · exact h2 l' e hc'
          · intro a ha; cases ha
            exact Nat.le_trans hle (h3 _ rfl)
        · simp only [hl] at hw
          obtain ⟨h1, h2, h3⟩ := ih (some p) (by intro a ha; cases ha; exact hcp) w (by simpa using hw)
          have hlt : ¬ Tls.rank p.base.host ≤ Tls.rank l.base.host := fun x => hl (hiff.mpr x)
          have hp := h3 _ rfl
          refine ⟨?_, ?_, ?_⟩
          · rcases h1 with ⟨hm, hcw⟩ | he
            · exact Or.inl ⟨List.mem_cons_of_mem _ hm, hcw⟩
            · exact Or.inr he
          · intro l' hl' hc'
            rcases List.mem_cons.mp hl' with e | e
            · subst e; omega
            · exact h2 l' e hc'
          · intro a ha; cases ha; exact hp
    · simp only [hc] at hw
      obtain ⟨h1, h2, h3⟩ := ih acc hcov w (by simpa using hw)
      refine ⟨?_, ?_, h3⟩
      · rcases h1 with ⟨hm, hcw⟩ | he
        · exact Or.inl ⟨List.mem_cons_of_mem _ hm, hcw⟩
        · exact Or.inr he
      · intro l' hl' hc'
        rcases List.mem_cons.mp hl' with e | e
        · subst e; exact absurd hc' hc
        · exact h2 l' e hc'

theorem ownerStep_isSome {g : Gateway} {routes : List Route} {h : Str} {acc : Option ListenerT} {l : ListenerT}
    (hs : acc.isSome = true ∨ carries g routes h l = true) : (ownerStep g routes h acc l).isSome = true := by
  rw [ownerStep_eq]
  by_cases hc : carries g routes h l = true
  · simp only [hc, if_true]
    cases acc with
    | none => rfl
    | some p => simp only; split <;> rfl
  · rcases hs with hs | hs
    · simpa [hc] using hs
    · exact absurd hs hc

theorem ownerFrom_isSome (g : Gateway) (routes : List Route) (h : Str) :
    ∀ (ls : List ListenerT) (acc : Option ListenerT),
      (acc.isSome = true ∨ ∃ l ∈ ls, carries g routes h l = true) → (ownerFrom g routes h acc ls).isSome = true := by
  intro ls
  induction ls with
  | nil => intro acc hs; rcases hs with hs | ⟨l, hl, _⟩
           · simpa [ownerFrom] using hs
           · simp at hl
  | cons l ls ih =>
    intro acc hs
    simp only [ownerFrom]
    apply ih
    rcases hs with hs | ⟨l', hl', hc'⟩
    · exact Or.inl (ownerStep_isSome (Or.inl hs))
    · rcases List.mem_cons.mp hl' with e | e
      · subst e; exact Or.inl (ownerStep_isSome (Or.inr hc'))
      · exact Or.inr ⟨l', e, hc'⟩

/-- `ownerOf`: exists as soon as some listener carries `h`, is one of the listeners carrying `h`, and no listener
carrying `h` is more specific -/
theorem ownerOf_spec {g : Gateway} {routes : List Route} {ls : List ListenerT} {h : Str} {w : ListenerT}
    (hw : ownerOf g routes ls h = some w) :
    w ∈ ls ∧ carries g routes h w = true ∧
      ∀ l ∈ ls, carries g routes h l = true → Tls.rank l.base.host ≤ Tls.rank w.base.host := by
  obtain ⟨h1, h2, _⟩ := ownerFrom_spec g routes h ls none (by simp) w hw
  rcases h1 with ⟨hm, hc⟩ | he
  · exact ⟨hm, hc, h2⟩
  · simp at he

theorem ownerOf_isSome {g : Gateway} {routes : List Route} {ls : List ListenerT} {h : Str} {l : ListenerT}
    (hl : l ∈ ls) (hc : carries g routes h l = true) : (ownerOf g routes ls h).isSome = true :=
  ownerFrom_isSome g routes h ls none (Or.inr ⟨l, hl, hc⟩)

/-! ### Secret resolution -/

theorem resolveRef_ok {grants : List Tls.Grant} {secrets : List Tls.SecretObj} {gwNs : Tls.Name} {r : Tls.CertRef}
    (h : Tls.resolveRef grants secrets gwNs r = .ok) :
    r.nrefs ≠ 0 ∧ r.kindOK = true ∧ r.groupOK = true ∧
    (r.ns = gwNs ∨ Tls.secretRefAllowed grants gwNs r.ns r.name = true) ∧
    ∃ sec, Tls.findSecret secrets r.ns r.name = some sec ∧ sec.isTLS = true ∧ sec.pairOK = true := by
  unfold Tls.resolveRef at h
  split at h
  · simp at h
  split at h
  · simp at h
  split at h
  · simp at h
  rename_i h0 h1 h2
  split at h
  · simp at h
  rename_i sec hs
  split at h
  · simp at h
  split at h
  · simp at h
  rename_i h3 h4
  have h1' : r.kindOK = true ∧ r.groupOK = true := by simpa using h1
  refine ⟨h0, h1'.1, h1'.2, ?_, sec, hs, by simpa using h3, by simpa using h4⟩
  by_cases e : r.ns = gwNs
  · exact Or.inl e
  · right
    simp only [ne_eq, e, not_false_eq_true, decide_true, Bool.true_and, Bool.not_eq_true', Bool.not_eq_false] at h2
    simpa using h2

/-- a valid HTTPS listener: HTTPS, no port conflict, a well-formed reference to a permitted, existing, loadable
kubernetes.io/tls Secret -/
theorem validHttps_iff {s : ScenarioT} {g : GatewayT} {l : ListenerT} :
    validHttps s g l = true ↔ l.https = true ∧ conflicted g l = false ∧ resolution s g l = .ok := by
  simp [validHttps, and_assoc]

theorem valid_cert {s : ScenarioT} {g : GatewayT} {l : ListenerT} (h : validHttps s g l = true) :
    ∃ c, l.cert = some c ∧ (c.1 = g.ns ∨ Tls.secretRefAllowed s.grants g.ns c.1 c.2 = true) ∧
      ∃ sec, Tls.findSecret s.secrets c.1 c.2 = some sec ∧ sec.isTLS = true ∧ sec.pairOK = true := by
  have hr := (validHttps_iff.mp h).2.2
  unfold resolution at hr
  obtain ⟨h0, _, _, hp, sec, hf, h1, h2⟩ := resolveRef_ok hr
  cases hc : l.cert with
  | none => simp [certRefOf, hc] at h0
  | some c =>
    simp only [certRefOf, hc] at hp hf
    exact ⟨c, rfl, hp, sec, hf, h1, h2⟩

/-! ### key pairs -/

theorem kpStep_mem {secrets : List Tls.SecretObj} {m : List Tls.KeyPair} {l : ListenerT} {k : Tls.KeyPair}
    (h : k ∈ kpStep secrets m l) :
    k ∈ m ∨ ∃ c sec, l.cert = some c ∧ Tls.findSecret secrets c.1 c.2 = some sec ∧
      k = ⟨Tls.keyPairId c, sec.cert, sec.key⟩ := by
  unfold kpStep at h
  split at h
  · rename_i c hc
    split at h
    · rename_i sec hs
      rcases Tls.mem_insertKP h with e | e
      · exact Or.inr ⟨c, sec, hc, hs, e⟩
      · exact Or.inl e
    · exact Or.inl h
  · exact Or.inl h

/-- every key pair carries the bytes of the Secret referenced by one of the listeners, under that Secret's id -/
theorem keyPairsFrom_sound (secrets : List Tls.SecretObj) :
    ∀ (ls : List ListenerT) (m : List Tls.KeyPair) (k : Tls.KeyPair), k ∈ keyPairsFrom secrets m ls →
      k ∈ m ∨ ∃ l ∈ ls, ∃ c sec, l.cert = some c ∧ Tls.findSecret secrets c.1 c.2 = some sec ∧
        k = ⟨Tls.keyPairId c, sec.cert, sec.key⟩ := by
  intro ls
  induction ls with
  | nil => intro m k h; exact Or.inl h
  | cons l ls ih =>
    intro m k h
    simp only [keyPairsFrom] at h
    rcases ih _ k h with h1 | ⟨l', hl', rest⟩
    · rcases kpStep_mem h1 with h2 | ⟨c, sec, hc, hs, e⟩
      · exact Or.inl h2
      · exact Or.inr ⟨l, List.mem_cons_self, c, sec, hc, hs, e⟩
    · exact Or.inr ⟨l', List.mem_cons_of_mem _ hl', rest⟩

theorem insertKP_has_id (m : List Tls.KeyPair) (k : Tls.KeyPair) (i : List Char)
    (h : k.id = i ∨ ∃ x ∈ m, x.id = i) : ∃ x ∈ Tls.insertKP m k, x.id = i := by
  unfold Tls.insertKP
  rcases h with h | ⟨x, hx, hi⟩
  · exact ⟨k, by simp, h⟩
  · by_cases e : x.id = k.id
    · exact ⟨k, by simp, by rw [← e, hi]⟩
    · exact ⟨x, by simp [hx, e], hi⟩

theorem kpStep_keeps_id {secrets : List Tls.SecretObj} {m : List Tls.KeyPair} {l : ListenerT} {i : List Char}
    (h : ∃ x ∈ m, x.id = i) : ∃ x ∈ kpStep secrets m l, x.id = i := by
  unfold kpStep
  split
  · split
    · exact insertKP_has_id _ _ _ (Or.inr h)
    · exact h
  · exact h

theorem keyPairsFrom_keeps_id (secrets : List Tls.SecretObj) :
    ∀ (ls : List ListenerT) (m : List Tls.KeyPair) (i : List Char), (∃ x ∈ m, x.id = i) →
      ∃ x ∈ keyPairsFrom secrets m ls, x.id = i := by
  intro ls
  induction ls with
  | nil => intro m i h; exact h
  | cons l ls ih => intro m i h; exact ih _ i (kpStep_keeps_id h)

/-- every listener whose Secret exists has its key pair emitted -/
theorem keyPairsFrom_complete (secrets : List Tls.SecretObj) :
    ∀ (ls : List ListenerT) (m : List Tls.KeyPair) (l : ListenerT), l ∈ ls →
      ∀ c sec, l.cert = some c → Tls.findSecret secrets c.1 c.2 = some sec →
        ∃ x ∈ keyPairsFrom secrets m ls, x.id = Tls.keyPairId c := by
  intro ls
  induction ls with
  | nil => intro m l hl; simp at hl
  | cons a as ih =>
    intro m l hl c sec hc hs
    simp only [keyPairsFrom]
    rcases List.mem_cons.mp hl with e | e
    · subst e
      apply keyPairsFrom_keeps_id
      simp only [kpStep, hc, hs]
      exact insertKP_has_id _ _ _ (Or.inl rfl)
    · exact ih _ l e c sec hc hs

def idsNodup (m : List Tls.KeyPair) : Prop := (m.map (·.id)).Nodup

theorem insertKP_nodup {m : List Tls.KeyPair} (k : Tls.KeyPair) (h : idsNodup m) : idsNodup (Tls.insertKP m k) := by
  unfold idsNodup Tls.insertKP at *
  simp only [List.map_cons, List.nodup_cons, List.mem_map, List.mem_filter]
  refine ⟨?_, ?_⟩
  · rintro ⟨x, ⟨_, hx⟩, e⟩
    simp at hx; exact hx e
  · exact (List.Nodup.sublist (List.Sublist.map _ List.filter_sublist) h)

theorem keyPairsFrom_nodup (secrets : List Tls.SecretObj) :
    ∀ (ls : List ListenerT) (m : List Tls.KeyPair), idsNodup m → idsNodup (keyPairsFrom secrets m ls) := by
  intro ls
  induction ls with
  | nil => intro m h; exact h
  | cons l ls ih =>
    intro m h
    simp only [keyPairsFrom]
    apply ih
    unfold kpStep
    split
    · split
      · exact insertKP_nodup _ h
      · exact h
    · exact h

/-! ### `genT` unfolded; shape of the SSL servers -/

theorem genT_some {s : ScenarioT} {gT : GatewayT} (hw : winnerT s = some gT) :
    genT s =
      { http := gen (httpPart s)
        ssl := ((gen (httpsPart s)).servers.map fun sv =>
                  (sv, (ownerOf (projGw (validHttps s) gT) s.routes
                          ((sslListeners s gT).filter (·.base.port == sv.port)) sv.name).bind kpOf)) ++
               listenerOnly (projGw (validHttps s) gT) s.routes (sslListeners s gT)
        sslPorts := (gen (httpsPart s)).ports
        keyPairs := keyPairsFrom s.secrets [] (sslListeners s gT) } := by
  simp [genT, hw]

theorem mem_sslListeners {s : ScenarioT} {gT : GatewayT} {l : ListenerT} :
    l ∈ sslListeners s gT ↔ l ∈ gT.listeners ∧ validHttps s gT l = true := by
  simp [sslListeners]

/-- the key pair of a valid HTTPS listener of the served Gateway is emitted, under the id of the listener's Secret,
with the bytes of a Secret of that id referenced by a valid listener -/
theorem valid_listener_keypair {s : ScenarioT} {gT : GatewayT} {w : ListenerT} (hw : w ∈ sslListeners s gT) :
    ∃ c sec, w.cert = some c ∧ kpOf w = some (Tls.keyPairId c) ∧ Tls.findSecret s.secrets c.1 c.2 = some sec ∧
      ∃ k ∈ keyPairsFrom s.secrets [] (sslListeners s gT), k.id = Tls.keyPairId c ∧
        ∃ l' ∈ sslListeners s gT, ∃ c' sec', l'.cert = some c' ∧ Tls.findSecret s.secrets c'.1 c'.2 = some sec' ∧
          Tls.keyPairId c' = Tls.keyPairId c ∧ k.cert = sec'.cert ∧ k.key = sec'.key := by
  obtain ⟨c, hc, _, sec, hs, _, _⟩ := valid_cert (mem_sslListeners.mp hw).2
  obtain ⟨k, hk, hid⟩ := keyPairsFrom_complete s.secrets _ [] w hw c sec hc hs
  refine ⟨c, sec, hc, by simp [kpOf, hc], hs, k, hk, hid, ?_⟩
  rcases keyPairsFrom_sound s.secrets _ [] k hk with h0 | ⟨l', hl', c', sec', hc', hs', e⟩
  · simp at h0
  · refine ⟨l', hl', c', sec', hc', hs', ?_, ?_, ?_⟩
    · rw [← hid, e]
    · rw [e]
    · rw [e]

theorem covers_serverName (h : Str) : Tls.covers h (serverName h) = true := by
  unfold serverName Tls.covers
  cases h <;> simp

/-- shape of the SSL servers: a server of the HTTPS projection with the key pair of `ownerOf`, or a listener's own -/
theorem mem_ssl {s : ScenarioT} {gT : GatewayT} (hw : winnerT s = some gT) {sv : CServer} {kp : Option (List Char)}
    (h : (sv, kp) ∈ (genT s).ssl) :
    (sv ∈ (gen (httpsPart s)).servers ∧
      kp = (ownerOf (projGw (validHttps s) gT) s.routes
              ((sslListeners s gT).filter (·.base.port == sv.port)) sv.name).bind kpOf) ∨
    (∃ l ∈ sslListeners s gT,
      (nroutes (projGw (validHttps s) gT) s.routes l.base = 0 ∨ serverName l.base.host = Hostname.wildcardHostname) ∧
      sv = serverOf [] l.base.port (serverName l.base.host) ∧ kp = kpOf l) := by
  rw [genT_some hw] at h
  simp only [List.mem_append, List.mem_map] at h
  rcases h with ⟨sv', hsv, e⟩ | h
  · simp only [Prod.mk.injEq] at e
    obtain ⟨rfl, rfl⟩ := e
    exact Or.inl ⟨hsv, rfl⟩
  · simp only [listenerOnly, List.mem_map, List.mem_filter, Prod.mk.injEq] at h
    obtain ⟨l, ⟨hl, hc⟩, rfl, rfl⟩ := h
    refine Or.inr ⟨l, hl, ?_, rfl, rfl⟩
    simpa using hc

/-! ### specificity -/

/-- covering one name with equal specificity means being the same hostname -/
theorem host_eq_of_rank_eq {a b h : Tls.Host} (ha : Tls.covers a h = true) (hb : Tls.covers b h = true)
    (hr : Tls.rank a = Tls.rank b) : a = b := by
  by_cases ha0 : a = []
  · subst ha0
    by_cases hb0 : b = []
    · exact hb0.symm
    · exfalso
      have : Tls.rank b ≥ 1 := by unfold Tls.rank; simp only [hb0, if_false]; split <;> omega
      have h0 : Tls.rank ([] : Tls.Host) = 0 := by simp [Tls.rank]
      omega
  by_cases hb0 : b = []
  · subst hb0
    exfalso
    have : Tls.rank a ≥ 1 := by unfold Tls.rank; simp only [ha0, if_false]; split <;> omega
    have h0 : Tls.rank ([] : Tls.Host) = 0 := by simp [Tls.rank]
    omega
  by_cases wa : Tls.isWild a = true
  · by_cases wb : Tls.isWild b = true
    · apply Classical.byContradiction
      intro hne
      have := Tls.wild_dots_ne ha hb wa wb hne
      simp [Tls.rank, ha0, hb0, wa, wb] at hr
      exact this hr
    · -- b exact = h, a wildcard covering it: strictly less specific
      exfalso
      have hbh : b = h := by
        rcases Tls.covers_iff.mp hb with h1 | h1 | ⟨t, h1, _⟩
        · exact absurd h1 hb0
        · exact h1
        · subst h1; simp [Tls.isWild] at wb
      subst hbh
      have hda : Tls.dots a ≤ Tls.dots b := by
        rcases Tls.covers_iff.mp ha with h1 | h1 | ⟨t, rfl, s⟩
        · exact absurd h1 ha0
        · subst h1; exact absurd wa wb
        · rw [Tls.dots_star]; exact Tls.dots_suffix_le s
      simp [Tls.rank, ha0, hb0, wa, wb] at hr
      omega
  · have hah : a = h := by
      rcases Tls.covers_iff.mp ha with h1 | h1 | ⟨t, h1, _⟩
      · exact absurd h1 ha0
      · exact h1
      · subst h1; simp [Tls.isWild] at wa
    subst hah
    by_cases wb : Tls.isWild b = true
    · exfalso
      have hdb : Tls.dots b ≤ Tls.dots a := by
        rcases Tls.covers_iff.mp hb with h1 | h1 | ⟨t, rfl, s⟩
        · exact absurd h1 hb0
        · subst h1; exact absurd wb wa
        · rw [Tls.dots_star]; exact Tls.dots_suffix_le s
      simp [Tls.rank, ha0, hb0, wa, wb] at hr
      omega
    · rcases Tls.covers_iff.mp hb with h1 | h1 | ⟨t, h1, _⟩
      · exact absurd h1 hb0
      · exact h1.symm
      · subst h1; simp [Tls.isWild] at wb

/-! ### rewriting the listeners of every Gateway -/

theorem oldestT_mapGw (f : GatewayT → List ListenerT) (l : List GatewayT) :
    oldestT (l.map (mapGw f)) = (oldestT l).map (mapGw f) := by
  induction l with
  | nil => rfl
  | cons g gs ih =>
    simp only [List.map_cons, oldestT, ih]
    cases oldestT gs with
    | none => rfl
    | some b =>
      simp only [Option.map_some]
      have : olderGw (bare (mapGw f b)) (bare (mapGw f g)) = olderGw (bare b) (bare g) := rfl
      rw [this]
      by_cases h : olderGw (bare b) (bare g) = true <;> simp [h]

theorem winnerT_mapScen (f : GatewayT → List ListenerT) (s : ScenarioT) :
    winnerT (mapScen f s) = (winnerT s).map (mapGw f) := by
  unfold winnerT
  have hc : classOurs (allPart (mapScen f s)) = classOurs (allPart s) := rfl
  rw [hc]
  split
  · have : (mapScen f s).gateways.filter (·.cls == (mapScen f s).cls) =
        (s.gateways.filter (·.cls == s.cls)).map (mapGw f) := by
      simp only [mapScen, List.filter_map]
      rfl
    rw [this, oldestT_mapGw]
  · rfl

/-- the SSL part of `genT` is a function of: the served Gateway's identity, its valid HTTPS listeners, the routes
and the Secrets -/
theorem sslPart_congr {s s' : ScenarioT} {gT gT' : GatewayT} (hw : winnerT s = some gT) (hw' : winnerT s' = some gT')
    (hg : projGw (validHttps s') gT' = projGw (validHttps s) gT) (hv : sslListeners s' gT' = sslListeners s gT)
    (hr : s'.routes = s.routes) (hsec : s'.secrets = s.secrets) :
    (genT s').ssl = (genT s).ssl ∧ (genT s').sslPorts = (genT s).sslPorts ∧ (genT s').keyPairs = (genT s).keyPairs := by
  rw [genT_some hw, genT_some hw', gen_httpsPart hw, gen_httpsPart hw', hg, hv, hr, hsec]
  exact ⟨rfl, rfl, rfl⟩

theorem sslPart_none {s s' : ScenarioT} (hw : winnerT s = none) (hw' : winnerT s' = none) :
    (genT s').ssl = (genT s).ssl ∧ (genT s').sslPorts = (genT s).sslPorts ∧ (genT s').keyPairs = (genT s).keyPairs := by
  rw [genT_none hw, genT_none hw']
  exact ⟨rfl, rfl, rfl⟩

theorem conflicted_eq (g : GatewayT) (l : ListenerT) : conflicted g l = g.listeners.any fun o => clash o l := rfl

/-- filtering the listeners: a listener filter `keep` that keeps every valid HTTPS listener and, for every HTTPS
listener whose Secret resolves, every listener clashing with it, does not change the SSL part -/
theorem ssl_part_filter_invariant (s : ScenarioT) (keep : GatewayT → ListenerT → Bool)
    (ha : ∀ g l, l ∈ g.listeners → validHttps s g l = true → keep g l = true)
    (hb : ∀ g l o, l ∈ g.listeners → o ∈ g.listeners → l.https = true → resolution s g l = .ok → clash o l = true →
      keep g o = true) :
    let s' := mapScen (fun g => g.listeners.filter (keep g)) s
    (genT s').ssl = (genT s).ssl ∧ (genT s').sslPorts = (genT s).sslPorts ∧ (genT s').keyPairs = (genT s).keyPairs := by
  intro s'
  have hw' : winnerT s' = (winnerT s).map (mapGw fun g => g.listeners.filter (keep g)) := winnerT_mapScen _ s
  cases hw : winnerT s with
  | none => rw [hw] at hw'; exact sslPart_none hw hw'
  | some gT =>
    rw [hw] at hw'
    simp only [Option.map_some] at hw'
    -- validity of the kept listeners is unchanged
    have hvalid : ∀ l ∈ gT.listeners, keep gT l = true →
        validHttps s' (mapGw (fun g => g.listeners.filter (keep g)) gT) l = validHttps s gT l := by
      intro l hl _
      have hres : resolution s' (mapGw (fun g => g.listeners.filter (keep g)) gT) l = resolution s gT l := rfl
      unfold validHttps
      rw [hres]
      by_cases hh : l.https = true
      · by_cases hr : resolution s gT l = .ok
        · have hconf : conflicted (mapGw (fun g => g.listeners.filter (keep g)) gT) l = conflicted gT l := by
            rw [conflicted_eq, conflicted_eq]
            simp only [mapGw, List.any_filter]
            apply Bool.eq_iff_iff.mpr
            simp only [List.any_eq_true, Bool.and_eq_true]
            constructor
            · rintro ⟨o, ho, _, hc⟩; exact ⟨o, ho, hc⟩
            · rintro ⟨o, ho, hc⟩; exact ⟨o, ho, hb gT l o hl ho hh hr hc, hc⟩
          rw [hconf]
        · simp [hr]
      · simp [hh]
    have hv : sslListeners s' (mapGw (fun g => g.listeners.filter (keep g)) gT) = sslListeners s gT := by
      simp only [sslListeners, mapGw, List.filter_filter]
      apply List.filter_congr
      intro l hl
      by_cases hk : keep gT l = true
      · have := hvalid l hl hk
        simp only [mapGw] at this
        simp [hk, this]
      · have hnv : validHttps s gT l = false := by
          cases hx : validHttps s gT l
          · rfl
          · exact absurd (ha gT l hl hx) hk
        simp [hk, hnv]
    have hg : projGw (validHttps s') (mapGw (fun g => g.listeners.filter (keep g)) gT) = projGw (validHttps s) gT := by
      have h1 : (projGw (validHttps s') (mapGw (fun g => g.listeners.filter (keep g)) gT)).listeners =
          (sslListeners s' (mapGw (fun g => g.listeners.filter (keep g)) gT)).map (·.base) := rfl
      have h2 : (projGw (validHttps s) gT).listeners = (sslListeners s gT).map (·.base) := rfl
      have h3 : (projGw (validHttps s') (mapGw (fun g => g.listeners.filter (keep g)) gT)).listeners =
          (projGw (validHttps s) gT).listeners := by rw [h1, h2, hv]
      unfold projGw at h3 ⊢
      simp only [Gateway.mk.injEq]
      exact ⟨rfl, rfl, rfl, rfl, h3⟩
    exact sslPart_congr hw hw' hg hv rfl rfl


/-! ### the plain-HTTP part -/

theorem genT_http (s : ScenarioT) : (genT s).http = gen (httpPart s) := by
  unfold genT
  split <;> rfl

theorem httpPart_congr {s s' : ScenarioT} {gT gT' : GatewayT} (hw : winnerT s = some gT) (hw' : winnerT s' = some gT')
    (hg : projGw (fun g l => validHttp g l) gT' = projGw (fun g l => validHttp g l) gT) (hr : s'.routes = s.routes) :
    (genT s').http = (genT s).http := by
  rw [genT_http, genT_http, gen_httpPart hw, gen_httpPart hw', hg, hr]

theorem httpPart_none {s s' : ScenarioT} (hw : winnerT s = none) (hw' : winnerT s' = none) :
    (genT s').http = (genT s).http := by
  have h1 : winner (httpPart s) = none := by unfold httpPart; rw [winner_proj, hw]; rfl
  have h2 : winner (httpPart s') = none := by unfold httpPart; rw [winner_proj, hw']; rfl
  rw [genT_http, genT_http]
  simp only [gen, h1, h2]

theorem clash_erase (o l : ListenerT) : clash (eraseL o) (eraseL l) = clash o l := by
  simp [clash, eraseL, ListenerT.fieldsOK]

theorem winnerT_eraseTls (s : ScenarioT) :
    winnerT (eraseTls s) = (winnerT s).map (mapGw fun g => g.listeners.map eraseL) :=
  winnerT_mapScen _ s

theorem validHttp_erase (g : GatewayT) (l : ListenerT) :
    validHttp (mapGw (fun g => g.listeners.map eraseL) g) (eraseL l) = validHttp g l := by
  unfold validHttp
  rw [conflicted_eq, conflicted_eq]
  simp only [mapGw, List.any_map]
  have : ((fun o => clash o (eraseL l)) ∘ eraseL) = fun o => clash o l := by
    funext o; exact clash_erase o l
  rw [this]
  rfl

theorem projGw_http_erase (g : GatewayT) :
    projGw (fun g l => validHttp g l) (mapGw (fun g => g.listeners.map eraseL) g) = projGw (fun g l => validHttp g l) g := by
  unfold projGw
  simp only [Gateway.mk.injEq]
  refine ⟨rfl, rfl, rfl, rfl, ?_⟩
  show ((g.listeners.map eraseL).filter _).map _ = _
  rw [List.filter_map, List.map_map]
  have h1 : ((fun l => validHttp (mapGw (fun g => g.listeners.map eraseL) g) l) ∘ eraseL) = fun l => validHttp g l := by
    funext l; exact validHttp_erase g l
  have h2 : ((fun (x : ListenerT) => x.base) ∘ eraseL) = fun x => x.base := by funext l; rfl
  rw [h1, h2]

/-- `(genT s).http` does not read the Secrets, the ReferenceGrants, or which Secret a listener names -/
theorem genT_http_eraseTls (s : ScenarioT) : (genT (eraseTls s)).http = (genT s).http := by
  have hw' := winnerT_eraseTls s
  cases hw : winnerT s with
  | none => rw [hw] at hw'; exact httpPart_none hw hw'
  | some gT =>
    rw [hw] at hw'
    exact httpPart_congr hw hw' (projGw_http_erase gT) rfl

/-! ### corollaries of `ssl_part_filter_invariant` -/

theorem ssl_part_dropUnresolved (s : ScenarioT) :
    (genT (dropUnresolved s)).ssl = (genT s).ssl ∧ (genT (dropUnresolved s)).sslPorts = (genT s).sslPorts ∧
    (genT (dropUnresolved s)).keyPairs = (genT s).keyPairs := by
  apply ssl_part_filter_invariant s (keepResolved s)
  · intro g l _ hv
    have := (validHttps_iff.mp hv).2.2
    simp [keepResolved, this]
  · intro g l o _ _ hh _ hc
    simp only [clash, Bool.and_eq_true, bne_iff_ne, ne_eq] at hc
    have : o.https = false := by
      cases ho : o.https
      · rfl
      · exact absurd (by rw [ho, hh]) hc.2
    simp [keepResolved, this]

theorem ssl_part_dropFreeHttp (s : ScenarioT) :
    (genT (dropFreeHttp s)).ssl = (genT s).ssl ∧ (genT (dropFreeHttp s)).sslPorts = (genT s).sslPorts ∧
    (genT (dropFreeHttp s)).keyPairs = (genT s).keyPairs := by
  apply ssl_part_filter_invariant s (fun g => keepTied g)
  · intro g l _ hv
    simp [keepTied, (validHttps_iff.mp hv).1]
  · intro g l o hl _ hh hr hc
    simp only [clash, Bool.and_eq_true, beq_iff_eq] at hc
    have hf : l.fieldsOK = true := by
      unfold resolution at hr
      have := (resolveRef_ok hr).1
      cases hcert : l.cert with
      | none => simp [certRefOf, hcert] at this
      | some c => simp [ListenerT.fieldsOK, hcert]
    unfold keepTied
    simp only [Bool.or_eq_true, List.any_eq_true, Bool.and_eq_true, beq_iff_eq]
    exact Or.inr ⟨l, hl, ⟨hh, hf⟩, hc.1.2.symm⟩

/-! ### ports -/

theorem ssl_port_iff {s : ScenarioT} {gT : GatewayT} (hw : winnerT s = some gT) (p : Nat) :
    p ∈ (genT s).sslPorts ↔ ∃ l ∈ gT.listeners, validHttps s gT l = true ∧ l.base.port = p := by
  rw [genT_some hw, gen_httpsPart hw]
  simp only [List.mem_eraseDups, List.mem_map]
  constructor
  · rintro ⟨l0, hl0, rfl⟩
    obtain ⟨lT, h1, h2, rfl⟩ := mem_projGw_listeners hl0
    exact ⟨lT, h1, h2, rfl⟩
  · rintro ⟨l, hl, hv, rfl⟩
    refine ⟨l.base, ?_, rfl⟩
    simp only [projGw, List.mem_map, List.mem_filter]
    exact ⟨l, ⟨hl, hv⟩, rfl⟩

/-! ### SNI → certificate -/

theorem covers_trans {a n q : Tls.Host} (hn : n ≠ []) (h1 : Tls.covers a n = true) (h2 : Tls.covers n q = true) :
    Tls.covers a q = true := by
  rcases Tls.covers_iff.mp h1 with e | e | ⟨t, rfl, hs⟩
  · subst e; simp [Tls.covers]
  · subst e; exact h2
  · rcases Tls.covers_iff.mp h2 with e | e | ⟨t', rfl, hs'⟩
    · exact absurd e hn
    · subst e; exact Tls.covers_iff.mpr (Or.inr (Or.inr ⟨t, rfl, hs⟩))
    · have h3 := Tls.suffix_of_star hs
      exact Tls.covers_iff.mpr (Or.inr (Or.inr ⟨t, rfl, h3.trans hs'⟩))

theorem nameCovers_covers {n q : Pipeline.Str} (hc : n ≠ NGF.NginxEval.catchAll) (h : nameCovers n q = true) :
    Tls.covers n q = true := by
  unfold nameCovers at h
  simp only [Bool.or_eq_true, beq_iff_eq] at h
  rcases h with (h | h) | h
  · exact absurd h hc
  · subst h; simp [Tls.covers]
  · unfold NGF.NginxEval.wildCovers at h
    simp only [Bool.and_eq_true] at h
    have hw : Tls.isWild n = true := by
      rw [← isWild_eq]; exact h.1
    have hs := List.isSuffixOf_iff_suffix.mp h.2
    simp only [List.drop_one] at hs
    simp only [Tls.covers, hw, Bool.true_and, Bool.or_eq_true, decide_eq_true_eq, List.isSuffixOf_iff_suffix, List.drop_one]
    exact Or.inr hs

/-- the SSL server NGINX selects for an SNI name -/
theorem presented_some {c : ConfT} {p : Nat} {sni : Str} {kp : Option (List Char)}
    (hq : NGF.NginxEval.isWildName sni = false ∧ sni ≠ NGF.NginxEval.catchAll) (hlen : sni.length < 100000)
    (h : presented c p sni = some kp) (hk : kp ≠ none) :
    p ∈ c.sslPorts ∧ ∃ sv, (sv, kp) ∈ c.ssl ∧ sv.port = p ∧ nameCovers sv.name sni = true := by
  unfold presented at h
  by_cases hp : c.sslPorts.contains p = true
  · simp only [hp, Bool.not_true, Bool.false_eq_true, if_false] at h
    refine ⟨by simpa using hp, ?_⟩
    cases hsel : NGF.NginxEval.selectName ((c.ssl.filter (·.1.port == p)).map (·.1.name)) sni with
    | none => simp only [hsel] at h; cases h; exact absurd rfl hk
    | some n =>
      simp only [hsel] at h
      obtain ⟨_, hcov, _⟩ := selectName_most_specific hq hlen hsel
      cases hf : (c.ssl.filter (·.1.port == p)).find? (·.1.name == n) with
      | none => simp only [hf] at h; cases h; exact absurd rfl hk
      | some sv =>
        simp only [hf, Option.some.injEq] at h
        have hm := List.mem_of_find?_eq_some hf
        have hn := List.find?_some hf
        simp only [List.mem_filter, beq_iff_eq] at hm
        simp only [beq_iff_eq] at hn
        refine ⟨sv.1, ?_, hm.2, by rw [hn]; exact hcov⟩
        rw [← h]; exact hm.1
  · have hp' : p ∉ c.sslPorts := by simpa using hp
    simp at h
    exact absurd h.1 hp'

/-! ### the stateful port conflict resolver -/

/-- invariant of the resolver state after the listeners `done` were processed -/
structure PCInv (st : PCState) (done : List ListenerT) : Prop where
  owner : ∀ p, st.owner.lookup p = (done.find? (·.base.port == p)).map (·.https)
  conf : ∀ p, p ∈ st.conflictedPorts ↔ ∃ a ∈ done, ∃ b ∈ done, a.base.port = p ∧ b.base.port = p ∧ a.https ≠ b.https
  byPort : (∀ o ∈ done, o.base.port ∉ st.conflictedPorts → o ∈ st.byPort) ∧ (∀ o ∈ st.byPort, o ∈ done)
  invalid : ∀ o, o ∈ st.invalid ↔ o ∈ done ∧ o.base.port ∈ st.conflictedPorts

theorem find?_port_append (done : List ListenerT) (l : ListenerT) (p : Nat) :
    ((done ++ [l]).find? (·.base.port == p)) =
      ((done.find? (·.base.port == p)).or (if l.base.port == p then some l else none)) := by
  rw [List.find?_append]
  congr 1
  by_cases h : (l.base.port == p) = true <;> simp [List.find?, h]

theorem pcInv_step {st : PCState} {done : List ListenerT} (hi : PCInv st done) (l : ListenerT) :
    PCInv (pcStep st l) (done ++ [l]) := by
  obtain ⟨hA, hB, ⟨hC1, hC2⟩, hD⟩ := hi
  unfold pcStep
  by_cases hcp : st.conflictedPorts.contains l.base.port = true
  · -- the port is already conflicted
    have hcp' : l.base.port ∈ st.conflictedPorts := by simpa using hcp
    simp only [hcp, if_true]
    obtain ⟨a, ha, _, _, hap, _, _⟩ := (hB _).mp hcp'
    refine ⟨?_, ?_, ⟨?_, ?_⟩, ?_⟩
    · intro p
      rw [hA p, find?_port_append]
      by_cases hp : (l.base.port == p) = true
      · have hp' : l.base.port = p := by simpa using hp
        have : (done.find? (·.base.port == p)).isSome = true := by
          rw [List.find?_isSome]; exact ⟨a, ha, by simp [hap, hp']⟩
        cases hf : done.find? (·.base.port == p) with
        | none => rw [hf] at this; cases this
        | some x => simp
      · simp [hp]
    · intro p
      rw [hB p]
      constructor
      · rintro ⟨a, ha, b, hb, h1, h2, h3⟩
        exact ⟨a, List.mem_append_left _ ha, b, List.mem_append_left _ hb, h1, h2, h3⟩
      · rintro ⟨a, ha, b, hb, h1, h2, h3⟩
        rcases List.mem_append.mp ha with ha1 | ha1 <;> rcases List.mem_append.mp hb with hb1 | hb1
        · exact ⟨a, ha1, b, hb1, h1, h2, h3⟩
        · simp at hb1; subst hb1; rw [← h2]; exact (hB _).mp hcp'
        · simp at ha1; subst ha1; rw [← h1]; exact (hB _).mp hcp'
        · simp at ha1 hb1; subst ha1; subst hb1; exact absurd rfl h3
    · intro o ho hnc
      rcases List.mem_append.mp ho with ho | ho
      · exact hC1 o ho hnc
      · simp at ho; subst ho; exact absurd hcp' hnc
    · intro o ho; exact List.mem_append_left _ (hC2 o ho)
    · intro o
      simp only [List.mem_cons, List.mem_append, List.not_mem_nil, or_false, hD o]
      constructor
      · rintro (e | ⟨h1, h2⟩)
        · subst e; exact ⟨Or.inr rfl, hcp'⟩
        · exact ⟨Or.inl h1, h2⟩
      · rintro ⟨h1 | h1, h2⟩
        · exact Or.inr ⟨h1, h2⟩
        · exact Or.inl h1
  · have hcp' : l.base.port ∉ st.conflictedPorts := by simpa using hcp
    simp only [hcp]
    simp only [Bool.false_eq_true, if_false]
    -- listeners of the port seen so far share one protocol
    have hsame : ∀ a ∈ done, ∀ b ∈ done, a.base.port = l.base.port → b.base.port = l.base.port → a.https = b.https := by
      intro a ha b hb h1 h2
      apply Classical.byContradiction
      intro hne
      exact hcp' ((hB _).mpr ⟨a, ha, b, hb, h1, h2, hne⟩)
    cases hlk : st.owner.lookup l.base.port with
    | none =>
      -- the first listener of the port
      have hnone : done.find? (·.base.port == l.base.port) = none := by
        have := hA l.base.port; rw [hlk] at this
        cases hf : done.find? (·.base.port == l.base.port) with
        | none => rfl
        | some x => rw [hf] at this; cases this
      have hno : ∀ o ∈ done, o.base.port ≠ l.base.port := by
        intro o ho e
        have := List.find?_eq_none.mp hnone o ho
        simp [e] at this
      simp only
      refine ⟨?_, ?_, ⟨?_, ?_⟩, ?_⟩
      · intro p
        rw [find?_port_append]
        by_cases hp : (l.base.port == p) = true
        · have hp' : l.base.port = p := by simpa using hp
          subst hp'
          simp [List.lookup, hnone]
        · have hp' : ¬ l.base.port = p := by simpa using hp
          have hp2 : (p == l.base.port) = false := by simpa using fun e : p = l.base.port => hp' e.symm
          simp [List.lookup, hp2, hp, hA p]
      · intro p
        rw [hB p]
        constructor
        · rintro ⟨a, ha, b, hb, h1, h2, h3⟩
          exact ⟨a, List.mem_append_left _ ha, b, List.mem_append_left _ hb, h1, h2, h3⟩
        · rintro ⟨a, ha, b, hb, h1, h2, h3⟩
          rcases List.mem_append.mp ha with ha1 | ha1 <;> rcases List.mem_append.mp hb with hb1 | hb1
          · exact ⟨a, ha1, b, hb1, h1, h2, h3⟩
          · simp at hb1; subst hb1; exact absurd (h1.trans h2.symm) (hno a ha1)
          · simp at ha1; subst ha1; exact absurd (h2.trans h1.symm) (hno b hb1)
          · simp at ha1 hb1; subst ha1; subst hb1; exact absurd rfl h3
      · intro o ho hnc
        rcases List.mem_append.mp ho with ho | ho
        · exact List.mem_cons_of_mem _ (hC1 o ho hnc)
        · simp at ho; subst ho; exact List.mem_cons_self
      · intro o ho
        rcases List.mem_cons.mp ho with e | e
        · subst e; simp
        · exact List.mem_append_left _ (hC2 o e)
      · intro o
        rw [hD o]
        constructor
        · rintro ⟨h1, h2⟩; exact ⟨List.mem_append_left _ h1, h2⟩
        · rintro ⟨h1, h2⟩
          rcases List.mem_append.mp h1 with h1 | h1
          · exact ⟨h1, h2⟩
          · simp at h1; subst h1; exact absurd h2 hcp'
    | some grp =>
      -- the first listener `f` of the port decided the protocol group
      obtain ⟨f, hff⟩ : ∃ f, done.find? (·.base.port == l.base.port) = some f ∧ f.https = grp := by
        have := hA l.base.port; rw [hlk] at this
        cases hf : done.find? (·.base.port == l.base.port) with
        | none => rw [hf] at this; cases this
        | some x => rw [hf] at this; simp at this; exact ⟨x, rfl, this.symm⟩
      have hfm : f ∈ done := List.mem_of_find?_eq_some hff.1
      have hfp : f.base.port = l.base.port := by simpa using List.find?_some hff.1
      have hfind : ∀ p, ((done ++ [l]).find? (·.base.port == p)).map (·.https) = (done.find? (·.base.port == p)).map (·.https) := by
        intro p
        rw [find?_port_append]
        by_cases hp : (l.base.port == p) = true
        · have hp' : l.base.port = p := by simpa using hp
          subst hp'
          rw [hff.1]; simp
        · simp [hp]
      simp only
      by_cases hg : (grp != l.https) = true
      · -- the other protocol group: the port becomes conflicted
        have hne : f.https ≠ l.https := by rw [hff.2]; simpa using hg
        simp only [hg, if_true]
        refine ⟨?_, ?_, ⟨?_, ?_⟩, ?_⟩
        · intro p; rw [hfind p]; exact hA p
        · intro p
          simp only [List.mem_cons]
          constructor
          · rintro (e | h)
            · subst e
              exact ⟨f, List.mem_append_left _ hfm, l, by simp, hfp, rfl, hne⟩
            · obtain ⟨a, ha, b, hb, h1, h2, h3⟩ := (hB p).mp h
              exact ⟨a, List.mem_append_left _ ha, b, List.mem_append_left _ hb, h1, h2, h3⟩
          · rintro ⟨a, ha, b, hb, h1, h2, h3⟩
            rcases List.mem_append.mp ha with ha1 | ha1 <;> rcases List.mem_append.mp hb with hb1 | hb1
            · exact Or.inr ((hB p).mpr ⟨a, ha1, b, hb1, h1, h2, h3⟩)
            · simp at hb1; subst hb1; exact Or.inl h2.symm
            · simp at ha1; subst ha1; exact Or.inl h1.symm
            · simp at ha1 hb1; subst ha1; subst hb1; exact absurd rfl h3
        · intro o ho hnc
          simp only [List.mem_cons, not_or] at hnc
          rcases List.mem_append.mp ho with ho | ho
          · exact List.mem_cons_of_mem _ (hC1 o ho hnc.2)
          · simp at ho; subst ho; exact List.mem_cons_self
        · intro o ho
          rcases List.mem_cons.mp ho with e | e
          · subst e; simp
          · exact List.mem_append_left _ (hC2 o e)
        · intro o
          simp only [List.mem_cons, List.mem_append, List.mem_filter, List.not_mem_nil, or_false, beq_iff_eq, hD o]
          constructor
          · rintro (e | ⟨h1, h2⟩ | ⟨h1, h2⟩)
            · subst e; exact ⟨Or.inr rfl, Or.inl rfl⟩
            · exact ⟨Or.inl (hC2 o h1), Or.inl h2⟩
            · exact ⟨Or.inl h1, Or.inr h2⟩
          · rintro ⟨h1 | h1, h2⟩
            · rcases h2 with h2 | h2
              · by_cases hoc : o.base.port ∈ st.conflictedPorts
                · exact Or.inr (Or.inr ⟨h1, hoc⟩)
                · exact Or.inr (Or.inl ⟨hC1 o h1 hoc, h2⟩)
              · exact Or.inr (Or.inr ⟨h1, h2⟩)
            · exact Or.inl h1
      · -- the same protocol group
        have heq : f.https = l.https := by
          rw [hff.2]
          cases hx : (grp != l.https)
          · simpa using hx
          · exact absurd hx hg
        simp only [hg]
        simp only [Bool.false_eq_true, if_false]
        refine ⟨?_, ?_, ⟨?_, ?_⟩, ?_⟩
        · intro p; rw [hfind p]; exact hA p
        · intro p
          rw [hB p]
          constructor
          · rintro ⟨a, ha, b, hb, h1, h2, h3⟩
            exact ⟨a, List.mem_append_left _ ha, b, List.mem_append_left _ hb, h1, h2, h3⟩
          · rintro ⟨a, ha, b, hb, h1, h2, h3⟩
            rcases List.mem_append.mp ha with ha1 | ha1 <;> rcases List.mem_append.mp hb with hb1 | hb1
            · exact ⟨a, ha1, b, hb1, h1, h2, h3⟩
            · simp at hb1; subst hb1
              exact absurd ((hsame a ha1 f hfm (h1.trans h2.symm) hfp).trans heq) h3
            · simp at ha1; subst ha1
              exact absurd ((hsame b hb1 f hfm (h2.trans h1.symm) hfp).trans heq).symm h3
            · simp at ha1 hb1; subst ha1; subst hb1; exact absurd rfl h3
        · intro o ho hnc
          rcases List.mem_append.mp ho with ho | ho
          · exact List.mem_cons_of_mem _ (hC1 o ho hnc)
          · simp at ho; subst ho; exact List.mem_cons_self
        · intro o ho
          rcases List.mem_cons.mp ho with e | e
          · subst e; simp
          · exact List.mem_append_left _ (hC2 o e)
        · intro o
          rw [hD o]
          constructor
          · rintro ⟨h1, h2⟩; exact ⟨List.mem_append_left _ h1, h2⟩
          · rintro ⟨h1, h2⟩
            rcases List.mem_append.mp h1 with h1 | h1
            · exact ⟨h1, h2⟩
            · simp at h1; subst h1; exact absurd h2 hcp'

theorem pcInv_foldl (ls : List ListenerT) : ∀ (st : PCState) (done : List ListenerT), PCInv st done →
    PCInv (ls.foldl pcStep st) (done ++ ls) := by
  induction ls with
  | nil => intro st done h; simpa using h
  | cons l ls ih =>
    intro st done h
    have := ih (pcStep st l) (done ++ [l]) (pcInv_step h l)
    simpa using this

theorem pcInv_run (ls : List ListenerT) : PCInv (pcRun ls) (ls.filter (·.fieldsOK)) := by
  have h0 : PCInv {} [] := ⟨by intro p; rfl, by intro p; simp, ⟨by simp, by simp⟩, by intro o; simp⟩
  simpa [pcRun] using pcInv_foldl (ls.filter (·.fieldsOK)) {} [] h0

end NGF.PipelineTls
