/-
C09 — the flush parser of the judge (`chunksMatch`) accepts every permutation of the expected
per-group writes.  Used to show that the judge's sequential specification accepts what the proven
model does (so the judge is neither vacuous nor stricter than the theorems).
-/
import NGF.Model.LeaderJudge
import NGF.Proofs.Leader

namespace NGF.Leader

theorem latest_nonempty : ∀ (ops : List Op), ∀ w ∈ latest ops, w.2 ≠ []
  | [], w, h => by simp [latest] at h
  | .enable _ :: ops, w, h => latest_nonempty ops w (by simpa [latest] using h)
  | .update g r :: ops, w, h => by
    simp only [latest] at h
    split at h
    · exact latest_nonempty ops w h
    · next hc =>
      simp only [Bool.or_eq_true, not_or] at hc
      rcases List.mem_cons.1 h with h | h
      · subst h
        intro e
        simp only at e
        exact hc.2 (by simp [e])
      · exact latest_nonempty ops w h

theorem eq_of_nodup_map {α β : Type} (f : α → β) : ∀ {l : List α}, (l.map f).Nodup →
    ∀ {a b : α}, a ∈ l → b ∈ l → f a = f b → a = b
  | [], _, _, _, ha, _, _ => by simp at ha
  | c :: l, hd, a, b, ha, hb, e => by
    simp only [List.map_cons, List.nodup_cons, List.mem_map, not_exists, not_and] at hd
    rcases List.mem_cons.1 ha with ha' | ha'
    · rcases List.mem_cons.1 hb with hb' | hb'
      · rw [ha', hb']
      · subst ha'
        exact absurd e.symm (hd.1 b hb')
    · rcases List.mem_cons.1 hb with hb' | hb'
      · subst hb'
        exact absurd e (hd.1 a ha')
      · exact eq_of_nodup_map f hd.2 ha' hb' e

theorem chunksMatch_of_perm : ∀ (ws' ws : List Write) (n : Nat), ws'.Perm ws →
    (∀ w ∈ ws, w.2 ≠ []) → (ws.map (fun w => w.2.head?)).Nodup → ws.length < n →
    chunksMatch n ws ((ws'.map (·.2)).flatten) = true
  | [], ws, n, hp, _, _, _ => by
    have : ws = [] := List.Perm.eq_nil (hp.symm)
    subst this
    cases n <;> simp [chunksMatch]
  | x :: t, ws, n, hp, hne, hd, hn => by
    have hx : x ∈ ws := hp.subset (List.mem_cons_self)
    obtain ⟨w0, ws0, rfl⟩ : ∃ w0 ws0, ws = w0 :: ws0 := by
      cases ws with
      | nil => simp at hx
      | cons a b => exact ⟨a, b, rfl⟩
    obtain ⟨m, rfl⟩ : ∃ m, n = m + 1 := by
      cases n with
      | zero => simp at hn
      | succ m => exact ⟨m, rfl⟩
    obtain ⟨a, as, hxa⟩ : ∃ a as, x.2 = a :: as := by
      cases h : x.2 with
      | nil => exact absurd h (hne x hx)
      | cons a as => exact ⟨a, as, rfl⟩
    have hobs : ((x :: t).map (·.2)).flatten = a :: (as ++ (t.map (·.2)).flatten) := by
      simp [hxa]
    rw [hobs]
    simp only [chunksMatch]
    -- the chunk found by its first tag is `x`
    have hfind : ∃ y, (w0 :: ws0).find? (fun y => y.2.head? == some a) = some y := by
      cases hf : (w0 :: ws0).find? (fun y => y.2.head? == some a) with
      | some y => exact ⟨y, rfl⟩
      | none =>
        have := List.find?_eq_none.1 hf x hx
        simp [hxa] at this
    obtain ⟨y, hy⟩ := hfind
    have hyMem : y ∈ w0 :: ws0 := List.mem_of_find?_eq_some hy
    have hyHead : y.2.head? = some a := by
      have := List.find?_some hy
      simpa using this
    have hyx : y = x := by
      have hxHead : x.2.head? = some a := by simp [hxa]
      exact eq_of_nodup_map _ hd hyMem hx (hyHead.trans hxHead.symm)
    rw [hy]
    subst hyx
    have hpre : y.2.isPrefixOf (a :: (as ++ (t.map (·.2)).flatten)) = true := by
      rw [List.isPrefixOf_iff_prefix, ← List.cons_append, ← hxa]
      exact List.prefix_append _ _
    have hdrop : (a :: (as ++ (t.map (·.2)).flatten)).drop y.2.length = (t.map (·.2)).flatten := by
      rw [← List.cons_append, ← hxa, List.drop_left]
    simp only [hpre, hdrop, Bool.true_and]
    have hp' : t.Perm ((w0 :: ws0).erase y) := by
      have := hp.erase y
      simpa using this
    have hsub : ((w0 :: ws0).erase y).Sublist (w0 :: ws0) := List.erase_sublist
    refine chunksMatch_of_perm t _ m hp' (fun w hw => hne w (hsub.subset hw))
      (hd.sublist (hsub.map _)) ?_
    have := List.length_erase_of_mem hyMem
    simp only [List.length_cons] at hn this ⊢
    omega

end NGF.Leader
