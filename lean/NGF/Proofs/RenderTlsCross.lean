/-
Cross-half facts for `renderT`: an HTTP and an HTTPS listener never serve the same port (`PipelineTls.conflicted`), hence
the (listen, server_name) pairs of ALL server blocks of `renderT (genTR s …)` are pairwise distinct. Core Lean only.
-/
import NGF.Proofs.RenderTlsWF

namespace NGF.RenderTls
open NGF.Pipeline NGF.PipelineTls NGF.Render NGF.Nginx NGF.Mangle

theorem ports_disjoint {s : ScenarioT} {gT : GatewayT} (hw : winnerT s = some gT) {p : Nat}
    (h1 : p ∈ (gen (httpPart s)).ports) (h2 : p ∈ (gen (httpsPart s)).ports) : False := by
  rw [gen_httpPart hw] at h1
  rw [gen_httpsPart hw] at h2
  simp only [List.mem_eraseDups, List.mem_map, projGw, List.mem_filter] at h1 h2
  obtain ⟨_, ⟨l, ⟨hl, hv⟩, rfl⟩, hp1⟩ := h1
  obtain ⟨_, ⟨l', ⟨hl', hv'⟩, rfl⟩, hp2⟩ := h2
  obtain ⟨c, hc, _⟩ := valid_cert hv'
  unfold validHttp at hv
  unfold validHttps at hv'
  simp only [Bool.and_eq_true, Bool.not_eq_true', decide_eq_true_eq] at hv hv'
  have hcon := hv.2
  unfold conflicted at hcon
  rw [List.any_eq_false] at hcon
  have := hcon l' hl'
  have hf : l'.fieldsOK = true := by simp [ListenerT.fieldsOK, hc]
  simp [hf, hp1, hp2, hv.1, hv'.1.1] at this

theorem genR_server_port_mem (s : Scenario) (order : List Nat) :
    ∀ sv ∈ (genR s order).servers, sv.port ∈ (genR s order).dports.map (·.1) := by
  unfold genR
  cases winner s with
  | none => simp
  | some g =>
    intro sv hsv
    obtain ⟨ph, hph, rfl⟩ := List.mem_map.mp hsv
    simp only [List.map_map, Function.comp_def, List.map_id']
    exact hostsOf_port hph

theorem genR_dports_eq (s : Scenario) (order : List Nat) : (genR s order).dports.map (·.1) = (gen s).ports := by
  rw [← forget_genR s order]; rfl

/-- every SSL server and SSL default server of `genTR` listens on a port of the HTTPS projection -/
theorem ssl_ports_mem {s : ScenarioT} (order orderS : List Nat) :
    (∀ sv ∈ (genTR s order orderS).ssl, sv.port ∈ (gen (httpsPart s)).ports) ∧
    (∀ d ∈ (genTR s order orderS).sslDefaults, d.1 ∈ (gen (httpsPart s)).ports) := by
  unfold genTR
  cases hw : winnerT s with
  | none => simp
  | some gT =>
    refine ⟨?_, ?_⟩
    · intro sv hsv
      simp only [List.mem_append, List.mem_map] at hsv
      rcases hsv with ⟨rs, hrs, rfl⟩ | ⟨e, he, rfl⟩
      · rw [← genR_dports_eq _ orderS]; exact genR_server_port_mem _ _ rs hrs
      · simp only [listenerOnlyR, List.mem_map, List.mem_filter] at he
        obtain ⟨l, ⟨hl, _⟩, rfl⟩ := he
        rw [gen_httpsPart hw]
        simp only [List.mem_eraseDups, List.mem_map, projGw]
        exact ⟨l.base, ⟨l, hl, rfl⟩, rfl⟩
    · intro d hd
      simp only [List.mem_map] at hd
      obtain ⟨p, hp, rfl⟩ := hd
      rw [← genR_dports_eq _ orderS]
      exact List.mem_map.mpr hp

theorem serverDirs_pairs_perm (c : ConfR) : ((serverDirs c).flatMap srvPairs).Perm ((items c).flatMap pairsOf) := by
  refine ((serverDirs_perm c).flatMap_right srvPairs).trans ?_
  have e : ((serverItems c).map (·.2)).flatMap srvPairs = (items c).flatMap pairsOf := by
    simp only [serverItems, items, List.map_append, List.map_map, Function.comp_def, List.flatMap_append, List.flatMap_map,
      srvPairs_default, srvPairs_server]
  rw [e]

/-- the (listen, server_name) pairs of ALL server blocks of `renderT`: HTTP servers, SSL servers, default servers of
both kinds and the two unix-socket servers -/
theorem renderT_pairs_nodup {s : ScenarioT} (order orderS : List Nat) (hH : GoodConf (genR (httpPart s) order))
    (hS : GoodSslNames (genTR s order orderS)) :
    ((blocksNamed "server" (renderT (genTR s order orderS))).flatMap srvPairs).Nodup := by
  have ehttp : (genTR s order orderS).http = genR (httpPart s) order := by
    unfold genTR; cases winnerT s <;> rfl
  rw [servers_of_renderT, List.flatMap_append, List.flatMap_append, srvPairs_tail, ehttp]
  have hperm : ((serverDirs (genR (httpPart s) order)).flatMap srvPairs ++ (sslDirs (genTR s order orderS)).flatMap srvPairs).Perm
      ((items (genR (httpPart s) order) ++ sslPairItems (genTR s order orderS)).flatMap pairsOf) := by
    rw [List.flatMap_append]
    exact (serverDirs_pairs_perm _).append (sslPairs_perm _)
  rw [(hperm.append_right _).nodup_iff, List.nodup_append]
  refine ⟨pairsOf_nodup ?_, by simp only [List.nodup_cons, List.mem_singleton, Prod.mk.injEq, and_true, List.not_mem_nil,
      not_false_eq_true, List.nodup_nil]; decide, ?_⟩
  · rw [List.nodup_append]
    refine ⟨items_nodup hH, sslPairItems_nodup hS, ?_⟩
    intro a ha b hb e
    -- the port of `a` is an HTTP port, the port of `b` an HTTPS port
    have h1 : a.1 ∈ (gen (httpPart s)).ports := by
      rw [← genR_dports_eq _ order]
      unfold items at ha
      rcases List.mem_append.mp ha with ha | ha
      · obtain ⟨d, hd, rfl⟩ := List.mem_map.mp ha
        exact List.mem_map.mpr ⟨d, hd, rfl⟩
      · obtain ⟨sv, hsv, rfl⟩ := List.mem_map.mp ha
        exact genR_server_port_mem _ _ sv hsv
    have h2 : b.1 ∈ (gen (httpsPart s)).ports := by
      unfold sslPairItems at hb
      rcases List.mem_append.mp hb with hb | hb
      · obtain ⟨d, hd, rfl⟩ := List.mem_map.mp hb
        exact (ssl_ports_mem order orderS).2 d hd
      · obtain ⟨sv, hsv, rfl⟩ := List.mem_map.mp hb
        exact (ssl_ports_mem order orderS).1 sv hsv
    cases hw : winnerT s with
    | none =>
      have : (genTR s order orderS).ssl = [] ∧ (genTR s order orderS).sslDefaults = [] := by
        unfold genTR; rw [hw]; exact ⟨rfl, rfl⟩
      unfold sslPairItems at hb
      rw [this.1, this.2] at hb
      simp at hb
    | some gT => exact ports_disjoint hw h1 (e ▸ h2)
  · intro x hx y hy e
    obtain ⟨u, pn, _, rfl⟩ := mem_pairsOf_flatMap hx
    subst e
    simp only [List.mem_cons, List.mem_nil_iff, or_false, Prod.mk.injEq] at hy
    rcases hy with hy | hy
    · exact lk_ne_sock503 _ _ hy.1
    · exact lk_ne_sock500 _ _ hy.1

end NGF.RenderTls
