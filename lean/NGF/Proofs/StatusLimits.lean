/-
C08 — helper lemmas for the CRD limits: DeduplicateConditions, ancestor-full checks, entry counts.
-/
import NGF.Model.StatusLimits
import NGF.Proofs.StatusWrite

namespace NGF.StatusWrite

/-! ### DeduplicateConditions -/

theorem keepFirst_spec : ∀ (cs : List Cond) (seen : List String),
    ((keepFirst seen cs).map (·.type)).Nodup ∧
    (∀ c ∈ keepFirst seen cs, c.type ∉ seen ∧ c ∈ cs)
  | [], _ => by simp [keepFirst]
  | c :: cs, seen => by
    unfold keepFirst
    split
    · obtain ⟨h1, h2⟩ := keepFirst_spec cs seen
      exact ⟨h1, fun x hx => ⟨(h2 x hx).1, List.mem_cons_of_mem _ (h2 x hx).2⟩⟩
    · rename_i hns
      obtain ⟨h1, h2⟩ := keepFirst_spec cs (c.type :: seen)
      have hns' : c.type ∉ seen := by simpa using hns
      refine ⟨?_, ?_⟩
      · simp only [List.map_cons, List.nodup_cons, List.mem_map, not_exists, not_and]
        refine ⟨fun x hx heq => ?_, h1⟩
        have := (h2 x hx).1
        simp [heq] at this
      · intro x hx
        rcases List.mem_cons.1 hx with rfl | hx
        · exact ⟨hns', List.mem_cons_self ..⟩
        · have := h2 x hx
          exact ⟨fun h => this.1 (List.mem_cons_of_mem _ h), List.mem_cons_of_mem _ this.2⟩

/-- every type that occurs in the input survives -/
theorem keepFirst_complete : ∀ (cs : List Cond) (seen : List String) (c : Cond), c ∈ cs → c.type ∉ seen →
    ∃ d ∈ keepFirst seen cs, d.type = c.type
  | [], _, _, h, _ => by simp at h
  | x :: cs, seen, c, h, hns => by
    unfold keepFirst
    split
    · rename_i hs
      rcases List.mem_cons.1 h with rfl | h
      · exact absurd (by simpa using hs) hns
      · exact keepFirst_complete cs seen c h hns
    · rcases List.mem_cons.1 h with rfl | h
      · exact ⟨c, List.mem_cons_self .., rfl⟩
      · by_cases hx : c.type = x.type
        · exact ⟨x, List.mem_cons_self .., hx.symm⟩
        · obtain ⟨d, hd, hdt⟩ := keepFirst_complete cs (x.type :: seen) c h
            (by simp only [List.mem_cons, not_or]; exact ⟨hx, hns⟩)
          exact ⟨d, List.mem_cons_of_mem _ hd, hdt⟩

theorem dedup_types_nodup (cs : List Cond) : ((dedup cs).map (·.type)).Nodup := by
  unfold dedup
  rw [List.map_reverse]
  exact (List.reverse_perm _).nodup_iff.2 (keepFirst_spec cs.reverse []).1

theorem dedup_subset (cs : List Cond) : ∀ c ∈ dedup cs, c ∈ cs := by
  intro c hc
  unfold dedup at hc
  have := ((keepFirst_spec cs.reverse []).2 c (List.mem_reverse.1 hc)).2
  exact List.mem_reverse.1 this

theorem dedup_complete (cs : List Cond) : ∀ c ∈ cs, ∃ d ∈ dedup cs, d.type = c.type := by
  intro c hc
  obtain ⟨d, hd, hdt⟩ := keepFirst_complete cs.reverse [] c (List.mem_reverse.2 hc) (by simp)
  exact ⟨d, by unfold dedup; exact List.mem_reverse.2 hd, hdt⟩

/-- a de-duplicated list is no longer than any list containing all the types that may occur -/
theorem dedup_length_le (cs : List Cond) (T : List String) (h : ∀ c ∈ cs, c.type ∈ T) :
    (dedup cs).length ≤ T.length := by
  have := List.Nodup.length_le_of_subset (dedup_types_nodup cs) (l₂ := T) (by
    intro t ht
    obtain ⟨c, hc, rfl⟩ := List.mem_map.1 ht
    exact h c (dedup_subset cs c hc))
  simpa using this

theorem hasDupTypes_false_iff : ∀ cs : List Cond, hasDupTypes cs = false ↔ (cs.map (·.type)).Nodup
  | [] => by simp [hasDupTypes]
  | c :: cs => by
    simp only [hasDupTypes, Bool.or_eq_false_iff, List.map_cons, List.nodup_cons,
      hasDupTypes_false_iff cs, List.mem_map, not_exists, not_and]
    constructor
    · rintro ⟨h1, h2⟩
      refine ⟨fun x hx heq => ?_, h2⟩
      have : (cs.any fun d => d.type == c.type) = true := List.any_eq_true.2 ⟨x, hx, by simp [heq]⟩
      rw [h1] at this; exact absurd this (by simp)
    · rintro ⟨h1, h2⟩
      refine ⟨?_, h2⟩
      cases hany : cs.any fun d => d.type == c.type with
      | false => rfl
      | true =>
        obtain ⟨x, hx, hxe⟩ := List.any_eq_true.1 hany
        exact absurd (by simpa using hxe) (h1 x hx)

/-! ### ancestor-full checks -/

theorem ngfAttach_length (maxA : Nat) (c : String) (cur : Status) : ∀ (ts acc : List Entry),
    (ngfAttach maxA c cur ts acc).length + (foreign c cur).length ≤
      max (acc.length + (foreign c cur).length) maxA
  | [], acc => by simp [ngfAttach]; omega
  | t :: ts, acc => by
    unfold ngfAttach
    split
    · exact ngfAttach_length maxA c cur ts acc
    · rename_i hfull
      have hlt : (foreign c cur).length + acc.length < maxA := by
        simpa [ngfFull] using hfull
      have := ngfAttach_length maxA c cur ts (acc ++ [t])
      simp only [List.length_append, List.length_cons, List.length_nil] at this
      omega

theorem ngfAttach_allOwn (maxA : Nat) (c : String) (cur : Status) : ∀ (ts acc : List Entry),
    (∀ e ∈ ts, e.ctlr = c) → (∀ e ∈ acc, e.ctlr = c) → ∀ e ∈ ngfAttach maxA c cur ts acc, e.ctlr = c
  | [], acc, _, ha => by simpa [ngfAttach] using ha
  | t :: ts, acc, ht, ha => by
    unfold ngfAttach
    split
    · exact ngfAttach_allOwn maxA c cur ts acc (fun e he => ht e (List.mem_cons_of_mem _ he)) ha
    · refine ngfAttach_allOwn maxA c cur ts (acc ++ [t]) (fun e he => ht e (List.mem_cons_of_mem _ he)) ?_
      intro e he
      rcases List.mem_append.1 he with he | he
      · exact ha e he
      · simp at he; rw [he]; exact ht t (List.mem_cons_self ..)

theorem foreign_length_le (c : String) (l : Status) : (foreign c l).length ≤ l.length := by
  unfold foreign; exact List.length_filter_le _ _

theorem btp_room (maxA : Nat) (c : String) (cur : Status) (hfull : btpFull maxA c cur = false)
    (hlen : cur.length ≤ maxA) : (foreign c cur).length + 1 ≤ maxA := by
  unfold btpFull at hfull
  split at hfull
  · have := foreign_length_le c cur; omega
  · simp only [Bool.not_eq_false', List.any_eq_true, beq_iff_eq] at hfull
    obtain ⟨e, he, hc⟩ := hfull
    have : (foreign c cur).length < cur.length := by
      unfold foreign
      apply List.length_filter_lt_length_iff_exists.2
      exact ⟨e, he, by simp [hc]⟩
    omega

theorem merged_length {s : Setter} (hm : Merging s) (prev : Status) :
    (merged s prev).length = s.cap.length + (foreign s.ctlr prev).length := by
  unfold merged
  cases h : s.kind.mode with
  | whole => exact absurd h hm
  | ownFirst => simp
  | foreignFirst => simp [Nat.add_comm]

end NGF.StatusWrite
