/-
C16 helper lemmas: which listener's key pair an SSL server presents (`buildSSLServers`), for all inputs.
Core Lean only.
-/
import NGF.Model.TlsBind

namespace NGF.Tls

/-- listener hostname `l` covers server name `h`: no hostname, the same name, or a wildcard whose suffix `h` has -/
def covers (l h : Host) : Bool := l = [] || l = h || (isWild l && (l.drop 1).isSuffixOf h)

/-- specificity of a listener hostname among those covering one server name:
none < wildcard (more labels = more specific) < exact -/
def rank (l : Host) : Nat := if l = [] then 0 else if isWild l then 1 + dots l else 2 + dots l

/-! ### strings -/

theorem isWild_iff {a : Host} : isWild a = true ↔ ∃ t, a = '*' :: '.' :: t := by
  constructor
  · intro h
    unfold isWild at h
    split at h
    · exact ⟨_, rfl⟩
    · simp at h
  · rintro ⟨t, rfl⟩; rfl

theorem dots_star (x : Host) : dots ('*' :: x) = dots x := by
  simp [dots]

theorem dots_suffix_le {x y : Host} (h : y <:+ x) : dots y ≤ dots x :=
  h.sublist.count_le _

/-- a suffix starting with a dot, of a list starting with a dot, with at least as many dots, is the whole list -/
theorem dot_suffix_eq {x y : Host} (h : ('.' :: y) <:+ ('.' :: x)) (hd : dots ('.' :: x) ≤ dots ('.' :: y)) :
    ('.' :: y : Host) = '.' :: x := by
  obtain ⟨u, hu⟩ := h
  cases u with
  | nil => simpa using hu
  | cons c u' =>
    have hc : c = '.' := by
      have := congrArg List.head? hu
      simpa using this
    subst hc
    have hcount : dots ('.' :: x) = dots ('.' :: u') + dots ('.' :: y) := by
      rw [← hu]; simp [dots, List.count_append]; omega
    have : dots ('.' :: u') ≥ 1 := by simp [dots]
    omega

theorem suffix_of_star {x y : Host} (h : ('.' :: y) <:+ ('*' :: x)) : ('.' :: y) <:+ x := by
  rcases List.suffix_cons_iff.mp h with h | h
  · simp at h
  · exact h

theorem covers_iff {l h : Host} :
    covers l h = true ↔ l = [] ∨ l = h ∨ ∃ t, l = '*' :: '.' :: t ∧ ('.' :: t) <:+ h := by
  unfold covers
  simp only [Bool.or_eq_true, Bool.and_eq_true, decide_eq_true_eq, List.isSuffixOf_iff_suffix]
  constructor
  · rintro ((h | h) | ⟨hw, hs⟩)
    · exact Or.inl h
    · exact Or.inr (Or.inl h)
    · obtain ⟨t, rfl⟩ := isWild_iff.mp hw
      exact Or.inr (Or.inr ⟨t, rfl, by simpa using hs⟩)
  · rintro (h | h | ⟨t, rfl, hs⟩)
    · exact Or.inl (Or.inl h)
    · exact Or.inl (Or.inr h)
    · exact Or.inr ⟨rfl, by simpa using hs⟩

/-- two different wildcard hostnames covering one name have different numbers of labels -/
theorem wild_dots_ne {a b h : Host} (ha : covers a h = true) (hb : covers b h = true)
    (wa : isWild a = true) (wb : isWild b = true) (hne : a ≠ b) : dots a ≠ dots b := by
  obtain ⟨ta, rfl⟩ := isWild_iff.mp wa
  obtain ⟨tb, rfl⟩ := isWild_iff.mp wb
  intro hd
  rw [dots_star, dots_star] at hd
  have key : ∀ {s t : Host}, ('.' :: s) <:+ ('.' :: t) → dots ('.' :: t) = dots ('.' :: s) → s = t := by
    intro s t hs he
    have := dot_suffix_eq hs (by omega)
    simpa using this
  rcases covers_iff.mp ha with h1 | h1 | ⟨t1, h1, s1⟩
  · simp at h1
  · rcases covers_iff.mp hb with h2 | h2 | ⟨t2, h2, s2⟩
    · simp at h2
    · exact hne (h1.trans h2.symm)
    · simp at h2; subst h2
      rw [← h1] at s2
      have := key (suffix_of_star s2) hd
      exact hne (by rw [this])
  · simp at h1; subst h1
    rcases covers_iff.mp hb with h2 | h2 | ⟨t2, h2, s2⟩
    · simp at h2
    · rw [← h2] at s1
      have := key (suffix_of_star s1) hd.symm
      exact hne (by rw [this])
    · simp at h2; subst h2
      rcases List.suffix_or_suffix_of_suffix s1 s2 with h3 | h3
      · have := key h3 hd.symm
        exact hne (by rw [this])
      · have := key h3 hd
        exact hne (by rw [this])

/-- a hostname covering `h` is at most as specific as `h` itself -/
theorem covers_rank_le {a h : Host} (ha : covers a h = true) (hh : h ≠ []) : rank a ≤ rank h := by
  rcases covers_iff.mp ha with h1 | h1 | ⟨t, rfl, s⟩
  · subst h1; simp [rank]
  · subst h1; exact Nat.le_refl _
  · have hd : dots ('*' :: '.' :: t) ≤ dots h := by
      rw [dots_star]; exact dots_suffix_le s
    have r1 : rank ('*' :: '.' :: t) = 1 + dots ('*' :: '.' :: t) := by simp [rank, isWild]
    rw [r1]
    by_cases wh : isWild h = true
    · have rh : rank h = 1 + dots h := by simp [rank, hh, wh]
      omega
    · have rh : rank h = 2 + dots h := by simp [rank, hh, wh]
      omega

/-- `listenerHostnameMoreSpecific a b` holds exactly when `a` is at least as specific as `b`
(for hostnames covering one server name) -/
theorem lms_iff_rank {a b h : Host} (ha : covers a h = true) (hb : covers b h = true) :
    lms a b = true ↔ rank b ≤ rank a := by
  unfold lms
  simp only [decide_eq_true_eq]
  by_cases hab : a = b
  · subst hab; simp [moreSpecific]
  by_cases ha0 : a = []
  · subst ha0
    have : rank b ≥ 1 := by
      unfold rank; simp only [Ne.symm hab, if_false]; split <;> omega
    have hb' : b ≠ [] := Ne.symm hab
    have hms : moreSpecific [] b = b := by simp [moreSpecific, hab]
    have r0 : rank ([] : Host) = 0 := by simp [rank]
    rw [hms, r0]
    constructor
    · intro h; exact absurd h hb'
    · intro h; omega
  by_cases hb0 : b = []
  · subst hb0
    have hms : moreSpecific a [] = a := by simp [moreSpecific, hab, ha0]
    have r0 : rank ([] : Host) = 0 := by simp [rank]
    rw [hms, r0]; simp
  by_cases wa : isWild a = true
  · by_cases wb : isWild b = true
    · have hne := wild_dots_ne ha hb wa wb hab
      simp only [moreSpecific, hab, ha0, hb0, wa, wb, if_true, if_false, rank]
      by_cases hgt : dots a > dots b
      · simp [hgt]; omega
      · simp only [hgt, if_false]
        constructor
        · intro h; exact absurd h.symm hab
        · intro h; omega
    · -- b is an exact name, hence b = h
      have hbh : b = h := by
        rcases covers_iff.mp hb with h1 | h1 | ⟨t, h1, _⟩
        · exact absurd h1 hb0
        · exact h1
        · subst h1; simp [isWild] at wb
      subst hbh
      have hle := covers_rank_le ha hb0
      have rb : rank b = 2 + dots b := by simp [rank, hb0, wb]
      have ra : rank a = 1 + dots a := by simp [rank, ha0, wa]
      have hda : dots a ≤ dots b := by
        rcases covers_iff.mp ha with h1 | h1 | ⟨t, rfl, s⟩
        · exact absurd h1 ha0
        · exact absurd h1 hab
        · rw [dots_star]; exact dots_suffix_le s
      simp only [moreSpecific, hab, ha0, hb0, wa, wb, if_true, if_false]
      constructor
      · intro h; exact absurd h.symm hab
      · intro h; omega
  · -- a is an exact name, hence a = h
    have hah : a = h := by
      rcases covers_iff.mp ha with h1 | h1 | ⟨t, h1, _⟩
      · exact absurd h1 ha0
      · exact h1
      · subst h1; simp [isWild] at wa
    subst hah
    by_cases wb : isWild b = true
    · have := covers_rank_le hb ha0
      simp [moreSpecific, hab, ha0, hb0, wa, wb, this]
    · have hbh : b = a := by
        rcases covers_iff.mp hb with h1 | h1 | ⟨t, h1, _⟩
        · exact absurd h1 hb0
        · exact h1
        · subst h1; simp [isWild] at wb
      exact absurd hbh.symm hab

/-! ### accepted hostnames are covered by the listener hostname -/

theorem moreSpecific_mem (a b : Host) : moreSpecific a b = a ∨ moreSpecific a b = b ∨ moreSpecific a b = [] := by
  unfold moreSpecific
  repeat' split
  all_goals simp_all

theorem wildcardMatch_iff {a b : Host} :
    wildcardMatch a b = true ↔ ∃ t, a = '*' :: '.' :: t ∧ ('.' :: t) <:+ b := by
  unfold wildcardMatch
  simp only [Bool.and_eq_true, List.isSuffixOf_iff_suffix]
  constructor
  · rintro ⟨hw, hs⟩
    obtain ⟨t, rfl⟩ := isWild_iff.mp hw
    exact ⟨t, rfl, by simpa using hs⟩
  · rintro ⟨t, rfl, hs⟩
    exact ⟨rfl, by simpa using hs⟩

theorem accepted_covers (l : Host) (rs : List Host) (h : Host) (hm : h ∈ findAccepted l rs) :
    covers l h = true := by
  unfold findAccepted at hm
  by_cases he : rs.isEmpty = true
  · simp only [he, if_true] at hm
    by_cases hl : l = []
    · simp [covers, hl]
    · simp only [hl, if_false, List.mem_singleton] at hm
      simp [covers, hm]
  · simp only [he] at hm
    simp only [Bool.false_eq_true, if_false, List.mem_map, List.mem_filter] at hm
    obtain ⟨r, ⟨_, hmatch⟩, rfl⟩ := hm
    by_cases hl : l = []
    · simp [covers, hl]
    by_cases hrl : r = l
    · subst hrl; simp [moreSpecific, covers]
    have hlr : l ≠ r := fun e => hrl e.symm
    simp only [hostMatch, hl, hrl, decide_false, Bool.false_or, Bool.or_eq_true] at hmatch
    rcases hmatch with hw | hw
    · -- the listener is a wildcard and the route hostname ends with its suffix
      obtain ⟨t, rfl, hs⟩ := wildcardMatch_iff.mp hw
      have hcov : covers ('*' :: '.' :: t) r = true := covers_iff.mpr (Or.inr (Or.inr ⟨t, rfl, hs⟩))
      have hr0 : r ≠ [] := by
        rintro rfl; simp at hs
      rcases moreSpecific_mem ('*' :: '.' :: t) r with h1 | h1 | h1
      · rw [h1]; simp [covers]
      · rw [h1]; exact hcov
      · exfalso
        simp only [moreSpecific, hlr, hl, hr0, if_false, isWild, if_true] at h1
        repeat' split at h1
        all_goals simp_all
    · -- the route hostname is a wildcard and the listener hostname ends with its suffix
      obtain ⟨t, rfl, hs⟩ := wildcardMatch_iff.mp hw
      by_cases wl : isWild l = true
      · obtain ⟨tl, rfl⟩ := isWild_iff.mp wl
        have hs' := suffix_of_star hs
        simp only [moreSpecific, hlr, hl, if_false, isWild, if_true, List.cons_ne_nil]
        by_cases hgt : dots ('*' :: '.' :: tl) > dots ('*' :: '.' :: t)
        · simp [hgt, covers]
        · exfalso
          rw [dots_star, dots_star] at hgt
          have := dot_suffix_eq hs' (by omega)
          simp at this
          exact hlr (by rw [this])
      · have wr : isWild ('*' :: '.' :: t) = true := rfl
        have : moreSpecific l ('*' :: '.' :: t) = l := by
          simp [moreSpecific, hlr, hl, wl, wr]
        rw [this]; simp [covers]

/-! ### the `listenersForHost` map -/

def look : List (Host × Listener) → Host → Option Listener
  | [], _ => none
  | (k, p) :: rest, h => if k = h then some p else look rest h

def keys (m : List (Host × Listener)) : List Host := m.map (·.1)

theorem look_upsert (m : List (Host × Listener)) (h : Host) (l : Listener) (h' : Host) :
    look (upsertHost m h l) h' =
      if h' = h then
        (match look m h with
         | none => some l
         | some p => if lms l.host p.host then some l else some p)
      else look m h' := by
  induction m with
  | nil =>
    by_cases e : h' = h
    · subst e; simp [upsertHost, look]
    · have : h ≠ h' := fun x => e x.symm
      simp [upsertHost, look, e, this]
  | cons kp rest ih =>
    obtain ⟨k, p⟩ := kp
    by_cases hk : k = h
    · subst hk
      by_cases e : h' = k
      · subst e
        by_cases hl : lms l.host p.host = true <;> simp [upsertHost, look, hl]
      · have e' : k ≠ h' := fun x => e x.symm
        by_cases hl : lms l.host p.host = true <;> simp [upsertHost, look, hl, e, e']
    · by_cases e : h' = h
      · subst e
        simp [upsertHost, look, hk, ih]
      · by_cases e2 : k = h'
        · simp [upsertHost, look, hk, e, e2]
        · simp [upsertHost, look, hk, e, e2, ih]

theorem keys_upsert (m : List (Host × Listener)) (h : Host) (l : Listener) :
    keys (upsertHost m h l) = if h ∈ keys m then keys m else keys m ++ [h] := by
  induction m with
  | nil => simp [upsertHost, keys]
  | cons kp rest ih =>
    obtain ⟨k, p⟩ := kp
    by_cases hk : k = h
    · subst hk
      by_cases hl : lms l.host p.host = true <;> simp [upsertHost, keys, hl]
    · have hk' : h ≠ k := fun x => hk x.symm
      have e1 : keys (upsertHost ((k, p) :: rest) h l) = k :: keys (upsertHost rest h l) := by
        simp [upsertHost, hk, keys]
      have e2 : keys ((k, p) :: rest) = k :: keys rest := rfl
      rw [e1, e2, ih]
      by_cases hm : h ∈ keys rest
      · simp [hm]
      · simp [hm, hk']

theorem nodup_upsert (m : List (Host × Listener)) (h : Host) (l : Listener) (hn : (keys m).Nodup) :
    (keys (upsertHost m h l)).Nodup := by
  rw [keys_upsert]
  split
  · exact hn
  · rename_i hnot
    rw [List.nodup_append]
    refine ⟨hn, by simp, ?_⟩
    intro a ha b hb
    simp at hb; subst hb
    intro e; subst e; exact hnot ha

theorem look_of_mem {m : List (Host × Listener)} (hn : (keys m).Nodup) {h : Host} {w : Listener}
    (hm : (h, w) ∈ m) : look m h = some w := by
  induction m with
  | nil => simp at hm
  | cons kp rest ih =>
    obtain ⟨k, p⟩ := kp
    simp only [keys, List.map_cons, List.nodup_cons] at hn
    rcases List.mem_cons.mp hm with e | e
    · simp at e; obtain ⟨rfl, rfl⟩ := e; simp [look]
    · have : k ≠ h := by
        intro x; subst x
        exact hn.1 (List.mem_map.mpr ⟨(k, w), e, rfl⟩)
      simp only [look, this, if_false]
      exact ih hn.2 e

/-- pairs (listener, accepted hostname) in the order they are upserted -/
def pairsOf (ls : List Listener) : List (Listener × Host) := ls.flatMap fun l => l.accepted.map fun h => (l, h)

def stepPair (m : List (Host × Listener)) (q : Listener × Host) : List (Host × Listener) := upsertHost m q.2 q.1

theorem upsertHosts_eq (m : List (Host × Listener)) (l : Listener) (hs : List Host) :
    upsertHosts m l hs = (hs.map fun h => (l, h)).foldl stepPair m := by
  induction hs generalizing m with
  | nil => rfl
  | cons h hs ih => simp [upsertHosts, ih, stepPair]

theorem listenersForHost_eq (m : List (Host × Listener)) (ls : List Listener) :
    listenersForHost m ls = (pairsOf ls).foldl stepPair m := by
  induction ls generalizing m with
  | nil => rfl
  | cons l ls ih => simp [listenersForHost, pairsOf, List.foldl_append, upsertHosts_eq, ih]

theorem mem_pairsOf {ls : List Listener} {l : Listener} {h : Host} :
    (l, h) ∈ pairsOf ls ↔ l ∈ ls ∧ h ∈ l.accepted := by
  simp only [pairsOf, List.mem_flatMap, List.mem_map]
  constructor
  · rintro ⟨l', hl', h', hh', e⟩
    simp at e; obtain ⟨rfl, rfl⟩ := e
    exact ⟨hl', hh'⟩
  · rintro ⟨hl, hh⟩
    exact ⟨l, hl, h, hh, rfl⟩

/-- invariant of the fold: each entry is the (last) most specific listener among the processed pairs of its
hostname, and every processed hostname has an entry -/
def Inv (m : List (Host × Listener)) (P : List (Listener × Host)) : Prop :=
  (keys m).Nodup ∧
  (∀ h w, look m h = some w → (w, h) ∈ P ∧ ∀ l, (l, h) ∈ P → rank l.host ≤ rank w.host) ∧
  (∀ l h, (l, h) ∈ P → look m h ≠ none)

theorem inv_step {m : List (Host × Listener)} {P : List (Listener × Host)} (l : Listener) (h : Host)
    (hi : Inv m P) (hcov : ∀ q ∈ P ++ [(l, h)], covers q.1.host q.2 = true) :
    Inv (upsertHost m h l) (P ++ [(l, h)]) := by
  obtain ⟨hn, hmax, hall⟩ := hi
  refine ⟨nodup_upsert m h l hn, ?_, ?_⟩
  · intro h' w hw
    rw [look_upsert] at hw
    by_cases e : h' = h
    · subst e
      simp only [if_true] at hw
      have hcl : covers l.host h' = true := hcov (l, h') (by simp)
      cases hlk : look m h' with
      | none =>
        simp only [hlk] at hw
        have : w = l := by simpa using hw.symm
        subst this
        refine ⟨by simp, ?_⟩
        intro l' hl'
        rcases List.mem_append.mp hl' with hp | hp
        · exact absurd hlk (hall l' h' hp)
        · simp at hp; rw [hp]; exact Nat.le_refl _
      | some p =>
        simp only [hlk] at hw
        obtain ⟨hpP, hpmax⟩ := hmax h' p hlk
        have hcp : covers p.host h' = true := hcov (p, h') (List.mem_append_left _ hpP)
        have hiff := lms_iff_rank hcl hcp
        by_cases hl : lms l.host p.host = true
        · simp only [hl, if_true] at hw
          have : w = l := by simpa using hw.symm
          subst this
          have hle := hiff.mp hl
          refine ⟨by simp, ?_⟩
          intro l' hl'
          rcases List.mem_append.mp hl' with hp | hp
          · exact Nat.le_trans (hpmax l' hp) hle
          · simp at hp; rw [hp]; exact Nat.le_refl _
        · simp only [hl] at hw
          have : w = p := by simpa using hw.symm
          subst this
          have hlt : ¬ rank w.host ≤ rank l.host := fun x => hl (hiff.mpr x)
          refine ⟨List.mem_append_left _ hpP, ?_⟩
          intro l' hl'
          rcases List.mem_append.mp hl' with hp | hp
          · exact hpmax l' hp
          · simp at hp; rw [hp]; omega
    · simp only [e, if_false] at hw
      obtain ⟨hpP, hpmax⟩ := hmax h' w hw
      refine ⟨List.mem_append_left _ hpP, ?_⟩
      intro l' hl'
      rcases List.mem_append.mp hl' with hp | hp
      · exact hpmax l' hp
      · simp at hp; exact absurd hp.2 e
  · intro l' h' hl'
    rw [look_upsert]
    by_cases e : h' = h
    · subst e
      simp only [if_true]
      cases look m h' with
      | none => simp
      | some p => simp only; split <;> simp
    · simp only [e, if_false]
      rcases List.mem_append.mp hl' with hp | hp
      · exact hall l' h' hp
      · simp at hp; exact absurd hp.2 e

theorem inv_fold (Q : List (Listener × Host)) {m : List (Host × Listener)} {P : List (Listener × Host)}
    (hi : Inv m P) (hcov : ∀ q ∈ P ++ Q, covers q.1.host q.2 = true) :
    Inv (Q.foldl stepPair m) (P ++ Q) := by
  induction Q generalizing m P with
  | nil => simpa using hi
  | cons q Q ih =>
    obtain ⟨l, h⟩ := q
    have h1 : Inv (upsertHost m h l) (P ++ [(l, h)]) :=
      inv_step l h hi (fun q hq => hcov q (by
        rcases List.mem_append.mp hq with x | x
        · exact List.mem_append_left _ x
        · exact List.mem_append_right _ (by simp at x; simp [x])))
    have h2 := ih h1 (by simpa using hcov)
    simpa [stepPair] using h2

theorem inv_listenersForHost (ls : List Listener) : Inv (listenersForHost [] ls) (pairsOf ls) := by
  rw [listenersForHost_eq]
  have h0 : Inv [] [] := ⟨by simp [keys], by simp [look], by simp⟩
  have := inv_fold (pairsOf ls) h0 (by
    intro q hq
    simp only [List.nil_append] at hq
    obtain ⟨l, h⟩ := q
    obtain ⟨_, hh⟩ := mem_pairsOf.mp hq
    simp only [Listener.accepted, List.mem_flatten, List.mem_map] at hh
    obtain ⟨acc, ⟨rs, _, rfl⟩, hin⟩ := hh
    exact accepted_covers l.host rs h hin)
  simpa using this

/-! ### servers -/

theorem buildServersPort_port (p : Nat) (ls : List Listener) (s : Server) (hs : s ∈ buildServersPort p ls) :
    s.port = p := by
  simp only [buildServersPort, List.mem_append, List.mem_map, List.mem_filter] at hs
  rcases hs with (⟨x, _, rfl⟩ | ⟨l, _, rfl⟩) | hs
  · rfl
  · rfl
  · split at hs <;> simp at hs
    subst hs; rfl

theorem buildServersPort_owner (p : Nat) (ls : List Listener) (s : Server)
    (hs : s ∈ buildServersPort p ls) (hnd : s.isDefault = false) :
    ∃ l ∈ ls, s.keyPair = some (keyPairId l.secret) ∧
      ((s.host ∈ l.accepted ∧ covers l.host s.host = true ∧
          ∀ l' ∈ ls, s.host ∈ l'.accepted → rank l'.host ≤ rank l.host)
       ∨ (s.host = listenerServerName l.host ∧ (l.nroutes = 0 ∨ listenerServerName l.host = wildcardHostname))) := by
  simp only [buildServersPort, List.mem_append, List.mem_map, List.mem_filter] at hs
  rcases hs with (⟨⟨h, w⟩, hm, rfl⟩ | ⟨l, ⟨hl, hc⟩, rfl⟩) | hs
  · obtain ⟨hn, hmax, _⟩ := inv_listenersForHost ls
    have hlk := look_of_mem hn hm
    obtain ⟨hP, hle⟩ := hmax h w hlk
    obtain ⟨hw, hacc⟩ := mem_pairsOf.mp hP
    refine ⟨w, hw, rfl, Or.inl ⟨hacc, ?_, ?_⟩⟩
    · simp only [Listener.accepted, List.mem_flatten, List.mem_map] at hacc
      obtain ⟨acc, ⟨rs, _, rfl⟩, hin⟩ := hacc
      exact accepted_covers w.host rs h hin
    · intro l' hl' hacc'
      exact hle l' (mem_pairsOf.mpr ⟨hl', hacc'⟩)
  · refine ⟨l, hl, rfl, Or.inr ⟨rfl, ?_⟩⟩
    simpa using hc
  · split at hs <;> simp at hs
    subst hs; simp at hnd

theorem mem_buildSSLServers {ls : List Listener} {s : Server} (hs : s ∈ buildSSLServers ls) :
    s ∈ buildServersPort s.port ((sslListeners ls).filter (·.port = s.port)) := by
  simp only [buildSSLServers, List.mem_flatten, List.mem_map] at hs
  obtain ⟨srv, ⟨p, _, rfl⟩, hin⟩ := hs
  have := buildServersPort_port p _ s hin
  subst this
  exact hin

theorem ssl_server_owner (ls : List Listener) (s : Server)
    (hs : s ∈ buildSSLServers ls) (hnd : s.isDefault = false) :
    ∃ l ∈ ls, l.valid = true ∧ l.port = s.port ∧ s.keyPair = some (keyPairId l.secret) ∧
      ((s.host ∈ l.accepted ∧ covers l.host s.host = true ∧
          ∀ l' ∈ ls, l'.valid = true → l'.port = s.port → s.host ∈ l'.accepted → rank l'.host ≤ rank l.host)
       ∨ (s.host = listenerServerName l.host ∧ (l.nroutes = 0 ∨ listenerServerName l.host = wildcardHostname))) := by
  obtain ⟨l, hl, hk, hcase⟩ := buildServersPort_owner s.port _ s (mem_buildSSLServers hs) hnd
  simp only [sslListeners, List.mem_filter, decide_eq_true_eq] at hl
  refine ⟨l, hl.1.1, hl.1.2, hl.2, hk, ?_⟩
  rcases hcase with ⟨ha, hc, hmax⟩ | hc
  · refine Or.inl ⟨ha, hc, ?_⟩
    intro l' hl' hv hp hacc
    exact hmax l' (by simp [sslListeners, hl', hv, hp]) hacc
  · exact Or.inr hc

theorem ssl_default_no_keypair (ls : List Listener) (s : Server)
    (hs : s ∈ buildSSLServers ls) (hd : s.isDefault = true) : s.keyPair = none := by
  have hs' := mem_buildSSLServers hs
  simp only [buildServersPort, List.mem_append, List.mem_map, List.mem_filter] at hs'
  rcases hs' with (⟨x, _, hx⟩ | ⟨l, _, hx⟩) | hs'
  · rw [← hx] at hd; simp at hd
  · rw [← hx] at hd; simp at hd
  · split at hs' <;> simp at hs'
    rw [hs']

theorem ssl_server_spec_owner (ls : List Listener) (s : Server)
    (hs : s ∈ buildSSLServers ls) (hnd : s.isDefault = false) (o : Listener)
    (_ho : o ∈ ls) (hov : o.valid = true) (hop : o.port = s.port) (hoc : covers o.host s.host = true)
    (homax : ∀ l' ∈ ls, l'.valid = true → l'.port = s.port → covers l'.host s.host = true → rank l'.host ≤ rank o.host)
    (hacc : s.host ∈ o.accepted) (hwf : o.host ≠ wildcardHostname)
    (huniq : ∀ l ∈ ls, l.valid = true → l.port = s.port → rank l.host = rank o.host →
       covers l.host s.host = true → l.secret = o.secret) :
    s.keyPair = some (keyPairId o.secret) := by
  obtain ⟨l, hl, hv, hp, hk, hcase⟩ := ssl_server_owner ls s hs hnd
  rcases hcase with ⟨_, hc, hmax⟩ | ⟨hname, _⟩
  · have h1 := hmax o _ho hov hop hacc
    have h2 := homax l hl hv hp hc
    rw [hk, huniq l hl hv hp (by omega) hc]
  · -- the server generated for listener `l` itself: `o` has a route accepting that very name
    have hc : covers l.host s.host = true := by
      rw [hname]; unfold listenerServerName covers
      by_cases e : l.host = [] <;> simp [e]
    have h2 := homax l hl hv hp hc
    have h1 : rank o.host ≤ rank l.host := by
      by_cases e : l.host = []
      · -- s.host = "~^": only a listener without hostname (or literally named "~^") covers it
        rw [hname] at hoc
        simp only [listenerServerName, e, if_true] at hoc
        rcases covers_iff.mp hoc with h3 | h3 | ⟨t, _, s3⟩
        · simp [rank, h3]
        · exact absurd h3 hwf
        · exfalso
          have := s3.length_le
          simp [wildcardHostname] at this
          have hh : ∀ x y : Char, ('.' :: t) <:+ [x, y] → x ≠ '.' → y ≠ '.' → False := by
            intro x y hsuf hx hy
            rcases List.suffix_cons_iff.mp hsuf with h4 | h4
            · simp at h4; exact hx h4.1.symm
            · rcases List.suffix_cons_iff.mp h4 with h5 | h5
              · simp at h5; exact hy h5.1.symm
              · simp at h5
          exact hh '~' '^' s3 (by decide) (by decide)
      · have : s.host = l.host := by rw [hname]; simp [listenerServerName, e]
        rw [this] at hoc
        exact covers_rank_le hoc e
    rw [hk, huniq l hl hv hp (by omega) hc]

end NGF.Tls
