/-
C14 on the pipeline fragment model (Model/Pipeline.lean): helper lemmas for "the generated configuration does not depend
on the arrival order / map iteration order of GatewayClasses, Gateways and HTTPRoutes".

  §1  `olderGw` is a strict total order on Gateways with distinct (namespace, name); `oldest` is its minimum
  §2  `entries` / `hostsOf` under a permutation of the routes: a permutation, and the restriction to every
      `higherPriority`-equivalence class is unchanged (the rules of ONE route keep their order)
  §3  the location scheme as a function of the SET of path keys (`locsOfKeys`)
  §4  `serverOf` under such a change of the entries; `Conf.equiv`
  §5  NGINX (`selectName`, `selectLoc`, `nginxEvalConf`) cannot tell equivalent well-formed configurations apart
  §6  `gen` produces well-formed configurations (distinct server names per port, distinct (modifier, path) per server)
Property theorems: NGF/Props/C14Pipeline.lean.
-/
import NGF.Model.Pipeline
import NGF.Proofs.Sort
import NGF.Proofs.Precedence
import NGF.Proofs.NginxEval
import NGF.Proofs.ListPerm

namespace NGF.Pipeline
open NGF.ListPerm

/-! ### §1 the order on Gateways -/

theorem bytes_inj {a b : Str} (h : bytes a = bytes b) : a = b := by
  unfold bytes at h
  exact (List.map_inj_right (fun x y e => Char.toNat_inj.mp e)).mp h

theorem olderGw_irrefl (a : Gateway) : olderGw a a = false := by
  simp [olderGw, Precedence.lexLt_irrefl]

theorem olderGw_tri (a b : Gateway) :
    olderGw a b = true ∨ (a.age = b.age ∧ a.ns = b.ns ∧ a.name = b.name) ∨ olderGw b a = true := by
  unfold olderGw
  by_cases hage : a.age = b.age
  · by_cases hns : a.ns = b.ns
    · rcases Precedence.lexLt_tri (bytes a.name) (bytes b.name) with t | t | t
      · left; simp [hage, hns, t]
      · right; left; exact ⟨hage, hns, bytes_inj t⟩
      · right; right; simp [hage, hns, t]
    · have hns' : ¬ b.ns = a.ns := fun e => hns e.symm
      rcases Precedence.lexLt_tri (bytes a.ns) (bytes b.ns) with t | t | t
      · left; simp [hage, hns, t]
      · exact absurd (bytes_inj t) hns
      · right; right; simp [hage, hns', t]
  · have hage' : ¬ b.age = a.age := fun e => hage e.symm
    by_cases hlt : a.age < b.age
    · left; simp [hage, hlt]
    · right; right
      have : b.age < a.age := by omega
      simp [hage', this]

theorem olderGw_trans {a b c : Gateway} (h1 : olderGw a b = true) (h2 : olderGw b c = true) : olderGw a c = true := by
  unfold olderGw at *
  by_cases e1 : a.age = b.age
  · by_cases e2 : b.age = c.age
    · have e3 : a.age = c.age := e1.trans e2
      simp only [e1, beq_self_eq_true, ↓reduceIte] at h1
      simp only [e2, beq_self_eq_true, ↓reduceIte] at h2
      simp only [e3, beq_self_eq_true, ↓reduceIte]
      by_cases n1 : a.ns = b.ns
      · by_cases n2 : b.ns = c.ns
        · simp only [n1, n2, beq_self_eq_true, ↓reduceIte] at h1 h2 ⊢
          exact Precedence.lexLt_trans _ _ _ h1 h2
        · have n3 : ¬ a.ns = c.ns := by rw [n1]; exact n2
          simp only [n1, beq_self_eq_true, ↓reduceIte] at h1
          simp only [n1, beq_iff_eq, n2, ↓reduceIte] at h2 ⊢
          exact h2
      · by_cases n2 : b.ns = c.ns
        · have n3 : ¬ a.ns = c.ns := by rw [← n2]; exact n1
          simp only [beq_iff_eq, n1, ↓reduceIte] at h1
          simp only [n2, beq_self_eq_true, ↓reduceIte] at h2
          simp only [beq_iff_eq, n3, ↓reduceIte]
          rw [← n2]; exact h1
        · simp only [beq_iff_eq, n1, n2, ↓reduceIte] at h1 h2
          have h3 := Precedence.lexLt_trans _ _ _ h1 h2
          have n3 : ¬ a.ns = c.ns := by
            intro e; rw [e, Precedence.lexLt_irrefl] at h3; cases h3
          simp only [beq_iff_eq, n3, ↓reduceIte]
          exact h3
    · simp only [beq_iff_eq, e2, ↓reduceIte, decide_eq_true_eq] at h2
      have : ¬ a.age = c.age := by omega
      simp only [beq_iff_eq, this, ↓reduceIte, decide_eq_true_eq]; omega
  · simp only [beq_iff_eq, e1, ↓reduceIte, decide_eq_true_eq] at h1
    by_cases e2 : b.age = c.age
    · have : ¬ a.age = c.age := by omega
      simp only [beq_iff_eq, this, ↓reduceIte, decide_eq_true_eq]; omega
    · simp only [beq_iff_eq, e2, ↓reduceIte, decide_eq_true_eq] at h2
      have : ¬ a.age = c.age := by omega
      simp only [beq_iff_eq, this, ↓reduceIte, decide_eq_true_eq]; omega

theorem olderGw_asymm {a b : Gateway} (h : olderGw a b = true) : olderGw b a = false := by
  cases hh : olderGw b a with
  | false => rfl
  | true => have := olderGw_trans h hh; rw [olderGw_irrefl] at this; cases this

/-- `olderGw` is a strict weak order (the requirement of Go's `sort.Slice` on `less`) -/
theorem olderGw_swo : NGF.Sort.SWO olderGw where
  asymm := fun _ _ h => olderGw_asymm h
  negtrans := by
    intro a b c hac
    rcases olderGw_tri a b with h | h | h
    · exact Or.inl h
    · right
      -- a and b agree on everything `olderGw` reads
      have : olderGw b c = olderGw a c := by
        unfold olderGw; rw [h.1, h.2.1, h.2.2]
      rw [this]; exact hac
    · exact Or.inr (olderGw_trans h hac)

/-- Gateways of the list have distinct (namespace, name) — stated as "the key determines the object" -/
def KeyInj (l : List Gateway) : Prop := ∀ a ∈ l, ∀ b ∈ l, a.ns = b.ns → a.name = b.name → a = b

instance (l : List Gateway) : Decidable (KeyInj l) := by unfold KeyInj; exact inferInstance

theorem KeyInj.perm {l l' : List Gateway} (h : KeyInj l) (hp : l.Perm l') : KeyInj l' :=
  fun a ha b hb => h a (hp.mem_iff.mpr ha) b (hp.mem_iff.mpr hb)

theorem KeyInj.sub {l l' : List Gateway} (h : KeyInj l) (hs : ∀ a ∈ l', a ∈ l) : KeyInj l' :=
  fun a ha b hb => h a (hs a ha) b (hs b hb)

theorem oldest_none {l : List Gateway} : oldest l = none ↔ l = [] := by
  cases l with
  | nil => simp [oldest]
  | cons g gs =>
    simp only [oldest, reduceCtorEq, iff_false]
    cases oldest gs with
    | none => simp
    | some b => by_cases h : olderGw b g = true <;> simp [h]

/-- `oldest` returns a member that precedes every other member -/
theorem oldest_spec : ∀ {l : List Gateway} {m : Gateway}, KeyInj l → oldest l = some m →
    m ∈ l ∧ ∀ x ∈ l, x = m ∨ olderGw m x = true
  | [], _, _, h => by simp [oldest] at h
  | g :: gs, m, hk, h => by
    unfold oldest at h
    cases ho : oldest gs with
    | none =>
      rw [ho] at h
      simp only [Option.some.injEq] at h; subst h
      have : gs = [] := oldest_none.mp ho
      subst this
      exact ⟨List.mem_cons_self, fun x hx => Or.inl (by simpa using hx)⟩
    | some b =>
      rw [ho] at h
      have hk' : KeyInj gs := hk.sub fun a ha => List.mem_cons_of_mem _ ha
      obtain ⟨hb, hmin⟩ := oldest_spec hk' ho
      by_cases hbg : olderGw b g = true
      · simp only [hbg, ↓reduceIte, Option.some.injEq] at h; subst h
        refine ⟨List.mem_cons_of_mem _ hb, ?_⟩
        intro x hx
        rcases List.mem_cons.mp hx with e | e
        · subst e; exact Or.inr hbg
        · exact hmin x e
      · simp only [hbg, Bool.false_eq_true, ↓reduceIte, Option.some.injEq] at h; subst h
        refine ⟨List.mem_cons_self, ?_⟩
        intro x hx
        rcases List.mem_cons.mp hx with e | e
        · exact Or.inl e
        · -- b = g or g older than b; x = b or b older than x
          have hgb : b = g ∨ olderGw g b = true := by
            rcases olderGw_tri b g with t | t | t
            · exact absurd t hbg
            · exact Or.inl (hk b (List.mem_cons_of_mem _ hb) g List.mem_cons_self t.2.1 t.2.2)
            · exact Or.inr t
          rcases hmin x e with e1 | e1
          · rcases hgb with e2 | e2
            · left; rw [e1, e2]
            · right; rw [e1]; exact e2
          · rcases hgb with e2 | e2
            · right; rw [← e2]; exact e1
            · right; exact olderGw_trans e2 e1

/-- the minimum of a list with distinct keys does not depend on the order of the list -/
theorem oldest_perm {l l' : List Gateway} (hp : l.Perm l') (hk : KeyInj l) : oldest l = oldest l' := by
  cases h : oldest l with
  | none =>
    have : l = [] := oldest_none.mp h
    subst this
    have : l' = [] := hp.symm.eq_nil
    subst this; rfl
  | some m =>
    cases h' : oldest l' with
    | none =>
      have : l' = [] := oldest_none.mp h'
      subst this
      have : l = [] := hp.eq_nil
      subst this; simp [oldest] at h
    | some m' =>
      obtain ⟨hm, hmin⟩ := oldest_spec hk h
      obtain ⟨hm', hmin'⟩ := oldest_spec (hk.perm hp) h'
      rcases hmin m' (hp.mem_iff.mpr hm') with e | e
      · rw [e]
      · rcases hmin' m (hp.mem_iff.mp hm) with e' | e'
        · rw [e']
        · rw [olderGw_asymm e] at e'; cases e'

theorem classOurs_perm {s s' : Scenario} (hc : s'.cls = s.cls) (hct : s'.ctlr = s.ctlr)
    (hcl : s.classes.Perm s'.classes) : classOurs s' = classOurs s := by
  unfold classOurs; rw [hc, hct]; exact hcl.symm.any_eq

/-! ### §2 entries and host list under a permutation of the routes -/

/-- the relation `sortMatchRules` sorts by, on entries -/
def entryLe (a b : Entry) : Bool := Precedence.le a.key b.key

theorem sortEntries_eq (es : List Entry) : sortEntries es = es.mergeSort entryLe := rfl

theorem entryLe_trans (a b c : Entry) : entryLe a b = true → entryLe b c = true → entryLe a c = true :=
  Precedence.le_trans' a.key b.key c.key

theorem entryLe_total (a b : Entry) : (entryLe a b || entryLe b a) = true := Precedence.le_total' a.key b.key

theorem lessMeta_both_false {a b : Precedence.MatchKey} (h1 : Precedence.lessMeta a b = false)
    (h2 : Precedence.lessMeta b a = false) : a.age = b.age ∧ a.ns = b.ns ∧ a.name = b.name := by
  unfold Precedence.lessMeta at h1 h2
  by_cases hage : a.age = b.age
  · by_cases hns : a.ns = b.ns
    · simp only [hage, hns, beq_self_eq_true, ↓reduceIte] at h1 h2
      rcases Precedence.lexLt_tri a.name b.name with t | t | t
      · rw [t] at h1; cases h1
      · exact ⟨hage, hns, t⟩
      · rw [t] at h2; cases h2
    · have hns' : ¬ b.ns = a.ns := fun e => hns e.symm
      simp only [hage, beq_self_eq_true, ↓reduceIte, beq_iff_eq, hns, hns'] at h1 h2
      rcases Precedence.lexLt_tri a.ns b.ns with t | t | t
      · rw [t] at h1; cases h1
      · exact absurd t hns
      · rw [t] at h2; cases h2
  · have hage' : ¬ b.age = a.age := fun e => hage e.symm
    simp only [beq_iff_eq, hage, hage', ↓reduceIte, decide_eq_false_iff_not] at h1 h2
    omega

/-- Ties of `higherPriority` occur only between match rules of one source object: equivalent keys carry the same
(creationTimestamp, namespace, name) -/
theorem key_equiv_same_source {a b : Precedence.MatchKey} (h1 : Precedence.le a b = true)
    (h2 : Precedence.le b a = true) : a.age = b.age ∧ a.ns = b.ns ∧ a.name = b.name := by
  unfold Precedence.le at h1 h2
  simp only [Bool.not_eq_true'] at h1 h2
  unfold Precedence.higherPriority at h1 h2
  cases hma : a.hasMethod <;> cases hmb : b.hasMethod <;> simp only [hma, hmb] at h1 h2 <;>
    simp only [Bool.and_false, Bool.and_true, Bool.not_false, Bool.not_true,
      Bool.false_eq_true, ↓reduceIte, reduceCtorEq] at h1 h2
  all_goals
    by_cases hh : a.nHeaders = b.nHeaders
    · by_cases hq : a.nQuery = b.nQuery
      · simp only [hh, hq, bne_self_eq_false, Bool.false_eq_true, ↓reduceIte] at h1 h2
        exact lessMeta_both_false h2 h1
      · have hq' : ¬ b.nQuery = a.nQuery := fun e => hq e.symm
        simp only [hh, bne_self_eq_false, Bool.false_eq_true, ↓reduceIte, bne_iff_ne, ne_eq, hq, hq',
          not_false_eq_true, decide_eq_false_iff_not] at h1 h2
        omega
    · have hh' : ¬ b.nHeaders = a.nHeaders := fun e => hh e.symm
      simp only [bne_iff_ne, ne_eq, hh, hh', not_false_eq_true, ↓reduceIte, decide_eq_false_iff_not] at h1 h2
      omega

/-- what one route contributes at one listener -/
def perListener (g : Gateway) (l : Listener) (r : Route) : List Entry :=
  if r.valid then routeEntries l.port (acceptedAt g l r) r else []

theorem entries_eq (g : Gateway) (routes : List Route) :
    entries g routes = g.listeners.flatMap fun l => routes.flatMap (perListener g l) := rfl

theorem mem_routeEntries_src {port : Nat} {hosts : List Str} {r : Route} {e : Entry}
    (he : e ∈ routeEntries port hosts r) : e.key.ns = bytes r.ns ∧ e.key.name = bytes r.name := by
  unfold routeEntries at he
  obtain ⟨rule, _, he⟩ := List.mem_flatMap.mp he
  obtain ⟨h, _, he⟩ := List.mem_flatMap.mp he
  obtain ⟨m, _, he⟩ := List.mem_map.mp he
  subst he
  exact ⟨rfl, rfl⟩

theorem mem_perListener_src {g : Gateway} {l : Listener} {r : Route} {e : Entry}
    (he : e ∈ perListener g l r) : e.key.ns = bytes r.ns ∧ e.key.name = bytes r.name := by
  unfold perListener at he
  by_cases hv : r.valid = true
  · simp only [hv, ↓reduceIte] at he; exact mem_routeEntries_src he
  · simp [hv] at he

/-- routes have distinct (namespace, name) -/
def RouteKeysNodup (routes : List Route) : Prop := (routes.map fun r => (r.ns, r.name)).Nodup

theorem entries_perm (g : Gateway) {routes routes' : List Route} (hp : routes.Perm routes') :
    (entries g routes).Perm (entries g routes') := by
  rw [entries_eq, entries_eq]
  exact flatMap_perm_congr fun l _ => hp.flatMap_right _

theorem flatMap_congr_on {α β} {l : List α} {f g : α → List β} (h : ∀ a ∈ l, f a = g a) :
    l.flatMap f = l.flatMap g := by
  induction l with
  | nil => rfl
  | cons x xs ih =>
    simp only [List.flatMap_cons]
    rw [h x List.mem_cons_self, ih (fun a ha => h a (List.mem_cons_of_mem _ ha))]

/-- A permutation of the routes does not change the restriction of the entry list to any equivalence class of the
sort order: a class holds entries of ONE route only (route keys are distinct), and those keep their
(listener, rule, hostname, match) order. -/
theorem entries_class (g : Gateway) {routes routes' : List Route} (hp : routes.Perm routes')
    (hn : RouteKeysNodup routes) (a : Entry) :
    (entries g routes).filter (NGF.Sort.equivB entryLe a) = (entries g routes').filter (NGF.Sort.equivB entryLe a) := by
  rw [entries_eq, entries_eq, List.filter_flatMap, List.filter_flatMap]
  apply flatMap_congr_on
  intro l _
  rw [List.filter_flatMap, List.filter_flatMap]
  apply flatMap_eq_of_perm_of_at_most_one hp
  intro r1 h1 r2 h2 n1 n2
  obtain ⟨e1, he1⟩ := List.exists_mem_of_ne_nil _ n1
  obtain ⟨e2, he2⟩ := List.exists_mem_of_ne_nil _ n2
  have m1 := List.mem_filter.mp he1
  have m2 := List.mem_filter.mp he2
  have s1 := mem_perListener_src m1.1
  have s2 := mem_perListener_src m2.1
  have q1 : a.key.ns = e1.key.ns ∧ a.key.name = e1.key.name := by
    have := m1.2; unfold NGF.Sort.equivB entryLe at this
    simp only [Bool.and_eq_true] at this
    exact (key_equiv_same_source this.1 this.2).2
  have q2 : a.key.ns = e2.key.ns ∧ a.key.name = e2.key.name := by
    have := m2.2; unfold NGF.Sort.equivB entryLe at this
    simp only [Bool.and_eq_true] at this
    exact (key_equiv_same_source this.1 this.2).2
  have ens : r1.ns = r2.ns := bytes_inj (by rw [← s1.1, ← s2.1, ← q1.1, ← q2.1])
  have ename : r1.name = r2.name := bytes_inj (by rw [← s1.2, ← s2.2, ← q1.2, ← q2.2])
  exact inj_of_nodup_map hn r1 h1 r2 h2 (by simp [ens, ename])

theorem hostsOf_perm (g : Gateway) {routes routes' : List Route} (hp : routes.Perm routes') :
    (hostsOf g routes).Perm (hostsOf g routes') := by
  unfold hostsOf
  apply eraseDups_perm
  exact flatMap_perm_congr fun l _ => hp.flatMap_right _

theorem hostsOf_nodup (g : Gateway) (routes : List Route) : (hostsOf g routes).Nodup := nodup_eraseDups _

/-! ### §3 the location scheme as a function of the set of path keys -/

/-- (type, path) of a path rule → the `PathRule` of Model/Precedence -/
def ruleOfKey (k : Bool × Str) : Precedence.PathRule := ⟨k.2, !k.1⟩

def tagLoc (keys : List (Bool × Str)) (act : Bool × Str → LocAct) (gl : Precedence.GenLoc) : CLoc :=
  match keys[gl.rule]? with
  | some k => { exact := gl.exact, path := gl.path, act := act k }
  | none => { exact := gl.exact, path := gl.path, act := .direct (.status 404) }

/-- the locations of one server, given the path keys in map order and the action of each key -/
def locsOfKeys (keys : List (Bool × Str)) (act : Bool × Str → LocAct) : List CLoc :=
  (Precedence.genLocs (keys.map ruleOfKey)).map (tagLoc keys act)

def mineOf (es : List Entry) (port : Nat) (h : Str) : List Entry := es.filter fun e => e.port == port && e.host == h

def keysOf (es : List Entry) (port : Nat) (h : Str) : List (Bool × Str) := ((mineOf es port h).map pathKey).eraseDups

def actOfKey (es : List Entry) (port : Nat) (h : Str) (k : Bool × Str) : LocAct :=
  ruleAct port (sortEntries ((mineOf es port h).filter fun e => pathKey e == k))

theorem serverOf_eq (es : List Entry) (port : Nat) (h : Str) :
    serverOf es port h = { port := port, name := h, locs := locsOfKeys (keysOf es port h) (actOfKey es port h) } := rfl

/-- the locations one path key produces -/
def keyLocs (rules : List Precedence.PathRule) (act : Bool × Str → LocAct) (k : Bool × Str) : List CLoc :=
  (Precedence.extLocs rules 0 (ruleOfKey k)).map fun gl => { exact := gl.exact, path := gl.path, act := act k }

def defaultLoc (rules : List Precedence.PathRule) : List CLoc :=
  if rules.any (fun r => r.path == ['/']) then [] else [{ exact := false, path := ['/'], act := .direct (.status 404) }]

theorem extLocs_rule' (rules : List Precedence.PathRule) (i : Nat) (r : Precedence.PathRule) :
    ∀ gl ∈ Precedence.extLocs rules i r, gl.rule = i := by
  unfold Precedence.extLocs
  cases hP : (r.isPrefix && !Precedence.endsSlash r.path) <;> cases hE : Precedence.hasExact rules r.path <;>
    cases hS : Precedence.hasPrefix rules (r.path ++ ['/']) <;> simp

theorem extLocs_rule {rules : List Precedence.PathRule} {i : Nat} {r : Precedence.PathRule} {gl : Precedence.GenLoc}
    (h : gl ∈ Precedence.extLocs rules i r) : gl.rule = i := extLocs_rule' rules i r gl h

theorem extLocs_shape {γ} (rules : List Precedence.PathRule) (i : Nat) (r : Precedence.PathRule) (F : Bool → Str → γ) :
    (Precedence.extLocs rules i r).map (fun gl => F gl.exact gl.path) =
      (Precedence.extLocs rules 0 r).map (fun gl => F gl.exact gl.path) := by
  unfold Precedence.extLocs
  cases hP : (r.isPrefix && !Precedence.endsSlash r.path) <;> cases hE : Precedence.hasExact rules r.path <;>
    cases hS : Precedence.hasPrefix rules (r.path ++ ['/']) <;> simp

theorem extLocsFrom_tagged (rules : List Precedence.PathRule) (act : Bool × Str → LocAct) :
    ∀ (ks pre : List (Bool × Str)),
      (Precedence.extLocsFrom rules pre.length (ks.map ruleOfKey)).map (tagLoc (pre ++ ks) act) =
        ks.flatMap (keyLocs rules act)
  | [], pre => by simp [Precedence.extLocsFrom]
  | k :: ks, pre => by
    simp only [List.map_cons, Precedence.extLocsFrom, List.map_append, List.flatMap_cons]
    congr 1
    · unfold keyLocs
      rw [← extLocs_shape rules pre.length (ruleOfKey k) (fun e p => ({ exact := e, path := p, act := act k } : CLoc))]
      apply List.map_congr_left
      intro gl hgl
      have := extLocs_rule hgl
      unfold tagLoc
      rw [this]
      simp
    · have := extLocsFrom_tagged rules act ks (pre ++ [k])
      simp only [List.length_append, List.length_cons, List.length_nil, Nat.zero_add, List.append_assoc,
        List.cons_append, List.nil_append] at this
      exact this

theorem locsOfKeys_flat (keys : List (Bool × Str)) (act : Bool × Str → LocAct) :
    locsOfKeys keys act = keys.flatMap (keyLocs (keys.map ruleOfKey) act) ++ defaultLoc (keys.map ruleOfKey) := by
  unfold locsOfKeys Precedence.genLocs
  rw [List.map_append]
  congr 1
  · have := extLocsFrom_tagged (keys.map ruleOfKey) act keys []
    simpa using this
  · unfold defaultLoc
    by_cases h : (keys.map ruleOfKey).any (fun r => r.path == ['/']) = true
    · simp only [h, ↓reduceIte, List.map_nil]
    · simp only [h, Bool.false_eq_true, ↓reduceIte, List.map_cons, List.map_nil, tagLoc, List.length_map]
      simp

theorem extLocs_perm_rules {rules rules' : List Precedence.PathRule} (hp : rules.Perm rules') (i : Nat)
    (r : Precedence.PathRule) : Precedence.extLocs rules i r = Precedence.extLocs rules' i r := by
  unfold Precedence.extLocs Precedence.hasExact Precedence.hasPrefix
  simp only [hp.any_eq]

/-- the locations of a server depend on the path keys only up to a permutation -/
theorem locsOfKeys_perm {keys keys' : List (Bool × Str)} (hp : keys.Perm keys') (act : Bool × Str → LocAct) :
    (locsOfKeys keys act).Perm (locsOfKeys keys' act) := by
  rw [locsOfKeys_flat, locsOfKeys_flat]
  have hr : (keys.map ruleOfKey).Perm (keys'.map ruleOfKey) := hp.map _
  have hk : keyLocs (keys.map ruleOfKey) act = keyLocs (keys'.map ruleOfKey) act := by
    funext k; unfold keyLocs; rw [extLocs_perm_rules hr]
  have hd : defaultLoc (keys.map ruleOfKey) = defaultLoc (keys'.map ruleOfKey) := by
    unfold defaultLoc; rw [hr.any_eq]
  rw [hk, hd]
  exact (hp.flatMap_right _).append_right _

/-! ### §4 one server, and the whole configuration, up to order -/

/-- two entry lists that a stable sort by `higherPriority` cannot tell apart once they are grouped by (port, host, path) -/
structure SameUpToTies (es es' : List Entry) : Prop where
  perm : es.Perm es'
  cls : ∀ a, es.filter (NGF.Sort.equivB entryLe a) = es'.filter (NGF.Sort.equivB entryLe a)

/-- same listen port and server name, the same locations in some order -/
def CServer.equiv (a b : CServer) : Prop := a.port = b.port ∧ a.name = b.name ∧ a.locs.Perm b.locs

/-- equal up to a permutation of the default-server ports, of the servers, and of the locations of each server -/
def Conf.equiv (c c' : Conf) : Prop := c.ports.Perm c'.ports ∧ PermRel CServer.equiv c.servers c'.servers

theorem filter_comm3 {α} (l : List α) (m p c : α → Bool) :
    ((l.filter m).filter p).filter c = ((l.filter c).filter m).filter p := by
  simp only [List.filter_filter]
  apply List.filter_congr
  intro x _
  cases m x <;> cases p x <;> cases c x <;> rfl

theorem actOfKey_eq {es es' : List Entry} (h : SameUpToTies es es') (port : Nat) (hn : Str) :
    actOfKey es port hn = actOfKey es' port hn := by
  funext k
  unfold actOfKey
  congr 1
  rw [sortEntries_eq, sortEntries_eq]
  apply NGF.Sort.stable_sort_perm_invariant entryLe_trans entryLe_total
  intro a
  unfold mineOf
  rw [filter_comm3, filter_comm3 es', h.cls a]

theorem serverOf_equiv {es es' : List Entry} (h : SameUpToTies es es') (port : Nat) (hn : Str) :
    CServer.equiv (serverOf es port hn) (serverOf es' port hn) := by
  rw [serverOf_eq, serverOf_eq]
  refine ⟨rfl, rfl, ?_⟩
  simp only
  rw [actOfKey_eq h]
  apply locsOfKeys_perm
  unfold keysOf mineOf
  exact eraseDups_perm ((h.perm.filter _).map _)

theorem gen_equiv_of_routes_perm (s s' : Scenario) (hw : winner s' = winner s) (hr : s.routes.Perm s'.routes)
    (hn : RouteKeysNodup s.routes) : Conf.equiv (gen s) (gen s') := by
  unfold gen
  rw [hw]
  cases winner s with
  | none => exact ⟨List.Perm.refl _, [], List.Perm.refl _, .nil⟩
  | some g =>
    refine ⟨List.Perm.refl _, ?_⟩
    exact PermRel.of_map (hostsOf_perm g hr)
      (fun ph _ => serverOf_equiv ⟨entries_perm g hr, entries_class g hr hn⟩ ph.1 ph.2)

/-! ### §5 NGINX cannot tell equivalent configurations apart -/

open NGF.NginxEval in
theorem isWildName_cons {w : Str} (h : isWildName w = true) : ∃ t, w = '*' :: '.' :: t := by
  match w, h with
  | [], h => simp [isWildName] at h
  | [_], h => simp [isWildName] at h
  | a :: b :: t, h =>
    simp only [isWildName, List.take_succ_cons, List.take_zero, beq_iff_eq, List.cons.injEq, and_true] at h
    exact ⟨t, by rw [h.1, h.2]⟩

open NGF.NginxEval in
/-- two wildcard names of equal length covering one host are equal -/
theorem wildCovers_unique {w w' host : Str} (h : wildCovers w host = true) (h' : wildCovers w' host = true)
    (hl : w.length = w'.length) : w = w' := by
  simp only [wildCovers, Bool.and_eq_true] at h h'
  obtain ⟨t, rfl⟩ := isWildName_cons h.1
  obtain ⟨t', rfl⟩ := isWildName_cons h'.1
  have s1 : ('.' :: t) <:+ host := List.isSuffixOf_iff_suffix.mp h.2
  have s2 : ('.' :: t') <:+ host := List.isSuffixOf_iff_suffix.mp h'.2
  have hl' : ('.' :: t).length = ('.' :: t').length := by simp at hl ⊢; omega
  have := (List.suffix_of_suffix_length_le s1 s2 (Nat.le_of_eq hl')).eq_of_length hl'
  rw [this]

open NGF.NginxEval in
theorem bestWild_perm {host : Str} {names names' : List Str} (hp : names.Perm names') :
    bestWild host names = bestWild host names' := by
  cases h : bestWild host names with
  | none =>
    cases h' : bestWild host names' with
    | none => rfl
    | some w' =>
      obtain ⟨hm, hc, _⟩ := bestWild_some h'
      have := bestWild_none h w' (hp.mem_iff.mpr hm)
      rw [this] at hc; cases hc
  | some w =>
    obtain ⟨hm, hc, hmax⟩ := bestWild_some h
    cases h' : bestWild host names' with
    | none =>
      have := bestWild_none h' w (hp.mem_iff.mp hm)
      rw [this] at hc; cases hc
    | some w' =>
      obtain ⟨hm', hc', hmax'⟩ := bestWild_some h'
      have l1 := hmax w' (hp.mem_iff.mpr hm') hc'
      have l2 := hmax' w (hp.mem_iff.mp hm) hc
      rw [wildCovers_unique hc hc' (by omega)]

open NGF.NginxEval in
/-- NGINX's choice of a server name does not depend on the order of the names -/
theorem selectName_perm {names names' : List Str} (hp : names.Perm names') (host : Str) :
    selectName names host = selectName names' host := by
  unfold selectName
  rw [hp.contains_eq, bestWild_perm hp, hp.contains_eq]

theorem find?_perm_cases {α} {p : α → Bool} {l l' : List α} (hp : l.Perm l') :
    (l.find? p = none ∧ l'.find? p = none) ∨
      ∃ a b, l.find? p = some a ∧ l'.find? p = some b ∧ p a = true ∧ p b = true := by
  cases h : l.find? p with
  | none =>
    left; refine ⟨rfl, ?_⟩
    rw [List.find?_eq_none]
    intro x hx; exact (List.find?_eq_none.mp h) x (hp.mem_iff.mpr hx)
  | some a =>
    right
    cases h' : l'.find? p with
    | none =>
      have := (List.find?_eq_none.mp h') a (hp.mem_iff.mp (List.mem_of_find?_eq_some h))
      exact absurd (List.find?_some h) this
    | some b => exact ⟨a, b, rfl, rfl, List.find?_some h, List.find?_some h'⟩

open NGF.NginxEval in
theorem bestPrefix_perm_cases {p : Str} {L L' : List Loc} (hp : L.Perm L') :
    (bestPrefix p L = none ∧ bestPrefix p L' = none) ∨
      ∃ a b, bestPrefix p L = some a ∧ bestPrefix p L' = some b ∧ a.exact = b.exact ∧ a.path = b.path := by
  cases h : bestPrefix p L with
  | none =>
    cases h' : bestPrefix p L' with
    | none => exact Or.inl ⟨rfl, rfl⟩
    | some w' =>
      obtain ⟨hm, he, hpre, _⟩ := bestPrefix_some h'
      have := bestPrefix_none h w' (hp.mem_iff.mpr hm)
      simp [he, List.isPrefixOf_iff_prefix.mpr hpre] at this
  | some w =>
    obtain ⟨hm, he, hpre, hmax⟩ := bestPrefix_some h
    cases h' : bestPrefix p L' with
    | none =>
      have := bestPrefix_none h' w (hp.mem_iff.mp hm)
      simp [he, List.isPrefixOf_iff_prefix.mpr hpre] at this
    | some w' =>
      obtain ⟨hm', he', hpre', hmax'⟩ := bestPrefix_some h'
      have l1 := hmax w' (hp.mem_iff.mpr hm') he' hpre'
      have l2 := hmax' w (hp.mem_iff.mp hm) he hpre
      have hl : w.path.length = w'.path.length := by omega
      right
      refine ⟨w, w', rfl, rfl, by rw [he, he'], ?_⟩
      exact (List.prefix_of_prefix_length_le hpre hpre' (Nat.le_of_eq hl)).eq_of_length hl

/-- what `nginxEvalConf` reads of a location choice -/
def choiceKey : NGF.NginxEval.LocChoice → Option (Bool × Bool × Str)
  | .loc l => some (false, l.exact, l.path)
  | .autoRedirect _ => some (true, false, [])
  | .none => none

open NGF.NginxEval in
/-- NGINX's choice of a location (its modifier and path) does not depend on the order of the locations -/
theorem selectLoc_perm {L L' : List Loc} (hp : L.Perm L') (p : Str) :
    choiceKey (selectLoc L p) = choiceKey (selectLoc L' p) := by
  unfold selectLoc
  rcases find?_perm_cases (p := fun l => l.exact && l.path == p) hp with ⟨h1, h1'⟩ | ⟨a, b, h1, h1', pa, pb⟩
  · rw [h1, h1']
    simp only
    rcases find?_perm_cases (p := fun l => !l.exact && l.path == p) hp with ⟨h2, h2'⟩ | ⟨a, b, h2, h2', pa, pb⟩
    · rw [h2, h2']
      simp only
      rcases find?_perm_cases (p := fun l => !l.exact && l.passes && l.path == p ++ ['/']) hp with
        ⟨h3, h3'⟩ | ⟨a, b, h3, h3', _, _⟩
      · rw [h3, h3']
        simp only
        rcases bestPrefix_perm_cases (p := p) hp with ⟨h4, h4'⟩ | ⟨a, b, h4, h4', e1, e2⟩
        · rw [h4, h4']
        · rw [h4, h4']; simp only [choiceKey, e1, e2]
      · rw [h3, h3']; rfl
    · rw [h2, h2']
      simp only [Bool.and_eq_true, Bool.not_eq_true', beq_iff_eq] at pa pb
      simp only [choiceKey, pa.1, pa.2, pb.1, pb.2]
  · rw [h1, h1']
    simp only [Bool.and_eq_true, beq_iff_eq] at pa pb
    simp only [choiceKey, pa.1, pa.2, pb.1, pb.2]

def serverKey (sv : CServer) : Nat × Str := (sv.port, sv.name)
def locKey (l : CLoc) : Bool × Str := (l.exact, l.path)

/-- well-formedness that `gen` guarantees: distinct server names per port, distinct (modifier, path) per server -/
structure Conf.WF (c : Conf) : Prop where
  servers : (c.servers.map serverKey).Nodup
  locs : ∀ sv ∈ c.servers, (sv.locs.map locKey).Nodup

/-- the part of `nginxEvalConf` after the server has been chosen -/
def evalLocs (locs : List CLoc) (q : Req) : Outcome :=
  match NGF.NginxEval.selectLoc (locs.map toLoc) q.path with
  | .loc l =>
    match locs.find? (fun cl => cl.exact == l.exact && cl.path == l.path) with
    | some cl => evalLocAct q cl.act
    | none => .status 404
  | .autoRedirect _ => .status 301
  | .none => .status 404

theorem nginxEvalConf_eq (c : Conf) (q : Req) : nginxEvalConf c q =
    if !c.ports.contains q.port then .refused
    else
      match NGF.NginxEval.selectName ((c.servers.filter (·.port == q.port)).map (·.name)) q.host with
      | none => .status 404
      | some n =>
        match (c.servers.filter (·.port == q.port)).find? (·.name == n) with
        | none => .status 404
        | some sv => evalLocs sv.locs q := rfl

theorem evalLocs_perm {locs locs' : List CLoc} (hp : locs.Perm locs') (hn : (locs.map locKey).Nodup) (q : Req) :
    evalLocs locs q = evalLocs locs' q := by
  have hk := selectLoc_perm (hp.map toLoc) q.path
  unfold evalLocs
  cases h : NGF.NginxEval.selectLoc (locs.map toLoc) q.path <;>
    cases h' : NGF.NginxEval.selectLoc (locs'.map toLoc) q.path <;>
    rw [h, h'] at hk <;> simp only [choiceKey, Option.some.injEq, Prod.mk.injEq, reduceCtorEq, Bool.false_eq_true,
      Bool.true_eq_false, false_and] at hk
  case loc.loc l l' =>
    simp only
    rw [← hk.2.1, ← hk.2.2]
    rw [find?_perm_of_unique hp]
    intro a ha b hb pa pb
    simp only [Bool.and_eq_true, beq_iff_eq] at pa pb
    apply inj_of_nodup_map hn a ha b hb
    simp only [locKey, pa.1, pa.2, pb.1, pb.2]
  all_goals rfl

theorem Rel₂_filter_map_eq {α β γ} {R : α → β → Prop} {p : α → Bool} {p' : β → Bool} {f : α → γ} {g : β → γ}
    {l : List α} {l' : List β} (h : Rel₂ R l l') (hR : ∀ a b, R a b → p a = p' b ∧ f a = g b) :
    (l.filter p).map f = (l'.filter p').map g := by
  induction h with
  | nil => rfl
  | cons hab _ ih =>
    obtain ⟨e1, e2⟩ := hR _ _ hab
    simp only [List.filter_cons, e1]
    split
    · simp only [List.map_cons, e2, ih]
    · exact ih

theorem find?_filter_and {α} (p q : α → Bool) (l : List α) :
    (l.filter p).find? q = l.find? (fun a => p a && q a) := by
  induction l with
  | nil => rfl
  | cons x xs ih =>
    by_cases hp : p x = true
    · simp only [List.filter_cons, hp, ↓reduceIte, List.find?_cons, Bool.true_and, ih]
    · simp only [List.filter_cons, hp, Bool.false_eq_true, ↓reduceIte, List.find?_cons, Bool.false_and, ih]

theorem Conf.WF.of_equiv {c c' : Conf} (he : Conf.equiv c c') (hw : c.WF) : c'.WF where
  servers := by
    have : (c.servers.map serverKey).Perm (c'.servers.map serverKey) :=
      he.2.map_perm (fun a b r => by simp only [serverKey, r.1, r.2.1])
    exact this.nodup hw.servers
  locs := by
    intro sv' hsv'
    obtain ⟨sv, hsv, r⟩ := he.2.mem_right sv' hsv'
    exact ((r.2.2).map locKey).nodup (hw.locs sv hsv)

/-- The meaning of a well-formed configuration does not depend on the order of its default-server ports, of its servers
and of the locations inside each server. -/
theorem equiv_meaning {c c' : Conf} (he : Conf.equiv c c') (hw : c.WF) (q : Req) :
    nginxEvalConf c q = nginxEvalConf c' q := by
  have hw' := hw.of_equiv he
  rw [nginxEvalConf_eq, nginxEvalConf_eq, he.1.contains_eq]
  have hnames : ((c.servers.filter (·.port == q.port)).map (·.name)).Perm
      ((c'.servers.filter (·.port == q.port)).map (·.name)) := by
    obtain ⟨m, hpm, hr⟩ := he.2
    have := Rel₂_filter_map_eq (p := fun sv : CServer => sv.port == q.port) (p' := fun sv : CServer => sv.port == q.port)
      (f := fun sv : CServer => sv.name) (g := fun sv : CServer => sv.name) hr
      (fun a b r => by simp only [r.1, r.2.1, and_self])
    rw [← this]
    exact (hpm.filter _).map _
  rw [selectName_perm hnames]
  by_cases hport : (!c'.ports.contains q.port) = true
  · simp only [hport, ↓reduceIte]
  · simp only [hport, Bool.false_eq_true, ↓reduceIte]
    cases hsel : NGF.NginxEval.selectName ((c'.servers.filter (·.port == q.port)).map (·.name)) q.host with
    | none => rfl
    | some n =>
      dsimp only
      rw [find?_filter_and, find?_filter_and]
      -- the server with this (port, name), on both sides
      have uniq : ∀ (d : Conf), d.WF → ∀ a ∈ d.servers, ∀ b ∈ d.servers,
          (a.port == q.port && a.name == n) = true → (b.port == q.port && b.name == n) = true → a = b := by
        intro d hd a ha b hb pa pb
        simp only [Bool.and_eq_true, beq_iff_eq] at pa pb
        apply inj_of_nodup_map hd.servers a ha b hb
        simp only [serverKey, pa.1, pa.2, pb.1, pb.2]
      cases hf : c.servers.find? (fun a => a.port == q.port && a.name == n) with
      | none =>
        have : c'.servers.find? (fun a => a.port == q.port && a.name == n) = none := by
          rw [List.find?_eq_none]
          intro x hx hpx
          obtain ⟨a, ha, r⟩ := he.2.mem_right x hx
          have := (List.find?_eq_none.mp hf) a ha
          rw [r.1, r.2.1] at this
          exact this hpx
        rw [this]
      | some sv =>
        have hsv := List.mem_of_find?_eq_some hf
        have hpsv := List.find?_some hf
        obtain ⟨sv', hsv', r⟩ := he.2.mem_left sv hsv
        have hpsv' : (sv'.port == q.port && sv'.name == n) = true := by rw [← r.1, ← r.2.1]; exact hpsv
        have : c'.servers.find? (fun a => a.port == q.port && a.name == n) = some sv' :=
          find?_eq_some_of_unique hsv' hpsv' (fun b hb hpb => uniq c' hw' b hb sv' hsv' hpb hpsv')
        rw [this]
        exact evalLocs_perm r.2.2 (hw.locs sv hsv) q

/-! ### §6 `gen` produces well-formed configurations -/

/-- (modifier, path) of the locations one path key produces -/
def gkeys (rules : List Precedence.PathRule) (k : Bool × Str) : List (Bool × Str) :=
  (Precedence.extLocs rules 0 (ruleOfKey k)).map fun gl => (gl.exact, gl.path)

theorem keyLocs_keys (rules : List Precedence.PathRule) (act : Bool × Str → LocAct) (k : Bool × Str) :
    (keyLocs rules act k).map locKey = gkeys rules k := by
  unfold keyLocs gkeys; rw [List.map_map]; rfl

theorem mem_gkeys {rules : List Precedence.PathRule} {e : Bool} {p : Str} {x : Bool × Str}
    (h : x ∈ gkeys rules (e, p)) :
    (e = true ∧ x = (true, p)) ∨ (e = false ∧ Precedence.endsSlash p = true ∧ x = (false, p)) ∨
    (e = false ∧ Precedence.endsSlash p = false ∧
      ((Precedence.hasPrefix rules (p ++ ['/']) = false ∧ x = (false, p ++ ['/'])) ∨
       (Precedence.hasExact rules p = false ∧ x = (true, p)))) := by
  unfold gkeys Precedence.extLocs ruleOfKey at h
  cases e <;> cases hs : Precedence.endsSlash p <;> cases hE : Precedence.hasExact rules p <;>
    cases hS : Precedence.hasPrefix rules (p ++ ['/']) <;> simp [hs, hE, hS] at h ⊢ <;> exact h

theorem gkeys_nodup (rules : List Precedence.PathRule) (k : Bool × Str) : (gkeys rules k).Nodup := by
  unfold gkeys Precedence.extLocs
  cases hP : ((ruleOfKey k).isPrefix && !Precedence.endsSlash (ruleOfKey k).path) <;>
    cases hE : Precedence.hasExact rules (ruleOfKey k).path <;>
    cases hS : Precedence.hasPrefix rules ((ruleOfKey k).path ++ ['/']) <;> simp

/-- the path key a location (modifier, path) can only have come from -/
def origin (rules : List Precedence.PathRule) (x : Bool × Str) : Bool × Str :=
  if x.1 then (if Precedence.hasExact rules x.2 then (true, x.2) else (false, x.2))
  else (if Precedence.hasPrefix rules x.2 then (false, x.2) else (false, x.2.dropLast))

theorem origin_of_mem {keys : List (Bool × Str)} {k x : Bool × Str} (hk : k ∈ keys)
    (hx : x ∈ gkeys (keys.map ruleOfKey) k) : k = origin (keys.map ruleOfKey) x := by
  obtain ⟨e, p⟩ := k
  rcases mem_gkeys hx with ⟨rfl, rfl⟩ | ⟨rfl, _, rfl⟩ | ⟨rfl, _, ⟨hS, rfl⟩ | ⟨hE, rfl⟩⟩
  · have : Precedence.hasExact (keys.map ruleOfKey) p = true := by
      unfold Precedence.hasExact
      exact List.any_eq_true.mpr ⟨_, List.mem_map_of_mem hk, by simp [ruleOfKey]⟩
    simp [origin, this]
  · have : Precedence.hasPrefix (keys.map ruleOfKey) p = true := by
      unfold Precedence.hasPrefix
      exact List.any_eq_true.mpr ⟨_, List.mem_map_of_mem hk, by simp [ruleOfKey]⟩
    simp [origin, this]
  · simp [origin, hS]
  · simp [origin, hE]

/-- the locations generated for distinct path keys with non-empty paths have distinct (modifier, path) -/
theorem locsOfKeys_nodup {keys : List (Bool × Str)} (act : Bool × Str → LocAct) (hn : keys.Nodup)
    (hne : ∀ k ∈ keys, k.2 ≠ []) : ((locsOfKeys keys act).map locKey).Nodup := by
  rw [locsOfKeys_flat, List.map_append, List.map_flatMap]
  have hfm : (keys.flatMap fun k => (keyLocs (keys.map ruleOfKey) act k).map locKey) =
      keys.flatMap (gkeys (keys.map ruleOfKey)) := by
    congr 1; funext k; exact keyLocs_keys _ _ _
  rw [hfm, List.nodup_append]
  refine ⟨?_, ?_, ?_⟩
  · show List.Pairwise (· ≠ ·) _
    rw [List.pairwise_flatMap]
    refine ⟨fun k _ => gkeys_nodup _ k, ?_⟩
    refine List.Pairwise.imp_of_mem ?_ hn
    intro k1 k2 h1 h2 hne12 x hx y hy e
    subst e
    exact hne12 ((origin_of_mem h1 hx).trans (origin_of_mem h2 hy).symm)
  · unfold defaultLoc
    split <;> simp
  · intro a ha b hb e
    subst e
    unfold defaultLoc at hb
    by_cases hany : (keys.map ruleOfKey).any (fun r => r.path == ['/']) = true
    · simp [hany] at hb
    · simp only [hany, Bool.false_eq_true, ↓reduceIte, List.map_cons, List.map_nil, List.mem_singleton] at hb
      obtain ⟨k, hk, hak⟩ := List.mem_flatMap.mp ha
      obtain ⟨e, p⟩ := k
      rw [hb] at hak
      rcases mem_gkeys hak with ⟨_, hx⟩ | ⟨rfl, _, hx⟩ | ⟨rfl, _, ⟨_, hx⟩ | ⟨_, hx⟩⟩
      · simp [locKey] at hx
      · simp only [locKey, Prod.mk.injEq, true_and] at hx
        apply hany
        exact List.any_eq_true.mpr ⟨_, List.mem_map_of_mem hk, by simp [ruleOfKey, hx]⟩
      · simp only [locKey, Prod.mk.injEq, true_and] at hx
        have : p = [] := by
          cases p with
          | nil => rfl
          | cons c cs => simp at hx
        exact hne _ hk this
      · simp [locKey] at hx

/-- every match of every rule has a non-empty path (guaranteed by `matchOK`: the path starts with `/`) -/
def PathsOK (routes : List Route) : Prop := ∀ r ∈ routes, ∀ rule ∈ r.rules, ∀ m ∈ rule.ms, m.path ≠ []

theorem mem_entries_path {g : Gateway} {routes : List Route} {e : Entry} (h : PathsOK routes)
    (he : e ∈ entries g routes) : e.m.path ≠ [] := by
  rw [entries_eq] at he
  obtain ⟨l, _, he⟩ := List.mem_flatMap.mp he
  obtain ⟨r, hr, he⟩ := List.mem_flatMap.mp he
  unfold perListener at he
  by_cases hv : r.valid = true
  · simp only [hv, ↓reduceIte] at he
    unfold routeEntries at he
    obtain ⟨rule, hrule, he⟩ := List.mem_flatMap.mp he
    obtain ⟨hh, _, he⟩ := List.mem_flatMap.mp he
    obtain ⟨m, hm, he⟩ := List.mem_map.mp he
    subst he
    exact h r hr rule hrule m hm
  · simp [hv] at he

theorem serverOf_locs_nodup {es : List Entry} (port : Nat) (h : Str) (hne : ∀ e ∈ es, e.m.path ≠ []) :
    ((serverOf es port h).locs.map locKey).Nodup := by
  rw [serverOf_eq]
  apply locsOfKeys_nodup
  · exact nodup_eraseDups _
  · intro k hk
    unfold keysOf at hk
    rw [List.mem_eraseDups] at hk
    obtain ⟨e, he, rfl⟩ := List.mem_map.mp hk
    unfold mineOf at he
    exact hne e (List.mem_filter.mp he).1

/-- `gen_servers_distinct` and `gen_locs_distinct` in one structure -/
theorem gen_wf (s : Scenario) (hp : PathsOK s.routes) : (gen s).WF := by
  unfold gen
  cases winner s with
  | none => exact ⟨by simp, by intro sv h; cases h⟩
  | some g =>
    constructor
    · simp only [List.map_map]
      have : (hostsOf g s.routes).map (serverKey ∘ fun ph => serverOf (entries g s.routes) ph.1 ph.2) =
          (hostsOf g s.routes).map id := List.map_congr_left (fun ph _ => rfl)
      rw [this, List.map_id]
      exact hostsOf_nodup g s.routes
    · intro sv hsv
      obtain ⟨ph, _, rfl⟩ := List.mem_map.mp hsv
      exact serverOf_locs_nodup ph.1 ph.2 (fun e he => mem_entries_path hp he)

theorem pathsOK_of_fragment {s : Scenario} (h : inFragment s = true) : PathsOK s.routes := by
  unfold inFragment at h
  simp only [Bool.and_eq_true] at h
  intro r hr rule hrule m hm
  have h1 := List.all_eq_true.mp h.1.2 r hr
  unfold routeOK at h1
  simp only [Bool.and_eq_true] at h1
  have h2 := List.all_eq_true.mp (List.all_eq_true.mp h1.2 rule hrule) m hm
  unfold matchOK at h2
  simp only [Bool.and_eq_true] at h2
  intro e
  rw [e] at h2
  simp at h2

theorem routeKeys_of_fragment {s : Scenario} (h : inFragment s = true) : RouteKeysNodup s.routes := by
  unfold inFragment at h
  simp only [Bool.and_eq_true] at h
  have := h.1.1
  unfold nodup at this
  exact nodup_of_eraseDups_length (by simpa using this)

end NGF.Pipeline
