/-
C02 refinement proof, part 0: generic list lemmas and the provenance-annotated view of `Pipeline.entries`.

`xentries g routes` is `entries g routes` with every entry carrying the specification candidate it stems from
(listener hostname, route hostname, rule index, match index): `entries = xentries.map entryOf` (`entries_eq_map`), in the
SAME order, so that the order-dependent steps of the generator (stable sort, first njs match) can be related to the
positional tie-breakers of the specification (`ruleIdx`, `matchIdx`). Proof-only: nothing here is executed.
-/
import NGF.Model.Pipeline
import NGF.Proofs.Pipeline

namespace NGF.Pipeline
open NGF.Hostname (hmatch moreSpecific accepted)

/-! ### enumFrom -/

theorem mem_enumFrom {α} : ∀ {l : List α} {s i : Nat} {a : α}, (i, a) ∈ enumFrom s l ↔ s ≤ i ∧ l[i - s]? = some a
  | [], s, i, a => by simp [enumFrom]
  | x :: xs, s, i, a => by
    simp only [enumFrom, List.mem_cons, Prod.mk.injEq, mem_enumFrom (l := xs)]
    constructor
    · rintro (⟨rfl, rfl⟩ | ⟨h1, h2⟩)
      · simp
      · refine ⟨by omega, ?_⟩
        have : i - s = (i - (s + 1)) + 1 := by omega
        rw [this]; simpa using h2
    · rintro ⟨h1, h2⟩
      by_cases e : i = s
      · left; subst e; simpa using h2.symm
      · right
        refine ⟨by omega, ?_⟩
        have : i - s = (i - (s + 1)) + 1 := by omega
        rw [this] at h2; simpa using h2

theorem enumFrom_fun {α} {l : List α} {s i : Nat} {a b : α} (h1 : (i, a) ∈ enumFrom s l) (h2 : (i, b) ∈ enumFrom s l) :
    a = b := by
  have := (mem_enumFrom.mp h1).2.symm.trans (mem_enumFrom.mp h2).2
  simpa using this

theorem enumFrom_snd_mem {α} {l : List α} {s : Nat} {p : Nat × α} (h : p ∈ enumFrom s l) : p.2 ∈ l := by
  obtain ⟨i, a⟩ := p
  exact List.mem_of_getElem? (mem_enumFrom.mp h).2

theorem mem_enumFrom_of_mem {α} {l : List α} {a : α} (h : a ∈ l) (s : Nat) : ∃ i, (i, a) ∈ enumFrom s l := by
  obtain ⟨j, hj⟩ := List.getElem?_of_mem h
  exact ⟨s + j, mem_enumFrom.mpr ⟨by omega, by simpa using hj⟩⟩

theorem enumFrom_flatMap_snd {α β} (f : α → List β) : ∀ (l : List α) (s : Nat),
    (enumFrom s l).flatMap (fun p => f p.2) = l.flatMap f
  | [], _ => rfl
  | x :: xs, s => by simp [enumFrom, enumFrom_flatMap_snd f xs (s + 1)]

theorem enumFrom_map_snd {α β} (f : α → β) : ∀ (l : List α) (s : Nat), (enumFrom s l).map (fun p => f p.2) = l.map f
  | [], _ => rfl
  | x :: xs, s => by simp [enumFrom, enumFrom_map_snd f xs (s + 1)]

/-- the first hit of a search along an enumeration has the smallest index among the hits -/
theorem enumFrom_findSome_min {α β} {f : Nat × α → Option β} : ∀ {l : List α} {s : Nat} {b : β},
    (enumFrom s l).findSome? f = some b →
    ∃ i a, (i, a) ∈ enumFrom s l ∧ f (i, a) = some b ∧ ∀ i' a', (i', a') ∈ enumFrom s l → i' < i → f (i', a') = none
  | [], s, b, h => by simp [enumFrom] at h
  | x :: xs, s, b, h => by
    simp only [enumFrom, List.findSome?_cons] at h
    cases hf : f (s, x) with
    | some v =>
      rw [hf] at h; simp only [Option.some.injEq] at h; subst h
      refine ⟨s, x, by simp [enumFrom], hf, ?_⟩
      intro i' a' hm hlt
      have := (mem_enumFrom.mp hm).1
      omega
    | none =>
      rw [hf] at h
      obtain ⟨i, a, hm, hfi, hmin⟩ := enumFrom_findSome_min (l := xs) h
      refine ⟨i, a, by simp [enumFrom, hm], hfi, ?_⟩
      intro i' a' hm' hlt
      simp only [enumFrom, List.mem_cons, Prod.mk.injEq] at hm'
      rcases hm' with ⟨rfl, rfl⟩ | hm'
      · exact hf
      · exact hmin i' a' hm' hlt

/-- … and so has the first element of an enumeration that satisfies a predicate -/
theorem enumFrom_find_min {α} {p : Nat × α → Bool} : ∀ {l : List α} {s : Nat} {b : Nat × α},
    (enumFrom s l).find? p = some b →
    b ∈ enumFrom s l ∧ p b = true ∧ ∀ i' a', (i', a') ∈ enumFrom s l → i' < b.1 → p (i', a') = false
  | [], s, b, h => by simp [enumFrom] at h
  | x :: xs, s, b, h => by
    simp only [enumFrom, List.find?_cons] at h
    cases hp : p (s, x) with
    | true =>
      rw [hp] at h; simp only [Option.some.injEq] at h; subst h
      refine ⟨by simp [enumFrom], hp, ?_⟩
      intro i' a' hm hlt
      have := (mem_enumFrom.mp hm).1
      simp only at hlt
      omega
    | false =>
      rw [hp] at h
      obtain ⟨hm, hpb, hmin⟩ := enumFrom_find_min (l := xs) h
      refine ⟨by simp [enumFrom, hm], hpb, ?_⟩
      intro i' a' hm' hlt
      simp only [enumFrom, List.mem_cons, Prod.mk.injEq] at hm'
      rcases hm' with ⟨rfl, rfl⟩ | hm'
      · exact hp
      · exact hmin i' a' hm' hlt

/-! ### eraseDups / nodup -/

theorem eraseDups_length_le {α} [BEq α] : ∀ (n : Nat) (l : List α), l.length ≤ n → l.eraseDups.length ≤ l.length
  | 0, l, h => by
    have : l = [] := List.eq_nil_of_length_eq_zero (by omega)
    subst this; simp
  | n + 1, [], _ => by simp
  | n + 1, a :: as, h => by
    rw [List.eraseDups_cons]
    have h1 : (as.filter fun b => !b == a).length ≤ as.length := List.length_filter_le _ _
    have := eraseDups_length_le n (as.filter fun b => !b == a) (by simp at h; omega)
    simp; omega

/-- `Pipeline.nodup` really is duplicate-freeness -/
theorem pairwise_of_nodup {α} [BEq α] [LawfulBEq α] : ∀ (n : Nat) (l : List α), l.length ≤ n → nodup l = true →
    l.Pairwise (· ≠ ·)
  | 0, l, h, _ => by
    have : l = [] := List.eq_nil_of_length_eq_zero (by omega)
    subst this; simp
  | n + 1, [], _, _ => by simp
  | n + 1, a :: as, h, hn => by
    simp only [nodup, List.eraseDups_cons, List.length_cons, beq_iff_eq, Nat.add_right_cancel_iff] at hn
    have h1 : (as.filter fun b => !b == a).length ≤ as.length := List.length_filter_le _ _
    have h2 := eraseDups_length_le _ (as.filter fun b => !b == a) (Nat.le_refl _)
    have hlen : (as.filter fun b => !b == a).length = as.length := by omega
    have hfil : as.filter (fun b => !b == a) = as := List.filter_eq_self.mpr (by
      have := List.length_filter_eq_length_iff.mp hlen
      exact this)
    rw [hfil] at hn
    refine List.pairwise_cons.mpr ⟨?_, pairwise_of_nodup n as (by simp at h; omega) (by simp [nodup, hn])⟩
    intro b hb e
    have := (List.filter_eq_self.mp hfil) b hb
    simp [e] at this

theorem nodup_map_inj {α β} [BEq β] [LawfulBEq β] {l : List α} {f : α → β} (h : nodup (l.map f) = true)
    {a b : α} (ha : a ∈ l) (hb : b ∈ l) (e : f a = f b) : a = b := by
  have hp := pairwise_of_nodup _ _ (Nat.le_refl _) h
  induction l with
  | nil => cases ha
  | cons x xs ih =>
    simp only [List.map_cons, List.pairwise_cons, List.mem_map, ne_eq, forall_exists_index, and_imp,
      forall_apply_eq_imp_iff₂] at hp
    rcases List.mem_cons.mp ha with rfl | ha' <;> rcases List.mem_cons.mp hb with rfl | hb'
    · rfl
    · exact absurd e (hp.1 b hb')
    · exact absurd e.symm (hp.1 a ha')
    · exact ih (by
        have := h
        simp only [nodup, beq_iff_eq] at this ⊢
        have hp' : (xs.map f).Pairwise (· ≠ ·) := hp.2
        exact (eraseDups_eq_self_of_pairwise hp').symm ▸ rfl) ha' hb' hp.2
where
  eraseDups_eq_self_of_pairwise {γ} [BEq γ] [LawfulBEq γ] : ∀ {l : List γ}, l.Pairwise (· ≠ ·) → l.eraseDups = l
    | [], _ => by simp
    | a :: as, h => by
      rw [List.eraseDups_cons]
      have hp := List.pairwise_cons.mp h
      have : as.filter (fun b => !b == a) = as := List.filter_eq_self.mpr (by
        intro b hb; simpa using fun e => hp.1 b hb e.symm)
      rw [this, eraseDups_eq_self_of_pairwise hp.2]

theorem pairwise_eraseDups {α} [BEq α] [LawfulBEq α] : ∀ (n : Nat) (l : List α), l.length ≤ n →
    l.eraseDups.Pairwise (· ≠ ·)
  | 0, l, h => by
    have : l = [] := List.eq_nil_of_length_eq_zero (by omega)
    subst this; simp
  | n + 1, [], _ => by simp
  | n + 1, a :: as, h => by
    rw [List.eraseDups_cons]
    have h1 : (as.filter fun b => !b == a).length ≤ as.length := List.length_filter_le _ _
    refine List.pairwise_cons.mpr ⟨?_, pairwise_eraseDups n _ (by simp at h; omega)⟩
    intro b hb
    rw [List.mem_eraseDups, List.mem_filter] at hb
    intro e; subst e; simp at hb

/-- equal positions of a duplicate-free list -/
theorem getElem?_inj_of_pairwise {α} {l : List α} (hp : l.Pairwise (· ≠ ·)) {i j : Nat} {a : α}
    (hi : l[i]? = some a) (hj : l[j]? = some a) : i = j := by
  induction l generalizing i j with
  | nil => simp at hi
  | cons x xs ih =>
    have hp' := List.pairwise_cons.mp hp
    cases i with
    | zero =>
      cases j with
      | zero => rfl
      | succ j =>
        simp at hi hj; subst hi
        exact absurd rfl (hp'.1 x (List.mem_of_getElem? hj))
    | succ i =>
      cases j with
      | zero =>
        simp at hi hj; subst hj
        exact absurd rfl (hp'.1 x (List.mem_of_getElem? hi))
      | succ j =>
        simp at hi hj
        rw [ih hp'.2 hi hj]

/-! ### the annotated entries -/

/-- an entry together with the specification candidate it stems from -/
structure XE where
  port : Nat
  host : Str
  c : Cand

def keyC (c : Cand) : Precedence.MatchKey :=
  { hasMethod := !c.m.method.isEmpty, nHeaders := c.m.headers.length, nQuery := c.m.query.length,
    age := c.age, ns := bytes c.ns, name := bytes c.name }

def entryOf (x : XE) : Entry :=
  { port := x.port, host := x.host, m := x.c.m, key := keyC x.c, action := x.c.action }

/-- `findAcceptedHostnames` with the route hostname each accepted hostname stems from (`[]` = the route has none) -/
def acceptedX (l : Str) (rs : List Str) : List (Str × Str) :=
  if rs.isEmpty then [(if l.isEmpty then NGF.Hostname.wildcardHostname else l, [])]
  else rs.filterMap fun r => if hmatch l r then some (moreSpecific l r, r) else none

theorem accepted_eq_map (l : Str) (rs : List Str) : accepted l rs = (acceptedX l rs).map (·.1) := by
  unfold accepted acceptedX
  by_cases h : rs.isEmpty = true
  · simp only [h, ↓reduceIte]
    by_cases hl : l.isEmpty = true <;> simp [hl]
  · simp only [h, Bool.false_eq_true, ↓reduceIte, List.map_filterMap]
    congr 1
    funext r
    by_cases hm : hmatch l r = true <;> simp [hm]

def acceptedXAt (g : Gateway) (l : Listener) (r : Route) : List (Str × Str) :=
  if refersTo g l r && nsAllowed g l r then acceptedX l.host r.hostnames else []

theorem acceptedAt_eq_map (g : Gateway) (l : Listener) (r : Route) :
    acceptedAt g l r = (acceptedXAt g l r).map (·.1) := by
  unfold acceptedAt acceptedXAt
  by_cases h : (refersTo g l r && nsAllowed g l r) = true
  · simp only [h, ↓reduceIte, accepted_eq_map]
  · simp [h]

def mkCand (l : Listener) (r : Route) (rh : Str) (i : Nat) (rule : Rule) (j : Nat) (m : Match) : Cand :=
  { lhost := l.host, rhost := rh, m := m, age := r.age, ns := r.ns, name := r.name,
    ruleIdx := i, matchIdx := j, action := rule.action }

def mkX (l : Listener) (r : Route) (hh : Str × Str) (ir : Nat × Rule) (jm : Nat × Match) : XE :=
  { port := l.port, host := hh.1, c := mkCand l r hh.2 ir.1 ir.2 jm.1 jm.2 }

def xrouteEntries (l : Listener) (hosts : List (Str × Str)) (r : Route) : List XE :=
  (enumFrom 0 r.rules).flatMap fun ir => hosts.flatMap fun hh => (enumFrom 0 ir.2.ms).map fun jm => mkX l r hh ir jm

def xblock (g : Gateway) (l : Listener) (r : Route) : List XE :=
  if r.valid then xrouteEntries l (acceptedXAt g l r) r else []

def xentries (g : Gateway) (routes : List Route) : List XE :=
  g.listeners.flatMap fun l => routes.flatMap fun r => xblock g l r

theorem routeEntries_eq_map (l : Listener) (hosts : List (Str × Str)) (r : Route) :
    routeEntries l.port (hosts.map (·.1)) r = (xrouteEntries l hosts r).map entryOf := by
  unfold routeEntries xrouteEntries
  rw [List.map_flatMap, ← enumFrom_flatMap_snd _ r.rules 0]
  apply flatMap_congr_mem
  intro ir _
  rw [List.map_flatMap, List.flatMap_map]
  apply flatMap_congr_mem
  intro hh _
  rw [List.map_map, ← enumFrom_map_snd _ ir.2.ms 0]
  rfl

theorem entries_eq_map (g : Gateway) (routes : List Route) : entries g routes = (xentries g routes).map entryOf := by
  unfold entries xentries
  rw [List.map_flatMap]
  apply flatMap_congr_mem
  intro l _
  rw [List.map_flatMap]
  apply flatMap_congr_mem
  intro r _
  unfold xblock
  by_cases hv : r.valid = true
  · simp only [hv, ↓reduceIte, acceptedAt_eq_map, routeEntries_eq_map]
  · simp [hv]

/-- where an annotated entry comes from -/
theorem mem_xentries {g : Gateway} {routes : List Route} {x : XE} :
    x ∈ xentries g routes ↔
    ∃ l ∈ g.listeners, ∃ r ∈ routes, r.valid = true ∧ refersTo g l r = true ∧ nsAllowed g l r = true ∧
      ∃ hh ∈ acceptedX l.host r.hostnames, ∃ ir ∈ enumFrom 0 r.rules, ∃ jm ∈ enumFrom 0 ir.2.ms,
        x = mkX l r hh ir jm := by
  unfold xentries xblock xrouteEntries acceptedXAt
  simp only [List.mem_flatMap]
  constructor
  · rintro ⟨l, hl, r, hr, hx⟩
    by_cases hv : r.valid = true
    · simp only [hv, ↓reduceIte, List.mem_flatMap, List.mem_map] at hx
      obtain ⟨ir, hir, hh, hhh, jm, hjm, rfl⟩ := hx
      by_cases ha : (refersTo g l r && nsAllowed g l r) = true
      · simp only [ha, ↓reduceIte] at hhh
        simp only [Bool.and_eq_true] at ha
        exact ⟨l, hl, r, hr, hv, ha.1, ha.2, hh, hhh, ir, hir, jm, hjm, rfl⟩
      · simp [ha] at hhh
    · simp [hv] at hx
  · rintro ⟨l, hl, r, hr, hv, h1, h2, hh, hhh, ir, hir, jm, hjm, rfl⟩
    refine ⟨l, hl, r, hr, ?_⟩
    simp only [hv, ↓reduceIte, h1, h2, Bool.and_self, List.mem_flatMap, List.mem_map]
    exact ⟨ir, hir, hh, hhh, jm, hjm, rfl⟩

/-- where a specification candidate comes from -/
theorem mem_specCands {g : Gateway} {routes : List Route} {p : Nat} {c : Cand} :
    c ∈ specCands g routes p ↔
    ∃ l ∈ g.listeners, l.port = p ∧ ∃ r ∈ routes, r.valid = true ∧ refersTo g l r = true ∧ nsAllowed g l r = true ∧
      ∃ rh ∈ (if r.hostnames.isEmpty then [[]] else r.hostnames), ∃ ir ∈ enumFrom 0 r.rules,
        ∃ jm ∈ enumFrom 0 ir.2.ms, c = mkCand l r rh ir.1 ir.2 jm.1 jm.2 := by
  unfold specCands
  simp only [List.mem_flatMap]
  constructor
  · rintro ⟨l, hl, hc⟩
    by_cases hp : (l.port != p) = true
    · simp [hp] at hc
    · simp only [hp, Bool.false_eq_true, ↓reduceIte, List.mem_flatMap] at hc
      obtain ⟨r, hr, hc⟩ := hc
      by_cases hok : (!(r.valid && refersTo g l r && nsAllowed g l r)) = true
      · simp [hok] at hc
      · simp only [hok, Bool.false_eq_true, ↓reduceIte, List.mem_flatMap, List.mem_map] at hc
        obtain ⟨rh, hrh, ir, hir, jm, hjm, rfl⟩ := hc
        have hok' : r.valid = true ∧ refersTo g l r = true ∧ nsAllowed g l r = true := by
          cases hv : r.valid <;> cases hrf : refersTo g l r <;> cases hns : nsAllowed g l r <;> simp_all
        exact ⟨l, hl, by simpa using hp, r, hr, hok'.1, hok'.2.1, hok'.2.2, rh, hrh, ir, hir, jm, hjm, rfl⟩
  · rintro ⟨l, hl, hp, r, hr, hv, h1, h2, rh, hrh, ir, hir, jm, hjm, rfl⟩
    refine ⟨l, hl, ?_⟩
    have : (l.port != p) = false := by simp [hp]
    simp only [this, Bool.false_eq_true, ↓reduceIte, List.mem_flatMap, List.mem_map]
    refine ⟨r, hr, ?_⟩
    simp only [hv, h1, h2, Bool.and_self, Bool.not_true, Bool.false_eq_true, ↓reduceIte, List.mem_flatMap, List.mem_map]
    exact ⟨rh, hrh, ir, hir, jm, hjm, rfl⟩

end NGF.Pipeline
