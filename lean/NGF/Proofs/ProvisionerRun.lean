/-
C18: invariants carried along whole histories (induction over batches): the exact match for the
code in the tree, and for the pre-fix code the two inclusions it kept plus the `_partial` region.
-/
import NGF.Proofs.ProvisionerStep

namespace NGF.Prov

/-! ### the code in the tree -/

/-- Deployments are exactly the stored Gateways of the configured class -/
def Exact (cfg : Cfg) (s : State) : Prop :=
  ∀ k, hasKey s.prov k = decide (get? s.gws k = some cfg.gcName)

theorem exact_init (cfg : Cfg) : Exact cfg init := by intro k; simp [init]

theorem run_exact (cfg : Cfg) (hist : Hist) (hc : (run cfg init hist).crashed = none) :
    Exact cfg (run cfg init hist) :=
  runWith_induct removedGwsWithDeps (Exact cfg)
    (fun s b o h hc hc' k =>
      step_prov cfg s b o h hc ((stepWith_crashed_iff removedGwsWithDeps h hc b o).mp hc') k)
    hist init (wf_init cfg) (exact_init cfg) hc

theorem run_wf (cfg : Cfg) (hist : Hist) : WF cfg (run cfg init hist) :=
  runWith_wf removedGwsWithDeps hist (wf_init cfg)

/-! ### the pre-fix code (regression detector) -/

/-- the two inclusions that the pre-fix code maintained -/
structure Sem (cfg : Cfg) (s : State) : Prop where
  dep_has_gateway : ∀ k, hasKey s.prov k = true → hasKey s.gws k = true
  class_has_dep   : ∀ k, get? s.gws k = some cfg.gcName → hasKey s.prov k = true

theorem sem_init (cfg : Cfg) : Sem cfg init := by constructor <;> simp [init]

theorem stepPreFix_sem {cfg : Cfg} {s : State} (h : WF cfg s) (hc : s.crashed = none) (b : List Ev) (o : List Key)
    (hc' : (stepPreFix cfg s b o).crashed = none) : Sem cfg (stepPreFix cfg s b o) := by
  have hg := (stepWith_crashed_iff removedPreFix h hc b o).mp hc'
  have g := stepWith_gws removedPreFix cfg s b o h hc
  have p := stepPreFix_prov cfg s b o h hc hg
  constructor
  · intro k hk
    rw [p k] at hk
    show hasKey (stepWith removedPreFix cfg s b o).gws k = true
    rw [g]
    simp only [Bool.and_eq_true, Bool.or_eq_true, decide_eq_true_eq, Bool.not_eq_true', Bool.and_eq_false_iff,
      Bool.not_eq_false'] at hk
    rcases hk with ⟨h1 | h1, h2⟩
    · rcases h2 with h2 | h2
      · rw [h1] at h2; cases h2
      · exact h2
    · exact hasKey_of_get?_some h1
  · intro k hk
    have hk' : get? (storeUpdate s b).gws k = some cfg.gcName := g ▸ hk
    rw [p k]
    simp [hk', hasKey_of_get?_some hk']

theorem runPreFix_sem (cfg : Cfg) (hist : Hist) (hc : (runPreFix cfg init hist).crashed = none) :
    Sem cfg (runPreFix cfg init hist) :=
  runWith_induct removedPreFix (Sem cfg) (fun s b o h hc hc' => stepPreFix_sem h hc b o hc') hist init
    (wf_init cfg) (sem_init cfg) hc

/-- No Gateway that has a Deployment before the batch is, after the batch's `store.update`, stored
with a class other than the configured one. -/
def noAway (cfg : Cfg) (s : State) (b : List Ev) : Bool :=
  s.prov.all (fun p => match get? (storeUpdate s b).gws p.1 with
    | some c => c == cfg.gcName
    | none => true)

def noAwayHist (cfg : Cfg) : State → Hist → Bool
  | _, [] => true
  | s, (b, o) :: rest => noAway cfg s b && noAwayHist cfg (stepPreFix cfg s b o) rest

theorem noAway_spec {cfg : Cfg} {s : State} {b : List Ev} (h : noAway cfg s b = true) {k : Key}
    (hk : hasKey s.prov k = true) {c : Str} (hc : get? (storeUpdate s b).gws k = some c) : c = cfg.gcName := by
  obtain ⟨d, hd⟩ := hasKey_iff_mem.mp hk
  have := List.all_eq_true.mp h (k, d) hd
  simp only [hc, beq_iff_eq] at this
  exact this

/-- the inclusion that failed before the fix: every Deployment's Gateway names the configured class -/
def Match (cfg : Cfg) (s : State) : Prop := ∀ k, hasKey s.prov k = true → get? s.gws k = some cfg.gcName

theorem stepPreFix_match {cfg : Cfg} {s : State} (h : WF cfg s) (hc : s.crashed = none) (b : List Ev) (o : List Key)
    (hc' : (stepPreFix cfg s b o).crashed = none) (hna : noAway cfg s b = true) :
    Match cfg (stepPreFix cfg s b o) := by
  have hg := (stepWith_crashed_iff removedPreFix h hc b o).mp hc'
  have g := stepWith_gws removedPreFix cfg s b o h hc
  have p := stepPreFix_prov cfg s b o h hc hg
  intro k hk
  rw [p k] at hk
  show get? (stepWith removedPreFix cfg s b o).gws k = _
  rw [g]
  simp only [Bool.and_eq_true, Bool.or_eq_true, decide_eq_true_eq, Bool.not_eq_true', Bool.and_eq_false_iff,
    Bool.not_eq_false'] at hk
  rcases hk with ⟨h1 | h1, h2⟩
  · rcases h2 with h2 | h2
    · rw [h1] at h2; cases h2
    · obtain ⟨c, hcc⟩ := get?_some_of_hasKey h2
      rw [hcc, noAway_spec hna h1 hcc]
  · exact h1

theorem runPreFix_match (cfg : Cfg) (hist : Hist) (s : State) (h : WF cfg s) (h0 : Match cfg s)
    (hna : noAwayHist cfg s hist = true) (hc' : (runPreFix cfg s hist).crashed = none) :
    Match cfg (runPreFix cfg s hist) := by
  induction hist generalizing s with
  | nil => exact h0
  | cons x t ih =>
    obtain ⟨b, o⟩ := x
    simp only [runWith] at hc' ⊢
    simp only [noAwayHist, Bool.and_eq_true] at hna
    by_cases hc : s.crashed = none
    · by_cases hs : (stepPreFix cfg s b o).crashed = none
      · exact ih _ (stepWith_wf removedPreFix h _ _) (stepPreFix_match h hc b o hs hna.1) hna.2 hc'
      · rw [runWith_crashed_stays removedPreFix t hs] at hc'; exact absurd hc' hs
    · exfalso
      rw [stepWith_crashed removedPreFix hc, runWith_crashed_stays removedPreFix t hc] at hc'; exact hc hc'

end NGF.Prov
