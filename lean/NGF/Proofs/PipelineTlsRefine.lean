/-
C02 on HTTPS: helpers for `route_refines_spec_https` (Props/C02.lean). The theorem is obtained by PROJECTION: the SSL
servers of `genT s` are the servers of `gen (httpsPart s)` (plus the route-less listeners' 404 servers), so the HTTP
refinement theorem `refines_fragment`, applied to `httpsPart s` / `httpPart s`, does the routing part; what is added
here is the TLS front: valid listeners ↔ ports, SNI selection ↔ covering listener, the 421 check.
-/
import NGF.Model.PipelineTlsEval
import NGF.Proofs.PipelineTls
import NGF.Proofs.PipelineRefine
import NGF.Proofs.PipelineWinner

namespace NGF.PipelineTls
open NGF.Pipeline
open NGF.NginxEval (catchAll isWildName wildCovers selectName)

/-! ### hostnames the real validator accepts are never the catch-all regex -/

theorem hostDNS_ne_catchAll {h : Str} (hd : hostDNS h = true) : h ≠ catchAll := by
  intro e
  subst e
  have : hostDNS catchAll = false := by decide
  rw [this] at hd; cases hd

theorem winner_mem {s : Scenario} {g : Gateway} (h : winner s = some g) : g ∈ s.gateways := by
  unfold winner at h
  split at h
  · exact (List.mem_filter.mp (oldest_spec h).1).1
  · cases h

/-- `inFragmentDNS` makes the hypothesis `namesPlain` of the HTTP refinement theorem redundant -/
theorem namesPlain_of_hostsDNS {s : Scenario} (h : hostsDNS s = true) : namesPlain s = true := by
  simp only [hostsDNS, Bool.and_eq_true, List.all_eq_true, Bool.or_eq_true] at h
  simp only [namesPlain, Bool.and_eq_true, List.all_eq_true, bne_iff_ne, ne_eq]
  refine ⟨fun r hr x hx => hostDNS_ne_catchAll (h.1 r hr x hx), ?_⟩
  cases hw : winner s with
  | none => trivial
  | some g =>
    simp only [List.all_eq_true, bne_iff_ne, ne_eq]
    intro l hl
    rcases h.2 g (winner_mem hw) l hl with he | hd
    · intro e; rw [e] at he; simp [catchAll] at he
    · exact hostDNS_ne_catchAll hd

/-! ### projections stay inside the fragment -/

theorem eraseDups_eq_self {γ} [BEq γ] [LawfulBEq γ] : ∀ {l : List γ}, l.Pairwise (· ≠ ·) → l.eraseDups = l
  | [], _ => by simp
  | a :: as, h => by
    rw [List.eraseDups_cons]
    have hp := List.pairwise_cons.mp h
    have : as.filter (fun b => !b == a) = as := List.filter_eq_self.mpr (by
      intro b hb; simpa using fun e => hp.1 b hb e.symm)
    rw [this, eraseDups_eq_self hp.2]

theorem nodup_of_sublist {α} [BEq α] [LawfulBEq α] {l' l : List α} (hs : l'.Sublist l) (h : nodup l = true) :
    nodup l' = true := by
  have hp := (pairwise_of_nodup _ _ (Nat.le_refl _) h).sublist hs
  show (l'.eraseDups.length == l'.length) = true
  rw [eraseDups_eq_self hp]
  simp

theorem projGw_listeners_sublist (keep : GatewayT → ListenerT → Bool) (g : GatewayT) :
    (projGw keep g).listeners.Sublist (projGw (fun _ _ => true) g).listeners := by
  have : (g.listeners.filter fun _ => true) = g.listeners := List.filter_eq_self.mpr (fun _ _ => rfl)
  simp only [projGw]
  rw [this]
  exact List.Sublist.map _ List.filter_sublist

theorem gatewayOK_proj (keep : GatewayT → ListenerT → Bool) (g : GatewayT)
    (h : gatewayOK (projGw (fun _ _ => true) g) = true) : gatewayOK (projGw keep g) = true := by
  have hs := projGw_listeners_sublist keep g
  simp only [gatewayOK, Bool.and_eq_true, List.all_eq_true] at h ⊢
  refine ⟨⟨nodup_of_sublist (hs.map _) h.1.1, nodup_of_sublist (hs.map _) h.1.2⟩, ?_⟩
  intro l hl
  exact h.2 l (hs.subset hl)

theorem inFragment_proj (keep : GatewayT → ListenerT → Bool) {s : ScenarioT} (h : inFragment (allPart s) = true) :
    inFragment (proj keep s) = true := by
  unfold inFragment at h ⊢
  have hr : (proj keep s).routes = (allPart s).routes := rfl
  have hwa : winner (allPart s) = (winnerT s).map (projGw fun _ _ => true) := winner_proj _ s
  rw [hr, winner_proj]
  rw [hwa] at h
  cases hw : winnerT s with
  | none => rw [hw] at h; exact h
  | some g =>
    rw [hw] at h
    simp only [Option.map_some, Bool.and_eq_true] at h ⊢
    exact ⟨h.1, gatewayOK_proj keep g h.2⟩

theorem hostsDNS_proj (keep : GatewayT → ListenerT → Bool) {s : ScenarioT} (h : hostsDNS (allPart s) = true) :
    hostsDNS (proj keep s) = true := by
  simp only [hostsDNS, Bool.and_eq_true, List.all_eq_true, Bool.or_eq_true] at h ⊢
  refine ⟨h.1, ?_⟩
  intro g hg l hl
  simp only [proj, List.mem_map] at hg
  obtain ⟨gT, hgT, rfl⟩ := hg
  exact h.2 (projGw (fun _ _ => true) gT) (by simp only [allPart, proj, List.mem_map]; exact ⟨gT, hgT, rfl⟩) l
    ((projGw_listeners_sublist keep gT).subset hl)

/-! ### the specification's valid listeners are the generator's -/

theorem specGroupConflict_eq (g : GatewayT) (l : ListenerT) : specGroupConflict g l = conflicted g l := rfl

theorem specValid_https {s : ScenarioT} {g : GatewayT} {l : ListenerT} (hl : l.https = true) :
    specValid s g l = validHttps s g l := by
  cases hv : validHttps s g l with
  | true =>
    obtain ⟨c, hc, _⟩ := valid_cert hv
    obtain ⟨_, h2, h3⟩ := validHttps_iff.mp hv
    simp [specValid, specFieldsOK, hc, specGroupConflict_eq, h2, specSecretOK, hl]
    exact h3
  | false =>
    cases hc : l.cert with
    | none => simp [specValid, specFieldsOK, hl, hc]
    | some c =>
      simp only [validHttps, hl, Bool.true_and, Bool.and_eq_false_iff, Bool.not_eq_false',
        decide_eq_false_iff_not] at hv
      simp only [specValid, specFieldsOK, hl, Bool.not_true, hc, Option.isSome_some, Bool.or_true, Bool.true_and,
        Bool.false_or, specGroupConflict_eq, specSecretOK, Bool.and_eq_false_iff, Bool.not_eq_false',
        decide_eq_false_iff_not]
      exact hv

theorem specValid_http {s : ScenarioT} {g : GatewayT} {l : ListenerT} (hl : l.https = false) :
    specValid s g l = validHttp g l := by
  simp [specValid, specFieldsOK, hl, specGroupConflict_eq, validHttp]

theorem specScenario_true (s : ScenarioT) : specScenario true s = httpsPart s := by
  unfold specScenario httpsPart proj
  congr 1
  apply List.map_congr_left
  intro g _
  unfold projGw
  congr 2
  apply List.filter_congr
  intro l _
  cases hl : l.https with
  | true => simp [specValid_https hl]
  | false => simp [validHttps, hl]

theorem specScenario_false (s : ScenarioT) : specScenario false s = httpPart s := by
  unfold specScenario httpPart proj
  congr 1
  apply List.map_congr_left
  intro g _
  unfold projGw
  congr 2
  apply List.filter_congr
  intro l _
  cases hl : l.https with
  | true => simp [validHttp, hl]
  | false => simp [specValid_http hl]

/-- an HTTP and an HTTPS listener that are both valid never share a port -/
theorem no_mixed_port {s : ScenarioT} {g : GatewayT} {a b : ListenerT} (hb : b ∈ g.listeners)
    (ha' : validHttp g a = true) (hb' : validHttps s g b = true) : a.base.port ≠ b.base.port := by
  intro e
  obtain ⟨c, hc, _⟩ := valid_cert hb'
  obtain ⟨hbs, _, _⟩ := validHttps_iff.mp hb'
  simp only [validHttp, Bool.and_eq_true, Bool.not_eq_true'] at ha'
  have : conflicted g a = true := by
    simp only [conflicted, List.any_eq_true]
    refine ⟨b, hb, ?_⟩
    simp [ListenerT.fieldsOK, hc, e, hbs, ha'.1]
  rw [this] at ha'; cases ha'.2

/-! ### ports -/

theorem http_port_iff {s : ScenarioT} {gT : GatewayT} (hw : winnerT s = some gT) (p : Nat) :
    (genT s).http.ports.contains p = gT.listeners.any fun l => validHttp gT l && l.base.port == p := by
  rw [genT_http, gen_httpPart hw]
  simp only
  rw [ports_contains]
  simp only [projGw, List.any_map, List.any_filter, Function.comp]

theorem ssl_port_contains {s : ScenarioT} {gT : GatewayT} (hw : winnerT s = some gT) (p : Nat) :
    (genT s).sslPorts.contains p = gT.listeners.any fun l => validHttps s gT l && l.base.port == p := by
  cases h : gT.listeners.any fun l => validHttps s gT l && l.base.port == p with
  | true =>
    obtain ⟨l, hl, hc⟩ := List.any_eq_true.mp h
    simp only [Bool.and_eq_true, beq_iff_eq] at hc
    exact List.contains_iff_mem.mpr ((ssl_port_iff hw p).mpr ⟨l, hl, hc.1, hc.2⟩)
  | false =>
    rw [Bool.eq_false_iff]
    intro hc
    obtain ⟨l, hl, hv, hp⟩ := (ssl_port_iff hw p).mp (List.contains_iff_mem.mp hc)
    have := List.any_eq_false.mp h l hl
    simp [hv, hp] at this

/-! ### `selectName` over a part of the names -/

theorem selectName_some_of_cover {names : List Str} {q m : Str} (hq : isWildName q = false ∧ q ≠ catchAll)
    (hm : m ∈ names) (hc : nameCovers m q = true) : ∃ n, selectName names q = some n := by
  cases h : selectName names q with
  | some n => exact ⟨n, rfl⟩
  | none => rw [selectName_none hq h m hm] at hc; cases hc

/-- the most specific covering name of a list is also the choice among any part of the list that contains it -/
theorem selectName_sub {N G : List Str} {q n : Str} (hq : isWildName q = false ∧ q ≠ catchAll)
    (hlen : q.length < 100000) (hsub : ∀ m ∈ G, m ∈ N) (hn : selectName N q = some n) (hG : n ∈ G) :
    selectName G q = some n := by
  obtain ⟨_, hcov, hmax⟩ := selectName_most_specific hq hlen hn
  obtain ⟨m, hm⟩ := selectName_some_of_cover hq hG hcov
  obtain ⟨hmG, hmcov, hmmax⟩ := selectName_most_specific hq hlen hm
  have h1 := hmax m (hsub m hmG) hmcov
  have h2 := hmmax n hG hcov
  rw [hm, nameSpec_inj hq hmcov hcov (by omega)]

/-! ### the SSL servers of `genT` -/

theorem serverEval_eq : serverEval = locEval := rfl

/-- a server without entries (the 404 server of a route-less listener) answers 404 -/
theorem serverEval_empty (p : Nat) (n : Str) {q : Req} (hq : q.path.head? = some '/') :
    serverEval (serverOf [] p n) q = .status 404 := by
  have hlocs : (serverOf [] p n).locs = [{ exact := false, path := ['/'], act := .direct (.status 404) }] := by
    simp [serverOf, Precedence.genLocs, Precedence.extLocsFrom]
  unfold serverEval
  rw [hlocs]
  cases hp : q.path with
  | nil => rw [hp] at hq; simp at hq
  | cons c cs =>
    rw [hp] at hq
    simp only [List.head?_cons, Option.some.injEq] at hq
    subst hq
    cases cs with
    | nil => simp [NGF.NginxEval.selectLoc, toLoc, evalLocAct, evalAct]
    | cons d ds =>
      simp [NGF.NginxEval.selectLoc, NGF.NginxEval.bestPrefix, toLoc, evalLocAct, evalAct]

/-- the routed servers of port `p`: names of `gen (httpsPart s)` -/
def routedNames (s : ScenarioT) (p : Nat) : List Str :=
  ((gen (httpsPart s)).servers.filter (·.port == p)).map (·.name)

theorem mem_routedNames {s : ScenarioT} {gT : GatewayT} (hw : winnerT s = some gT) {p : Nat} {n : Str} :
    n ∈ routedNames s p ↔ (p, n) ∈ hostsOf (projGw (validHttps s) gT) s.routes := by
  unfold routedNames
  rw [gen_httpsPart hw]
  simp only [List.mem_map, List.mem_filter, beq_iff_eq]
  constructor
  · rintro ⟨sv, ⟨⟨ph, hph, rfl⟩, hp⟩, rfl⟩
    simp only [serverOf] at hp ⊢
    rw [← hp]; exact hph
  · intro h
    exact ⟨_, ⟨⟨(p, n), h, rfl⟩, rfl⟩, rfl⟩

theorem routedNames_eq {s : ScenarioT} {gT : GatewayT} (hw : winnerT s = some gT) (p : Nat) :
    routedNames s p = ((hostsOf (projGw (validHttps s) gT) s.routes).filter (·.1 == p)).map (·.2) := by
  unfold routedNames
  rw [gen_httpsPart hw]
  simp only [List.filter_map, List.map_map]
  rfl

/-- the SSL servers of a port: the routed ones first, then the route-less listeners' own -/
theorem sslServers_split {s : ScenarioT} {gT : GatewayT} (hw : winnerT s = some gT) (p : Nat) :
    sslServers (genT s) p =
      (((gen (httpsPart s)).servers.map fun sv =>
          (sv, (ownerOf (projGw (validHttps s) gT) s.routes
                  ((sslListeners s gT).filter (·.base.port == sv.port)) sv.name).bind kpOf)).filter (·.1.port == p)) ++
      ((listenerOnly (projGw (validHttps s) gT) s.routes (sslListeners s gT)).filter (·.1.port == p)) := by
  unfold sslServers
  rw [genT_some hw, List.filter_append]

theorem routed_sub_ssl {s : ScenarioT} {gT : GatewayT} (hw : winnerT s = some gT) (p : Nat) :
    ∀ m ∈ routedNames s p, m ∈ sslNames (genT s) p := by
  intro m hm
  unfold sslNames
  rw [sslServers_split hw]
  simp only [routedNames, List.mem_map, List.mem_filter] at hm
  obtain ⟨sv, ⟨hsv, hp⟩, rfl⟩ := hm
  simp only [List.map_append, List.mem_append, List.mem_map, List.mem_filter]
  left
  exact ⟨(sv, _), ⟨⟨sv, hsv, rfl⟩, hp⟩, rfl⟩

/-- the first SSL server of a routed name is the server `gen (httpsPart s)` has for it -/
theorem find_routed {s : ScenarioT} {gT : GatewayT} (hw : winnerT s = some gT) {p : Nat} {n : Str}
    (hn : n ∈ routedNames s p) :
    ∃ kp, (sslServers (genT s) p).find? (·.1.name == n) =
      some (serverOf (entries (projGw (validHttps s) gT) s.routes) p n, kp) := by
  rw [sslServers_split hw, List.find?_append]
  have hmem := (mem_routedNames hw).mp hn
  generalize hL : (((gen (httpsPart s)).servers.map fun sv =>
          (sv, (ownerOf (projGw (validHttps s) gT) s.routes
                  ((sslListeners s gT).filter (·.base.port == sv.port)) sv.name).bind kpOf)).filter (·.1.port == p)) = L
  cases hf : L.find? (·.1.name == n) with
  | none =>
    exfalso
    have hx : (serverOf (entries (projGw (validHttps s) gT) s.routes) p n,
        (ownerOf (projGw (validHttps s) gT) s.routes ((sslListeners s gT).filter (·.base.port == p)) n).bind kpOf) ∈ L := by
      rw [← hL, gen_httpsPart hw]
      simp only [List.mem_filter, List.mem_map]
      exact ⟨⟨_, ⟨(p, n), hmem, rfl⟩, rfl⟩, by simp [serverOf]⟩
    have := List.find?_eq_none.mp hf _ hx
    simp [serverOf] at this
  | some x =>
    have hxm := List.mem_of_find?_eq_some hf
    have hxn := List.find?_some hf
    rw [← hL, gen_httpsPart hw] at hxm
    simp only [List.mem_filter, List.mem_map, beq_iff_eq] at hxm hxn
    have hx1 : x.1 = serverOf (entries (projGw (validHttps s) gT) s.routes) p n := by
      obtain ⟨⟨sv, ⟨ph, _, rfl⟩, rfl⟩, hp⟩ := hxm
      simp only [serverOf] at hp hxn
      simp only [serverOf, hp, hxn]
    refine ⟨x.2, ?_⟩
    rw [Option.some_or, ← hx1]

/-- an SSL server of an unrouted name is a route-less listener's 404 server -/
theorem find_unrouted {s : ScenarioT} {gT : GatewayT} (hw : winnerT s = some gT) {p : Nat} {n : Str}
    (hn : n ∉ routedNames s p) {sv : CServer × Option (List Char)}
    (hf : (sslServers (genT s) p).find? (·.1.name == n) = some sv) :
    ∃ p' n', sv.1 = serverOf [] p' n' := by
  rw [sslServers_split hw, List.find?_append] at hf
  generalize hL : (((gen (httpsPart s)).servers.map fun sv =>
          (sv, (ownerOf (projGw (validHttps s) gT) s.routes
                  ((sslListeners s gT).filter (·.base.port == sv.port)) sv.name).bind kpOf)).filter (·.1.port == p)) = L at hf
  cases h1 : L.find? (·.1.name == n) with
  | some x =>
    exfalso
    have hxm := List.mem_of_find?_eq_some h1
    have hxn := List.find?_some h1
    rw [← hL] at hxm
    simp only [List.mem_filter, List.mem_map, beq_iff_eq] at hxm hxn
    obtain ⟨⟨sv', hsv', rfl⟩, hp⟩ := hxm
    apply hn
    simp only [routedNames, List.mem_map, List.mem_filter, beq_iff_eq]
    exact ⟨sv', ⟨hsv', hp⟩, hxn⟩
  | none =>
    rw [h1, Option.none_or] at hf
    have hm := List.mem_of_find?_eq_some hf
    simp only [List.mem_filter, listenerOnly, List.mem_map] at hm
    obtain ⟨⟨l, _, rfl⟩, _⟩ := hm
    exact ⟨_, _, rfl⟩

/-- every SSL server of `genT s` presents a certificate -/
theorem ssl_has_cert {s : ScenarioT} {gT : GatewayT} (hw : winnerT s = some gT) {p : Nat}
    {sv : CServer × Option (List Char)} (h : sv ∈ sslServers (genT s) p) : sv.2.isSome = true := by
  have hm : (sv.1, sv.2) ∈ (genT s).ssl := (List.mem_filter.mp h).1
  rcases mem_ssl hw hm with ⟨hsv, hkp⟩ | ⟨l, hl, _, _, hkp⟩
  · rw [gen_httpsPart hw] at hsv
    simp only [List.mem_map] at hsv
    obtain ⟨ph, hph, e⟩ := hsv
    obtain ⟨l0, hl0, hp0, r, hr, hv, hacc⟩ := mem_hostsOf hph
    obtain ⟨lT, hlT, hval, rfl⟩ := mem_projGw_listeners hl0
    have hcar : carries (projGw (validHttps s) gT) s.routes ph.2 lT = true := by
      rw [carries_iff]
      exact ⟨r, hr, hv, hacc⟩
    have hin : lT ∈ (sslListeners s gT).filter (·.base.port == sv.1.port) := by
      rw [← e]
      simp only [List.mem_filter, mem_sslListeners, serverOf, beq_iff_eq]
      exact ⟨⟨hlT, hval⟩, hp0⟩
    have hsome := ownerOf_isSome (g := projGw (validHttps s) gT) (routes := s.routes) (h := sv.1.name) hin
      (by rw [← e]; simpa [serverOf] using hcar)
    obtain ⟨w, hw'⟩ := Option.isSome_iff_exists.mp hsome
    have hws := ownerOf_spec hw'
    rw [hkp, hw']
    simp only [Option.bind_some]
    have hwv : w ∈ sslListeners s gT := (List.mem_filter.mp hws.1).1
    obtain ⟨c, hc, _⟩ := valid_cert (mem_sslListeners.mp hwv).2
    simp [kpOf, hc]
  · obtain ⟨c, hc, _⟩ := valid_cert (mem_sslListeners.mp hl).2
    rw [hkp]; simp [kpOf, hc]

/-- a generated SSL server name that stands for a concrete host belongs to a valid HTTPS listener that covers the host -/
theorem ssl_name_listener {s : ScenarioT} {gT : GatewayT} (hw : winnerT s = some gT)
    (ok : ScenOK (projGw (validHttps s) gT) s.routes) (hlc : ∀ l ∈ gT.listeners, l.base.host ≠ catchAll)
    {p : Nat} {n q : Str}
    (hq : NGF.Hostname.isWild q = false) (hn : n ∈ sslNames (genT s) p) (hc : nameCovers n q = true) :
    ∃ l ∈ gT.listeners, validHttps s gT l = true ∧ l.base.port = p ∧ covers l.base.host q = true := by
  simp only [sslNames, List.mem_map] at hn
  obtain ⟨sv, hsv, rfl⟩ := hn
  have hp : sv.1.port = p := by simpa using (List.mem_filter.mp hsv).2
  have hm : (sv.1, sv.2) ∈ (genT s).ssl := (List.mem_filter.mp hsv).1
  rcases mem_ssl hw hm with ⟨hsv', _⟩ | ⟨l, hl, _, he, _⟩
  · rw [gen_httpsPart hw] at hsv'
    simp only [List.mem_map] at hsv'
    obtain ⟨ph, hph, e⟩ := hsv'
    obtain ⟨c, hx⟩ := xe_of_host ok (p := ph.1) (h := ph.2) hph
    obtain ⟨l0, hl0, r, hr, _, _, _, hh, hhh, _, _, _, _, hxe⟩ := mem_xentries.mp hx
    obtain ⟨lT, hlT, hval, rfl⟩ := mem_projGw_listeners hl0
    have hcv := (acceptedX_covers (ok.hosts lT.base hl0 r hr) hq hhh).1
    have hname : sv.1.name = hh.1 := by
      rw [← e]
      have := congrArg XE.host hxe
      simpa [serverOf, mkX] using this
    have hport : lT.base.port = sv.1.port := by
      rw [← e]
      have := congrArg XE.port hxe
      simpa [serverOf, mkX] using this.symm
    rw [hname, hcv, Bool.and_eq_true] at hc
    exact ⟨lT, hlT, hval, hport.trans hp, hc.1⟩
  · have hl' := mem_sslListeners.mp hl
    refine ⟨l, hl'.1, hl'.2, ?_, ?_⟩
    · rw [← hp, he]; rfl
    · rw [he] at hc
      simp only [serverOf] at hc
      unfold serverName at hc
      by_cases hemp : l.base.host.isEmpty = true
      · have : l.base.host = [] := by simpa using hemp
        simp [covers, this]
      · simp only [hemp, Bool.false_eq_true, ↓reduceIte] at hc
        have hne : l.base.host ≠ [] := by intro e; simp [e] at hemp
        have hcat : l.base.host ≠ catchAll := hlc l hl'.1
        rw [nameCovers_eq hne hcat] at hc
        exact hc

/-! ### the hypotheses, unpacked -/

structure TOK (s : ScenarioT) : Prop where
  frag : inFragment (allPart s) = true
  dns : hostsDNS (allPart s) = true
  rules : routesHaveRules (allPart s) = true
  shHttp : noShadow (gen (httpPart s)) = true
  shHttps : noShadow (gen (httpsPart s)) = true

theorem refineOKT_unpack {s : ScenarioT} (h : refineOKT s = true) : TOK s := by
  simp only [refineOKT, inFragmentT, Bool.and_eq_true] at h
  exact ⟨h.1.1.1.1.1, h.1.1.1.2, h.1.1.2, h.1.2, h.2⟩

/-- the HTTP refinement theorem on a projection of the scenario -/
theorem refines_part (keep : GatewayT → ListenerT → Bool) {s : ScenarioT} (tok : TOK s)
    (hsh : noShadow (gen (proj keep s)) = true) {q : Req} (hq : reqOK q = true) :
    nginxEvalConf (gen (proj keep s)) q = routeF (proj keep s) q :=
  refines_fragment (proj keep s) q (inFragment_proj keep tok.frag) hsh
    (namesPlain_of_hostsDNS (hostsDNS_proj keep tok.dns)) tok.rules hq

theorem scenOK_https {s : ScenarioT} {gT : GatewayT} (hw : winnerT s = some gT) (tok : TOK s) :
    ScenOK (projGw (validHttps s) gT) s.routes := by
  have hwp : winner (httpsPart s) = some (projGw (validHttps s) gT) := by
    unfold httpsPart; rw [winner_proj, hw]; rfl
  exact scenOK_of hwp (inFragment_proj _ tok.frag) (namesPlain_of_hostsDNS (hostsDNS_proj _ tok.dns)) tok.rules

theorem listeners_not_catchAll {s : ScenarioT} {gT : GatewayT} (hw : winnerT s = some gT) (tok : TOK s) :
    ∀ l ∈ gT.listeners, l.base.host ≠ catchAll := by
  intro l hl
  have hd := tok.dns
  simp only [hostsDNS, Bool.and_eq_true, List.all_eq_true, Bool.or_eq_true] at hd
  have hg : projGw (fun _ _ => true) gT ∈ (allPart s).gateways := by
    simp only [allPart, proj, List.mem_map]
    exact ⟨gT, winnerT_mem hw, rfl⟩
  have hlm : l.base ∈ (projGw (fun _ _ => true) gT).listeners := by
    simp only [projGw, List.mem_map, List.mem_filter]
    exact ⟨l, ⟨hl, trivial⟩, rfl⟩
  rcases hd.2 _ hg _ hlm with he | hd'
  · intro e; rw [e] at he; simp [catchAll] at he
  · exact hostDNS_ne_catchAll hd'

/-! ### the valid listeners of a port, specification side -/

theorem valid_any_https (s : ScenarioT) (gT : GatewayT) (p : Nat) :
    (gT.listeners.filter fun l => specValid s gT l && l.base.port == p).any (·.https) =
      gT.listeners.any fun l => validHttps s gT l && l.base.port == p := by
  rw [List.any_filter]
  congr 1
  funext l
  cases hl : l.https with
  | true => simp [specValid_https hl, Bool.and_comm]
  | false => simp [validHttps, hl]

theorem valid_isEmpty (s : ScenarioT) (gT : GatewayT) (p : Nat) :
    (gT.listeners.filter fun l => specValid s gT l && l.base.port == p).isEmpty =
      !((gT.listeners.any fun l => validHttps s gT l && l.base.port == p) ||
        (gT.listeners.any fun l => validHttp gT l && l.base.port == p)) := by
  have key : ∀ l : ListenerT, (specValid s gT l && l.base.port == p) =
      ((validHttps s gT l && l.base.port == p) || (validHttp gT l && l.base.port == p)) := by
    intro l
    cases hl : l.https with
    | true => simp [specValid_https hl, validHttp, hl]
    | false => simp [specValid_http hl, validHttps, hl]
  induction gT.listeners with
  | nil => simp
  | cons x xs ih =>
    simp only [List.filter_cons, List.any_cons]
    rw [key x]
    cases h1 : (validHttps s gT x && x.base.port == p) <;> cases h2 : (validHttp gT x && x.base.port == p) <;>
      simp_all [Bool.or_comm]

theorem valid_any_covers {s : ScenarioT} {gT : GatewayT} {p : Nat}
    (hB : (gT.listeners.any fun l => validHttp gT l && l.base.port == p) = false) (x : Str) :
    (gT.listeners.filter fun l => specValid s gT l && l.base.port == p).any (fun l => covers l.base.host x) =
      gT.listeners.any fun l => validHttps s gT l && l.base.port == p && covers l.base.host x := by
  rw [List.any_filter, Bool.eq_iff_iff, List.any_eq_true, List.any_eq_true]
  constructor
  · rintro ⟨l, hl, hc⟩
    refine ⟨l, hl, ?_⟩
    simp only [Bool.and_eq_true] at hc ⊢
    cases hh : l.https with
    | true => rw [specValid_https hh] at hc; exact hc
    | false =>
      exfalso
      rw [specValid_http hh] at hc
      have := List.any_eq_false.mp hB l hl
      simp [hc.1.1, hc.1.2] at this
  · rintro ⟨l, hl, hc⟩
    refine ⟨l, hl, ?_⟩
    simp only [Bool.and_eq_true] at hc ⊢
    have hh : l.https = true := (validHttps_iff.mp hc.1.1).1
    rw [specValid_https hh]; exact hc

end NGF.PipelineTls
