/-
Helper lemmas for C20 (`NGF.Props.C20`): list splitting, decimal digits, character classes.
Core Lean only.
-/
import NGF.Model.Cli
import NGF.Model.CliJudge

namespace NGF.Cli

/-! ### splitting -/

theorem contains_false_iff {c : Char} {s : Str} : s.contains c = false ↔ c ∉ s := by
  rw [← List.contains_iff_mem (a := c) (as := s)]; simp

theorem splitOnC_no_sep {c : Char} {f : Str} (h : c ∉ f) : splitOnC c f = [f] := by
  induction f with
  | nil => rfl
  | cons x xs ih =>
    have hx : (x == c) = false := by
      simp only [beq_eq_false_iff_ne, ne_eq]; intro e; exact h (by simp [e])
    have hxs : c ∉ xs := fun m => h (List.mem_cons_of_mem _ m)
    simp [splitOnC, hx, ih hxs]

theorem splitOnC_append_sep {c : Char} {f r : Str} (h : c ∉ f) :
    splitOnC c (f ++ c :: r) = f :: splitOnC c r := by
  induction f with
  | nil => simp [splitOnC]
  | cons x xs ih =>
    have hx : (x == c) = false := by
      simp only [beq_eq_false_iff_ne, ne_eq]; intro e; exact h (by simp [e])
    have hxs : c ∉ xs := fun m => h (List.mem_cons_of_mem _ m)
    simp [splitOnC, hx, ih hxs]

theorem splitFirst_append_sep {c : Char} {f r : Str} (h : c ∉ f) :
    splitFirst c (f ++ c :: r) = some (f, r) := by
  induction f with
  | nil => simp [splitFirst]
  | cons x xs ih =>
    have hx : (x == c) = false := by
      simp only [beq_eq_false_iff_ne, ne_eq]; intro e; exact h (by simp [e])
    have hxs : c ∉ xs := fun m => h (List.mem_cons_of_mem _ m)
    simp [splitFirst, hx, ih hxs]

theorem splitFirst_none {c : Char} {s : Str} (h : c ∉ s) : splitFirst c s = none := by
  induction s with
  | nil => rfl
  | cons x xs ih =>
    have hx : (x == c) = false := by
      simp only [beq_eq_false_iff_ne, ne_eq]; intro e; exact h (by simp [e])
    have hxs : c ∉ xs := fun m => h (List.mem_cons_of_mem _ m)
    simp [splitFirst, hx, ih hxs]

theorem splitLast_none {c : Char} {s : Str} (h : c ∉ s) : splitLast c s = none := by
  induction s with
  | nil => rfl
  | cons x xs ih =>
    have hx : (x == c) = false := by
      simp only [beq_eq_false_iff_ne, ne_eq]; intro e; exact h (by simp [e])
    have hxs : c ∉ xs := fun m => h (List.mem_cons_of_mem _ m)
    simp [splitLast, hx, ih hxs]

theorem splitLast_append_sep {c : Char} {f r : Str} (h : c ∉ r) :
    splitLast c (f ++ c :: r) = some (f, r) := by
  induction f with
  | nil => simp [splitLast, splitLast_none h]
  | cons x xs ih => simp [splitLast, ih]

/-- what `splitFirst` returns reassembles the input, and the first part is free of the separator -/
theorem splitFirst_some {c : Char} {s a b : Str} (h : splitFirst c s = some (a, b)) :
    s = a ++ c :: b ∧ c ∉ a := by
  induction s generalizing a with
  | nil => simp [splitFirst] at h
  | cons x xs ih =>
    unfold splitFirst at h
    by_cases hx : (x == c) = true
    · simp only [hx, if_true, Option.some.injEq, Prod.mk.injEq] at h
      obtain ⟨rfl, rfl⟩ := h
      simp only [beq_iff_eq] at hx
      simp [hx]
    · simp only [hx] at h
      cases hr : splitFirst c xs with
      | none => simp [hr] at h
      | some p =>
        obtain ⟨a', b'⟩ := p
        simp only [hr, Bool.false_eq_true, if_false, Option.some.injEq, Prod.mk.injEq] at h
        obtain ⟨rfl, rfl⟩ := h
        obtain ⟨e, n⟩ := ih hr
        refine ⟨by simp [e], ?_⟩
        intro m
        rcases List.mem_cons.mp m with m | m
        · exact hx (by simp [m])
        · exact n m

theorem splitLast_some {c : Char} {s a b : Str} (h : splitLast c s = some (a, b)) :
    s = a ++ c :: b ∧ c ∉ b := by
  induction s generalizing a with
  | nil => simp [splitLast] at h
  | cons x xs ih =>
    unfold splitLast at h
    cases hr : splitLast c xs with
    | some p =>
      obtain ⟨a', b'⟩ := p
      simp only [hr, Option.some.injEq, Prod.mk.injEq] at h
      obtain ⟨rfl, rfl⟩ := h
      obtain ⟨e, n⟩ := ih hr
      exact ⟨by simp [e], n⟩
    | none =>
      simp only [hr] at h
      by_cases hx : (x == c) = true
      · simp only [hx, if_true, Option.some.injEq, Prod.mk.injEq] at h
        obtain ⟨rfl, rfl⟩ := h
        simp only [beq_iff_eq] at hx
        refine ⟨by simp [hx], ?_⟩
        intro m
        have : splitLast c xs ≠ none := by
          clear hr ih
          induction xs with
          | nil => simp at m
          | cons y ys ih2 =>
            unfold splitLast
            cases hys : splitLast c ys with
            | some q => simp
            | none =>
              rcases List.mem_cons.mp m with m | m
              · simp [m]
              · exact absurd hys (ih2 m)
        exact this hr
      · simp [hx] at h

theorem digitsVal_append (a b : Str) (acc : Nat) :
    digitsVal (a ++ b) acc = (digitsVal a acc).bind (digitsVal b) := by
  induction a generalizing acc with
  | nil => simp [digitsVal]
  | cons x xs ih =>
    simp only [List.cons_append, digitsVal]
    split <;> simp [ih]

theorem digitChar_isDigit {d : Nat} (h : d < 10) : isDigit d.digitChar = true ∧ d.digitChar.toNat - 48 = d := by
  have : d = 0 ∨ d = 1 ∨ d = 2 ∨ d = 3 ∨ d = 4 ∨ d = 5 ∨ d = 6 ∨ d = 7 ∨ d = 8 ∨ d = 9 := by omega
  rcases this with h|h|h|h|h|h|h|h|h|h <;> subst h <;> decide

theorem digitsVal_toDigits (n : Nat) : digitsVal (Nat.toDigits 10 n) 0 = some n := by
  induction n using Nat.strongRecOn with
  | _ n ih =>
    by_cases h : n < 10
    · rw [Nat.toDigits_of_lt_base h]
      obtain ⟨h1, h2⟩ := digitChar_isDigit h
      simp [digitsVal, h1, h2]
    · have hq : 0 < n / 10 := by omega
      have e : n = 10 * (n / 10) + n % 10 := by omega
      have hr : n % 10 < 10 := by omega
      rw [e, ← Nat.toDigits_append_toDigits (by omega) hq hr, digitsVal_append,
        ih (n / 10) (by omega), Nat.toDigits_of_lt_base hr]
      obtain ⟨h1, h2⟩ := digitChar_isDigit hr
      simp [digitsVal, h1, h2]
      omega

theorem toDigits_all_digit (n : Nat) : (Nat.toDigits 10 n).all isDigit = true := by
  induction n using Nat.strongRecOn with
  | _ n ih =>
    by_cases h : n < 10
    · rw [Nat.toDigits_of_lt_base h]
      simp [(digitChar_isDigit h).1]
    · have hq : 0 < n / 10 := by omega
      have e : n = 10 * (n / 10) + n % 10 := by omega
      have hr : n % 10 < 10 := by omega
      rw [e, ← Nat.toDigits_append_toDigits (by omega) hq hr, List.all_append,
        ih (n / 10) (by omega), Nat.toDigits_of_lt_base hr]
      simp [(digitChar_isDigit hr).1]

theorem toDigits_ne_nil (n : Nat) : Nat.toDigits 10 n ≠ [] := by
  by_cases h : n < 10
  · rw [Nat.toDigits_of_lt_base h]; simp
  · have hq : 0 < n / 10 := by omega
    have e : n = 10 * (n / 10) + n % 10 := by omega
    have hr : n % 10 < 10 := by omega
    rw [e, ← Nat.toDigits_append_toDigits (by omega) hq hr, Nat.toDigits_of_lt_base hr]
    simp

/-- a string of digits is parsed to its value when that fits -/
theorem parseInt_digits {bits : Nat} {ds : Str} {v : Nat} (hne : ds ≠ []) (hd : ds.all isDigit = true)
    (hv : digitsVal ds 0 = some v) (hfit : v < 2 ^ (bits - 1)) : parseInt bits ds = some (v : Int) := by
  cases ds with
  | nil => exact absurd rfl hne
  | cons c cs =>
    have hc : isDigit c = true := by simp at hd; exact hd.1
    have hp : (c == '+') = false := by
      simp only [beq_eq_false_iff_ne, ne_eq]; intro e; subst e; revert hc; decide
    have hm : (c == '-') = false := by
      simp only [beq_eq_false_iff_ne, ne_eq]; intro e; subst e; revert hc; decide
    simp only [parseInt, hp, hm, Bool.or_self, Bool.false_eq_true, if_false, List.isEmpty_cons, hv]
    have : ¬ (v ≥ 2 ^ (bits - 1)) := by omega
    simp [this]

theorem contains_true_iff {c : Char} {s : Str} : s.contains c = true ↔ c ∈ s :=
  List.contains_iff_mem

theorem splitHostPort_plain {h p : Str}
    (h1 : ':' ∉ h) (h2 : '[' ∉ h) (h3 : ']' ∉ h) (p1 : ':' ∉ p) (p2 : '[' ∉ p) (p3 : ']' ∉ p) :
    splitHostPort (h ++ ':' :: p) = .ok (h, p) := by
  have hc : (h ++ ':' :: p).contains ':' = true := by simp
  have hl := splitLast_append_sep (c := ':') (f := h) (r := p) p1
  have hh : h.contains ':' = false := contains_false_iff.mpr h1
  have ho : (h ++ ':' :: p).contains '[' = false := by
    apply contains_false_iff.mpr; simp [h2, p2]
  have hcl : (h ++ ':' :: p).contains ']' = false := by
    apply contains_false_iff.mpr; simp [h3, p3]
  unfold splitHostPort
  rw [hc]
  cases h with
  | nil =>
    simp only [List.nil_append] at hl ⊢
    simp [hl, p2, p3]
  | cons c cs =>
    have hcb : (c == '[') = false := by
      simp only [beq_eq_false_iff_ne, ne_eq]; intro e; exact h2 (by simp [e])
    simp only [List.cons_append] at hl ⊢
    simp only [List.mem_cons, not_or] at h1 h2 h3
    simp [hcb, hl, h1, h2, h3, p2, p3]

theorem splitHostPort_bracket {h p : Str}
    (h2 : '[' ∉ h) (h3 : ']' ∉ h) (p1 : ':' ∉ p) (p2 : '[' ∉ p) (p3 : ']' ∉ p) :
    splitHostPort ('[' :: (h ++ ']' :: ':' :: p)) = .ok (h, p) := by
  have hf := splitFirst_append_sep (c := ']') (f := h) (r := ':' :: p) h3
  unfold splitHostPort
  simp [hf, h2, p1, p2, p3]

/-- a successful split reassembles the input in one of the two shapes -/
theorem splitHostPort_ok {s h p : Str} (hs : splitHostPort s = .ok (h, p)) :
    (s = h ++ ':' :: p ∧ ':' ∉ h ∧ '[' ∉ h ∧ ']' ∉ h ∧ ':' ∉ p ∧ '[' ∉ p ∧ ']' ∉ p) ∨
    (s = '[' :: (h ++ ']' :: ':' :: p) ∧ '[' ∉ h ∧ ']' ∉ h ∧ ':' ∉ p ∧ '[' ∉ p ∧ ']' ∉ p) := by
  unfold splitHostPort at hs
  split at hs
  · simp at hs
  · cases s with
    | nil => simp at hs
    | cons c rest =>
      simp only at hs
      by_cases hb : (c == '[') = true
      · simp only [hb, if_true] at hs
        right
        cases hf : splitFirst ']' rest with
        | none => simp [hf] at hs
        | some q =>
          obtain ⟨host, after⟩ := q
          simp only [hf] at hs
          cases after with
          | nil => simp at hs
          | cons a port =>
            simp only at hs
            by_cases ha : (a == ':') = true
            · simp only [ha, if_true] at hs
              by_cases c1 : ':' ∈ port
              · simp [c1] at hs
              · by_cases c2 : '[' ∈ rest
                · simp [c1, c2] at hs
                · by_cases c3 : ']' ∈ (a :: port)
                  · simp [c1, c2, c3] at hs
                  · simp only [List.contains_eq_mem, c1, c2, c3, decide_false, Bool.false_eq_true, if_false,
                      Except.ok.injEq, Prod.mk.injEq] at hs
                    obtain ⟨rfl, rfl⟩ := hs
                    obtain ⟨e, n⟩ := splitFirst_some hf
                    simp only [beq_iff_eq] at hb ha
                    subst hb ha
                    subst e
                    refine ⟨rfl, ?_, n, c1, ?_, ?_⟩
                    · intro m; exact c2 (by simp [m])
                    · intro m; exact c2 (by simp [m])
                    · intro m; exact c3 (by simp [m])
            · simp [ha] at hs
      · simp only [hb, Bool.false_eq_true, if_false] at hs
        left
        cases hl : splitLast ':' (c :: rest) with
        | none => simp [hl] at hs
        | some q =>
          obtain ⟨host, port⟩ := q
          simp only [hl] at hs
          by_cases c1 : ':' ∈ host
          · simp [c1] at hs
          · by_cases c2 : '[' ∈ (c :: rest)
            · simp [c1, c2] at hs
            · by_cases c3 : ']' ∈ (c :: rest)
              · simp [c1, c2, c3] at hs
              · simp only [List.contains_eq_mem, c1, c2, c3, decide_false, Bool.false_eq_true, if_false,
                  Except.ok.injEq, Prod.mk.injEq] at hs
                obtain ⟨rfl, rfl⟩ := hs
                obtain ⟨e, n⟩ := splitLast_some hl
                rw [e] at c2 c3
                refine ⟨e, c1, ?_, ?_, n, ?_, ?_⟩
                · intro m; exact c2 (by simp [m])
                · intro m; exact c3 (by simp [m])
                · intro m; exact c2 (by simp [m])
                · intro m; exact c3 (by simp [m])

theorem mem_splitOnC {sep c : Char} {s : Str} (h : c ∈ s) :
    c = sep ∨ ∃ f ∈ splitOnC sep s, c ∈ f := by
  induction s with
  | nil => simp at h
  | cons x xs ih =>
    unfold splitOnC
    by_cases hx : (x == sep) = true
    · simp only [hx, if_true]
      rcases List.mem_cons.mp h with e | m
      · left; simp only [beq_iff_eq] at hx; rw [e, hx]
      · rcases ih m with e | ⟨f, hf, hc⟩
        · exact .inl e
        · exact .inr ⟨f, List.mem_cons_of_mem _ hf, hc⟩
    · simp only [hx, Bool.false_eq_true, if_false]
      cases hr : splitOnC sep xs with
      | nil =>
        simp only
        rcases List.mem_cons.mp h with e | m
        · exact .inr ⟨[x], by simp, by simp [e]⟩
        · rcases ih m with e | ⟨f, hf, _⟩
          · exact .inl e
          · rw [hr] at hf; simp at hf
      | cons g gs =>
        simp only
        rcases List.mem_cons.mp h with e | m
        · exact .inr ⟨x :: g, by simp, by simp [e]⟩
        · rcases ih m with e | ⟨f, hf, hc⟩
          · exact .inl e
          · rw [hr] at hf
            rcases List.mem_cons.mp hf with e | m2
            · exact .inr ⟨x :: g, by simp, by simp [← e, hc]⟩
            · exact .inr ⟨f, by simp [m2], hc⟩

theorem labelRe_chars {l : Str} (h : labelRe l = true) : l ≠ [] ∧ ∀ c ∈ l, isLabelChar c = true := by
  cases l with
  | nil => simp [labelRe] at h
  | cons a as =>
    simp only [labelRe, Bool.and_eq_true, List.all_eq_true] at h
    exact ⟨by simp, h.1.2⟩

theorem subdomainRe_chars {s : Str} (h : subdomainRe s = true) :
    s ≠ [] ∧ ∀ c ∈ s, isLabelChar c = true ∨ c = '.' := by
  simp only [subdomainRe, List.all_eq_true] at h
  constructor
  · intro e; subst e
    have := h [] (by simp [splitOnC])
    simp [labelRe] at this
  · intro c hc
    rcases mem_splitOnC (sep := '.') hc with e | ⟨f, hf, hcf⟩
    · exact .inr e
    · exact .inl ((labelRe_chars (h f hf)).2 c hcf)

theorem octetOK_chars {f : Str} (h : octetOK f = true) : ∀ c ∈ f, isDigit c = true := by
  cases f with
  | nil => simp [octetOK] at h
  | cons a as =>
    simp only [octetOK, Bool.and_eq_true, List.all_eq_true] at h
    exact h.1.1

theorem isV4_chars {s : Str} (h : isV4 s = true) : ∀ c ∈ s, isDigit c = true ∨ c = '.' := by
  simp only [isV4, Bool.and_eq_true, List.all_eq_true] at h
  intro c hc
  rcases mem_splitOnC (sep := '.') hc with e | ⟨f, hf, hcf⟩
  · exact .inr e
  · exact .inl (octetOK_chars (h.2 f hf) c hcf)

theorem hexGroupOK_chars {f : Str} (h : hexGroupOK f = true) : ∀ c ∈ f, isHex c = true := by
  simp only [hexGroupOK, Bool.and_eq_true, List.all_eq_true] at h
  exact h.2

theorem v6Units_fields {fs : List Str} {u : Nat} (h : v6Units fs = some u) :
    ∀ f ∈ fs, f = [] ∨ hexGroupOK f = true ∨ isV4 f = true := by
  induction fs generalizing u with
  | nil => simp
  | cons f rest ih =>
    cases rest with
    | nil =>
      intro g hg
      simp only [List.mem_singleton] at hg; subst hg
      unfold v6Units at h
      by_cases e : g.isEmpty = true
      · left; simpa using e
      · by_cases hh : hexGroupOK g = true
        · exact .inr (.inl hh)
        · by_cases h4 : isV4 g = true
          · exact .inr (.inr h4)
          · simp [e, hh, h4] at h
    | cons g gs =>
      unfold v6Units at h
      intro x hx
      by_cases e : f.isEmpty = true
      · simp only [e, if_true] at h
        rcases List.mem_cons.mp hx with rfl | m
        · left; simpa using e
        · exact ih h x m
      · by_cases hh : hexGroupOK f = true
        · simp only [e, hh, Bool.false_eq_true, if_false, if_true] at h
          cases hr : v6Units (g :: gs) with
          | none => simp [hr] at h
          | some u' =>
            rcases List.mem_cons.mp hx with rfl | m
            · exact .inr (.inl hh)
            · exact ih hr x m
        · simp [e, hh] at h

theorem normLead_mem {fs fs' : List Str} (h : normLead fs = some fs') : ∀ f ∈ fs, f = [] ∨ f ∈ fs' := by
  intro f hf
  unfold normLead at h
  split at h
  · simp only [Option.some.injEq] at h; subst h
    simp only [List.mem_cons] at hf ⊢
    rcases hf with e | e | m
    · exact .inl e
    · exact .inl e
    · exact .inr (.inr m)
  · simp at h
  · simp only [Option.some.injEq] at h; subst h; exact .inr hf

theorem normTrail_mem {fs fs' : List Str} (h : normTrail fs = some fs') : ∀ f ∈ fs, f = [] ∨ f ∈ fs' := by
  intro f hf
  unfold normTrail at h
  split at h
  · rename_i rest hr
    simp only [Option.some.injEq] at h; subst h
    have : f ∈ fs.reverse := List.mem_reverse.mpr hf
    rw [hr] at this
    simp only [List.mem_cons] at this
    rcases this with e | e | m
    · exact .inl e
    · exact .inl e
    · right; simp [m]
  · simp at h
  · simp only [Option.some.injEq] at h; subst h; exact .inr hf

theorem isV6_chars {s : Str} (h : isV6 s = true) : ∀ c ∈ s, isHex c = true ∨ c = ':' ∨ c = '.' := by
  unfold isV6 at h
  cases h1 : normLead (splitOnC ':' s) with
  | none => simp [h1] at h
  | some fs1 =>
    cases h2 : normTrail fs1 with
    | none => simp [h1, h2] at h
    | some fs2 =>
      simp only [h1, Option.bind_some, h2] at h
      cases h3 : v6Units fs2 with
      | none => simp [h3] at h
      | some u =>
        intro c hc
        rcases mem_splitOnC (sep := ':') hc with e | ⟨f, hf, hcf⟩
        · exact .inr (.inl e)
        · rcases normLead_mem h1 f hf with e | m
          · subst e; simp at hcf
          · rcases normTrail_mem h2 f m with e | m2
            · subst e; simp at hcf
            · rcases v6Units_fields h3 f m2 with e | hh | h4
              · subst e; simp at hcf
              · exact .inl (hexGroupOK_chars hh c hcf)
              · rcases isV4_chars h4 c hcf with d | d
                · left; simp [isHex, d]
                · exact .inr (.inr d)

theorem parseIP_chars {s : Str} (h : parseIP s = true) : ∀ c ∈ s, isHex c = true ∨ c = ':' ∨ c = '.' := by
  unfold parseIP at h
  split at h
  · exact isV6_chars h
  · intro c hc
    rcases isV4_chars h c hc with d | d
    · left; simp [isHex, d]
    · exact .inr (.inr d)

/-- every byte of a host accepted by the common tail of the endpoint validators -/
def isHostChar (c : Char) : Bool := isHex c || isLabelChar c || c == ':' || c == '.'

theorem hostOK_chars {h : Str} (hk : hostOK h = true) : h ≠ [] ∧ ∀ c ∈ h, isHostChar c = true := by
  simp only [hostOK, Bool.or_eq_true] at hk
  rcases hk with hk | hk
  · unfold validateIP at hk
    by_cases e : h.isEmpty = true
    · simp [e, Res.isOk] at hk
    · by_cases hp : parseIP h = true
      · refine ⟨by simpa using e, ?_⟩
        intro c hc
        rcases parseIP_chars hp c hc with d | d | d <;> simp [isHostChar, d]
      · simp [e, hp, Res.isOk] at hk
  · simp only [isDNS1123Subdomain, Bool.and_eq_true] at hk
    obtain ⟨ne, hc⟩ := subdomainRe_chars hk.2
    refine ⟨ne, ?_⟩
    intro c m
    rcases hc c m with d | d <;> simp [isHostChar, d]
open NGF.CliSpec

/-- bytes that can occur in a value accepted by the endpoint validators -/
def isEpChar (c : Char) : Bool := isHostChar c || c == '[' || c == ']' || c == '+'

theorem epChar_table : ∀ n < 128, isEpChar (Char.ofNat n) = true → isSafeArgChar (Char.ofNat n) = true := by
  decide

theorem epChar_lt {c : Char} (h : isEpChar c = true) : c.toNat < 128 := by
  simp only [isEpChar, isHostChar, isHex, isLabelChar, isLowerAlnum, isLower, isDigit, Bool.or_eq_true,
    Bool.and_eq_true, decide_eq_true_eq, beq_iff_eq] at h
  rcases h with (((((h | h) | h) | h) | h) | h) | h
  all_goals first | omega | (subst h; decide) | skip
  all_goals rcases h with (h | h) | h
  all_goals first | omega | (subst h; decide)

theorem epChar_safe {c : Char} (h : isEpChar c = true) : isSafeArgChar c = true := by
  have := epChar_table c.toNat (epChar_lt h)
  rw [Char.ofNat_toNat] at this
  exact this h

theorem digitsVal_all {ds : Str} {acc v : Nat} (h : digitsVal ds acc = some v) : ∀ c ∈ ds, isDigit c = true := by
  induction ds generalizing acc with
  | nil => simp
  | cons x xs ih =>
    unfold digitsVal at h
    by_cases hx : isDigit x = true
    · simp only [hx, if_true] at h
      intro c hc
      rcases List.mem_cons.mp hc with e | m
      · rw [e]; exact hx
      · exact ih h c m
    · simp [hx] at h

theorem parseInt_chars {bits : Nat} {p : Str} {v : Int} (h : parseInt bits p = some v) :
    p ≠ [] ∧ ∀ c ∈ p, isDigit c = true ∨ c = '+' ∨ c = '-' := by
  cases p with
  | nil => simp [parseInt] at h
  | cons c cs =>
    refine ⟨by simp, ?_⟩
    simp only [parseInt] at h
    by_cases hs : (c == '+' || c == '-') = true
    · simp only [hs, if_true] at h
      cases hv : digitsVal cs 0 with
      | none => simp [hv] at h
      | some n =>
        have hall := digitsVal_all hv
        intro x hx
        rcases List.mem_cons.mp hx with e | m
        · simp only [Bool.or_eq_true, beq_iff_eq] at hs
          rcases hs with hs | hs
          · exact .inr (.inl (e.trans hs))
          · exact .inr (.inr (e.trans hs))
        · exact .inl (hall x m)
    · simp only [hs, Bool.false_eq_true, if_false] at h
      cases hv : digitsVal (c :: cs) 0 with
      | none => simp [hv] at h
      | some n =>
        have hall := digitsVal_all hv
        intro x hx
        exact .inl (hall x hx)

theorem portCheck_ok {bits lo hi : Nat} {p : Str} (h : portCheck bits lo hi p = .ok) :
    ∃ v : Int, parseInt bits p = some v ∧ (lo : Int) ≤ v ∧ v ≤ (hi : Int) := by
  unfold portCheck at h
  cases hp : parseInt bits p with
  | none => simp [hp] at h
  | some v =>
    simp only [hp] at h
    by_cases c : (v < (lo : Int) || v > (hi : Int)) = true
    · simp [c] at h
    · simp only [Bool.or_eq_true, decide_eq_true_eq, not_or, Int.not_lt] at c
      exact ⟨v, rfl, c.1, by omega⟩

theorem validateEndpoint_ok {cfg : Cfg} {s : Str} (h : validateEndpoint cfg s = .ok) :
    ∃ hst p, splitHostPort s = .ok (hst, p) ∧ portCheck cfg.epBits cfg.epLo cfg.epHi p = .ok ∧ hostOK hst = true := by
  unfold validateEndpoint at h
  cases hs : splitHostPort s with
  | error e => simp [hs] at h
  | ok q =>
    obtain ⟨hst, p⟩ := q
    simp only [hs] at h
    cases hp : portCheck cfg.epBits cfg.epLo cfg.epHi p <;> simp only [hp] at h <;> try (exact absurd h (by decide))
    by_cases hk : hostOK hst = true
    · exact ⟨hst, p, rfl, hp, hk⟩
    · simp [hk] at h

theorem port_chars_ep {bits : Nat} {p : Str} {v : Int} (h : parseInt bits p = some v) :
    ∀ c ∈ p, isEpChar c = true := by
  intro c hc
  rcases (parseInt_chars h).2 c hc with d | d | d
  · simp [isEpChar, isHostChar, isHex, d]
  · simp [isEpChar, d]
  · subst d; decide

theorem hostChar_ep {c : Char} (h : isHostChar c = true) : isEpChar c = true := by simp [isEpChar, h]

/-- every byte of a string reassembled from an accepted host and port is an endpoint byte -/
theorem assembled_chars {s hst p : Str} (hs : splitHostPort s = .ok (hst, p))
    (hh : ∀ c ∈ hst, isEpChar c = true) (hp : ∀ c ∈ p, isEpChar c = true) :
    s ≠ [] ∧ ∀ c ∈ s, isEpChar c = true := by
  rcases splitHostPort_ok hs with ⟨e, _⟩ | ⟨e, _⟩
  · subst e
    refine ⟨by simp, ?_⟩
    intro c hc
    simp only [List.mem_append, List.mem_cons] at hc
    rcases hc with m | rfl | m
    · exact hh c m
    · decide
    · exact hp c m
  · subst e
    refine ⟨by simp, ?_⟩
    intro c hc
    simp only [List.mem_append, List.mem_cons] at hc
    rcases hc with rfl | m | rfl | rfl | m
    · decide
    · exact hh c m
    · decide
    · decide
    · exact hp c m

theorem safeBareArg_of_ep {s : Str} (h : s ≠ [] ∧ ∀ c ∈ s, isEpChar c = true) : safeBareArg s = true := by
  simp only [safeBareArg, Bool.and_eq_true, Bool.not_eq_true', List.all_eq_true]
  exact ⟨by cases s <;> simp_all, fun c hc => epChar_safe (h.2 c hc)⟩
open NGF.CliSpec

theorem digit_not_special {c : Char} (h : isDigit c = true) : c ≠ ':' ∧ c ≠ '[' ∧ c ≠ ']' := by
  refine ⟨?_, ?_, ?_⟩ <;> (intro e; subst e; revert h; decide)

theorem toDigits_no_special (n : Nat) :
    ':' ∉ Nat.toDigits 10 n ∧ '[' ∉ Nat.toDigits 10 n ∧ ']' ∉ Nat.toDigits 10 n := by
  have h := toDigits_all_digit n
  simp only [List.all_eq_true] at h
  refine ⟨?_, ?_, ?_⟩ <;> (intro m; have := digit_not_special (h _ m); simp at this)

theorem hostChar_not_bracket {c : Char} (h : isHostChar c = true) : c ≠ '[' ∧ c ≠ ']' := by
  refine ⟨?_, ?_⟩ <;> (intro e; subst e; revert h; decide)

theorem hostOK_no_bracket {h : Str} (hk : hostOK h = true) : '[' ∉ h ∧ ']' ∉ h := by
  have := (hostOK_chars hk).2
  refine ⟨?_, ?_⟩ <;> (intro m; have := hostChar_not_bracket (this _ m); simp at this)

theorem two_pow_ge {bits : Nat} (h : bits ≥ 17) : 2 ^ (bits - 1) ≥ 65536 := by
  have : 2 ^ 16 ≤ 2 ^ (bits - 1) := Nat.pow_le_pow_right (by omega) (by omega)
  omega

/-- the canonical decimal text of a port in [lo, hi] passes the port check -/
theorem portCheck_decimal {bits lo hi p : Nat} (hb : bits ≥ 17) (h1 : lo ≤ p) (h2 : p ≤ hi) (h3 : hi ≤ 65535) :
    portCheck bits lo hi (Nat.toDigits 10 p) = .ok := by
  have hp := parseInt_digits (bits := bits) (toDigits_ne_nil p) (toDigits_all_digit p) (digitsVal_toDigits p)
    (by have := two_pow_ge hb; omega)
  simp only [portCheck, hp]
  have : ((p : Int) < (lo : Int) || (p : Int) > (hi : Int)) = false := by
    simp only [Bool.or_eq_false_iff, decide_eq_false_iff_not, Int.not_lt]
    omega
  rw [this]; rfl

theorem validateEndpoint_plain {cfg : Cfg} {h : Str} {p : Nat} (hb : cfg.epBits ≥ 17) (hhi : cfg.epHi ≤ 65535)
    (hk : hostOK h = true) (hc : ':' ∉ h) (h1 : cfg.epLo ≤ p) (h2 : p ≤ cfg.epHi) :
    validateEndpoint cfg (h ++ ':' :: Nat.toDigits 10 p) = .ok := by
  obtain ⟨n1, n2, n3⟩ := toDigits_no_special p
  obtain ⟨b1, b2⟩ := hostOK_no_bracket hk
  simp [validateEndpoint, splitHostPort_plain hc b1 b2 n1 n2 n3, portCheck_decimal hb h1 h2 hhi, hk]

theorem validateEndpoint_bracket {cfg : Cfg} {h : Str} {p : Nat} (hb : cfg.epBits ≥ 17) (hhi : cfg.epHi ≤ 65535)
    (hk : hostOK h = true) (h1 : cfg.epLo ≤ p) (h2 : p ≤ cfg.epHi) :
    validateEndpoint cfg ('[' :: (h ++ ']' :: ':' :: Nat.toDigits 10 p)) = .ok := by
  obtain ⟨n1, n2, n3⟩ := toDigits_no_special p
  obtain ⟨b1, b2⟩ := hostOK_no_bracket hk
  simp [validateEndpoint, splitHostPort_bracket b1 b2 n1 n2 n3, portCheck_decimal hb h1 h2 hhi, hk]

theorem toDigits_not_empty (p : Nat) : (Nat.toDigits 10 p).isEmpty = false := by
  have := toDigits_ne_nil p
  cases h : Nat.toDigits 10 p <;> simp_all

/-- the head of a canonical decimal is a digit, so neither empty nor signed -/
theorem toDigits_head (p : Nat) :
    ((Nat.toDigits 10 p).isEmpty || (Nat.toDigits 10 p).head? == some '+' ||
      (Nat.toDigits 10 p).head? == some '-') = false := by
  have hd := toDigits_all_digit p
  have hne := toDigits_ne_nil p
  cases hl : Nat.toDigits 10 p with
  | nil => exact absurd hl hne
  | cons c cs =>
    rw [hl] at hd
    have hc : isDigit c = true := by simp at hd; exact hd.1
    have h1 : c ≠ '+' := by intro e; subst e; revert hc; decide
    have h2 : c ≠ '-' := by intro e; subst e; revert hc; decide
    simp [h1, h2]

theorem validateOpt_plain {cfg : Cfg} {h : Str} {p : Nat} (hb : cfg.optBits ≥ 17) (hhi : cfg.optHi ≤ 65535)
    (hk : hostOK h = true) (hc : ':' ∉ h) (hu : h ≠ "unix".toList) (h1 : cfg.optLo ≤ p) (h2 : p ≤ cfg.optHi) :
    validateEndpointOptionalPort cfg (h ++ ':' :: Nat.toDigits 10 p) = .ok := by
  obtain ⟨n1, n2, n3⟩ := toDigits_no_special p
  obtain ⟨b1, b2⟩ := hostOK_no_bracket hk
  have hne : h.isEmpty = false := by
    have := (hostOK_chars hk).1; cases h <;> simp_all
  have hhead : ((h ++ ':' :: Nat.toDigits 10 p).head? == some '[') = false := by
    cases h with
    | nil => simp at hne
    | cons c cs =>
      have : c ≠ '[' := by intro e; exact b1 (by simp [e])
      simp [this]
  have hux : (h == "unix".toList) = false := by simpa using hu
  unfold validateEndpointOptionalPort
  have hse : (h ++ ':' :: Nat.toDigits 10 p).isEmpty = false := by cases h <;> simp
  rw [hse, splitHostPort_plain hc b1 b2 n1 n2 n3]
  simp only [Bool.false_eq_true, if_false, toDigits_head, hhead, Bool.false_and, hux,
    portCheck_decimal hb h1 h2 hhi, hne, hk, if_true]

theorem validateOpt_bracket {cfg : Cfg} {h : Str} {p : Nat} (hb : cfg.optBits ≥ 17) (hhi : cfg.optHi ≤ 65535)
    (hk : hostOK h = true) (hc : ':' ∈ h) (h1 : cfg.optLo ≤ p) (h2 : p ≤ cfg.optHi) :
    validateEndpointOptionalPort cfg ('[' :: (h ++ ']' :: ':' :: Nat.toDigits 10 p)) = .ok := by
  obtain ⟨n1, n2, n3⟩ := toDigits_no_special p
  obtain ⟨b1, b2⟩ := hostOK_no_bracket hk
  have hne : h.isEmpty = false := by
    have := (hostOK_chars hk).1; cases h <;> simp_all
  have hcc : h.contains ':' = true := List.contains_iff_mem.mpr hc
  have hux : (h == "unix".toList) = false := by
    simp only [beq_eq_false_iff_ne, ne_eq]; intro e; subst e; revert hc; decide
  unfold validateEndpointOptionalPort
  rw [splitHostPort_bracket b1 b2 n1 n2 n3]
  simp only [List.isEmpty_cons, Bool.false_eq_true, if_false, toDigits_head, hcc, Bool.not_true, Bool.and_false,
    hux, portCheck_decimal hb h1 h2 hhi, hne, hk, if_true]

/-- a host without port: SplitHostPort fails with "missing port", which is tolerated -/
theorem validateOpt_bare {cfg : Cfg} {h : Str} (hk : hostOK h = true) (hc : ':' ∉ h) :
    validateEndpointOptionalPort cfg h = .ok := by
  have hne : h.isEmpty = false := by
    have := (hostOK_chars hk).1; cases h <;> simp_all
  have : splitHostPort h = .error .missingPort := by
    simp [splitHostPort, hc]
  simp [validateEndpointOptionalPort, hne, this, tolerated, hk]
open NGF.CliSpec

theorem hostOK_ep_chars {h : Str} (hk : hostOK h = true) : ∀ c ∈ h, isEpChar c = true :=
  fun c m => hostChar_ep ((hostOK_chars hk).2 c m)

theorem validateEndpoint_safe {cfg : Cfg} {s : Str} (h : validateEndpoint cfg s = .ok) : safeBareArg s = true := by
  obtain ⟨hst, p, hs, hp, hk⟩ := validateEndpoint_ok h
  obtain ⟨v, hv, _, _⟩ := portCheck_ok hp
  exact safeBareArg_of_ep (assembled_chars hs (hostOK_ep_chars hk) (port_chars_ep hv))

theorem parseInt_mono {b b' : Nat} {p : Str} {v : Int} (h : parseInt b p = some v) (hb : b ≤ b') :
    parseInt b' p = some v := by
  have hpow : 2 ^ (b - 1) ≤ 2 ^ (b' - 1) := Nat.pow_le_pow_right (by omega) (by omega)
  cases p with
  | nil => simp [parseInt] at h
  | cons c cs =>
    simp only [parseInt] at h ⊢
    generalize (if (c == '+' || c == '-') = true then cs else c :: cs) = ds at h ⊢
    by_cases hne : ds.isEmpty = true
    · simp [hne] at h
    · simp only [hne, Bool.false_eq_true, if_false] at h ⊢
      cases hn : digitsVal ds 0 with
      | none => simp [hn] at h
      | some n =>
        simp only [hn] at h ⊢
        by_cases c1 : (!(c == '-') && decide (n ≥ 2 ^ (b - 1))) = true
        · simp [c1] at h
        · by_cases c2 : ((c == '-') && decide (n > 2 ^ (b - 1))) = true
          · simp [c1, c2] at h
          · simp only [c1, c2, Bool.false_eq_true, if_false] at h
            have d1 : (!(c == '-') && decide (n ≥ 2 ^ (b' - 1))) = false := by
              simp only [Bool.and_eq_true, Bool.not_eq_true', decide_eq_true_eq, not_and, Bool.not_eq_true] at c1
              simp only [Bool.and_eq_false_iff, Bool.not_eq_false', decide_eq_false_iff_not]
              by_cases hm : (c == '-') = true
              · exact .inl hm
              · right; have := c1 (by simpa using hm); simp at this; omega
            have d2 : ((c == '-') && decide (n > 2 ^ (b' - 1))) = false := by
              simp only [Bool.and_eq_true, decide_eq_true_eq, not_and] at c2
              simp only [Bool.and_eq_false_iff, decide_eq_false_iff_not]
              by_cases hm : (c == '-') = true
              · right; have := c2 hm; omega
              · exact .inl (by simpa using hm)
            simp only [d1, d2, Bool.false_eq_true, if_false]
            exact h

theorem hostOK_wellformed {h : Str} (hk : hostOK h = true) :
    (!h.isEmpty && (parseIP h || isDNS1123Subdomain h)) = true := by
  have hne : h.isEmpty = false := by
    have := (hostOK_chars hk).1; cases h <;> simp_all
  simp only [hostOK, Bool.or_eq_true] at hk
  rcases hk with hk | hk
  · unfold validateIP at hk
    simp only [hne, Bool.false_eq_true, if_false] at hk
    by_cases hp : parseIP h = true
    · simp [hne, hp]
    · simp [hp, Res.isOk] at hk
  · simp [hne, hk]

theorem validateEndpoint_wellformed {cfg : Cfg} {s : Str} (hb : cfg.epBits ≤ 64) (hlo : 1 ≤ cfg.epLo)
    (hhi : cfg.epHi ≤ 65535) (h : validateEndpoint cfg s = .ok) : endpointWellFormed s = true := by
  obtain ⟨hst, p, hs, hp, hk⟩ := validateEndpoint_ok h
  obtain ⟨v, hv, v1, v2⟩ := portCheck_ok hp
  have h64 := parseInt_mono hv hb
  have hw := hostOK_wellformed hk
  simp only [Bool.and_eq_true] at hw
  simp only [endpointWellFormed, hs, h64, hw.1, hw.2, Bool.true_and, Bool.and_eq_true, decide_eq_true_eq]
  omega

/-- what an accepted optional-port value looks like -/
theorem validateOpt_ok_cases {cfg : Cfg} {s : Str} (h : validateEndpointOptionalPort cfg s = .ok) :
    s ≠ [] ∧
    ((∃ k, splitHostPort s = .error k ∧ hostOK s = true) ∨
     (∃ hst p, splitHostPort s = .ok (hst, p) ∧ p ≠ [] ∧ p.head? ≠ some '+' ∧
        ¬ (s.head? = some '[' ∧ ':' ∉ hst) ∧ hst ≠ "unix".toList ∧
        portCheck cfg.optBits cfg.optLo cfg.optHi p = .ok ∧ hostOK (if hst.isEmpty then s else hst) = true)) := by
  unfold validateEndpointOptionalPort at h
  by_cases he : s.isEmpty = true
  · simp [he] at h
  · simp only [he, Bool.false_eq_true, if_false] at h
    refine ⟨by cases s <;> simp_all, ?_⟩
    cases hs : splitHostPort s with
    | error k =>
      simp only [hs] at h
      by_cases ht : tolerated k s = true
      · simp only [ht, if_true] at h
        by_cases hk : hostOK s = true
        · exact .inl ⟨k, rfl, hk⟩
        · simp [hk] at h
      · simp [ht] at h
    | ok q =>
      obtain ⟨hst, p⟩ := q
      simp only [hs] at h
      right
      by_cases c1 : (p.isEmpty || p.head? == some '+' || p.head? == some '-') = true
      · simp only [c1, if_true] at h; exact absurd h (by decide)
      · by_cases c2 : (s.head? == some '[' && !hst.contains ':') = true
        · simp only [c1, c2, Bool.false_eq_true, if_false, if_true] at h; exact absurd h (by decide)
        · by_cases c3 : (hst == "unix".toList) = true
          · simp only [c1, c2, c3, Bool.false_eq_true, if_false, if_true] at h; exact absurd h (by decide)
          · simp only [c1, c2, c3, Bool.false_eq_true, if_false] at h
            cases hp : portCheck cfg.optBits cfg.optLo cfg.optHi p <;> simp only [hp] at h <;>
              try (exact absurd h (by decide))
            by_cases hk : hostOK (if hst.isEmpty then s else hst) = true
            · simp only [Bool.or_eq_true, not_or, Bool.not_eq_true] at c1
              refine ⟨hst, p, rfl, ?_, ?_, ?_, ?_, hp, hk⟩
              · intro e; subst e; simp at c1
              · intro e; simp [e] at c1
              · rintro ⟨e1, e2⟩
                apply c2
                simp [e1, e2]
              · intro e; apply c3; simp [e]
            · simp only [hk, Bool.false_eq_true, if_false] at h; exact absurd h (by decide)

theorem validateOpt_safe {cfg : Cfg} {s : Str} (h : validateEndpointOptionalPort cfg s = .ok) :
    safeBareArg s = true := by
  obtain ⟨hne, hc⟩ := validateOpt_ok_cases h
  rcases hc with ⟨k, _, hk⟩ | ⟨hst, p, hs, _, _, _, _, hp, hk⟩
  · exact safeBareArg_of_ep ⟨hne, hostOK_ep_chars hk⟩
  · obtain ⟨v, hv, _, _⟩ := portCheck_ok hp
    by_cases hhe : hst.isEmpty = true
    · simp only [hhe, if_true] at hk
      exact safeBareArg_of_ep ⟨hne, hostOK_ep_chars hk⟩
    · simp only [hhe, Bool.false_eq_true, if_false] at hk
      exact safeBareArg_of_ep (assembled_chars hs (hostOK_ep_chars hk) (port_chars_ep hv))

/-! ### names -/

theorem labelChar_ep {c : Char} (h : isLabelChar c = true ∨ c = '.') : isEpChar c = true := by
  rcases h with h | h <;> simp [isEpChar, isHostChar, h]

theorem subdomain_safe {s : Str} (h : isDNS1123Subdomain s = true) : safeBareArg s = true := by
  simp only [isDNS1123Subdomain, Bool.and_eq_true] at h
  obtain ⟨ne, hc⟩ := subdomainRe_chars h.2
  exact safeBareArg_of_ep ⟨ne, fun c m => labelChar_ep (hc c m)⟩

theorem validateResourceName_iff {s : Str} : validateResourceName s = .ok ↔ isDNS1123Subdomain s = true := by
  unfold validateResourceName
  constructor
  · intro h
    by_cases e : s.isEmpty = true
    · simp [e] at h
    · by_cases d : isDNS1123Subdomain s = true
      · exact d
      · simp [e, d] at h
  · intro d
    have : s.isEmpty = false := by
      simp only [isDNS1123Subdomain, Bool.and_eq_true] at d
      have := (subdomainRe_chars d.2).1
      cases s <;> simp_all
    simp [this, d]

theorem validateNamespaceName_iff {s : Str} : validateNamespaceName s = .ok ↔ isDNS1123Label s = true := by
  unfold validateNamespaceName
  by_cases d : isDNS1123Label s = true <;> simp [d]

theorem splitOnC_ne_nil (c : Char) (s : Str) : splitOnC c s ≠ [] := by
  cases s with
  | nil => simp [splitOnC]
  | cons x xs =>
    unfold splitOnC
    split
    · simp
    · split <;> simp

theorem splitOnC_of_splitFirst {c : Char} {s a b : Str} (h : splitFirst c s = some (a, b)) :
    splitOnC c s = a :: splitOnC c b := by
  obtain ⟨e, n⟩ := splitFirst_some h
  rw [e, splitOnC_append_sep n]

theorem label_no_slash {s : Str} (h : labelRe s = true) : '/' ∉ s := by
  intro m
  have := (labelRe_chars h).2 _ m
  revert this; decide

theorem subdomain_no_slash {s : Str} (h : subdomainRe s = true) : '/' ∉ s := by
  intro m
  rcases (subdomainRe_chars h).2 _ m with d | d
  · revert d; decide
  · revert d; decide

theorem not_mem_of_splitFirst_none {c : Char} {s : Str} (h : splitFirst c s = none) : c ∉ s := by
  induction s with
  | nil => simp
  | cons x xs ih =>
    unfold splitFirst at h
    by_cases hx : (x == c) = true
    · simp [hx] at h
    · simp only [hx, Bool.false_eq_true, if_false] at h
      cases hr : splitFirst c xs with
      | none =>
        intro m
        rcases List.mem_cons.mp m with e | m
        · exact hx (by simp [e])
        · exact ih hr m
      | some q => simp [hr] at h

theorem not_mem_of_splitOnC_singleton {c : Char} {s f : Str} (h : splitOnC c s = [f]) : c ∉ s := by
  induction s generalizing f with
  | nil => simp
  | cons x xs ih =>
    unfold splitOnC at h
    by_cases hx : (x == c) = true
    · simp only [hx, if_true, List.cons.injEq] at h
      exact absurd h.2 (splitOnC_ne_nil _ _)
    · simp only [hx, Bool.false_eq_true, if_false] at h
      cases hr : splitOnC c xs with
      | nil => exact absurd hr (splitOnC_ne_nil _ _)
      | cons g gs =>
        simp only [hr, List.cons.injEq] at h
        intro m
        rcases List.mem_cons.mp m with e | m
        · exact hx (by simp [e])
        · exact ih (f := g) (by rw [hr, h.2]) m

theorem parseNamespacedResourceName_iff {s : Str} :
    parseNamespacedResourceName s = .ok ↔ docNamespacedName s = true := by
  unfold parseNamespacedResourceName docNamespacedName
  constructor
  · intro h
    by_cases e : s.isEmpty = true
    · simp [e] at h
    · simp only [e, Bool.false_eq_true, if_false] at h
      cases hf : splitFirst '/' s with
      | none =>
        have : '/' ∉ s := not_mem_of_splitFirst_none hf
        simp [splitOnC_no_sep this] at h
      | some q =>
        obtain ⟨ns, name⟩ := q
        rw [splitOnC_of_splitFirst hf] at h
        cases hn : splitOnC '/' name with
        | nil => exact absurd hn (splitOnC_ne_nil _ _)
        | cons n1 rest =>
          cases rest with
          | cons _ _ => simp [hn] at h
          | nil =>
            simp only [hn] at h
            by_cases c1 : (validateNamespaceName ns).isOk = true
            · by_cases c2 : (validateResourceName n1).isOk = true
              · have hm : '/' ∉ name := not_mem_of_splitOnC_singleton hn
                have hn1 : n1 = name := by
                  rw [splitOnC_no_sep hm] at hn; simpa using hn.symm
                subst hn1
                have a1 : validateNamespaceName ns = .ok := by
                  cases hv : validateNamespaceName ns <;> simp_all [Res.isOk]
                have a2 : validateResourceName n1 = .ok := by
                  cases hv : validateResourceName n1 <;> simp_all [Res.isOk]
                simp [validateNamespaceName_iff.mp a1, validateResourceName_iff.mp a2]
              · simp [c1, c2] at h
            · simp [c1] at h
  · intro h
    cases hf : splitFirst '/' s with
    | none => simp [hf] at h
    | some q =>
      obtain ⟨ns, name⟩ := q
      simp only [hf, Bool.and_eq_true] at h
      obtain ⟨e, _⟩ := splitFirst_some hf
      have hne : s.isEmpty = false := by subst e; cases ns <;> simp
      have hslash : '/' ∉ name := by
        simp only [isDNS1123Subdomain, Bool.and_eq_true] at h
        exact subdomain_no_slash h.2.2
      rw [splitOnC_of_splitFirst hf, splitOnC_no_sep hslash]
      simp [hne, validateNamespaceName_iff.mpr h.1, validateResourceName_iff.mpr h.2, Res.isOk]

/-! ### controller name -/

theorem ctlr_accepts {cfg : Cfg} {path : Str} (hd1 : '/' ∉ cfg.domain) (hd2 : subdomainRe cfg.domain = true)
    (hp : path ≠ []) (hc : path.all isCtlrPathChar = true) :
    validateGatewayControllerName cfg (cfg.domain ++ '/' :: path) = .ok := by
  have hf := splitFirst_append_sep (c := '/') (f := cfg.domain) (r := path) hd1
  have hne : (cfg.domain ++ '/' :: path).isEmpty = false := by cases cfg.domain <;> simp
  have hpe : path.isEmpty = false := by cases path <;> simp_all
  unfold validateGatewayControllerName
  rw [splitOnC_append_sep hd1]
  cases hs : splitOnC '/' path with
  | nil => exact absurd hs (splitOnC_ne_nil _ _)
  | cons g gs => simp [hne, ctlrRe, hf, hd2, hpe, hc]

theorem ctlr_sound {cfg : Cfg} {s : Str} (h : validateGatewayControllerName cfg s = .ok) :
    ∃ path, s = cfg.domain ++ '/' :: path ∧ path ≠ [] ∧ path.all isCtlrPathChar = true := by
  unfold validateGatewayControllerName at h
  by_cases e : s.isEmpty = true
  · simp [e] at h
  · simp only [e, Bool.false_eq_true, if_false] at h
    cases hs : splitOnC '/' s with
    | nil => exact absurd hs (splitOnC_ne_nil _ _)
    | cons d rest =>
      cases rest with
      | nil => simp [hs] at h
      | cons r rs =>
        simp only [hs] at h
        by_cases hd : (d != cfg.domain) = true
        · simp [hd] at h
        · simp only [hd, Bool.false_eq_true, if_false] at h
          by_cases hr : ctlrRe s = true
          · unfold ctlrRe at hr
            cases hf : splitFirst '/' s with
            | none => simp [hf] at hr
            | some q =>
              obtain ⟨a, path⟩ := q
              simp only [hf, Bool.and_eq_true, Bool.not_eq_true'] at hr
              have := splitOnC_of_splitFirst hf
              rw [hs] at this
              have had : a = d := by simp at this; exact this.1.symm
              have hdd : d = cfg.domain := by simpa using hd
              obtain ⟨es, _⟩ := splitFirst_some hf
              refine ⟨path, by rw [es, had, hdd], ?_, hr.2⟩
              intro pe; simp [pe] at hr
          · simp [hr] at h

/-! ### port collisions -/

theorem noCollisions_iff {ps : List Int} : noCollisions ps = true ↔ ps.Nodup := by
  induction ps with
  | nil => simp [noCollisions]
  | cons p ps ih =>
    simp only [noCollisions, Bool.and_eq_true, Bool.not_eq_true', List.nodup_cons, ih]
    constructor
    · rintro ⟨a, b⟩; exact ⟨by simpa using a, b⟩
    · rintro ⟨a, b⟩; exact ⟨by simpa using a, b⟩
open NGF.CliSpec

/-! ### the static-mode command -/

/-- what every flag value stored by a successful `Set` satisfies -/
structure FlagsOK (cfg : Cfg) (st : Flags) : Prop where
  ctlr    : ∀ v, st.ctlrName = some v → validateGatewayControllerName cfg v = .ok
  cls     : ∀ v, st.gatewayClass = some v → isDNS1123Subdomain v = true
  gw      : ∀ v, st.gateway = some v → docNamespacedName v = true
  config  : st.config = [] ∨ isDNS1123Subdomain st.config = true
  service : st.service = [] ∨ isDNS1123Subdomain st.service = true
  lock    : isDNS1123Subdomain st.leLockName = true
  secret  : isDNS1123Subdomain st.urSecret = true
  ep      : st.urEndpoint = [] ∨ validateEndpointOptionalPort cfg st.urEndpoint = .ok
  res     : st.urResolver = [] ∨ validateEndpointOptionalPort cfg st.urResolver = .ok
  cssl    : st.urClientSSL = [] ∨ isDNS1123Subdomain st.urClientSSL = true
  ca      : st.urCA = [] ∨ isDNS1123Subdomain st.urCA = true
  mport   : validatePort cfg st.metricsPort = true
  hport   : validatePort cfg st.healthPort = true

theorem isOk_iff {r : Res} : r.isOk = true ↔ r = .ok := by cases r <;> simp [Res.isOk]

theorem intFlagSet_some {cfg : Cfg} {v : Str} {p : Int} (h : intFlagSet cfg v = some p) : validatePort cfg p = true := by
  unfold intFlagSet at h
  cases hp : parseInt cfg.intBits v with
  | none => simp [hp] at h
  | some q =>
    simp only [hp] at h
    by_cases hv : validatePort cfg q = true
    · simp only [hv, if_true, Option.some.injEq] at h; subst h; exact hv
    · simp [hv] at h

theorem setFlag_ok {cfg : Cfg} {st st' : Flags} {f : Flag} {v : Str} (hs : setFlag cfg st f v = some st')
    (hk : FlagsOK cfg st) : FlagsOK cfg st' := by
  cases f <;> simp only [setFlag] at hs
  case ctlrName =>
    by_cases h : (validateGatewayControllerName cfg v).isOk = true
    · simp only [h, if_true, Option.some.injEq] at hs; subst hs
      exact { hk with ctlr := fun w hw => by simp at hw; subst hw; exact isOk_iff.mp h }
    · simp [h] at hs
  case gatewayClass =>
    by_cases h : (validateResourceName v).isOk = true
    · simp only [h, if_true, Option.some.injEq] at hs; subst hs
      exact { hk with cls := fun w hw => by simp at hw; subst hw; exact validateResourceName_iff.mp (isOk_iff.mp h) }
    · simp [h] at hs
  case gateway =>
    by_cases h : (parseNamespacedResourceName v).isOk = true
    · simp only [h, if_true, Option.some.injEq] at hs; subst hs
      have hg := parseNamespacedResourceName_iff.mp (isOk_iff.mp h)
      exact { hk with gw := fun w hw => (by simp at hw; subst hw; exact hg) }
    · simp [h] at hs
  case config =>
    by_cases h : (validateResourceName v).isOk = true
    · simp only [h, if_true, Option.some.injEq] at hs; subst hs
      exact { hk with config := .inr (validateResourceName_iff.mp (isOk_iff.mp h)) }
    · simp [h] at hs
  case service =>
    by_cases h : (validateResourceName v).isOk = true
    · simp only [h, if_true, Option.some.injEq] at hs; subst hs
      exact { hk with service := .inr (validateResourceName_iff.mp (isOk_iff.mp h)) }
    · simp [h] at hs
  case leLockName =>
    by_cases h : (validateResourceName v).isOk = true
    · simp only [h, if_true, Option.some.injEq] at hs; subst hs
      exact { hk with lock := validateResourceName_iff.mp (isOk_iff.mp h) }
    · simp [h] at hs
  case urSecret =>
    by_cases h : (validateResourceName v).isOk = true
    · simp only [h, if_true, Option.some.injEq] at hs; subst hs
      exact { hk with secret := validateResourceName_iff.mp (isOk_iff.mp h) }
    · simp [h] at hs
  case urEndpoint =>
    by_cases h : (validateEndpointOptionalPort cfg v).isOk = true
    · simp only [h, if_true, Option.some.injEq] at hs; subst hs
      exact { hk with ep := .inr (isOk_iff.mp h) }
    · simp [h] at hs
  case urResolver =>
    by_cases h : (validateEndpointOptionalPort cfg v).isOk = true
    · simp only [h, if_true, Option.some.injEq] at hs; subst hs
      exact { hk with res := .inr (isOk_iff.mp h) }
    · simp [h] at hs
  case urClientSSL =>
    by_cases h : (validateResourceName v).isOk = true
    · simp only [h, if_true, Option.some.injEq] at hs; subst hs
      exact { hk with cssl := .inr (validateResourceName_iff.mp (isOk_iff.mp h)) }
    · simp [h] at hs
  case urCA =>
    by_cases h : (validateResourceName v).isOk = true
    · simp only [h, if_true, Option.some.injEq] at hs; subst hs
      exact { hk with ca := .inr (validateResourceName_iff.mp (isOk_iff.mp h)) }
    · simp [h] at hs
  case metricsPort =>
    cases hp : intFlagSet cfg v with
    | none => simp [hp] at hs
    | some p =>
      simp only [hp, Option.map_some, Option.some.injEq] at hs; subst hs
      exact { hk with mport := intFlagSet_some hp }
  case healthPort =>
    cases hp : intFlagSet cfg v with
    | none => simp [hp] at hs
    | some p =>
      simp only [hp, Option.map_some, Option.some.injEq] at hs; subst hs
      exact { hk with hport := intFlagSet_some hp }
  case plus =>
    cases hp : parseBool v with
    | none => simp [hp] at hs
    | some b =>
      simp only [hp, Option.map_some, Option.some.injEq] at hs; subst hs
      exact { hk with }
  case other =>
    cases hp : parseBool v with
    | none => simp [hp] at hs
    | some b =>
      simp only [hp, Option.map_some, Option.some.injEq] at hs; subst hs
      exact hk

theorem applyFlags_ok {cfg : Cfg} {st st' : Flags} {i : Nat} {args : List (Flag × Str)}
    (h : applyFlags cfg st i args = .ok st') (hk : FlagsOK cfg st) : FlagsOK cfg st' := by
  induction args generalizing st i with
  | nil => simp only [applyFlags, Except.ok.injEq] at h; subst h; exact hk
  | cons a rest ih =>
    obtain ⟨f, v⟩ := a
    unfold applyFlags at h
    cases hs : setFlag cfg st f v with
    | none => simp [hs] at h
    | some st1 =>
      simp only [hs] at h
      exact ih h (setFlag_ok hs hk)

/-- what `RunE` has established when it reaches the statement that builds the pod config and starts the manager -/
theorem runStatic_validated {cfg : Cfg} {te ti : Str} {args : List (Flag × Str)} {st : Flags}
    (h : runStatic cfg te ti args = .validated st) :
    applyFlags cfg initFlags 0 args = .ok st ∧ st.ctlrName.isSome = true ∧ st.gatewayClass.isSome = true ∧
    st.metricsPort ≠ st.healthPort ∧ (st.plus = true → st.urSecret ≠ []) ∧
    (te ≠ [] → validateEndpoint cfg te = .ok) ∧ (parseBool ti).isSome = true := by
  unfold runStatic at h
  cases ha : applyFlags cfg initFlags 0 args with
  | error i => simp [ha] at h
  | ok st0 =>
    simp only [ha] at h
    by_cases hr : (st0.ctlrName.isNone || st0.gatewayClass.isNone) = true
    · simp [hr] at h
    · simp only [hr, Bool.false_eq_true, if_false] at h
      unfold runE at h
      by_cases c1 : (!noCollisions [st0.metricsPort, st0.healthPort]) = true
      · simp [c1] at h
      · by_cases c2 : (!te.isEmpty && !(validateEndpoint cfg te).isOk) = true
        · simp [c1, c2] at h
        · by_cases c3 : (parseBool ti).isNone = true
          · simp [c1, c2, c3] at h
          · by_cases c4 : (st0.plus && st0.urSecret.isEmpty) = true
            · simp [c1, c2, c3, c4] at h
            · simp only [c1, c2, c3, c4, Bool.false_eq_true, if_false, CmdRes.validated.injEq] at h
              subst h
              refine ⟨rfl, ?_, ?_, ?_, ?_, ?_, ?_⟩
              · cases hcn : st0.ctlrName <;> simp_all
              · cases hcn : st0.gatewayClass <;> simp_all
              · intro e
                simp [noCollisions, e] at c1
              · intro hp he
                simp [hp, he] at c4
              · intro hte
                have : te.isEmpty = false := by cases te <;> simp_all
                simp only [this, Bool.not_false, Bool.true_and, Bool.not_eq_true', Bool.not_eq_false] at c2
                exact isOk_iff.mp c2
              · cases hb : parseBool ti <;> simp_all

theorem static_collision_rejected {cfg : Cfg} {te ti : Str} {args : List (Flag × Str)} {st : Flags}
    (ha : applyFlags cfg initFlags 0 args = .ok st) (hc : st.metricsPort = st.healthPort) :
    ∀ st', runStatic cfg te ti args ≠ .validated st' := by
  intro st' h
  obtain ⟨ha', _, _, hne, _⟩ := runStatic_validated h
  rw [ha] at ha'
  simp only [Except.ok.injEq] at ha'
  subst ha'
  exact hne hc
open NGF.CliSpec

theorem hostChar_table : ∀ n < 128, isHostChar (Char.ofNat n) = true →
    Char.ofNat n ≠ '/' ∧ Char.ofNat n ≠ '?' ∧ Char.ofNat n ≠ '[' ∧ Char.ofNat n ≠ ']' := by decide

theorem hostChar_plain {c : Char} (h : isHostChar c = true) : c ≠ '/' ∧ c ≠ '?' ∧ c ≠ '[' ∧ c ≠ ']' := by
  have := hostChar_table c.toNat (epChar_lt (hostChar_ep h))
  rw [Char.ofNat_toNat] at this
  exact this h

theorem digit_plain {c : Char} (h : isDigit c = true) : c ≠ '/' ∧ c ≠ '?' := by
  refine ⟨?_, ?_⟩ <;> (intro e; subst e; revert h; decide)

/-- an accepted port text without sign is what `ngx_atoi` + the range test of NGINX accept -/
theorem ngxPortOK_of_portCheck {bits lo hi : Nat} {p : Str} (hlo : 1 ≤ lo) (hhi : hi ≤ 65535)
    (h : portCheck bits lo hi p = .ok) (hplus : p.head? ≠ some '+') :
    ngxPortOK p = true ∧ ∀ c ∈ p, isDigit c = true := by
  obtain ⟨v, hv, v1, v2⟩ := portCheck_ok h
  cases p with
  | nil => simp [parseInt] at hv
  | cons c cs =>
    have hcp : (c == '+') = false := by
      simp only [beq_eq_false_iff_ne, ne_eq]; intro e; subst e; simp at hplus
    simp only [parseInt] at hv
    by_cases hm : (c == '-') = true
    · -- a negative number is below lo
      exfalso
      simp only [hcp, hm, Bool.false_or, if_true] at hv
      by_cases he : cs.isEmpty = true
      · simp [he] at hv
      · simp only [he, Bool.false_eq_true, if_false] at hv
        cases hn : digitsVal cs 0 with
        | none => simp [hn] at hv
        | some n =>
          simp only [hn, Bool.not_true, Bool.false_and, Bool.false_eq_true, if_false, Bool.true_and] at hv
          split at hv
          · simp at hv
          · simp only [Option.some.injEq] at hv; omega
    · simp only [hcp, hm, Bool.or_self, Bool.false_eq_true, if_false, List.isEmpty_cons] at hv
      cases hn : digitsVal (c :: cs) 0 with
      | none => simp [hn] at hv
      | some n =>
        simp only [hn, Bool.not_false, Bool.true_and, Bool.false_and, Bool.false_eq_true, if_false] at hv
        split at hv
        · simp at hv
        · simp only [Option.some.injEq] at hv
          have hall := digitsVal_all hn
          refine ⟨?_, hall⟩
          simp only [ngxPortOK, List.isEmpty_cons, Bool.not_false, Bool.true_and, hn, Bool.and_eq_true,
            List.all_eq_true, decide_eq_true_eq]
          exact ⟨hall, by omega, by omega⟩

theorem dns_no_colon {s : Str} (h : isDNS1123Subdomain s = true) : ':' ∉ s := by
  simp only [isDNS1123Subdomain, Bool.and_eq_true] at h
  intro m
  rcases (subdomainRe_chars h.2).2 _ m with d | d <;> (revert d; decide)

theorem lowerByte_colon {e : Char} (h : lowerByte e = ':') : e = ':' := by
  unfold lowerByte at h
  by_cases hu : isUpper e = true
  · have hlt : e.toNat < 128 := by
      simp only [isUpper, Bool.and_eq_true, decide_eq_true_eq] at hu; omega
    have tbl : ∀ n < 128, isUpper (Char.ofNat n) = true →
        Char.ofNat ((Char.ofNat n).toNat + 32) ≠ ':' := by decide
    have := tbl e.toNat hlt
    rw [Char.ofNat_toNat] at this
    simp only [hu, if_true] at h
    exact absurd h (this hu)
  · simpa [hu] using h

theorem unixPrefix_colon {s : Str} (h : hasUnixPrefix s = true) : ':' ∈ s := by
  unfold hasUnixPrefix at h
  match s, h with
  | [a, b, c, d, e], h | a :: b :: c :: d :: e :: _ :: _, h =>
    simp only [List.take, List.map, beq_iff_eq] at h
    have : lowerByte e = ':' := by simpa using congrArg (fun l => l.getD 4 ' ') h
    simp [lowerByte_colon this]
  | [], h | [_], h | [_, _], h | [_, _, _], h | [_, _, _, _], h => simp [List.take] at h
open NGF.CliSpec

theorem not_unix_of_no_colon {s : Str} (h : ':' ∉ s) : hasUnixPrefix s = false := by
  cases hu : hasUnixPrefix s
  · rfl
  · exact absurd (unixPrefix_colon hu) h

theorem nginxAddrOk_bare_host {s : Str} (hk : hostOK s = true) (hc : ':' ∉ s) : nginxAddrOk s = true := by
  obtain ⟨ne, hch⟩ := hostOK_chars hk
  cases s with
  | nil => exact absurd rfl ne
  | cons c rest =>
    have hcb : (c == '[') = false := by
      have := (hostChar_plain (hch c (by simp))).2.2.1
      simpa using this
    have h1 : '/' ∉ (c :: rest) := fun m => (hostChar_plain (hch _ m)).1 rfl
    have h2 : '?' ∉ (c :: rest) := fun m => (hostChar_plain (hch _ m)).2.1 rfl
    simp only [nginxAddrOk, not_unix_of_no_colon hc, Bool.false_eq_true, if_false, hcb, ngxInetUrl,
      contains_false_iff.mpr h1, contains_false_iff.mpr h2, Bool.or_self, splitFirst_none hc]
    simp

theorem nginxAddrOk_plain {h p : Str} (hk : hostOK h = true) (hc : ':' ∉ h) (hp : ngxPortOK p = true)
    (hd : ∀ c ∈ p, isDigit c = true) (hu : hasUnixPrefix (h ++ ':' :: p) = false) :
    nginxAddrOk (h ++ ':' :: p) = true := by
  obtain ⟨ne, hch⟩ := hostOK_chars hk
  cases h with
  | nil => exact absurd rfl ne
  | cons c rest =>
    have hcb : (c == '[') = false := by
      have := (hostChar_plain (hch c (by simp))).2.2.1
      simpa using this
    have h1 : '/' ∉ (c :: rest ++ ':' :: p) := by
      intro m
      simp only [List.mem_append, List.mem_cons] at m
      rcases m with (m | m) | m | m
      · exact (hostChar_plain (hch c (by simp))).1 m.symm
      · exact (hostChar_plain (hch _ (by simp [m]))).1 rfl
      · exact absurd m (by decide)
      · exact (digit_plain (hd _ m)).1 rfl
    have h2 : '?' ∉ (c :: rest ++ ':' :: p) := by
      intro m
      simp only [List.mem_append, List.mem_cons] at m
      rcases m with (m | m) | m | m
      · exact (hostChar_plain (hch c (by simp))).2.1 m.symm
      · exact (hostChar_plain (hch _ (by simp [m]))).2.1 rfl
      · exact absurd m (by decide)
      · exact (digit_plain (hd _ m)).2 rfl
    have hf := splitFirst_append_sep (c := ':') (f := c :: rest) (r := p) hc
    unfold nginxAddrOk
    rw [hu]
    simp only [Bool.false_eq_true, if_false, List.cons_append, hcb]
    simp only [List.cons_append] at h1 h2 hf
    simp only [List.mem_cons, List.mem_append, not_or] at h1 h2
    simp [ngxInetUrl, h1, h2, hf, hp]

theorem nginxAddrOk_bracket {h p : Str} (h6 : isV6 h = true) (hb : ']' ∉ h) (hp : ngxPortOK p = true) :
    nginxAddrOk ('[' :: (h ++ ']' :: ':' :: p)) = true := by
  have hf := splitFirst_append_sep (c := ']') (f := h) (r := ':' :: p) hb
  have hu : hasUnixPrefix ('[' :: (h ++ ']' :: ':' :: p)) = false := by
    unfold hasUnixPrefix
    cases hl : (h ++ ']' :: ':' :: p) <;> simp [List.take, lowerByte, isUpper] <;> intro e <;> simp at e
  unfold nginxAddrOk
  rw [hu]
  simp [ngxInet6Url, hf, hp, h6]

/-! ### the NGINX tokenizer on a safe bare argument -/

theorem safeChar_facts {c : Char} (h : isSafeArgChar c = true) :
    isWs c = false ∧ c ≠ ';' ∧ c ≠ '{' ∧ c ≠ '}' ∧ c ≠ '#' ∧ c ≠ '"' ∧ c ≠ '\'' ∧ c ≠ '\\' ∧ c ≠ '$' := by
  have tbl : ∀ n < 128, isSafeArgChar (Char.ofNat n) = true →
      isWs (Char.ofNat n) = false ∧ Char.ofNat n ≠ ';' ∧ Char.ofNat n ≠ '{' ∧ Char.ofNat n ≠ '}' ∧
      Char.ofNat n ≠ '#' ∧ Char.ofNat n ≠ '"' ∧ Char.ofNat n ≠ '\'' ∧ Char.ofNat n ≠ '\\' ∧ Char.ofNat n ≠ '$' := by
    decide
  have hlt : c.toNat < 128 := by
    simp only [isSafeArgChar, Bool.and_eq_true, decide_eq_true_eq] at h; omega
  have := tbl c.toNat hlt
  rw [Char.ofNat_toNat] at this
  exact this h

theorem step_bare_safe {toks : List Tok} {acc : Str} {c : Char} (h : isSafeArgChar c = true) :
    step ⟨toks, .bare acc⟩ c = ⟨toks, .bare (c :: acc)⟩ := by
  obtain ⟨w, a1, a2, _, _, _, _, a7, a8⟩ := safeChar_facts h
  simp [step, endBare, w, a1, a2, a7, a8]

theorem step_space_safe {toks : List Tok} {c : Char} (h : isSafeArgChar c = true) :
    step ⟨toks, .space⟩ c = ⟨toks, .bare [c]⟩ := by
  obtain ⟨w, a1, a2, a3, a4, a5, a6, a7, a8⟩ := safeChar_facts h
  simp [step, w, a1, a2, a3, a4, a5, a6, a7, a8]

theorem lex_bare_run {toks : List Tok} {acc w rest : Str} (hw : ∀ c ∈ w, isSafeArgChar c = true) :
    lexFrom ⟨toks, .bare acc⟩ (w ++ rest) = lexFrom ⟨toks, .bare (w.reverse ++ acc)⟩ rest := by
  induction w generalizing acc with
  | nil => rfl
  | cons c cs ih =>
    have hc := hw c (by simp)
    simp only [lexFrom, List.cons_append, List.foldl_cons, step_bare_safe hc]
    have := ih (acc := c :: acc) (fun x hx => hw x (by simp [hx]))
    simp only [lexFrom] at this
    rw [this]
    simp

/-- a safe non-empty word followed by ';' is exactly one argument token and the terminator -/
theorem lex_word_semi {toks : List Tok} {w rest : Str} (hs : safeBareArg w = true) :
    lexFrom ⟨toks, .space⟩ (w ++ ';' :: rest) = lexFrom ⟨.semi :: .word w :: toks, .space⟩ rest := by
  simp only [safeBareArg, Bool.and_eq_true, Bool.not_eq_true', List.all_eq_true] at hs
  cases w with
  | nil => simp at hs
  | cons c cs =>
    have hc := hs.2 c (by simp)
    have hcs : ∀ x ∈ cs, isSafeArgChar x = true := fun x hx => hs.2 x (by simp [hx])
    have h1 : lexFrom ⟨toks, .space⟩ (c :: cs ++ ';' :: rest) = lexFrom ⟨toks, .bare [c]⟩ (cs ++ ';' :: rest) := by
      simp [lexFrom, step_space_safe hc]
    rw [h1, lex_bare_run hcs]
    simp [lexFrom, step, endBare, isWs]

/-- the same when the word continues a literal safe prefix such as `endpoint=` -/
theorem lex_word_ws {toks : List Tok} {w rest : Str} (hs : safeBareArg w = true) :
    lexFrom ⟨toks, .space⟩ (w ++ ' ' :: rest) = lexFrom ⟨.word w :: toks, .space⟩ rest := by
  simp only [safeBareArg, Bool.and_eq_true, Bool.not_eq_true', List.all_eq_true] at hs
  cases w with
  | nil => simp at hs
  | cons c cs =>
    have hc := hs.2 c (by simp)
    have hcs : ∀ x ∈ cs, isSafeArgChar x = true := fun x hx => hs.2 x (by simp [hx])
    have h1 : lexFrom ⟨toks, .space⟩ (c :: cs ++ ' ' :: rest) = lexFrom ⟨toks, .bare [c]⟩ (cs ++ ' ' :: rest) := by
      simp [lexFrom, step_space_safe hc]
    rw [h1, lex_bare_run hcs]
    simp [lexFrom, step, endBare, isWs, emit]

theorem safeBareArg_append {a b : Str} (ha : safeBareArg a = true) (hb : b.all isSafeArgChar = true) :
    safeBareArg (a ++ b) = true := by
  simp only [safeBareArg, Bool.and_eq_true, Bool.not_eq_true', List.all_eq_true] at ha hb ⊢
  refine ⟨by cases a <;> simp_all, ?_⟩
  intro c hc
  rcases List.mem_append.mp hc with m | m
  · exact ha.2 c m
  · exact hb c m

/-- the `resolver` line of the mgmt block with a safe value parses to the single directive `resolver <v>` -/
theorem resolver_line_verbatim {v : Str} (hs : safeBareArg v = true) :
    parseConf ("\tresolver ".toList ++ v ++ ";\n".toList) = some [.simple ["resolver".toList, v]] := by
  have e1 : "\tresolver ".toList ++ v ++ ";\n".toList = '\t' :: ("resolver".toList ++ ' ' :: (v ++ ';' :: ['\n'])) := by
    simp
  have hr : safeBareArg "resolver".toList = true := by decide
  simp only [parseConf, tokens, e1]
  have : lexFrom ⟨[], .space⟩ ('\t' :: ("resolver".toList ++ ' ' :: (v ++ ';' :: ['\n'])))
      = ⟨[.semi, .word v, .word "resolver".toList], .space⟩ := by
    have s0 : lexFrom ⟨[], .space⟩ ('\t' :: ("resolver".toList ++ ' ' :: (v ++ ';' :: ['\n'])))
        = lexFrom ⟨[], .space⟩ ("resolver".toList ++ ' ' :: (v ++ ';' :: ['\n'])) := by
      simp [lexFrom, step, isWs]
    rw [s0, lex_word_ws hr, lex_word_semi hs]
    simp [lexFrom, step, isWs]
  rw [this]
  simp [directives]

/-- the `usage_report` line: `endpoint=<v>` is one argument -/
theorem usage_report_line_verbatim {v : Str} (hs : v.all isSafeArgChar = true) :
    parseConf ("\tusage_report endpoint=".toList ++ v ++ ";\n".toList) =
      some [.simple ["usage_report".toList, "endpoint=".toList ++ v]] := by
  have e1 : "\tusage_report endpoint=".toList ++ v ++ ";\n".toList =
      '\t' :: ("usage_report".toList ++ ' ' :: (("endpoint=".toList ++ v) ++ ';' :: ['\n'])) := by simp
  have hr : safeBareArg "usage_report".toList = true := by decide
  have he : safeBareArg ("endpoint=".toList ++ v) = true := safeBareArg_append (by decide) hs
  simp only [parseConf, tokens, e1]
  have : lexFrom ⟨[], .space⟩ ('\t' :: ("usage_report".toList ++ ' ' :: (("endpoint=".toList ++ v) ++ ';' :: ['\n'])))
      = ⟨[.semi, .word ("endpoint=".toList ++ v), .word "usage_report".toList], .space⟩ := by
    have s0 : lexFrom ⟨[], .space⟩ ('\t' :: ("usage_report".toList ++ ' ' :: (("endpoint=".toList ++ v) ++ ';' :: ['\n'])))
        = lexFrom ⟨[], .space⟩ ("usage_report".toList ++ ' ' :: (("endpoint=".toList ++ v) ++ ';' :: ['\n'])) := by
      simp [lexFrom, step, isWs]
    rw [s0, lex_word_ws hr, lex_word_semi he]
    simp [lexFrom, step, isWs]
  rw [this]
  simp [directives]
open NGF.CliSpec

/-! ### structured spellings of hosts -/

/-- `strings.Join(fs, string(c))` -/
def joinC (c : Char) : List Str → Str
  | [] => []
  | [f] => f
  | f :: g :: fs => f ++ c :: joinC c (g :: fs)

theorem splitOnC_joinC {c : Char} {fs : List Str} (hne : fs ≠ []) (h : ∀ f ∈ fs, c ∉ f) :
    splitOnC c (joinC c fs) = fs := by
  induction fs with
  | nil => exact absurd rfl hne
  | cons f rest ih =>
    cases rest with
    | nil => simp [joinC, splitOnC_no_sep (h f (by simp))]
    | cons g gs =>
      simp only [joinC]
      rw [splitOnC_append_sep (h f (by simp)), ih (by simp) (fun x hx => h x (by simp [hx]))]

theorem octet_table : ∀ n < 256, octetOK (Nat.toDigits 10 n) = true := by decide +kernel

theorem digits_no_dot (n : Nat) : '.' ∉ Nat.toDigits 10 n := by
  have h := toDigits_all_digit n
  simp only [List.all_eq_true] at h
  intro m; have := h _ m; revert this; decide

/-- every dotted quad of four numbers below 256 is an IPv4 address for `net.ParseIP` -/
theorem isV4_quad {a b c d : Nat} (ha : a < 256) (hb : b < 256) (hc : c < 256) (hd : d < 256) :
    isV4 (joinC '.' [Nat.toDigits 10 a, Nat.toDigits 10 b, Nat.toDigits 10 c, Nat.toDigits 10 d]) = true := by
  unfold isV4
  rw [splitOnC_joinC (by simp) (by
    intro f hf
    simp only [List.mem_cons, List.not_mem_nil, or_false] at hf
    rcases hf with rfl | rfl | rfl | rfl <;> exact digits_no_dot _)]
  simp [octet_table a ha, octet_table b hb, octet_table c hc, octet_table d hd]

theorem label_no_dot {l : Str} (h : labelRe l = true) : '.' ∉ l := by
  intro m; have := (labelRe_chars h).2 _ m; revert this; decide

/-- labels joined by dots, at most 253 bytes in total, are a DNS-1123 subdomain -/
theorem subdomain_of_labels {ls : List Str} (hne : ls ≠ []) (hl : ∀ l ∈ ls, labelRe l = true)
    (hlen : (joinC '.' ls).length ≤ 253) : isDNS1123Subdomain (joinC '.' ls) = true := by
  simp only [isDNS1123Subdomain, Bool.and_eq_true, decide_eq_true_eq, subdomainRe]
  refine ⟨hlen, ?_⟩
  rw [splitOnC_joinC hne (fun l m => label_no_dot (hl l m))]
  simpa [List.all_eq_true] using hl

theorem isV4_no_colon {s : Str} (h : isV4 s = true) : ':' ∉ s := by
  intro m
  rcases isV4_chars h _ m with d | d <;> (revert d; decide)

theorem hostOK_of_v4 {s : Str} (h : isV4 s = true) : hostOK s = true := by
  have hc := isV4_no_colon h
  have hne : s.isEmpty = false := by
    cases s with
    | nil => simp [isV4, splitOnC] at h
    | cons _ _ => rfl
  have hp : parseIP s = true := by
    unfold parseIP; rw [contains_false_iff.mpr hc]; simpa using h
  unfold hostOK validateIP
  rw [hne, hp]; rfl

theorem hostOK_of_dns {s : Str} (h : isDNS1123Subdomain s = true) : hostOK s = true := by
  simp [hostOK, h]

theorem hostOK_of_v6 {s : Str} (h : isV6 s = true) (hc : ':' ∈ s) : hostOK s = true := by
  have hne : s.isEmpty = false := by cases s <;> simp_all
  have hp : parseIP s = true := by
    unfold parseIP; rw [contains_true_iff.mpr hc]; simpa using h
  unfold hostOK validateIP
  rw [hne, hp]; rfl

end NGF.Cli
