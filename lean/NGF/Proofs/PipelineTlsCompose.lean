/-
C02 on HTTPS, composition: `refines_https` — for every `ScenarioT` of the fragment and every well-formed request, plain
or over TLS with SNI = Host, `nginxEvalConfT (genT s) q = routeT s q` — and `mismatch_421`. Stated in Props/C02.lean.
-/
import NGF.Proofs.PipelineTlsRefine
import NGF.Proofs.PipelineScheme

namespace NGF.PipelineTls
open NGF.Pipeline
open NGF.NginxEval (catchAll isWildName wildCovers selectName)

theorem nameCovers_unfold (n q : Str) : nameCovers n q = (n == catchAll || n == q || wildCovers n q) := rfl

/-- the served Gateway of a projection -/
theorem winner_part (keep : GatewayT → ListenerT → Bool) {s : ScenarioT} {gT : GatewayT} (hw : winnerT s = some gT) :
    winner (proj keep s) = some (projGw keep gT) := by
  rw [winner_proj, hw]; rfl

theorem part_port_any (keep : GatewayT → ListenerT → Bool) (gT : GatewayT) (p : Nat) :
    ((projGw keep gT).listeners.any (·.port == p)) = gT.listeners.any fun l => keep gT l && l.base.port == p := by
  simp only [projGw, List.any_map, List.any_filter, Function.comp]

/-- plain HTTP on a port without valid HTTP listener is refused -/
theorem nginx_part_refused (keep : GatewayT → ListenerT → Bool) {s : ScenarioT} {gT : GatewayT}
    (hw : winnerT s = some gT) {q : Req}
    (hB : (gT.listeners.any fun l => keep gT l && l.base.port == q.port) = false) :
    nginxEvalConf (gen (proj keep s)) q = .refused := by
  have h1 := refines_unused_port (proj keep s) q (projGw keep gT) (winner_part keep hw)
    (by rw [part_port_any]; exact hB)
  rw [h1]
  unfold routeF
  simp only [winner_part keep hw, part_port_any, hB, Bool.not_false, ↓reduceIte]

/-- the HTTPS projection with the redirect actions read for a TLS request on port `p` -/
def httpsPartT (s : ScenarioT) (p : Nat) : Scenario := { httpsPart s with routes := tlsRoutes p s.routes }

/-- the request phase on the SSL servers with SNI = Host = `h`, when name `n` is selected -/
theorem ssl_request {s : ScenarioT} {gT : GatewayT} (hw : winnerT s = some gT) (tok : TOK s) {q : Req}
    (hq : reqOK q = true) {n : Str}
    (hA : (gT.listeners.any fun l => validHttps s gT l && l.base.port == q.port) = true)
    (hsel : selectName (sslNames (genT s) q.port) q.host = some n)
    (hrs : (routedNames s q.port).contains n = true ∨
      ∀ m ∈ routedNames s q.port, nameCovers m q.host = false)
    {hs : CServer × Option (List Char)}
    (hf : (sslServers (genT s) q.port).find? (·.1.name == n) = some hs) :
    serverEval (schemeServer hs.1) q = routeF (httpsPartT s q.port) q := by
  obtain ⟨hconc, hlen, hpath, _⟩ := reqOK_unpack hq
  have e2 : httpsPartT s q.port = { httpsPart s with routes := mapRoutes (tlsAction q.port) (httpsPart s).routes } := rfl
  have href : nginxEvalConf (gen (httpsPartT s q.port)) q = routeF (httpsPartT s q.port) q := by
    rw [e2]
    refine refines_fragment _ q ?_ ?_ ?_ ?_ hq
    · rw [inFragment_mapRoutes]; exact inFragment_proj _ tok.frag
    · rw [noShadow_mapRoutes]; exact tok.shHttps
    · rw [namesPlain_mapRoutes]; exact namesPlain_of_hostsDNS (hostsDNS_proj _ tok.dns)
    · rw [routesHaveRules_mapRoutes]; exact tok.rules
  have hwp : winner (httpsPartT s q.port) = some (projGw (validHttps s) gT) :=
    winner_part (fun g l => validHttps s g l) hw
  rw [← href, nginxEvalConf_gen hwp (by rw [part_port_any]; exact hA)]
  have hroutes : (httpsPartT s q.port).routes = mapRoutes (tlsAction q.port) s.routes := rfl
  have hnames : ((hostsOf (projGw (validHttps s) gT) (httpsPartT s q.port).routes).filter (·.1 == q.port)).map (·.2) =
      routedNames s q.port := by
    rw [hroutes, hostsOf_mapRoutes]; exact (routedNames_eq hw q.port).symm
  rw [hnames]
  by_cases hn : n ∈ routedNames s q.port
  · have hsub := selectName_sub hconc hlen (routed_sub_ssl hw q.port) hsel hn
    rw [hsub]
    have hmem : (q.port, n) ∈ hostsOf (projGw (validHttps s) gT) (httpsPartT s q.port).routes := by
      rw [hroutes, hostsOf_mapRoutes]; exact (mem_routedNames hw).mp hn
    simp only [hmem, ↓reduceIte]
    obtain ⟨kp, hfr⟩ := find_routed hw hn
    rw [hfr] at hf
    simp only [Option.some.injEq] at hf
    rw [← hf]
    exact scheme_server_eval (projGw (validHttps s) gT) s.routes n q
  · obtain ⟨p', n', he⟩ := find_unrouted hw hn hf
    rw [he, schemeServer_empty, serverEval_empty p' n' hpath]
    have hnone : ∀ m ∈ routedNames s q.port, nameCovers m q.host = false := by
      rcases hrs with h | h
      · exact absurd (List.contains_iff_mem.mp h) hn
      · exact h
    cases hr : selectName (routedNames s q.port) q.host with
    | none => rfl
    | some m =>
      obtain ⟨hm, hc, _⟩ := selectName_most_specific hconc hlen hr
      rw [hnone m hm] at hc; cases hc

/-- **HTTPS refinement.** For every scenario of the fragment and every well-formed request — plain HTTP, or over TLS
with the SNI name equal to the Host —, what NGINX does under `genT s` is what Gateway API prescribes. -/
theorem refines_https (s : ScenarioT) (q : ReqT) (hs : refineOKT s = true) (hq : reqOKT s q = true)
    (hsh : q.tls = true → q.sni = q.req.host) : nginxEvalConfT (genT s) q = routeT s q := by
  have tok := refineOKT_unpack hs
  simp only [reqOKT, Bool.and_eq_true, Bool.or_eq_true, Bool.not_eq_true'] at hq
  obtain ⟨hreq, htlsq⟩ := hq
  obtain ⟨hconc, hlen, hpath, _⟩ := reqOK_unpack hreq
  cases hw : winnerT s with
  | none =>
    have hwp : winner (httpPart s) = none := by unfold httpPart; rw [winner_proj, hw]; rfl
    have hg : gen (httpPart s) = { ports := [], servers := [] } := by simp [gen, hwp]
    unfold routeT nginxEvalConfT
    rw [genT_none hw]
    simp only [hw, hg]
    cases q.tls <;> simp [nginxEvalConf]
  | some gT =>
    have hssl := ssl_port_contains hw q.req.port
    have hhttp := http_port_iff hw q.req.port
    have hvh := valid_any_https s gT q.req.port
    have hve := valid_isEmpty s gT q.req.port
    unfold routeT nginxEvalConfT
    simp only [hw, hssl, hhttp, hvh, hve]
    cases hA : (gT.listeners.any fun l => validHttps s gT l && l.base.port == q.req.port) with
    | false =>
      cases hB : (gT.listeners.any fun l => validHttp gT l && l.base.port == q.req.port) with
      | false =>
        -- nothing valid on the port
        cases htls : q.tls with
        | true => simp
        | false =>
          simp only [Bool.not_false, Bool.false_eq_true, ↓reduceIte, Bool.or_self, genT_http]
          exact congrArg OutcomeT.plain (nginx_part_refused (fun g l => validHttp g l) hw hB)
      | true =>
        cases htls : q.tls with
        | true => simp
        | false =>
          simp only [Bool.not_false, Bool.false_eq_true, ↓reduceIte, Bool.or_true, Bool.not_true, bne_self_eq_false,
            genT_http, specScenario_false]
          exact congrArg OutcomeT.plain (refines_part (fun g l => validHttp g l) tok tok.shHttp hreq)
    | true =>
      cases htls : q.tls with
      | false => simp
      | true =>
        have hsni : q.sni = q.req.host := hsh htls
        have hB : (gT.listeners.any fun l => validHttp gT l && l.base.port == q.req.port) = false := by
          rw [Bool.eq_false_iff]
          intro hb
          obtain ⟨a, ha, hac⟩ := List.any_eq_true.mp hb
          obtain ⟨b, hb', hbc⟩ := List.any_eq_true.mp hA
          simp only [Bool.and_eq_true, beq_iff_eq] at hac hbc
          exact no_mixed_port hb' hac.1 hbc.1 (hac.2.trans hbc.2.symm)
        rcases htlsq with h | ⟨hserved, hshadow⟩
        · rw [htls] at h; cases h
        simp only [Bool.not_true, Bool.false_eq_true, ↓reduceIte, Bool.true_or, bne_self_eq_false,
          valid_any_covers hB, specScenario_true]
        cases hemp : q.sni.isEmpty with
        | true => rfl
        | false =>
          simp only [Bool.false_eq_true, ↓reduceIte]
          rw [hsni]
          have ok := scenOK_https hw tok
          have hlc := listeners_not_catchAll hw tok
          cases hsel : selectName (sslNames (genT s) q.req.port) q.req.host with
          | none =>
            -- no server name stands for the SNI name: no valid listener covers it either (`sniServed`)
            have hnoname := selectName_none hconc hsel
            have hC : (gT.listeners.any fun l => validHttps s gT l && l.base.port == q.req.port &&
                covers l.base.host q.req.host) = false := by
              rw [Bool.eq_false_iff]
              intro hc
              simp only [sniServed, hw, hsni, Bool.or_eq_true, Bool.not_eq_true'] at hserved
              rcases hserved with h | h
              · obtain ⟨l, hl, hlc'⟩ := List.any_eq_true.mp hc
                have := List.any_eq_false.mp h l hl
                simp only [Bool.and_eq_true, beq_iff_eq] at hlc'
                have hh : l.https = true := (validHttps_iff.mp hlc'.1.1).1
                simp [specValid_https hh, hlc'.1.1, hh, hlc'.1.2, hlc'.2] at this
              · obtain ⟨m, hm, hmc⟩ := List.any_eq_true.mp h
                rw [← nameCovers_unfold, hnoname m hm] at hmc; cases hmc
            simp [hC]
          | some n =>
            obtain ⟨hnm, hncov, _⟩ := selectName_most_specific hconc hlen hsel
            -- the SNI name is covered by a valid listener
            obtain ⟨l, hl, hlv, hlp, hlcov⟩ := ssl_name_listener hw ok hlc hconc.1 hnm hncov
            have hC : (gT.listeners.any fun l => validHttps s gT l && l.base.port == q.req.port &&
                covers l.base.host q.req.host) = true :=
              List.any_eq_true.mpr ⟨l, hl, by simp [hlv, hlp, hlcov]⟩
            simp only [hC, Bool.not_true, Bool.false_eq_true, ↓reduceIte]
            cases hf : (sslServers (genT s) q.req.port).find? (·.1.name == n) with
            | none =>
              exfalso
              simp only [sslNames, List.mem_map] at hnm
              obtain ⟨sv, hsv, hname⟩ := hnm
              have := List.find?_eq_none.mp hf sv hsv
              simp [hname] at this
            | some hsv =>
              have hcert := ssl_has_cert hw (List.mem_of_find?_eq_some hf)
              have hnone : hsv.2.isNone = false := by
                cases hx : hsv.2 with
                | none => rw [hx] at hcert; cases hcert
                | some _ => rfl
              simp only [hnone, Bool.false_eq_true, ↓reduceIte, bne_self_eq_false, Bool.and_false]
              have hrs : (routedNames s q.req.port).contains n = true ∨
                  ∀ m ∈ routedNames s q.req.port, nameCovers m q.req.host = false := by
                simp only [noRoutelessShadow, hsel, Bool.or_eq_true, Bool.not_eq_true'] at hshadow
                rcases hshadow with h | h
                · exact Or.inl h
                · right
                  intro m hm
                  have := List.any_eq_false.mp h m hm
                  rw [nameCovers_unfold]
                  exact Bool.eq_false_iff.mpr this
              exact congrArg OutcomeT.plain (ssl_request hw tok hreq hA hsel hrs hf)

/-- SNI and Host name DIFFERENT hosts that both have a generated server on the port: 421 Misdirected Request — the
request is never handed to the Host's (another tenant's) backend; and the specification says 421 as well. -/
theorem mismatch_421 (s : ScenarioT) (q : ReqT) (hs : refineOKT s = true) (htls : q.tls = true)
    (hne : q.sni ≠ q.req.host)
    (hsni : isWildName q.sni = false ∧ q.sni ≠ catchAll) (hslen : q.sni.length < 100000) (hsne : q.sni ≠ [])
    (hhost : isWildName q.req.host = false ∧ q.req.host ≠ catchAll)
    (hc1 : ∃ n ∈ sslNames (genT s) q.req.port, nameCovers n q.sni = true)
    (hc2 : ∃ n ∈ sslNames (genT s) q.req.port, nameCovers n q.req.host = true) :
    nginxEvalConfT (genT s) q = .plain (.status 421) ∧ routeT s q = .plain (.status 421) := by
  have tok := refineOKT_unpack hs
  obtain ⟨n1, hn1, hcov1⟩ := hc1
  obtain ⟨n2, hn2, hcov2⟩ := hc2
  cases hw : winnerT s with
  | none =>
    exfalso
    rw [genT_none hw] at hn1
    simp [sslNames, sslServers] at hn1
  | some gT =>
    have ok := scenOK_https hw tok
    have hlc := listeners_not_catchAll hw tok
    obtain ⟨l, hl, hlv, hlp, hlcov⟩ := ssl_name_listener hw ok hlc hsni.1 hn1 hcov1
    have hA : (gT.listeners.any fun l => validHttps s gT l && l.base.port == q.req.port) = true :=
      List.any_eq_true.mpr ⟨l, hl, by simp [hlv, hlp]⟩
    have hB : (gT.listeners.any fun l => validHttp gT l && l.base.port == q.req.port) = false := by
      rw [Bool.eq_false_iff]
      intro hb
      obtain ⟨a, ha, hac⟩ := List.any_eq_true.mp hb
      simp only [Bool.and_eq_true, beq_iff_eq] at hac
      exact no_mixed_port hl hac.1 hlv (hac.2.trans hlp.symm)
    have hemp : q.sni.isEmpty = false := by cases hx : q.sni <;> simp_all
    have hbne : (q.sni != q.req.host) = true := by simpa using hne
    constructor
    · obtain ⟨m1, hm1⟩ := selectName_some_of_cover hsni hn1 hcov1
      obtain ⟨m2, hm2⟩ := selectName_some_of_cover hhost hn2 hcov2
      have hmem1 := (selectName_most_specific hsni hslen hm1).1
      unfold nginxEvalConfT
      simp only [htls, Bool.not_true, Bool.false_eq_true, ↓reduceIte, ssl_port_contains hw, hA, hemp, hm1, hm2]
      cases hf1 : (sslServers (genT s) q.req.port).find? (·.1.name == m1) with
      | none =>
        exfalso
        simp only [sslNames, List.mem_map] at hmem1
        obtain ⟨sv, hsv, hname⟩ := hmem1
        have := List.find?_eq_none.mp hf1 sv hsv
        simp [hname] at this
      | some h1 =>
        have hcert1 := ssl_has_cert hw (List.mem_of_find?_eq_some hf1)
        have hnone1 : h1.2.isNone = false := by
          cases hx : h1.2 with
          | none => rw [hx] at hcert1; cases hcert1
          | some _ => rfl
        simp only [hnone1, Bool.false_eq_true, ↓reduceIte]
        cases hf2 : (sslServers (genT s) q.req.port).find? (·.1.name == m2) with
        | none =>
          -- impossible: m2 is a server name of the port
          exfalso
          have hmem2 : m2 ∈ sslNames (genT s) q.req.port := by
            unfold selectName at hm2
            split at hm2
            · simp only [Option.some.injEq] at hm2
              rename_i hcond
              simp only [Bool.and_eq_true, List.contains_iff_mem] at hcond
              rw [← hm2]; exact hcond.1.1
            · split at hm2
              · rename_i w hb
                simp only [Option.some.injEq] at hm2
                rw [← hm2]; exact (NGF.NginxEval.bestWild_some hb).1
              · split at hm2
                · rename_i hca
                  simp only [Option.some.injEq] at hm2
                  rw [← hm2]; exact List.contains_iff_mem.mp hca
                · cases hm2
          simp only [sslNames, List.mem_map] at hmem2
          obtain ⟨sv, hsv, hname⟩ := hmem2
          have := List.find?_eq_none.mp hf2 sv hsv
          simp [hname] at this
        | some h2 =>
          have hcert2 := ssl_has_cert hw (List.mem_of_find?_eq_some hf2)
          simp [hcert2, hbne]
    · unfold routeT
      simp only [hw, valid_isEmpty, valid_any_https, hA, hB, htls, Bool.or_false, Bool.not_true, Bool.false_eq_true,
        ↓reduceIte, bne_self_eq_false, hemp, valid_any_covers hB, hbne]
      have hC : (gT.listeners.any fun l => validHttps s gT l && l.base.port == q.req.port &&
          covers l.base.host q.sni) = true :=
        List.any_eq_true.mpr ⟨l, hl, by simp [hlv, hlp, hlcov]⟩
      simp [hC]

end NGF.PipelineTls
