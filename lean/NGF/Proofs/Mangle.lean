/-
Helper lemmas for the C03 name-mangling theorems (NGF.Props.C03). Core Lean only.
-/
import NGF.Model.Mangle

namespace NGF.Mangle

/-! ### digits -/

theorem digits_injective {a b : Nat} (h : digits a = digits b) : a = b := by
  have h2 := congrArg (fun l => Nat.ofDigitChars 10 l 0) h
  simpa [digits, Nat.ofDigitChars_ten_toDigits] using h2

theorem digits_isDigit {n : Nat} {c : Char} (hc : c ∈ digits n) : c.isDigit = true :=
  Nat.isDigit_of_mem_toDigits (by decide) (by decide) hc

theorem digits_ne_nil (n : Nat) : digits n ≠ [] := Nat.toDigits_ne_nil

theorem not_mem_digits_of_not_isDigit {n : Nat} {c : Char} (h : c.isDigit = false) : c ∉ digits n := by
  intro hc
  have := digits_isDigit hc
  simp [h] at this

/-! ### splitting at a separator character that does not occur on the left -/

theorem append_sep_inj {s : Char} : ∀ {a a' b b' : List Char}, s ∉ a → s ∉ a' →
    a ++ s :: b = a' ++ s :: b' → a = a' ∧ b = b'
  | [], [], _, _, _, _, h => by simpa using h
  | [], x :: xs, _, _, _, ha', h => by
    simp only [List.nil_append, List.cons_append, List.cons.injEq] at h
    exact absurd (h.1 ▸ List.mem_cons_self) ha'
  | x :: xs, [], _, _, ha, _, h => by
    simp only [List.nil_append, List.cons_append, List.cons.injEq] at h
    exact absurd (h.1 ▸ List.mem_cons_self) ha
  | x :: xs, y :: ys, b, b', ha, ha', h => by
    simp only [List.cons_append, List.cons.injEq] at h
    have hx : s ∉ xs := fun m => ha (List.mem_cons_of_mem _ m)
    have hy : s ∉ ys := fun m => ha' (List.mem_cons_of_mem _ m)
    obtain ⟨h1, h2⟩ := append_sep_inj hx hy h.2
    exact ⟨by rw [h.1, h1], h2⟩

/-! ### safeVar -/

theorem safeVar_append (a b : List Char) : safeVar (a ++ b) = safeVar a ++ safeVar b := by
  simp [safeVar]

theorem safeVar_id_of_no_hyphen {s : List Char} (h : '-' ∉ s) : safeVar s = s := by
  induction s with
  | nil => rfl
  | cons c cs ih =>
    have hc : c ≠ '-' := fun e => h (e ▸ List.mem_cons_self)
    have hcs : '-' ∉ cs := fun m => h (List.mem_cons_of_mem _ m)
    simp only [safeVar, List.map_cons, List.cons.injEq] at *
    exact ⟨by simp [hc], ih hcs⟩

theorem safeVar_digits (n : Nat) : safeVar (digits n) = digits n :=
  safeVar_id_of_no_hyphen (not_mem_digits_of_not_isDigit (by decide))

/-- `-`→`_` is injective on strings that contain no underscore (all Kubernetes names). -/
theorem safeVar_injective_of_no_underscore : ∀ {a b : List Char}, '_' ∉ a → '_' ∉ b →
    safeVar a = safeVar b → a = b
  | [], [], _, _, _ => rfl
  | [], _ :: _, _, _, h => by simp [safeVar] at h
  | _ :: _, [], _, _, h => by simp [safeVar] at h
  | x :: xs, y :: ys, ha, hb, h => by
    simp only [safeVar, List.map_cons, List.cons.injEq] at h
    have hx : x ≠ '_' := fun e => ha (e ▸ List.mem_cons_self)
    have hy : y ≠ '_' := fun e => hb (e ▸ List.mem_cons_self)
    have hxs : '_' ∉ xs := fun m => ha (List.mem_cons_of_mem _ m)
    have hys : '_' ∉ ys := fun m => hb (List.mem_cons_of_mem _ m)
    have t := safeVar_injective_of_no_underscore hxs hys (by simpa [safeVar] using h.2)
    have hd : x = y := by
      have h1 := h.1
      by_cases e1 : x = '-' <;> by_cases e2 : y = '-' <;> simp_all
    rw [hd, t]

/-! ### the first `__` of a string -/

/-- no two adjacent `s`, and the string does not end in `s` -/
def GoodFor (s : Char) : List Char → Bool
  | [] => true
  | [c] => c != s
  | c :: d :: r => !(c == s && d == s) && GoodFor s (d :: r)

/-- split at the first occurrence of `__` -/
def splitDU : List Char → Option (List Char × List Char)
  | [] => none
  | [_] => none
  | c :: d :: r =>
    if c = '_' ∧ d = '_' then some ([], r)
    else (splitDU (d :: r)).map fun p => (c :: p.1, p.2)

theorem splitDU_append : ∀ (a b : List Char), GoodFor '_' a = true →
    splitDU (a ++ '_' :: '_' :: b) = some (a, b)
  | [], b, _ => by simp [splitDU]
  | [c], b, h => by
    have hc : c ≠ '_' := by simpa [GoodFor] using h
    simp [splitDU, hc]
  | c :: d :: r, b, h => by
    simp only [GoodFor, Bool.and_eq_true, Bool.not_eq_true', Bool.and_eq_false_iff, beq_eq_false_iff_ne] at h
    have ih := splitDU_append (d :: r) b h.2
    have hn : ¬(c = '_' ∧ d = '_') := by
      rcases h.1 with h1 | h1
      · exact fun e => h1 e.1
      · exact fun e => h1 e.2
    simp only [List.cons_append] at ih ⊢
    simp [splitDU, hn, ih]

theorem dsep_inj {a a' b b' : List Char} (ha : GoodFor '_' a = true) (ha' : GoodFor '_' a' = true)
    (h : a ++ '_' :: '_' :: b = a' ++ '_' :: '_' :: b') : a = a' ∧ b = b' := by
  have h1 := splitDU_append a b ha
  have h2 := splitDU_append a' b' ha'
  rw [h] at h1
  rw [h1] at h2
  simpa using h2

/-- a name without `_`, without `--` and not ending in `-` mangles to a `GoodFor '_'` string -/
theorem goodFor_safeVar : ∀ {s : List Char}, '_' ∉ s → GoodFor '-' s = true → GoodFor '_' (safeVar s) = true
  | [], _, _ => rfl
  | [c], hu, h => by
    have hc : c ≠ '-' := by simpa [GoodFor] using h
    have hu' : c ≠ '_' := fun e => hu (e ▸ List.mem_cons_self)
    simp [safeVar, GoodFor, hc, hu']
  | c :: d :: r, hu, h => by
    simp only [GoodFor, Bool.and_eq_true, Bool.not_eq_true', Bool.and_eq_false_iff, beq_eq_false_iff_ne] at h
    have hu2 : '_' ∉ d :: r := fun m => hu (List.mem_cons_of_mem _ m)
    have ih := goodFor_safeVar hu2 h.2
    have hcu : c ≠ '_' := fun e => hu (e ▸ List.mem_cons_self)
    have hdu : d ≠ '_' := fun e => hu2 (e ▸ List.mem_cons_self)
    simp only [safeVar, List.map_cons] at ih ⊢
    simp only [GoodFor, Bool.and_eq_true, Bool.not_eq_true', Bool.and_eq_false_iff, beq_eq_false_iff_ne]
    refine ⟨?_, ih⟩
    rcases h.1 with h1 | h1
    · left; simp [h1, hcu]
    · right; simp [h1, hdu]

/-! ### lexical classes -/

def isNameChar (c : Char) : Bool := c.isAlphanum || c == '-'

theorem isVarChar_safeVar {s : List Char} (h : s.all isNameChar = true) : (safeVar s).all isVarChar = true := by
  induction s with
  | nil => rfl
  | cons c cs ih =>
    simp only [List.all_cons, Bool.and_eq_true] at h
    simp only [safeVar, List.map_cons, List.all_cons, Bool.and_eq_true] at ih ⊢
    refine ⟨?_, ih h.2⟩
    by_cases e : c = '-'
    · subst e; decide
    · have := h.1
      simp only [isNameChar, Bool.or_eq_true, beq_iff_eq, e, or_false] at this
      simp [e, isVarChar, this]

theorem isVarChar_digits (n : Nat) : (digits n).all isVarChar = true := by
  rw [List.all_eq_true]
  intro c hc
  have := digits_isDigit hc
  simp only [isVarChar, Char.isAlphanum, Bool.or_eq_true]
  exact Or.inl (Or.inr this)

/-! ### NGINX's variable-name scan (`takeWhile isVarChar`) -/

theorem takeWhile_all_stop {p : Char → Bool} : ∀ {l : List Char} {c : Char} {rest : List Char},
    l.all p = true → p c = false → (l ++ c :: rest).takeWhile p = l
  | [], c, rest, _, hc => by simp [List.takeWhile, hc]
  | x :: xs, c, rest, hl, hc => by
    simp only [List.all_cons, Bool.and_eq_true] at hl
    simp [List.takeWhile, hl.1, takeWhile_all_stop hl.2 hc]

/-! ### membership in the external locations of a path rule -/

theorem mem_externalLocs {ex : List Char → PathType → Bool} {p : List Char} {t : PathType} {k : LocKey}
    (h : k ∈ externalLocs ex p t) :
    (t = .exact ∧ k = (true, p)) ∨
    (t = .prefix ∧ p.getLast? = some '/' ∧ k = (false, p)) ∨
    (t = .prefix ∧ p.getLast? ≠ some '/' ∧ ex (p ++ ['/']) .prefix = false ∧ k = (false, p ++ ['/'])) ∨
    (t = .prefix ∧ p.getLast? ≠ some '/' ∧ ex p .exact = false ∧ k = (true, p)) := by
  cases t with
  | exact => left; simpa [externalLocs] using h
  | «prefix» =>
    right
    simp only [externalLocs] at h
    by_cases hs : p.getLast? = some '/'
    · left; simp only [hs, if_true, List.mem_singleton] at h; exact ⟨rfl, hs, h⟩
    · right
      simp only [hs, if_false, List.mem_append] at h
      rcases h with h | h
      · left
        by_cases e : ex (p ++ ['/']) .prefix = true
        · simp [e] at h
        · simp only [e] at h
          simp only [Bool.false_eq_true, if_false, List.mem_singleton] at h
          exact ⟨rfl, hs, by simpa using e, h⟩
      · right
        by_cases e : ex p .exact = true
        · simp [e] at h
        · simp only [e] at h
          simp only [Bool.false_eq_true, if_false, List.mem_singleton] at h
          exact ⟨rfl, hs, by simpa using e, h⟩

/-! ### lemmas shared by Props/C03.lean and Props/C03Render.lean (moved here so that both can use them) -/

theorem groupVar_inj {ns ns' name name' : List Char} {i j : Nat}
    (hns : '_' ∉ ns) (hns' : '_' ∉ ns') (hn : '_' ∉ name) (hn' : '_' ∉ name')
    (hg : GoodFor '_' (safeVar ns) = true) (hg' : GoodFor '_' (safeVar ns') = true)
    (h : groupVar ns name i = groupVar ns' name' j) : ns = ns' ∧ name = name' ∧ i = j := by
  simp only [groupVar, groupName, lit, safeVar_append, safeVar_digits] at h
  have e0 : safeVar "group_".toList = "group_".toList := by decide
  have e1 : safeVar "__".toList = ['_', '_'] := by decide
  have e2 : safeVar "_rule".toList = "_rule".toList := by decide
  rw [e0, e1, e2] at h
  simp only [List.append_assoc] at h
  have h1 := List.append_cancel_left h
  simp only [List.cons_append, List.nil_append] at h1
  obtain ⟨a1, a2⟩ := dsep_inj hg hg' h1
  -- a2 : safeVar name ++ "_rule" ++ digits i = safeVar name' ++ "_rule" ++ digits j ; split from the right
  have r := congrArg List.reverse a2
  simp only [List.reverse_append] at r
  have e3 : "_rule".toList.reverse = 'e' :: "lur_".toList := by decide
  rw [e3] at r
  simp only [List.cons_append, List.append_assoc] at r
  have nd : ∀ n, 'e' ∉ (digits n).reverse := fun n m =>
    not_mem_digits_of_not_isDigit (c := 'e') (by decide) (List.mem_reverse.mp m)
  obtain ⟨c1, c2⟩ := append_sep_inj (nd i) (nd j) r
  have c3 := List.append_cancel_left c2
  have c4 : safeVar name = safeVar name' := by simpa using congrArg List.reverse c3
  have c5 : digits i = digits j := by simpa using congrArg List.reverse c1
  exact ⟨safeVar_injective_of_no_underscore hns hns' a1, safeVar_injective_of_no_underscore hn hn' c4,
    digits_injective c5⟩

theorem groupVar_all_isVarChar {ns name : List Char} (idx : Nat)
    (hns : ns.all isNameChar = true) (hn : name.all isNameChar = true) :
    (groupVar ns name idx).all isVarChar = true := by
  simp only [groupVar, groupName, lit, safeVar_append, safeVar_digits, List.all_append, Bool.and_eq_true]
  exact ⟨⟨⟨⟨⟨by decide, isVarChar_safeVar hns⟩, by decide⟩, isVarChar_safeVar hn⟩, by decide⟩, isVarChar_digits idx⟩

theorem serverExternalLocs_nodup (rules : List (List Char × PathType)) (hnd : rules.Nodup) :
    (serverExternalLocs rules).Nodup := by
  unfold serverExternalLocs
  rw [List.nodup_iff_pairwise_ne, List.pairwise_flatMap]
  constructor
  · intro r _
    rcases r with ⟨p, t⟩
    cases t with
    | exact => simp [externalLocs]
    | «prefix» =>
      simp only [externalLocs]
      split
      · simp
      · split <;> split <;> simp
  · refine List.Pairwise.imp_of_mem ?_ hnd
    intro r s hr hs hne x hx y hy hxy
    subst hxy
    rcases r with ⟨p, t⟩
    rcases s with ⟨q, u⟩
    have hx' := mem_externalLocs hx
    have hy' := mem_externalLocs hy
    simp only [decide_eq_false_iff_not] at hx' hy'
    rcases hx' with ⟨rfl, rfl⟩ | ⟨rfl, h1, rfl⟩ | ⟨rfl, h1, h2, rfl⟩ | ⟨rfl, h1, h2, rfl⟩ <;>
    rcases hy' with ⟨rfl, e⟩ | ⟨rfl, g1, e⟩ | ⟨rfl, g1, g2, e⟩ | ⟨rfl, g1, g2, e⟩ <;>
    simp only [Prod.mk.injEq, true_and, Bool.true_eq_false, Bool.false_eq_true, false_and] at e
    all_goals first
      | (subst e; exact hne rfl)
      | (subst e; exact h2 hs)
      | (subst e; exact g2 hr)
      | (have := List.append_cancel_right e; subst this; exact hne rfl)
      | (subst e; simp at h1)
      | (subst e; simp at g1)

theorem internalLoc_not_external (rules : List (List Char × PathType)) (i j : Nat) :
    (false, internalLocPath i j) ∉ serverExternalLocs rules := by
  intro h
  simp only [serverExternalLocs, List.mem_flatMap] at h
  obtain ⟨⟨p, t⟩, _, hk⟩ := h
  have hlast : (internalLocPath i j).getLast? ≠ some '/' := by
    simp only [internalLocPath, lit]
    rw [List.getLast?_append]
    intro e
    have hne : (digits j).getLast? ≠ none := by
      intro hn
      exact digits_ne_nil j (List.getLast?_eq_none_iff.mp hn)
    cases hd : (digits j).getLast? with
    | none => exact hne hd
    | some c =>
      rw [hd] at e
      have e' : c = '/' := by simpa using e
      subst e'
      exact not_mem_digits_of_not_isDigit (by decide) (List.mem_of_getLast? hd)
  rcases mem_externalLocs hk with ⟨_, e⟩ | ⟨_, h1, e⟩ | ⟨_, _, _, e⟩ | ⟨_, _, _, e⟩
  · simp at e
  · simp only [Prod.mk.injEq, true_and] at e; rw [e] at hlast; exact hlast h1
  · simp only [Prod.mk.injEq, true_and] at e; rw [e] at hlast; simp at hlast
  · simp at e

end NGF.Mangle
