import NGF.Model.OwnershipLeader
import NGF.Proofs.Ownership
import NGF.Proofs.Leader
/-
Helper lemmas for the leadership section of Props/C17 (core Lean only): what the ownership model's batches
leave in the leader-aware updater, and the image of the specification's foreign objects among the targets.
-/
namespace NGF.Ownership
open NGF.Leader

theorem opsOf_cons (b : Batch) (bs : List Batch) :
    opsOf (b :: bs) = .update 0 b.r0 :: .update 1 b.r1 :: opsOf bs := by
  simp [opsOf, batchOps]

theorem opsOf_length (bs : List Batch) : (opsOf bs).length = 2 * bs.length := by
  induction bs with
  | nil => rfl
  | cons b bs ih => rw [opsOf_cons]; simp [ih]; omega

theorem noEnable_opsOf (bs : List Batch) : NoEnable (opsOf bs) := by
  unfold NoEnable
  induction bs with
  | nil => rfl
  | cons b bs ih => rw [opsOf_cons]; simpa [Op.isEnable] using ih

/-- every batch submits to both groups, so the last submission of each group is the LAST batch's -/
theorem latest_opsOf : ∀ bs : List Batch, latest (opsOf bs) = lastWrites bs
  | [] => rfl
  | [b] => by
    cases h0 : b.r0.isEmpty <;> cases h1 : b.r1.isEmpty <;>
      simp [opsOf, batchOps, latest, superseded, lastWrites, batchWrites, h0, h1]
  | b :: b' :: bs => by
    have ih := latest_opsOf (b' :: bs)
    rw [opsOf_cons, opsOf_cons]
    rw [opsOf_cons] at ih
    have e : lastWrites (b :: b' :: bs) = lastWrites (b' :: bs) := by
      simp [lastWrites, List.getLast?_cons_cons]
    rw [e, ← ih]
    simp [latest, superseded]

theorem map_after_opsOf (bs : List Batch) : (opsOf bs).map after = bs.flatMap batchOuts := by
  induction bs with
  | nil => rfl
  | cons b bs ih => rw [opsOf_cons]; simp [after, batchOuts, ih]

theorem mem_batchWrites (b : Batch) (w : Write) (h : w ∈ batchWrites b) : ∀ q ∈ w.2, q ∈ b.r0 ++ b.r1 := by
  intro q hq
  unfold batchWrites at h
  rcases List.mem_append.mp h with h | h
  · split at h
    · cases h
    · simp at h; subst h; exact List.mem_append_left _ hq
  · split at h
    · cases h
    · simp at h; subst h; exact List.mem_append_right _ hq

/-- every request of a batch addresses an object that is not foreign in the store of THAT batch -/
theorem batch_requests_own (cfg : Cfg) (tgt : Req → Target) (b : Batch) (h : b.Ok cfg tgt) :
    ∀ q ∈ b.r0 ++ b.r1, tgt q ∈ targets (buildGraph cfg b.st) ∧ (tgt q).OwnIn cfg b.st := by
  intro q hq
  have hm : tgt q ∈ targets (buildGraph cfg b.st) := by
    rcases List.mem_append.mp hq with hq | hq
    · have : tgt q ∈ b.r0.map tgt := List.mem_map.mpr ⟨q, hq, rfl⟩
      rw [h.1] at this; exact (List.mem_filter.mp this).1
    · have : tgt q ∈ b.r1.map tgt := List.mem_map.mpr ⟨q, hq, rfl⟩
      rw [h.2] at this; exact (List.mem_filter.mp this).1
  exact ⟨hm, targets_own cfg b.st _ hm⟩

/-- with unique object keys an own target is none of the foreign objects -/
theorem ownIn_not_foreign (cfg : Cfg) (s : State) (hu : KeysUnique s) (tg : Target) (h : tg.OwnIn cfg s) :
    tg ∉ foreignTargets cfg s := by
  obtain ⟨u1, u2, u3, u4, u5⟩ := hu
  intro hin
  unfold foreignTargets at hin
  simp only [List.mem_append, List.mem_map, List.mem_filter] at hin
  rcases hin with (((⟨c, ⟨hc, hf⟩, rfl⟩ | ⟨g, ⟨hg, hf⟩, rfl⟩) | ⟨r, ⟨hr, hf⟩, rfl⟩) | ⟨p, ⟨hp, hf⟩, rfl⟩) | ⟨b, ⟨hb, hf⟩, rfl⟩
  · obtain ⟨c', hc', hn, hf'⟩ := h
    have := unique_of_pairwise (fun c : GwClass => c.name) _ u1 c' hc' c hc hn
    subst this; simp [hf] at hf'
  · obtain ⟨g', hg', hn, hf'⟩ := h
    have := unique_of_pairwise (fun g : Gw => g.nn) _ u2 g' hg' g hg hn
    subst this; simp [hf] at hf'
  · obtain ⟨r', hr', hk, hn, hf'⟩ := h
    have := unique_of_pairwise (fun r : Route => (r.kind, r.nn)) _ u3 r' hr' r hr (by simp [hk, hn])
    subst this; simp [hf] at hf'
  · obtain ⟨p', hp', hk, hn, hf'⟩ := h
    have := unique_of_pairwise (fun p : Policy => (p.gvk, p.nn)) _ u4 p' hp' p hp (by simp [hk, hn])
    subst this; simp [hf] at hf'
  · obtain ⟨b', hb', hn, hf'⟩ := h
    have := unique_of_pairwise (fun b : Btp => b.nn) _ u5 b' hb' b hb hn
    subst this; simp [hf] at hf'

end NGF.Ownership
