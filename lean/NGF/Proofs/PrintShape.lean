/-
`render` is parametric in the strings (C04, text step): two enriched configurations that differ only in the values of their
strings (`PrintShape.sameConf`) are rendered to directive trees of the same shape (`Print.sameShapes`) — the same
directives, blocks and numbers of (quoted / bare) arguments at the same places. With Proofs/PrintLex this gives: the token
skeleton of the generated text does not depend on the values. Core Lean only.
-/
import NGF.Model.PrintShape
import NGF.Model.Print
import NGF.Proofs.PrintLex
import NGF.Proofs.RenderLists

namespace NGF.PrintShape
open NGF.Nginx NGF.Pipeline NGF.Render NGF.Print

/-! ### lists related element by element -/

/-- `l` and `l'` have the same length and are related position by position (as the two projections of one list of pairs) -/
def Rel2 {α β} (R : α → β → Prop) (l : List α) (l' : List β) : Prop :=
  ∃ z : List (α × β), l = z.map (·.1) ∧ l' = z.map (·.2) ∧ ∀ p ∈ z, R p.1 p.2

theorem Rel2.nil {α β} {R : α → β → Prop} : Rel2 R [] [] := ⟨[], rfl, rfl, by simp⟩

theorem Rel2.cons {α β} {R : α → β → Prop} {a : α} {b : β} {l : List α} {l' : List β} (h : R a b) (t : Rel2 R l l') :
    Rel2 R (a :: l) (b :: l') := by
  obtain ⟨z, rfl, rfl, hz⟩ := t
  exact ⟨(a, b) :: z, rfl, rfl, by simpa [h] using hz⟩

theorem Rel2.append {α β} {R : α → β → Prop} {l₁ l₂ : List α} {m₁ m₂ : List β} (h₁ : Rel2 R l₁ m₁) (h₂ : Rel2 R l₂ m₂) :
    Rel2 R (l₁ ++ l₂) (m₁ ++ m₂) := by
  obtain ⟨z₁, rfl, rfl, hz₁⟩ := h₁
  obtain ⟨z₂, rfl, rfl, hz₂⟩ := h₂
  refine ⟨z₁ ++ z₂, by simp, by simp, ?_⟩
  intro p hp
  rcases List.mem_append.mp hp with hp | hp
  · exact hz₁ p hp
  · exact hz₂ p hp

theorem Rel2.map {α β γ δ} {R : α → β → Prop} {S : γ → δ → Prop} {f : α → γ} {g : β → δ} {l : List α} {l' : List β}
    (h : Rel2 R l l') (hf : ∀ a b, R a b → S (f a) (g b)) : Rel2 S (l.map f) (l'.map g) := by
  obtain ⟨z, rfl, rfl, hz⟩ := h
  refine ⟨z.map fun p => (f p.1, g p.2), by simp, by simp, ?_⟩
  intro p hp
  obtain ⟨q, hq, rfl⟩ := List.mem_map.mp hp
  exact hf _ _ (hz q hq)

theorem Rel2.mono {α β} {R S : α → β → Prop} {l : List α} {l' : List β} (h : Rel2 R l l') (hf : ∀ a b, R a b → S a b) :
    Rel2 S l l' := by
  obtain ⟨z, rfl, rfl, hz⟩ := h
  exact ⟨z, rfl, rfl, fun p hp => hf _ _ (hz p hp)⟩

theorem Rel2.flatMap {α β γ δ} {R : α → β → Prop} {S : γ → δ → Prop} {f : α → List γ} {g : β → List δ} {l : List α}
    {l' : List β} (h : Rel2 R l l') (hf : ∀ a b, R a b → Rel2 S (f a) (g b)) : Rel2 S (l.flatMap f) (l'.flatMap g) := by
  obtain ⟨z, rfl, rfl, hz⟩ := h
  induction z with
  | nil => exact Rel2.nil
  | cons p z ih =>
    simp only [List.map_cons, List.flatMap_cons]
    exact Rel2.append (hf _ _ (hz p (List.mem_cons_self ..))) (ih fun q hq => hz q (List.mem_cons_of_mem _ hq))

theorem Rel2.filter {α β} {R : α → β → Prop} {P : α → Bool} {Q : β → Bool} {l : List α} {l' : List β} (h : Rel2 R l l')
    (hpq : ∀ a b, R a b → P a = Q b) : Rel2 R (l.filter P) (l'.filter Q) := by
  obtain ⟨z, rfl, rfl, hz⟩ := h
  refine ⟨z.filter fun p => P p.1, by rw [List.filter_map]; rfl, ?_, fun p hp => hz p (List.mem_filter.mp hp).1⟩
  rw [List.filter_map]
  congr 1
  apply List.filter_congr
  intro p hp
  exact (hpq _ _ (hz p hp)).symm

theorem Rel2.filterMap {α β γ δ} {R : α → β → Prop} {S : γ → δ → Prop} {f : α → Option γ} {g : β → Option δ} {l : List α}
    {l' : List β} (h : Rel2 R l l')
    (hf : ∀ a b, R a b → (f a = none ∧ g b = none) ∨ ∃ x y, f a = some x ∧ g b = some y ∧ S x y) :
    Rel2 S (l.filterMap f) (l'.filterMap g) := by
  obtain ⟨z, rfl, rfl, hz⟩ := h
  induction z with
  | nil => exact Rel2.nil
  | cons p z ih =>
    have ih' := ih fun q hq => hz q (List.mem_cons_of_mem _ hq)
    simp only [List.map_cons, List.filterMap_cons]
    rcases hf _ _ (hz p (List.mem_cons_self ..)) with ⟨e1, e2⟩ | ⟨x, y, e1, e2, hs⟩
    · rw [e1, e2]; exact ih'
    · rw [e1, e2]; exact Rel2.cons hs ih'

/-- sorting both lists by keys that agree position by position keeps them related -/
theorem Rel2.mergeSort {α β} {R : α → β → Prop} {k : α → Nat} {k' : β → Nat} {l : List α} {l' : List β} (h : Rel2 R l l')
    (hk : ∀ a b, R a b → k a = k' b) :
    Rel2 R (l.mergeSort fun a b => k a ≤ k b) (l'.mergeSort fun a b => k' a ≤ k' b) := by
  obtain ⟨z, rfl, rfl, hz⟩ := h
  refine ⟨z.mergeSort fun p q => k p.1 ≤ k q.1, ?_, ?_, fun p hp => hz p (List.mem_mergeSort.mp hp)⟩
  · exact (List.map_mergeSort (f := fun (p : α × β) => p.1) (r := fun p q => decide (k p.1 ≤ k q.1))
      (s := fun a b => decide (k a ≤ k b)) (fun _ _ _ _ => rfl)).symm
  · refine (List.map_mergeSort (f := fun (p : α × β) => p.2) (r := fun p q => decide (k p.1 ≤ k q.1))
      (s := fun a b => decide (k' a ≤ k' b)) ?_).symm
    intro a ha b hb
    rw [hk _ _ (hz a ha), hk _ _ (hz b hb)]

theorem Rel2.enumFrom {α β} {R : α → β → Prop} {l : List α} {l' : List β} (h : Rel2 R l l') (i : Nat) :
    Rel2 (fun p q => p.1 = q.1 ∧ R p.2 q.2) (enumFrom i l) (enumFrom i l') := by
  obtain ⟨z, rfl, rfl, hz⟩ := h
  induction z generalizing i with
  | nil => exact Rel2.nil
  | cons p z ih =>
    simp only [List.map_cons, Pipeline.enumFrom]
    exact Rel2.cons ⟨rfl, hz p (List.mem_cons_self ..)⟩ (ih (i + 1) (fun q hq => hz q (List.mem_cons_of_mem _ hq)))

theorem rel2_of_all2 {α β} {f : α → β → Bool} : ∀ {l : List α} {l' : List β}, all2 f l l' = true →
    Rel2 (fun a b => f a b = true) l l'
  | [], [], _ => Rel2.nil
  | a :: as, b :: bs, h => by
    simp only [all2, Bool.and_eq_true] at h
    exact Rel2.cons h.1 (rel2_of_all2 h.2)
  | [], _ :: _, h => by simp [all2] at h
  | _ :: _, [], h => by simp [all2] at h

theorem Rel2.length {α β} {R : α → β → Prop} {l : List α} {l' : List β} (h : Rel2 R l l') : l.length = l'.length := by
  obtain ⟨z, rfl, rfl, _⟩ := h
  simp

/-- element-wise same shape is `sameShapes` -/
theorem sameShapes_of_rel2 {xs ys : List Dir} (h : Rel2 (fun x y => sameShape x y = true) xs ys) :
    sameShapes xs ys = true := by
  obtain ⟨z, rfl, rfl, hz⟩ := h
  induction z with
  | nil => rfl
  | cons p z ih =>
    simp only [List.map_cons, sameShapes, Bool.and_eq_true]
    exact ⟨hz p (List.mem_cons_self ..), ih fun q hq => hz q (List.mem_cons_of_mem _ hq)⟩

/-! ### the templates -/

abbrev SS (x y : Dir) : Prop := sameShape x y = true

theorem ss_blk {n n' : String} {a a' : List Render.Arg} {ch ch' : List Dir} (ha : sameArgs a a' = true)
    (hc : Rel2 SS ch ch') : SS (blk n a ch) (blk n' a' ch') := by
  simp only [SS, blk, sameShape, Bool.and_eq_true]
  exact ⟨ha, sameShapes_of_rel2 hc⟩

theorem rel2_refl_of {ds : List Dir} (h : ∀ d ∈ ds, sameShape d d = true) : Rel2 SS ds ds :=
  ⟨ds.map fun d => (d, d), by simp [Function.comp_def], by simp [Function.comp_def], by
    intro p hp
    obtain ⟨d, hd, rfl⟩ := List.mem_map.mp hp
    exact h d hd⟩

theorem rel2_of_sameShapes : ∀ {xs ys : List Dir}, sameShapes xs ys = true → Rel2 SS xs ys
  | [], [], _ => Rel2.nil
  | x :: xs, y :: ys, h => by
    simp only [sameShapes, Bool.and_eq_true] at h
    exact Rel2.cons h.1 (rel2_of_sameShapes h.2)
  | [], _ :: _, h => by simp [sameShapes] at h
  | _ :: _, [], h => by simp [sameShapes] at h

theorem listenDirs_ss (p p' : Nat) (extra : List String) : Rel2 SS (listenDirs p extra) (listenDirs p' extra) := by
  apply rel2_of_sameShapes
  simp [listenDirs, dir, sameShapes, sameShape, sameArgs, wl]

theorem renderDefault_ss (p p' : Nat) : SS (renderDefault p) (renderDefault p') := by
  refine ss_blk rfl (Rel2.append (listenDirs_ss p p' _) (rel2_refl_of (by decide)))

theorem actDirs_ss {a a' : RAct} (h : sameAct a a' = true) : Rel2 SS (actDirs a) (actDirs a') := by
  apply rel2_of_sameShapes
  cases a <;> cases a' <;> first
    | (simp [sameAct] at h; done)
    | simp [actDirs, baseHeaders, httpVersion, dir, sameShapes, sameShape, sameArgs, wl, w, q]

theorem locArgs_same {k k' : Bool × Str} (h : k.1 = k'.1) : sameArgs (locArgs k) (locArgs k') = true := by
  unfold locArgs
  rw [h]
  split <;> rfl

theorem njsDirs_ss (sid idx sid' idx' : Nat) : Rel2 SS (njsDirs sid idx) (njsDirs sid' idx') := by
  apply rel2_of_sameShapes
  simp [njsDirs, httpVersion, dir, sameShapes, sameShape, sameArgs, wl, w]

theorem renderRule_ss {sid sid' : Nat} {r r' : RRule} (h : sameRule r r' = true) :
    Rel2 SS (renderRule sid r) (renderRule sid' r') := by
  simp only [sameRule, Bool.and_eq_true, beq_iff_eq] at h
  obtain ⟨⟨_, hext⟩, hact⟩ := h
  have hext' := rel2_of_all2 hext
  unfold renderRule
  cases ha : r.act with
  | direct a =>
    cases ha' : r'.act with
    | direct a' =>
      rw [ha, ha'] at hact
      simp only
      refine hext'.map fun k k' hk => ss_blk (locArgs_same (by simpa using hk)) (actDirs_ss hact)
    | njs ms' => rw [ha, ha'] at hact; simp [sameLocAct] at hact
  | njs ms =>
    cases ha' : r'.act with
    | direct a' => rw [ha, ha'] at hact; simp [sameLocAct] at hact
    | njs ms' =>
      rw [ha, ha'] at hact
      simp only
      refine Rel2.append (hext'.map fun k k' hk => ss_blk (locArgs_same (by simpa using hk)) (njsDirs_ss _ _ _ _)) ?_
      have hms := (rel2_of_all2 (show all2 (fun m m' => sameAct m.act m'.act) ms ms' = true from hact)).enumFrom 0
      refine hms.map fun jm jm' hj => ?_
      exact ss_blk rfl (Rel2.cons (by decide) (actDirs_ss hj.2))

theorem renderServer_ss {sv sv' : RServer} (h : sameServer sv sv' = true) : SS (renderServer sv) (renderServer sv') := by
  simp only [sameServer, Bool.and_eq_true, beq_iff_eq] at h
  obtain ⟨⟨_, hroot⟩, hrules⟩ := h
  refine ss_blk rfl ?_
  refine Rel2.append (Rel2.append (Rel2.append (listenDirs_ss _ _ _) (Rel2.cons (by rfl) Rel2.nil)) ?_) ?_
  · have hs : Rel2 (fun r r' => sameRule r r' = true) (sortRules sv.rules) (sortRules sv'.rules) := by
      unfold sortRules
      refine (rel2_of_all2 hrules).mergeSort (k := (·.idx)) (k' := (·.idx)) ?_
      intro a b hab
      simp only [sameRule, Bool.and_eq_true, beq_iff_eq] at hab
      exact hab.1.1
    exact hs.flatMap fun r r' hr => renderRule_ss hr
  · rw [hroot]
    split
    · exact rel2_refl_of (by decide)
    · exact Rel2.nil

theorem serverDirs_ss {c c' : ConfR} (hd : all2 (fun d d' => d.2 == d'.2) c.dports c'.dports = true)
    (hs : all2 sameServer c.servers c'.servers = true) : Rel2 SS (serverDirs c) (serverDirs c') := by
  unfold serverDirs
  have h1 : Rel2 (fun (p q : Nat × Dir) => p.1 = q.1 ∧ SS p.2 q.2)
      (c.dports.map fun d => (d.2, renderDefault d.1)) (c'.dports.map fun d => (d.2, renderDefault d.1)) :=
    (rel2_of_all2 hd).map fun d d' h => ⟨by simpa using h, renderDefault_ss _ _⟩
  have h2 : Rel2 (fun (p q : Nat × Dir) => p.1 = q.1 ∧ SS p.2 q.2)
      (c.servers.map fun sv => (sv.sid, renderServer sv)) (c'.servers.map fun sv => (sv.sid, renderServer sv)) :=
    (rel2_of_all2 hs).map fun sv sv' h => ⟨by
      simp only [sameServer, Bool.and_eq_true, beq_iff_eq] at h
      exact h.1.1, renderServer_ss h⟩
  have h3 := (h1.append h2).mergeSort (k := (·.1)) (k' := (·.1)) (fun _ _ h => h.1)
  exact h3.map fun _ _ h => h.2

theorem zipDist_rel : ∀ {bs bs' : List Backend} (cs : List Nat), bs.length = bs'.length →
    Rel2 (fun (vc vc' : Str × Nat) => vc.2 = vc'.2) (zipDist bs cs) (zipDist bs' cs)
  | [], [], _, _ => by simp only [zipDist]; exact Rel2.nil
  | b :: bs, b' :: bs', [], _ => by simp only [zipDist]; exact Rel2.nil
  | b :: bs, b' :: bs', c :: cs, h => by
    simp only [zipDist]
    exact Rel2.cons rfl (zipDist_rel cs (by simpa using h))
  | [], _ :: _, _, h => by simp at h
  | _ :: _, [], _, h => by simp at h

theorem splitBlock_ss {g g' : Src × List Backend} (h : sameGroup g g' = true) : SS (splitBlock g) (splitBlock g') := by
  simp only [sameGroup, beq_iff_eq] at h
  refine ss_blk rfl ?_
  unfold splitEntries
  simp only [h]
  split
  · exact Rel2.cons (by rfl) Rel2.nil
  · have hl : g.2.length = g'.2.length := by simpa using congrArg List.length h
    refine (zipDist_rel _ hl).filterMap fun vc vc' hv => ?_
    rw [hv]
    split
    · exact .inl ⟨rfl, rfl⟩
    · exact .inr ⟨_, _, rfl, rfl, by rfl⟩

theorem splitDirs_ss {c c' : ConfR} (h : all2 sameGroup c.groups c'.groups = true) : Rel2 SS (splitDirs c) (splitDirs c') := by
  unfold splitDirs
  have hf : Rel2 (fun g g' => sameGroup g g' = true) (c.groups.filter needsSplit) (c'.groups.filter needsSplit) := by
    refine (rel2_of_all2 h).filter fun g g' hg => ?_
    simp only [sameGroup, beq_iff_eq] at hg
    have : g.2.length = g'.2.length := by simpa using congrArg List.length hg
    simp [needsSplit, this]
  exact hf.map fun g g' hg => splitBlock_ss hg

/-- **`render` is parametric in the strings**: configurations that differ only in the values of their strings are rendered
to trees of the same shape. -/
theorem sameShapes_render {c c' : ConfR} (h : sameConf c c' = true) : sameShapes (render c) (render c') = true := by
  simp only [sameConf, Bool.and_eq_true] at h
  apply sameShapes_of_rel2
  unfold render
  exact Rel2.cons (by decide)
    (Rel2.append (Rel2.append (serverDirs_ss h.1.1 h.1.2) (rel2_refl_of (by decide))) (splitDirs_ss h.2))

/-! ### `render` does not read the match conditions -/

theorem enumFrom_map {α β} (g : α → β) : ∀ (l : List α) (i : Nat),
    enumFrom i (l.map g) = (enumFrom i l).map fun p => (p.1, g p.2)
  | [], _ => rfl
  | a :: as, i => by simp [Pipeline.enumFrom, enumFrom_map g as (i + 1)]

theorem renderRule_eraseConds (sid : Nat) (r : RRule) :
    renderRule sid { r with act := eraseCondsAct r.act } = renderRule sid r := by
  unfold renderRule
  cases ha : r.act with
  | direct a => simp [eraseCondsAct]
  | njs ms =>
    simp only [eraseCondsAct, enumFrom_map, List.map_map]
    congr 1

theorem renderServer_eraseConds (sv : RServer) :
    renderServer { sv with rules := sv.rules.map fun r => { r with act := eraseCondsAct r.act } } = renderServer sv := by
  unfold renderServer
  have hs : sortRules (sv.rules.map fun r => { r with act := eraseCondsAct r.act }) =
      (sortRules sv.rules).map fun r => { r with act := eraseCondsAct r.act } := by
    unfold sortRules
    exact (List.map_mergeSort (f := fun (r : RRule) => { r with act := eraseCondsAct r.act })
      (r := fun a b => decide (a.idx ≤ b.idx)) (s := fun a b => decide (a.idx ≤ b.idx)) (fun _ _ _ _ => rfl)).symm
  simp only [hs, List.flatMap_map, renderRule_eraseConds]

/-- **Method, header and query strings do not reach http.conf**: `render` gives the same tree when the conditions of all
match rules are forgotten (they are rendered by `Render.matchesOf` into matches.json only). -/
theorem render_eraseConds (c : ConfR) : render (eraseConds c) = render c := by
  have hs : serverDirs (eraseConds c) = serverDirs c := by
    unfold serverDirs
    simp only [eraseConds, List.map_map]
    congr 3
    apply List.map_congr_left
    intro sv _
    simp only [Function.comp]
    rw [renderServer_eraseConds]
  simp only [render, hs]
  rfl

end NGF.PrintShape
