/-
C11 — helper lemmas about the generated file set (`NGF.Model.GenPaths`): `dedup`, `mkPath`, `dirOf` of a generated
path, membership in `generatedEntries`, the classes of entries, injectivity of the name manglings (on top of
`NGF.Proofs.Mangle.append_sep_inj`, the lemma behind C03's `mangle_injective_keyPair/bundle/cspFile`).
-/
import NGF.Model.GenPaths
import NGF.Proofs.FileMgr
import NGF.Proofs.Mangle

namespace NGF.GenPaths
open NGF.FileMgr NGF.Mangle

/-! ### lists -/

theorem mem_dedup {α} [DecidableEq α] (x : α) : ∀ l : List α, x ∈ dedup l ↔ x ∈ l
  | [] => by simp [dedup]
  | a :: l => by
    simp only [dedup, List.mem_cons, List.mem_filter, mem_dedup x l, decide_eq_true_eq]
    constructor
    · rintro (h | ⟨h, _⟩)
      · exact .inl h
      · exact .inr h
    · rintro (h | h)
      · exact .inl h
      · by_cases e : x = a
        · exact .inl e
        · exact .inr ⟨h, e⟩

theorem nodup_dedup {α} [DecidableEq α] : ∀ l : List α, (dedup l).Nodup
  | [] => by simp [dedup]
  | a :: l => by
    simp only [dedup, List.nodup_cons, List.mem_filter, decide_eq_true_eq]
    exact ⟨fun h => h.2 rfl, List.Pairwise.filter _ (nodup_dedup l)⟩

theorem nodup_map_of_inj_on {α β} (f : α → β) : ∀ (l : List α), l.Nodup →
    (∀ a ∈ l, ∀ b ∈ l, f a = f b → a = b) → (l.map f).Nodup
  | [], _, _ => by simp
  | a :: l, hn, hi => by
    rw [List.nodup_cons] at hn
    simp only [List.map_cons, List.nodup_cons, List.mem_map]
    refine ⟨?_, nodup_map_of_inj_on f l hn.2
      (fun x hx y hy => hi x (List.mem_cons_of_mem _ hx) y (List.mem_cons_of_mem _ hy))⟩
    rintro ⟨b, hb, e⟩
    have := hi b (List.mem_cons_of_mem _ hb) a List.mem_cons_self e
    exact hn.1 (this ▸ hb)

theorem inj_on_of_nodup_map {α β} (f : α → β) : ∀ (l : List α), (l.map f).Nodup →
    ∀ a ∈ l, ∀ b ∈ l, f a = f b → a = b
  | [], _, a, ha, _, _, _ => by simp at ha
  | x :: l, hn, a, ha, b, hb, e => by
    simp only [List.map_cons, List.nodup_cons, List.mem_map, not_exists, not_and] at hn
    rcases List.mem_cons.mp ha with rfl | ha' <;> rcases List.mem_cons.mp hb with rfl | hb'
    · rfl
    · exact absurd e.symm (hn.1 b hb')
    · exact absurd e (hn.1 a ha')
    · exact inj_on_of_nodup_map f l hn.2 a ha' b hb' e

/-- two lists whose elements fall into different classes can be appended without creating a duplicate -/
theorem nodup_append_of_sep {α} (c : α → Nat) (n : Nat) {l₁ l₂ : List α} (h₁ : l₁.Nodup) (h₂ : l₂.Nodup)
    (hc₁ : ∀ x ∈ l₁, c x < n) (hc₂ : ∀ x ∈ l₂, c x = n) : (l₁ ++ l₂).Nodup := by
  rw [List.nodup_append]
  refine ⟨h₁, h₂, fun a ha b hb e => ?_⟩
  have := hc₁ a ha
  rw [e, hc₂ b hb] at this
  exact Nat.lt_irrefl _ this

/-! ### paths -/

theorem mkPath_inj {f f' b b' : Name} (hb : '/' ∉ b) (hb' : '/' ∉ b') (h : mkPath f b = mkPath f' b') :
    f = f' ∧ b = b' := by
  have r := congrArg List.reverse h
  simp only [mkPath, List.reverse_append, List.reverse_cons, List.append_assoc, List.singleton_append] at r
  obtain ⟨h1, h2⟩ := append_sep_inj (s := '/') (by simpa using hb) (by simpa using hb') r
  exact ⟨by simpa using congrArg List.reverse h2, by simpa using congrArg List.reverse h1⟩

theorem dirChars_noslash : ∀ (b seen acc : List Char), '/' ∉ b → dirChars b seen acc = acc
  | [], _, _, _ => rfl
  | c :: b, seen, acc, h => by
    have hc : c ≠ '/' := fun e => h (e ▸ List.mem_cons_self)
    have hb : '/' ∉ b := fun m => h (List.mem_cons_of_mem _ m)
    simp [dirChars, hc, dirChars_noslash b _ _ hb]

theorem dirChars_append_slash : ∀ (a b seen acc : List Char),
    dirChars (a ++ '/' :: b) seen acc = dirChars b (seen ++ a ++ ['/']) (seen ++ a)
  | [], b, seen, acc => by simp [dirChars]
  | c :: a, b, seen, acc => by
    simp only [List.cons_append, dirChars]
    split <;> simp [dirChars_append_slash a b]

/-- the directory of `folder/base` is `folder` when the base has no slash -/
theorem dirOf_mkPath (f b : Name) (hb : '/' ∉ b) : dirOf (String.ofList (mkPath f b)) = String.ofList f := by
  simp [dirOf, mkPath, String.toList_ofList, dirChars_append_slash, dirChars_noslash _ _ _ hb]

theorem folder_path_inj {f g : Folder} (h : f.path = g.path) : f = g := by
  cases f <;> cases g <;> first | rfl | (exact absurd h (by decide))

theorem folder_managed (f : Folder) : String.ofList f.path ∈ managedFolders := by
  cases f <;> decide

/-- the key of an entry: folder and base name (the type is not part of the path) -/
def Entry.key (e : Entry) : Folder × Name := (e.folder, e.base)

theorem path_inj_of_key {e e' : Entry} (hb : '/' ∉ e.base) (hb' : '/' ∉ e'.base) (h : e.path = e'.path) :
    e.key = e'.key := by
  obtain ⟨h1, h2⟩ := mkPath_inj hb hb' h
  simp [Entry.key, folder_path_inj h1, h2]

/-! ### membership in the generated set -/

/-- the five configuration files every `Generate` call produces -/
def fixedConf : List Entry := [mainConf, httpConf, matchesJson, streamConf, versionConf]

/-- all files `generateMgmtFiles` can produce -/
def mgmtAll : List Entry :=
  [⟨.secrets, lit "license.jwt", .secret⟩, ⟨.secrets, lit "mgmt-ca.crt", .secret⟩,
   ⟨.secrets, lit "mgmt-tls.crt", .secret⟩, ⟨.secrets, lit "mgmt-tls.key", .secret⟩,
   ⟨.mainIncludes, lit "deployment_ctx.json", .regular⟩, ⟨.mainIncludes, lit "mgmt.conf", .regular⟩]

theorem mem_execDests (g : GenIn) (e : Entry) :
    e ∈ execDests g ↔ e ∈ fixedConf ∨ (∃ n ∈ g.snippetNames, e = snippetEntry n) ∨
      (∃ n ∈ g.policyFiles, e = policyEntry n) := by
  simp only [execDests, fixedConf, List.mem_cons, List.mem_append, List.mem_map, List.not_mem_nil, or_false]
  constructor
  · rintro (h | h | (⟨n, hn, rfl⟩ | ⟨n, hn, rfl⟩) | h | h | h | h | h | h)
    all_goals first
      | exact .inr (.inl ⟨_, hn, rfl⟩)
      | exact .inr (.inr ⟨_, hn, rfl⟩)
      | (subst h; simp)
  · rintro ((h | h | h | h | h) | ⟨n, hn, rfl⟩ | ⟨n, hn, rfl⟩)
    all_goals first
      | exact .inr (.inr (.inl (.inl ⟨_, hn, rfl⟩)))
      | exact .inr (.inr (.inl (.inr ⟨_, hn, rfl⟩)))
      | (subst h; simp)

theorem mem_mgmtEntries (g : GenIn) (e : Entry) (h : e ∈ mgmtEntries g) : e ∈ mgmtAll := by
  unfold mgmtEntries at h
  cases hp : g.plus <;> cases h1 : g.mgmtCA <;> cases h2 : g.mgmtCert <;> cases h3 : g.mgmtKey <;>
    simp [hp, h1, h2, h3] at h <;> simp only [mgmtAll, List.mem_cons, List.not_mem_nil, or_false] <;> grind

theorem mem_generatedEntries (g : GenIn) (e : Entry) :
    e ∈ generatedEntries g ↔ (∃ id ∈ g.keyPairIds, e = pemEntry id) ∨ e ∈ execDests g ∨ e ∈ mgmtEntries g ∨
      (∃ id ∈ g.bundleIds, e = crtEntry id) := by
  simp only [generatedEntries, confEntries, List.mem_append, List.mem_map, mem_dedup, or_assoc]
  constructor
  · rintro (⟨n, hn, rfl⟩ | h | h | ⟨n, hn, rfl⟩)
    · exact .inl ⟨_, hn, rfl⟩
    · exact .inr (.inl h)
    · exact .inr (.inr (.inl h))
    · exact .inr (.inr (.inr ⟨_, hn, rfl⟩))
  · rintro (⟨n, hn, rfl⟩ | h | h | ⟨n, hn, rfl⟩)
    · exact .inl ⟨_, hn, rfl⟩
    · exact .inr (.inl h)
    · exact .inr (.inr (.inl h))
    · exact .inr (.inr (.inr ⟨_, hn, rfl⟩))

/-- no name the generator receives contains a slash (Kubernetes names never do) -/
def SlashFree (g : GenIn) : Prop :=
  ∀ n, n ∈ g.keyPairIds ∨ n ∈ g.bundleIds ∨ n ∈ g.snippetNames ∨ n ∈ g.policyFiles → '/' ∉ n

theorem not_mem_append_lit {n s : Name} (hn : '/' ∉ n) (hs : '/' ∉ s) : '/' ∉ n ++ s := by
  simp [List.mem_append, hn, hs]

theorem fixedConf_slashFree : ∀ e ∈ fixedConf, '/' ∉ e.base := by decide
theorem mgmtAll_slashFree : ∀ e ∈ mgmtAll, '/' ∉ e.base := by decide

theorem base_slashFree (g : GenIn) (hs : SlashFree g) (e : Entry) (he : e ∈ generatedEntries g) : '/' ∉ e.base := by
  rcases (mem_generatedEntries g e).1 he with ⟨n, hn, rfl⟩ | h | h | ⟨n, hn, rfl⟩
  · exact not_mem_append_lit (hs n (.inl hn)) (by decide)
  · rcases (mem_execDests g e).1 h with h | ⟨n, hn, rfl⟩ | ⟨n, hn, rfl⟩
    · exact fixedConf_slashFree e h
    · exact not_mem_append_lit (hs n (.inr (.inr (.inl hn)))) (by decide)
    · exact hs n (.inr (.inr (.inr hn)))
  · exact mgmtAll_slashFree e (mem_mgmtEntries g e h)
  · exact not_mem_append_lit (hs n (.inr (.inl hn))) (by decide)

/-- every generated path lies directly in one of the five managed folders -/
theorem entry_managed (g : GenIn) (hs : SlashFree g) (e : Entry) (he : e ∈ generatedEntries g) :
    dirOf (String.ofList e.path) ∈ managedFolders := by
  rw [Entry.path, dirOf_mkPath _ _ (base_slashFree g hs e he)]
  exact folder_managed e.folder

/-! ### classes of entries: key pairs (0), configuration files (1), mgmt files (2), bundles (3) -/

def cls (k : Folder × Name) : Nat :=
  if k.1 = .secrets then
    (if k.2.head? = some 's' then 0 else if k.2.head? = some 'c' then 3 else 2)
  else if k.1 = .mainIncludes then (if k.2 = lit "main.conf" then 1 else 2)
  else 1

theorem lit_keypair : lit "ssl_keypair_" = 's' :: lit "sl_keypair_" := by decide
theorem lit_bundle : lit "cert_bundle_" = 'c' :: lit "ert_bundle_" := by decide
theorem lit_us : lit "_" = ['_'] := by decide

theorem cls_pem (ns name : Name) : cls (pemEntry (keyPairId ns name)).key = 0 := by
  simp [cls, Entry.key, pemEntry, keyPairId, lit_keypair]

theorem cls_crt (ns name : Name) : cls (crtEntry (bundleId ns name)).key = 3 := by
  simp [cls, Entry.key, crtEntry, bundleId, lit_bundle]

theorem cls_fixed : ∀ e ∈ fixedConf, cls e.key = 1 := by decide
theorem cls_mgmt : ∀ e ∈ mgmtAll, cls e.key = 2 := by decide
theorem cls_snippet (n : Name) : cls (snippetEntry n).key = 1 := by simp [cls, Entry.key, snippetEntry]
theorem cls_policy (n : Name) : cls (policyEntry n).key = 1 := by simp [cls, Entry.key, policyEntry]

theorem cls_exec (g : GenIn) (e : Entry) (h : e ∈ execDests g) : cls e.key = 1 := by
  rcases (mem_execDests g e).1 h with h | ⟨n, _, rfl⟩ | ⟨n, _, rfl⟩
  · exact cls_fixed e h
  · exact cls_snippet n
  · exact cls_policy n

theorem typ_fixed : ∀ e ∈ fixedConf, e.typ = .regular := by decide

theorem typ_exec (g : GenIn) (e : Entry) (h : e ∈ execDests g) : e.typ = .regular := by
  rcases (mem_execDests g e).1 h with h | ⟨n, _, rfl⟩ | ⟨n, _, rfl⟩
  · exact typ_fixed e h
  · rfl
  · rfl

/-! ### Kubernetes-legal objects -/

/-- what the API server guarantees for namespaces and object names (DNS labels / subdomains): no `_`, no `/` -/
def K8sName (n : Name) : Prop := '_' ∉ n ∧ '/' ∉ n

structure Legal (o : Objs) : Prop where
  keyPairs    : ∀ p ∈ o.keyPairs, K8sName p.1 ∧ K8sName p.2
  bundles     : ∀ p ∈ o.bundles, K8sName p.1 ∧ K8sName p.2
  snippets    : ∀ p ∈ o.snippets, K8sName p.2.1 ∧ K8sName p.2.2
  csPolicies  : ∀ p ∈ o.csPolicies, K8sName p.1 ∧ K8sName p.2
  obsPolicies : ∀ p ∈ o.obsPolicies, K8sName p.2.1 ∧ K8sName p.2.2
  /-- distinct objects: the maps `SSLKeyPairs` / `CertBundles` have one entry per Secret / ConfigMap -/
  keyPairsNodup : o.keyPairs.Nodup
  bundlesNodup  : o.bundles.Nodup

theorem snipCtx_noslash (c : SnipCtx) : '/' ∉ c.str := by cases c <;> decide
theorem obsKind_noslash (k : ObsKind) : '/' ∉ k.str := by cases k <;> decide

theorem slashFree_toIn (o : Objs) (hl : Legal o) : SlashFree o.toIn := by
  intro n hn
  simp only [Objs.toIn, List.mem_map, List.mem_append] at hn
  rcases hn with ⟨p, hp, rfl⟩ | ⟨p, hp, rfl⟩ | ⟨p, hp, rfl⟩ | ⟨p, hp, rfl⟩ | ⟨p, hp, rfl⟩
  · have := hl.keyPairs p hp
    simp only [keyPairId, List.mem_append, not_or]
    exact ⟨⟨⟨by decide, this.1.2⟩, by decide⟩, this.2.2⟩
  · have := hl.bundles p hp
    simp only [bundleId, List.mem_append, not_or]
    exact ⟨⟨⟨by decide, this.1.2⟩, by decide⟩, this.2.2⟩
  · have := hl.snippets p hp
    simp only [snippetName, List.mem_append, not_or]
    exact ⟨⟨⟨⟨⟨by decide, snipCtx_noslash _⟩, by decide⟩, this.1.2⟩, by decide⟩, this.2.2⟩
  · have := hl.csPolicies p hp
    simp only [cspName, List.mem_append, not_or]
    exact ⟨⟨⟨⟨by decide, this.1.2⟩, by decide⟩, this.2.2⟩, by decide⟩
  · have := hl.obsPolicies p hp
    simp only [obsName, List.mem_append, not_or]
    exact ⟨⟨⟨⟨⟨⟨by decide, this.1.2⟩, by decide⟩, this.2.2⟩, by decide⟩, obsKind_noslash _⟩, by decide⟩

/-! ### injectivity of the id manglings (same argument as C03's `mangle_injective_keyPair`) -/

theorem prefixed_inj {pre suf ns ns' name name' : Name} (hns : '_' ∉ ns) (hns' : '_' ∉ ns')
    (h : pre ++ ns ++ lit "_" ++ name ++ suf = pre ++ ns' ++ lit "_" ++ name' ++ suf) :
    ns = ns' ∧ name = name' := by
  simp only [lit_us, List.append_assoc] at h
  have h1 := List.append_cancel_left h
  simp only [List.cons_append, List.nil_append] at h1
  obtain ⟨a1, a2⟩ := append_sep_inj hns hns' h1
  exact ⟨a1, List.append_cancel_right a2⟩

theorem pemKey_inj {p q : Name × Name} (hp : '_' ∉ p.1) (hq : '_' ∉ q.1)
    (h : (pemEntry (keyPairId p.1 p.2)).key = (pemEntry (keyPairId q.1 q.2)).key) : p = q := by
  simp only [Entry.key, pemEntry, keyPairId, Prod.mk.injEq, true_and] at h
  obtain ⟨a, b⟩ := prefixed_inj hp hq h
  exact Prod.ext a b

theorem crtKey_inj {p q : Name × Name} (hp : '_' ∉ p.1) (hq : '_' ∉ q.1)
    (h : (crtEntry (bundleId p.1 p.2)).key = (crtEntry (bundleId q.1 q.2)).key) : p = q := by
  simp only [Entry.key, crtEntry, bundleId, Prod.mk.injEq, true_and] at h
  obtain ⟨a, b⟩ := prefixed_inj hp hq h
  exact Prod.ext a b

/-! ### no two generated files share a path -/

theorem mgmt_keys_nodup (g : GenIn) : ((mgmtEntries g).map Entry.key).Nodup := by
  unfold mgmtEntries
  cases g.plus <;> cases g.mgmtCA <;> cases g.mgmtCert <;> cases g.mgmtKey <;> decide

theorem conf_keys_nodup (g : GenIn) : ((confEntries g).map Entry.key).Nodup := by
  apply nodup_map_of_inj_on _ _ (nodup_dedup _)
  intro a ha b hb e
  have ta := typ_exec g a ((mem_dedup a _).1 ha)
  have tb := typ_exec g b ((mem_dedup b _).1 hb)
  cases a; cases b
  simp only [Entry.key, Prod.mk.injEq] at e
  simp_all

theorem keys_nodup (o : Objs) (hl : Legal o) : ((generatedEntries o.toIn).map Entry.key).Nodup := by
  simp only [generatedEntries, List.map_append]
  refine nodup_append_of_sep cls 3 (nodup_append_of_sep cls 2 (nodup_append_of_sep cls 1 ?_ (conf_keys_nodup _) ?_ ?_)
    (mgmt_keys_nodup _) ?_ ?_) ?_ ?_ ?_
  · -- key pairs
    simp only [Objs.toIn, List.map_map]
    apply nodup_map_of_inj_on _ _ hl.keyPairsNodup
    intro a ha b hb e
    exact pemKey_inj (hl.keyPairs a ha).1.1 (hl.keyPairs b hb).1.1 e
  · intro k hk
    simp only [Objs.toIn, List.map_map, List.mem_map, Function.comp] at hk
    obtain ⟨p, _, rfl⟩ := hk
    rw [cls_pem]; decide
  · intro k hk
    obtain ⟨e, he, rfl⟩ := List.mem_map.1 hk
    exact cls_exec _ e ((mem_dedup e _).1 he)
  · intro k hk
    rcases List.mem_append.1 hk with hk | hk
    · simp only [Objs.toIn, List.map_map, List.mem_map, Function.comp] at hk
      obtain ⟨p, _, rfl⟩ := hk
      rw [cls_pem]; decide
    · obtain ⟨e, he, rfl⟩ := List.mem_map.1 hk
      rw [cls_exec _ e ((mem_dedup e _).1 he)]; decide
  · intro k hk
    obtain ⟨e, he, rfl⟩ := List.mem_map.1 hk
    exact cls_mgmt e (mem_mgmtEntries _ e he)
  · -- bundles
    simp only [Objs.toIn, List.map_map]
    apply nodup_map_of_inj_on _ _ hl.bundlesNodup
    intro a ha b hb e
    exact crtKey_inj (hl.bundles a ha).1.1 (hl.bundles b hb).1.1 e
  · intro k hk
    rcases List.mem_append.1 hk with hk | hk
    · rcases List.mem_append.1 hk with hk | hk
      · simp only [Objs.toIn, List.map_map, List.mem_map, Function.comp] at hk
        obtain ⟨p, _, rfl⟩ := hk
        rw [cls_pem]; decide
      · obtain ⟨e, he, rfl⟩ := List.mem_map.1 hk
        rw [cls_exec _ e ((mem_dedup e _).1 he)]; decide
    · obtain ⟨e, he, rfl⟩ := List.mem_map.1 hk
      rw [cls_mgmt e (mem_mgmtEntries _ e he)]; decide
  · intro k hk
    simp only [Objs.toIn, List.map_map, List.mem_map, Function.comp] at hk
    obtain ⟨p, _, rfl⟩ := hk
    exact cls_crt _ _

/-- distinct objects give distinct paths -/
theorem paths_nodup (o : Objs) (hl : Legal o) : ((generatedEntries o.toIn).map Entry.path).Nodup := by
  have hk := keys_nodup o hl
  have hs := slashFree_toIn o hl
  have hn : (generatedEntries o.toIn).Nodup := by
    have := hk
    rw [List.Nodup, List.pairwise_map] at this
    exact this.imp (fun h e => h (by rw [e]))
  apply nodup_map_of_inj_on _ _ hn
  intro a ha b hb e
  have := path_inj_of_key (base_slashFree _ hs a ha) (base_slashFree _ hs b hb) e
  exact inj_on_of_nodup_map Entry.key _ hk a ha b hb this

/-! ### which files are secret -/

theorem folder_exec (g : GenIn) (e : Entry) (h : e ∈ execDests g) : e.folder ≠ .secrets := by
  rcases (mem_execDests g e).1 h with h | ⟨n, _, rfl⟩ | ⟨n, _, rfl⟩
  · exact (show ∀ e ∈ fixedConf, e.folder ≠ .secrets by decide) e h
  · simp [snippetEntry]
  · simp [policyEntry]

theorem mgmt_secret_folder : ∀ e ∈ mgmtAll, e.folder = .secrets → e.typ = .secret := by decide
theorem mgmt_secret_key : ∀ e ∈ mgmtAll, ∀ e0 ∈ mgmtSecrets, e.key = e0.key → e.typ = .secret := by decide
theorem mgmt_secret_path : ∀ e ∈ mgmtAll, e.typ = .secret → e.path ∈ mgmtSecrets.map Entry.path := by decide
theorem mgmtSecrets_slashFree : ∀ e ∈ mgmtSecrets, '/' ∉ e.base := by decide
theorem cls_mgmtSecrets : ∀ e ∈ mgmtSecrets, cls e.key = 2 := by decide

theorem crt_ne_pem (x y : Name) : x ++ lit ".crt" ≠ y ++ lit ".pem" := by
  intro h
  have := congrArg (fun l => l.reverse.head?) h
  have e1 : (lit ".crt").reverse = 't' :: (lit ".cr").reverse := by decide
  have e2 : (lit ".pem").reverse = 'm' :: (lit ".pe").reverse := by decide
  simp [List.reverse_append, e1, e2] at this

/-- **ID level.** Whatever the ids are (slash-free), the file at the PEM path of a key pair has the secret type. -/
theorem pem_typ_secret (g : GenIn) (hs : SlashFree g) (e : Entry) (he : e ∈ generatedEntries g)
    (id : Name) (hid : id ∈ g.keyPairIds) (hp : e.path = (pemEntry id).path) : e.typ = .secret := by
  have hb := base_slashFree g hs e he
  have hb0 : '/' ∉ (pemEntry id).base := not_mem_append_lit (hs id (.inl hid)) (by decide)
  have hk := path_inj_of_key hb hb0 hp
  simp only [Entry.key, pemEntry, Prod.mk.injEq] at hk
  rcases (mem_generatedEntries g e).1 he with ⟨n, _, rfl⟩ | h | h | ⟨n, _, rfl⟩
  · rfl
  · exact absurd hk.1 (folder_exec g e h)
  · exact mgmt_secret_folder e (mem_mgmtEntries g e h) hk.1
  · exact absurd hk.2 (crt_ne_pem _ _)

/-- **Object level.** Every generated file whose path is a secret path has the secret type … -/
theorem secret_path_typ (o : Objs) (hl : Legal o) (e : Entry) (he : e ∈ generatedEntries o.toIn)
    (hp : e.path ∈ secretPaths o.toIn) : e.typ = .secret := by
  have hs := slashFree_toIn o hl
  rcases List.mem_append.1 hp with hp | hp
  · obtain ⟨id, hid, e0⟩ := List.mem_map.1 hp
    exact pem_typ_secret _ hs e he id hid e0.symm
  · obtain ⟨e0, h0, e1⟩ := List.mem_map.1 hp
    have hk := path_inj_of_key (base_slashFree _ hs e he) (mgmtSecrets_slashFree e0 h0) e1.symm
    have hc : cls e.key = 2 := by rw [hk]; exact cls_mgmtSecrets e0 h0
    rcases (mem_generatedEntries _ e).1 he with ⟨n, hn, rfl⟩ | h | h | ⟨n, hn, rfl⟩
    · simp only [Objs.toIn, List.mem_map] at hn
      obtain ⟨p, _, rfl⟩ := hn
      rw [cls_pem] at hc; exact absurd hc (by decide)
    · rw [cls_exec _ e h] at hc; exact absurd hc (by decide)
    · exact mgmt_secret_key e (mem_mgmtEntries _ e h) e0 h0 hk
    · simp only [Objs.toIn, List.mem_map] at hn
      obtain ⟨p, _, rfl⟩ := hn
      rw [cls_crt] at hc; exact absurd hc (by decide)

/-- … and nothing else has it. -/
theorem secret_typ_path (g : GenIn) (e : Entry) (he : e ∈ generatedEntries g) (ht : e.typ = .secret) :
    e.path ∈ secretPaths g := by
  rcases (mem_generatedEntries g e).1 he with ⟨n, hn, rfl⟩ | h | h | ⟨n, hn, rfl⟩
  · exact List.mem_append_left _ (List.mem_map.2 ⟨n, hn, rfl⟩)
  · rw [typ_exec g e h] at ht; exact absurd ht (by decide)
  · exact List.mem_append_right _ (mgmt_secret_path e (mem_mgmtEntries g e h) ht)
  · exact absurd ht (by simp [crtEntry])

/-! ### the model's paths are C03's manglings -/

theorem pemEntry_path (ns name : Name) : (pemEntry (keyPairId ns name)).path = pemFile ns name := by
  have e : lit "/etc/nginx/secrets/" = lit "/etc/nginx/secrets" ++ ['/'] := by decide
  simp [Entry.path, mkPath, pemEntry, pemFile, Folder.path, e]

theorem crtEntry_path (ns name : Name) : (crtEntry (bundleId ns name)).path = bundleFile ns name := by
  have e : lit "/etc/nginx/secrets/" = lit "/etc/nginx/secrets" ++ ['/'] := by decide
  simp [Entry.path, mkPath, crtEntry, bundleFile, Folder.path, e]

theorem cspEntry_path (ns name : Name) : (policyEntry (cspName ns name)).path = cspFile ns name := by
  have e : lit "/etc/nginx/includes/" = lit "/etc/nginx/includes" ++ ['/'] := by decide
  simp [Entry.path, mkPath, policyEntry, cspName, cspFile, Folder.path, e]

end NGF.GenPaths
