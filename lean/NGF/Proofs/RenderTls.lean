/-
Helper lemmas for the SSL-server rendering (Model/RenderTls): projection onto `PipelineTls.genT`, which server blocks
`renderT` produces and which certificate files they name. Core Lean only (on top of C16's Proofs/PipelineTls).
-/
import NGF.Model.RenderTls
import NGF.Proofs.RenderWF
import NGF.Proofs.PipelineTls

namespace NGF.RenderTls
open NGF.Pipeline NGF.PipelineTls NGF.Render NGF.Nginx

/-! ### projection -/

theorem forget_listenerOnly (port : Nat) (name : Str) (kp : Option (List Char)) :
    SslR.forget { sid := 0, port := port, name := name, kp := kp, rules := [], root404 := true } =
      (serverOf [] port name, kp) := by
  simp [SslR.forget, RServer.forget, serverOf, Precedence.genLocs, Precedence.extLocsFrom]

theorem forget_sid (sv : SslR) (n : Nat) : SslR.forget { sv with sid := n } = SslR.forget sv := rfl

theorem forget_genTR (s : ScenarioT) (order orderS : List Nat) : (genTR s order orderS).forget = genT s := by
  unfold genTR genT
  cases hw : winnerT s with
  | none => simp [ConfTR.forget, forget_genR]
  | some gT =>
    have hS := forget_genR (httpsPart s) orderS
    have hservers : (genR (httpsPart s) orderS).servers.map RServer.forget = (gen (httpsPart s)).servers := by
      rw [← hS]; rfl
    have hports : (genR (httpsPart s) orderS).dports.map (·.1) = (gen (httpsPart s)).ports := by
      rw [← hS]; rfl
    simp only [ConfTR.forget, forget_genR, List.map_append, List.map_map, Function.comp_def, hports, ConfT.mk.injEq, true_and,
      and_true]
    refine ⟨?_, by simp⟩
    congr 1
    · rw [← hservers, List.map_map]
      apply List.map_congr_left
      intro sv _
      simp [SslR.forget, RServer.forget]
    · simp only [listenerOnlyR, listenerOnly, List.map_map, Function.comp_def]
      apply List.map_congr_left
      intro l _
      exact forget_listenerOnly _ _ _

/-! ### the server blocks of `renderT` -/

def sslItems (c : ConfTR) : List (Nat × Dir) :=
  (c.sslDefaults.map fun d => (d.2, renderSslDefault d.1)) ++ (c.ssl.map fun sv => (sv.sid, renderSsl sv))

theorem sslDirs_perm (c : ConfTR) : (sslDirs c).Perm ((sslItems c).map (·.2)) := by
  unfold sslDirs
  exact (List.mergeSort_perm _ _).map _

theorem mem_sslDirs {c : ConfTR} {d : Dir} :
    d ∈ sslDirs c ↔ (∃ p ∈ c.sslDefaults, d = renderSslDefault p.1) ∨ (∃ sv ∈ c.ssl, d = renderSsl sv) := by
  rw [(sslDirs_perm c).mem_iff]
  simp only [sslItems, List.map_append, List.map_map, List.mem_append, List.mem_map, Function.comp_def]
  constructor
  · rintro (⟨p, hp, rfl⟩ | ⟨sv, hs, rfl⟩)
    · exact Or.inl ⟨p, hp, rfl⟩
    · exact Or.inr ⟨sv, hs, rfl⟩
  · rintro (⟨p, hp, rfl⟩ | ⟨sv, hs, rfl⟩)
    · exact Or.inl ⟨p, hp, rfl⟩
    · exact Or.inr ⟨sv, hs, rfl⟩

theorem sslDirs_server {c : ConfTR} {d : Dir} (h : d ∈ sslDirs c) : d.name = "server".toList ∧ d.block.isSome = true := by
  rcases mem_sslDirs.mp h with ⟨_, _, rfl⟩ | ⟨_, _, rfl⟩ <;> exact ⟨rfl, rfl⟩

theorem servers_of_renderT (c : ConfTR) :
    blocksNamed "server" (renderT c) = serverDirs c.http ++ sslDirs c ++ tailServers := by
  have e : renderT c = [preload] ++ (serverDirs c.http ++ sslDirs c ++ tailServers) ++ (c.groups.filter needsSplit).map splitBlock := by
    simp [renderT, List.append_assoc]
  rw [e, blocksNamed_append, blocksNamed_append,
    blocksNamed_eq_nil (l := [preload]) (fun d hd => by rw [List.mem_singleton.mp hd]; decide),
    blocksNamed_eq_nil (l := (c.groups.filter needsSplit).map splitBlock) (fun d hd => by
      obtain ⟨g, _, rfl⟩ := List.mem_map.mp hd
      rw [show (splitBlock g).name = "split_clients".toList from rfl]; decide),
    blocksNamed_eq_self (fun d hd => by
      rcases List.mem_append.mp hd with h | h
      · rcases List.mem_append.mp h with h | h
        · exact serverDirs_server h
        · exact sslDirs_server h
      · exact tailServers_server h)]
  simp

/-! ### certificate references -/

def refsOf (s : Dir) : List (List Char) :=
  ((named "ssl_certificate" (body s)) ++ (named "ssl_certificate_key" (body s))).map arg0

theorem refsOf_default (p : Nat) : refsOf (renderDefault p) = [] := rfl
theorem refsOf_sslDefault (p : Nat) : refsOf (renderSslDefault p) = [] := rfl
theorem refsOf_tail {d : Dir} (h : d ∈ tailServers) : refsOf d = [] := by
  simp only [tailServers, List.mem_cons, List.mem_nil_iff, or_false] at h
  rcases h with rfl | rfl <;> rfl

theorem refsOf_server (sv : RServer) : refsOf (renderServer sv) = [] := by
  unfold refsOf
  rw [renderServer_body, named_append, named_append, named_append, named_append,
    named_eq_nil (n := "ssl_certificate") (l := listenDirs sv.port []) (fun d hd => by rw [listenDirs_names _ _ d hd]; decide),
    named_eq_nil (n := "ssl_certificate_key") (l := listenDirs sv.port []) (fun d hd => by rw [listenDirs_names _ _ d hd]; decide),
    named_eq_nil (n := "ssl_certificate") (l := serverLocs sv) (fun d hd => by rw [(mem_serverLocs_loc hd).1]; decide),
    named_eq_nil (n := "ssl_certificate_key") (l := serverLocs sv) (fun d hd => by rw [(mem_serverLocs_loc hd).1]; decide),
    named_eq_nil (n := "ssl_certificate") (l := [dir "server_name" [wl sv.name]]) (fun d hd => by rw [List.mem_singleton.mp hd, dir_name]; decide),
    named_eq_nil (n := "ssl_certificate_key") (l := [dir "server_name" [wl sv.name]]) (fun d hd => by rw [List.mem_singleton.mp hd, dir_name]; decide)]
  rfl

theorem renderRuleK_loc {key : Nat → List Char} {r : RRule} {d : Dir} (h : d ∈ renderRuleK key r) :
    d.name = "location".toList := by
  unfold renderRuleK at h
  cases hact : r.act with
  | direct a =>
    simp only [hact, List.mem_map] at h
    obtain ⟨k, _, rfl⟩ := h; rfl
  | njs ms =>
    simp only [hact, List.mem_append, List.mem_map] at h
    rcases h with ⟨k, _, rfl⟩ | ⟨jm, _, rfl⟩ <;> rfl

/-- the locations of an SSL server -/
def sslLocs (sv : SslR) : List Dir :=
  (sortRules sv.rules).flatMap (renderRuleK (sslKey sv.sid)) ++ (if sv.root404 then [rootLoc] else [])

theorem mem_sslLocs_name {sv : SslR} {d : Dir} (h : d ∈ sslLocs sv) : d.name = "location".toList := by
  unfold sslLocs at h
  rcases List.mem_append.mp h with h | h
  · obtain ⟨r, _, hd⟩ := List.mem_flatMap.mp h
    exact renderRuleK_loc hd
  · by_cases hr : sv.root404 = true
    · simp only [hr, ↓reduceIte, List.mem_singleton] at h
      subst h; rfl
    · simp [hr] at h

theorem refsOf_ssl (sv : SslR) :
    refsOf (renderSsl sv) = match sv.kp with | some id => [pemFile id, pemFile id] | none => [] := by
  have hloc1 : named "ssl_certificate" (sslLocs sv) = [] :=
    named_eq_nil (fun d hd => by rw [mem_sslLocs_name hd]; decide)
  have hloc2 : named "ssl_certificate_key" (sslLocs sv) = [] :=
    named_eq_nil (fun d hd => by rw [mem_sslLocs_name hd]; decide)
  have hn1 : named "ssl_certificate" [dir "server_name" [wl sv.name]] = [] :=
    named_eq_nil (fun d hd => by rw [List.mem_singleton.mp hd, dir_name]; decide)
  have hn2 : named "ssl_certificate_key" [dir "server_name" [wl sv.name]] = [] :=
    named_eq_nil (fun d hd => by rw [List.mem_singleton.mp hd, dir_name]; decide)
  unfold refsOf
  have hbody : body (renderSsl sv) =
      (match sv.kp with
        | some id => sslListens sv.port [] ++ [dir "ssl_certificate" [wl (pemFile id)], dir "ssl_certificate_key" [wl (pemFile id)], sniGuard]
        | none => listenDirs sv.port []) ++ [dir "server_name" [wl sv.name]] ++ sslLocs sv := by
    cases hk : sv.kp <;> simp [renderSsl, sslLocs, hk, List.append_assoc]
  rw [hbody, named_append, named_append, named_append, named_append, hloc1, hloc2, hn1, hn2]
  cases sv.kp with
  | none =>
    simp only [List.append_nil]
    rw [named_eq_nil (n := "ssl_certificate") (fun d hd => by rw [listenDirs_names _ _ d hd]; decide),
      named_eq_nil (n := "ssl_certificate_key") (fun d hd => by rw [listenDirs_names _ _ d hd]; decide)]
    rfl
  | some id => rfl

theorem certRefs_renderT (c : ConfTR) {r : List Char} (h : r ∈ certRefs (renderT c)) :
    ∃ sv ∈ c.ssl, ∃ id, sv.kp = some id ∧ r = pemFile id := by
  unfold certRefs at h
  rw [servers_of_renderT] at h
  obtain ⟨d, hd, hr⟩ := List.mem_flatMap.mp h
  change r ∈ refsOf d at hr
  rcases List.mem_append.mp hd with hd | hd
  · rcases List.mem_append.mp hd with hd | hd
    · rcases mem_serverDirs.mp hd with ⟨p, _, rfl⟩ | ⟨sv, _, rfl⟩
      · rw [refsOf_default] at hr; simp at hr
      · rw [refsOf_server] at hr; simp at hr
    · rcases mem_sslDirs.mp hd with ⟨p, _, rfl⟩ | ⟨sv, hsv, rfl⟩
      · rw [refsOf_sslDefault] at hr; simp at hr
      · rw [refsOf_ssl] at hr
        cases hk : sv.kp with
        | none => rw [hk] at hr; simp at hr
        | some id =>
          rw [hk] at hr
          simp only [List.mem_cons, List.mem_nil_iff, or_false, or_self] at hr
          exact ⟨sv, hsv, id, hk, hr⟩
  · rw [refsOf_tail hd] at hr; simp at hr

end NGF.RenderTls
