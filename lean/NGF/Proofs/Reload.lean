/-
C12 — helper lemmas about `NGF.Reload.pollLoop` and `NGF.HandlerVer.dedup` (core only).
-/
import NGF.Model.Reload
import NGF.Model.HandlerVer

namespace NGF.Reload

/-- Exact characterisation of a successful poll: some position `i` within the budget holds a
`done` observation and everything before it was `retry`. -/
theorem pollLoop_ok_iff {α : Type} (f : α → Tick) :
    ∀ (l : List α) (b b' : Nat) (l' : List α),
      pollLoop f b l = (.ok, b', l') ↔
        ∃ i, i ≤ b ∧ (∃ x, l[i]? = some x ∧ f x = .done) ∧
          (∀ k, k < i → ∃ y, l[k]? = some y ∧ f y = .retry) ∧ b' = b - i ∧ l' = l.drop (i + 1)
  | [], b, b', l' => by
    simp [pollLoop]
  | x :: xs, b, b', l' => by
    cases hx : f x with
    | done =>
      simp only [pollLoop, hx]
      constructor
      · intro h
        simp only [Prod.mk.injEq, true_and] at h
        refine ⟨0, Nat.zero_le _, ⟨x, by simp, hx⟩, by simp, by simp [h.1], by simp [h.2]⟩
      · rintro ⟨i, _, ⟨y, hy, hfy⟩, hbefore, hb, hl⟩
        cases i with
        | zero => simp [hb, hl]
        | succ i =>
          obtain ⟨z, hz, hfz⟩ := hbefore 0 (Nat.succ_pos _)
          simp at hz; subst hz; rw [hx] at hfz; cases hfz
    | abort =>
      simp only [pollLoop, hx]
      constructor
      · intro h; simp at h
      · rintro ⟨i, _, ⟨y, hy, hfy⟩, hbefore, _, _⟩
        cases i with
        | zero => simp at hy; subst hy; rw [hx] at hfy; cases hfy
        | succ i =>
          obtain ⟨z, hz, hfz⟩ := hbefore 0 (Nat.succ_pos _)
          simp at hz; subst hz; rw [hx] at hfz; cases hfz
    | retry =>
      cases b with
      | zero =>
        simp only [pollLoop, hx]
        constructor
        · intro h; simp at h
        · rintro ⟨i, hi, ⟨y, hy, hfy⟩, _, _, _⟩
          have : i = 0 := Nat.le_zero.mp hi
          subst this; simp at hy; subst hy; rw [hx] at hfy; cases hfy
      | succ b =>
        simp only [pollLoop, hx, Nat.add_one_ne_zero, if_false, Nat.add_sub_cancel]
        rw [pollLoop_ok_iff f xs b b' l']
        constructor
        · rintro ⟨i, hi, ⟨y, hy, hfy⟩, hbefore, hb, hl⟩
          refine ⟨i + 1, Nat.succ_le_succ hi, ⟨y, by simpa using hy, hfy⟩, ?_, by omega, by simpa using hl⟩
          intro k hk
          cases k with
          | zero => exact ⟨x, by simp, hx⟩
          | succ k =>
            obtain ⟨z, hz, hfz⟩ := hbefore k (by omega)
            exact ⟨z, by simpa using hz, hfz⟩
        · rintro ⟨i, hi, ⟨y, hy, hfy⟩, hbefore, hb, hl⟩
          cases i with
          | zero => simp at hy; subst hy; rw [hx] at hfy; cases hfy
          | succ i =>
            refine ⟨i, by omega, ⟨y, by simpa using hy, hfy⟩, ?_, by omega, by simpa using hl⟩
            intro k hk
            obtain ⟨z, hz, hfz⟩ := hbefore (k + 1) (by omega)
            exact ⟨z, by simpa using hz, hfz⟩

/-- the remaining script is a suffix: the poll consumed `l.length - rest.length` observations -/
theorem pollLoop_rest_le {α : Type} (f : α → Tick) :
    ∀ (l : List α) (b : Nat), (pollLoop f b l).2.2.length ≤ l.length
  | [], b => by simp [pollLoop]
  | x :: xs, b => by
    cases hx : f x <;> simp only [pollLoop, hx, List.length_cons]
    · split
      · simp
      · exact Nat.le_succ_of_le (pollLoop_rest_le f xs (b - 1))
    · simp
    · simp

theorem childTick_done {prev : Nat} {x : ChildRead} :
    childTick prev x = .done ↔ ∃ c, x = .content c ∧ c ≠ prev := by
  cases x with
  | err => simp [childTick]
  | content c => by_cases h : c = prev <;> simp [childTick, h]

theorem childTick_retry {prev : Nat} {x : ChildRead} :
    childTick prev x = .retry ↔ x = .content prev := by
  cases x with
  | err => simp [childTick]
  | content c => by_cases h : c = prev <;> simp [childTick, h]

theorem verTick_done {n : Int} {x : VerObs} : verTick n x = .done ↔ x = .ver n := by
  cases x with
  | err => simp [verTick]
  | ver v => by_cases h : v = n <;> simp [verTick, h]

theorem verTick_retry {n : Int} {x : VerObs} :
    verTick n x = .retry ↔ ∃ v, x = .ver v ∧ v ≠ n := by
  cases x with
  | err => simp [verTick]
  | ver v => by_cases h : v = n <;> simp [verTick, h]

theorem pidTick_done {x : PidObs} : pidTick x = .done ↔ x = .present := by
  cases x <;> simp [pidTick]

theorem pidTick_retry {x : PidObs} : pidTick x = .retry ↔ x = .missing := by
  cases x <;> simp [pidTick]

/-- what the observations must have been for `WaitForCorrectVersion` to return nil -/
def WaitWitness (prev : Nat) (children : List ChildRead) (versions : List VerObs) (budget : Nat)
    (n : Int) (i j : Nat) : Prop :=
  i + j ≤ budget ∧
  (∃ c, children[i]? = some (.content c) ∧ c ≠ prev) ∧
  (∀ k, k < i → children[k]? = some (.content prev)) ∧
  versions[j]? = some (.ver n) ∧
  (∀ k, k < j → ∃ v, versions[k]? = some (.ver v) ∧ v ≠ n)

theorem wait_ok_iff (prev : Nat) (children : List ChildRead) (versions : List VerObs)
    (budget : Nat) (n : Int) :
    (waitForCorrectVersion prev children versions budget n).res = none ↔
      ∃ i j, WaitWitness prev children versions budget n i j := by
  unfold waitForCorrectVersion WaitWitness
  rcases hp : pollLoop (childTick prev) budget children with ⟨r, b, rest⟩
  cases r with
  | aborted =>
    simp only [reduceCtorEq, false_iff]
    rintro ⟨i, j, hij, ⟨c, hc, hne⟩, hbefore, _, _⟩
    have := (pollLoop_ok_iff (childTick prev) children budget (budget - i) (children.drop (i + 1))).2
      ⟨i, by omega, ⟨_, hc, childTick_done.2 ⟨c, rfl, hne⟩⟩,
        fun k hk => ⟨_, hbefore k hk, childTick_retry.2 rfl⟩, rfl, rfl⟩
    rw [hp] at this; simp at this
  | deadline =>
    simp only [reduceCtorEq, false_iff]
    rintro ⟨i, j, hij, ⟨c, hc, hne⟩, hbefore, _, _⟩
    have := (pollLoop_ok_iff (childTick prev) children budget (budget - i) (children.drop (i + 1))).2
      ⟨i, by omega, ⟨_, hc, childTick_done.2 ⟨c, rfl, hne⟩⟩,
        fun k hk => ⟨_, hbefore k hk, childTick_retry.2 rfl⟩, rfl, rfl⟩
    rw [hp] at this; simp at this
  | ok =>
    obtain ⟨i, hib, ⟨x, hx, hfx⟩, hbefore, hb, hrest⟩ :=
      (pollLoop_ok_iff (childTick prev) children budget b rest).1 hp
    obtain ⟨c, rfl, hne⟩ := childTick_done.1 hfx
    have hbefore' : ∀ k, k < i → children[k]? = some (.content prev) := by
      intro k hk
      obtain ⟨y, hy, hfy⟩ := hbefore k hk
      rw [childTick_retry.1 hfy] at hy; exact hy
    -- the position of the first changed read is determined
    have huniq : ∀ i', (∃ c, children[i']? = some (.content c) ∧ c ≠ prev) →
        (∀ k, k < i' → children[k]? = some (.content prev)) → i' = i := by
      intro i' ⟨c', hc', hne'⟩ hb'
      rcases Nat.lt_trichotomy i' i with h | h | h
      · have := hbefore' i' h; rw [hc'] at this; simp at this; exact absurd this hne'
      · exact h
      · have := hb' i h; rw [hx] at this; simp at this; exact absurd this hne
    simp only
    rcases hq : pollLoop (verTick n) b versions with ⟨r2, b2, rest2⟩
    cases r2 with
    | ok =>
      simp only [true_iff]
      obtain ⟨j, hjb, ⟨y, hy, hfy⟩, hbefore2, _, _⟩ :=
        (pollLoop_ok_iff (verTick n) versions b b2 rest2).1 hq
      rw [verTick_done.1 hfy] at hy
      refine ⟨i, j, by omega, ⟨c, hx, hne⟩, hbefore', hy, ?_⟩
      intro k hk
      obtain ⟨z, hz, hfz⟩ := hbefore2 k hk
      obtain ⟨v, rfl, hv⟩ := verTick_retry.1 hfz
      exact ⟨v, hz, hv⟩
    | aborted =>
      simp only [reduceCtorEq, false_iff]
      rintro ⟨i', j, hij, hc', hb', hj, hbj⟩
      have hi' := huniq i' hc' hb'
      subst hi'
      have := (pollLoop_ok_iff (verTick n) versions b (b - j) (versions.drop (j + 1))).2
        ⟨j, by omega, ⟨_, hj, verTick_done.2 rfl⟩,
          fun k hk => by
            obtain ⟨v, hv, hvn⟩ := hbj k hk
            exact ⟨_, hv, verTick_retry.2 ⟨v, rfl, hvn⟩⟩, rfl, rfl⟩
      rw [hq] at this; simp at this
    | deadline =>
      simp only [reduceCtorEq, false_iff]
      rintro ⟨i', j, hij, hc', hb', hj, hbj⟩
      have hi' := huniq i' hc' hb'
      subst hi'
      have := (pollLoop_ok_iff (verTick n) versions b (b - j) (versions.drop (j + 1))).2
        ⟨j, by omega, ⟨_, hj, verTick_done.2 rfl⟩,
          fun k hk => by
            obtain ⟨v, hv, hvn⟩ := hbj k hk
            exact ⟨_, hv, verTick_retry.2 ⟨v, rfl, hvn⟩⟩, rfl, rfl⟩
      rw [hq] at this; simp at this

end NGF.Reload

namespace NGF.C12
open NGF.Reload

/-- What must have been observed for `Reload(n)` to return nil. -/
def Running (o : Oracle) (n : Int) : Prop :=
  (∃ p, findMainProcess o = .ok p) ∧
  ∃ prev, o.prevRead = .content prev ∧ o.kill = true ∧
    ∃ i j, WaitWitness prev o.children o.versions o.budget n i j

theorem reload_res_none_iff (o : Oracle) (n : Int) : (reload o n).res = none ↔ Running o n := by
  unfold reload Running
  cases hf : findMainProcess o with
  | error e => simp
  | ok p =>
    cases hp : o.prevRead with
    | err => simp
    | content prev =>
      cases hk : o.kill with
      | false => simp
      | true =>
        simp only [Bool.not_true, Bool.false_eq_true, if_false]
        rw [wait_ok_iff]
        constructor
        · rintro ⟨i, j, h⟩; exact ⟨⟨p, rfl⟩, prev, rfl, by simp, i, j, h⟩
        · rintro ⟨_, prev', hpe, _, i, j, h⟩
          cases hpe; exact ⟨i, j, h⟩

/-- sub-list test on characters, for pinning template fragments -/
def containsSub (s t : List Char) : Bool :=
  match s with
  | [] => t.isEmpty
  | c :: cs => t.isPrefixOf (c :: cs) || containsSub cs t

end NGF.C12
