/-
C02 refinement proof, part 2 (location stage): NGINX's location selection over the external location scheme
(`Precedence.genLocs`, mirroring `createLocations`/`initializeExternalLocations`) of the path rules of ONE server picks the
path rule the specification ranks first by path: an Exact rule for the request path, else the longest PathPrefix rule
that hits it (`select_fragment`); and a generated location determines its path rule (`genLocs_rule_unique`).
Path rules are given as their keys `(exact, path)` as `serverOf` computes them (distinct; every path starts with `/`;
no prefix value other than `/` ends in `/` — the fragment).
-/
import NGF.Proofs.Locations
import NGF.Model.Pipeline

namespace NGF.Pipeline
open NGF.Precedence NGF.NginxEval NGF.Locations

abbrev Key := Bool × Str

def rulesOf (keys : List Key) : List PathRule := keys.map fun k => ⟨k.2, !k.1⟩

/-- does the path rule with this key hit the request path? (`pathHit` of its matches) -/
def khit (k : Key) (q : Str) : Bool := if k.1 then k.2 == q else prefixHit k.2 q

structure KeysOK (keys : List Key) : Prop where
  nodup : keys.Pairwise (· ≠ ·)
  slash : ∀ k ∈ keys, k.2.head? = some '/'
  noTrail : ∀ k ∈ keys, k.1 = false → k.2 = ['/'] ∨ endsSlash k.2 = false

/-! ### `rulesOf` -/

theorem rulesOf_get (keys : List Key) (i : Nat) :
    (rulesOf keys)[i]? = (keys[i]?).map fun k => (⟨k.2, !k.1⟩ : PathRule) := by
  simp [rulesOf]

theorem rulesOf_length (keys : List Key) : (rulesOf keys).length = keys.length := by simp [rulesOf]

theorem hasExact_iff (keys : List Key) (p : Str) : hasExact (rulesOf keys) p = true ↔ (true, p) ∈ keys := by
  simp only [hasExact, rulesOf, List.any_map, List.any_eq_true, Function.comp, Bool.not_not, Bool.and_eq_true,
    beq_iff_eq]
  constructor
  · rintro ⟨k, hk, h1, h2⟩
    have : k = (true, p) := by cases k; simp_all
    rw [← this]; exact hk
  · intro h; exact ⟨(true, p), h, rfl, rfl⟩

theorem hasPrefix_iff (keys : List Key) (p : Str) : hasPrefix (rulesOf keys) p = true ↔ (false, p) ∈ keys := by
  simp only [hasPrefix, rulesOf, List.any_map, List.any_eq_true, Function.comp, Bool.and_eq_true,
    Bool.not_eq_true', beq_iff_eq]
  constructor
  · rintro ⟨k, hk, h1, h2⟩
    have : k = (false, p) := by cases k; simp_all
    rw [← this]; exact hk
  · intro h; exact ⟨(false, p), h, rfl, rfl⟩

theorem anyRoot_iff (keys : List Key) :
    (rulesOf keys).any (fun r => r.path == ['/']) = true ↔ ∃ k ∈ keys, k.2 = ['/'] := by
  simp [rulesOf, List.any_map, Function.comp]

theorem endsSlash_snoc (p : Str) : endsSlash (p ++ ['/']) = true := by simp [endsSlash]

theorem ne_nil_of_slash {p : Str} (h : p.head? = some '/') : p ≠ [] := by
  intro e; simp [e] at h

/-! ### the external locations of one path rule, in the fragment -/

theorem extLocs_exact (rules : List PathRule) (i : Nat) (p : Str) :
    extLocs rules i ⟨p, false⟩ = [⟨true, p, i⟩] := by simp [extLocs]

theorem extLocs_root (rules : List PathRule) (i : Nat) :
    extLocs rules i ⟨['/'], true⟩ = [⟨false, ['/'], i⟩] := by simp [extLocs, endsSlash]

theorem extLocs_prefix {keys : List Key} (ok : KeysOK keys) (i : Nat) {p : Str} (hk : (false, p) ∈ keys)
    (hp : p ≠ ['/']) :
    extLocs (rulesOf keys) i ⟨p, true⟩ =
      ⟨false, p ++ ['/'], i⟩ :: (if hasExact (rulesOf keys) p then [] else [⟨true, p, i⟩]) := by
  have hes : endsSlash p = false := by
    rcases ok.noTrail _ hk rfl with h | h
    · exact absurd h hp
    · exact h
  have hsl : hasPrefix (rulesOf keys) (p ++ ['/']) = false := by
    rw [Bool.eq_false_iff]
    intro h
    have hm := (hasPrefix_iff keys _).mp h
    rcases ok.noTrail _ hm rfl with h1 | h1
    · have hne := ne_nil_of_slash (ok.slash _ hk)
      have : (p ++ ['/']).length = 1 := by rw [show (p ++ ['/'] : Str) = ['/'] from h1]; rfl
      cases p <;> simp_all
    · rw [endsSlash_snoc] at h1; cases h1
  cases he : hasExact (rulesOf keys) p <;> simp [extLocs, hes, hsl, he]

/-- every generated location of the fragment, with the path rule it serves -/
theorem genLoc_cases {keys : List Key} (ok : KeysOK keys) {gl : GenLoc} (h : gl ∈ genLocs (rulesOf keys)) :
    (∃ p, keys[gl.rule]? = some (true, p) ∧ gl.exact = true ∧ gl.path = p) ∨
    (∃ p, keys[gl.rule]? = some (false, p) ∧ p ≠ ['/'] ∧ gl.exact = false ∧ gl.path = p ++ ['/']) ∨
    (∃ p, keys[gl.rule]? = some (false, p) ∧ p ≠ ['/'] ∧ (true, p) ∉ keys ∧ gl.exact = true ∧ gl.path = p) ∨
    (keys[gl.rule]? = some (false, ['/']) ∧ gl.exact = false ∧ gl.path = ['/']) ∨
    (gl.rule = keys.length ∧ (∀ k ∈ keys, k.2 ≠ ['/']) ∧ gl.exact = false ∧ gl.path = ['/']) := by
  rcases mem_genLocs.mp h with ⟨i, r, hr, hx⟩ | ⟨rfl, hroot⟩
  · rw [rulesOf_get] at hr
    cases hki : keys[i]? with
    | none => simp [hki] at hr
    | some k =>
      simp only [hki, Option.map_some, Option.some.injEq] at hr
      subst hr
      obtain ⟨b, p⟩ := k
      have hmem : (b, p) ∈ keys := List.mem_of_getElem? hki
      cases b with
      | true =>
        simp only [Bool.not_true, extLocs_exact, List.mem_singleton] at hx
        subst hx; left; exact ⟨p, hki, rfl, rfl⟩
      | false =>
        simp only [Bool.not_false] at hx
        by_cases hp : p = ['/']
        · subst hp
          rw [extLocs_root, List.mem_singleton] at hx
          subst hx; right; right; right; left; exact ⟨hki, rfl, rfl⟩
        · rw [extLocs_prefix ok i hmem hp, List.mem_cons] at hx
          rcases hx with rfl | hx
          · right; left; exact ⟨p, hki, hp, rfl, rfl⟩
          · cases he : hasExact (rulesOf keys) p with
            | true => simp [he] at hx
            | false =>
              simp only [he, Bool.false_eq_true, ↓reduceIte, List.mem_singleton] at hx
              subst hx
              right; right; left
              refine ⟨p, hki, hp, ?_, rfl, rfl⟩
              intro hm
              rw [(hasExact_iff keys p).mpr hm] at he; cases he
  · right; right; right; right
    refine ⟨rulesOf_length keys, ?_, rfl, rfl⟩
    intro k hk e
    have := (anyRoot_iff keys).mpr ⟨k, hk, e⟩
    rw [this] at hroot; cases hroot

theorem genLoc_of_exact {keys : List Key} {i : Nat} {p : Str} (h : keys[i]? = some (true, p)) :
    (⟨true, p, i⟩ : GenLoc) ∈ genLocs (rulesOf keys) :=
  mem_genLocs.mpr (Or.inl ⟨i, ⟨p, false⟩, by simp [rulesOf_get, h], by simp [extLocs_exact]⟩)

theorem genLoc_of_root {keys : List Key} {i : Nat} (h : keys[i]? = some (false, ['/'])) :
    (⟨false, ['/'], i⟩ : GenLoc) ∈ genLocs (rulesOf keys) :=
  mem_genLocs.mpr (Or.inl ⟨i, ⟨['/'], true⟩, by simp [rulesOf_get, h], by simp [extLocs_root]⟩)

theorem genLoc_of_prefix {keys : List Key} (ok : KeysOK keys) {i : Nat} {p : Str} (h : keys[i]? = some (false, p))
    (hp : p ≠ ['/']) : (⟨false, p ++ ['/'], i⟩ : GenLoc) ∈ genLocs (rulesOf keys) :=
  mem_genLocs.mpr (Or.inl ⟨i, ⟨p, true⟩, by simp [rulesOf_get, h],
    by rw [extLocs_prefix ok i (List.mem_of_getElem? h) hp]; exact List.mem_cons_self⟩)

theorem genLoc_of_prefix_bare {keys : List Key} (ok : KeysOK keys) {i : Nat} {p : Str}
    (h : keys[i]? = some (false, p)) (hp : p ≠ ['/']) (hne : (true, p) ∉ keys) :
    (⟨true, p, i⟩ : GenLoc) ∈ genLocs (rulesOf keys) := by
  refine mem_genLocs.mpr (Or.inl ⟨i, ⟨p, true⟩, by simp [rulesOf_get, h], ?_⟩)
  rw [extLocs_prefix ok i (List.mem_of_getElem? h) hp]
  have : hasExact (rulesOf keys) p = false := by
    rw [Bool.eq_false_iff]; intro e; exact hne ((hasExact_iff keys p).mp e)
  simp [this]

/-- some exact location for the bare path of a prefix rule always exists: its own, or the Exact rule's -/
theorem genLoc_exact_of_prefix_key {keys : List Key} (ok : KeysOK keys) {p : Str} (h : (false, p) ∈ keys)
    (hp : p ≠ ['/']) : ∃ gl ∈ genLocs (rulesOf keys), gl.exact = true ∧ gl.path = p := by
  by_cases he : (true, p) ∈ keys
  · obtain ⟨j, hj⟩ := List.getElem?_of_mem he
    exact ⟨_, genLoc_of_exact hj, rfl, rfl⟩
  · obtain ⟨i, hi⟩ := List.getElem?_of_mem h
    exact ⟨_, genLoc_of_prefix_bare ok hi hp he, rfl, rfl⟩

/-- a generated location (modifier, path) belongs to one path rule only -/
theorem genLocs_rule_unique {keys : List Key} (ok : KeysOK keys) {a b : GenLoc}
    (ha : a ∈ genLocs (rulesOf keys)) (hb : b ∈ genLocs (rulesOf keys))
    (he : a.exact = b.exact) (hp : a.path = b.path) : a.rule = b.rule := by
  have idx : ∀ {i j : Nat} {k : Key}, keys[i]? = some k → keys[j]? = some k → i = j :=
    fun hi hj => getElem?_inj ok.nodup hi hj
  have nonroot : ∀ {p : Str}, (false, p) ∈ keys → p ++ ['/'] ≠ ['/'] := by
    intro p hm e
    have := ne_nil_of_slash (ok.slash _ hm)
    cases p <;> simp_all
  rcases genLoc_cases ok ha with ⟨p, h1, h2, h3⟩ | ⟨p, h1, hp1, h2, h3⟩ | ⟨p, h1, hp1, hn1, h2, h3⟩ | ⟨h1, h2, h3⟩ |
      ⟨h1, hn1, h2, h3⟩ <;>
    rcases genLoc_cases ok hb with ⟨p', g1, g2, g3⟩ | ⟨p', g1, hp2, g2, g3⟩ | ⟨p', g1, hp2, hn2, g2, g3⟩ | ⟨g1, g2, g3⟩ |
      ⟨g1, hn2, g2, g3⟩
  all_goals first
    | (rw [h2, g2] at he; cases he)
    | skip
  · have : p = p' := by rw [← h3, ← g3, hp]
    subst this; exact idx h1 g1
  · have : p = p' := by rw [← h3, ← g3, hp]
    subst this; exact absurd (List.mem_of_getElem? h1) hn2
  · have : p ++ ['/'] = p' ++ ['/'] := by rw [← h3, ← g3, hp]
    have : p = p' := List.append_cancel_right this
    subst this; exact idx h1 g1
  · exact absurd (by rw [← h3, hp, g3]) (nonroot (List.mem_of_getElem? h1))
  · exact absurd (by rw [← h3, hp, g3]) (nonroot (List.mem_of_getElem? h1))
  · have : p = p' := by rw [← h3, ← g3, hp]
    subst this; exact absurd (List.mem_of_getElem? g1) hn1
  · have : p = p' := by rw [← h3, ← g3, hp]
    subst this; exact idx h1 g1
  · exact absurd (by rw [← g3, ← hp, h3]) (nonroot (List.mem_of_getElem? g1))
  · exact idx h1 g1
  · exact absurd rfl (hn2 _ (List.mem_of_getElem? h1))
  · exact absurd (by rw [← g3, ← hp, h3]) (nonroot (List.mem_of_getElem? g1))
  · exact absurd rfl (hn1 _ (List.mem_of_getElem? g1))
  · rw [h1, g1]
where
  getElem?_inj {α} {l : List α} (hp : l.Pairwise (· ≠ ·)) {i j : Nat} {a : α}
      (hi : l[i]? = some a) (hj : l[j]? = some a) : i = j := by
    induction l generalizing i j with
    | nil => simp at hi
    | cons x xs ih =>
      have hp' := List.pairwise_cons.mp hp
      cases i with
      | zero =>
        cases j with
        | zero => rfl
        | succ j =>
          simp at hi hj; subst hi
          exact absurd rfl (hp'.1 x (List.mem_of_getElem? hj))
      | succ i =>
        cases j with
        | zero =>
          simp at hi hj; subst hj
          exact absurd rfl (hp'.1 x (List.mem_of_getElem? hi))
        | succ j =>
          simp at hi hj
          rw [ih hp'.2 hi hj]

/-! ### which keys hit a request path -/

theorem prefixHit_len {p q : Str} (hq : q ≠ []) (h : prefixHit p q = true) : p.length ≤ q.length := by
  simp only [prefixHit, Bool.or_eq_true, beq_iff_eq, List.isPrefixOf_iff_prefix] at h
  rcases h with (h | h) | h
  · rw [h]; cases q <;> simp_all
  · rw [h]; exact Nat.le_refl _
  · have := h.length_le; simp at this; omega

/-- the generated location that witnesses a hit of a path rule -/
theorem hit_witness {keys : List Key} (ok : KeysOK keys) {k : Key} (hk : k ∈ keys) {q : Str}
    (hit : khit k q = true) :
    (k = (true, q) ∧ ∃ i, keys[i]? = some k ∧ (⟨true, q, i⟩ : GenLoc) ∈ genLocs (rulesOf keys)) ∨
    (k = (false, q) ∧ q ≠ ['/'] ∧ ∃ gl ∈ genLocs (rulesOf keys), gl.exact = true ∧ gl.path = q) ∨
    (k = (false, ['/']) ∧ ∃ i, keys[i]? = some k ∧ (⟨false, ['/'], i⟩ : GenLoc) ∈ genLocs (rulesOf keys)) ∨
    (k.1 = false ∧ k.2 ≠ ['/'] ∧ (k.2 ++ ['/']) <+: q ∧
      ∃ i, keys[i]? = some k ∧ (⟨false, k.2 ++ ['/'], i⟩ : GenLoc) ∈ genLocs (rulesOf keys)) := by
  obtain ⟨b, p⟩ := k
  obtain ⟨i, hi⟩ := List.getElem?_of_mem hk
  cases b with
  | true =>
    simp only [khit, ↓reduceIte, beq_iff_eq] at hit
    subst hit
    left; exact ⟨rfl, i, hi, genLoc_of_exact hi⟩
  | false =>
    simp only [khit, Bool.false_eq_true, ↓reduceIte, prefixHit, Bool.or_eq_true, beq_iff_eq,
      List.isPrefixOf_iff_prefix] at hit
    by_cases hp : p = ['/']
    · subst hp
      right; right; left; exact ⟨rfl, i, hi, genLoc_of_root hi⟩
    · rcases hit with (h | h) | h
      · exact absurd h hp
      · subst h
        right; left; exact ⟨rfl, hp, genLoc_exact_of_prefix_key ok hk hp⟩
      · right; right; right
        exact ⟨rfl, hp, h, i, hi, genLoc_of_prefix ok hi hp⟩

/-! ### NGINX's selection over the generated locations -/

/-- the three ways `selectLoc` ends when no auto-redirect applies: an exact location for the path; else the longest
prefix location; else nothing -/
theorem selectLoc_trichotomy {locs : List Loc} {q : Str}
    (hno : ∀ l ∈ locs, l.exact = false → l.path = q ++ ['/'] → ∃ l' ∈ locs, l'.exact = true ∧ l'.path = q) :
    (∃ l ∈ locs, selectLoc locs q = .loc l ∧ l.exact = true ∧ l.path = q) ∨
    ((∀ l ∈ locs, l.exact = true → l.path ≠ q) ∧
      ((∃ l ∈ locs, selectLoc locs q = .loc l ∧ l.exact = false ∧ l.path <+: q ∧
          ∀ l' ∈ locs, l'.exact = false → l'.path <+: q → l'.path.length ≤ l.path.length) ∨
       (selectLoc locs q = .none ∧ ∀ l ∈ locs, l.exact = false → ¬ l.path <+: q))) := by
  cases h1 : locs.find? (fun l => l.exact && l.path == q) with
  | some a =>
    left
    have hp := List.find?_some h1
    simp only [Bool.and_eq_true, beq_iff_eq] at hp
    exact ⟨a, List.mem_of_find?_eq_some h1, by unfold selectLoc; rw [h1], hp.1, hp.2⟩
  | none =>
    right
    have hnoex : ∀ l ∈ locs, l.exact = true → l.path ≠ q := by
      intro l hl he hpq
      have := List.find?_eq_none.mp h1 l hl
      simp [he, hpq] at this
    refine ⟨hnoex, ?_⟩
    have h3 : locs.find? (fun l => !l.exact && l.passes && l.path == q ++ ['/']) = none := by
      rw [List.find?_eq_none]
      intro l hl hc
      simp only [Bool.and_eq_true, Bool.not_eq_true', beq_iff_eq] at hc
      obtain ⟨l', hl', he', hp'⟩ := hno l hl hc.1.1 hc.2
      exact hnoex l' hl' he' hp'
    cases h2 : locs.find? (fun l => !l.exact && l.path == q) with
    | some a =>
      left
      have hp := List.find?_some h2
      simp only [Bool.and_eq_true, Bool.not_eq_true', beq_iff_eq] at hp
      refine ⟨a, List.mem_of_find?_eq_some h2, by unfold selectLoc; rw [h1, h2], hp.1,
        by rw [hp.2]; exact List.prefix_refl _, ?_⟩
      intro l' _ _ hpre
      rw [hp.2]; exact hpre.length_le
    | none =>
      obtain ⟨hsome, hnone⟩ := select_longest_prefix h1 h2 h3
      cases hb : bestPrefix q locs with
      | some w =>
        left
        obtain ⟨hs, hm, he, hpre, hmax⟩ := hsome w hb
        exact ⟨w, hm, hs, he, hpre, hmax⟩
      | none =>
        right
        exact hnone hb

/-- Location stage: over the generated locations of the path rules `keys` NGINX selects, for a request path `q`,
either a location of a path rule that hits `q` and that no other hitting rule outranks (Exact before PathPrefix, then
the longer value); or — when NO path rule hits `q` — the default root location / nothing (404). `tl` is the view of a
generated location NGINX gets (only modifier and path matter). -/
theorem select_fragment {keys : List Key} (ok : KeysOK keys) {q : Str} (hq : q.head? = some '/')
    (tl : GenLoc → Loc) (hte : ∀ gl, (tl gl).exact = gl.exact) (htp : ∀ gl, (tl gl).path = gl.path) :
    (∃ gl ∈ genLocs (rulesOf keys), selectLoc ((genLocs (rulesOf keys)).map tl) q = .loc (tl gl) ∧
      ((∃ k, keys[gl.rule]? = some k ∧ khit k q = true ∧
          ∀ k' ∈ keys, khit k' q = true → (k'.1 = true → k.1 = true) ∧ (k'.1 = k.1 → k'.2.length ≤ k.2.length)) ∨
       (gl.rule = keys.length ∧ ∀ k ∈ keys, khit k q = false))) ∨
    (selectLoc ((genLocs (rulesOf keys)).map tl) q = .none ∧ ∀ k ∈ keys, khit k q = false) := by
  have hqne : q ≠ [] := ne_nil_of_slash hq
  -- no auto-redirect: a location `q/` comes from the prefix rule `q`, which also has `= q`
  have hno : ∀ l ∈ (genLocs (rulesOf keys)).map tl, l.exact = false → l.path = q ++ ['/'] →
      ∃ l' ∈ (genLocs (rulesOf keys)).map tl, l'.exact = true ∧ l'.path = q := by
    intro l hl he hp
    obtain ⟨gl, hgl, rfl⟩ := List.mem_map.mp hl
    rw [hte] at he; rw [htp] at hp
    have hkey : (false, q) ∈ keys ∧ q ≠ ['/'] := by
      rcases genLoc_cases ok hgl with ⟨p, _, h2, _⟩ | ⟨p, h1, hp1, _, h3⟩ | ⟨p, _, _, _, h2, _⟩ | ⟨_, _, h3⟩ |
          ⟨_, _, _, h3⟩
      · rw [h2] at he; cases he
      · have : p = q := List.append_cancel_right (h3.symm.trans hp)
        subst this; exact ⟨List.mem_of_getElem? h1, hp1⟩
      · rw [h2] at he; cases he
      · exfalso
        rw [h3] at hp
        have hl' := congrArg List.length hp
        simp only [List.length_cons, List.length_nil, List.length_append] at hl'
        exact hqne (List.eq_nil_of_length_eq_zero (by omega))
      · exfalso
        rw [h3] at hp
        have hl' := congrArg List.length hp
        simp only [List.length_cons, List.length_nil, List.length_append] at hl'
        exact hqne (List.eq_nil_of_length_eq_zero (by omega))
    obtain ⟨g', hg', he', hp'⟩ := genLoc_exact_of_prefix_key ok hkey.1 hkey.2
    exact ⟨tl g', List.mem_map.mpr ⟨g', hg', rfl⟩, by rw [hte, he'], by rw [htp, hp']⟩
  -- an exact generated location for `q` forces the first alternative
  rcases selectLoc_trichotomy hno with ⟨l, hl, hsel, he, hp⟩ | ⟨hnoex, hrest⟩
  · -- exact location for q
    obtain ⟨gl, hgl, rfl⟩ := List.mem_map.mp hl
    rw [hte] at he; rw [htp] at hp
    left
    refine ⟨gl, hgl, hsel, Or.inl ?_⟩
    rcases genLoc_cases ok hgl with ⟨p, h1, _, h3⟩ | ⟨p, _, _, h2, _⟩ | ⟨p, h1, hp1, hn1, _, h3⟩ | ⟨_, h2, _⟩ |
        ⟨_, _, h2, _⟩
    · have : p = q := h3.symm.trans hp
      subst this
      refine ⟨(true, p), h1, by simp [khit], ?_⟩
      intro k' _ hit'
      refine ⟨fun _ => rfl, ?_⟩
      intro hb
      have hb' : k'.1 = true := hb
      simp only [khit, hb', ↓reduceIte, beq_iff_eq] at hit'
      rw [hit']; exact Nat.le_refl _
    · rw [h2] at he; cases he
    · have : p = q := h3.symm.trans hp
      subst this
      refine ⟨(false, p), h1, by simp [khit, prefixHit], ?_⟩
      intro k' hk' hit'
      have hk'1 : k'.1 = false := by
        cases hb : k'.1 with
        | false => rfl
        | true =>
          simp only [khit, hb, ↓reduceIte, beq_iff_eq] at hit'
          have : k' = (true, p) := by cases k'; simp_all
          rw [this] at hk'; exact absurd hk' hn1
      refine ⟨fun h => (by rw [hk'1] at h; cases h), fun _ => ?_⟩
      simp only [khit, hk'1, Bool.false_eq_true, ↓reduceIte] at hit'
      exact prefixHit_len hqne hit'
    · rw [h2] at he; cases he
    · rw [h2] at he; cases he
  · -- no exact location for q: no Exact rule for q, and no prefix rule with value q other than `/`
    have noExactKey : ∀ k' ∈ keys, khit k' q = true → k'.1 = false ∧ (k'.2 = q → q = ['/']) := by
      intro k' hk' hit'
      have hnoexg : ∀ g' ∈ genLocs (rulesOf keys), g'.exact = true → g'.path ≠ q := by
        intro g' hg' he' hp'
        exact hnoex (tl g') (List.mem_map.mpr ⟨g', hg', rfl⟩) (by rw [hte, he']) (by rw [htp, hp'])
      rcases hit_witness ok hk' hit' with ⟨rfl, i, _, hg⟩ | ⟨rfl, _, g', hg', he', hp'⟩ | ⟨rfl, _⟩ | ⟨hb, hne, hpre, _⟩
      · exact absurd rfl (hnoexg _ hg rfl)
      · exact absurd hp' (hnoexg g' hg' he')
      · exact ⟨rfl, fun e => e.symm⟩
      · refine ⟨hb, ?_⟩
        intro e
        rw [e] at hpre
        have := hpre.length_le
        simp only [List.length_append, List.length_cons, List.length_nil] at this
        omega
    rcases hrest with ⟨l, hl, hsel, he, hpre, hmax⟩ | ⟨hsel, hnopre⟩
    · obtain ⟨gl, hgl, rfl⟩ := List.mem_map.mp hl
      rw [hte] at he; rw [htp] at hpre
      have hmax' : ∀ g' ∈ genLocs (rulesOf keys), g'.exact = false → g'.path <+: q →
          g'.path.length ≤ gl.path.length := by
        intro g' hg' he' hp'
        have := hmax (tl g') (List.mem_map.mpr ⟨g', hg', rfl⟩) (by rw [hte, he']) (by rw [htp]; exact hp')
        rwa [htp, htp] at this
      -- length of a hitting prefix key against the selected location
      have hlen : ∀ k' ∈ keys, khit k' q = true → k'.2 = ['/'] ∨ k'.2.length + 1 ≤ gl.path.length := by
        intro k' hk' hit'
        have hn := noExactKey k' hk' hit'
        rcases hit_witness ok hk' hit' with ⟨rfl, _⟩ | ⟨rfl, hq1, _⟩ | ⟨rfl, _⟩ | ⟨_, _, hp', i, _, hg⟩
        · cases hn.1
        · exact absurd (hn.2 rfl) hq1
        · left; rfl
        · right
          have := hmax' _ hg rfl hp'
          simpa using this
      left
      refine ⟨gl, hgl, hsel, ?_⟩
      rcases genLoc_cases ok hgl with ⟨p, _, h2, _⟩ | ⟨p, h1, hp1, _, h3⟩ | ⟨p, _, _, _, h2, _⟩ | ⟨h1, _, h3⟩ |
          ⟨h1, hn1, _, h3⟩
      · rw [h2] at he; cases he
      · left
        rw [h3] at hpre
        refine ⟨(false, p), h1, ?_, ?_⟩
        · simp [khit, prefixHit, List.isPrefixOf_iff_prefix.mpr hpre]
        · intro k' hk' hit'
          have hn := noExactKey k' hk' hit'
          refine ⟨fun h => (by rw [hn.1] at h; cases h), fun _ => ?_⟩
          have hpne := ne_nil_of_slash (ok.slash _ (List.mem_of_getElem? h1))
          have hp1' : 1 ≤ p.length := by
            cases p with
            | nil => exact absurd rfl hpne
            | cons _ _ => simp
          rcases hlen k' hk' hit' with e | e
          · rw [e]; exact hp1'
          · rw [h3] at e
            simp only [List.length_append, List.length_cons, List.length_nil] at e
            show k'.2.length ≤ p.length
            omega
      · rw [h2] at he; cases he
      · left
        refine ⟨(false, ['/']), h1, by simp [khit, prefixHit], ?_⟩
        intro k' hk' hit'
        have hn := noExactKey k' hk' hit'
        refine ⟨fun h => (by rw [hn.1] at h; cases h), fun _ => ?_⟩
        rcases hlen k' hk' hit' with e | e
        · rw [e]; exact Nat.le_refl _
        · rw [h3] at e
          simp only [List.length_cons, List.length_nil] at e
          show k'.2.length ≤ 1
          omega
      · right
        refine ⟨h1, ?_⟩
        intro k' hk'
        rw [Bool.eq_false_iff]
        intro hit'
        rcases hlen k' hk' hit' with e | e
        · exact hn1 k' hk' e
        · rw [h3] at e
          simp only [List.length_cons, List.length_nil] at e
          exact ne_nil_of_slash (ok.slash _ hk') (List.eq_nil_of_length_eq_zero (by omega))
    · right
      refine ⟨hsel, ?_⟩
      intro k' hk'
      rw [Bool.eq_false_iff]
      intro hit'
      have hn := noExactKey k' hk' hit'
      have hnopre' : ∀ g' ∈ genLocs (rulesOf keys), g'.exact = false → ¬ g'.path <+: q := by
        intro g' hg' he' hp'
        exact hnopre (tl g') (List.mem_map.mpr ⟨g', hg', rfl⟩) (by rw [hte, he']) (by rw [htp]; exact hp')
      rcases hit_witness ok hk' hit' with ⟨rfl, _⟩ | ⟨rfl, hq1, _⟩ | ⟨rfl, i, _, hg⟩ | ⟨_, _, hp', i, _, hg⟩
      · cases hn.1
      · exact absurd (hn.2 rfl) hq1
      · refine hnopre' _ hg rfl ?_
        cases q with
        | nil => exact absurd rfl hqne
        | cons c cs =>
          simp only [List.head?_cons, Option.some.injEq] at hq
          subst hq
          exact ⟨cs, rfl⟩
      · exact hnopre' _ hg rfl hp'

end NGF.Pipeline
