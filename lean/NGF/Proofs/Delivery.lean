/-
Helper lemmas for `NGF.Model.Delivery` (C10): the reconcilers ∥ loop invariant and the preparer's lists.
Core Lean only.
-/
import NGF.Model.Delivery
import NGF.Props.C10

namespace NGF.Delivery
open NGF.Loop

/-! ### `updAt` -/

theorem updAt_length (l : List Rec) (i : Nat) (f : Rec → Rec) : (updAt l i f).length = l.length := by
  induction l generalizing i with
  | nil => rfl
  | cons r t ih => cases i <;> simp [updAt, ih]

theorem getElem?_updAt_eq (l : List Rec) (i : Nat) (f : Rec → Rec) :
    (updAt l i f)[i]? = (l[i]?).map f := by
  induction l generalizing i with
  | nil => rfl
  | cons r t ih => cases i <;> simp [updAt, ih]

theorem getElem?_updAt_ne (l : List Rec) {i j : Nat} (f : Rec → Rec) (h : j ≠ i) :
    (updAt l i f)[j]? = l[j]? := by
  induction l generalizing i j with
  | nil => rfl
  | cons r t ih =>
    cases i with
    | zero =>
      cases j with
      | zero => exact absurd rfl h
      | succ j => simp [updAt]
    | succ i =>
      cases j with
      | zero => simp [updAt]
      | succ j => simp only [updAt, List.getElem?_cons_succ]; exact ih (by omega)

/-! ### One reconciler -/

/-- Nothing is lost or invented by a worker: finished ++ parked ++ not-yet-started = what the queue demands. -/
def Cons (q : List Req) (r : Rec) : Prop :=
  r.hist.map (·.1) ++ r.offering.toList ++ r.pending = q.filterMap Req.ev

theorem cons_init (q : List Req) : Cons q (Rec.init q) := by
  simp [Cons, Rec.init, Rec.pending]

theorem cons_begin {q : List Req} {r : Rec} (h : Cons q r) (ho : r.offering = none) : Cons q r.begin := by
  unfold Cons at *
  unfold Rec.begin
  cases ht : r.todo with
  | nil => simpa [ht] using h
  | cons x t =>
    simp only [Rec.pending, ht, ho, List.filterMap_cons] at h ⊢
    cases hp : x.pre <;> simp_all [Req.ev]

theorem cons_finish {q : List Req} {r : Rec} (h : Cons q r) (b : Bool) : Cons q (r.finish b) := by
  unfold Cons at *
  unfold Rec.finish
  cases ho : r.offering with
  | none => simpa [ho] using h
  | some e => simp_all [Rec.pending]

theorem delivered_finish_true (r : Rec) (e : Ev) (ho : r.offering = some e) :
    (r.finish true).delivered = r.delivered ++ [e] := by
  simp [Rec.finish, ho, Rec.delivered]

theorem delivered_finish_false (r : Rec) : (r.finish false).delivered = r.delivered := by
  unfold Rec.finish
  cases ho : r.offering <;> simp [Rec.delivered]

theorem hist_begin (r : Rec) : r.begin.hist = r.hist := by
  unfold Rec.begin
  cases ht : r.todo with
  | nil => rfl
  | cons x t => cases hp : x.pre <;> simp [hp]

theorem delivered_begin (r : Rec) : r.begin.delivered = r.delivered := by
  simp [Rec.delivered, hist_begin]

theorem dropped_finish_true (r : Rec) : (r.finish true).dropped = r.dropped := by
  unfold Rec.finish
  cases ho : r.offering <;> simp [Rec.dropped]

theorem dropped_begin (r : Rec) : r.begin.dropped = r.dropped := by
  simp [Rec.dropped, hist_begin]

theorem delivered_of_no_drop (h : List (Ev × Bool)) :
    (h.filter (fun x => !x.2)).map (·.1) = [] → (h.filter (·.2)).map (·.1) = h.map (·.1) := by
  induction h with
  | nil => intro _; rfl
  | cons x t ih =>
    obtain ⟨e, b⟩ := x
    cases b <;> simp_all

theorem Rec.delivered_of_no_drop {r : Rec} (h : r.dropped = []) : r.delivered = r.hist.map (·.1) :=
  NGF.Delivery.delivered_of_no_drop r.hist h

/-! ### The loop inside `Sys` -/

theorem seen_recv (l : Loop) (e : Ev) : (Loop.step l (.recv e)).seen = l.seen ++ [e] := by
  cases hc : l.cur <;> cases hh : l.handling <;>
    simp [Loop.step, swapAndHandle, Loop.start, swap, Loop.setCell, hc, hh]

theorem phase_recv (l : Loop) (e : Ev) : (Loop.step l (.recv e)).phase = l.phase := by
  cases hc : l.cur <;> cases hh : l.handling <;>
    simp [Loop.step, swapAndHandle, Loop.start, swap, Loop.setCell, hc, hh]

theorem seen_other (l : Loop) (a : Act) (h : ∀ e, a ≠ .recv e) : (Loop.step l a).seen = l.seen := by
  cases a with
  | recv e => exact absurd rfl (h e)
  | hreturn => rfl
  | ack =>
    simp only [Loop.step]
    split <;> cases hc : l.cur <;> simp [swapAndHandle, Loop.start, swap, Loop.setCell]
  | cancel => simp only [Loop.step]; split <;> rfl
  | drainack => rfl

theorem phase_other (l : Loop) (a : Act) (h : a ≠ .cancel) (hd : a ≠ .drainack) :
    (Loop.step l a).phase = l.phase := by
  cases a with
  | recv e => exact phase_recv l e
  | hreturn => rfl
  | ack =>
    simp only [Loop.step]
    split <;> cases hc : l.cur <;> simp [swapAndHandle, Loop.start, swap, Loop.setCell]
  | cancel => exact absurd rfl h
  | drainack => exact absurd rfl hd

/-! ### The invariant of reconcilers ∥ loop -/

structure SInv (deadline : Bool) (first : List Ev) (qs : List (List Req)) (s : Sys) : Prop where
  loopInv : Inv first s.loop
  seen    : s.seenBy.map (·.2) = s.loop.seen
  len     : s.recs.length = qs.length
  cons    : ∀ (i : Nat) (r : Rec) (q : List Req), s.recs[i]? = some r → qs[i]? = some q → Cons q r
  order   : ∀ (i : Nat) (r : Rec), s.recs[i]? = some r → s.seenFrom i = r.delivered
  nodrop  : deadline = false → s.ctxDone = false → ∀ (i : Nat) (r : Rec), s.recs[i]? = some r → r.dropped = []
  live    : s.ctxDone = false → s.loop.phase = .select

theorem sinv_init (deadline : Bool) (first : List Ev) (qs : List (List Req)) :
    SInv deadline first qs (Sys.init first qs) := by
  refine ⟨inv_init first, rfl, by simp [Sys.init], ?_, ?_, ?_, fun _ => rfl⟩
  · intro i r q hr hq
    simp only [Sys.init, List.getElem?_map, hq, Option.map_some, Option.some.injEq] at hr
    subst hr
    exact cons_init q
  · intro i r hr
    simp only [Sys.init, List.getElem?_map] at hr
    cases hq : qs[i]? with
    | none => simp [hq] at hr
    | some q =>
      simp only [hq, Option.map_some, Option.some.injEq] at hr
      subst hr
      simp [Sys.seenFrom, Sys.init, Rec.init, Rec.delivered]
  · intro _ _ i r hr
    simp only [Sys.init, List.getElem?_map] at hr
    cases hq : qs[i]? with
    | none => simp [hq] at hr
    | some q =>
      simp only [hq, Option.map_some, Option.some.injEq] at hr
      subst hr
      simp [Rec.init, Rec.dropped]

/-- A record of the updated list is either untouched or `f` of the old one at `i`. -/
theorem updAt_cases {l : List Rec} {i j : Nat} {f : Rec → Rec} {r : Rec}
    (h : (updAt l i f)[j]? = some r) :
    (j ≠ i ∧ l[j]? = some r) ∨ (j = i ∧ ∃ r₀, l[i]? = some r₀ ∧ r = f r₀) := by
  by_cases hji : j = i
  · subst hji
    rw [getElem?_updAt_eq] at h
    cases h0 : l[j]? with
    | none => simp [h0] at h
    | some r₀ =>
      simp only [h0, Option.map_some, Option.some.injEq] at h
      exact .inr ⟨rfl, r₀, rfl, h.symm⟩
  · rw [getElem?_updAt_ne l f hji] at h
    exact .inl ⟨hji, h⟩

theorem seenFrom_snoc (s : Sys) (i j : Nat) (e : Ev) :
    ((s.seenBy ++ [(i, e)]).filter (·.1 == j)).map (·.2) =
      if i = j then s.seenFrom j ++ [e] else s.seenFrom j := by
  by_cases h : i = j <;> simp [Sys.seenFrom, List.filter_append, h]

theorem sinv_step {deadline : Bool} {first : List Ev} {qs : List (List Req)} {s : Sys}
    (hi : SInv deadline first qs s) (a : SAct) (he : enabled deadline s a = true) :
    SInv deadline first qs (step s a) := by
  obtain ⟨li, sn, ln, cn, od, nd, lv⟩ := hi
  cases a with
  | «begin» i =>
    simp only [enabled] at he
    refine ⟨li, sn, by simpa [step, updAt_length] using ln, ?_, ?_, ?_, lv⟩
    · intro j r q hr hq
      rcases updAt_cases hr with ⟨_, h⟩ | ⟨hj, r₀, h0, hr'⟩
      · exact cn j r q h hq
      · subst hj; subst hr'
        simp only [h0, Bool.and_eq_true, Option.isNone_iff_eq_none] at he
        exact cons_begin (cn j r₀ q h0 hq) he.1
    · intro j r hr
      rcases updAt_cases hr with ⟨_, h⟩ | ⟨hj, r₀, h0, hr'⟩
      · exact od j r h
      · subst hj; subst hr'
        rw [delivered_begin]; exact od j r₀ h0
    · intro hd hc j r hr
      rcases updAt_cases hr with ⟨_, h⟩ | ⟨hj, r₀, h0, hr'⟩
      · exact nd hd hc j r h
      · subst hj; subst hr'
        rw [dropped_begin]; exact nd hd hc j r₀ h0
  | deliver i =>
    simp only [enabled, Bool.and_eq_true, beq_iff_eq] at he
    obtain ⟨ho, hp⟩ := he
    cases hoe : s.offering i with
    | none => simp [hoe] at ho
    | some e =>
      have hri : ∃ r₀, s.recs[i]? = some r₀ ∧ r₀.offering = some e := by
        unfold Sys.offering at hoe
        cases h0 : s.recs[i]? with
        | none => simp [h0] at hoe
        | some r₀ => exact ⟨r₀, rfl, by simpa [h0] using hoe⟩
      obtain ⟨ri, hri, hrio⟩ := hri
      have hstep : step s (.deliver i) =
          { s with loop := Loop.step s.loop (.recv e),
                   recs := updAt s.recs i (·.finish true),
                   seenBy := s.seenBy ++ [(i, e)] } := by
        simp [step, hoe]
      rw [hstep]
      refine ⟨inv_step li (.recv e) (by simp [Loop.enabled, hp]), ?_,
        by simpa [updAt_length] using ln, ?_, ?_, ?_, ?_⟩
      · simp [seen_recv, sn]
      · intro j r q hr hq
        rcases updAt_cases hr with ⟨_, h⟩ | ⟨hj, r₀, h0, hr'⟩
        · exact cn j r q h hq
        · subst hj; subst hr'
          exact cons_finish (cn j r₀ q h0 hq) true
      · intro j r hr
        show ((s.seenBy ++ [(i, e)]).filter (·.1 == j)).map (·.2) = r.delivered
        rw [seenFrom_snoc]
        rcases updAt_cases hr with ⟨hne, h⟩ | ⟨hj, r₀, h0, hr'⟩
        · rw [if_neg (fun h' => hne h'.symm)]; exact od j r h
        · subst hj; subst hr'
          rw [hri] at h0; cases h0
          rw [if_pos rfl, delivered_finish_true _ e hrio, od j ri hri]
      · intro hd hc j r hr
        rcases updAt_cases hr with ⟨_, h⟩ | ⟨hj, r₀, h0, hr'⟩
        · exact nd hd hc j r h
        · subst hj; subst hr'
          rw [dropped_finish_true]; exact nd hd hc j r₀ h0
      · intro hc; rw [phase_recv]; exact lv hc
  | giveup i =>
    simp only [enabled, Bool.and_eq_true, Bool.or_eq_true] at he
    obtain ⟨_, hcd⟩ := he
    refine ⟨li, sn, by simpa [step, updAt_length] using ln, ?_, ?_, ?_, lv⟩
    · intro j r q hr hq
      rcases updAt_cases hr with ⟨_, h⟩ | ⟨hj, r₀, h0, hr'⟩
      · exact cn j r q h hq
      · subst hj; subst hr'
        exact cons_finish (cn j r₀ q h0 hq) false
    · intro j r hr
      rcases updAt_cases hr with ⟨_, h⟩ | ⟨hj, r₀, h0, hr'⟩
      · exact od j r h
      · subst hj; subst hr'
        rw [delivered_finish_false]; exact od j r₀ h0
    · intro hd hc j r hr
      -- enabled only when the context is cancelled (or the deadline variant): contradiction
      simp only [step] at hc
      rcases hcd with h | h
      · rw [h] at hc; cases hc
      · rw [hd] at h; cases h
  | cancelCtx =>
    refine ⟨li, sn, ln, cn, od, ?_, ?_⟩
    · intro _ hc; simp [step] at hc
    · intro hc; simp [step] at hc
  | loop a =>
    cases a with
    | recv e => simp [enabled] at he
    | cancel =>
      simp only [enabled, Bool.and_eq_true] at he
      refine ⟨inv_step li .cancel he.2, ?_, ln, cn, od, nd, ?_⟩
      · simpa [step, seen_other s.loop .cancel (by intro e h; cases h)] using sn
      · intro hc; simp only [step] at hc; rw [he.1] at hc; cases hc
    | hreturn =>
      simp only [enabled] at he
      refine ⟨inv_step li .hreturn he, ?_, ln, cn, od, nd, ?_⟩
      · simpa [step, Loop.step] using sn
      · intro hc; exact lv hc
    | ack =>
      simp only [enabled] at he
      refine ⟨inv_step li .ack he, ?_, ln, cn, od, nd, ?_⟩
      · simpa [step, seen_other s.loop .ack (by intro e h; cases h)] using sn
      · intro hc
        simp only [step]
        rw [phase_other s.loop .ack (by intro h; cases h) (by intro h; cases h)]
        exact lv hc
    | drainack =>
      simp only [enabled, Loop.enabled, Bool.and_eq_true, beq_iff_eq] at he
      refine ⟨inv_step li .drainack (by simp [Loop.enabled, he]), ?_, ln, cn, od, nd, ?_⟩
      · simpa [step, Loop.step] using sn
      · intro hc
        have := lv hc
        rw [this] at he
        exact absurd he.1 (by decide)

theorem sinv_runCount {deadline : Bool} {first : List Ev} {qs : List (List Req)} :
    ∀ (as : List SAct) (s : Sys) (n : Nat), SInv deadline first qs s →
      SInv deadline first qs (runCount deadline s n as).1
  | [], _, _, hi => hi
  | a :: as, s, n, hi => by
    simp only [runCount]
    split
    · next he => exact sinv_runCount as _ _ (sinv_step hi a he)
    · exact sinv_runCount as _ _ hi

/-- Every state reachable by any schedule satisfies the invariant. -/
theorem sinv_reach (deadline : Bool) (first : List Ev) (qs : List (List Req)) (as : List SAct) :
    SInv deadline first qs (run deadline (Sys.init first qs) as) :=
  sinv_runCount as _ 0 (sinv_init deadline first qs)

/-- The context is only ever cancelled by `cancelCtx`. -/
theorem ctx_live_runCount {deadline : Bool} :
    ∀ (as : List SAct) (s : Sys) (n : Nat), SAct.cancelCtx ∉ as → s.ctxDone = false →
      (runCount deadline s n as).1.ctxDone = false
  | [], _, _, _, h => h
  | a :: as, s, n, hn, h => by
    have ha : a ≠ .cancelCtx := fun h' => hn (by simp [h'])
    have hn' : SAct.cancelCtx ∉ as := fun h' => hn (by simp [h'])
    simp only [runCount]
    split
    · apply ctx_live_runCount as _ _ hn'
      cases a with
      | cancelCtx => exact absurd rfl ha
      | deliver i => simp only [step]; split <;> exact h
      | _ => exact h
    · exact ctx_live_runCount as _ _ hn' h

/-! ### The preparer -/

theorem listAll_eq_items {lists : List ListRes} {l : List Nat} (h : listAll lists = some l) :
    l = items lists := by
  induction lists generalizing l with
  | nil => simp [listAll] at h; simp [items, h]
  | cons x t ih =>
    cases x with
    | error => simp [listAll] at h
    | ok it =>
      simp only [listAll, Option.map_eq_some_iff] at h
      obtain ⟨l', hl', rfl⟩ := h
      simp [items, ih hl']

theorem getAll_eq_present {objs : List (Nat × GetRes)} {l : List Nat} (h : getAll objs = some l) :
    l = present objs := by
  induction objs generalizing l with
  | nil => simp [getAll] at h; simp [present, h]
  | cons x t ih =>
    obtain ⟨id, g⟩ := x
    cases g with
    | error => simp [getAll] at h
    | notFound =>
      simp only [getAll] at h
      simp [present] at *
      simpa [present] using ih h
    | found =>
      simp only [getAll, Option.map_eq_some_iff] at h
      obtain ⟨l', hl', rfl⟩ := h
      have := ih hl'
      simp [present] at *
      exact this

theorem listAll_none_iff (lists : List ListRes) : listAll lists = none ↔ ListRes.error ∈ lists := by
  induction lists with
  | nil => simp [listAll]
  | cons x t ih =>
    cases x with
    | error => simp [listAll]
    | ok it => simp [listAll, ih]

theorem getAll_none_iff (objs : List (Nat × GetRes)) :
    getAll objs = none ↔ ∃ id, (id, GetRes.error) ∈ objs := by
  induction objs with
  | nil => simp [getAll]
  | cons x t ih =>
    obtain ⟨id, g⟩ := x
    cases g with
    | error => simp [getAll]
    | notFound => simp [getAll, ih]
    | found => simp [getAll, ih]

end NGF.Delivery
