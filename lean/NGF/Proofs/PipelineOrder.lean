/-
C02 refinement proof, part 5 (source order): the FIRST annotated entry, in the order `upsertRoute` appends match rules
(listeners, routes, rules, accepted hostnames, matches), that satisfies a predicate which does not look at the
provenance hostnames nor at the position, has the smallest (rule index, match index) among all entries of the same
route that satisfy it (`first_has_least_index`). This is what turns the stability of `sortMatchRules` into the
specification's last tie-breakers ("the first matching rule / match in the list wins").
-/
import NGF.Proofs.PipelineBeats

namespace NGF.Pipeline

/-- a predicate on annotated entries that reads only what the generator reads of them -/
def Blind (P : XE → Bool) : Prop :=
  ∀ z z' : XE, z.port = z'.port → z.host = z'.host → z.c.m = z'.c.m → z.c.age = z'.c.age → z.c.ns = z'.c.ns →
    z.c.name = z'.c.name → P z = P z'

theorem find?_flatMap_some {α β} {l : List α} {f : α → List β} {p : β → Bool} {b : β}
    (h : (l.flatMap f).find? p = some b) : ∃ a ∈ l, (f a).find? p = some b := by
  rw [List.find?_flatMap] at h
  obtain ⟨l₁, a, l₂, rfl, ha, _⟩ := List.findSome?_eq_some_iff.mp h
  exact ⟨a, by simp, ha⟩

theorem find?_flatMap_none {α β} {l : List α} {f : α → List β} {p : β → Bool}
    (h : (l.flatMap f).find? p = none) {a : α} (ha : a ∈ l) {b : β} (hb : b ∈ f a) : p b = false := by
  have := List.find?_eq_none.mp h b (List.mem_flatMap.mpr ⟨a, ha, hb⟩)
  simpa using this

theorem first_has_least_index {g : Gateway} {routes : List Route}
    (ids : nodup (routes.map fun r => (r.ns, r.name)) = true) {P : XE → Bool} (hP : Blind P) {x y : XE}
    (hx : (xentries g routes).find? P = some x) (hy : y ∈ xentries g routes) (hPy : P y = true)
    (hport : y.port = x.port) (hhost : y.host = x.host) (hns : y.c.ns = x.c.ns) (hname : y.c.name = x.c.name) :
    idxLt y.c x.c = false := by
  -- locate the block (listener, route) of x
  unfold xentries at hx
  obtain ⟨l, hl, hx⟩ := find?_flatMap_some hx
  obtain ⟨r, hr, hx⟩ := find?_flatMap_some hx
  have hxm : x ∈ xblock g l r := List.mem_of_find?_eq_some hx
  unfold xblock at hx hxm
  have hv : r.valid = true := by
    by_cases hv : r.valid = true
    · exact hv
    · simp [hv] at hxm
  simp only [hv, ↓reduceIte] at hx hxm
  unfold xrouteEntries at hx
  -- rule level
  rw [List.find?_flatMap] at hx
  obtain ⟨i, rule, hir, hin, hmin⟩ := enumFrom_findSome_min hx
  -- hostname level
  obtain ⟨hh, hhm, hin⟩ := find?_flatMap_some hin
  -- match level
  rw [List.find?_map] at hin
  cases hf : (enumFrom 0 rule.ms).find? (P ∘ fun jm => mkX l r hh (i, rule) jm) with
  | none => rw [hf] at hin; cases hin
  | some jm =>
    rw [hf] at hin
    simp only [Option.map_some, Option.some.injEq] at hin
    obtain ⟨hjm, _, hjmin⟩ := enumFrom_find_min hf
    -- y, and its route
    obtain ⟨l', hl', r', hr', hv', h1', h2', hh', hhm', ir', hir', jm', hjm', rfl⟩ := mem_xentries.mp hy
    subst hin
    simp only [mkX, mkCand] at hport hhost hns hname
    have hrr : r' = r := nodup_map_inj ids hr' hr (by simp [hns, hname])
    subst hrr
    obtain ⟨i', rule'⟩ := ir'
    obtain ⟨j', m'⟩ := jm'
    obtain ⟨j, m⟩ := jm
    -- the twin of y in the block of x
    have twin : P (mkX l r' hh (i', rule') (j', m')) = true := by
      rw [← hPy]
      apply hP
      · simp [mkX, hport]
      · simp [mkX, hhost]
      all_goals rfl
    simp only [idxLt, mkX, mkCand]
    by_cases hii : i' = i
    · subst hii
      have hrule : rule' = rule := enumFrom_fun hir' hir
      subst hrule
      simp only [bne_self_eq_false, Bool.false_eq_true, ↓reduceIte]
      apply decide_eq_false
      intro hlt
      have := hjmin j' m' hjm' hlt
      simp only [Function.comp] at this
      rw [twin] at this; cases this
    · have : (i' != i) = true := by simpa using hii
      simp only [this, ↓reduceIte]
      apply decide_eq_false
      intro hlt
      have hnone := hmin i' rule' hir' hlt
      have hmem : mkX l r' hh (i', rule') (j', m') ∈
          (acceptedXAt g l r').flatMap fun hh => (enumFrom 0 rule'.ms).map fun jm => mkX l r' hh (i', rule') jm :=
        List.mem_flatMap.mpr ⟨hh, hhm, List.mem_map.mpr ⟨(j', m'), hjm', rfl⟩⟩
      have := List.find?_eq_none.mp hnone _ hmem
      rw [twin] at this; exact this rfl

end NGF.Pipeline
