/-
Helper lemmas for C13, histories of watch events (`NGF.Model.ResolverHistory`). Core Lean only.
-/
import NGF.Proofs.ResolverFaults
import NGF.Model.ResolverHistory

namespace NGF.Resolver

/-! ### association lists -/

def NodupKeys (m : List (SKey × Slice)) : Prop := (m.map (·.1)).Nodup

theorem delKV_sublist (m : List (SKey × Slice)) (k : SKey) : (delKV m k).Sublist m := List.filter_sublist

theorem nodupKeys_delKV {m : List (SKey × Slice)} (h : NodupKeys m) (k : SKey) : NodupKeys (delKV m k) :=
  List.Nodup.sublist ((delKV_sublist m k).map _) h

theorem key_not_in_delKV (m : List (SKey × Slice)) (k : SKey) : k ∉ (delKV m k).map (·.1) := by
  intro h
  obtain ⟨kv, hkv, hk⟩ := List.mem_map.mp h
  have := (List.mem_filter.mp hkv).2
  simp [hk] at this

theorem nodupKeys_putKV {m : List (SKey × Slice)} (h : NodupKeys m) (k : SKey) (v : Slice) : NodupKeys (putKV m k v) := by
  unfold NodupKeys putKV
  rw [List.map_append]
  refine List.nodup_append.mpr ⟨nodupKeys_delKV h k, by simp, ?_⟩
  intro a ha b hb hab
  simp only [List.map_cons, List.map_nil, List.mem_singleton] at hb
  subst hb; subst hab
  exact key_not_in_delKV m _ ha

theorem getKV_none_iff {m : List (SKey × Slice)} {k : SKey} : getKV m k = none ↔ ∀ kv ∈ m, kv.1 ≠ k := by
  unfold getKV
  simp only [Option.map_eq_none_iff, List.find?_eq_none, beq_iff_eq]

theorem delKV_of_getKV_none {m : List (SKey × Slice)} {k : SKey} (h : getKV m k = none) : delKV m k = m := by
  unfold delKV
  apply List.filter_eq_self.mpr
  intro kv hkv
  have := getKV_none_iff.mp h kv hkv
  simp [this]

theorem getKV_of_mem : ∀ {m : List (SKey × Slice)} {kv : SKey × Slice}, NodupKeys m → kv ∈ m → getKV m kv.1 = some kv.2
  | [], _, _, h => by simp at h
  | x :: r, kv, hnd, h => by
    unfold NodupKeys at hnd
    simp only [List.map_cons, List.nodup_cons, List.mem_map, not_exists, not_and] at hnd
    rcases List.mem_cons.mp h with rfl | hr
    · simp [getKV]
    · have hne : ¬ x.1 = kv.1 := fun e => hnd.1 kv hr e.symm
      have ih := getKV_of_mem (m := r) hnd.2 hr
      unfold getKV at ih ⊢
      simp [hne, ih]

/-! ### what `Resolve` reads of the slices -/

theorem upstreamEndpoints_congr {a b : List Slice} {ns name : String} (sp : SvcPort) (fam : IPFamily)
    (h : listSlices a ns name = listSlices b ns name) :
    upstreamEndpoints a ns name sp fam = upstreamEndpoints b ns name sp fam := by
  unfold upstreamEndpoints resolve
  rw [h]

theorem indexKey_some {s : Slice} {n : String} (h : indexKey s = some n) : s.svcLabel = some n := by
  unfold indexKey at h
  cases hl : s.svcLabel with
  | none => simp [hl] at h
  | some v =>
    simp only [hl] at h
    by_cases hv : v = ""
    · simp [hv] at h
    · simp only [hv, if_false, Option.some.injEq] at h
      rw [h]

/-- a slice the graph does not reference is not listed for any referenced Service -/
theorem unreferenced_not_listed {R : List (String × String)} {s : Slice} (h : refSlice (some R) s = false)
    {ns name : String} (hin : (ns, name) ∈ R) :
    (decide (s.ns = ns) && decide (indexKey s = some name)) = false := by
  by_cases h1 : s.ns = ns
  · by_cases h2 : indexKey s = some name
    · exfalso
      have hl := indexKey_some h2
      simp only [refSlice, refSvc, sliceOwner, hl, Option.getD_some, h1] at h
      have : R.contains (ns, name) = true := List.contains_iff_mem.mpr hin
      rw [this] at h; cases h
    · simp [h2]
  · simp [h1]

theorem listSlices_delKV {m : List (SKey × Slice)} {k : SKey} {ns name : String}
    (h : ∀ kv ∈ m, kv.1 = k → (decide (kv.2.ns = ns) && decide (indexKey kv.2 = some name)) = false) :
    listSlices ((delKV m k).map (·.2)) ns name = listSlices (m.map (·.2)) ns name := by
  unfold listSlices delKV
  induction m with
  | nil => rfl
  | cons x r ih =>
    have ihr := ih (fun kv hkv => h kv (List.mem_cons_of_mem _ hkv))
    by_cases hx : x.1 = k
    · have hfalse := h x (List.mem_cons_self ..) hx
      simp only [List.filter_cons, hx, beq_self_eq_true, Bool.not_true, Bool.false_eq_true, if_false, List.map_cons,
        hfalse]
      exact ihr
    · have : (x.1 == k) = false := by simpa using hx
      simp only [List.filter_cons, this, Bool.not_false, if_true, List.map_cons]
      rw [ihr]

theorem listSlices_putKV {m : List (SKey × Slice)} {k : SKey} {v : Slice} {ns name : String}
    (h : ∀ kv ∈ m, kv.1 = k → (decide (kv.2.ns = ns) && decide (indexKey kv.2 = some name)) = false)
    (hv : (decide (v.ns = ns) && decide (indexKey v = some name)) = false) :
    listSlices ((putKV m k v).map (·.2)) ns name = listSlices (m.map (·.2)) ns name := by
  have h1 := listSlices_delKV (ns := ns) (name := name) h
  unfold putKV
  unfold listSlices at h1 ⊢
  rw [List.map_append, List.filter_append, h1]
  simp [hv]

/-! ### Services -/

theorem findSvcPort_delSvc_other {svcs : List HSvc} {ns name ns' name' : String} (port : Nat)
    (h : ¬ (ns' = ns ∧ name' = name)) (tail : List HSvc)
    (ht : ∀ s ∈ tail, s.ns = ns' ∧ s.name = name') :
    findSvcPort (delSvc svcs ns' name' ++ tail) ns name port = findSvcPort svcs ns name port := by
  unfold findSvcPort
  have : (delSvc svcs ns' name' ++ tail).find? (fun s => s.ns == ns && s.name == name) =
      svcs.find? (fun s => s.ns == ns && s.name == name) := by
    induction svcs with
    | nil =>
      show tail.find? _ = none
      apply List.find?_eq_none.mpr
      intro s hs
      obtain ⟨e1, e2⟩ := ht s hs
      simp only [Bool.and_eq_true, beq_iff_eq, not_and]
      intro hn hm; exact h ⟨by rw [← e1, hn], by rw [← e2, hm]⟩
    | cons x r ih =>
      unfold delSvc at ih ⊢
      by_cases hx : (x.ns == ns' && x.name == name') = true
      · have hne : (x.ns == ns && x.name == name) = false := by
          simp only [Bool.and_eq_true, beq_iff_eq] at hx
          apply Bool.eq_false_iff.mpr
          intro hb
          simp only [Bool.and_eq_true, beq_iff_eq] at hb
          exact h ⟨by rw [← hx.1, hb.1], by rw [← hx.2, hb.2]⟩
        simp only [List.filter_cons, hx, Bool.not_true, Bool.false_eq_true, if_false, List.find?_cons, hne]
        exact ih
      · have hx' : (x.ns == ns' && x.name == name') = false := by simpa using hx
        simp only [List.filter_cons, hx', Bool.not_false, if_true, List.cons_append, List.find?_cons]
        cases (x.ns == ns && x.name == name)
        · exact ih
        · rfl
  rw [this]

theorem delSvc_absent {svcs : List HSvc} {ns name : String} (h : hasSvc svcs ns name = false) :
    delSvc svcs ns name = svcs := by
  unfold delSvc
  apply List.filter_eq_self.mpr
  intro s hs
  have := List.any_eq_false.mp h s hs
  simp only [Bool.not_eq_true'] 
  cases hb : (s.ns == ns && s.name == name)
  · rfl
  · rw [hb] at this; exact absurd rfl this

theorem delRoute_absent {rs : List HRoute} {ns name : String} (h : hasRoute rs ns name = false) :
    delRoute rs ns name = rs := by
  unfold delRoute
  apply List.filter_eq_self.mpr
  intro r hr
  have := List.any_eq_false.mp h r hr
  simp only [Bool.not_eq_true']
  cases hb : (r.ns == ns && r.name == name)
  · rfl
  · rw [hb] at this; exact absurd rfl this

/-! ### `confOf` -/

theorem flatMap_congr_mem {α β} {l : List α} {f g : α → List β} (h : ∀ a ∈ l, f a = g a) : l.flatMap f = l.flatMap g := by
  induction l with
  | nil => rfl
  | cons a l ih =>
    simp only [List.flatMap_cons]
    rw [h a (List.mem_cons_self ..), ih (fun b hb => h b (List.mem_cons_of_mem _ hb))]

theorem filterMap_congr_mem {α β} {l : List α} {f g : α → Option β} (h : ∀ a ∈ l, f a = g a) :
    l.filterMap f = l.filterMap g := by
  induction l with
  | nil => rfl
  | cons a l ih =>
    simp only [List.filterMap_cons]
    rw [h a (List.mem_cons_self ..), ih (fun b hb => h b (List.mem_cons_of_mem _ hb))]

theorem mem_refsOf {c : Cluster} {r : HRoute} {ref : HRef} (hr : r ∈ c.routes) (href : ref ∈ r.refs) :
    (r.ns, ref.name) ∈ refsOf c := by
  unfold refsOf
  exact List.mem_flatMap.mpr ⟨r, hr, List.mem_map.mpr ⟨ref, href, rfl⟩⟩

/-- `confOf` reads the cluster only through the routes and, for every backendRef of a route, the port lookup in the
Service and the list of the Service's slices -/
theorem confOf_congr {c c' : Cluster} (hr : c'.routes = c.routes)
    (h : ∀ r ∈ c.routes, ∀ ref ∈ r.refs,
      findSvcPort c'.svcs r.ns ref.name ref.port = findSvcPort c.svcs r.ns ref.name ref.port ∧
      listSlices (c'.slices.map (·.2)) r.ns ref.name = listSlices (c.slices.map (·.2)) r.ns ref.name) :
    confOf c' = confOf c := by
  unfold confOf
  rw [hr]
  congr 2
  apply flatMap_congr_mem
  intro r hrm
  apply filterMap_congr_mem
  intro ref href
  obtain ⟨h1, h2⟩ := h r hrm ref href
  unfold upOf
  rw [h1]
  cases findSvcPort c.svcs r.ns ref.name ref.port with
  | none => rfl
  | some sp => simp only [Option.map_some]; rw [upstreamEndpoints_congr sp .dual h2]

/-! ### `setChangeType` -/

theorem bump_false (p : Change) (s : Bool) : bump p false s = p := by simp [bump]

theorem bump_ne_none {p : Change} (h : p ≠ .none) (c s : Bool) : bump p c s ≠ .none := by
  unfold bump
  by_cases hc : (c && p != .cluster) = true
  · simp only [hc, if_true]; cases s <;> simp
  · simp only [hc]; exact h

theorem bump_true_ne_none (p : Change) (s : Bool) : bump p true s ≠ .none := by
  unfold bump
  cases p <;> cases s <;> simp

theorem bump_eq_none {p : Change} {c s : Bool} (h : bump p c s = .none) : p = .none ∧ c = false := by
  cases p <;> cases c <;> cases s <;> simp_all [bump]

theorem bump_none_endpoints : bump .none true true = .endpoints := by decide

/-! ### one event -/

/-- what holds between two events of a batch: the tracking store mirrors the cluster's slices; the latest graph's
referenced Services are `R`; and as long as nothing was judged a change, the cluster still has the routes' references `R`
and still yields the configuration `K` -/
structure Mid (R : List (String × String)) (K : Conf) (c : Cluster) (p : Proc) : Prop where
  store : p.store = c.slices
  nodup : NodupKeys c.slices
  refd : p.refd = some R
  quiet : p.pending = .none → refsOf c = R ∧ confOf c = K

theorem refSvc_false_ne {R : List (String × String)} {ns name ns' name' : String}
    (h : refSvc (some R) ns' name' = false) (hin : (ns, name) ∈ R) : ¬ (ns' = ns ∧ name' = name) := by
  rintro ⟨e1, e2⟩
  simp only [refSvc, e1, e2] at h
  have : R.contains (ns, name) = true := List.contains_iff_mem.mpr hin
  rw [this] at h; cases h

theorem mid_capture {R : List (String × String)} {K : Conf} {c : Cluster} {p : Proc} (h : Mid R K c p) (e : Ev) :
    Mid R K (c.apply e) (capture true c p e) := by
  obtain ⟨hst, hnd, hrefd, hq⟩ := h
  obtain ⟨store, refd, pending⟩ := p
  simp only at hst hrefd hq
  subst hst; subst hrefd
  cases e with
  | upsertSlice obj s =>
    refine ⟨?_, nodupKeys_putKV hnd _ _, rfl, ?_⟩
    · simp [capture, Cluster.apply]
    · intro hp
      simp only [capture] at hp
      obtain ⟨hpend, hch⟩ := bump_eq_none hp
      obtain ⟨hR, hK⟩ := hq hpend
      rw [Bool.or_eq_false_iff] at hch
      refine ⟨hR, ?_⟩
      rw [← hK]
      refine confOf_congr (c' := c.apply (.upsertSlice obj s)) (c := c) rfl ?_
      intro r hr ref href
      refine ⟨rfl, ?_⟩
      have hin : (r.ns, ref.name) ∈ R := hR ▸ mem_refsOf hr href
      show listSlices ((putKV c.slices (s.ns, obj) s).map (·.2)) r.ns ref.name = _
      apply listSlices_putKV
      · intro kv hkv hk
        have hg := getKV_of_mem hnd hkv
        rw [hk] at hg
        have := hch.2
        rw [hg] at this
        exact unreferenced_not_listed this hin
      · exact unreferenced_not_listed hch.1 hin
  | deleteSlice ns obj =>
    cases hg : getKV c.slices (ns, obj) with
    | none =>
      have hdel : delKV c.slices (ns, obj) = c.slices := delKV_of_getKV_none hg
      have hc : c.apply (.deleteSlice ns obj) = c := by simp only [Cluster.apply, hdel]
      rw [hc]
      simp only [capture, hg]
      exact ⟨rfl, hnd, rfl, hq⟩
    | some o =>
      refine ⟨?_, nodupKeys_delKV hnd _, ?_, ?_⟩
      · simp [capture, hg, Cluster.apply]
      · simp [capture, hg]
      · intro hp
        simp only [capture, hg] at hp
        obtain ⟨hpend, hch⟩ := bump_eq_none hp
        obtain ⟨hR, hK⟩ := hq hpend
        refine ⟨hR, ?_⟩
        rw [← hK]
        refine confOf_congr (c' := c.apply (.deleteSlice ns obj)) (c := c) rfl ?_
        intro r hr ref href
        refine ⟨rfl, ?_⟩
        have hin : (r.ns, ref.name) ∈ R := hR ▸ mem_refsOf hr href
        show listSlices ((delKV c.slices (ns, obj)).map (·.2)) r.ns ref.name = _
        apply listSlices_delKV
        intro kv hkv hk
        have hg' := getKV_of_mem hnd hkv
        rw [hk, hg] at hg'
        cases hg'
        exact unreferenced_not_listed hch hin
  | upsertSvc s =>
    refine ⟨by simp [capture, Cluster.apply], hnd, rfl, ?_⟩
    intro hp
    simp only [capture] at hp
    obtain ⟨hpend, hch⟩ := bump_eq_none hp
    obtain ⟨hR, hK⟩ := hq hpend
    refine ⟨hR, ?_⟩
    rw [← hK]
    refine confOf_congr (c' := c.apply (.upsertSvc s)) (c := c) rfl ?_
    intro r hr ref href
    refine ⟨?_, rfl⟩
    have hin : (r.ns, ref.name) ∈ R := hR ▸ mem_refsOf hr href
    show findSvcPort (delSvc c.svcs s.ns s.name ++ [s]) r.ns ref.name ref.port = _
    apply findSvcPort_delSvc_other _ (refSvc_false_ne hch hin)
    intro x hx; simp only [List.mem_singleton] at hx; subst hx; exact ⟨rfl, rfl⟩
  | deleteSvc ns name =>
    by_cases hex : hasSvc c.svcs ns name = true
    · refine ⟨by simp [capture, hex, Cluster.apply], hnd, by simp [capture, hex], ?_⟩
      intro hp
      simp only [capture, hex, if_true] at hp
      obtain ⟨hpend, hch⟩ := bump_eq_none hp
      obtain ⟨hR, hK⟩ := hq hpend
      refine ⟨hR, ?_⟩
      rw [← hK]
      refine confOf_congr (c' := c.apply (.deleteSvc ns name)) (c := c) rfl ?_
      intro r hr ref href
      refine ⟨?_, rfl⟩
      have hin : (r.ns, ref.name) ∈ R := hR ▸ mem_refsOf hr href
      show findSvcPort (delSvc c.svcs ns name) r.ns ref.name ref.port = _
      have := findSvcPort_delSvc_other (svcs := c.svcs) (ns := r.ns) (name := ref.name) (ns' := ns) (name' := name)
        ref.port (refSvc_false_ne hch hin) [] (by simp)
      simpa using this
    · have hex' : hasSvc c.svcs ns name = false := by simpa using hex
      have hc : c.apply (.deleteSvc ns name) = c := by
        simp only [Cluster.apply, delSvc_absent hex']
      rw [hc]
      simp only [capture, hex', Bool.false_eq_true, if_false]
      exact ⟨rfl, hnd, rfl, hq⟩
  | upsertRoute r =>
    refine ⟨by simp [capture, Cluster.apply], hnd, rfl, ?_⟩
    intro hp
    simp only [capture] at hp
    exact absurd hp (bump_true_ne_none _ _)
  | deleteRoute ns name =>
    by_cases hex : hasRoute c.routes ns name = true
    · refine ⟨by simp [capture, hex, Cluster.apply], hnd, by simp [capture, hex], ?_⟩
      intro hp
      simp only [capture, hex, if_true] at hp
      exact absurd hp (bump_true_ne_none _ _)
    · have hex' : hasRoute c.routes ns name = false := by simpa using hex
      have hc : c.apply (.deleteRoute ns name) = c := by
        simp only [Cluster.apply, delRoute_absent hex']
      rw [hc]
      simp only [capture, hex', Bool.false_eq_true, if_false]
      exact ⟨rfl, hnd, rfl, hq⟩

theorem mid_captureAll {R : List (String × String)} {K : Conf} : ∀ (evs : List Ev) {c : Cluster} {p : Proc},
    Mid R K c p → Mid R K (captureAll true c p evs).1 (captureAll true c p evs).2
  | [], _, _, h => h
  | e :: es, _, _, h => by
    simp only [captureAll]
    exact mid_captureAll es (mid_capture h e)

/-! ### between batches -/

/-- what holds after every drained batch: the tracking store mirrors the cluster's slices, nothing is pending, the latest
graph's referenced Services are those of the CURRENT routes, and the configuration last generated is the configuration
of the CURRENT cluster -/
structure HistInv (st : PState) : Prop where
  store : st.proc.store = st.cluster.slices
  nodup : NodupKeys st.cluster.slices
  pending : st.proc.pending = .none
  refd : st.proc.refd = some (refsOf st.cluster)
  latest : st.h.latest = some (confOf st.cluster)

theorem histInv_runBatch (plus : Bool) {st : PState} (h : HistInv st) (evs : List Ev) :
    HistInv (runBatch plus true st evs).1 := by
  have hmid : Mid (refsOf st.cluster) (confOf st.cluster) st.cluster st.proc :=
    ⟨h.store, h.nodup, h.refd, fun _ => ⟨rfl, rfl⟩⟩
  have hm := mid_captureAll evs hmid
  unfold runBatch
  cases hp : (captureAll true st.cluster st.proc evs).2.pending with
  | none =>
    simp only [hp]
    obtain ⟨hR, hK⟩ := hm.quiet hp
    exact ⟨hm.store, hm.nodup, hp, by rw [hm.refd, hR], by rw [h.latest, hK]⟩
  | endpoints => simp only [hp]; exact ⟨hm.store, hm.nodup, rfl, rfl, rfl⟩
  | cluster => simp only [hp]; exact ⟨hm.store, hm.nodup, rfl, rfl, rfl⟩

def finalState (plus keepAll : Bool) : PState → List (List Ev) → PState
  | st, [] => st
  | st, b :: bs => finalState plus keepAll (runBatch plus keepAll st b).1 bs

theorem histInv_finalState (plus : Bool) : ∀ (bs : List (List Ev)) {st : PState}, HistInv st →
    HistInv (finalState plus true st bs)
  | [], _, h => h
  | b :: bs, _, h => by simp only [finalState]; exact histInv_finalState plus bs (histInv_runBatch plus h b)

theorem mem_runHistory (plus : Bool) : ∀ (bs : List (List Ev)) {st : PState}, HistInv st →
    ∀ r ∈ runHistory plus true st bs, HistInv r.1
  | [], _, _, r, hr => by simp [runHistory] at hr
  | b :: bs, st, h, r, hr => by
    simp only [runHistory, List.mem_cons] at hr
    rcases hr with rfl | hr
    · exact histInv_runBatch plus h b
    · exact mem_runHistory plus bs (histInv_runBatch plus h b) r hr

/-! ### OSS: what NGINX holds along a history -/

theorem nodup_dedupUps : ∀ (l : List Up) (seen : List String),
    ((dedupUps l seen).map (·.name)).Nodup ∧ ∀ u ∈ dedupUps l seen, u.name ∉ seen
  | [], _ => by simp [dedupUps]
  | x :: r, seen => by
    unfold dedupUps
    by_cases hx : x.name ∈ seen
    · simp only [hx, if_true]; exact nodup_dedupUps r seen
    · simp only [hx, if_false, List.map_cons, List.nodup_cons, List.mem_cons]
      obtain ⟨h1, h2⟩ := nodup_dedupUps r (x.name :: seen)
      refine ⟨⟨?_, h1⟩, ?_⟩
      · intro hin
        obtain ⟨u, hu, hn⟩ := List.mem_map.mp hin
        exact h2 u hu (by rw [hn]; exact List.mem_cons_self ..)
      · rintro u (rfl | hu)
        · exact hx
        · exact fun hin => h2 u hu (List.mem_cons_of_mem _ hin)

theorem confOf_wf (c : Cluster) : (confOf c).WF :=
  ⟨(nodup_dedupUps _ _).1, by simp [confOf]⟩

/-- OSS, no faults: NGINX holds the servers of the configuration last generated -/
def OssHeld (st : PState) : Prop := ∀ k, st.h.latest = some k → st.h.ngx.api = loadOss k

theorem ossHeld_runBatch {st : PState} (h : OssHeld st) (evs : List Ev) (keepAll : Bool) :
    OssHeld (runBatch false keepAll st evs).1 := by
  unfold runBatch
  cases hp : (captureAll keepAll st.cluster st.proc evs).2.pending with
  | none => simp only [hp]; exact h
  | endpoints =>
    simp only [hp]
    intro k hk
    simp [stepH, applyOp_oss, Faults.noReload, Faults.none] at hk ⊢
    rw [hk]
  | cluster =>
    simp only [hp]
    intro k hk
    simp [stepH, applyOp_oss, Faults.noReload, Faults.none] at hk ⊢
    rw [hk]

theorem ossHeld_finalState : ∀ (bs : List (List Ev)) {st : PState}, OssHeld st → OssHeld (finalState false true st bs)
  | [], _, h => h
  | b :: bs, _, h => by simp only [finalState]; exact ossHeld_finalState bs (ossHeld_runBatch h b true)

theorem ossHeld_runHistory : ∀ (bs : List (List Ev)) {st : PState}, OssHeld st →
    ∀ r ∈ runHistory false true st bs, OssHeld r.1
  | [], _, _, r, hr => by simp [runHistory] at hr
  | b :: bs, st, h, r, hr => by
    simp only [runHistory, List.mem_cons] at hr
    rcases hr with rfl | hr
    · exact ossHeld_runBatch h b true
    · exact ossHeld_runHistory bs (ossHeld_runBatch h b true) r hr

theorem getKV_delKV_self (m : List (SKey × Slice)) (k : SKey) : getKV (delKV m k) k = none := by
  apply getKV_none_iff.mpr
  intro kv hkv
  have := (List.mem_filter.mp hkv).2
  intro e; simp [e] at this

end NGF.Resolver
