/-
C18 helper lemmas: `arrange` is a permutation-like reordering, id names are injective,
`NamespacedName.String()` is injective on slash-free namespaces, shape of the prepared args.
-/
import NGF.Model.Provisioner

namespace NGF.Prov

/-! ### arrange -/

theorem mem_arrange (order cands : List Key) (k : Key) : k ∈ arrange order cands ↔ k ∈ cands := by
  induction order generalizing cands with
  | nil => simp [arrange]
  | cons a t ih =>
    simp only [arrange]
    split
    · next h =>
      simp only [List.mem_cons, ih, List.mem_filter, bne_iff_ne, ne_eq]
      constructor
      · rintro (rfl | ⟨h', _⟩)
        · exact h
        · exact h'
      · intro h'
        by_cases e : k = a
        · exact Or.inl e
        · exact Or.inr ⟨h', e⟩
    · exact ih cands

theorem nodup_arrange (order cands : List Key) (h : cands.Nodup) : (arrange order cands).Nodup := by
  induction order generalizing cands with
  | nil => simpa [arrange]
  | cons a t ih =>
    simp only [arrange]
    split
    · refine List.nodup_cons.mpr ⟨?_, ih _ (h.sublist List.filter_sublist)⟩
      simp [mem_arrange]
    · exact ih cands h

/-- every order Go can pick is expressible: a permutation of the candidates arranges to itself -/
theorem arrange_self (p cands : List Key) (hp : p.Nodup) (hm : ∀ k, k ∈ p ↔ k ∈ cands) (hc : cands.Nodup) :
    arrange p cands = p := by
  induction p generalizing cands with
  | nil =>
    cases cands with
    | nil => rfl
    | cons c _ => exact absurd ((hm c).mpr (by simp)) (by simp)
  | cons a t ih =>
    have ha : a ∈ cands := (hm a).mp (by simp)
    simp only [arrange, ha, if_true]
    congr 1
    have hat := (List.nodup_cons.mp hp)
    apply ih _ hat.2
    · intro k
      simp only [List.mem_filter, bne_iff_ne, ne_eq]
      constructor
      · intro hk
        exact ⟨(hm k).mp (List.mem_cons_of_mem _ hk), fun e => hat.1 (e ▸ hk)⟩
      · rintro ⟨hk, hne⟩
        rcases List.mem_cons.mp ((hm k).mpr hk) with e | e
        · exact absurd e hne
        · exact e
    · exact hc.sublist List.filter_sublist

/-! ### names -/

theorem toDigits_inj {m n : Nat} (h : Nat.toDigits 10 m = Nat.toDigits 10 n) : m = n := by
  have := congrArg (fun l => Nat.ofDigitChars 10 l 0) h
  simpa [Nat.ofDigitChars_ten_toDigits] using this

theorem idName_inj {m n : Nat} (h : idName m = idName n) : m = n :=
  toDigits_inj (List.append_cancel_left h)

theorem gwString_inj {k k' : Key} (h1 : '/' ∉ k.ns) (h2 : '/' ∉ k'.ns) (h : gwString k = gwString k') : k = k' := by
  obtain ⟨a, b⟩ := k
  obtain ⟨a', b'⟩ := k'
  simp only [gwString] at h
  simp only at h1 h2
  induction a generalizing a' with
  | nil =>
    cases a' with
    | nil => simp at h; simp [h]
    | cons c t =>
      simp at h
      exact absurd (h.1 ▸ List.mem_cons_self) h2
  | cons c t ih =>
    cases a' with
    | nil =>
      simp at h
      exact absurd (h.1 ▸ List.mem_cons_self) h1
    | cons c' t' =>
      simp only [List.cons_append, List.cons.injEq] at h
      have := ih (fun m => h1 (List.mem_cons_of_mem _ m)) t' (fun m => h2 (List.mem_cons_of_mem _ m)) h.2
      simp only [Key.mk.injEq] at this ⊢
      exact ⟨by rw [h.1, this.1], this.2⟩

/-! ### the loop in closed form -/

theorem foldl_argStep (k : Key) (tmpl acc : List Str) :
    tmpl.foldl (argStep k) acc = acc ++ tmpl.map (rewriteArg k) := by
  induction tmpl generalizing acc with
  | nil => simp
  | cons a t ih =>
    simp only [List.foldl_cons, ih, List.map_cons]
    unfold argStep rewriteArg
    split <;> simp

theorem prepareArgs_eq (tmpl : List Str) (k : Key) (id : Str) :
    prepareArgs tmpl k id = (gwFlag ++ gwString k) :: updFlag :: tmpl.map (rewriteArg k) := by
  simp [prepareArgs, foldl_argStep]

@[simp] theorem prepare_args (tmpl : List Str) (i : Nat) (k : Key) :
    (prepare tmpl i k).args = (gwFlag ++ gwString k) :: updFlag :: tmpl.map (rewriteArg k) := by
  simp [prepare, prepareArgs_eq]

/-! ### prepared args -/

theorem gwFlag_not_prefix_lock (x : Str) : (gwFlag.isPrefixOf (lockFlag ++ x)) = false := by
  simp [gwFlag, lockFlag, lockNeedle, List.isPrefixOf]

theorem gwFlag_not_prefix_upd : gwFlag.isPrefixOf updFlag = false := by decide

/-- the args of the static manifest do not already carry a `--gateway=` flag -/
def TmplOK (tmpl : List Str) : Prop := ∀ a ∈ tmpl, gwFlag.isPrefixOf a = false

instance (tmpl : List Str) : Decidable (TmplOK tmpl) := by unfold TmplOK; infer_instance

theorem tmplOK_of_all {tmpl : List Str} (h : tmpl.all (fun a => !gwFlag.isPrefixOf a) = true) : TmplOK tmpl := by
  intro a ha
  have := List.all_eq_true.mp h a ha
  simpa using this

theorem gwFlag_prefix_mem_prepare {tmpl : List Str} (ht : TmplOK tmpl) (i : Nat) (k : Key) (a : Str)
    (ha : a ∈ (prepare tmpl i k).args) (hp : gwFlag.isPrefixOf a = true) : a = gwFlag ++ gwString k := by
  simp only [prepare_args, List.mem_cons, List.mem_map] at ha
  rcases ha with rfl | rfl | ⟨b, hb, rfl⟩
  · rfl
  · rw [gwFlag_not_prefix_upd] at hp; cases hp
  · simp only [rewriteArg] at hp
    split at hp
    · rw [gwFlag_not_prefix_lock] at hp; cases hp
    · rw [ht b hb] at hp; cases hp

theorem gwFlag_mem_prepare (tmpl : List Str) (i : Nat) (k : Key) :
    gwFlag ++ gwString k ∈ (prepare tmpl i k).args := by simp

theorem updFlag_mem_prepare (tmpl : List Str) (i : Nat) (k : Key) :
    updFlag ∈ (prepare tmpl i k).args := by simp

end NGF.Prov
