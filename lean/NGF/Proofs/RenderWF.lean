/-
`wfDirs (render c) (matchKeysOf c) = []` for every `GoodConf c` (assembly of RenderWF1 / RenderWF2). Core Lean only.
-/
import NGF.Proofs.RenderWF2

namespace NGF.Render
open NGF.Pipeline NGF.Nginx

theorem serverIssues_noloc (mk : List (List Char × List (List Char))) (vars : List (List Char)) {d : Dir}
    (h : blocksNamed "location" (body d) = []) : serverIssues mk vars d = [] := by
  simp [serverIssues, h, dupIssue, firstDup, keyIssues, keysUsed]

theorem locs_default (p : Nat) : blocksNamed "location" (body (renderDefault p)) = [] := rfl

theorem locs_tail {d : Dir} (h : d ∈ tailServers) : blocksNamed "location" (body d) = [] := by
  simp only [tailServers, List.mem_cons, List.mem_nil_iff, or_false] at h
  rcases h with rfl | rfl <;> rfl

theorem serverIssues_server {c : ConfR} (h : GoodConf c) {sv : RServer} (hsv : sv ∈ c.servers) :
    serverIssues (matchKeysOf c) ((splitDirs c).map splitVar) (renderServer sv) = [] := by
  unfold serverIssues
  simp only [locs_of_renderServer]
  rw [dupIssue_eq_nil _ _ (serverKeys_nodup (h.servers sv hsv)), keyIssues_server h hsv, List.nil_append, List.nil_append,
    List.flatMap_eq_nil_iff]
  intro l hl
  exact passIssues_server h hsv hl

/-- the small structural judge finds nothing in what a good configuration renders -/
theorem wf_of_good {c : ConfR} (h : GoodConf c) : wfDirs (render c) (matchKeysOf c) = [] := by
  unfold wfDirs
  simp only [servers_of_render, splits_of_render]
  rw [dupIssue_eq_nil _ _ (pairs_nodup h), dupIssue_eq_nil _ _ (defaults_nodup h), dupIssue_eq_nil _ _ (splitVars_nodup h)]
  rw [listenIssues_servers h]
  simp only [List.nil_append, List.append_nil, List.append_eq_nil_iff, List.flatMap_eq_nil_iff]
  refine ⟨⟨?_, ?_⟩, ?_⟩
  · intro sc hsc
    rw [lexIssue_splitBlock h hsc]; rfl
  · intro sc hsc
    obtain ⟨g, _, rfl⟩ := List.mem_map.mp hsc
    exact splitIssues_splitBlock g
  · intro d hd
    rcases List.mem_append.mp hd with hd | hd
    · rcases mem_serverDirs.mp hd with ⟨p, _, rfl⟩ | ⟨sv, hsv, rfl⟩
      · exact serverIssues_noloc _ _ (locs_default _)
      · exact serverIssues_server h hsv
    · exact serverIssues_noloc _ _ (locs_tail hd)

end NGF.Render
