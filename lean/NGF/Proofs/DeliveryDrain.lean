import NGF.Proofs.Delivery
namespace NGF.Delivery
open NGF.Loop

theorem runCount_fst (d : Bool) : ∀ (as : List SAct) (s : Sys) (n m : Nat),
    (runCount d s n as).1 = (runCount d s m as).1
  | [], _, _, _ => rfl
  | a :: as, s, n, m => by
    simp only [runCount]
    split
    · exact runCount_fst d as _ _ _
    · exact runCount_fst d as _ _ _

theorem run_nil (d : Bool) (s : Sys) : run d s [] = s := rfl

theorem run_cons (d : Bool) (s : Sys) (a : SAct) (as : List SAct) :
    run d s (a :: as) = if enabled d s a then run d (step s a) as else run d s as := by
  simp only [run, runCount]
  split
  · rfl
  · exact runCount_fst d as s 1 0

theorem run_append (d : Bool) : ∀ (as bs : List SAct) (s : Sys),
    run d s (as ++ bs) = run d (run d s as) bs
  | [], _, _ => rfl
  | a :: as, bs, s => by
    rw [List.cons_append, run_cons, run_cons]
    split
    · exact run_append d as bs _
    · exact run_append d as bs _

theorem runOps_is_run : ∀ (ops : List DOp) (s : Sys) (n : Nat), ∃ as, (runOps s n ops).1 = run false s as
  | [], s, _ => ⟨[], rfl⟩
  | .act a :: t, s, n => by
    simp only [runOps]
    split
    · next he =>
      obtain ⟨as, h⟩ := runOps_is_run t (step s a) n
      exact ⟨a :: as, by rw [run_cons, if_pos he]; exact h⟩
    · exact runOps_is_run t s (n + 1)
  | .deliverEv i e :: t, s, n => by
    simp only [runOps]
    split
    · next he =>
      simp only [Bool.and_eq_true] at he
      obtain ⟨as, h⟩ := runOps_is_run t (step s (.deliver i)) n
      exact ⟨.deliver i :: as, by rw [run_cons, if_pos he.1]; exact h⟩
    · exact runOps_is_run t s (n + 1)

/-- work left for one worker -/
def Rec.mu (r : Rec) : Nat := 2 * r.todo.length + (if r.offering.isSome then 1 else 0)

def Live (s : Sys) : Prop := s.ctxDone = false ∧ s.loop.phase = .select

theorem quiet_of_mu_zero {r : Rec} (h : r.mu = 0) : r.quiet = true := by
  unfold Rec.mu at h
  cases ho : r.offering with
  | some e => simp [ho] at h
  | none =>
    cases ht : r.todo with
    | nil => simp [Rec.quiet, ho, ht]
    | cons x t => simp [ho, ht] at h

/-- What one worker step leaves untouched. -/
structure Frame (s s' : Sys) (k : Nat) : Prop where
  live  : Live s → Live s'
  len   : s'.recs.length = s.recs.length
  other : ∀ j, j ≠ k → s'.recs[j]? = s.recs[j]?

theorem Frame.refl (s : Sys) (k : Nat) : Frame s s k := ⟨id, rfl, fun _ _ => rfl⟩

theorem Frame.trans {s s1 s2 : Sys} {k : Nat} (a : Frame s s1 k) (b : Frame s1 s2 k) : Frame s s2 k :=
  ⟨fun h => b.live (a.live h), b.len.trans a.len, fun j hj => (b.other j hj).trans (a.other j hj)⟩

theorem begin_frame (s : Sys) (k : Nat) (r : Rec) (hk : s.recs[k]? = some r) :
    Frame s (step s (.begin k)) k ∧ (step s (.begin k)).recs[k]? = some r.begin := by
  refine ⟨⟨fun h => h, by simp [step, updAt_length], fun j hj => by simp [step, getElem?_updAt_ne _ _ hj]⟩, ?_⟩
  simp [step, getElem?_updAt_eq, hk]

theorem deliver_frame (s : Sys) (k : Nat) (r : Rec) (e : Ev) (hk : s.recs[k]? = some r)
    (ho : r.offering = some e) :
    Frame s (step s (.deliver k)) k ∧ (step s (.deliver k)).recs[k]? = some (r.finish true) := by
  have hoff : s.offering k = some e := by simp [Sys.offering, hk, ho]
  have hs : step s (.deliver k) =
      { s with loop := Loop.step s.loop (.recv e), recs := updAt s.recs k (·.finish true),
               seenBy := s.seenBy ++ [(k, e)] } := by simp [step, hoff]
  rw [hs]
  refine ⟨⟨fun h => ⟨h.1, by simpa [phase_recv] using h.2⟩, by simp [updAt_length],
    fun j hj => by simp [getElem?_updAt_ne _ _ hj]⟩, ?_⟩
  simp [getElem?_updAt_eq, hk]

theorem mu_finish (r : Rec) (e : Ev) (ho : r.offering = some e) : (r.finish true).mu = r.mu - 1 := by
  simp [Rec.mu, Rec.finish, ho]

/-- One `[begin k, deliver k]` pair while the context is live. -/
theorem pair_progress (s : Sys) (k : Nat) (hl : Live s) :
    Frame s (run false s [.begin k, .deliver k]) k ∧
    (∀ r, s.recs[k]? = some r →
      ∃ r', (run false s [.begin k, .deliver k]).recs[k]? = some r' ∧ r'.mu ≤ r.mu - 1) := by
  cases hk : s.recs[k]? with
  | none =>
    have : run false s [.begin k, .deliver k] = s := by
      simp [run_cons, run_nil, enabled, hk, Sys.offering]
    rw [this]
    exact ⟨Frame.refl s k, fun r hr => by cases hr⟩
  | some r =>
    cases ho : r.offering with
    | some e =>
      have hoff : s.offering k = some e := by simp [Sys.offering, hk, ho]
      have : run false s [.begin k, .deliver k] = step s (.deliver k) := by
        simp [run_cons, run_nil, enabled, hk, ho, hoff, hl.2]
      rw [this]
      obtain ⟨hf, hr⟩ := deliver_frame s k r e hk ho
      exact ⟨hf, fun r0 hr0 => by cases hr0; exact ⟨_, hr, by rw [mu_finish r e ho]; exact Nat.le_refl _⟩⟩
    | none =>
      have hoff : s.offering k = none := by simp [Sys.offering, hk, ho]
      cases ht : r.todo with
      | nil =>
        have : run false s [.begin k, .deliver k] = s := by
          simp [run_cons, run_nil, enabled, hk, ho, ht, hoff]
        rw [this]
        exact ⟨Frame.refl s k, fun r0 hr0 => ⟨r0, by cases hr0; exact hk, by cases hr0; simp [Rec.mu, ho, ht]⟩⟩
      | cons x t =>
        have hb : enabled false s (.begin k) = true := by simp [enabled, hk, ho, ht]
        obtain ⟨hf1, hr1⟩ := begin_frame s k r hk
        generalize hs1 : step s (.begin k) = s1 at hf1 hr1
        have hrun1 : run false s [.begin k, .deliver k] = run false s1 [.deliver k] := by
          rw [run_cons, if_pos hb, hs1]
        rw [hrun1]
        cases hpre : x.pre with
        | offer e =>
          have hrb : r.begin.offering = some e := by simp [Rec.begin, ht, hpre]
          have hmu : r.begin.mu ≤ r.mu := by simp [Rec.mu, Rec.begin, ht, hpre, ho]; omega
          have hoff1 : s1.offering k = some e := by simp [Sys.offering, hr1, hrb]
          have hen : enabled false s1 (.deliver k) = true := by
            simp [enabled, hoff1]; exact (hf1.live hl).2
          rw [run_cons, if_pos hen, run_nil]
          obtain ⟨hf2, hr2⟩ := deliver_frame s1 k r.begin e hr1 hrb
          exact ⟨hf1.trans hf2, fun r0 hr0 => by
            cases hr0; exact ⟨_, hr2, by rw [mu_finish _ e hrb]; omega⟩⟩
        | skip =>
          have hrb : r.begin.offering = none := by simp [Rec.begin, ht, hpre, ho]
          have hmu : r.begin.mu ≤ r.mu - 1 := by simp [Rec.mu, Rec.begin, ht, hpre, ho]; omega
          have hoff1 : s1.offering k = none := by simp [Sys.offering, hr1, hrb]
          have hen : enabled false s1 (.deliver k) = false := by simp [enabled, hoff1]
          rw [run_cons, hen]
          exact ⟨hf1, fun r0 hr0 => by cases hr0; exact ⟨_, hr1, hmu⟩⟩
        | fail =>
          have hrb : r.begin.offering = none := by simp [Rec.begin, ht, hpre, ho]
          have hmu : r.begin.mu ≤ r.mu - 1 := by simp [Rec.mu, Rec.begin, ht, hpre, ho]; omega
          have hoff1 : s1.offering k = none := by simp [Sys.offering, hr1, hrb]
          have hen : enabled false s1 (.deliver k) = false := by simp [enabled, hoff1]
          rw [run_cons, hen]
          exact ⟨hf1, fun r0 hr0 => by cases hr0; exact ⟨_, hr1, hmu⟩⟩

/-- After `drainRound n` every worker below `n` has made progress and the others are untouched. -/
theorem round_progress : ∀ (n : Nat) (s : Sys), Live s →
    Live (run false s (drainRound n)) ∧ (run false s (drainRound n)).recs.length = s.recs.length ∧
    (∀ j, n ≤ j → (run false s (drainRound n)).recs[j]? = s.recs[j]?) ∧
    (∀ j r, j < n → s.recs[j]? = some r →
      ∃ r', (run false s (drainRound n)).recs[j]? = some r' ∧ r'.mu ≤ r.mu - 1)
  | 0, s, hl => ⟨hl, rfl, fun _ _ => rfl, fun _ _ h => absurd h (Nat.not_lt_zero _)⟩
  | n + 1, s, hl => by
    obtain ⟨hl1, hlen1, hge1, hlt1⟩ := round_progress n s hl
    have hrun : run false s (drainRound (n + 1)) =
        run false (run false s (drainRound n)) [.begin n, .deliver n] := by
      simp only [drainRound]; rw [run_append]
    rw [hrun]
    generalize run false s (drainRound n) = s1 at hl1 hlen1 hge1 hlt1
    obtain ⟨hf, hp⟩ := pair_progress s1 n hl1
    refine ⟨hf.live hl1, hf.len.trans hlen1, ?_, ?_⟩
    · intro j hj
      rw [hf.other j (by omega), hge1 j (by omega)]
    · intro j r hj hr
      by_cases hjn : j = n
      · subst hjn
        exact hp r (by rw [hge1 j (Nat.le_refl _)]; exact hr)
      · obtain ⟨r1, hr1, hm1⟩ := hlt1 j r (by omega) hr
        exact ⟨r1, by rw [hf.other j hjn]; exact hr1, hm1⟩

theorem drainSchedule_succ (w m : Nat) : drainSchedule w (m + 1) = drainRound w ++ drainSchedule w m := by
  simp [drainSchedule, List.replicate_succ]

/-- `m` rounds drain every worker whose remaining work is at most `m`. -/
theorem drain_quiet : ∀ (m : Nat) (s : Sys), Live s → (∀ (j : Nat) (r : Rec), s.recs[j]? = some r → r.mu ≤ m) →
    Live (run false s (drainSchedule s.recs.length m)) ∧
    (run false s (drainSchedule s.recs.length m)).quiet = true
  | 0, s, hl, hm => by
    refine ⟨hl, ?_⟩
    show s.recs.all Rec.quiet = true
    rw [List.all_eq_true]
    intro r hr
    obtain ⟨j, hj⟩ := List.mem_iff_getElem?.mp hr
    exact quiet_of_mu_zero (Nat.le_zero.mp (hm j r hj))
  | m + 1, s, hl, hm => by
    rw [drainSchedule_succ, run_append]
    obtain ⟨hl1, hlen1, _, hlt1⟩ := round_progress s.recs.length s hl
    generalize run false s (drainRound s.recs.length) = s1 at hl1 hlen1 hlt1
    rw [← hlen1]
    apply drain_quiet m s1 hl1
    intro j r1 hr1
    have hj : j < s.recs.length := by
      rw [← hlen1]; exact (List.getElem?_eq_some_iff.mp hr1).1
    obtain ⟨r', hr', hmu⟩ := hlt1 j s.recs[j] hj (List.getElem?_eq_getElem hj)
    rw [hr1] at hr'; cases hr'
    have := hm j s.recs[j] (List.getElem?_eq_getElem hj)
    omega

/-- an upper bound of the work left in a state -/
def Sys.work (s : Sys) : Nat := (s.recs.map Rec.mu).foldl max 0

theorem le_foldl_max (l : List Nat) (a x : Nat) (h : x ≤ a ∨ x ∈ l) : x ≤ l.foldl max a := by
  induction l generalizing a with
  | nil => rcases h with h | h; exact h; cases h
  | cons y t ih =>
    simp only [List.foldl_cons]
    apply ih
    rcases h with h | h
    · exact .inl (by omega)
    · rcases List.mem_cons.mp h with h | h
      · exact .inl (by omega)
      · exact .inr h

theorem mu_le_work (s : Sys) (j : Nat) (r : Rec) (h : s.recs[j]? = some r) : r.mu ≤ s.work :=
  le_foldl_max _ 0 _ (.inr (List.mem_map.mpr ⟨r, List.mem_iff_getElem?.mpr ⟨j, h⟩, rfl⟩))

end NGF.Delivery
