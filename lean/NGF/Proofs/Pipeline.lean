/-
Helper lemmas for the pipeline model of C02 (Model/Pipeline.lean).
-/
import NGF.Model.Pipeline
import NGF.Proofs.Hostname
import NGF.Proofs.NginxEval

namespace NGF.Pipeline
open NGF.Hostname (hmatch moreSpecific accepted wildcardMatch)

/-! ### stage 1: attachment ⇒ accepted hostnames = intersection -/

theorem covers_eq_hostname (p q : Str) : covers p q = NGF.Hostname.covers p q := rfl

/-- a present, non-wildcard hostname stands for exactly itself -/
theorem covers_exact {p q : Str} (hne : p.isEmpty = false) (hw : NGF.Hostname.isWild p = false)
    (h : NGF.Hostname.covers p q = true) : p = q := by
  simpa [NGF.Hostname.covers, hne, hw] using h

theorem covers_wild {t q : Str} (h : NGF.Hostname.covers ('*' :: '.' :: t) q = true) :
    q = '*' :: '.' :: t ∨ ('.' :: t) <:+ q := by
  simp only [NGF.Hostname.covers, List.isEmpty_cons, Bool.false_or, Bool.or_eq_true, beq_iff_eq,
    NGF.Hostname.isWild_cons, NGF.Hostname.wildTail_cons, Bool.true_and] at h
  rcases h with h | h
  · exact Or.inl h.symm
  · exact Or.inr (NGF.Hostname.isSuffixOf_iff.mp h)

/-- two hostnames that stand for a common CONCRETE request host match each other (`graph.match`) -/
theorem covers_both_hmatch {l r q : Str} (hr : r ≠ []) (hq : NGF.Hostname.isWild q = false)
    (hl : NGF.Hostname.covers l q = true) (hrq : NGF.Hostname.covers r q = true) : hmatch l r = true := by
  unfold hmatch
  cases hle : l.isEmpty with
  | true => simp
  | false =>
    simp only [Bool.false_eq_true, ↓reduceIte]
    by_cases e : r = l
    · simp [e]
    · have b : (r == l) = false := by simpa using e
      simp only [b, Bool.false_eq_true, ↓reduceIte]
      have hre : r.isEmpty = false := by cases r <;> simp_all
      cases hwl : NGF.Hostname.isWild l with
      | false =>
        have := covers_exact hle hwl hl; subst this
        cases hwr : NGF.Hostname.isWild r with
        | false => have := covers_exact hre hwr hrq; exact absurd this e
        | true =>
          obtain ⟨t, rfl⟩ := NGF.Hostname.isWild_eq hwr
          rcases covers_wild hrq with h | h
          · rw [h] at hq; simp [NGF.Hostname.isWild] at hq
          · have : wildcardMatch ('*' :: '.' :: t) l = true := by
              simp [wildcardMatch, NGF.Hostname.isWild_cons, NGF.Hostname.wildTail_cons, NGF.Hostname.isSuffixOf_iff.mpr h]
            simp [this]
      | true =>
        obtain ⟨tl, rfl⟩ := NGF.Hostname.isWild_eq hwl
        rcases covers_wild hl with h | hsl
        · rw [h] at hq; simp [NGF.Hostname.isWild] at hq
        cases hwr : NGF.Hostname.isWild r with
        | false =>
          have := covers_exact hre hwr hrq; subst this
          simp [wildcardMatch, NGF.Hostname.isWild_cons, NGF.Hostname.wildTail_cons, NGF.Hostname.isSuffixOf_iff.mpr hsl]
        | true =>
          obtain ⟨tr, rfl⟩ := NGF.Hostname.isWild_eq hwr
          rcases covers_wild hrq with h | hsr
          · rw [h] at hq; simp [NGF.Hostname.isWild] at hq
          by_cases hlen : ('.' :: tl).length ≤ ('.' :: tr).length
          · have h1 : ('.' :: tl) <:+ ('.' :: tr) := List.suffix_of_suffix_length_le hsl hsr hlen
            have h2 : ('.' :: tl) <:+ ('*' :: '.' :: tr) := h1.trans (List.suffix_cons _ _)
            simp [wildcardMatch, NGF.Hostname.isWild_cons, NGF.Hostname.wildTail_cons, NGF.Hostname.isSuffixOf_iff.mpr h2]
          · have h1 : ('.' :: tr) <:+ ('.' :: tl) := List.suffix_of_suffix_length_le hsr hsl (by omega)
            have h2 : ('.' :: tr) <:+ ('*' :: '.' :: tl) := h1.trans (List.suffix_cons _ _)
            simp [wildcardMatch, NGF.Hostname.isWild_cons, NGF.Hostname.wildTail_cons, NGF.Hostname.isSuffixOf_iff.mpr h2]

/-- `GetMoreSpecificHostname` of a matching pair is one of the two (also for an absent listener hostname) -/
theorem moreSpecific_mem {l r : Str} (hm : hmatch l r = true) : moreSpecific l r = l ∨ moreSpecific l r = r := by
  by_cases hl : l = []
  · subst hl
    by_cases hr : r = []
    · subst hr; simp [moreSpecific]
    · right
      have : (([] : Str) == r) = false := by cases r <;> simp_all
      simp [moreSpecific, this]
  · -- Props.moreSpecific_is_one_of, restated here to avoid a cyclic import
    unfold moreSpecific
    by_cases e : l = r
    · subst e; simp
    · have b1 : (l == r) = false := by simpa using e
      have ea : l.isEmpty = false := by cases l <;> simp_all
      simp only [b1, ea, Bool.false_eq_true, ↓reduceIte]
      by_cases eb : r.isEmpty = true
      · simp [eb]
      · simp only [eb, ↓reduceIte]
        cases hwa : NGF.Hostname.isWild l with
        | false =>
          cases hwb : NGF.Hostname.isWild r with
          | false =>
            unfold hmatch at hm
            have b2 : (r == l) = false := by simpa using (fun x : r = l => e x.symm)
            simp [ea, b2, wildcardMatch, hwa, hwb] at hm
          | true => left; simp
        | true =>
          cases hwb : NGF.Hostname.isWild r with
          | false => right; simp
          | true =>
            by_cases hl' : NGF.Hostname.labels l > NGF.Hostname.labels r
            · left; simp [hl']
            · right; simp [hl']

/-- Attachment stage: for a concrete request host `q`, some accepted hostname of (listener, route hostnames) stands for
`q` exactly when the listener hostname and one of the route hostnames both do — the accepted hostnames ARE the
intersection. -/
theorem accepted_iff_intersection {l : Str} {rs : List Str} (hrs : rs ≠ []) (hne : ∀ r ∈ rs, r ≠ [])
    {q : Str} (hq : NGF.Hostname.isWild q = false) :
    (∃ h ∈ accepted l rs, NGF.Hostname.covers h q = true) ↔
    (NGF.Hostname.covers l q = true ∧ ∃ r ∈ rs, NGF.Hostname.covers r q = true) := by
  constructor
  · rintro ⟨h, hh, hc⟩
    unfold accepted at hh
    have : rs.isEmpty = false := by cases rs <;> simp_all
    simp only [this, Bool.false_eq_true, ↓reduceIte, List.mem_filterMap] at hh
    obtain ⟨r, hr, hx⟩ := hh
    by_cases hm : hmatch l r = true
    · simp only [hm, ↓reduceIte, Option.some.injEq] at hx
      subst hx
      have := NGF.Hostname.moreSpecific_covers hm q hc
      exact ⟨this.1, r, hr, this.2⟩
    · simp [hm] at hx
  · rintro ⟨hl, r, hr, hrc⟩
    have hm := covers_both_hmatch (hne r hr) hq hl hrc
    refine ⟨moreSpecific l r, ?_, ?_⟩
    · unfold accepted
      have : rs.isEmpty = false := by cases rs <;> simp_all
      simp only [this, Bool.false_eq_true, ↓reduceIte, List.mem_filterMap]
      exact ⟨r, hr, by simp [hm]⟩
    · rcases moreSpecific_mem hm with e | e <;> rw [e] <;> assumption

/-! ### stage 2: server names ⇒ NGINX picks the most specific one that stands for the host -/

open NGF.NginxEval in
/-- does a generated server name stand for the request host? (`~^` = every host) -/
def nameCovers (n q : Str) : Bool := n == catchAll || n == q || wildCovers n q

open NGF.NginxEval in
/-- specificity of a server name: exact, then wildcards by length, then the catch-all -/
def nameSpec (n : Str) : Nat := if n == catchAll then 0 else if isWildName n then 1 + n.length else 100000 + n.length

open NGF.NginxEval in
/-- Server stage: NGINX's choice stands for the host and no other server name that does is more specific. -/
theorem selectName_most_specific {names : List Str} {q n : Str}
    (hq : isWildName q = false ∧ q ≠ catchAll) (hlen : q.length < 100000)
    (h : selectName names q = some n) :
    n ∈ names ∧ nameCovers n q = true ∧ ∀ m ∈ names, nameCovers m q = true → nameSpec m ≤ nameSpec n := by
  by_cases hin : q ∈ names
  · -- exact name
    have : selectName names q = some q := by
      unfold selectName
      have h2 : (q != catchAll) = true := by simpa using hq.2
      simp [hin, hq.1, h2]
    rw [this] at h; simp only [Option.some.injEq] at h; subst h
    refine ⟨hin, by simp [nameCovers], ?_⟩
    intro m _ hm
    have hqc : (q == catchAll) = false := by simpa using hq.2
    simp only [nameSpec, hqc, hq.1, Bool.false_eq_true, ↓reduceIte]
    by_cases hmc : (m == catchAll) = true
    · simp [hmc]
    · simp only [hmc, Bool.false_eq_true, ↓reduceIte]
      by_cases hmw : isWildName m = true
      · -- a wildcard covering q is shorter than q + 1 … and anyway below 100000
        simp only [hmw, ↓reduceIte]
        have : wildCovers m q = true := by
          simp only [nameCovers, hmc, Bool.false_or, Bool.or_eq_true, beq_iff_eq] at hm
          rcases hm with e | e
          · subst e; rw [hq.1] at hmw; cases hmw
          · exact e
        simp only [wildCovers, Bool.and_eq_true] at this
        have hs := (List.isSuffixOf_iff_suffix.mp this.2).length_le
        simp at hs; omega
      · simp only [hmw, Bool.false_eq_true, ↓reduceIte]
        simp only [nameCovers, hmc, Bool.false_or, Bool.or_eq_true, beq_iff_eq, wildCovers, hmw, Bool.false_and,
          Bool.false_eq_true, or_false] at hm
        subst hm; omega
  · unfold selectName at h
    have hc : names.contains q = false := by simpa using hin
    simp only [hc, Bool.false_and, Bool.false_eq_true, ↓reduceIte] at h
    cases hb : bestWild q names with
    | some w =>
      rw [hb] at h; simp only [Option.some.injEq] at h; subst h
      obtain ⟨hm, hcov, hmax⟩ := bestWild_some hb
      refine ⟨hm, by simp [nameCovers, hcov], ?_⟩
      intro m hmem hmc
      have hww : isWildName w = true := by simp only [wildCovers, Bool.and_eq_true] at hcov; exact hcov.1
      have hwc : (w == catchAll) = false := by
        cases hh : (w == catchAll) with
        | false => rfl
        | true => have : w = catchAll := by simpa using hh
                  subst this; simp [isWildName, catchAll] at hww
      simp only [nameSpec, hwc, hww, Bool.false_eq_true, ↓reduceIte]
      by_cases hmcat : (m == catchAll) = true
      · simp [hmcat]
      · simp only [hmcat, Bool.false_eq_true, ↓reduceIte]
        simp only [nameCovers, hmcat, Bool.false_or, Bool.or_eq_true, beq_iff_eq] at hmc
        rcases hmc with e | e
        · subst e; exact absurd hmem hin
        · have hmw : isWildName m = true := by simp only [wildCovers, Bool.and_eq_true] at e; exact e.1
          simp only [hmw, ↓reduceIte]
          have := hmax m hmem e; omega
    | none =>
      rw [hb] at h
      by_cases hca : catchAll ∈ names
      · simp [hca] at h; subst h
        refine ⟨hca, by simp [nameCovers], ?_⟩
        intro m hmem hmc
        by_cases hmcat : (m == catchAll) = true
        · simp [nameSpec, hmcat]
        · simp only [nameCovers, hmcat, Bool.false_or, Bool.or_eq_true, beq_iff_eq] at hmc
          rcases hmc with e | e
          · subst e; exact absurd hmem hin
          · have := bestWild_none hb m hmem; rw [this] at e; cases e
      · simp [hca] at h

open NGF.NginxEval in
/-- … and the default server answers only when no generated name stands for the host -/
theorem selectName_none {names : List Str} {q : Str} (hq : isWildName q = false ∧ q ≠ catchAll)
    (h : selectName names q = none) : ∀ m ∈ names, nameCovers m q = false := by
  intro m hm
  unfold selectName at h
  have h2 : (q != catchAll) = true := by simpa using hq.2
  by_cases hin : q ∈ names
  · simp [hin, hq.1, h2] at h
  · have hc : names.contains q = false := by simpa using hin
    simp only [hc, Bool.false_and, Bool.false_eq_true, ↓reduceIte] at h
    cases hb : bestWild q names with
    | some w => rw [hb] at h; cases h
    | none =>
      rw [hb] at h
      by_cases hca : catchAll ∈ names
      · simp [hca] at h
      · have h1 : (m == catchAll) = false := by
          cases hh : (m == catchAll) with
          | false => rfl
          | true => have : m = catchAll := by simpa using hh
                    subst this; exact absurd hm hca
        have h3 : (m == q) = false := by
          cases hh : (m == q) with
          | false => rfl
          | true => have : m = q := by simpa using hh
                    subst this; exact absurd hm hin
        simp [nameCovers, h1, h3, bestWild_none hb m hm]

/-! ### non-interference on the model -/

theorem flatMap_congr_mem {α β} {l : List α} {f g : α → List β} (h : ∀ a ∈ l, f a = g a) :
    l.flatMap f = l.flatMap g := by
  induction l with
  | nil => rfl
  | cons x xs ih =>
    simp only [List.flatMap_cons]
    rw [h x List.mem_cons_self, ih (fun a ha => h a (List.mem_cons_of_mem _ ha))]

/-- a route that is invalid, or attaches to no listener of the served Gateway, owns nothing -/
def inert (g : Gateway) (x : Route) : Prop := x.valid = false ∨ ∀ l ∈ g.listeners, acceptedAt g l x = []

theorem entries_insert_inert (g : Gateway) (a b : List Route) (x : Route) (hx : inert g x) :
    entries g (a ++ x :: b) = entries g (a ++ b) := by
  unfold entries
  apply flatMap_congr_mem
  intro l hl
  simp only [List.flatMap_append, List.flatMap_cons]
  have : (if x.valid = true then routeEntries l.port (acceptedAt g l x) x else []) = [] := by
    rcases hx with h | h
    · simp [h]
    · rw [h l hl]; cases x.valid <;> simp [routeEntries]
  rw [this]; simp

theorem hostsOf_insert_inert (g : Gateway) (a b : List Route) (x : Route) (hx : inert g x) :
    hostsOf g (a ++ x :: b) = hostsOf g (a ++ b) := by
  unfold hostsOf
  congr 1
  apply flatMap_congr_mem
  intro l hl
  simp only [List.flatMap_append, List.flatMap_cons]
  have : (if x.valid = true then (acceptedAt g l x).map (fun h => (l.port, h)) else []) = [] := by
    rcases hx with h | h
    · simp [h]
    · rw [h l hl]; cases x.valid <;> simp
  rw [this]; simp

/-- the served Gateway does not depend on the routes -/
theorem winner_routes (s : Scenario) (rs : List Route) : winner { s with routes := rs } = winner s := rfl

/-- Adding (anywhere in the list) a route that is invalid or attaches to no listener of the served Gateway — its
parentRefs name another / an ignored / an unknown Gateway or an unknown section, its namespace is not allowed, or its
hostnames are disjoint from the listeners' — leaves the generated configuration unchanged. -/
theorem gen_insert_route_inert (s : Scenario) (a b : List Route) (x : Route) (hs : s.routes = a ++ b)
    (hx : ∀ g, winner s = some g → inert g x) :
    gen { s with routes := a ++ x :: b } = gen s := by
  unfold gen
  rw [winner_routes]
  cases hw : winner s with
  | none => rfl
  | some g =>
    simp only [hs]
    rw [entries_insert_inert g a b x (hx g hw), hostsOf_insert_inert g a b x (hx g hw)]

/-- sufficient syntactic reasons for `inert` -/
theorem inert_of_not_referring {g : Gateway} {x : Route}
    (h : ∀ p ∈ x.parents, (p.ns == g.ns && p.name == g.name) = false ∨
      ∃ sn, p.sectionName = some sn ∧ ∀ l ∈ g.listeners, (sn == l.name) = false) : inert g x := by
  right
  intro l hl
  have : refersTo g l x = false := by
    unfold refersTo
    rw [List.any_eq_false]
    intro p hp
    rcases h p hp with h1 | ⟨sn, hsn, hno⟩
    · simp [h1]
    · simp [hsn, hno l hl]
  simp [acceptedAt, this]

theorem inert_of_namespace {g : Gateway} {x : Route} (hns : (x.ns == g.ns) = false)
    (hsame : ∀ l ∈ g.listeners, l.fromAll = false) : inert g x := by
  right
  intro l hl
  simp [acceptedAt, nsAllowed, hsame l hl, hns]

/-- a Gateway of another class is never served and changes nothing -/
theorem winner_insert_foreign_gateway (s : Scenario) (a b : List Gateway) (y : Gateway) (hs : s.gateways = a ++ b)
    (hy : (y.cls == s.cls) = false) : winner { s with gateways := a ++ y :: b } = winner s := by
  unfold winner classOurs
  simp only [hs, List.filter_append, List.filter_cons, hy, Bool.false_eq_true, ↓reduceIte]

/-- a Gateway of our class that is younger than the served one (processGateways sorts; here: put first in the list)
is ignored -/
theorem winner_cons_younger_gateway (s : Scenario) (y g : Gateway) (hw : winner s = some g)
    (hy : olderGw g y = true) : winner { s with gateways := y :: s.gateways } = some g := by
  unfold winner classOurs at *
  by_cases hc : (s.classes.any fun c => c.name == s.cls && c.ctlr == s.ctlr) = true
  · simp only [hc, ↓reduceIte] at hw ⊢
    by_cases hyc : (y.cls == s.cls) = true
    · simp only [List.filter_cons, hyc, ↓reduceIte, oldest, hw, hy]
    · simp only [List.filter_cons, hyc, Bool.false_eq_true, ↓reduceIte, hw]
  · simp [hc] at hw

/-- another GatewayClass (of any controller, under another name) changes nothing -/
theorem winner_insert_class (s : Scenario) (c : GwClass) (hc : (c.name == s.cls) = false) :
    winner { s with classes := c :: s.classes } = winner s := by
  unfold winner classOurs
  simp [List.any_cons, hc]

theorem gen_of_winner_eq {s t : Scenario} (hr : t.routes = s.routes) (hw : winner t = winner s) : gen t = gen s := by
  unfold gen; rw [hw, hr]

/-! ### the flagship statement on the easy regions -/

theorem ports_contains (g : Gateway) (p : Nat) :
    ((g.listeners.map (·.port)).eraseDups.contains p) = g.listeners.any (·.port == p) := by
  cases h : g.listeners.any (·.port == p) with
  | true =>
    obtain ⟨l, hl, hp⟩ := List.any_eq_true.mp h
    rw [List.contains_iff_mem, List.mem_eraseDups]
    exact List.mem_map.mpr ⟨l, hl, by simpa using hp⟩
  | false =>
    rw [Bool.eq_false_iff]
    intro hc
    rw [List.contains_iff_mem, List.mem_eraseDups] at hc
    obtain ⟨l, hl, hp⟩ := List.mem_map.mp hc
    have := List.any_eq_false.mp h l hl
    simp [hp] at this

/-- nothing is served (no Gateway of our class, or our class absent): every connection is refused, in the model
configuration and by the specification -/
theorem refines_no_gateway (s : Scenario) (q : Req) (h : winner s = none) :
    nginxEvalConf (gen s) q = routeF s q := by
  simp [nginxEvalConf, gen, routeF, h]

/-- a port no listener of the served Gateway uses is refused on both sides -/
theorem refines_unused_port (s : Scenario) (q : Req) (g : Gateway) (h : winner s = some g)
    (hp : g.listeners.any (·.port == q.port) = false) : nginxEvalConf (gen s) q = routeF s q := by
  have hc := ports_contains g q.port
  rw [hp] at hc
  have h1 : nginxEvalConf (gen s) q = .refused := by
    unfold nginxEvalConf gen
    simp only [h, hc, Bool.not_false, ↓reduceIte]
  have h2 : routeF s q = .refused := by
    unfold routeF
    simp only [h, hp, Bool.not_false, ↓reduceIte]
  rw [h1, h2]

/-- a host that no generated server name stands for is answered by the default server: 404 -/
theorem nginx_uncovered_host_404 (c : Conf) (q : Req) (hq : NGF.NginxEval.isWildName q.host = false ∧ q.host ≠ NGF.NginxEval.catchAll)
    (hlen : q.host.length < 100000) (hport : c.ports.contains q.port = true)
    (hun : ∀ sv ∈ c.servers, sv.port = q.port → nameCovers sv.name q.host = false) :
    nginxEvalConf c q = .status 404 := by
  unfold nginxEvalConf
  simp only [hport, Bool.not_true, Bool.false_eq_true, ↓reduceIte]
  cases hs : NGF.NginxEval.selectName ((c.servers.filter (·.port == q.port)).map (·.name)) q.host with
  | none => rfl
  | some n =>
    have := selectName_most_specific hq hlen hs
    obtain ⟨sv, hsv, rfl⟩ := List.mem_map.mp this.1
    have hm := List.mem_filter.mp hsv
    have := hun sv hm.1 (by simpa using hm.2)
    rw [this] at *; simp_all

/-! ### the uncovered-host region, both sides -/

/-- "some attached valid route's hostnames meet the listener's hostname at the request host" — the specification's
notion of a host somebody owns on a port -/
def owned (g : Gateway) (routes : List Route) (port : Nat) (q : Str) : Prop :=
  ∃ l ∈ g.listeners, l.port = port ∧ ∃ r ∈ routes, r.valid = true ∧ refersTo g l r = true ∧ nsAllowed g l r = true ∧
    NGF.Hostname.covers l.host q = true ∧ (r.hostnames = [] ∨ ∃ rh ∈ r.hostnames, NGF.Hostname.covers rh q = true)

theorem nameCovers_eq {n q : Str} (hn : n ≠ []) (hc : n ≠ NGF.NginxEval.catchAll) :
    nameCovers n q = NGF.Hostname.covers n q := by
  have h1 : (n == NGF.NginxEval.catchAll) = false := by simpa using hc
  have h2 : n.isEmpty = false := by cases n <;> simp_all
  simp [nameCovers, h1, NGF.Hostname.covers, h2, NGF.NginxEval.wildCovers, NGF.NginxEval.isWildName,
    NGF.Hostname.isWild, NGF.Hostname.wildTail]

theorem mem_hostsOf {g : Gateway} {routes : List Route} {p : Nat} {h : Str} (hm : (p, h) ∈ hostsOf g routes) :
    ∃ l ∈ g.listeners, l.port = p ∧ ∃ r ∈ routes, r.valid = true ∧ h ∈ acceptedAt g l r := by
  unfold hostsOf at hm
  rw [List.mem_eraseDups] at hm
  obtain ⟨l, hl, hm⟩ := List.mem_flatMap.mp hm
  obtain ⟨r, hr, hm⟩ := List.mem_flatMap.mp hm
  by_cases hv : r.valid = true
  · simp only [hv, ↓reduceIte, List.mem_map, Prod.mk.injEq] at hm
    obtain ⟨h', hh, hp, rfl⟩ := hm
    exact ⟨l, hl, hp, r, hr, hv, hh⟩
  · simp [hv] at hm

/-- NGINX side: when nobody owns the host on the port, no generated server of the port stands for it -/
theorem no_server_covers_unowned {s : Scenario} {g : Gateway} (hw : winner s = some g) {q : Req}
    (hq : NGF.Hostname.isWild q.host = false)
    (hne : ∀ r ∈ s.routes, ∀ rh ∈ r.hostnames, rh ≠ [])
    (hcat : (∀ l ∈ g.listeners, l.host ≠ NGF.NginxEval.catchAll) ∧ ∀ r ∈ s.routes, ∀ rh ∈ r.hostnames, rh ≠ NGF.NginxEval.catchAll)
    (hun : ¬ owned g s.routes q.port q.host) :
    ∀ sv ∈ (gen s).servers, sv.port = q.port → nameCovers sv.name q.host = false := by
  intro sv hsv hport
  unfold gen at hsv
  simp only [hw] at hsv
  obtain ⟨ph, hph, rfl⟩ := List.mem_map.mp hsv
  obtain ⟨l, hl, hlp, r, hr, hv, hacc⟩ := mem_hostsOf (p := ph.1) (h := ph.2) (by simpa using hph)
  have hp : l.port = q.port := by simp [serverOf] at hport; omega
  unfold acceptedAt at hacc
  by_cases hra : (refersTo g l r && nsAllowed g l r) = true
  · simp only [hra, ↓reduceIte] at hacc
    simp only [Bool.and_eq_true] at hra
    rw [Bool.eq_false_iff]
    intro hcov
    apply hun
    refine ⟨l, hl, hp, r, hr, hv, hra.1, hra.2, ?_⟩
    simp only [serverOf] at hcov
    by_cases hrs : r.hostnames = []
    · -- the listener hostname (or `~^`) is the accepted hostname
      rw [hrs] at hacc
      simp only [accepted, List.isEmpty_nil, ↓reduceIte] at hacc
      by_cases hle : l.host.isEmpty = true
      · have : l.host = [] := by simpa using hle
        exact ⟨by simp [NGF.Hostname.covers, this], Or.inl hrs⟩
      · simp only [hle, Bool.false_eq_true, ↓reduceIte, List.mem_singleton] at hacc
        rw [hacc] at hcov
        have hne' : l.host ≠ [] := by intro e; simp [e] at hle
        rw [nameCovers_eq hne' (hcat.1 l hl)] at hcov
        exact ⟨hcov, Or.inl hrs⟩
    · -- some route hostname matches: the accepted hostname is the more specific one
      have hmem := hacc
      unfold accepted at hmem
      have : r.hostnames.isEmpty = false := by cases hh : r.hostnames <;> simp_all
      simp only [this, Bool.false_eq_true, ↓reduceIte, List.mem_filterMap] at hmem
      obtain ⟨rh, hrh, hx⟩ := hmem
      by_cases hm : hmatch l.host rh = true
      · simp only [hm, ↓reduceIte, Option.some.injEq] at hx
        have hrhne : rh ≠ [] := hne r hr rh hrh
        have hne1 : ph.2 ≠ [] := by
          rw [← hx]
          by_cases hl0 : l.host = []
          · have hb : (([] : Str) == rh) = false := by
              cases hh : rh with
              | nil => exact absurd hh hrhne
              | cons _ _ => rfl
            rw [hl0]
            simp only [moreSpecific, hb, Bool.false_eq_true, ↓reduceIte, List.isEmpty_nil]
            exact hrhne
          · rcases moreSpecific_mem hm with e | e
            · rw [e]; exact hl0
            · rw [e]; exact hrhne
        have hne2 : ph.2 ≠ NGF.NginxEval.catchAll := by
          rw [← hx]
          rcases moreSpecific_mem hm with e | e
          · rw [e]; exact hcat.1 l hl
          · rw [e]; exact hcat.2 r hr rh hrh
        rw [nameCovers_eq hne1 hne2] at hcov
        have := (accepted_iff_intersection hrs (hne r hr) hq).mp ⟨ph.2, hacc, hcov⟩
        exact ⟨this.1, Or.inr this.2⟩
      · simp [hm] at hx
  · simp [hra] at hacc

/-- specification side: when nobody owns the host on the port, no candidate stands for it -/
theorem no_cand_covers_unowned {g : Gateway} {routes : List Route} {port : Nat} {q : Str}
    (hun : ¬ owned g routes port q) : ∀ c ∈ specCands g routes port, candCovers c q = false := by
  intro c hc
  unfold specCands at hc
  obtain ⟨l, hl, hc⟩ := List.mem_flatMap.mp hc
  by_cases hp : (l.port != port) = true
  · simp [hp] at hc
  · have hp' : l.port = port := by simpa using hp
    simp only [hp, Bool.false_eq_true, ↓reduceIte] at hc
    obtain ⟨r, hr, hc⟩ := List.mem_flatMap.mp hc
    by_cases hok : (!(r.valid && refersTo g l r && nsAllowed g l r)) = true
    · simp [hok] at hc
    · simp only [hok, Bool.false_eq_true, ↓reduceIte] at hc
      have hok' : r.valid = true ∧ refersTo g l r = true ∧ nsAllowed g l r = true := by
        cases hv : r.valid <;> cases hrf : refersTo g l r <;> cases hns : nsAllowed g l r <;> simp_all
      obtain ⟨rh, hrh, hc⟩ := List.mem_flatMap.mp hc
      obtain ⟨ir, _, hc⟩ := List.mem_flatMap.mp hc
      obtain ⟨jm, _, hc⟩ := List.mem_map.mp hc
      subst hc
      rw [Bool.eq_false_iff]
      intro hcov
      simp only [candCovers, Bool.and_eq_true] at hcov
      apply hun
      refine ⟨l, hl, hp', r, hr, hok'.1, hok'.2.1, hok'.2.2, hcov.1, ?_⟩
      by_cases hrs : r.hostnames = []
      · exact Or.inl hrs
      · right
        have : r.hostnames.isEmpty = false := by cases hh : r.hostnames <;> simp_all
        simp only [this, Bool.false_eq_true, ↓reduceIte] at hrh
        exact ⟨rh, hrh, hcov.2⟩

theorem best_nil : best [] = none := rfl

/-- The flagship statement on the region "nobody owns the host on this port": 404 on both sides. -/
theorem refines_unowned_host (s : Scenario) (q : Req) (g : Gateway) (hw : winner s = some g)
    (hport : g.listeners.any (·.port == q.port) = true)
    (hq : NGF.Hostname.isWild q.host = false ∧ q.host ≠ NGF.NginxEval.catchAll) (hlen : q.host.length < 100000)
    (hne : ∀ r ∈ s.routes, ∀ rh ∈ r.hostnames, rh ≠ [])
    (hcat : (∀ l ∈ g.listeners, l.host ≠ NGF.NginxEval.catchAll) ∧ ∀ r ∈ s.routes, ∀ rh ∈ r.hostnames, rh ≠ NGF.NginxEval.catchAll)
    (hun : ¬ owned g s.routes q.port q.host) :
    nginxEvalConf (gen s) q = routeF s q := by
  have hports : (gen s).ports.contains q.port = true := by
    have := ports_contains g q.port
    unfold gen; simp only [hw]; rw [this, hport]
  have h1 := nginx_uncovered_host_404 (gen s) q hq hlen hports (no_server_covers_unowned hw hq.1 hne hcat hun)
  have h2 : routeF s q = .status 404 := by
    unfold routeF
    simp only [hw, hport, Bool.not_true, Bool.false_eq_true, ↓reduceIte]
    have hnil : (specCands g s.routes q.port).filter (candCovers · q.host) = [] := by
      rw [List.filter_eq_nil_iff]
      intro c hc
      simp [no_cand_covers_unowned hun c hc]
    simp [hnil, best_nil]
  rw [h1, h2]

end NGF.Pipeline
