/-
Helper lemmas for Props/C04: from character-set facts about a regex to the lexical shapes of
Proofs/NginxLexHoles, `unescape` on backslash-free strings, and the soundness of the token judge.
Core Lean only.
-/
import NGF.Model.InjJudge
import NGF.Proofs.Regex
import NGF.Proofs.NginxLexHoles

namespace NGF.Inj
open NGF.Rx NGF.Nginx

/-- code points that are special somewhere in an NGINX token: white space ; { } \ $ " ' # -/
def specials : List Nat := [9, 10, 13, 32, 59, 123, 125, 92, 36, 34, 39, 35]

/-- `Plain c`: `c` is none of the special characters -/
def Plain (c : Char) : Prop := c.toNat ∉ specials

theorem plain_facts {c : Char} (h : Plain c) :
    isWs c = false ∧ c ≠ ';' ∧ c ≠ '{' ∧ c ≠ '}' ∧ c ≠ '\\' ∧ c ≠ '$' ∧ c ≠ '"' ∧ c ≠ '\'' ∧ c ≠ '#' := by
  have hne : ∀ d : Char, d.toNat ∈ specials → c ≠ d := by
    intro d hd hcd; subst hcd; exact h hd
  have h1 := hne ' ' (by decide)
  have h2 := hne '\t' (by decide)
  have h3 := hne '\r' (by decide)
  have h4 := hne '\n' (by decide)
  refine ⟨?_, hne _ (by decide), hne _ (by decide), hne _ (by decide), hne _ (by decide), hne _ (by decide),
    hne _ (by decide), hne _ (by decide), hne _ (by decide)⟩
  simp [isWs, h1, h2, h3, h4]

theorem plain_startOK {c : Char} (h : Plain c) : startOK c = true := by
  obtain ⟨h1, h2, h3, h4, h5, _, h7, h8, h9⟩ := plain_facts h
  simp [startOK, h1, h2, h3, h4, h5, h7, h8, h9]

theorem plain_not_term {m : Mode} (hm : tokenMode m) {c : Char} (h : Plain c) :
    isTerm m c = false ∧ c ≠ '\\' := by
  obtain ⟨h1, h2, h3, _, h5, _, h7, h8, _⟩ := plain_facts h
  rcases hm with rfl | rfl | rfl <;> simp [isTerm, h1, h2, h3, h5, h7, h8]

/-- a string of plain characters is inert in every token mode -/
theorem inert_of_plain {m : Mode} (hm : tokenMode m) {v : List Char} (h : ∀ c ∈ v, Plain c) : Inert m v :=
  inert_of_all_plain (fun c hc => plain_not_term hm (h c hc))

/-- all characters of a string matched by `r` are plain when the alphabet of `r` avoids the specials -/
theorem plain_of_matches {r : Regex} (hav : avoids (Regex.alphabet r) specials = true) {s : List Char}
    (h : r.Matches s) : ∀ c ∈ s, Plain c :=
  fun c hc => not_bad_of_avoids hav (Regex.alphabet_of_matches h c hc)

theorem ne_nil_of_matches {r : Regex} (hn : Re.nullable r.toRe = false) {s : List Char} (h : r.Matches s) :
    s ≠ [] := by
  intro hs; subst hs
  have := Re.nullable_iff.mpr h
  simp [hn] at this

theorem unescape_of_no_backslash : ∀ (s : List Char), '\\' ∉ s → unescape s = s := by
  intro s
  induction s with
  | nil => intro _; rfl
  | cons c t ih =>
    intro h
    have hc : c ≠ '\\' := fun e => h (e ▸ List.mem_cons_self ..)
    have ht : '\\' ∉ t := fun e => h (List.mem_cons_of_mem _ e)
    rw [unescape.eq_3 _ _ (fun c1 r1 e _ => hc e), ih ht]

theorem no_backslash_of_plain {s : List Char} (h : ∀ c ∈ s, Plain c) : '\\' ∉ s :=
  fun hm => (plain_facts (h _ hm)).2.2.2.2.1 rfl

theorem no_dollar_of_plain {s : List Char} (h : ∀ c ∈ s, Plain c) : '$' ∉ s :=
  fun hm => (plain_facts (h _ hm)).2.2.2.2.2.1 rfl

/-- the `(A|BC)*` shape with `"`,`\\` ∉ A and B = {`\\`} is the escaped-string shape of the lexer -/
theorem inert_dq_of_shape {A B C : Ranges} (hA : avoids A [34, 92] = true)
    (hB : ∀ n, inRanges B n = true → n = 92) {s : List Char} (hs : Re.Shape A B C s) : Inert .dq s := by
  induction hs with
  | nil => exact .nil
  | @one c t hc _ ih =>
    have hn := not_bad_of_avoids hA hc
    have hq : c ≠ '"' := by intro e; subst e; exact hn (by decide)
    have hb : c ≠ '\\' := by intro e; subst e; exact hn (by decide)
    exact .plain (by simp [isTerm, hq]) hb ih
  | @two b c t hb _ _ ih =>
    have h92 := hB _ hb
    have : b = '\\' := by
      apply Char.ext; apply UInt32.toNat_inj.mp
      exact h92
    subst this
    exact .esc ih

/-! ### the token judge -/

theorem judgeGo_refl (c : Ctx) (pos marked : Nat) (ts : List Tok) :
    judgeGo c pos marked ts ts = .ok marked := by
  induction ts generalizing c pos with
  | nil => rfl
  | cons t ts ih => simp [judgeGo, ih]

/-- what acceptance by the judge means: same length, and position by position the tokens are equal or
both are argument words and the probe's word carries the marker -/
def Agree : List Tok → List Tok → Prop
  | [], [] => True
  | b :: bs, p :: ps =>
    (b = p ∨ ∃ sb qb sp qp, b = .word sb qb ∧ p = .word sp qp ∧ hasMarker sp = true) ∧ Agree bs ps
  | _, _ => False

theorem agree_of_judgeGo (c : Ctx) (pos marked : Nat) (b p : List Tok) (k : Nat)
    (h : judgeGo c pos marked b p = .ok k) : Agree b p := by
  induction b generalizing c pos marked p with
  | nil =>
    cases p with
    | nil => trivial
    | cons _ _ => simp [judgeGo] at h
  | cons t ts ih =>
    cases p with
    | nil => simp [judgeGo] at h
    | cons u us =>
      simp only [judgeGo] at h
      by_cases heq : (t == u) = true
      · simp only [heq, if_true] at h
        exact ⟨.inl (by simpa using heq), ih _ _ _ _ h⟩
      · simp only [heq] at h
        cases t with
        | word sb qb =>
          cases u with
          | word sp qp =>
            simp only [Bool.false_eq_true, if_false] at h
            by_cases hm : hasMarker sp = true
            · simp only [hm, if_true] at h
              split at h
              · exact absurd h (by simp)
              · exact ⟨.inr ⟨sb, qb, sp, qp, rfl, rfl, hm⟩, ih _ _ _ _ h⟩
            · simp only [hm] at h
              exact absurd h (by simp)
          | semi => simp at h
          | «open» => simp at h
          | close => simp at h
        | semi => cases u <;> simp at h <;> simp at heq
        | «open» => cases u <;> simp at h <;> simp at heq
        | close => cases u <;> simp at h <;> simp at heq

theorem agree_length : ∀ (b p : List Tok), Agree b p → b.length = p.length
  | [], [], _ => rfl
  | [], _ :: _, h => absurd h (by simp [Agree])
  | _ :: _, [], h => absurd h (by simp [Agree])
  | _ :: bs, _ :: ps, h => by simp [agree_length bs ps h.2]

theorem agree_skeleton_kinds : ∀ (b p : List Tok), Agree b p →
    b.map (fun t => match t with | .word _ _ => 0 | .semi => 1 | .open => 2 | .close => 3) =
    p.map (fun t => match t with | .word _ _ => 0 | .semi => 1 | .open => 2 | .close => 3)
  | [], [], _ => rfl
  | [], _ :: _, h => absurd h (by simp [Agree])
  | _ :: _, [], h => absurd h (by simp [Agree])
  | b :: bs, p :: ps, h => by
    have ih := agree_skeleton_kinds bs ps h.2
    rcases h.1 with rfl | ⟨sb, qb, sp, qp, rfl, rfl, _⟩ <;> simp [ih]

end NGF.Inj
