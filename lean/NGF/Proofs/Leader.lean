/-
C09 — helper lemmas about the association-list operations and the state machine of
`NGF.Model.Leader`.  Core Lean only.
-/
import NGF.Model.Leader

namespace NGF.Leader

def keys (s : Saved) : List Group := s.map (·.1)

/-- no `Enable` among the operations -/
def NoEnable (ops : List Op) : Prop := ops.any Op.isEnable = false

instance (ops : List Op) : Decidable (NoEnable ops) := by unfold NoEnable; infer_instance

theorem noEnable_cons {op : Op} {ops : List Op} (h : NoEnable (op :: ops)) :
    op.isEnable = false ∧ NoEnable ops := by
  simpa [NoEnable] using h

/-! ### association list -/

theorem keys_del (g : Group) (s : Saved) : keys (del g s) = (keys s).filter (· != g) := by
  induction s with
  | nil => rfl
  | cons p t ih =>
    simp only [del, keys] at ih ⊢
    by_cases h : p.1 = g <;> simp [h, ih]

theorem not_mem_keys_del (g : Group) (s : Saved) : g ∉ keys (del g s) := by
  simp [keys_del]

theorem nodup_del {s : Saved} (g : Group) (h : (keys s).Nodup) : (keys (del g s)).Nodup := by
  rw [keys_del]
  exact h.sublist List.filter_sublist

theorem nodup_put {s : Saved} (g : Group) (r : List Req) (h : (keys s).Nodup) :
    (keys (put g r s)).Nodup := by
  have h1 := not_mem_keys_del g s
  have h2 := nodup_del g h
  simp only [put, keys, List.map_cons, List.nodup_cons] at *
  exact ⟨h1, h2⟩

theorem del_eq_self {g : Group} {s : Saved} (h : g ∉ keys s) : del g s = s := by
  induction s with
  | nil => rfl
  | cons p t ih =>
    simp only [keys, List.map_cons, List.mem_cons, not_or] at h
    have ht : del g t = t := ih (by simpa [keys] using h.2)
    have hne : (p.1 != g) = true := by
      simp only [bne_iff_ne, ne_eq]
      exact fun e => h.1 e.symm
    simp only [del] at ht ⊢
    simp [hne, ht]

theorem get_none_of_not_mem {g : Group} {s : Saved} (h : g ∉ keys s) : get g s = none := by
  induction s with
  | nil => rfl
  | cons p t ih =>
    obtain ⟨k, v⟩ := p
    simp only [keys, List.map_cons, List.mem_cons, not_or] at h
    have hk : ¬ k = g := fun e => h.1 e.symm
    simp only [get, hk, if_false]
    exact ih (by simpa [keys] using h.2)

theorem get_some_perm {g : Group} {r : List Req} {s : Saved} (hn : (keys s).Nodup)
    (hg : get g s = some r) : s.Perm ((g, r) :: del g s) := by
  induction s with
  | nil => simp [get] at hg
  | cons p t ih =>
    obtain ⟨k, v⟩ := p
    simp only [keys, List.map_cons, List.nodup_cons] at hn
    by_cases hk : k = g
    · subst hk
      simp only [get, if_true, Option.some.injEq] at hg
      subst hg
      have : del k ((k, v) :: t) = t := by
        have ht : del k t = t := del_eq_self (by simpa [keys] using hn.1)
        simp only [del] at ht ⊢
        simp [ht]
      rw [this]
    · simp only [get, hk, if_false] at hg
      have ih' := ih (by simpa [keys] using hn.2) hg
      have hne : ((k, v).1 != g) = true := by simpa using hk
      have : del g ((k, v) :: t) = (k, v) :: del g t := by
        simp only [del]
        simp [hne]
      rw [this]
      exact (List.Perm.cons _ ih').trans (List.Perm.swap _ _ _)

/-- Whatever the iteration order, the flush visits every saved entry exactly once. -/
theorem flush_perm : ∀ (o : List Group) (s : Saved), (keys s).Nodup → (flush o s).Perm s
  | [], s, _ => by simp [flush]
  | g :: gs, s, hn => by
    simp only [flush]
    cases hg : get g s with
    | none => exact flush_perm gs s hn
    | some r =>
      exact (List.Perm.cons _ (flush_perm gs (del g s) (nodup_del g hn))).trans
        (get_some_perm hn hg).symm

/-! ### state machine -/

theorem run_append (s : LState) (a b : List Op) :
    run s (a ++ b) = run s a ++ run (exec s a) b := by
  induction a generalizing s with
  | nil => rfl
  | cons op a ih => simp [run, exec, ih]

theorem exec_append (s : LState) (a b : List Op) : exec s (a ++ b) = exec (exec s a) b := by
  induction a generalizing s with
  | nil => rfl
  | cons op a ih => simp [exec, ih]

theorem run_length (s : LState) (ops : List Op) : (run s ops).length = ops.length := by
  induction ops generalizing s with
  | nil => rfl
  | cons op ops ih => simp [run, ih]

/-- once enabled: nothing is saved any more, every submission is one immediate write -/
theorem enabled_step {s : LState} (h : s.enabled = true) (op : Op) :
    step s op = (s, after op) := by
  cases op <;> simp [step, after, h]

theorem enabled_exec {s : LState} (h : s.enabled = true) (ops : List Op) : exec s ops = s := by
  induction ops with
  | nil => rfl
  | cons op ops ih => simp [exec, enabled_step h, ih]

theorem enabled_run {s : LState} (h : s.enabled = true) (ops : List Op) :
    run s ops = ops.map after := by
  induction ops with
  | nil => rfl
  | cons op ops ih => simp [run, enabled_step h, ih]

/-- a submission before `Enable`: only the map changes -/
theorem disabled_update {s : LState} (h : s.enabled = false) (g : Group) (r : List Req) :
    step s (.update g r) =
      ({ enabled := false, saved := if r.isEmpty then del g s.saved else put g r s.saved },
       .writes []) := by
  cases s with
  | mk e sv =>
    simp only at h
    subst h
    by_cases hr : r.isEmpty = true <;> simp [step, hr]

theorem superseded_cons_update (k g : Group) (r : List Req) (rest : List Op) :
    superseded k (.update g r :: rest) = (g == k || superseded k rest) := by
  simp [superseded]

theorem filter_del_superseded (g : Group) (r : List Req) (rest : List Op) (sv : Saved) :
    (del g sv).filter (fun p => !superseded p.1 rest) =
      sv.filter (fun p => !superseded p.1 (.update g r :: rest)) := by
  simp only [del, List.filter_filter]
  apply List.filter_congr
  intro p _
  rw [superseded_cons_update]
  by_cases h : p.1 = g
  · simp [h]
  · have e1 : (p.1 != g) = true := by simpa using h
    have e2 : (g == p.1) = false := by
      simp only [beq_eq_false_iff_ne, ne_eq]
      exact fun e => h e.symm
    cases superseded p.1 rest <;> simp [e1, e2]

/-- Before `Enable`: nothing is written, the replica stays disabled, the map keeps one entry per group
and holds exactly the not-superseded old entries plus `latest` of the new submissions. -/
theorem disabled_exec : ∀ (pre : List Op) (s : LState), s.enabled = false → NoEnable pre →
    (keys s.saved).Nodup →
    (exec s pre).enabled = false ∧ (keys (exec s pre).saved).Nodup ∧
    run s pre = pre.map (fun _ => Out.writes []) ∧
    (exec s pre).saved.Perm (s.saved.filter (fun p => !superseded p.1 pre) ++ latest pre)
  | [], s, he, _, hn => by
    refine ⟨he, hn, rfl, ?_⟩
    have : s.saved.filter (fun p => !superseded p.1 []) = s.saved :=
      List.filter_eq_self.2 (by simp [superseded])
    simp [exec, latest, this]
  | .enable o :: rest, _, _, hp, _ => by
    have := (noEnable_cons hp).1
    simp [Op.isEnable] at this
  | .update g r :: rest, s, he, hp, hn => by
    have hrest := (noEnable_cons hp).2
    have hstep := disabled_update he g r
    let sv' : Saved := if r.isEmpty then del g s.saved else put g r s.saved
    have hn' : (keys sv').Nodup := by
      by_cases hr : r.isEmpty = true
      · simpa [sv', hr] using nodup_del g hn
      · simpa [sv', hr] using nodup_put g r hn
    obtain ⟨e', n', r', p'⟩ :=
      disabled_exec rest { enabled := false, saved := sv' } rfl hrest hn'
    simp only [exec, run, hstep, List.map_cons]
    refine ⟨e', n', by rw [r'], ?_⟩
    refine p'.trans ?_
    by_cases hr : r.isEmpty = true
    · -- an empty submission clears the entry and contributes nothing
      simp only [sv', hr, if_true, latest, Bool.or_true]
      rw [filter_del_superseded g r rest s.saved]
    · have hr' : r.isEmpty = false := by simpa using hr
      simp only [sv', hr', Bool.false_eq_true, if_false, put, Bool.or_false, latest]
      by_cases hs : superseded g rest = true
      · rw [List.filter_cons_of_neg (by simp [hs])]
        rw [filter_del_superseded g r rest s.saved]
        simp [hs]
      · have hs' : superseded g rest = false := by simpa using hs
        rw [List.filter_cons_of_pos (by simp [hs'])]
        rw [filter_del_superseded g r rest s.saved]
        simp only [hs', Bool.false_eq_true, if_false]
        exact List.perm_middle.symm

/-! ### `latest` says "last submission of its group, and not empty" -/

theorem superseded_of_mem_latest {g : Group} {r : List Req} :
    ∀ {ops : List Op}, (g, r) ∈ latest ops → superseded g ops = true
  | [], h => by simp [latest] at h
  | .enable _ :: ops, h => by
    have := superseded_of_mem_latest (ops := ops) (by simpa [latest] using h)
    simpa [superseded] using this
  | .update g' r' :: ops, h => by
    rw [superseded_cons_update]
    simp only [latest] at h
    split at h
    · simp [superseded_of_mem_latest h]
    · rcases List.mem_cons.1 h with h | h
      · simp only [Prod.mk.injEq] at h
        simp [h.1]
      · simp [superseded_of_mem_latest h]

theorem latest_keys_nodup : ∀ (ops : List Op), (keys (latest ops)).Nodup
  | [] => by simp [latest, keys]
  | .enable _ :: ops => by simpa [latest] using latest_keys_nodup ops
  | .update g r :: ops => by
    simp only [latest]
    split
    · exact latest_keys_nodup ops
    · next hc =>
      simp only [Bool.or_eq_true, not_or] at hc
      simp only [keys, List.map_cons, List.nodup_cons]
      refine ⟨?_, latest_keys_nodup ops⟩
      intro hm
      obtain ⟨⟨g', r'⟩, hm', hg⟩ := List.mem_map.1 hm
      simp only at hg
      subst hg
      exact hc.1 (superseded_of_mem_latest hm')

theorem allWrites_nothing (pre : List Op) :
    allWrites (pre.map (fun _ => Out.writes [])) = [] := by
  induction pre with
  | nil => rfl
  | cons _ t ih => simp [allWrites]

theorem allWrites_after (post : List Op) : allWrites (post.map after) = submissions post := by
  induction post with
  | nil => rfl
  | cons op t ih =>
    cases op <;> simp_all [allWrites, submissions, after]

end NGF.Leader
